#!/bin/bash
# development helper (not a registered check): evaluate kept seeded changes in parallel, each in a scratch pair
# <pool>/<k>/{verif,repo} (copy of /verif incl. build output + a detached git worktree of /repo), so that /repo itself
# is never touched.     ./pseed.sh [-j N] <seed-id>... [-- <property-override>]
# Verdict lines are appended to seeded/results.txt. Pool directories are removed at the end.
export GOFLAGS=-mod=mod GOPROXY=off GOSUMDB=off GOTOOLCHAIN=local
J=5; tier=${TIER:-quick}; ids=(); over=""
while [ $# -gt 0 ]; do case "$1" in -j) J=$2; shift 2;; --) over="$2"; shift 2;; *) ids+=("$1"); shift;; esac; done
pool=/tmp/vw-pool-$$; mkdir -p $pool
cleanup() { for k in $(seq 0 $((J-1))); do git -C /repo worktree remove --force $pool/$k/repo 2>/dev/null; done; rm -rf $pool; git -C /repo worktree prune; }
trap cleanup EXIT
for k in $(seq 0 $((J-1))); do
  mkdir -p $pool/$k
  git -C /repo worktree add -q --detach $pool/$k/repo HEAD
  rsync -a --exclude .git --exclude replays --exclude 'seeded/*/demo*' /verif/ $pool/$k/verif/
  sed -i "s#=> /repo#=> $pool/$k/repo#" $pool/$k/verif/harness/go.mod
done
one() { # $1 = slot, $2 = id
  k=$1; id=$2; prop=${over:-${id%%-*}}; V=$pool/$k/verif; R=$pool/$k/repo
  git -C $R checkout -q -- . ; git -C $R clean -fdq
  if ! git -C $R apply --whitespace=nowarn /verif/seeded/$id/patch.diff 2>/dev/null; then echo "$id apply-failed"; return; fi
  build=ok; (cd $R && go build ./... ) >/dev/null 2>&1 || build=FAIL
  if [ -n "$TESTS" ]; then # the repository's own test suite must still pass with the change
    (cd $R && go test -vet=off -count=1 ./... ) >/dev/null 2>&1 && (cd $R/example && go build ./... && go test -vet=off -count=1 . ./permessage ./proto3) >/dev/null 2>&1 && build=ok+tests || build=TESTS-FAIL
  fi
  full=$(cd $V && VERIF_DIR=$V VERIF_REPO=$R timeout 1800 ./check $prop --tier $tier 2>&1)
  git -C $R checkout -q -- . ; git -C $R clean -fdq
  verdict=MISSED; echo "$full" | grep -q "^VIOLATION property=$prop" && verdict=CAUGHT
  kind=failing-input; echo "$full" | grep "^VIOLATION property=$prop" | grep -q "no-failing-input-found" && kind=no-failing-input-found
  [ $verdict = MISSED ] && kind=-
  summary=$(echo "$full" | grep -E "^VIOLATION|tier=" | tr '\n' ' ' | sed "s#$V#/verif#g" | cut -c1-300)
  echo "$id check=$prop build=$build tier=$tier $verdict $kind :: $summary"
  if [ $verdict = CAUGHT ] && [ -f $V/replays/$prop-1.json ]; then jq -c '{kind, broken: .broken_obligations, first: (.violations[0] // .disagreements[0] // null)}' $V/replays/$prop-1.json 2>/dev/null | cut -c1-1500 > /verif/seeded/$id/check-output.json; fi
}
export -f one; export pool over tier TESTS
# deal the ids out to the slots round-robin; each slot works through its share sequentially
for k in $(seq 0 $((J-1))); do
  ( i=0; for id in "${ids[@]}"; do [ $((i % J)) = $k ] && one $k $id; i=$((i+1)); done ) &
done | tee -a /verif/seeded/results.txt
wait
