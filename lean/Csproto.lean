import Csproto.Model.Basic
import Csproto.Model.Wire
import Csproto.Model.Enc
import Csproto.Model.Dec
import Csproto.Generated.Facts
import Csproto.Bridge.Facts
import Csproto.Props.C01
import Csproto.Audit.C01
