import Csproto.Model.Basic
import Csproto.Model.Wire
