import Csproto.Model.Shim
import Driver.Proto
/- driver command M: shim decision logic -/
namespace Csproto.Driver
open Csproto Csproto.Proto

def cmdM : List String → String
  | ["deduce", bits] =>
    match bits.toList with
    | [a, b, c, d, e] =>
      let t (x : Char) := x = '1'
      toString (msgType { nilIface := t a, isV2 := t b, isPtr := t c, isV1Iface := t d, gogoRegistered := t e }).toNat
    | _ => "bad"
  | _ => "bad"

end Csproto.Driver
