import Csproto.Model.Shim
import Csproto.Model.Ext
import Driver.Proto
/- driver command M: shim decision logic -/
namespace Csproto.Driver
open Csproto Csproto.Proto

def cmdM : List String → String
  | ["deduce", bits] =>
    match bits.toList with
    | [a, b, c, d, e] =>
      let t (x : Char) := x = '1'
      toString (msgType { nilIface := t a, isV2 := t b, isPtr := t c, isV1Iface := t d, gogoRegistered := t e }).toNat
    | _ => "bad"
  | ["equal", t1, t2, same, rt] =>
    let mt (s : String) : Option MT :=
      match s with
      | "0" => some .unknown | "1" => some .gogo | "2" => some .googleV1 | "3" => some .google | _ => none
    match mt t1, mt t2 with
    | some a, some b => if shimEqual a b (same == "1") (rt == "1") then "1" else "0"
    | _, _ => "bad"
  | _ => "bad"

/-! `M ext <mt> <dk> <init> ; op ; op ; …` — a history of extension accessor calls through the dispatcher
    (`C12.runCs`) on the abstract store; `init` is `-` or `k:v,k:v,…`; ops: `set k v`, `clear k`, `clearall`,
    `has k`, `get k`, `range`.  Reply: one token per op (`u`, `b0`/`b1`, `v<n>`/`vnone`, `k<sorted numbers>`,
    `err`, `panic`). -/

def parseMT : String → Option MT
  | "0" => some .unknown | "1" => some .gogo | "2" => some .googleV1 | "3" => some .google | _ => none

def parseDK : String → Option C12.DK
  | "gogoDesc" => some .gogoDesc | "googleInfo" => some .googleInfo | "otherV2Type" => some .otherV2Type
  | "other" => some .other | _ => none

def parseExtOp (s : String) : Option C12.Op :=
  match words s with
  | ["set", k, v] => do pure (.set (← k.toNat?) (← v.toNat?))
  | ["clear", k] => do pure (.clear (← k.toNat?))
  | ["clearall"] => some .clearAll
  | ["has", k] => do pure (.has (← k.toNat?))
  | ["get", k] => do pure (.get (← k.toNat?))
  | ["range"] => some .range
  | _ => none

def parseStore (s : String) : Option C12.Store :=
  parseList (fun kv => match kv.splitOn ":" with
    | [k, v] => do pure ((← k.toNat?), (← v.toNat?))
    | _ => none) s

def insertSortedNat (n : Nat) : List Nat → List Nat
  | [] => [n]
  | m :: ms => if n ≤ m then n :: m :: ms else m :: insertSortedNat n ms

def showExtOut : C12.Out → String
  | .unit => "u"
  | .bool b => if b then "b1" else "b0"
  | .val none => "vnone"
  | .val (some v) => s!"v{v}"
  | .keys ks => "k" ++ showList toString (ks.foldr insertSortedNat [])
  | .err => "err"
  | .panic => "panic"

def cmdMext (args rest : List String) : String :=
  match args with
  | [mt, dk, init] =>
    match parseMT mt, parseDK dk, parseStore init, rest.mapM parseExtOp with
    | some mt, some dk, some st, some ops => " ".intercalate ((C12.runCs mt dk st ops).2.map showExtOut)
    | _, _, _, _ => "bad"
  | _ => "bad"

end Csproto.Driver
