import Csproto.Spec.WireSpec
import Driver.Proto
/- driver commands exposing the independent specification (spec-vs-reference stream) -/
namespace Csproto.Driver
open Csproto Csproto.Proto Csproto.Spec

def cmdS : List String → String
  | ["canon", h] => match hexToBytes h with
    | some b => if contOK b && (b.length == 1 || lastGroupNonZero b) then s!"canon {varintValue b}"
                else if contOK b then s!"noncanon {varintValue b}" else "notvarint"
    | none => "bad"
  | ["le", h] => match hexToBytes h with | some b => toString (leValue b) | none => "bad"
  | ["twos", i] => match parseInt i with | some i => toString (twos64 i) | none => "bad"
  | ["zz", i] => match parseInt i with | some i => toString (zz i) | none => "bad"
  | ["key", n, w] => match n.toNat?, w.toNat? with | some n, some w => toString (key n w) | _, _ => "bad"
  | _ => "bad"

end Csproto.Driver
