import Csproto.Model.Wire
import Csproto.Model.Enc
import Csproto.Model.Dec
import Driver.Proto
/- driver commands for the wire layer (W), encoder programs (E) and decoder programs (D) -/
namespace Csproto.Driver
open Csproto Csproto.Proto

def showRes2 (f : α → String) : Res (α × Nat) → String
  | .ok (v, n) => s!"ok {f v} {n}"
  | .err => "err"
  | .panic => "panic"

def cmdW : List String → String
  | ["ev", v] => match v.toNat? with | some n => bytesToHex (encVarint n) | none => "bad"
  | ["dv", h] => match hexToBytes h with | some b => showRes2 toString (decodeVarint b) | none => "bad"
  | ["zz32", v] => match parseInt v with | some i => bytesToHex (encZigZag32 i) | none => "bad"
  | ["zz64", v] => match parseInt v with | some i => bytesToHex (encZigZag64 i) | none => "bad"
  | ["dzz32", h] => match hexToBytes h with | some b => showRes2 toString (decodeZigZag32 b) | none => "bad"
  | ["dzz64", h] => match hexToBytes h with | some b => showRes2 toString (decodeZigZag64 b) | none => "bad"
  | ["key", t, w] => match t.toNat?, w.toNat? with
      | some t, some w => bytesToHex (encTag t w) | _, _ => "bad"
  | ["f32", v] => match v.toNat? with | some n => bytesToHex (encFixed32 n) | none => "bad"
  | ["f64", v] => match v.toNat? with | some n => bytesToHex (encFixed64 n) | none => "bad"
  | ["df32", h] => match hexToBytes h with | some b => showRes2 toString (decodeFixed32 b) | none => "bad"
  | ["df64", h] => match hexToBytes h with | some b => showRes2 toString (decodeFixed64 b) | none => "bad"
  | ["szv", v] => match v.toNat? with | some n => toString (sizeOfVarint n) | none => "bad"
  | ["szz", v] => match parseInt v with | some i => toString (sizeOfZigZag i) | none => "bad"
  | ["szk", v] => match v.toNat? with | some n => toString (sizeOfTagKey n) | none => "bad"
  | _ => "bad"

def parseBool (s : String) : Option Bool :=
  if s = "1" then some true else if s = "0" then some false else none

def parseEncOp : List String → Option EncOp
  | ["bool", t, v] => do pure (.bool (← t.toNat?) (← parseBool v))
  | ["varint", t, v] => do pure (.varint (← t.toNat?) (← v.toNat?))
  | ["zz32", t, v] => do pure (.zigzag32 (← t.toNat?) (← parseInt v))
  | ["zz64", t, v] => do pure (.zigzag64 (← t.toNat?) (← parseInt v))
  | ["f32", t, v] => do pure (.fixed32 (← t.toNat?) (← v.toNat?))
  | ["f64", t, v] => do pure (.fixed64 (← t.toNat?) (← v.toNat?))
  | ["bytes", t, h] => do pure (.bytes (← t.toNat?) (← hexToBytes h))
  | ["pbool", t, vs] => do pure (.packedBool (← t.toNat?) (← parseList parseBool vs))
  | ["pvarint", t, vs] => do pure (.packedVarint (← t.toNat?) (← parseList String.toNat? vs))
  | ["pzz32", t, vs] => do pure (.packedZigzag32 (← t.toNat?) (← parseList parseInt vs))
  | ["pzz64", t, vs] => do pure (.packedZigzag64 (← t.toNat?) (← parseList parseInt vs))
  | ["pf32", t, vs] => do pure (.packedFixed32 (← t.toNat?) (← parseList String.toNat? vs))
  | ["pf64", t, vs] => do pure (.packedFixed64 (← t.toNat?) (← parseList String.toNat? vs))
  | ["raw", h] => do pure (.raw (← hexToBytes h))
  | ["maphdr", t, sz] => do pure (.mapHeader (← t.toNat?) (← sz.toNat?))
  | ["nested", t, sz, how, body] => do
      let b ← if body = "fail" then some none else (hexToBytes body).map some
      pure (.nested (← t.toNat?) (← sz.toNat?) (← how.toNat?) b)
  | _ => none

/-- `E <cap> ; op ; op …` → `st,st,… <hex of whole buffer> <cursor>` or `st,…,panic` -/
def runEnc (e : Enc) : List EncOp → List String → String
  | [], sts => s!"{",".intercalate sts.reverse} {bytesToHex e.buf} {e.off}"
  | op :: ops, sts =>
    match e.step op with
    | .ok e' => runEnc e' ops ("ok" :: sts)
    | .err e' => runEnc e' ops ("err" :: sts)
    | .panic => ",".intercalate ("panic" :: sts).reverse

def cmdE (segs : List String) : String :=
  match segs with
  | [] => "bad"
  | hd :: ops =>
    match (words hd), ops.mapM (fun s => parseEncOp (words s)) with
    | [cap], some ops => match cap.toNat? with
      | some c => runEnc (Enc.new c) ops []
      | none => "bad"
    | [cap, fill], some ops => match cap.toNat?, fill.toNat? with
      | some c, some f => runEnc { buf := List.replicate c (UInt8.ofNat f), off := 0 } ops []
      | _, _ => "bad"
    | _, _ => "bad"

def showItem : Item → String
  | .unit => "u"
  | .bool b => if b then "b1" else "b0"
  | .nat n => s!"n{n}"
  | .int i => s!"i{i}"
  | .bytes b => s!"x{bytesToHex b}"
  | .tag n wt => s!"t{n}/{wt}"
  | .bools bs => "B" ++ showList (fun b => if b then "1" else "0") bs
  | .nats ns => "N" ++ showList toString ns
  | .ints is => "I" ++ showList toString is

def parseDecOp : List String → Option DecOp
  | ["tag"] => some .tag | ["bool"] => some .bool | ["string"] => some .string
  | ["bytes"] => some .bytes | ["uint32"] => some .uint32 | ["uint64"] => some .uint64
  | ["int32"] => some .int32 | ["int64"] => some .int64 | ["sint32"] => some .sint32
  | ["sint64"] => some .sint64 | ["fixed32"] => some .fixed32 | ["fixed64"] => some .fixed64
  | ["float32"] => some .float32 | ["float64"] => some .float64
  | ["pbool"] => some .packedBool | ["pint32"] => some .packedInt32 | ["pint64"] => some .packedInt64
  | ["puint32"] => some .packedUint32 | ["puint64"] => some .packedUint64
  | ["psint32"] => some .packedSint32 | ["psint64"] => some .packedSint64
  | ["pfixed32"] => some .packedFixed32 | ["pfixed64"] => some .packedFixed64
  | ["pfloat32"] => some .packedFloat32 | ["pfloat64"] => some .packedFloat64
  | ["nested", ok] => do pure (.nested (← parseBool ok))
  | ["skip", t, w] => do pure (.skip (← t.toNat?) (← w.toNat?))
  | ["seek", o, w] => do pure (.seek (← parseInt o) (← parseInt w))
  | ["reset"] => some .reset
  | ["mode", f] => do pure (.setMode (← parseBool f))
  | ["more"] => some .more | ["offset"] => some .offset
  | ["resync", n] => do pure (.resync (← n.toNat?))
  | _ => none

def showDecOut (d : Dec) : DecOut × Nat → String
  | (.ok it, a) => s!"ok:{showItem it}:{d.off}:{a}"
  | (.err, _) => "err"
  | (.errNested p, _) => s!"errn:{bytesToHex p}"
  | (.panic, _) => "panic"

def runDec (d : Dec) : List DecOp → List String → String
  | [], acc => " ; ".intercalate acc.reverse
  | op :: ops, acc =>
    let (d', o, a) := d.step op
    runDec d' ops (showDecOut d' (o, a) :: acc)

/-- `D <safe|fast> <hex> ; op ; …` -/
def cmdD (segs : List String) : String :=
  match segs with
  | [] => "bad"
  | hd :: ops =>
    match words hd, ops.mapM (fun s => parseDecOp (words s)) with
    | [mode, h], some ops =>
      match hexToBytes h with
      | some b => runDec { p := b, off := 0, fast := mode = "fast" } ops []
      | none => "bad"
    | _, _ => "bad"

end Csproto.Driver
