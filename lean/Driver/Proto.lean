import Csproto.Model.Basic
/- line-protocol helpers: tokens, hex, numbers (core-only) -/
namespace Csproto.Proto
open Csproto

def hexDigit (n : Nat) : Char :=
  if n < 10 then Char.ofNat (48 + n) else Char.ofNat (87 + n)

def bytesToHex (bs : Bytes) : String :=
  if bs.isEmpty then "-" else
  String.ofList (bs.foldr (fun b acc => hexDigit (b.toNat / 16) :: hexDigit (b.toNat % 16) :: acc) [])

def hexVal (c : Char) : Option Nat :=
  if '0' ≤ c ∧ c ≤ '9' then some (c.toNat - 48)
  else if 'a' ≤ c ∧ c ≤ 'f' then some (c.toNat - 87)
  else if 'A' ≤ c ∧ c ≤ 'F' then some (c.toNat - 55)
  else none

def hexToBytesAux : List Char → Option Bytes
  | [] => some []
  | [_] => none
  | a :: b :: rest => do
    let x ← hexVal a
    let y ← hexVal b
    let r ← hexToBytesAux rest
    pure (UInt8.ofNat (x * 16 + y) :: r)

def hexToBytes (s : String) : Option Bytes :=
  if s = "-" then some [] else hexToBytesAux s.toList

def parseInt (s : String) : Option Int :=
  if s.startsWith "-" then (s.drop 1).toNat?.map (fun n => -(n : Int)) else s.toNat?.map (fun n => (n : Int))

def parseList (f : String → Option α) (s : String) : Option (List α) :=
  if s = "-" then some [] else (s.splitOn ",").mapM f

def showList (f : α → String) (xs : List α) : String :=
  if xs.isEmpty then "-" else ",".intercalate (xs.map f)

def words (s : String) : List String := (s.splitOn " ").filter (· ≠ "")

end Csproto.Proto
