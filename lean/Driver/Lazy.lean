import Csproto.Model.Pool
import Driver.Wire
/- driver command L: lazyproto histories (C13, C14, C15) -/
namespace Csproto.Driver
open Csproto Csproto.Proto

/-- def syntax: `(3,-4,5:(1,2:(7)))` -/
partial def parseDefEntries (cs : List Char) (acc : List (Int × Option LDef)) : Option (List (Int × Option LDef) × List Char) :=
  match cs with
  | ')' :: rest => some (acc.reverse, rest)
  | ',' :: rest => parseDefEntries rest acc
  | _ =>
    let numChars := cs.takeWhile (fun c => c.isDigit || c = '-')
    if numChars.isEmpty then none else
    match parseInt (String.ofList numChars) with
    | none => none
    | some k =>
      match cs.drop numChars.length with
      | ':' :: '(' :: rest =>
        match parseDefEntries rest [] with
        | some (sub, rest') => parseDefEntries rest' ((k, some (LDef.node sub)) :: acc)
        | none => none
      | rest => parseDefEntries rest ((k, none) :: acc)

def parseDef (s : String) : Option LDef :=
  match s.toList with
  | '(' :: rest => match parseDefEntries rest [] with
    | some (es, []) => some (LDef.node es)
    | _ => none
  | _ => none

def parseAcc : String → Option Acc
  | "Bool" => some .bool | "Bools" => some .bools | "String" => some .string | "Strings" => some .strings
  | "Bytes" => some .bytes | "Bytess" => some .bytess
  | "UInt32" => some .uint32 | "UInt32s" => some .uint32s | "Int32" => some .int32 | "Int32s" => some .int32s
  | "SInt32" => some .sint32 | "SInt32s" => some .sint32s | "UInt64" => some .uint64 | "UInt64s" => some .uint64s
  | "Int64" => some .int64 | "Int64s" => some .int64s | "SInt64" => some .sint64 | "SInt64s" => some .sint64s
  | "Fixed32" => some .fixed32 | "Fixed32s" => some .fixed32s | "Fixed64" => some .fixed64 | "Fixed64s" => some .fixed64s
  | "Float32" => some .float32 | "Float32s" => some .float32s | "Float64" => some .float64 | "Float64s" => some .float64s
  | _ => none

def parseChoice (s : String) : Option Choice :=
  match s.splitOn ":" with
  | ["new", id] => id.toNat?.map Choice.new
  | ["reuse", id] => id.toNat?.map Choice.reuse
  | _ => none

def parseLOp : List String → Option LOp
  | ["decode", h, hex, c] => do pure (.decode (← h.toNat?) (← hexToBytes hex) (← parseChoice c))
  | ["acc", h, path, a] => do
      let p ← (path.splitOn ".").mapM parseInt
      pure (.acc (← h.toNat?) p (← parseAcc a))
  | ["nested", h, tag, h', c] => do pure (.nested (← h.toNat?) (← parseInt tag) (← h'.toNat?) (← parseChoice c))
  | ["nesteds", h, tag, hs, cs] => do
      pure (.nesteds (← h.toNat?) (← parseInt tag) (← parseList String.toNat? hs) (← parseList parseChoice cs))
  | ["range", h] => do pure (.range (← h.toNat?))
  | ["close", h] => do pure (.close (← h.toNat?))
  | _ => none

def showAns : Ans → String
  | .ok it => s!"ok:{showItem it}"
  | .okBytesList bs => "okl:" ++ showList bytesToHex bs
  | .notFound => "nf" | .notDefined => "nd" | .nestingNotDefined => "nnd" | .mismatch => "mm"
  | .overflow => "of" | .err => "err" | .panic => "panic"

def showLOut : LOut → String
  | .ok => "ok" | .nil => "nil" | .err => "err" | .panic => "panic" | .notPooled => "notpooled"
  | .ans a => showAns a
  | .many ps => "many:" ++ showList (fun b => if b then "1" else "0") ps
  | .tags ts => "tags:" ++ showList (fun (t, p) => s!"{t}={if p then 1 else 0}") ts
  | .badHandle => "badhandle"

def runLazy (s : LState) : List LOp → List String → String
  | [], acc => " ; ".intercalate acc.reverse
  | op :: ops, acc =>
    let (s', o) := s.step op
    runLazy s' ops (showLOut o :: acc)

/-- `L <pooled 0|1> <def> ; op ; …` -/
def cmdL (segs : List String) : String :=
  match segs with
  | [] => "bad"
  | hd :: ops =>
    match words hd, ops.mapM (fun s => parseLOp (words s)) with
    | [pooled, d], some ops =>
      match parseDef d with
      | some def_ => runLazy (LState.init def_.compile (pooled = "1")) ops []
      | none => "baddef"
    | _, _ => "bad"

end Csproto.Driver
