import Csproto.Model.Hex
import Csproto.Model.Dump
import Driver.Proto
/- driver commands for the tooling models (T): annotated hex, protodump -/
namespace Csproto.Driver
open Csproto Csproto.Proto

def utf8Chars (b : Bytes) : Option (List Char) :=
  (String.fromUTF8? (ByteArray.mk b.toArray)).map String.toList

/-- flag values: `-` for none, else hex-encoded values separated by `+` (one per occurrence of the flag) -/
def parseFlagValues (s : String) : Option (List (List Char)) :=
  if s = "-" then some [] else (s.splitOn "+").mapM fun h => (hexToBytes h).bind utf8Chars

def applyFlag (vals : List (List Char)) : Option (List (List Nat)) :=
  vals.foldlM (fun acc v => parsePaths acc v) []

def cmdT : List String → String
  | ["hex", h] =>
    -- well-formed UTF-8 goes through the core library's decoder, anything else through `goRunes`
    match hexToBytes h with
    | some raw =>
      let cs := match utf8Chars raw with
        | some cs => cs
        | none => goRunes raw
      match parseAnnotatedHex cs with
      | some b => s!"ok {bytesToHex b}"
      | none => "err"
    | none => "bad"
  | ["hexg", h] =>
    -- the same through `goRunes` only (development aid: both decoders must agree on well-formed UTF-8)
    match hexToBytes h with
    | some raw => match parseAnnotatedHexBytes raw with
      | some b => s!"ok {bytesToHex b}"
      | none => "err"
    | none => "bad"
  | ["dump", e, s, h] =>
    match parseFlagValues e, parseFlagValues s, hexToBytes h with
    | some ev, some sv, some data =>
      match applyFlag ev, applyFlag sv with
      | some ex, some st =>
        let (out, e) := dumpProto data ex st
        let st := match e with | .ok => "ok" | .err => "err" | .panic => "panic"
        s!"{st} {bytesToHex out}"
      | _, _ => "flagerr"
    | _, _, _ => "bad"
  | _ => "bad"

end Csproto.Driver
