import Csproto.Model.Gen
import Csproto.Model.GenDec
import Driver.Proto
/-
  Line-protocol face of the generated-code model.

    G marshal ; <schema> ; <root index> ; <value>     →  size=<n> ok <hex> | size=<n> err | size=<n> panic

  schema : message types separated by `|`, fields by `,` (`-` = no fields), field = `num:ty:card`
           ty   = double float int32 int64 uint32 uint64 sint32 sint64 fixed32 fixed64 sfixed32 sfixed64
                  bool string bytes enum | m<index>
           card = i (implicit) e (explicit) o<g> (oneof g) r (required) a (always) l (list) p (packed) m (map)
  value  : tokens separated by blanks:  message = `{` field* `}` `u<hex>`;
           field = `_` | `n<dec>` | `h<hex>` | message | `[` (n.. | h.. | message)* `]`
           An entry of a map field is a message of the entry type: `{ <key> <value> } u-`.  A Go entry whose message
           value is a nil pointer is `{ <key> _ } u-` (`_` in value position, `F.unset`): the model passes it over
           in `Size` and `Marshal` as the generated code does.  (The harness sends such an entry when it has set a
           map value to nil; values without one are rendered as before.)
-/
namespace Csproto.Driver
open Csproto Csproto.Proto Csproto.Gen

def parseSK : String → Option SK
  | "double" => some .double | "float" => some .float | "int32" => some .int32 | "int64" => some .int64
  | "uint32" => some .uint32 | "uint64" => some .uint64 | "sint32" => some .sint32 | "sint64" => some .sint64
  | "fixed32" => some .fixed32 | "fixed64" => some .fixed64 | "sfixed32" => some .sfixed32
  | "sfixed64" => some .sfixed64 | "bool" => some .bool | "string" => some .string | "bytes" => some .bytes
  | "enum" => some .enum | _ => none

def parseTy (s : String) : Option Ty :=
  if s.startsWith "m" then (s.drop 1).toNat?.map Ty.msg else (parseSK s).map Ty.sc

def parseCard (s : String) : Option Card :=
  match s with
  | "i" => some .implicit | "e" => some .explicit | "r" => some .required | "a" => some .always
  | "l" => some .list | "p" => some .packed | "m" => some .map
  | "x" => some .explicit   -- a singular proto2 extension known to the file: see `Gen.extFD`
  | _ => if s.startsWith "o" then (s.drop 1).toNat?.map Card.oneof else none

def parseFD (s : String) : Option FD :=
  match s.splitOn ":" with
  | [n, t, c] => do
    let num ← n.toNat?
    let ty ← parseTy t
    let card ← parseCard c
    pure { num, ty, card }
  | _ => none

def parseMD (s : String) : Option MD :=
  if s = "-" then some [] else (s.splitOn ",").mapM parseFD

def parseSchema (s : String) : Option Schema := (s.splitOn "|").mapM parseMD

mutual
/-- parse one value (scalar or message) from the token list -/
def parseV : Nat → List String → Option (V × List String)
  | 0, _ => none
  | fuel + 1, tok :: rest =>
    if tok = "{" then
      match parseFs fuel rest with
      | some (fs, u :: rest') =>
        if u.startsWith "u" then (hexToBytes (u.drop 1).toString).map fun b => (V.msg fs b, rest') else none
      | _ => none
    else if tok.startsWith "n" then (tok.drop 1).toNat?.map fun n => (V.num n, rest)
    else if tok.startsWith "h" then (hexToBytes (tok.drop 1).toString).map fun b => (V.bs b, rest)
    else none
  | _, [] => none
/-- fields up to the closing brace -/
def parseFs : Nat → List String → Option (List F × List String)
  | 0, _ => none
  | fuel + 1, tok :: rest =>
    if tok = "}" then some ([], rest)
    else if tok = "_" then
      (parseFs fuel rest).map fun (fs, r) => (F.unset :: fs, r)
    else if tok = "[" then
      match parseVs fuel rest with
      | some (vs, r) => (parseFs fuel r).map fun (fs, r') => (F.many vs :: fs, r')
      | none => none
    else
      match parseV fuel (tok :: rest) with
      | some (v, r) => (parseFs fuel r).map fun (fs, r') => (F.one v :: fs, r')
      | none => none
  | _, [] => none
def parseVs : Nat → List String → Option (List V × List String)
  | 0, _ => none
  | fuel + 1, tok :: rest =>
    if tok = "]" then some ([], rest)
    else
      match parseV fuel (tok :: rest) with
      | some (v, r) => (parseVs fuel r).map fun (vs, r') => (v :: vs, r')
      | none => none
  | _, [] => none
end

def parseMsg (s : String) : Option (List F × Bytes) :=
  let toks := words s
  match parseV (toks.length + 1) toks with
  | some (.msg fs unk, []) => some (fs, unk)
  | _ => none

/-! rendering a decoded message in the same syntax, map entries sorted by the wire bytes of their key -/

def bytesLt : Bytes → Bytes → Bool
  | [], [] => false
  | [], _ => true
  | _, [] => false
  | a :: as, b :: bs => if a < b then true else if b < a then false else bytesLt as bs

def keyBytes (k : SK) (e : V) : Bytes := ((scalarOp k 1 (entryKey e)).wire).drop 1

def insertSorted (lt : V → V → Bool) (x : V) : List V → List V
  | [] => [x]
  | y :: ys => if lt x y then x :: y :: ys else y :: insertSorted lt x ys

def sortEntries (k : SK) (es : List V) : List V :=
  es.foldl (fun acc e => insertSorted (fun a b => bytesLt (keyBytes k a) (keyBytes k b)) e acc) []

mutual
partial def showMsg (S : Schema) (md : MD) (fs : List F) (unk : Bytes) : String :=
  let parts := (md.zip fs).map fun (p : FD × F) => showF S p.1 p.2
  "{ " ++ " ".intercalate parts ++ (if parts.isEmpty then "" else " ") ++ "} u" ++ bytesToHex unk
partial def showF (S : Schema) (fd : FD) : F → String
  | .unset => "_"
  | .one v => showV S fd.ty v
  | .many vs =>
    let vs := match fd.card, fd.ty with
      | .map, .msg i =>
        match (S.md i).head? with
        | some kfd => match kfd.ty with
          | .sc k => sortEntries k vs
          | _ => vs
        | none => vs
      | _, _ => vs
    "[ " ++ " ".intercalate (vs.map (showV S fd.ty)) ++ (if vs.isEmpty then "" else " ") ++ "]"
partial def showV (S : Schema) (ty : Ty) : V → String
  | .num n =>
    -- every NaN prints as one token: the harness reads floats back through float64, which quiets
    -- signalling NaNs
    match ty with
    | .sc .float => if n / 8388608 % 256 = 255 ∧ n % 8388608 ≠ 0 then "nNaN" else s!"n{n}"
    | .sc .double => if n / 4503599627370496 % 2048 = 2047 ∧ n % 4503599627370496 ≠ 0 then "nNaN" else s!"n{n}"
    | _ => s!"n{n}"
  | .bs b => "h" ++ bytesToHex b
  | .msg fs unk =>
    match ty with
    | .msg i => showMsg S (S.md i) fs unk
    | _ => "?"
end

def cmdG (segs : List String) : String :=
  match segs with
  | ["unmarshal", sch, root, fast, data] =>
    match parseSchema sch, root.toNat?, hexToBytes data with
    | some S, some r, some p =>
      match unmarshal S (fast = "1") (S.md r) p with
      | .ok (fs, unk) => "ok " ++ showMsg S (S.md r) fs unk
      | .err => "err"
      | .panic => "panic"
    | _, _, _ => "bad"
  | ["marshal", sch, root, val] =>
    match parseSchema sch, root.toNat?, parseMsg val with
    | some S, some r, some (fs, unk) =>
      let md := S.md r
      let sz := sizeFields S md fs + unk.length
      match marshal S md fs unk with
      | .ok b => s!"size={sz} ok {bytesToHex b}"
      | .err => s!"size={sz} err"
      | .panic => s!"size={sz} panic"
    | _, _, _ => "bad"
  | _ => "bad"

end Csproto.Driver
