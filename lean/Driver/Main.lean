import Driver.Wire
import Driver.Spec
import Driver.Tools
import Driver.Lazy
import Driver.Shim
import Driver.Gen
/-
  csmodel: the executable face of the Lean model.  One request per line on stdin, one reply line
  per request on stdout.  Pure function of its input.
-/
open Csproto Csproto.Proto Csproto.Driver

def respond (line : String) : String :=
  let segs := (line.splitOn " ; ").map (fun s => s.trimAscii.toString)
  match segs with
  | [] => "bad"
  | first :: rest =>
    match words first with
    | "W" :: args => cmdW args
    | "E" :: args => cmdE (" ".intercalate args :: rest)
    | "D" :: args => cmdD (" ".intercalate args :: rest)
    | "S" :: args => cmdS args
    | "T" :: args => cmdT args
    | "L" :: args => cmdL (" ".intercalate args :: rest)
    | "M" :: "ext" :: args => cmdMext args rest
    | "M" :: args => cmdM args
    | "G" :: args => cmdG (" ".intercalate args :: rest)
    | _ => "bad"

partial def loop (hin hout : IO.FS.Stream) : IO Unit := do
  let line ← hin.getLine
  if line.isEmpty then return ()
  let l := line.trimAscii.toString
  hout.putStrLn (respond l)
  loop hin hout

def main : IO Unit := do
  let hin ← IO.getStdin
  let hout ← IO.getStdout
  loop hin hout
  hout.flush
