import Csproto.Model.Basic
/-
  Independent specification of the protobuf wire format (from the encoding document), sharing no
  code with the model of encoder.go/decoder.go.  Core-only and executable (the driver exposes it for
  the spec-vs-reference stream against `protowire`).
-/
namespace Csproto.Spec
open Csproto

/-- the number denoted by a base-128 little-endian group string (continuation bits ignored) -/
def varintValue : Bytes → Nat
  | [] => 0
  | b :: bs => b.toNat % 128 + 128 * varintValue bs

/-- continuation bit set on every byte but the last, clear on the last -/
def contOK : Bytes → Bool
  | [] => false
  | [b] => b.toNat < 128
  | b :: bs => b.toNat ≥ 128 && contOK bs

/-- `bs` is *the* canonical varint of `v` -/
def lastGroupNonZero : Bytes → Bool
  | [] => false
  | [b] => b.toNat % 128 ≠ 0
  | _ :: bs => lastGroupNonZero bs

/-- continuation bits right, minimal (last group non-zero unless it is the only group), denotes `v` -/
def CanonVarint (bs : Bytes) (v : Nat) : Prop :=
  contOK bs = true ∧ (bs.length = 1 ∨ lastGroupNonZero bs = true) ∧ varintValue bs = v

/-- key of a field: number · 8 + wire type -/
def key (number wt : Nat) : Nat := number * 8 + wt

/-- little-endian value of a fixed-width payload -/
def leValue : Bytes → Nat
  | [] => 0
  | b :: bs => b.toNat + 256 * leValue bs

/-- two's-complement image of a signed value in 64 bits (int32, int64, enum are all sign-extended) -/
def twos64 (i : Int) : Nat := if 0 ≤ i then i.toNat else (i + 18446744073709551616).toNat

/-- zig-zag image -/
def zz (i : Int) : Nat := if 0 ≤ i then (2 * i).toNat else (-2 * i - 1).toNat

/-- executable classification of a byte string as a varint (for the spec-vs-reference stream):
    `some (v, n, canonical)` if the first `n` bytes form a varint -/
def readVarint : Bytes → Nat → Option (Nat × Nat)
  | [], _ => none
  | b :: bs, k => if b.toNat < 128 then some (b.toNat * 128 ^ k, k + 1)
      else (readVarint bs (k + 1)).map fun (v, n) => (b.toNat % 128 * 128 ^ k + v, n)

end Csproto.Spec
