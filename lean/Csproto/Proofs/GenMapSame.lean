import Csproto.Proofs.GenMapRoundtrip
/-
  Order independence at ANY depth: `SameFs S md fs gs` — `fs` and `gs` are the same Go value of type `md`,
  except that the entries of map fields (at the top level, inside nested / repeated messages, inside the
  message values of maps, …) may be listed in a different order.  Normalisation (`canonFs`, which is what the
  round trip computes) preserves the relation, so two iteration orders of the same message decode to the same
  message in this sense.
-/
namespace Csproto.Gen
open Csproto

mutual
inductive SameFs (S : Schema) : MD → List F → List F → Prop
  | refl (md : MD) (fs : List F) : SameFs S md fs fs
  | cons {fd : FD} {md : MD} {f g : F} {fs gs : List F} :
      SameF S fd f g → SameFs S md fs gs → SameFs S (fd :: md) (f :: fs) (g :: gs)
inductive SameF (S : Schema) : FD → F → F → Prop
  | refl (fd : FD) (f : F) : SameF S fd f f
  | one {fd : FD} {i : Nat} {v w : V} : fd.ty = .msg i → SameV S (S.md i) v w → SameF S fd (.one v) (.one w)
  /-- a repeated message field: element by element, in the same order -/
  | list {fd : FD} {i : Nat} {vs ws : List V} : fd.ty = .msg i → SameVs S (S.md i) vs ws →
      SameF S fd (.many vs) (.many ws)
  /-- a map field: the entries in any order -/
  | map {fd : FD} {i : Nat} {vs ws : List V} : fd.ty = .msg i → fd.card = .map → PermVs S (S.md i) vs ws →
      SameF S fd (.many vs) (.many ws)
inductive SameV (S : Schema) : MD → V → V → Prop
  | refl (md : MD) (v : V) : SameV S md v v
  | msg {md : MD} {fs gs : List F} (u : Bytes) : SameFs S md fs gs → SameV S md (.msg fs u) (.msg gs u)
inductive SameVs (S : Schema) : MD → List V → List V → Prop
  | nil (md : MD) : SameVs S md [] []
  | cons {md : MD} {v w : V} {vs ws : List V} : SameV S md v w → SameVs S md vs ws → SameVs S md (v :: vs) (w :: ws)
/-- a permutation, up to `SameV` on the elements -/
inductive PermVs (S : Schema) : MD → List V → List V → Prop
  | nil (md : MD) : PermVs S md [] []
  | cons {md : MD} {v w : V} {vs ws : List V} : SameV S md v w → PermVs S md vs ws → PermVs S md (v :: vs) (w :: ws)
  | swap (md : MD) (a b : V) (l : List V) : PermVs S md (a :: b :: l) (b :: a :: l)
  | trans {md : MD} {a b c : List V} : PermVs S md a b → PermVs S md b c → PermVs S md a c
end

theorem PermVs.refl (S : Schema) (md : MD) : ∀ (vs : List V), PermVs S md vs vs
  | [] => .nil _
  | _ :: vs => .cons (.refl _ _) (PermVs.refl S md vs)

/-- related fields are unset together -/
theorem SameF.unset_iff {S : Schema} {fd : FD} {f g : F} (h : SameF S fd f g) : f = .unset ↔ g = .unset := by
  cases h with
  | refl => exact Iff.rfl
  | one _ _ => simp
  | list _ _ => simp
  | map _ _ _ => simp

/-- related entries hold a nil pointer together: both are written or both are passed over -/
theorem SameV.nilEntry_eq {S : Schema} {md emd : MD} {v w : V} (h : SameV S md v w) : nilEntry emd v = nilEntry emd w := by
  cases h with
  | refl => rfl
  | msg u hfs =>
    simp only [nilEntry]
    congr 1
    cases hfs with
    | refl => rfl
    | cons hf hfs' =>
      cases hfs' with
      | refl => rename_i fs'; cases fs' with
        | nil => rfl
        | cons f2 _ => cases f2 <;> rfl
      | cons hf2 hfs2 =>
        rename_i fd2 md2 f2 g2 fs2 gs2
        have hu := hf2.unset_iff
        cases f2 <;> cases g2 <;> simp_all [valUnset]

mutual
theorem canon_sameFs (S : Schema) : ∀ {md : MD} {fs gs : List F}, SameFs S md fs gs →
    SameFs S md (canonFs S md fs) (canonFs S md gs)
  | _, _, _, .refl _ _ => .refl _ _
  | _, _, _, .cons hf hfs => by simp only [canonFs]; exact .cons (canon_sameF S hf) (canon_sameFs S hfs)
theorem canon_sameF (S : Schema) : ∀ {fd : FD} {f g : F}, SameF S fd f g → SameF S fd (canonF S fd f) (canonF S fd g)
  | _, _, _, .refl _ _ => .refl _ _
  | _, _, _, .one hty hv => by simp only [canonF, hty]; exact .one hty (canon_sameV S hv)
  | _, _, _, .list hty hvs => by simp only [canonF, hty]; exact .list hty (canon_sameVs S _ hvs)
  | _, _, _, .map hty hm hp => by simp only [canonF, hty]; exact .map hty hm (canon_permVs S _ hp)
theorem canon_sameV (S : Schema) : ∀ {md : MD} {v w : V}, SameV S md v w → SameV S md (canonV S md v) (canonV S md w)
  | _, _, _, .refl _ _ => .refl _ _
  | _, _, _, .msg _ h => by simp only [canonV]; exact .msg [] (canon_sameFs S h)
theorem canon_sameVs (S : Schema) (sk : Bool) : ∀ {md : MD} {vs ws : List V}, SameVs S md vs ws →
    SameVs S md (canonVs S md sk vs) (canonVs S md sk ws)
  | _, _, _, .nil _ => by simp only [canonVs]; exact .nil _
  | md, _, _, .cons (v := v) (w := w) hv hvs => by
    have hn : nilEntry md v = nilEntry md w := hv.nilEntry_eq
    cases hw : (sk && nilEntry md w)
    · simp only [canonVs, hn, hw, Bool.false_eq_true, ↓reduceIte]
      exact .cons (canon_sameV S hv) (canon_sameVs S sk hvs)
    · simp only [canonVs, hn, hw, ↓reduceIte]
      exact canon_sameVs S sk hvs
theorem canon_permVs (S : Schema) (sk : Bool) : ∀ {md : MD} {vs ws : List V}, PermVs S md vs ws →
    PermVs S md (canonVs S md sk vs) (canonVs S md sk ws)
  | _, _, _, .nil _ => by simp only [canonVs]; exact .nil _
  | md, _, _, .cons (v := v) (w := w) hv hvs => by
    have hn : nilEntry md v = nilEntry md w := hv.nilEntry_eq
    cases hw : (sk && nilEntry md w)
    · simp only [canonVs, hn, hw, Bool.false_eq_true, ↓reduceIte]
      exact .cons (canon_sameV S hv) (canon_permVs S sk hvs)
    · simp only [canonVs, hn, hw, ↓reduceIte]
      exact canon_permVs S sk hvs
  | md, _, _, .swap _ a b l => by
    cases ha : (sk && nilEntry md a) <;> cases hb : (sk && nilEntry md b) <;>
      simp only [canonVs, ha, hb, Bool.false_eq_true, ↓reduceIte] <;>
      first | exact .swap _ _ _ _ | exact PermVs.refl S _ _
  | _, _, _, .trans h1 h2 => .trans (canon_permVs S sk h1) (canon_permVs S sk h2)
end

/-- a plain permutation of the entries is an instance -/
theorem PermVs.of_perm (S : Schema) (md : MD) {vs ws : List V} (h : vs.Perm ws) : PermVs S md vs ws := by
  induction h with
  | nil => exact .nil _
  | cons x _ ih => exact .cons (.refl _ _) ih
  | swap x y l => exact .swap _ _ _ _
  | trans _ _ ih1 ih2 => exact .trans ih1 ih2

/-- **order independence of the round trip, at any depth**: if `fs` and `gs` are the same message up to the
    order of map entries anywhere in the value tree, then so are `Unmarshal (Marshal fs)` and
    `Unmarshal (Marshal gs)` -/
theorem roundtrip_same (S : Schema) (hS : SchemaOKM S) (fast : Bool) (i : Nat) (fs gs : List F)
    (opsF opsG : List EncOp) (hsame : SameFs S (S.md i) fs gs)
    (hwfF : WFsM S (S.md i) fs) (hexF : Excl (S.md i) fs) (hokF : OKFields S (S.md i) fs)
    (hoF : opsFields S (S.md i) fs = .ok opsF)
    (hwfG : WFsM S (S.md i) gs) (hexG : Excl (S.md i) gs) (hokG : OKFields S (S.md i) gs)
    (hoG : opsFields S (S.md i) gs = .ok opsG) :
    ∃ d1 d2, unmarshal S fast (S.md i) (wiresOf opsF) = .ok (d1, []) ∧
      unmarshal S fast (S.md i) (wiresOf opsG) = .ok (d2, []) ∧ SameFs S (S.md i) d1 d2 := by
  have h1 := roundtrip_map S hS fast i fs [] opsF hwfF hexF hokF (by simp) hoF
  have h2 := roundtrip_map S hS fast i gs [] opsG hwfG hexG hokG (by simp) hoG
  simp only [Csproto.wiresOf, List.map_nil, List.flatten_nil, List.append_nil] at h1 h2
  exact ⟨_, _, h1, h2, canon_sameFs S hsame⟩

end Csproto.Gen
