import Csproto.Model.GenDec
import Csproto.Props.C03
/-
  The generated `Unmarshal` is total: built from decoder calls none of which can panic (C03), it
  never panics itself, for any schema, any input and either decoder mode.
-/
namespace Csproto.Gen
open Csproto Csproto.C03

theorem readScalar_safe (k : SK) (d : Dec) (wt : Nat) (hi : d.Inv) :
    readScalar k d wt ≠ .panic ∧ ∀ d' v, readScalar k d wt = .ok (d', v) → d'.Inv := by
  have hs := step_safe d hi (decOpOf k)
  unfold readScalar
  by_cases hw : wt ≠ wtOf k
  · simp [hw]
  · simp only [hw, if_false]
    generalize hr : d.step (decOpOf k) = r at hs
    obtain ⟨d1, o, a⟩ := r
    cases o with
    | ok it => exact ⟨by simp, by intro d' v h; simp at h; rw [← h.1]; exact hs.inv⟩
    | err => exact ⟨by simp, by simp⟩
    | errNested _ => exact ⟨by simp, by simp⟩
    | panic => exact absurd rfl hs.noPanic

theorem readRepeated_safe (k : SK) (d : Dec) (wt : Nat) (hi : d.Inv) :
    readRepeated k d wt ≠ .panic ∧ ∀ d' vs, readRepeated k d wt = .ok (d', vs) → d'.Inv := by
  have h1 := readScalar_safe k d wt hi
  unfold readRepeated
  have hmap : ((readScalar k d wt).map fun (x : Dec × V) => (x.1, [x.2])) ≠ .panic ∧
      ∀ d' vs, ((readScalar k d wt).map fun (x : Dec × V) => (x.1, [x.2])) = .ok (d', vs) → d'.Inv := by
    cases hr : readScalar k d wt with
    | ok r => exact ⟨by simp [Res.map], by intro d' vs h; simp [Res.map] at h; rw [← h.1]; exact h1.2 r.1 r.2 (by rw [hr])⟩
    | err => exact ⟨by simp [Res.map], by simp [Res.map]⟩
    | panic => exact absurd hr h1.1
  cases hp : packedDecOpOf k with
  | none => simpa using hmap
  | some pop =>
    simp only []
    by_cases hw : wt = wtOf k
    · simpa [hw] using (by rw [hw] at hmap; exact hmap)
    · simp only [hw, if_false]
      by_cases hl : wt = wtLen
      · simp only [hl, if_true]
        have hs := step_safe d hi pop
        generalize hr : d.step pop = r at hs
        obtain ⟨d1, o, a⟩ := r
        cases o with
        | ok it => exact ⟨by simp, by intro d' v h; simp at h; rw [← h.1]; exact hs.inv⟩
        | err => exact ⟨by simp, by simp⟩
        | errNested _ => exact ⟨by simp, by simp⟩
        | panic => exact absurd rfl hs.noPanic
      · simp [hl]

/-- the four mutually recursive parts of the generated `Unmarshal`, by induction on the fuel -/
theorem no_panic_aux (S : Schema) (fast : Bool) : ∀ (fuel : Nat),
    (∀ md p, unmarshalMsg S fast fuel md p ≠ .panic) ∧
    (∀ md d fs unk, d.Inv → unmarshalLoop S fast fuel md d fs unk ≠ .panic) ∧
    (∀ fd wt d cur, d.Inv → fieldStep S fast fuel fd wt d cur ≠ .panic ∧
        ∀ d' f, fieldStep S fast fuel fd wt d cur = .ok (d', f) → d'.Inv) ∧
    (∀ emd d efs, d.Inv → entryLoop S fast fuel emd d efs ≠ .panic) := by
  intro fuel
  induction fuel with
  | zero =>
    refine ⟨?_, ?_, ?_, ?_⟩
    · intro md p; simp [unmarshalMsg]
    · intro md d fs unk _; simp [unmarshalLoop]
    · intro fd wt d cur _; exact ⟨by simp [fieldStep], by simp [fieldStep]⟩
    · intro emd d efs _; simp [entryLoop]
  | succ fuel ih =>
    obtain ⟨ihM, ihL, ihF, ihE⟩ := ih
    have newInv : ∀ (p : Bytes), ({ p := p, off := 0, fast := fast } : Dec).Inv := by
      intro p; simp [Dec.Inv, Dec.len]
    refine ⟨?_, ?_, ?_, ?_⟩
    · -- unmarshalMsg
      intro md p
      simp only [unmarshalMsg]
      split
      · simp
      · have := ihL md { p := p, off := 0, fast := fast } (initFields md) [] (newInv p)
        cases hl : unmarshalLoop S fast fuel md { p := p, off := 0, fast := fast } (initFields md) [] with
        | ok r => obtain ⟨fs, unk⟩ := r; simp only []; split <;> simp
        | err => simp
        | panic => exact absurd hl this
    · -- unmarshalLoop
      intro md d fs unk hi
      simp only [unmarshalLoop]
      split
      · simp
      · have hs := step_safe d hi .tag
        generalize hr : d.step .tag = r at hs
        obtain ⟨d1, o, a⟩ := r
        cases o with
        | ok it =>
          cases it with
          | tag num wt =>
            simp only []
            cases hf : findField md num 0 with
            | some r =>
              obtain ⟨idx, fd⟩ := r
              simp only []
              have hF := ihF fd wt d1 (fs.getD idx .unset) hs.inv
              cases hfs : fieldStep S fast fuel fd wt d1 (fs.getD idx .unset) with
              | ok r2 =>
                obtain ⟨d2, f⟩ := r2
                simp only []
                exact ihL md d2 _ unk (hF.2 d2 f hfs)
              | err => simp
              | panic => exact absurd hfs hF.1
            | none =>
              simp only []
              have hs2 := step_safe d1 hs.inv (.skip num wt)
              generalize hr2 : d1.step (.skip num wt) = r2 at hs2
              obtain ⟨d2, o2, a2⟩ := r2
              cases o2 with
              | ok it2 =>
                cases it2 <;> simp only [] <;> first | exact ihL md d2 fs _ hs2.inv | simp
              | err => simp
              | errNested _ => simp
              | panic => exact absurd rfl hs2.noPanic
          | _ => simp
        | err => simp
        | errNested _ => simp
        | panic => exact absurd rfl hs.noPanic
    · -- fieldStep
      intro fd wt d cur hi
      simp only [fieldStep]
      cases hty : fd.ty with
      | sc k =>
        simp only []
        have hR := readRepeated_safe k d wt hi
        have hS := readScalar_safe k d wt hi
        have repArm : ((readRepeated k d wt).map fun (x : Dec × List V) => (x.1, appendTo cur x.2)) ≠ .panic ∧
            ∀ d' f, ((readRepeated k d wt).map fun (x : Dec × List V) => (x.1, appendTo cur x.2)) = .ok (d', f) → d'.Inv := by
          cases hr : readRepeated k d wt with
          | ok r => exact ⟨by simp [Res.map], by intro d' f h; simp [Res.map] at h; rw [← h.1]; exact hR.2 r.1 r.2 (by rw [hr])⟩
          | err => exact ⟨by simp [Res.map], by simp [Res.map]⟩
          | panic => exact absurd hr hR.1
        have scArm : ((readScalar k d wt).map fun (x : Dec × V) => (x.1, F.one x.2)) ≠ .panic ∧
            ∀ d' f, ((readScalar k d wt).map fun (x : Dec × V) => (x.1, F.one x.2)) = .ok (d', f) → d'.Inv := by
          cases hr : readScalar k d wt with
          | ok r => exact ⟨by simp [Res.map], by intro d' f h; simp [Res.map] at h; rw [← h.1]; exact hS.2 r.1 r.2 (by rw [hr])⟩
          | err => exact ⟨by simp [Res.map], by simp [Res.map]⟩
          | panic => exact absurd hr hS.1
        cases fd.card <;> first | exact repArm | exact scArm
      | msg i =>
        simp only []
        by_cases hw : wt ≠ wtLen
        · simp [hw]
        · simp only [hw, if_false]
          have hb := bytesOp_safe d hi
          generalize hbo : d.bytesOp = bo at hb
          obtain ⟨d1, o⟩ := bo
          cases o with
          | ok it =>
            cases it with
            | bytes payload =>
              simp only []
              cases fd.card with
              | map =>
                simp only []
                have hE := ihE (S.md i) { p := payload, off := 0, fast := fast } (initFields (S.md i)) (newInv payload)
                cases he : entryLoop S fast fuel (S.md i) { p := payload, off := 0, fast := fast } (initFields (S.md i)) with
                | ok efs => exact ⟨by simp, by intro d' f h; simp at h; rw [← h.1]; exact hb.2.1⟩
                | err => exact ⟨by simp, by simp⟩
                | panic => exact absurd he hE
              | list =>
                simp only []
                have hM := ihM (S.md i) payload
                cases hm : unmarshalMsg S fast fuel (S.md i) payload with
                | ok r => obtain ⟨nfs, nunk⟩ := r; exact ⟨by simp, by intro d' f h; simp at h; rw [← h.1]; exact hb.2.1⟩
                | err => exact ⟨by simp, by simp⟩
                | panic => exact absurd hm hM
              | _ =>
                simp only []
                have hM := ihM (S.md i) payload
                cases hm : unmarshalMsg S fast fuel (S.md i) payload with
                | ok r => obtain ⟨nfs, nunk⟩ := r; exact ⟨by simp, by intro d' f h; simp at h; rw [← h.1]; exact hb.2.1⟩
                | err => exact ⟨by simp, by simp⟩
                | panic => exact absurd hm hM
            | _ => exact ⟨by simp, by simp⟩
          | err => exact ⟨by simp, by simp⟩
          | errNested _ => exact ⟨by simp, by simp⟩
          | panic => exact absurd rfl hb.1
    · -- entryLoop
      intro emd d efs hi
      simp only [entryLoop]
      split
      · simp
      · have hs := step_safe d hi .tag
        generalize hr : d.step .tag = r at hs
        obtain ⟨d1, o, a⟩ := r
        cases o with
        | ok it =>
          cases it with
          | tag num wt =>
            simp only []
            cases hf : findField emd num 0 with
            | some r =>
              obtain ⟨idx, fd⟩ := r
              simp only []
              have hF := ihF fd wt d1 (efs.getD idx .unset) hs.inv
              cases hfs : fieldStep S fast fuel fd wt d1 (efs.getD idx .unset) with
              | ok r2 =>
                obtain ⟨d2, f⟩ := r2
                simp only []
                exact ihE emd d2 _ (hF.2 d2 f hfs)
              | err => simp
              | panic => exact absurd hfs hF.1
            | none =>
              simp only []
              have hs2 := step_safe d1 hs.inv (.skip num wt)
              generalize hr2 : d1.step (.skip num wt) = r2 at hs2
              obtain ⟨d2, o2, a2⟩ := r2
              cases o2 with
              | ok it2 => simp only []; exact ihE emd d2 efs hs2.inv
              | err => simp
              | errNested _ => simp
              | panic => exact absurd rfl hs2.noPanic
          | _ => simp
        | err => simp
        | errNested _ => simp
        | panic => exact absurd rfl hs.noPanic

/-- **the generated `Unmarshal` never panics** -/
theorem unmarshal_no_panic (S : Schema) (fast : Bool) (md : MD) (p : Bytes) : unmarshal S fast md p ≠ .panic :=
  (no_panic_aux S fast _).1 md p

end Csproto.Gen
