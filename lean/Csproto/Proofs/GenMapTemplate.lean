import Csproto.Model.GenMap
import Csproto.Proofs.Gen
/-
  The literal transcription of the map snippets (`Model/GenMap.lean`) against the arms of `Model/Gen.lean`
  that model a map field as a repeated field of its entry type: same `Size()` contribution, same bytes, and
  every call has a determined outcome (`OpExact`), so `run_exact` / `marshalTo_fills` apply to either.
-/
namespace Csproto.Gen
open Csproto Csproto.C01

theorem sizeOfTagKey_one : sizeOfTagKey 1 = 1 := by decide
theorem sizeOfTagKey_two : sizeOfTagKey 2 = 1 := by decide

/-- the template's `keySize` (literal `1 +`) is the size arm of a scalar field number 1 -/
theorem tKeySize_eq (kk : SK) (k : V) (h : legalKey kk = true) : tKeySize kk k = scalarSize kk 1 k := by
  cases kk <;> simp [legalKey] at h <;> simp [tKeySize, scalarSize, sizeOfTagKey_one]

/-- the template's scalar `valueSize` is the size arm of a scalar field number 2 -/
theorem tValSizeSc_eq (kv : SK) (v : V) : tValSizeSc kv v = scalarSize kv 2 v := by
  cases kv <;> simp [tValSizeSc, scalarSize, sizeOfTagKey_two]

/-- an entry as the marshal-side model holds it -/
def mkEntry (k v : V) : V := .msg [.one k, .one v] []

/-- `csproto.Size` of the entry seen as a message of the entry type = `keySize + valueSize` -/
theorem entry_size (S : Schema) (kk : SK) (vty : Ty) (k v : V) (h : legalKey kk = true) :
    sizeMsgV S (entryMD kk vty) (mkEntry k v) = tKeySize kk k + tValSize S vty v := by
  rw [tKeySize_eq kk k h]
  cases vty with
  | sc kv => simp [mkEntry, sizeMsgV, sizeFields, sizeField, entryMD, tValSize, tValSizeSc_eq]
  | msg j => simp [mkEntry, sizeMsgV, sizeFields, sizeField, entryMD, tValSize, sizeOfTagKey_two]

/-- **`SizeOfMapEntry`, one iteration = the `sizeMsgList` arm** -/
theorem tEntrySize_eq (S : Schema) (num : Nat) (kk : SK) (vty : Ty) (k v : V) (h : legalKey kk = true) :
    tEntrySize S num kk vty k v = sizeMsgList S (entryMD kk vty) num true [mkEntry k v] := by
  have hn : nilEntry (entryMD kk vty) (mkEntry k v) = false := by simp [nilEntry, valUnset, mkEntry]
  simp only [sizeMsgList, hn, Bool.and_false, Bool.false_eq_true, if_false, entry_size S kk vty k v h, tEntrySize]
  omega

/-- the bytes of the entry seen as a message of the entry type: key record, value record -/
theorem entry_bytes (S : Schema) (kk : SK) (vty : Ty) (k v : V) :
    bytesMsgV S (entryMD kk vty) (mkEntry k v) =
      match vty with
      | .sc kv => .ok ((scalarOp kk 1 k).wire ++ (scalarOp kv 2 v).wire)
      | .msg j =>
        match bytesMsgV S (S.md j) v with
        | .ok body => .ok ((scalarOp kk 1 k).wire ++ (EncOp.nested 2 (sizeMsgV S (S.md j) v) 0 (some body)).wire)
        | .err => .err
        | .panic => .panic := by
  cases vty with
  | sc kv => simp [mkEntry, bytesMsgV, opsFields, opsField, entryMD, wiresOf]
  | msg j =>
    simp only [mkEntry, bytesMsgV, opsFields, opsField, entryMD]
    cases hb : bytesMsgV S (S.md j) v <;> simp [wiresOf]

/-- **`MarshalMapEntry`, one iteration = the `opsMsgList` arm**: `EncodeMapEntryHeader(n, itemSize)` followed by
    the key and value writers produces the bytes of the `EncodeNested`-shaped call of the model, fails when it
    fails, and every call's outcome is determined -/
theorem tEntryOps_eq (S : Schema) (num : Nat) (kk : SK) (vty : Ty) (k v : V) (h : legalKey kk = true)
    (hv : ∀ j, vty = .msg j → OKMsgV S (S.md j) v) :
    (∀ body, bytesMsgV S (entryMD kk vty) (mkEntry k v) = .ok body →
      ∃ a, tEntryOps S num kk vty k v = .ok a ∧
        wiresOf a = (EncOp.nested num (sizeMsgV S (entryMD kk vty) (mkEntry k v)) 0 (some body)).wire ∧
        ∀ op ∈ a, OpExact op) ∧
    (bytesMsgV S (entryMD kk vty) (mkEntry k v) = .err → tEntryOps S num kk vty k v = .err) ∧
    (bytesMsgV S (entryMD kk vty) (mkEntry k v) = .panic → tEntryOps S num kk vty k v = .panic) := by
  have hsz := entry_size S kk vty k v h
  rw [entry_bytes]
  cases vty with
  | sc kv =>
    refine ⟨?_, by simp, by simp⟩
    intro body hb
    simp only [Res.ok.injEq] at hb
    subst hb
    refine ⟨_, rfl, ?_, ?_⟩
    · simp [wiresOf, EncOp.wire, hsz, Nat.add_comm]
    · intro op hop
      simp only [List.mem_cons, List.mem_nil_iff, or_false] at hop
      rcases hop with rfl | rfl | rfl
      · exact True.intro
      · exact scalarOp_plain kk 1 k
      · exact scalarOp_plain kv 2 v
  | msg j =>
    simp only [tEntryOps]
    cases hb : bytesMsgV S (S.md j) v with
    | ok b =>
      refine ⟨?_, by simp, by simp⟩
      intro body hbody
      simp only [Res.ok.injEq] at hbody
      subst hbody
      refine ⟨_, rfl, ?_, ?_⟩
      · simp [wiresOf, EncOp.wire, hsz, Nat.add_comm]
      · intro op hop
        simp only [List.mem_cons, List.mem_nil_iff, or_false] at hop
        rcases hop with rfl | rfl | rfl
        · exact True.intro
        · exact scalarOp_plain kk 1 k
        · exact ⟨rfl, b, rfl, msgV_exact S (S.md j) v b (hv j rfl) hb⟩
    | err => simp
    | panic => simp

/-- the entries of a Go map value, as the marshal-side model holds them: key and value, or — in a message-valued
    map only — key and nil pointer -/
def IsEntry (vty : Ty) : V → Prop
  | .msg [.one _, .one _] [] => True
  | .msg [.one _, .unset] [] => ∃ j, vty = .msg j
  | _ => False

/-- the model's test (`nilEntry`, on the entry type) is the template's test (`tNil`, on the value kind) -/
theorem nilEntry_entryMD (kk : SK) (vty : Ty) (e : V) : nilEntry (entryMD kk vty) e = tNil vty e := by
  cases vty <;> simp [nilEntry, msgValued, entryMD, tNil]

theorem IsEntry.eq {vty : Ty} {e : V} (h : IsEntry vty e) (hn : tNil vty e = false) :
    e = mkEntry (entryKey e) (entryVal e) := by
  match e, h with
  | .msg [.one k, .one v] [], _ => rfl
  | .msg [.one k, .unset] [], ⟨j, hj⟩ => subst hj; simp [tNil, valUnset] at hn

/-- **the `range` loop of `SizeOfMapEntry` = the `sizeMsgList` arm**, whatever the iteration order -/
theorem tMapSize_eq (S : Schema) (num : Nat) (kk : SK) (vty : Ty) (h : legalKey kk = true) :
    ∀ (es : List V), (∀ e ∈ es, IsEntry vty e) →
      tMapSize S num kk vty es = sizeMsgList S (entryMD kk vty) num true es
  | [], _ => by simp [tMapSize, sizeMsgList]
  | e :: es, hes => by
    have ih := tMapSize_eq S num kk vty h es (fun x hx => hes x (by simp [hx]))
    cases hn : tNil vty e with
    | true =>
      -- `if v != nil { … }` is not entered: nothing is added by either
      simp only [tMapSize, sizeMsgList, nilEntry_entryMD, hn, Bool.and_self, if_true, ih]
    | false =>
      have he := (hes e (by simp)).eq hn
      have h1 := tEntrySize_eq S num kk vty (entryKey e) (entryVal e) h
      rw [← he] at h1
      simp only [tMapSize, h1, ih, sizeMsgList, nilEntry_entryMD, hn, Bool.and_false, Bool.false_eq_true, if_false]
      omega

/-- **the `range` loop of `MarshalMapEntry` = the `opsMsgList` arm**: same outcome (ok / error / panic), same
    bytes, every call determined -/
theorem tMapOps_eq (S : Schema) (num : Nat) (kk : SK) (vty : Ty) (h : legalKey kk = true) :
    ∀ (es : List V), (∀ e ∈ es, IsEntry vty e) → (∀ e ∈ es, ∀ j, vty = .msg j → OKMsgV S (S.md j) (entryVal e)) →
    (tMapOps S num kk vty es).map wiresOf = (opsMsgList S (entryMD kk vty) num true es).map wiresOf ∧
      ∀ ops, tMapOps S num kk vty es = .ok ops → ∀ op ∈ ops, OpExact op
  | [], _, _ => by simp [tMapOps, opsMsgList, Res.map]
  | e :: es, hes, hvs => by
    obtain ⟨ih, ihx⟩ := tMapOps_eq S num kk vty h es (fun x hx => hes x (by simp [hx])) (fun x hx => hvs x (by simp [hx]))
    cases hn : tNil vty e with
    | true =>
      -- `if v == nil { continue }`: no call is made by either
      simp only [tMapOps, opsMsgList, nilEntry_entryMD, hn, Bool.and_self, if_true]
      exact ⟨ih, ihx⟩
    | false =>
    have he := (hes e (by simp)).eq hn
    obtain ⟨e1, e2, e3⟩ := tEntryOps_eq S num kk vty (entryKey e) (entryVal e) h (hvs e (by simp))
    rw [← he] at e1 e2 e3
    simp only [tMapOps, opsMsgList, nilEntry_entryMD, hn, Bool.and_false, Bool.false_eq_true, if_false]
    cases hb : bytesMsgV S (entryMD kk vty) e with
    | ok body =>
      obtain ⟨a, ha, hw, hx⟩ := e1 body hb
      rw [ha]
      cases ht : tMapOps S num kk vty es with
      | ok b =>
        cases hr : opsMsgList S (entryMD kk vty) num true es with
        | ok rest =>
          rw [ht, hr] at ih
          simp only [Res.map, Res.ok.injEq] at ih
          refine ⟨by simp [Res.map, wiresOf_append, wiresOf_cons, hw, ih], ?_⟩
          intro ops hops
          simp only [Res.ok.injEq] at hops
          subst hops
          intro op hop
          rcases List.mem_append.mp hop with h1 | h1
          · exact hx op h1
          · exact ihx b ht op h1
        | err => rw [ht, hr] at ih; simp [Res.map] at ih
        | panic => rw [ht, hr] at ih; simp [Res.map] at ih
      | err =>
        cases hr : opsMsgList S (entryMD kk vty) num true es with
        | ok rest => rw [ht, hr] at ih; simp [Res.map] at ih
        | err => simp [Res.map]
        | panic => rw [ht, hr] at ih; simp [Res.map] at ih
      | panic =>
        cases hr : opsMsgList S (entryMD kk vty) num true es with
        | ok rest => rw [ht, hr] at ih; simp [Res.map] at ih
        | err => rw [ht, hr] at ih; simp [Res.map] at ih
        | panic => simp [Res.map]
    | err => rw [e2 hb]; simp [Res.map]
    | panic => rw [e3 hb]; simp [Res.map]

/-- **C04 for the snippets as written**: the `range` loop of `SizeOfMapEntry` adds exactly the number of bytes
    the calls of the `range` loop of `MarshalMapEntry` write, and running those calls on an encoder with that
    much room appends exactly those bytes (no panic, no slack) — for the entries in any order -/
theorem tMap_exact (S : Schema) (num : Nat) (kk : SK) (vty : Ty) (h : legalKey kk = true) (ht : ValidTag num)
    (es : List V) (hes : ∀ e ∈ es, IsEntry vty e) (hok : OKMsgList S (entryMD kk vty) es)
    (hvs : ∀ e ∈ es, ∀ j, vty = .msg j → OKMsgV S (S.md j) (entryVal e))
    (ops : List EncOp) (ho : tMapOps S num kk vty es = .ok ops) :
    tMapSize S num kk vty es = (wiresOf ops).length ∧
      ∀ (e : Enc), e.Room (wiresOf ops).length → ∃ e', e.run ops = .ok e' ∧ Enc.Appended e e' (wiresOf ops) := by
  obtain ⟨hw, hx⟩ := tMapOps_eq S num kk vty h es hes hvs
  rw [ho] at hw
  cases hr : opsMsgList S (entryMD kk vty) num true es with
  | ok ops0 =>
    rw [hr] at hw
    simp only [Res.map, Res.ok.injEq] at hw
    obtain ⟨s, _⟩ := msgList_exact S (entryMD kk vty) num true es ops0 ht hok hr
    refine ⟨by rw [tMapSize_eq S num kk vty h es hes, s, hw], ?_⟩
    intro e hroom
    exact run_exact ops e (hx ops ho) hroom
  | err => rw [hr] at hw; simp [Res.map] at hw
  | panic => rw [hr] at hw; simp [Res.map] at hw

end Csproto.Gen
