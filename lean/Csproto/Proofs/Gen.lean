import Csproto.Model.Gen
import Csproto.Props.C01
import Csproto.Props.C19
/-
  Lemmas about the model of the generated code: every `SizeOf*` arm adds exactly the number of bytes
  its `Marshal*` arm writes, and a sequence of encoder calls with enough room appends exactly the
  concatenation of their wire bytes.
-/
namespace Csproto.Gen
open Csproto Csproto.C01

/-- a call whose outcome is determined: a plain writer, or `EncodeNested` of a message whose
    `Size()` equals the bytes its `MarshalTo` produces -/
def OpExact : EncOp → Prop
  | .nested _ sz how body => how = 0 ∧ ∃ b, body = some b ∧ sz = b.length
  | _ => True

theorem wiresOf_nil : wiresOf [] = [] := rfl
theorem wiresOf_cons (op : EncOp) (ops : List EncOp) : wiresOf (op :: ops) = op.wire ++ wiresOf ops := by
  simp [wiresOf]
theorem wiresOf_append (a b : List EncOp) : wiresOf (a ++ b) = wiresOf a ++ wiresOf b := by
  simp [wiresOf]

/-- one exact call with room appends its wire bytes -/
theorem step_exact (e : Enc) (op : EncOp) (hx : OpExact op) (h : e.Room op.wire.length) :
    ∃ e', e.step op = .ok e' ∧ Enc.Appended e e' op.wire := by
  cases hp : op.plain
  · -- nested
    cases op <;> simp [EncOp.plain] at hp
    rename_i tag sz how body
    obtain ⟨h0, b, hb, hs⟩ := hx
    subst h0; subst hb
    have hw : (EncOp.nested tag sz 0 (some b)).wire = C19.nestedWire tag b := by
      simp [EncOp.wire, C19.nestedWire, hs]
    rw [hw] at h ⊢
    exact C19.encodeNested_exact e tag sz 0 b (fun _ => hs) h
  · exact e.step_room op hp h

/-- **a whole sequence of exact calls with room appends the concatenation of their wire bytes** -/
theorem run_exact (ops : List EncOp) : ∀ (e : Enc), (∀ op ∈ ops, OpExact op) → e.Room (wiresOf ops).length →
    ∃ e', e.run ops = .ok e' ∧ Enc.Appended e e' (wiresOf ops) := by
  induction ops with
  | nil => intro e _ _; exact ⟨e, rfl, by rw [wiresOf_nil]; exact Enc.Appended.refl e⟩
  | cons op ops ih =>
    intro e hx hroom
    rw [wiresOf_cons, List.length_append] at hroom
    obtain ⟨e1, h1, a1⟩ := step_exact e op (hx op (by simp)) (by unfold Enc.Room at *; omega)
    obtain ⟨e2, h2, a2⟩ := ih e1 (fun o ho => hx o (by simp [ho])) (by unfold Enc.Room at *; rw [a1.off, a1.cap]; omega)
    refine ⟨e2, ?_, by rw [wiresOf_cons]; exact a1.trans a2⟩
    simp only [Enc.run, h1, h2]

/-! ## validity of values (machine ranges; nothing about shapes is needed) -/

def ValidScalar (k : SK) (v : V) : Prop :=
  match k with
  | .fixed32 | .sfixed32 | .float => v.n < two32
  | .int64 | .uint32 | .uint64 | .fixed64 | .sfixed64 | .double => v.n < two64
  | .string | .bytes => v.b.length ≤ maxFieldLen
  | _ => True

mutual
def OKFields (S : Schema) : MD → List F → Prop
  | fd :: md, f :: fs => OKField S fd f ∧ OKFields S md fs
  | _, _ => True
def OKField (S : Schema) (fd : FD) : F → Prop
  | .unset => True
  | .one v => ValidTag fd.num ∧
      (match fd.ty with
       | .sc k => ValidScalar k v
       | .msg i => OKMsgV S (S.md i) v)
  | .many vs => ValidTag fd.num ∧
      (match fd.ty with
       | .sc k => (∀ v ∈ vs, ValidScalar k v) ∧ vs.length ≤ maxFieldLen
       | .msg i => OKMsgList S (S.md i) vs)
def OKMsgV (S : Schema) (md : MD) : V → Prop
  | .msg fs _ => OKFields S md fs
  | _ => True
def OKMsgList (S : Schema) (md : MD) : List V → Prop
  | [] => True
  | v :: vs => OKMsgV S md v ∧ OKMsgList S md vs
end

/-! ## scalar snippets: size arm = bytes written by the marshal arm -/

theorem toI32_in (n : Nat) : InI32 (toI32 n) := by
  unfold InI32 toI32 two31 two32; split <;> omega
theorem toI64_in (n : Nat) : InI64 (toI64 n) := by
  unfold InI64 toI64 two63 two64; split <;> omega

/-- the hand-written-codec view (`C01.FieldVal`) of a generated scalar field -/
def fvOf (k : SK) (v : V) : FieldVal :=
  match k with
  | .bool => .bool (v.n != 0)
  | .int32 | .enum => .int32 (toI32 v.n)
  | .int64 | .uint32 | .uint64 => .uint64 v.n
  | .sint32 => .sint32 (toI32 v.n)
  | .sint64 => .sint64 (toI64 v.n)
  | .fixed32 | .sfixed32 | .float => .fixed32 v.n
  | .fixed64 | .sfixed64 | .double => .fixed64 v.n
  | .string | .bytes => .bytes v.b

theorem fvOf_valid (k : SK) (v : V) (h : ValidScalar k v) : (fvOf k v).Valid := by
  cases k <;> simp only [fvOf, FieldVal.Valid, ValidScalar] at * <;>
    first | exact h | exact toI32_in _ | exact toI64_in _ | trivial

theorem scalarOp_fv (k : SK) (tag : Nat) (v : V) : scalarOp k tag v = (fvOf k v).encOp tag := by
  cases k <;> rfl
theorem scalarSize_fv (k : SK) (tag : Nat) (v : V) : scalarSize k tag v = (fvOf k v).predicted tag := by
  cases k <;> rfl

theorem scalar_exact (k : SK) (tag : Nat) (v : V) (ht : ValidTag tag) (h : ValidScalar k v) :
    scalarSize k tag v = (scalarOp k tag v).wire.length := by
  rw [scalarOp_fv, scalarSize_fv]; exact predicted_exact _ tag ht (fvOf_valid k v h)

theorem scalarOp_plain (k : SK) (tag : Nat) (v : V) : OpExact (scalarOp k tag v) := by
  cases k <;> exact True.intro

/-! ## packed snippets -/

def pfvOf (k : SK) (vs : List V) : FieldVal :=
  match k with
  | .bool => .pBool (vs.map fun v => v.n != 0)
  | .int32 | .enum => .pInt32 (vs.map fun v => toI32 v.n)
  | .int64 | .uint32 | .uint64 => .pUint64 (vs.map V.n)
  | .sint32 => .pSint32 (vs.map fun v => toI32 v.n)
  | .sint64 => .pSint64 (vs.map fun v => toI64 v.n)
  | .fixed32 | .sfixed32 | .float => .pFixed32 (vs.map V.n)
  | .fixed64 | .sfixed64 | .double => .pFixed64 (vs.map V.n)
  | .string | .bytes => .pBool [true]     -- not packable: never used

theorem pfv_valid (k : SK) (vs : List V) (hne : vs ≠ []) (hv : ∀ v ∈ vs, ValidScalar k v)
    (hl : vs.length ≤ maxFieldLen) (hk : k ≠ .string ∧ k ≠ .bytes) : (pfvOf k vs).Valid := by
  have hmne : ∀ {β} (f : V → β), vs.map f ≠ [] := by intro β f; simpa using hne
  have h64 : two64 = 18446744073709551616 := rfl
  have hml : maxFieldLen = 2147483647 := rfl
  cases k <;> simp only [pfvOf, FieldVal.Valid, List.length_map] <;>
    first
      | exact absurd rfl hk.1
      | exact absurd rfl hk.2
      | exact ⟨hmne _, hl⟩
      | (refine ⟨hmne _, ?_, by omega⟩
         intro x hx; rw [List.mem_map] at hx; obtain ⟨v, hv', rfl⟩ := hx
         first | exact toI32_in _ | exact toI64_in _ | exact hv v hv')

theorem packed_exact (k : SK) (tag : Nat) (vs : List V) (ht : ValidTag tag) (hne : vs ≠ [])
    (hv : ∀ v ∈ vs, ValidScalar k v) (hl : vs.length ≤ maxFieldLen) :
    packedSize k tag vs = (packedOp k tag vs).wire.length := by
  have hie : vs.isEmpty = false := by cases vs <;> simp at hne ⊢
  by_cases hk : k ≠ .string ∧ k ≠ .bytes
  · have hp := predicted_exact (pfvOf k vs) tag ht (pfv_valid k vs hne hv hl hk)
    cases k <;>
      first
        | exact absurd rfl hk.1
        | exact absurd rfl hk.2
        | simpa [packedSize, packedOp, pfvOf, FieldVal.predicted, FieldVal.encOp, hie, List.map_map, Function.comp_def] using hp
  · have : k = .string ∨ k = .bytes := by
      cases k <;> simp at hk ⊢
    rcases this with rfl | rfl <;> simp [packedSize, packedOp, EncOp.wire, hie]

theorem packedOp_plain (k : SK) (tag : Nat) (vs : List V) : OpExact (packedOp k tag vs) := by
  cases k <;> exact True.intro

/-! ## the whole message: `Size()` = bytes written by the encoder calls of `MarshalTo` -/

theorem nested_wire_length (tag : Nat) (b : Bytes) (ht : ValidTag tag) :
    (EncOp.nested tag b.length 0 (some b)).wire.length = sizeOfTagKey tag + sizeOfVarint b.length + b.length := by
  simp [EncOp.wire, sizeOfVarint_eq_length, sizeOfTagKey_exact tag wtLen ht (by decide)]
  omega

theorem sumSizes_cons {α} (f : α → Nat) (a : α) (l : List α) : sumSizes f (a :: l) = f a + sumSizes f l := by
  simp [sumSizes]

theorem scalar_list_exact (k : SK) (tag : Nat) (ht : ValidTag tag) : ∀ (vs : List V), (∀ v ∈ vs, ValidScalar k v) →
    sumSizes (scalarSize k tag) vs = (wiresOf (vs.map (scalarOp k tag))).length ∧
      ∀ op ∈ vs.map (scalarOp k tag), OpExact op := by
  intro vs
  induction vs with
  | nil => intro _; exact ⟨rfl, by simp⟩
  | cons v vs ih =>
    intro hv
    obtain ⟨h1, h2⟩ := ih (fun x hx => hv x (by simp [hx]))
    refine ⟨?_, ?_⟩
    · rw [sumSizes_cons, List.map_cons, wiresOf_cons, List.length_append, ← h1,
        scalar_exact k tag v ht (hv v (by simp))]
    · intro op hop
      rw [List.map_cons, List.mem_cons] at hop
      rcases hop with rfl | hop
      · exact scalarOp_plain k tag v
      · exact h2 op hop

mutual
theorem fields_exact (S : Schema) : ∀ (md : MD) (fs : List F) (ops : List EncOp),
    OKFields S md fs → opsFields S md fs = .ok ops →
    sizeFields S md fs = (wiresOf ops).length ∧ ∀ op ∈ ops, OpExact op
  | [], _, ops, _, ho => by
    simp only [opsFields] at ho; cases ho; exact ⟨by simp [sizeFields, wiresOf], by simp⟩
  | _ :: _, [], ops, _, ho => by
    simp only [opsFields] at ho; cases ho; exact ⟨by simp [sizeFields, wiresOf], by simp⟩
  | fd :: md, f :: fs, ops, hok, ho => by
    simp only [OKFields] at hok
    simp only [opsFields] at ho
    cases ha : opsField S fd f with
    | ok a =>
      rw [ha] at ho
      cases hb : opsFields S md fs with
      | ok b =>
        rw [hb] at ho
        cases ho
        obtain ⟨s1, x1⟩ := field_exact S fd f a hok.1 ha
        obtain ⟨s2, x2⟩ := fields_exact S md fs b hok.2 hb
        refine ⟨by simp only [sizeFields]; rw [s1, s2, wiresOf_append, List.length_append], ?_⟩
        intro op hop
        rcases List.mem_append.mp hop with h | h
        · exact x1 op h
        · exact x2 op h
      | err => rw [hb] at ho; cases ho
      | panic => rw [hb] at ho; cases ho
    | err => rw [ha] at ho; cases ho
    | panic => rw [ha] at ho; cases ho

theorem field_exact (S : Schema) (fd : FD) : ∀ (f : F) (ops : List EncOp),
    OKField S fd f → opsField S fd f = .ok ops →
    sizeField S fd f = (wiresOf ops).length ∧ ∀ op ∈ ops, OpExact op
  | .unset, ops, _, ho => by
    simp only [opsField] at ho
    split at ho
    · cases ho
    · rename_i hnr
      cases ho; exact ⟨by simp [sizeField, wiresOf, hnr], by simp⟩
  | .one v, ops, hok, ho => by
    simp only [OKField] at hok
    obtain ⟨ht, hv⟩ := hok
    cases hty : fd.ty with
    | sc k =>
      simp only [hty] at hv
      simp only [opsField, hty] at ho
      simp only [sizeField, hty]
      have he := scalar_exact k fd.num v ht hv
      have hgen : scalarSize k fd.num v = (wiresOf [scalarOp k fd.num v]).length ∧ ∀ op ∈ [scalarOp k fd.num v], OpExact op :=
        ⟨by rw [he]; simp [wiresOf], by intro op hop; simp at hop; subst hop; exact scalarOp_plain k fd.num v⟩
      cases hc : fd.card <;> simp only [hc] at ho ⊢ <;> cases ho <;>
        first
          | exact hgen
          | (by_cases hp : implicitPresent k v = true
             · rw [if_pos hp, if_pos hp]; exact hgen
             · rw [if_neg hp, if_neg hp]; exact ⟨by simp [wiresOf], by simp⟩)
    | msg i =>
      simp only [hty] at hv
      simp only [opsField, hty] at ho
      cases hb : bytesMsgV S (S.md i) v with
      | ok body =>
        rw [hb] at ho
        cases ho
        have hl := msgV_exact S (S.md i) v body hv hb
        refine ⟨?_, ?_⟩
        · simp only [sizeField, hty, hl, wiresOf, List.map_cons, List.map_nil, List.flatten_cons, List.flatten_nil,
            List.append_nil]
          exact (nested_wire_length fd.num body ht).symm
        · intro op hop; simp at hop; subst hop; exact ⟨rfl, body, rfl, hl⟩
      | err => rw [hb] at ho; cases ho
      | panic => rw [hb] at ho; cases ho
  | .many vs, ops, hok, ho => by
    simp only [OKField] at hok
    obtain ⟨ht, hv⟩ := hok
    cases hty : fd.ty with
    | sc k =>
      simp only [hty] at hv
      simp only [opsField, hty] at ho
      simp only [sizeField, hty]
      cases hc : fd.card <;> simp only [hc] at ho ⊢ <;> cases ho <;>
        first
          | exact scalar_list_exact k fd.num ht vs hv.1
          | (by_cases hne : vs = []
             · subst hne; exact ⟨by simp [packedSize, wiresOf], by simp⟩
             · have hie : vs.isEmpty = false := by cases vs <;> simp at hne ⊢
               simp only [hie]
               exact ⟨by rw [packed_exact k fd.num vs ht hne hv.1 hv.2]; simp [wiresOf],
                 by intro op hop; simp at hop; subst hop; exact packedOp_plain k fd.num vs⟩)
    | msg i =>
      simp only [hty] at hv
      simp only [opsField, hty] at ho
      have hsz : sizeField S fd (.many vs) = sizeMsgList S (S.md i) fd.num fd.card.isMap vs := by
        simp only [sizeField, hty]
      rw [hsz]
      exact msgList_exact S (S.md i) fd.num fd.card.isMap vs ops ht hv ho

theorem msgV_exact (S : Schema) (md : MD) : ∀ (v : V) (body : Bytes),
    OKMsgV S md v → bytesMsgV S md v = .ok body → sizeMsgV S md v = body.length
  | .msg fs unk, body, hok, hb => by
    simp only [OKMsgV] at hok
    simp only [bytesMsgV] at hb
    cases ho : opsFields S md fs with
    | ok ops =>
      rw [ho] at hb; cases hb
      obtain ⟨s, _⟩ := fields_exact S md fs ops hok ho
      simp [sizeMsgV, s]
    | err => rw [ho] at hb; cases hb
    | panic => rw [ho] at hb; cases hb
  | .num _, body, _, hb => by simp only [bytesMsgV] at hb; cases hb; rfl
  | .bs _, body, _, hb => by simp only [bytesMsgV] at hb; cases hb; rfl

theorem msgList_exact (S : Schema) (md : MD) (tag : Nat) (sk : Bool) : ∀ (vs : List V) (ops : List EncOp),
    ValidTag tag → OKMsgList S md vs → opsMsgList S md tag sk vs = .ok ops →
    sizeMsgList S md tag sk vs = (wiresOf ops).length ∧ ∀ op ∈ ops, OpExact op
  | [], ops, _, _, ho => by
    simp only [opsMsgList] at ho; cases ho; exact ⟨by simp [sizeMsgList, wiresOf], by simp⟩
  | v :: vs, ops, ht, hok, ho => by
    simp only [OKMsgList] at hok
    simp only [opsMsgList] at ho
    by_cases hn : (sk && nilEntry md v) = true
    · -- a nil-valued entry of a message-valued map: nothing counted, nothing written
      rw [if_pos hn] at ho
      obtain ⟨s, x⟩ := msgList_exact S md tag sk vs ops ht hok.2 ho
      exact ⟨by simp only [sizeMsgList, if_pos hn, s, Nat.zero_add], x⟩
    rw [if_neg hn] at ho
    cases hb : bytesMsgV S md v with
    | ok body =>
      rw [hb] at ho
      cases hr : opsMsgList S md tag sk vs with
      | ok rest =>
        rw [hr] at ho; cases ho
        have hl := msgV_exact S md v body hok.1 hb
        obtain ⟨s, x⟩ := msgList_exact S md tag sk vs rest ht hok.2 hr
        refine ⟨?_, ?_⟩
        · simp only [sizeMsgList, if_neg hn, hl, s, wiresOf_cons, List.length_append]
          rw [nested_wire_length tag body ht]
        · intro op hop
          rcases List.mem_cons.mp hop with rfl | h
          · exact ⟨rfl, body, rfl, hl⟩
          · exact x op h
      | err => rw [hr] at ho; cases ho
      | panic => rw [hr] at ho; cases ho
    | err => rw [hb] at ho; cases ho
    | panic => rw [hb] at ho; cases ho
end

/-! ## which loops have the nil test -/

theorem isMap_of_ne {c : Card} (h : c ≠ .map) : c.isMap = false := by
  cases c <;> first | rfl | exact absurd rfl h
theorem isMap_of_eq {c : Card} (h : c = .map) : c.isMap = true := by subst h; rfl
theorem isMap_list {c : Card} (h : c = .list) : c.isMap = false := by subst h; rfl

/-- only an entry whose value position holds the nil pointer is passed over -/
theorem nilEntry_set (md : MD) (f0 : F) (v : V) (rest : List F) (u : Bytes) :
    nilEntry md (.msg (f0 :: .one v :: rest) u) = false := by simp [nilEntry, valUnset]

/-! ## the functional description of the calls never panics -/

mutual
theorem opsFields_no_panic (S : Schema) : ∀ (md : MD) (fs : List F), opsFields S md fs ≠ .panic
  | [], _ => by simp [opsFields]
  | _ :: _, [] => by simp [opsFields]
  | fd :: md, f :: fs => by
    have h1 := opsField_no_panic S fd f
    have h2 := opsFields_no_panic S md fs
    simp only [opsFields]
    cases ha : opsField S fd f with
    | ok a => cases hb : opsFields S md fs <;> simp_all
    | err => simp
    | panic => exact absurd ha h1
theorem opsField_no_panic (S : Schema) (fd : FD) : ∀ (f : F), opsField S fd f ≠ .panic
  | .unset => by simp only [opsField]; split <;> simp
  | .one v => by
    simp only [opsField]
    cases hty : fd.ty with
    | sc k => simp only []; cases fd.card <;> simp
    | msg i =>
      have := bytesMsgV_no_panic S (S.md i) v
      simp only []
      cases hb : bytesMsgV S (S.md i) v <;> simp_all
  | .many vs => by
    simp only [opsField]
    cases hty : fd.ty with
    | sc k => simp only []; cases fd.card <;> simp
    | msg i => simp only []; exact opsMsgList_no_panic S (S.md i) fd.num fd.card.isMap vs
theorem bytesMsgV_no_panic (S : Schema) (md : MD) : ∀ (v : V), bytesMsgV S md v ≠ .panic
  | .msg fs unk => by
    have := opsFields_no_panic S md fs
    simp only [bytesMsgV]
    cases ho : opsFields S md fs <;> simp_all
  | .num _ => by simp [bytesMsgV]
  | .bs _ => by simp [bytesMsgV]
theorem opsMsgList_no_panic (S : Schema) (md : MD) (tag : Nat) (sk : Bool) :
    ∀ (vs : List V), opsMsgList S md tag sk vs ≠ .panic
  | [] => by simp [opsMsgList]
  | v :: vs => by
    have h1 := bytesMsgV_no_panic S md v
    have h2 := opsMsgList_no_panic S md tag sk vs
    simp only [opsMsgList]
    split
    · exact h2
    cases hb : bytesMsgV S md v with
    | ok body => cases hr : opsMsgList S md tag sk vs <;> simp_all
    | err => simp
    | panic => exact absurd hb h1
end

end Csproto.Gen
