import Csproto.Proofs.GenDec
import Csproto.Proofs.Gen
import Csproto.Proofs.Records
/-
  The generated `Unmarshal` on a sequence of well-formed records of scalar fields and unknown fields,
  in ANY order: it computes the fold of the reference rule "a singular field keeps its last
  occurrence, a repeated field appends every element (packed runs expanded), an unknown field is
  retained as its raw bytes, in order".
-/
namespace Csproto.Gen
open Csproto Csproto.C01

/-! ### the decode-side view of one scalar value -/

/-- the `C01.FieldVal` whose *reader* is the one the generated code calls for kind `k` -/
def dfv (k : SK) (v : V) : FieldVal :=
  match k with
  | .bool => .bool (v.n != 0)
  | .int32 | .enum => .int32 (toI32 v.n)
  | .int64 => .int64 (toI64 v.n)
  | .uint32 => .uint32 v.n
  | .uint64 => .uint64 v.n
  | .sint32 => .sint32 (toI32 v.n)
  | .sint64 => .sint64 (toI64 v.n)
  | .fixed32 | .sfixed32 => .fixed32 v.n
  | .fixed64 | .sfixed64 => .fixed64 v.n
  | .float => .float32 v.n
  | .double => .float64 v.n
  | .string => .str v.b
  | .bytes => .bytes v.b

def dpfv (k : SK) (vs : List V) : FieldVal :=
  match k with
  | .bool => .pBool (vs.map fun v => v.n != 0)
  | .int32 | .enum => .pInt32 (vs.map fun v => toI32 v.n)
  | .int64 => .pInt64 (vs.map fun v => toI64 v.n)
  | .uint32 => .pUint32 (vs.map V.n)
  | .uint64 => .pUint64 (vs.map V.n)
  | .sint32 => .pSint32 (vs.map fun v => toI32 v.n)
  | .sint64 => .pSint64 (vs.map fun v => toI64 v.n)
  | .fixed32 | .sfixed32 => .pFixed32 (vs.map V.n)
  | .fixed64 | .sfixed64 => .pFixed64 (vs.map V.n)
  | .float => .pFloat32 (vs.map V.n)
  | .double => .pFloat64 (vs.map V.n)
  | .string | .bytes => .pBool [true]

/-- ranges a conforming writer respects (the Go field type's width) -/
def DecValid (k : SK) (v : V) : Prop :=
  match k with
  | .uint32 | .fixed32 | .sfixed32 | .float => v.n < two32
  | .int64 | .uint64 | .sint64 | .fixed64 | .sfixed64 | .double => v.n < two64
  | .string | .bytes => v.b.length ≤ maxFieldLen
  | _ => True

theorem toU64_toI64 {n : Nat} (h : n < two64) : toU64 (toI64 n) = n := by
  unfold toU64 toI64 two64 two63 at *
  split <;> omega

theorem dfv_valid (k : SK) (v : V) (h : DecValid k v) : (dfv k v).Valid := by
  cases k <;> simp only [dfv, FieldVal.Valid, DecValid] at * <;>
    first | exact h | exact toI32_in _ | exact toI64_in _ | trivial

theorem dfv_encOp (k : SK) (tag : Nat) (v : V) (h : DecValid k v) : (dfv k v).encOp tag = scalarOp k tag v := by
  cases k <;> simp only [dfv, FieldVal.encOp, scalarOp, DecValid] at * <;> first | rfl | (rw [toU64_toI64 h])

theorem dfv_decOp (k : SK) (v : V) : (dfv k v).decOp = decOpOf k := by cases k <;> rfl
theorem dfv_wt (k : SK) (v : V) : (dfv k v).wt = wtOf k := by cases k <;> rfl

/-- what the field holds after the element was decoded -/
def decodedV (k : SK) (v : V) : V := itemToV k (dfv k v).item
def decodedVs (k : SK) (vs : List V) : List V := itemToVs k (dpfv k vs).item

theorem dpfv_valid (k : SK) (vs : List V) (hne : vs ≠ []) (hv : ∀ v ∈ vs, DecValid k v)
    (hl : vs.length ≤ maxFieldLen) (hk : k ≠ .string ∧ k ≠ .bytes) : (dpfv k vs).Valid := by
  have hmne : ∀ {β} (f : V → β), vs.map f ≠ [] := by intro β f; simpa using hne
  have h64 : two64 = 18446744073709551616 := rfl
  have hml : maxFieldLen = 2147483647 := rfl
  cases k <;> simp only [dpfv, FieldVal.Valid, List.length_map] <;>
    first
      | exact absurd rfl hk.1
      | exact absurd rfl hk.2
      | exact ⟨hmne _, hl⟩
      | (refine ⟨hmne _, ?_, by omega⟩
         intro x hx; rw [List.mem_map] at hx; obtain ⟨v, hv', rfl⟩ := hx
         first | exact toI32_in _ | exact toI64_in _ | exact hv v hv')

theorem map_toU64_toI64 (vs : List V) (hv : ∀ v ∈ vs, v.n < two64) :
    (vs.map fun v => toI64 v.n).map toU64 = vs.map V.n := by
  rw [List.map_map]
  apply List.map_congr_left
  intro v hvm
  exact toU64_toI64 (hv v hvm)

theorem dpfv_encOp (k : SK) (tag : Nat) (vs : List V) (hv : ∀ v ∈ vs, DecValid k v) (hk : k ≠ .string ∧ k ≠ .bytes) :
    (dpfv k vs).encOp tag = packedOp k tag vs := by
  cases k <;> simp only [dpfv, FieldVal.encOp, packedOp, List.map_map, Function.comp_def] <;>
    first
      | rfl
      | exact absurd rfl hk.1
      | exact absurd rfl hk.2
      | (congr 1
         apply List.map_congr_left
         intro v hvm
         exact toU64_toI64 (by simpa [DecValid] using hv v hvm))

theorem dpfv_decOp (k : SK) (vs : List V) (hk : k ≠ .string ∧ k ≠ .bytes) : some (dpfv k vs).decOp = packedDecOpOf k := by
  cases k <;> first | rfl | exact absurd rfl hk.1 | exact absurd rfl hk.2

theorem dpfv_wt (k : SK) (vs : List V) (hk : k ≠ .string ∧ k ≠ .bytes) : (dpfv k vs).wt = wtLen := by
  cases k <;> first | rfl | exact absurd rfl hk.1 | exact absurd rfl hk.2

theorem wtLen_ne_wtOf (k : SK) (hk : k ≠ .string ∧ k ≠ .bytes) : wtLen ≠ wtOf k := by
  cases k <;> first | decide | exact absurd rfl hk.1 | exact absurd rfl hk.2

/-! ### records -/

/-- one record of a message of type `md`, as a conforming writer emits it -/
inductive WRec where
  | scalar (idx : Nat) (fd : FD) (k : SK) (v : V)         -- one element of a scalar field
  | packed (idx : Nat) (fd : FD) (k : SK) (vs : List V)   -- a packed run of a repeated scalar field
  | unknown (r : Rec)                                     -- a field the message type does not define

def WRec.wire : WRec → Bytes
  | .scalar _ fd k v => (scalarOp k fd.num v).wire
  | .packed _ fd k vs => (packedOp k fd.num vs).wire
  | .unknown r => r.wire

def isRep (c : Card) : Bool :=
  match c with
  | .list | .packed => true
  | _ => false

def WRec.OK (md : MD) : WRec → Prop
  | .scalar idx fd k v => findField md fd.num 0 = some (idx, fd) ∧ fd.ty = .sc k ∧ ValidTag fd.num ∧ DecValid k v
  | .packed idx fd k vs => findField md fd.num 0 = some (idx, fd) ∧ fd.ty = .sc k ∧ ValidTag fd.num ∧
      isRep fd.card = true ∧ vs ≠ [] ∧ (∀ v ∈ vs, DecValid k v) ∧ vs.length ≤ maxFieldLen ∧ (k ≠ .string ∧ k ≠ .bytes)
  | .unknown r => r.OK ∧ findField md r.tag 0 = none

/-- the reference rule for one record: last one wins / append / retain -/
def WRec.apply (md : MD) (st : List F × Bytes) : WRec → List F × Bytes
  | .scalar idx fd k v =>
    (assign md st.1 idx fd (if isRep fd.card then appendTo (st.1.getD idx .unset) [decodedV k v] else .one (decodedV k v)), st.2)
  | .packed idx fd k vs => (assign md st.1 idx fd (appendTo (st.1.getD idx .unset) (decodedVs k vs)), st.2)
  | .unknown r => (st.1, st.2 ++ r.wire)

def wiresW (rs : List WRec) : Bytes := (rs.map WRec.wire).flatten

theorem wiresW_cons (r : WRec) (rs : List WRec) : wiresW (r :: rs) = r.wire ++ wiresW rs := by simp [wiresW]

theorem scalarOp_wire_ne_nil (k : SK) (tag : Nat) (v : V) : (scalarOp k tag v).wire ≠ [] := by
  cases k <;> simp [scalarOp, EncOp.wire, encTag, encVarint_ne_nil]

theorem fieldStep_scalar (S : Schema) (fast : Bool) (fuel : Nat) (fd : FD) (k : SK) (wt : Nat) (d : Dec) (cur : F)
    (hty : fd.ty = .sc k) :
    fieldStep S fast (fuel + 1) fd wt d cur =
      if isRep fd.card then (readRepeated k d wt).map fun (x : Dec × List V) => (x.1, appendTo cur x.2)
      else (readScalar k d wt).map fun (x : Dec × V) => (x.1, F.one x.2) := by
  simp only [fieldStep, hty]
  cases fd.card <;> simp [isRep]

/-- one loop iteration on one record -/
theorem loop_step (S : Schema) (fast : Bool) (md : MD) (r : WRec) (hok : r.OK md) (fuel : Nat) (d : Dec)
    (pre post : Bytes) (fs : List F) (unk : Bytes) (hAt : d.At pre (r.wire ++ post)) (hf : d.fast = fast) :
    ∃ d', d'.At (pre ++ r.wire) post ∧ d'.fast = fast ∧
      unmarshalLoop S fast (fuel + 2) md d fs unk =
        unmarshalLoop S fast (fuel + 1) md d' (r.apply md (fs, unk)).1 (r.apply md (fs, unk)).2 := by
  cases r with
  | scalar idx fd k v =>
    obtain ⟨hfind, hty, htag, hval⟩ := hok
    simp only [WRec.wire] at hAt
    have hne := scalarOp_wire_ne_nil k fd.num v
    have hmore : d.off < d.len := by
      have := hAt.not_eof (by simp [hne]); omega
    rw [← dfv_encOp k fd.num v hval] at hAt
    obtain ⟨d1, d2, a, h1, h2, hoff, hp, hfa⟩ := roundtrip (dfv k v) fd.num htag (dfv_valid k v hval) d pre post hAt
    rw [dfv_wt] at h1
    rw [dfv_decOp] at h2
    have hAt2 : d2.At (pre ++ ((dfv k v).encOp fd.num).wire) post :=
      ⟨by rw [hp, hAt.p]; simp, by rw [hoff]; simp⟩
    rw [dfv_encOp k fd.num v hval] at hAt2
    refine ⟨d2, hAt2, by rw [hfa, hf], ?_⟩
    have hrs : readScalar k d1 (wtOf k) = .ok (d2, decodedV k v) := by
      simp [readScalar, h2, decodedV]
    have hrr : readRepeated k d1 (wtOf k) = .ok (d2, [decodedV k v]) := by
      unfold readRepeated
      cases hp' : packedDecOpOf k <;> simp [hrs, Res.map]
    simp only [unmarshalLoop, hmore, not_true_eq_false, if_false, h1, hfind]
    rw [fieldStep_scalar S fast fuel fd k (wtOf k) d1 _ hty]
    by_cases hrep : isRep fd.card = true
    · simp [hrep, hrr, Res.map, WRec.apply]
    · simp [hrep, hrs, Res.map, WRec.apply]
  | packed idx fd k vs =>
    obtain ⟨hfind, hty, htag, hrep, hne, hval, hlen, hk⟩ := hok
    simp only [WRec.wire] at hAt
    have hie : vs.isEmpty = false := by cases vs <;> simp at hne ⊢
    have hwne : (packedOp k fd.num vs).wire ≠ [] := by
      rw [← dpfv_encOp k fd.num vs hval hk]
      have := wire_split (dpfv k vs) fd.num (dpfv_valid k vs hne hval hlen hk)
      rw [this]; simp [encTag, encVarint_ne_nil]
    have hmore : d.off < d.len := by
      have := hAt.not_eof (by simp [hwne]); omega
    rw [← dpfv_encOp k fd.num vs hval hk] at hAt
    obtain ⟨d1, d2, a, h1, h2, hoff, hp, hfa⟩ :=
      roundtrip (dpfv k vs) fd.num htag (dpfv_valid k vs hne hval hlen hk) d pre post hAt
    rw [dpfv_wt k vs hk] at h1
    have hAt2 : d2.At (pre ++ ((dpfv k vs).encOp fd.num).wire) post :=
      ⟨by rw [hp, hAt.p]; simp, by rw [hoff]; simp⟩
    rw [dpfv_encOp k fd.num vs hval hk] at hAt2
    refine ⟨d2, hAt2, by rw [hfa, hf], ?_⟩
    have hpop := dpfv_decOp k vs hk
    have hrr : readRepeated k d1 wtLen = .ok (d2, decodedVs k vs) := by
      unfold readRepeated
      rw [← hpop]
      simp [wtLen_ne_wtOf k hk, h2, decodedVs]
    simp only [unmarshalLoop, hmore, not_true_eq_false, if_false, h1, hfind]
    rw [fieldStep_scalar S fast fuel fd k wtLen d1 _ hty]
    simp [hrep, hrr, Res.map, WRec.apply]
  | unknown r =>
    obtain ⟨hrok, hnone⟩ := hok
    simp only [WRec.wire] at hAt
    have htag := Rec.tag_ok hrok
    have hmore : d.off < d.len := by
      have := hAt.not_eof (by simp [Rec.wire_ne_nil r]); omega
    have hAt0 : d.At pre (encTag r.tag r.wt ++ (r.body ++ post)) := by
      have := hAt; simp only [Rec.wire, List.append_assoc] at this; exact this
    have hts := Dec.tag_at hAt0 htag.1 htag.2 (Rec.wt_lt r)
    have hAt1 := hAt0.afterTag
    have hskip := Dec.skip_at htag.1 htag.2 (Rec.body_wf hrok) hAt1 (by intro _; simp [hAt0.off])
    have hstep2 : ((d.afterTag (encTag r.tag r.wt).length) : Dec).step (.skip r.tag r.wt) =
        ({ d.afterTag (encTag r.tag r.wt).length with off := (d.afterTag (encTag r.tag r.wt).length).off + r.body.length }, .ok (.bytes r.wire), 0) := by
      simp only [Dec.step, withAlloc, hskip, Rec.wire]
    refine ⟨{ d.afterTag (encTag r.tag r.wt).length with off := (d.afterTag (encTag r.tag r.wt).length).off + r.body.length }, ?_, by simpa using hf, ?_⟩
    · refine ⟨by show d.p = _; rw [hAt.p]; simp [WRec.wire], ?_⟩
      show d.off + (encTag r.tag r.wt).length + r.body.length = _
      simp [hAt.off, WRec.wire, Rec.wire]; omega
    · simp only [unmarshalLoop, hmore, not_true_eq_false, if_false, hts, hnone, hstep2, WRec.apply]

/-- **the generated decoder computes the fold of the reference rule over any record sequence** -/
theorem loop_records (S : Schema) (fast : Bool) (md : MD) (rs : List WRec) (hok : ∀ r ∈ rs, r.OK md) :
    ∀ (fuel : Nat) (d : Dec) (pre : Bytes) (fs : List F) (unk : Bytes), rs.length + 1 ≤ fuel →
      d.At pre (wiresW rs) → d.fast = fast →
      unmarshalLoop S fast fuel md d fs unk = .ok (rs.foldl (WRec.apply md) (fs, unk)) := by
  induction rs with
  | nil =>
    intro fuel d pre fs unk hf hAt _
    match fuel, hf with
    | fuel + 1, _ =>
      have : ¬ d.off < d.len := by rw [hAt.len, hAt.off]; simp [wiresW]
      simp [unmarshalLoop, this]
  | cons r rs ih =>
    intro fuel d pre fs unk hf hAt hfast
    match fuel, hf with
    | fuel + 2, hf =>
      rw [wiresW_cons] at hAt
      obtain ⟨d', hAt', hfast', hstep⟩ := loop_step S fast md r (hok r (by simp)) fuel d pre (wiresW rs) fs unk hAt hfast
      rw [hstep]
      have := ih (fun q hq => hok q (by simp [hq])) (fuel + 1) d' (pre ++ r.wire) (r.apply md (fs, unk)).1
        (r.apply md (fs, unk)).2 (by simp at hf; omega) hAt' hfast'
      rw [this]; rfl
    | 1, hf => simp at hf

theorem WRec.wire_ne_nil (md : MD) (r : WRec) (h : r.OK md) : r.wire ≠ [] := by
  cases r with
  | scalar idx fd k v => exact scalarOp_wire_ne_nil k fd.num v
  | packed idx fd k vs =>
    obtain ⟨_, _, _, _, hne, hval, hlen, hk⟩ := h
    simp only [WRec.wire]
    rw [← dpfv_encOp k fd.num vs hval hk, wire_split (dpfv k vs) fd.num (dpfv_valid k vs hne hval hlen hk)]
    simp [encTag, encVarint_ne_nil]
  | unknown r => exact Rec.wire_ne_nil r

theorem length_le_wiresW (md : MD) (rs : List WRec) (h : ∀ r ∈ rs, r.OK md) : rs.length ≤ (wiresW rs).length := by
  induction rs with
  | nil => simp [wiresW]
  | cons r rs ih =>
    have := List.length_pos_iff.mpr (WRec.wire_ne_nil md r (h r (by simp)))
    have := ih (fun q hq => h q (by simp [hq]))
    rw [wiresW_cons]; simp; omega

theorem requiredMissing_initFields (md : MD) : requiredMissing md (initFields md) = hasRequired md := by
  induction md with
  | nil => rfl
  | cons fd md ih =>
    simp only [requiredMissing, initFields, List.map_cons, List.zip_cons_cons, List.any_cons, hasRequired] at *
    rw [ih]
    congr 1
    cases hc : fd.card <;> simp [initField, hc]

/-- **generated `Unmarshal` on any sequence of well-formed records** (scalar fields of the message type
    in any order, split / packed / repeated occurrences, unknown fields anywhere): the fold of the
    reference rule, then the required-field check -/
theorem unmarshal_records (S : Schema) (fast : Bool) (md : MD) (rs : List WRec) (hok : ∀ r ∈ rs, r.OK md) :
    unmarshal S fast md (wiresW rs) =
      (if requiredMissing md (rs.foldl (WRec.apply md) (initFields md, [])).1 then .err
       else .ok (rs.foldl (WRec.apply md) (initFields md, []))) := by
  have hlen := length_le_wiresW md rs hok
  unfold unmarshal
  generalize hF : 3 * (wiresW rs).length + 8 = F
  match F, hF with
  | F + 1, hF =>
    simp only [unmarshalMsg]
    by_cases hsc : (!hasRequired md && (wiresW rs).isEmpty) = true
    · -- the empty-input shortcut: no records, no required fields
      simp only [hsc, if_true]
      simp only [Bool.and_eq_true, Bool.not_eq_true', List.isEmpty_iff] at hsc
      have hnil : rs = [] := by
        cases rs with
        | nil => rfl
        | cons r rs =>
          exfalso
          have := WRec.wire_ne_nil md r (hok r (by simp))
          rw [wiresW_cons] at hsc
          exact this (List.append_eq_nil_iff.mp hsc.2).1
      subst hnil
      have hr : requiredMissing md (initFields md) = false := by
        rw [requiredMissing_initFields]
        exact hsc.1
      simp [hr]
    · simp only [hsc]
      have hloop := loop_records S fast md rs hok F { p := wiresW rs, off := 0, fast := fast } [] (initFields md) []
        (by omega) ⟨by simp, by simp⟩ rfl
      rw [hloop]
      simp only []
      split <;> simp_all

/-- what is retained: the unknown records' raw bytes, in wire order, after what was there before -/
def unknownBytes : List WRec → Bytes
  | [] => []
  | .unknown r :: rs => r.wire ++ unknownBytes rs
  | _ :: rs => unknownBytes rs

theorem fold_unknown (md : MD) (rs : List WRec) : ∀ (fs : List F) (unk : Bytes),
    (rs.foldl (WRec.apply md) (fs, unk)).2 = unk ++ unknownBytes rs := by
  induction rs with
  | nil => intro fs unk; simp [unknownBytes]
  | cons r rs ih =>
    intro fs unk
    cases r with
    | scalar idx fd k v => simp only [List.foldl_cons, WRec.apply, unknownBytes]; exact ih _ _
    | packed idx fd k vs => simp only [List.foldl_cons, WRec.apply, unknownBytes]; exact ih _ _
    | unknown r => simp only [List.foldl_cons, WRec.apply, unknownBytes]; rw [ih]; simp

end Csproto.Gen
