import Csproto.Model.Dec
import Csproto.Proofs.Wire
/-
  Helper lemmas about the Decoder model positioned inside a buffer `pre ++ x ++ post`.
-/
namespace Csproto

/-- the decoder's cursor sits right after `pre`, and `x ++ post` is what remains -/
structure Dec.At (d : Dec) (pre rest : Bytes) : Prop where
  p : d.p = pre ++ rest
  off : d.off = pre.length

theorem Dec.At.rest_eq {d : Dec} {pre rest : Bytes} (h : d.At pre rest) : d.p.drop d.off = rest := by
  rw [h.p, h.off]; simp

theorem Dec.At.len {d : Dec} {pre rest : Bytes} (h : d.At pre rest) : d.len = pre.length + rest.length := by
  unfold Dec.len; rw [h.p]; simp

theorem Dec.At.slice {d : Dec} {pre rest : Bytes} (h : d.At pre rest) : sliceFrom d.p d.off = .ok rest := by
  unfold sliceFrom
  have : d.off ≤ d.p.length := by rw [h.off, h.p]; simp
  simp [this, h.rest_eq]

theorem Dec.At.advance {d : Dec} {pre x post : Bytes} (h : d.At pre (x ++ post)) :
    Dec.At { d with off := d.off + x.length } (pre ++ x) post :=
  ⟨by simp [h.p], by simp [h.off]⟩

theorem Dec.At.not_eof {d : Dec} {pre rest : Bytes} (h : d.At pre rest) (hne : rest ≠ []) : ¬ (d.off ≥ d.len) := by
  rw [h.len, h.off]
  have : 0 < rest.length := List.length_pos_iff.mpr hne
  omega

/-- scalar method on an encoding `x` of `v` -/
theorem Dec.scalar_at {α} {d : Dec} {pre x post : Bytes} (h : d.At pre (x ++ post)) (hx : x ≠ [])
    (elem : Bytes → Res (α × Nat)) (mk : α → Item) (v : α)
    (helem : elem (x ++ post) = .ok (v, x.length)) :
    d.scalar elem mk = ({ d with off := d.off + x.length }, .ok (mk v)) := by
  unfold Dec.scalar
  have hne : x ++ post ≠ [] := by simp [hx]
  simp [h.not_eof hne, h.slice, helem]

theorem elVarint_enc (v : Nat) (hv : v < two64) (rest : Bytes) :
    elVarint (encVarint v ++ rest) = .ok (v, (encVarint v).length) := by
  unfold elVarint nz
  rw [decodeVarint_encVarint v hv]
  have := encVarint_length_pos v
  have hne : ¬ (encVarint v).length = 0 := by omega
  simp [hne]

/-- the decoder right after `DecodeTag` read a key of `n` bytes (cursor advanced, key span recorded) -/
def Dec.afterTag (d : Dec) (n : Nat) : Dec := { d with off := d.off + n, ks := d.off, ke := d.off + n }

@[simp] theorem Dec.afterTag_p (d : Dec) (n : Nat) : (d.afterTag n).p = d.p := rfl
@[simp] theorem Dec.afterTag_off (d : Dec) (n : Nat) : (d.afterTag n).off = d.off + n := rfl
@[simp] theorem Dec.afterTag_fast (d : Dec) (n : Nat) : (d.afterTag n).fast = d.fast := rfl
@[simp] theorem Dec.afterTag_ks (d : Dec) (n : Nat) : (d.afterTag n).ks = d.off := rfl
@[simp] theorem Dec.afterTag_ke (d : Dec) (n : Nat) : (d.afterTag n).ke = d.off + n := rfl
@[simp] theorem Dec.afterTag_len (d : Dec) (n : Nat) : (d.afterTag n).len = d.len := rfl

theorem Dec.At.afterTag {d : Dec} {pre x post : Bytes} (h : d.At pre (x ++ post)) :
    (d.afterTag x.length).At (pre ++ x) post :=
  ⟨by simp [h.p], by simp [h.off]⟩

/-- `DecodeTag` on a canonical key -/
theorem Dec.tag_at {d : Dec} {pre post : Bytes} {tag wt : Nat} (h : d.At pre (encTag tag wt ++ post))
    (h1 : 1 ≤ tag) (ht : tag ≤ maxTagValue) (hw : wt < 8) :
    d.step .tag = (d.afterTag (encTag tag wt).length, .ok (.tag tag wt), 0) := by
  have hne : encTag tag wt ++ post ≠ [] := by simp [encTag, encVarint_ne_nil]
  have hk := keyOf_lt ht hw
  have hk64 : keyOf tag wt < two64 := by unfold two32 at hk; unfold two64; omega
  have hs := keyOf_shift ht hw
  have hlen := encVarint_length_pos (keyOf tag wt)
  have hv1 : ¬ keyOf tag wt < 1 := by rw [keyOf_eq ht hw]; omega
  simp only [Dec.step, h.not_eof hne, h.slice, if_false]
  unfold encTag
  rw [decodeVarint_encVarint _ hk64]
  have hn : ¬ (encVarint (keyOf tag wt)).length < 1 := by omega
  have hmax : ¬ (tag > maxTagValue) := by omega
  simp [hn, hv1, hs.1, hs.2, hmax, Dec.afterTag]

theorem Dec.lenPrefix_at {d : Dec} {pre body post : Bytes} (h : d.At pre (encVarint body.length ++ body ++ post))
    (hl : body.length ≤ maxFieldLen) :
    d.lenPrefix = .ok (pre.length + (encVarint body.length).length, body.length) := by
  have hne : encVarint body.length ++ body ++ post ≠ [] := by simp [encVarint_ne_nil]
  have hl64 : body.length < two64 := by unfold maxFieldLen at hl; unfold two64; omega
  unfold Dec.lenPrefix
  simp only [h.not_eof hne, h.slice, if_false]
  rw [List.append_assoc, decodeVarint_encVarint _ hl64]
  have := encVarint_length_pos body.length
  have hn : ¬ (encVarint body.length).length = 0 := by omega
  have hm : ¬ body.length > maxFieldLen := by omega
  have hfit : ¬ (d.off + (encVarint body.length).length + body.length > d.len) := by
    rw [h.len, h.off]; simp; omega
  rw [h.off] at hfit
  simp [hn, hm, h.off]
  omega

theorem Dec.bytes_at {d : Dec} {pre body post : Bytes} (h : d.At pre (encVarint body.length ++ body ++ post))
    (hl : body.length ≤ maxFieldLen) :
    d.bytesOp = ({ d with off := d.off + (encVarint body.length ++ body).length }, .ok (.bytes body)) := by
  unfold Dec.bytesOp
  rw [Dec.lenPrefix_at h hl]
  have hdrop : (d.p.drop (pre.length + (encVarint body.length).length)).take body.length = body := by
    rw [h.p]
    have : pre ++ (encVarint body.length ++ body ++ post) = (pre ++ encVarint body.length) ++ (body ++ post) := by simp
    rw [this]
    have hlen : pre.length + (encVarint body.length).length = (pre ++ encVarint body.length).length := by simp
    rw [hlen, List.drop_left]
    simp
  simp [hdrop, h.off]; omega

/-! ### packed loop -/

theorem packedLoop_enc {α} (elem : Bytes → Res (α × Nat)) (enc : α → Bytes) (vs : List α)
    (henc : ∀ v ∈ vs, ∀ rest, elem (enc v ++ rest) = .ok (v, (enc v).length))
    (hpos : ∀ v ∈ vs, 0 < (enc v).length) :
    ∀ (pre post : Bytes) (l fuel nRead : Nat) (acc : List α),
      vs.length < fuel → nRead + ((vs.map enc).flatten).length = l →
      packedLoop elem (pre ++ (vs.map enc).flatten ++ post) l fuel nRead pre.length acc
        = (pre.length + ((vs.map enc).flatten).length, .ok (acc.reverse ++ vs)) := by
  induction vs with
  | nil =>
    intro pre post l fuel nRead acc hf hl
    match fuel, hf with
    | fuel + 1, _ =>
      simp at hl
      simp [packedLoop, hl]
  | cons v vs ih =>
    intro pre post l fuel nRead acc hf hl
    match fuel, hf with
    | fuel + 1, hf =>
      have hv := henc v (by simp)
      have hp := hpos v (by simp)
      simp only [List.map_cons, List.flatten_cons, List.length_append] at hl ⊢
      have hlt : nRead < l := by omega
      have hoff : ¬ (pre.length ≥ (pre ++ (enc v ++ (vs.map enc).flatten) ++ post).length) := by
        simp; omega
      have hslice : sliceFrom (pre ++ (enc v ++ (vs.map enc).flatten) ++ post) pre.length
          = .ok (enc v ++ ((vs.map enc).flatten ++ post)) := by
        unfold sliceFrom
        simp
      rw [packedLoop]
      simp only [hlt, if_true, hoff, if_false, hslice, hv]
      have hn0 : ¬ (enc v).length = 0 := by omega
      simp only [hn0, if_false]
      have ih' := ih (fun w hw => henc w (by simp [hw])) (fun w hw => hpos w (by simp [hw]))
        (pre ++ enc v) post l fuel (nRead + (enc v).length) (v :: acc) (by simp at hf; omega) (by omega)
      have e1 : pre ++ (enc v ++ (vs.map enc).flatten) ++ post = pre ++ enc v ++ (vs.map enc).flatten ++ post := by simp
      have e2 : pre.length + (enc v).length = (pre ++ enc v).length := by simp
      rw [e1, e2, ih']
      simp; omega

end Csproto

namespace Csproto

theorem length_le_flatten {α} (enc : α → Bytes) (vs : List α) (hpos : ∀ v ∈ vs, 0 < (enc v).length) :
    vs.length ≤ ((vs.map enc).flatten).length := by
  induction vs with
  | nil => simp
  | cons v vs ih =>
    have := hpos v (by simp)
    have := ih (fun w hw => hpos w (by simp [hw]))
    simp only [List.map_cons, List.flatten_cons, List.length_append, List.length_cons]
    omega

/-- `DecodePackedX` on a canonical packed field body (`varint(len) ++ elements`) -/
theorem Dec.packed_at {α} {d : Dec} {pre post : Bytes} (elem : Bytes → Res (α × Nat)) (enc : α → Bytes)
    (mk : List α → Item) (vs : List α) (prealloc : Option Nat)
    (henc : ∀ v ∈ vs, ∀ rest, elem (enc v ++ rest) = .ok (v, (enc v).length))
    (hpos : ∀ v ∈ vs, 0 < (enc v).length)
    (hL : ((vs.map enc).flatten).length < two64)
    (h : d.At pre (encVarint ((vs.map enc).flatten).length ++ (vs.map enc).flatten ++ post)) :
    ∃ a, d.packed elem mk prealloc =
      ({ d with off := d.off + (encVarint ((vs.map enc).flatten).length ++ (vs.map enc).flatten).length },
        .ok (mk vs), a) := by
  generalize hF : (vs.map enc).flatten = F at *
  have hne : encVarint F.length ++ F ++ post ≠ [] := by simp [encVarint_ne_nil]
  have hvl := length_le_flatten enc vs hpos
  rw [hF] at hvl
  have hp2 : d.p = (pre ++ encVarint F.length) ++ F ++ post := by rw [h.p]; simp
  have hlen : d.len = pre.length + (encVarint F.length).length + F.length + post.length := by
    rw [h.len]; simp; omega
  have hloop := packedLoop_enc elem enc vs henc hpos (pre ++ encVarint F.length) post F.length (d.len + 1) 0 []
    (by omega) (by rw [hF]; simp)
  rw [hF] at hloop
  rw [← hp2] at hloop
  have hoff1 : d.off + (encVarint F.length).length = (pre ++ encVarint F.length).length := by
    rw [h.off]; simp
  unfold Dec.packed
  simp only [h.not_eof hne, h.slice, if_false]
  rw [List.append_assoc, elVarint_enc _ hL]
  cases prealloc with
  | none =>
    refine ⟨vs.length, ?_⟩
    simp only [hoff1, hloop]
    simp [h.off]; omega
  | some k =>
    have hfit : ¬ (F.length > d.len - (pre ++ encVarint F.length).length) := by
      rw [hlen]; simp; omega
    refine ⟨F.length / k + vs.length, ?_⟩
    simp only [hoff1, hfit, if_false, hloop]
    simp [h.off]; omega

end Csproto

namespace Csproto
/-! ### element readers on canonical encodings -/

theorem elBool_enc (b : Bool) (rest : Bytes) : elBool ([boolByte b] ++ rest) = .ok (b, 1) := by
  cases b <;> simp [elBool, elVarint, nz, decodeVarint, boolByte, Res.map]

theorem elUint32_enc (v : Nat) (hv : v < two32) (rest : Bytes) :
    elUint32 (encVarint v ++ rest) = .ok (v, (encVarint v).length) := by
  unfold elUint32
  rw [elVarint_enc v (by unfold two32 at hv; unfold two64; omega)]
  have : ¬ v > 4294967295 := by unfold two32 at hv; omega
  simp [this]

theorem elInt64_enc (i : Int) (h : InI64 i) (rest : Bytes) :
    elInt64 (encVarint (toU64 i) ++ rest) = .ok (i, (encVarint (toU64 i)).length) := by
  unfold elInt64
  rw [elVarint_enc _ (toU64_lt i)]
  simp [Res.map, toI64_toU64 h]

theorem elInt32_enc (i : Int) (h : InI32 i) (rest : Bytes) :
    elInt32 (encVarint (toU64 i) ++ rest) = .ok (i, (encVarint (toU64 i)).length) := by
  unfold elInt32
  rw [elVarint_enc _ (toU64_lt i)]
  have : ¬ (i > 2147483647 ∨ i < -2147483648) := by unfold InI32 two31 at h; omega
  simp [toI64_toU64 h.toI64, this]

theorem elFixed32_enc (v : Nat) (h : v < two32) (rest : Bytes) :
    elFixed32 (encFixed32 v ++ rest) = .ok (v, (encFixed32 v).length) := by
  unfold elFixed32 nz; rw [decodeFixed32_enc v h]; simp [encFixed32]

theorem elFixed64_enc (v : Nat) (h : v < two64) (rest : Bytes) :
    elFixed64 (encFixed64 v ++ rest) = .ok (v, (encFixed64 v).length) := by
  unfold elFixed64 nz; rw [decodeFixed64_enc v h]; simp [encFixed64]

theorem elSint32_enc (i : Int) (h : InI32 i) (rest : Bytes) :
    elSint32 (encZigZag32 i ++ rest) = .ok (i, (encZigZag32 i).length) := by
  unfold elSint32 nz
  rw [decodeZigZag32_enc i h]
  have := encVarint_length_pos (zigzag i)
  have : ¬ (encZigZag32 i).length = 0 := by unfold encZigZag32; omega
  simp [this]

theorem elSint64_enc (i : Int) (h : InI64 i) (rest : Bytes) :
    elSint64 (encZigZag64 i ++ rest) = .ok (i, (encZigZag64 i).length) := by
  unfold elSint64 nz
  rw [decodeZigZag64_enc i h]
  have := encVarint_length_pos (zigzag i)
  have : ¬ (encZigZag64 i).length = 0 := by unfold encZigZag64; omega
  simp [this]

end Csproto
