import Csproto.Model.Wire
/-
  Helper lemmas about varints: encode/decode round trip, closed-form size, canonical form.
-/
namespace Csproto

theorem encVarint_small {v : Nat} (h : v < 128) : encVarint v = [UInt8.ofNat v] := by
  rw [encVarint]; simp [h]
theorem encVarint_big {v : Nat} (h : ¬ v < 128) :
    encVarint v = UInt8.ofNat (v % 128 + 128) :: encVarint (v / 128) := by
  rw [encVarint]; simp [h]

theorem encVarint_length_pos (v : Nat) : 1 ≤ (encVarint v).length := by
  by_cases h : v < 128
  · rw [encVarint_small h]; simp
  · rw [encVarint_big h]; simp

theorem encVarint_ne_nil (v : Nat) : encVarint v ≠ [] := by
  intro h; have := encVarint_length_pos v; rw [h] at this; simp at this

/-! ### closed-form size -/

theorem bitLen_le_iff (x k : Nat) (hx : x ≠ 0) : bitLen x ≤ k ↔ x < 2 ^ k := by
  unfold bitLen; simp [hx]
  rw [Nat.add_one_le_iff, Nat.log2_lt hx]

theorem sizeOfVarint_le_iff (v n : Nat) (hn : 1 ≤ n) : sizeOfVarint v ≤ n ↔ v < 2 ^ (7 * n) := by
  unfold sizeOfVarint
  have h1 : v ||| 1 ≠ 0 := by
    intro h; have := Nat.or_eq_zero_iff.mp h; omega
  rw [Nat.div_le_iff_le_mul_add_pred (by decide)]
  have : bitLen (v ||| 1) + 6 ≤ 7 * n + (7 - 1) ↔ bitLen (v ||| 1) ≤ 7 * n := by omega
  rw [this, bitLen_le_iff _ _ h1]
  constructor
  · intro h; exact Nat.lt_of_le_of_lt (Nat.left_le_or) h
  · intro h
    apply Nat.or_lt_two_pow h
    exact Nat.one_lt_two_pow (by omega)

theorem enc_length_le_iff (v : Nat) : ∀ n, 1 ≤ n → ((encVarint v).length ≤ n ↔ v < 2 ^ (7 * n)) := by
  induction v using Nat.strongRecOn with
  | _ v ih =>
    intro n hn
    by_cases h : v < 128
    · rw [encVarint_small h]
      simp only [List.length_singleton]
      constructor
      · intro _
        calc v < 128 := h
          _ = 2 ^ 7 := by decide
          _ ≤ 2 ^ (7 * n) := Nat.pow_le_pow_right (by decide) (by omega)
      · intro _; exact hn
    · rw [encVarint_big h]
      simp only [List.length_cons]
      match n, hn with
      | 1, _ =>
        constructor
        · intro hl
          have := encVarint_length_pos (v / 128)
          omega
        · intro hv; exfalso; have : (2:Nat) ^ (7 * 1) = 128 := by decide
          omega
      | n + 2, _ =>
        have := ih (v / 128) (by omega) (n + 1) (by omega)
        rw [Nat.add_le_add_iff_right, this]
        have e : 7 * (n + 2) = 7 * (n + 1) + 7 := by omega
        rw [e, Nat.pow_add]
        have : (2:Nat) ^ 7 = 128 := by decide
        rw [this, Nat.div_lt_iff_lt_mul (by decide)]

theorem sizeOfVarint_pos (v : Nat) : 1 ≤ sizeOfVarint v := by
  unfold sizeOfVarint bitLen
  have h1 : v ||| 1 ≠ 0 := by
    intro h; have := Nat.or_eq_zero_iff.mp h; omega
  simp [h1]; omega

/-- `SizeOfVarint(v)` is exactly the number of bytes `EncodeVarint` writes, for every `v`. -/
theorem sizeOfVarint_eq_length (v : Nat) : sizeOfVarint v = (encVarint v).length := by
  apply Nat.le_antisymm
  · have hpos := encVarint_length_pos v
    rw [sizeOfVarint_le_iff _ _ hpos, ← enc_length_le_iff _ _ hpos]
    exact Nat.le_refl _
  · have hpos := sizeOfVarint_pos v
    rw [enc_length_le_iff _ _ hpos, ← sizeOfVarint_le_iff _ _ hpos]
    exact Nat.le_refl _

theorem encVarint_length_le_10 {v : Nat} (h : v < two64) : (encVarint v).length ≤ 10 := by
  rw [enc_length_le_iff v 10 (by decide)]
  calc v < two64 := h
    _ = 2 ^ 64 := two64_eq
    _ ≤ 2 ^ (7 * 10) := Nat.pow_le_pow_right (by decide) (by decide)

/-! ### decode ∘ encode -/

theorem u8_ofNat_toNat {x : Nat} (h : x < 256) : (UInt8.ofNat x).toNat = x := by
  simp; omega

/-- loop invariant: reading the encoding of `v` accumulates `v * 2^shift` on top of `acc`. -/
theorem decVarintLoop_enc (v : Nat) :
    ∀ (fuel shift acc n : Nat) (rest : Bytes),
      (encVarint v).length ≤ fuel → acc < 2 ^ shift → acc + v * 2 ^ shift < two64 →
      decVarintLoop fuel shift acc n (encVarint v ++ rest)
        = .ok (acc + v * 2 ^ shift, n + (encVarint v).length) := by
  induction v using Nat.strongRecOn with
  | _ v ih =>
    intro fuel shift acc n rest hf hacc hlt
    have hpow : 0 < 2 ^ shift := Nat.two_pow_pos shift
    by_cases h : v < 128
    · rw [encVarint_small h] at hf ⊢
      simp only [List.length_singleton] at hf ⊢
      match fuel, hf with
      | fuel + 1, _ =>
        simp only [List.singleton_append, decVarintLoop]
        have hb : (UInt8.ofNat v).toNat = v := u8_ofNat_toNat (by omega)
        rw [hb]
        have hm : v % 128 = v := Nat.mod_eq_of_lt h
        rw [hm, Nat.shiftLeft_eq]
        have hv2 : v * 2 ^ shift < two64 := by omega
        rw [Nat.mod_eq_of_lt hv2]
        have hor : acc ||| v * 2 ^ shift = acc + v * 2 ^ shift := by
          rw [Nat.or_comm, ← Nat.shiftLeft_eq, ← Nat.shiftLeft_add_eq_or_of_lt hacc, Nat.shiftLeft_eq]
          omega
        simp [h, hor]
    · rw [encVarint_big h] at hf ⊢
      simp only [List.length_cons] at hf ⊢
      match fuel, hf with
      | fuel + 1, hf =>
        simp only [List.cons_append, decVarintLoop]
        have hb : (UInt8.ofNat (v % 128 + 128)).toNat = v % 128 + 128 := u8_ofNat_toNat (by omega)
        rw [hb]
        have hm : (v % 128 + 128) % 128 = v % 128 := by omega
        have hnot : ¬ (v % 128 + 128 < 128) := by omega
        rw [hm, Nat.shiftLeft_eq]
        have hsplit : v * 2 ^ shift = v % 128 * 2 ^ shift + v / 128 * 2 ^ (shift + 7) := by
          have h2 : v = v % 128 + 128 * (v / 128) := by omega
          conv => lhs; rw [h2]
          rw [Nat.pow_add, Nat.add_mul]
          have : (2:Nat) ^ 7 = 128 := by decide
          rw [this, Nat.mul_assoc, Nat.mul_comm 128, Nat.mul_assoc]
        have hlow : v % 128 * 2 ^ shift < two64 := by omega
        rw [Nat.mod_eq_of_lt hlow]
        have hor : acc ||| v % 128 * 2 ^ shift = acc + v % 128 * 2 ^ shift := by
          rw [Nat.or_comm, ← Nat.shiftLeft_eq, ← Nat.shiftLeft_add_eq_or_of_lt hacc, Nat.shiftLeft_eq]
          omega
        simp only [hnot, if_false, hor]
        have hacc' : acc + v % 128 * 2 ^ shift < 2 ^ (shift + 7) := by
          rw [Nat.pow_add]
          have : (2:Nat) ^ 7 = 128 := by decide
          rw [this]
          have : v % 128 < 128 := Nat.mod_lt _ (by decide)
          calc acc + v % 128 * 2 ^ shift < 2 ^ shift + v % 128 * 2 ^ shift := by omega
            _ = (v % 128 + 1) * 2 ^ shift := by rw [Nat.add_mul]; omega
            _ ≤ 128 * 2 ^ shift := Nat.mul_le_mul_right _ (by omega)
            _ = 2 ^ shift * 128 := Nat.mul_comm _ _
        have := ih (v / 128) (by omega) fuel (shift + 7) (acc + v % 128 * 2 ^ shift) (n + 1) rest
          (by omega) hacc' (by omega)
        rw [this]
        congr 1
        refine Prod.ext ?_ ?_
        · show acc + v % 128 * 2 ^ shift + v / 128 * 2 ^ (shift + 7) = acc + v * 2 ^ shift
          omega
        · show n + 1 + (encVarint (v / 128)).length = n + ((encVarint (v / 128)).length + 1)
          omega

/-- **Varint round trip.** For every 64-bit value and every suffix, decoding the encoding returns
    the value and consumes exactly the bytes written. -/
theorem decodeVarint_encVarint (v : Nat) (hv : v < two64) (rest : Bytes) :
    decodeVarint (encVarint v ++ rest) = .ok (v, (encVarint v).length) := by
  by_cases h : v < 128
  · rw [encVarint_small h]
    have hb : (UInt8.ofNat v).toNat = v := u8_ofNat_toNat (by omega)
    simp [decodeVarint, hb, h]
  · have hl := decVarintLoop_enc v 10 0 0 0 rest (encVarint_length_le_10 hv) (by simp) (by simpa using hv)
    rw [encVarint_big h] at hl ⊢
    have hb : (UInt8.ofNat (v % 128 + 128)).toNat = v % 128 + 128 := u8_ofNat_toNat (by omega)
    have hnot : ¬ (v % 128 + 128 < 128) := by omega
    simp only [List.cons_append, decodeVarint, hb, hnot, if_false]
    simp only [List.cons_append] at hl
    rw [hl]; simp

end Csproto
