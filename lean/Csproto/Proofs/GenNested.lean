import Csproto.Proofs.GenRecords
/-
  The generated `Unmarshal` on sequences of well-formed records that include **nested messages**
  (singular and repeated, to any depth, recursive types included) and **map entries** (key and value in
  either order, omitted or repeated, with foreign fields in between): it computes the fold of the record
  rule, where a message-typed record decodes its payload with the same fold and a map record runs the
  entry rule (`foldE`) and inserts the entry.

  For a singular message field the rule is the code's — the LAST occurrence replaces the field (open
  finding B9: the protobuf runtimes merge).  When no singular message field occurs twice (which is how
  `Marshal` and every runtime's writer emit them) this is the reference rule.
-/
namespace Csproto.Gen
open Csproto Csproto.C01

/-- records with nested messages -/
inductive NRec where
  | flat (r : WRec)                                         -- scalar element / packed run / unknown field
  | msg (idx : Nat) (fd : FD) (i : Nat) (sub : List NRec)   -- message-typed field of type `S.md i`
  | map (idx : Nat) (fd : FD) (i : Nat) (sub : List NRec)   -- one entry of a map field; entry type `S.md i`

mutual
def NRec.wire : NRec → Bytes
  | .flat r => r.wire
  | .msg _ fd _ sub => encTag fd.num wtLen ++ encVarint (wiresN sub).length ++ wiresN sub
  | .map _ fd _ sub => encTag fd.num wtLen ++ encVarint (wiresN sub).length ++ wiresN sub
def wiresN : List NRec → Bytes
  | [] => []
  | r :: rs => r.wire ++ wiresN rs
end

mutual
/-- fuel the loop spends on a record -/
def NRec.cost : NRec → Nat
  | .flat _ => 1
  | .msg _ _ _ sub => 3 + costs sub
  | .map _ _ _ sub => 3 + costs sub
def costs : List NRec → Nat
  | [] => 0
  | r :: rs => r.cost + costs rs
end

def flatOKE (emd : MD) : WRec → Prop
  | .scalar idx fd k v => findField emd fd.num 0 = some (idx, fd) ∧ fd.ty = .sc k ∧ ValidTag fd.num ∧ DecValid k v ∧
      isRep fd.card = false
  | .packed _ _ _ _ => False
  | .unknown r => r.OK ∧ findField emd r.tag 0 = none

mutual
def NRec.OK (S : Schema) (md : MD) : NRec → Prop
  | .flat r => r.OK md
  | .msg idx fd i sub => findField md fd.num 0 = some (idx, fd) ∧ fd.ty = .msg i ∧ ValidTag fd.num ∧ fd.card ≠ .map ∧
      (wiresN sub).length ≤ maxFieldLen ∧ OKs S (S.md i) sub
  | .map idx fd i sub => findField md fd.num 0 = some (idx, fd) ∧ fd.ty = .msg i ∧ ValidTag fd.num ∧ fd.card = .map ∧
      (wiresN sub).length ≤ maxFieldLen ∧ OKsE S (S.md i) sub
def OKs (S : Schema) (md : MD) : List NRec → Prop
  | [] => True
  | r :: rs => r.OK S md ∧ OKs S md rs
/-- a record inside a map entry: the key or the value (scalar, or a message), or a field the entry type does
    not define — in any order, any number of times -/
def NRec.OKE (S : Schema) (emd : MD) : NRec → Prop
  | .flat w => flatOKE emd w
  | .msg idx fd j sub => findField emd fd.num 0 = some (idx, fd) ∧ fd.ty = .msg j ∧ ValidTag fd.num ∧ fd.card ≠ .map ∧
      fd.card ≠ .list ∧ (wiresN sub).length ≤ maxFieldLen ∧ OKs S (S.md j) sub
  | .map _ _ _ _ => False
def OKsE (S : Schema) (emd : MD) : List NRec → Prop
  | [] => True
  | r :: rs => r.OKE S emd ∧ OKsE S emd rs
end

/-- a message-valued entry without a value gets an empty message -/
def fillEntry (S : Schema) (emd : MD) (efs : List F) : List F :=
  (emd.zip efs).map fun (p : FD × F) =>
    match p.1.ty, p.2 with
    | .msg j, .unset => F.one (.msg (initFields (S.md j)) [])
    | _, ef => ef

/-- a scalar record inside a map entry sets its field; anything else is dropped -/
def flatE (efs : List F) : WRec → List F
  | .scalar idx _ k v => efs.set idx (.one (decodedV k v))
  | _ => efs

/-- the end of a (sub-)message: the empty message short cut, else the required-field check -/
def finishN (md : MD) (isNil : Bool) (res : Res (List F × Bytes)) : Res (List F × Bytes) :=
  if isNil then (if hasRequired md then .err else .ok (initFields md, [])) else
  match res with
  | .ok (fs, unk) => if requiredMissing md fs then .err else .ok (fs, unk)
  | e => e

mutual
/-- the rule for one record -/
def NRec.applyN (S : Schema) (md : MD) (st : List F × Bytes) : NRec → Res (List F × Bytes)
  | .flat r => .ok (r.apply md st)
  | .msg idx fd i sub =>
    match finishN (S.md i) sub.isEmpty (foldN S (S.md i) sub (initFields (S.md i), [])) with
    | .ok (nfs, nunk) =>
      .ok (assign md st.1 idx fd
        (match fd.card with
         | .list => appendTo (st.1.getD idx .unset) [.msg nfs nunk]
         | _ => .one (.msg nfs nunk)), st.2)
    | .err => .err
    | .panic => .panic
  | .map idx fd i sub =>
    match foldE S (S.md i) sub (initFields (S.md i)) with
    | .ok efs =>
      .ok (assign md st.1 idx fd
        (match st.1.getD idx .unset with
         | .many es => .many (mapInsert (.msg (fillEntry S (S.md i) efs) []) es)
         | _ => .many [.msg (fillEntry S (S.md i) efs) []]), st.2)
    | .err => .err
    | .panic => .panic
/-- the rule for one record of a map entry: the LAST key and the LAST value win, other fields are dropped -/
def NRec.applyE (S : Schema) (efs : List F) : NRec → Res (List F)
  | .flat w => .ok (flatE efs w)
  | .msg idx _ j sub =>
    match finishN (S.md j) sub.isEmpty (foldN S (S.md j) sub (initFields (S.md j), [])) with
    | .ok (nfs, nunk) => .ok (efs.set idx (.one (.msg nfs nunk)))
    | .err => .err
    | .panic => .panic
  | .map _ _ _ _ => .ok efs
def foldE (S : Schema) (emd : MD) : List NRec → List F → Res (List F)
  | [], efs => .ok efs
  | r :: rs, efs =>
    match r.applyE S efs with
    | .ok efs' => foldE S emd rs efs'
    | .err => .err
    | .panic => .panic
def foldN (S : Schema) (md : MD) : List NRec → List F × Bytes → Res (List F × Bytes)
  | [], st => .ok st
  | r :: rs, st =>
    match r.applyN S md st with
    | .ok st' => foldN S md rs st'
    | .err => .err
    | .panic => .panic
end

/-- the rule for a whole (sub-)message: fold from the reset state, then the required-field check -/
def decodeMsgN (S : Schema) (md : MD) (rs : List NRec) : Res (List F × Bytes) :=
  match rs with
  | [] => if hasRequired md then .err else .ok (initFields md, [])
  | r :: rest =>
    match foldN S md (r :: rest) (initFields md, []) with
    | .ok (fs, unk) => if requiredMissing md fs then .err else .ok (fs, unk)
    | e => e

theorem finishN_eq (S : Schema) (md : MD) (rs : List NRec) :
    finishN md rs.isEmpty (foldN S md rs (initFields md, [])) = decodeMsgN S md rs := by
  cases rs with
  | nil => simp [finishN, decodeMsgN]
  | cons r rest => simp only [finishN, decodeMsgN, List.isEmpty_cons, Bool.false_eq_true, if_false]

theorem NRec.applyN_flat (S : Schema) (md : MD) (st : List F × Bytes) (r : WRec) :
    (NRec.flat r).applyN S md st = .ok (r.apply md st) := by simp [NRec.applyN]

theorem NRec.applyN_msg (S : Schema) (md : MD) (st : List F × Bytes) (idx : Nat) (fd : FD) (i : Nat) (sub : List NRec) :
    (NRec.msg idx fd i sub).applyN S md st =
      match decodeMsgN S (S.md i) sub with
      | .ok (nfs, nunk) =>
        .ok (assign md st.1 idx fd
          (match fd.card with
           | .list => appendTo (st.1.getD idx .unset) [.msg nfs nunk]
           | _ => .one (.msg nfs nunk)), st.2)
      | .err => .err
      | .panic => .panic := by
  simp only [NRec.applyN, finishN_eq]

theorem NRec.applyE_msg (S : Schema) (efs : List F) (idx : Nat) (fd : FD) (j : Nat) (sub : List NRec) :
    (NRec.msg idx fd j sub).applyE S efs =
      match decodeMsgN S (S.md j) sub with
      | .ok (nfs, nunk) => .ok (efs.set idx (.one (.msg nfs nunk)))
      | .err => .err
      | .panic => .panic := by
  simp only [NRec.applyE, finishN_eq]


theorem wiresN_cons (r : NRec) (rs : List NRec) : wiresN (r :: rs) = r.wire ++ wiresN rs := by
  simp [wiresN]

theorem NRec.wire_ne_nil (S : Schema) (md : MD) (r : NRec) (h : r.OK S md) : r.wire ≠ [] := by
  cases r with
  | flat w => simp only [NRec.wire]; exact WRec.wire_ne_nil md w (by simpa [NRec.OK] using h)
  | msg idx fd i sub => simp [NRec.wire, encTag, encVarint_ne_nil]
  | map idx fd i sub => simp [NRec.wire, encTag, encVarint_ne_nil]

theorem wiresN_nil_iff (S : Schema) (md : MD) (rs : List NRec) (h : OKs S md rs) : wiresN rs = [] ↔ rs = [] := by
  cases rs with
  | nil => simp [wiresN]
  | cons r rs =>
    simp only [OKs] at h
    have := NRec.wire_ne_nil S md r h.1
    simp [wiresN_cons, this]

theorem requiredMissing_init_eq (md : MD) : requiredMissing md (initFields md) = hasRequired md :=
  requiredMissing_initFields md

/-- `unmarshalMsg` in terms of its loop: the empty-message short cut, else the loop and the required check -/
theorem msgN_of (S : Schema) (fast : Bool) (md : MD) (rs : List NRec) (hok : OKs S md rs) (f : Nat) (hf : 1 ≤ f)
    (hloop : rs ≠ [] → unmarshalLoop S fast f md { p := wiresN rs, off := 0, fast := fast } (initFields md) []
      = foldN S md rs (initFields md, [])) :
    unmarshalMsg S fast (f + 1) md (wiresN rs) = decodeMsgN S md rs := by
  simp only [unmarshalMsg]
  cases rs with
  | nil =>
    simp only [wiresN, decodeMsgN, List.isEmpty_nil, Bool.and_true]
    cases hr : hasRequired md
    · simp
    · simp only [Bool.not_true, Bool.false_eq_true, if_false]
      obtain ⟨g, rfl⟩ : ∃ g, f = g + 1 := ⟨f - 1, by omega⟩
      simp [unmarshalLoop, Dec.len, requiredMissing_initFields, hr]
  | cons r rest =>
    have hne : wiresN (r :: rest) ≠ [] := by
      intro e; exact absurd ((wiresN_nil_iff S md (r :: rest) hok).mp e) (by simp)
    have hie : (wiresN (r :: rest)).isEmpty = false := by
      cases hw : wiresN (r :: rest) with
      | nil => exact absurd hw hne
      | cons _ _ => rfl
    simp only [hie, Bool.and_false, Bool.false_eq_true, if_false, decodeMsgN]
    rw [hloop (by simp)]
    cases hfold : foldN S md (r :: rest) (initFields md, []) with
    | ok st => obtain ⟨a, b⟩ := st; rfl
    | err => rfl
    | panic => rfl

mutual
/-- the loop on a record sequence, at any position, with enough fuel -/
theorem loopN (S : Schema) (fast : Bool) (md : MD) : ∀ (rs : List NRec), OKs S md rs →
    ∀ (fuel : Nat) (d : Dec) (pre : Bytes) (fs : List F) (unk : Bytes), costs rs + 1 ≤ fuel →
      d.At pre (wiresN rs) → d.fast = fast →
      unmarshalLoop S fast fuel md d fs unk = foldN S md rs (fs, unk)
  | [], _, fuel, d, pre, fs, unk, hf, hAt, _ => by
    match fuel, hf with
    | fuel + 1, _ =>
      have : ¬ d.off < d.len := by rw [hAt.len, hAt.off]; simp [wiresN]
      simp [unmarshalLoop, this, foldN]
  | r :: rs, hok, fuel, d, pre, fs, unk, hf, hAt, hfast => by
    simp only [OKs] at hok
    rw [wiresN_cons] at hAt
    have hcpos : 1 ≤ r.cost := by cases r <;> simp [NRec.cost] <;> omega
    simp only [costs] at hf
    match fuel, hf with
    | fuel + 2, hf =>
      obtain ⟨d', hAt', hfast', hstep⟩ := stepN S fast md r hok.1 fuel d pre (wiresN rs) fs unk hAt hfast (by omega)
      rw [hstep]
      simp only [foldN]
      cases ha : r.applyN S md (fs, unk) with
      | ok st' =>
        simp only []
        exact loopN S fast md rs hok.2 (fuel + 1) d' (pre ++ r.wire) st'.1 st'.2 (by omega) hAt' hfast'
      | err => simp
      | panic => simp
    | 1, hf => exfalso; omega
    | 0, hf => exfalso; omega

/-- one iteration: either the record's rule fails and so does the loop, or the loop continues after the
    record with the rule's result and `cost` less fuel -/
theorem stepN (S : Schema) (fast : Bool) (md : MD) : ∀ (r : NRec), r.OK S md →
    ∀ (fuel : Nat) (d : Dec) (pre post : Bytes) (fs : List F) (unk : Bytes),
      d.At pre (r.wire ++ post) → d.fast = fast → r.cost ≤ fuel + 1 →
      ∃ d', d'.At (pre ++ r.wire) post ∧ d'.fast = fast ∧
        unmarshalLoop S fast (fuel + 2) md d fs unk =
          (match r.applyN S md (fs, unk) with
           | .ok st' => unmarshalLoop S fast (fuel + 1) md d' st'.1 st'.2
           | .err => .err
           | .panic => .panic)
  | .flat w, hok, fuel, d, pre, post, fs, unk, hAt, hfast, _ => by
    simp only [NRec.OK] at hok
    simp only [NRec.wire] at hAt ⊢
    obtain ⟨d', hAt', hfast', hstep⟩ := loop_step S fast md w hok fuel d pre post fs unk hAt hfast
    exact ⟨d', hAt', hfast', by simp [NRec.applyN_flat, hstep]⟩
  | .msg idx fd i sub, hok, fuel, d, pre, post, fs, unk, hAt, hfast, hcost => by
    obtain ⟨hfind, hty, htag, hnm, hlen, hsub⟩ := hok
    simp only [NRec.cost] at hcost
    simp only [NRec.wire, List.append_assoc] at hAt
    have hmore : d.off < d.len := by
      have := hAt.not_eof (by simp [encTag, encVarint_ne_nil]); omega
    have hts := Dec.tag_at hAt htag.1 htag.2 (by decide : wtLen < 8)
    have hAt1 := hAt.afterTag
    have hAt1' : (d.afterTag (encTag fd.num wtLen).length).At (pre ++ encTag fd.num wtLen)
        (encVarint (wiresN sub).length ++ wiresN sub ++ post) := by simpa using hAt1
    have hb := Dec.bytes_at hAt1' hlen
    -- the decoder after the whole record
    refine ⟨{ d.afterTag (encTag fd.num wtLen).length with
        off := (d.afterTag (encTag fd.num wtLen).length).off + (encVarint (wiresN sub).length ++ wiresN sub).length }, ?_, by simpa using hfast, ?_⟩
    · refine ⟨by show d.p = _; rw [hAt.p]; simp [NRec.wire], ?_⟩
      show d.off + (encTag fd.num wtLen).length + (encVarint (wiresN sub).length ++ wiresN sub).length = _
      simp [hAt.off, NRec.wire]; omega
    · -- the nested message: `unmarshalMsg` with `fuel` = the rule on the sub-records
      have hnested : unmarshalMsg S fast fuel (S.md i) (wiresN sub) = decodeMsgN S (S.md i) sub := by
        match fuel, hcost with
        | 0, hc => exfalso; omega
        | f + 1, hc =>
          exact msgN_of S fast (S.md i) sub hsub f (by omega) (fun _ =>
            loopN S fast (S.md i) sub hsub f { p := wiresN sub, off := 0, fast := fast } []
              (initFields (S.md i)) [] (by omega) ⟨by simp, by simp⟩ rfl)
      simp only [unmarshalLoop, hmore, not_true_eq_false, if_false, hts, hfind]
      simp only [fieldStep, hty, ne_eq, not_true_eq_false, if_false, hb, hnested, NRec.applyN_msg]
      cases hd : decodeMsgN S (S.md i) sub with
      | ok r =>
        obtain ⟨nfs, nunk⟩ := r
        cases hc : fd.card <;> simp [hc] at hnm ⊢
      | err => cases hc : fd.card <;> simp [hc] at hnm ⊢
      | panic => cases hc : fd.card <;> simp [hc] at hnm ⊢
  | .map idx fd i sub, hok, fuel, d, pre, post, fs, unk, hAt, hfast, hcost => by
    obtain ⟨hfind, hty, htag, hmap, hlen, hsub⟩ := hok
    simp only [NRec.cost] at hcost
    simp only [NRec.wire, List.append_assoc] at hAt
    have hmore : d.off < d.len := by
      have := hAt.not_eof (by simp [encTag, encVarint_ne_nil]); omega
    have hts := Dec.tag_at hAt htag.1 htag.2 (by decide : wtLen < 8)
    have hAt1 := hAt.afterTag
    have hAt1' : (d.afterTag (encTag fd.num wtLen).length).At (pre ++ encTag fd.num wtLen)
        (encVarint (wiresN sub).length ++ wiresN sub ++ post) := by simpa using hAt1
    have hb := Dec.bytes_at hAt1' hlen
    refine ⟨{ d.afterTag (encTag fd.num wtLen).length with
        off := (d.afterTag (encTag fd.num wtLen).length).off + (encVarint (wiresN sub).length ++ wiresN sub).length }, ?_, by simpa using hfast, ?_⟩
    · refine ⟨by show d.p = _; rw [hAt.p]; simp [NRec.wire], ?_⟩
      show d.off + (encTag fd.num wtLen).length + (encVarint (wiresN sub).length ++ wiresN sub).length = _
      simp [hAt.off, NRec.wire]; omega
    · -- the entry: the sub-decoder's loop over the payload = the entry rule on the sub-records
      have hentry := loopE S fast (S.md i) sub hsub fuel { p := wiresN sub, off := 0, fast := fast } []
        (initFields (S.md i)) (by omega) ⟨by simp, by simp⟩ rfl
      simp only [unmarshalLoop, hmore, not_true_eq_false, if_false, hts, hfind]
      simp only [fieldStep, hty, ne_eq, not_true_eq_false, if_false, hb, hmap, hentry, NRec.applyN, fillEntry]
      cases hd : foldE S (S.md i) sub (initFields (S.md i)) with
      | ok efs => first | rfl | (cases hcur : fs.getD idx F.unset <;> rfl)
      | err => rfl
      | panic => rfl

/-- the sub-decoder's loop over a map entry -/
theorem loopE (S : Schema) (fast : Bool) (emd : MD) : ∀ (rs : List NRec), OKsE S emd rs →
    ∀ (fuel : Nat) (d : Dec) (pre : Bytes) (efs : List F), costs rs + 1 ≤ fuel →
      d.At pre (wiresN rs) → d.fast = fast →
      entryLoop S fast fuel emd d efs = foldE S emd rs efs
  | [], _, fuel, d, pre, efs, hf, hAt, _ => by
    match fuel, hf with
    | fuel + 1, _ =>
      have : ¬ d.off < d.len := by rw [hAt.len, hAt.off]; simp [wiresN]
      simp [entryLoop, this, foldE]
  | r :: rs, hok, fuel, d, pre, efs, hf, hAt, hfast => by
    simp only [OKsE] at hok
    rw [wiresN_cons] at hAt
    have hcpos : 1 ≤ r.cost := by cases r <;> simp [NRec.cost] <;> omega
    simp only [costs] at hf
    match fuel, hf with
    | fuel + 2, hf =>
      obtain ⟨d', hAt', hfast', hstep⟩ := stepE S fast emd r hok.1 fuel d pre (wiresN rs) efs hAt hfast (by omega)
      rw [hstep]
      simp only [foldE]
      cases ha : r.applyE S efs with
      | ok efs' =>
        simp only []
        exact loopE S fast emd rs hok.2 (fuel + 1) d' (pre ++ r.wire) efs' (by omega) hAt' hfast'
      | err => simp
      | panic => simp
    | 1, hf => exfalso; omega
    | 0, hf => exfalso; omega

/-- one iteration of the entry loop -/
theorem stepE (S : Schema) (fast : Bool) (emd : MD) : ∀ (r : NRec), r.OKE S emd →
    ∀ (fuel : Nat) (d : Dec) (pre post : Bytes) (efs : List F),
      d.At pre (r.wire ++ post) → d.fast = fast → r.cost ≤ fuel + 1 →
      ∃ d', d'.At (pre ++ r.wire) post ∧ d'.fast = fast ∧
        entryLoop S fast (fuel + 2) emd d efs =
          (match r.applyE S efs with
           | .ok efs' => entryLoop S fast (fuel + 1) emd d' efs'
           | .err => .err
           | .panic => .panic)
  | .flat w, hok, fuel, d, pre, post, efs, hAt, hfast, _ => by
    simp only [NRec.OKE] at hok
    simp only [NRec.wire] at hAt ⊢
    cases w with
    | scalar idx fd k v =>
      obtain ⟨hfind, hty, htag, hval, hrep⟩ := hok
      simp only [WRec.wire] at hAt ⊢
      have hne := scalarOp_wire_ne_nil k fd.num v
      have hmore : d.off < d.len := by
        have := hAt.not_eof (by simp [hne]); omega
      rw [← dfv_encOp k fd.num v hval] at hAt
      obtain ⟨d1, d2, a, h1, h2, hoff, hp, hfa⟩ := roundtrip (dfv k v) fd.num htag (dfv_valid k v hval) d pre post hAt
      rw [dfv_wt] at h1
      rw [dfv_decOp] at h2
      have hAt2 : d2.At (pre ++ ((dfv k v).encOp fd.num).wire) post :=
        ⟨by rw [hp, hAt.p]; simp, by rw [hoff]; simp⟩
      rw [dfv_encOp k fd.num v hval] at hAt2
      refine ⟨d2, hAt2, by rw [hfa, hfast], ?_⟩
      have hrs : readScalar k d1 (wtOf k) = .ok (d2, decodedV k v) := by
        simp [readScalar, h2, decodedV]
      simp only [entryLoop, hmore, not_true_eq_false, if_false, h1, hfind]
      rw [fieldStep_scalar S fast fuel fd k (wtOf k) d1 _ hty]
      simp [hrep, hrs, Res.map, NRec.applyE, flatE]
    | packed idx fd k vs => exact hok.elim
    | unknown r =>
      obtain ⟨hrok, hnone⟩ := hok
      simp only [WRec.wire] at hAt ⊢
      have htag := Rec.tag_ok hrok
      have hmore : d.off < d.len := by
        have := hAt.not_eof (by simp [Rec.wire_ne_nil r]); omega
      have hAt0 : d.At pre (encTag r.tag r.wt ++ (r.body ++ post)) := by
        have := hAt; simp only [Rec.wire, List.append_assoc] at this; exact this
      have hts := Dec.tag_at hAt0 htag.1 htag.2 (Rec.wt_lt r)
      have hAt1 := hAt0.afterTag
      have hskip := Dec.skip_at htag.1 htag.2 (Rec.body_wf hrok) hAt1 (by intro _; simp [hAt0.off])
      have hstep2 : ((d.afterTag (encTag r.tag r.wt).length) : Dec).step (.skip r.tag r.wt) =
          ({ d.afterTag (encTag r.tag r.wt).length with off := (d.afterTag (encTag r.tag r.wt).length).off + r.body.length }, .ok (.bytes r.wire), 0) := by
        simp only [Dec.step, withAlloc, hskip, Rec.wire]
      refine ⟨{ d.afterTag (encTag r.tag r.wt).length with off := (d.afterTag (encTag r.tag r.wt).length).off + r.body.length }, ?_, by simpa using hfast, ?_⟩
      · refine ⟨by show d.p = _; rw [hAt.p]; simp, ?_⟩
        show d.off + (encTag r.tag r.wt).length + r.body.length = _
        simp [hAt.off, Rec.wire]; omega
      · simp only [entryLoop, hmore, not_true_eq_false, if_false, hts, hnone, hstep2, NRec.applyE, flatE]
  | .msg idx fd j sub, hok, fuel, d, pre, post, efs, hAt, hfast, hcost => by
    obtain ⟨hfind, hty, htag, hnm, hnl, hlen, hsub⟩ := hok
    simp only [NRec.cost] at hcost
    simp only [NRec.wire, List.append_assoc] at hAt
    have hmore : d.off < d.len := by
      have := hAt.not_eof (by simp [encTag, encVarint_ne_nil]); omega
    have hts := Dec.tag_at hAt htag.1 htag.2 (by decide : wtLen < 8)
    have hAt1 := hAt.afterTag
    have hAt1' : (d.afterTag (encTag fd.num wtLen).length).At (pre ++ encTag fd.num wtLen)
        (encVarint (wiresN sub).length ++ wiresN sub ++ post) := by simpa using hAt1
    have hb := Dec.bytes_at hAt1' hlen
    refine ⟨{ d.afterTag (encTag fd.num wtLen).length with
        off := (d.afterTag (encTag fd.num wtLen).length).off + (encVarint (wiresN sub).length ++ wiresN sub).length }, ?_, by simpa using hfast, ?_⟩
    · refine ⟨by show d.p = _; rw [hAt.p]; simp [NRec.wire], ?_⟩
      show d.off + (encTag fd.num wtLen).length + (encVarint (wiresN sub).length ++ wiresN sub).length = _
      simp [hAt.off, NRec.wire]; omega
    · have hnested : unmarshalMsg S fast fuel (S.md j) (wiresN sub) = decodeMsgN S (S.md j) sub := by
        match fuel, hcost with
        | 0, hc => exfalso; omega
        | f + 1, hc =>
          exact msgN_of S fast (S.md j) sub hsub f (by omega) (fun _ =>
            loopN S fast (S.md j) sub hsub f { p := wiresN sub, off := 0, fast := fast } []
              (initFields (S.md j)) [] (by omega) ⟨by simp, by simp⟩ rfl)
      simp only [entryLoop, hmore, not_true_eq_false, if_false, hts, hfind]
      simp only [fieldStep, hty, ne_eq, not_true_eq_false, if_false, hb, hnested, NRec.applyE_msg]
      cases hd : decodeMsgN S (S.md j) sub with
      | ok r =>
        obtain ⟨nfs, nunk⟩ := r
        cases hc : fd.card <;> simp [hc] at hnm hnl ⊢
      | err => cases hc : fd.card <;> simp [hc] at hnm hnl ⊢
      | panic => cases hc : fd.card <;> simp [hc] at hnm hnl ⊢
  | .map _ _ _ _, hok, _, _, _, _, _, _, _, _ => by exact hok.elim
end

/-- a whole message: `Unmarshal` of the concatenated records = the rule on the records -/
theorem msgN (S : Schema) (fast : Bool) (md : MD) (rs : List NRec) (hok : OKs S md rs) (fuel : Nat)
    (hf : costs rs + 2 ≤ fuel) : unmarshalMsg S fast fuel md (wiresN rs) = decodeMsgN S md rs := by
  match fuel, hf with
  | f + 1, hf =>
    exact msgN_of S fast md rs hok f (by omega) (fun _ =>
      loopN S fast md rs hok f { p := wiresN rs, off := 0, fast := fast } [] (initFields md) [] (by omega)
        ⟨by simp, by simp⟩ rfl)

mutual
theorem NRec.cost_le (S : Schema) (md : MD) : ∀ (r : NRec), r.OK S md → r.cost ≤ 3 * r.wire.length
  | .flat w, h => by
    have := List.length_pos_iff.mpr (NRec.wire_ne_nil S md (.flat w) h)
    simp only [NRec.cost]; omega
  | .msg idx fd i sub, h => by
    obtain ⟨_, _, _, _, _, hsub⟩ := h
    have ih := costs_le S (S.md i) sub hsub
    have h1 := encVarint_length_pos (keyOf fd.num wtLen)
    have h2 := encVarint_length_pos (wiresN sub).length
    simp only [NRec.cost, NRec.wire, List.length_append, encTag]
    omega
  | .map idx fd i sub, h => by
    obtain ⟨_, _, _, _, _, hsub⟩ := h
    have ih := costsE_le S (S.md i) sub hsub
    have h1 := encVarint_length_pos (keyOf fd.num wtLen)
    have h2 := encVarint_length_pos (wiresN sub).length
    simp only [NRec.cost, NRec.wire, List.length_append, encTag]
    omega
theorem costs_le (S : Schema) (md : MD) : ∀ (rs : List NRec), OKs S md rs → costs rs ≤ 3 * (wiresN rs).length
  | [], _ => by simp [costs]
  | r :: rs, h => by
    simp only [OKs] at h
    have h1 := NRec.cost_le S md r h.1
    have h2 := costs_le S md rs h.2
    simp only [costs, wiresN_cons, List.length_append]
    omega
theorem NRec.costE_le (S : Schema) (emd : MD) : ∀ (r : NRec), r.OKE S emd → r.cost ≤ 3 * r.wire.length
  | .flat w, h => by
    have : (NRec.flat w).wire ≠ [] := by
      simp only [NRec.OKE] at h
      cases w with
      | scalar idx fd k v => simp only [NRec.wire, WRec.wire]; exact scalarOp_wire_ne_nil k fd.num v
      | packed _ _ _ _ => exact h.elim
      | unknown r => simp only [NRec.wire, WRec.wire]; exact Rec.wire_ne_nil r
    have := List.length_pos_iff.mpr this
    simp only [NRec.cost]; omega
  | .msg idx fd j sub, h => by
    obtain ⟨_, _, _, _, _, _, hsub⟩ := h
    have ih := costs_le S (S.md j) sub hsub
    have h1 := encVarint_length_pos (keyOf fd.num wtLen)
    have h2 := encVarint_length_pos (wiresN sub).length
    simp only [NRec.cost, NRec.wire, List.length_append, encTag]
    omega
  | .map _ _ _ _, h => by exact h.elim
theorem costsE_le (S : Schema) (emd : MD) : ∀ (rs : List NRec), OKsE S emd rs → costs rs ≤ 3 * (wiresN rs).length
  | [], _ => by simp [costs]
  | r :: rs, h => by
    simp only [OKsE] at h
    have h1 := NRec.costE_le S emd r h.1
    have h2 := costsE_le S emd rs h.2
    simp only [costs, wiresN_cons, List.length_append]
    omega
end

/-- **generated `Unmarshal` on any record sequence with nested messages** -/
theorem unmarshal_nested (S : Schema) (fast : Bool) (md : MD) (rs : List NRec) (hok : OKs S md rs) :
    unmarshal S fast md (wiresN rs) = decodeMsgN S md rs := by
  unfold unmarshal
  exact msgN S fast md rs hok _ (by have := costs_le S md rs hok; omega)

end Csproto.Gen
