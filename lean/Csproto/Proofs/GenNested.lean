import Csproto.Proofs.GenRecords
/-
  The generated `Unmarshal` on sequences of well-formed records that include **nested messages**
  (singular and repeated, to any depth, recursive types included): it computes the fold of the record
  rule, where a message-typed record decodes its payload with the same fold.

  For a singular message field the rule is the code's — the LAST occurrence replaces the field (open
  finding B9: the protobuf runtimes merge).  When no singular message field occurs twice (which is how
  `Marshal` and every runtime's writer emit them) this is the reference rule.
-/
namespace Csproto.Gen
open Csproto Csproto.C01

/-- records with nested messages -/
inductive NRec where
  | flat (r : WRec)                                         -- scalar element / packed run / unknown field
  | msg (idx : Nat) (fd : FD) (i : Nat) (sub : List NRec)   -- message-typed field of type `S.md i`

mutual
def NRec.wire : NRec → Bytes
  | .flat r => r.wire
  | .msg _ fd _ sub => encTag fd.num wtLen ++ encVarint (wiresN sub).length ++ wiresN sub
def wiresN : List NRec → Bytes
  | [] => []
  | r :: rs => r.wire ++ wiresN rs
end

mutual
/-- fuel the loop spends on a record -/
def NRec.cost : NRec → Nat
  | .flat _ => 1
  | .msg _ _ _ sub => 3 + costs sub
def costs : List NRec → Nat
  | [] => 0
  | r :: rs => r.cost + costs rs
end

mutual
def NRec.OK (S : Schema) (md : MD) : NRec → Prop
  | .flat r => r.OK md
  | .msg idx fd i sub => findField md fd.num 0 = some (idx, fd) ∧ fd.ty = .msg i ∧ ValidTag fd.num ∧ fd.card ≠ .map ∧
      (wiresN sub).length ≤ maxFieldLen ∧ OKs S (S.md i) sub
def OKs (S : Schema) (md : MD) : List NRec → Prop
  | [] => True
  | r :: rs => r.OK S md ∧ OKs S md rs
end

mutual
/-- the rule for one record -/
def NRec.applyN (S : Schema) (md : MD) (st : List F × Bytes) : NRec → Res (List F × Bytes)
  | .flat r => .ok (r.apply md st)
  | .msg idx fd i sub =>
    match decodeMsgN S (S.md i) sub with
    | .ok (nfs, nunk) =>
      .ok (assign md st.1 idx fd
        (match fd.card with
         | .list => appendTo (st.1.getD idx .unset) [.msg nfs nunk]
         | _ => .one (.msg nfs nunk)), st.2)
    | .err => .err
    | .panic => .panic
/-- the rule for a whole (sub-)message: fold from the reset state, then the required-field check -/
def decodeMsgN (S : Schema) (md : MD) (rs : List NRec) : Res (List F × Bytes) :=
  match rs with
  | [] => if hasRequired md then .err else .ok (initFields md, [])
  | r :: rest =>
    match foldN S md (r :: rest) (initFields md, []) with
    | .ok (fs, unk) => if requiredMissing md fs then .err else .ok (fs, unk)
    | e => e
def foldN (S : Schema) (md : MD) : List NRec → List F × Bytes → Res (List F × Bytes)
  | [], st => .ok st
  | r :: rs, st =>
    match r.applyN S md st with
    | .ok st' => foldN S md rs st'
    | .err => .err
    | .panic => .panic
end

theorem wiresN_cons (r : NRec) (rs : List NRec) : wiresN (r :: rs) = r.wire ++ wiresN rs := by
  simp [wiresN]

theorem NRec.wire_ne_nil (S : Schema) (md : MD) (r : NRec) (h : r.OK S md) : r.wire ≠ [] := by
  cases r with
  | flat w => simp only [NRec.wire]; exact WRec.wire_ne_nil md w (by simpa [NRec.OK] using h)
  | msg idx fd i sub => simp [NRec.wire, encTag, encVarint_ne_nil]

theorem wiresN_nil_iff (S : Schema) (md : MD) (rs : List NRec) (h : OKs S md rs) : wiresN rs = [] ↔ rs = [] := by
  cases rs with
  | nil => simp [wiresN]
  | cons r rs =>
    simp only [OKs] at h
    have := NRec.wire_ne_nil S md r h.1
    simp [wiresN_cons, this]

theorem requiredMissing_init_eq (md : MD) : requiredMissing md (initFields md) = hasRequired md :=
  requiredMissing_initFields md

mutual
/-- the loop on a record sequence, at any position, with enough fuel -/
theorem loopN (S : Schema) (fast : Bool) (md : MD) : ∀ (rs : List NRec), OKs S md rs →
    ∀ (fuel : Nat) (d : Dec) (pre : Bytes) (fs : List F) (unk : Bytes), costs rs + 1 ≤ fuel →
      d.At pre (wiresN rs) → d.fast = fast →
      unmarshalLoop S fast fuel md d fs unk = foldN S md rs (fs, unk)
  | [], _, fuel, d, pre, fs, unk, hf, hAt, _ => by
    match fuel, hf with
    | fuel + 1, _ =>
      have : ¬ d.off < d.len := by rw [hAt.len, hAt.off]; simp [wiresN]
      simp [unmarshalLoop, this, foldN]
  | r :: rs, hok, fuel, d, pre, fs, unk, hf, hAt, hfast => by
    simp only [OKs] at hok
    rw [wiresN_cons] at hAt
    have hcpos : 1 ≤ r.cost := by cases r <;> simp [NRec.cost] <;> omega
    simp only [costs] at hf
    match fuel, hf with
    | fuel + 2, hf =>
      obtain ⟨d', hAt', hfast', hstep⟩ := stepN S fast md r hok.1 fuel d pre (wiresN rs) fs unk hAt hfast (by omega)
      rw [hstep]
      simp only [foldN]
      cases ha : r.applyN S md (fs, unk) with
      | ok st' =>
        simp only []
        exact loopN S fast md rs hok.2 (fuel + 1) d' (pre ++ r.wire) st'.1 st'.2 (by omega) hAt' hfast'
      | err => simp
      | panic => simp
    | 1, hf => exfalso; omega
    | 0, hf => exfalso; omega

/-- one iteration: either the record's rule fails and so does the loop, or the loop continues after the
    record with the rule's result and `cost` less fuel -/
theorem stepN (S : Schema) (fast : Bool) (md : MD) : ∀ (r : NRec), r.OK S md →
    ∀ (fuel : Nat) (d : Dec) (pre post : Bytes) (fs : List F) (unk : Bytes),
      d.At pre (r.wire ++ post) → d.fast = fast → r.cost ≤ fuel + 1 →
      ∃ d', d'.At (pre ++ r.wire) post ∧ d'.fast = fast ∧
        unmarshalLoop S fast (fuel + 2) md d fs unk =
          (match r.applyN S md (fs, unk) with
           | .ok st' => unmarshalLoop S fast (fuel + 1) md d' st'.1 st'.2
           | .err => .err
           | .panic => .panic)
  | .flat w, hok, fuel, d, pre, post, fs, unk, hAt, hfast, _ => by
    simp only [NRec.OK] at hok
    simp only [NRec.wire] at hAt ⊢
    obtain ⟨d', hAt', hfast', hstep⟩ := loop_step S fast md w hok fuel d pre post fs unk hAt hfast
    exact ⟨d', hAt', hfast', by simp [NRec.applyN, hstep]⟩
  | .msg idx fd i sub, hok, fuel, d, pre, post, fs, unk, hAt, hfast, hcost => by
    obtain ⟨hfind, hty, htag, hnm, hlen, hsub⟩ := hok
    simp only [NRec.cost] at hcost
    simp only [NRec.wire, List.append_assoc] at hAt
    have hmore : d.off < d.len := by
      have := hAt.not_eof (by simp [encTag, encVarint_ne_nil]); omega
    have hts := Dec.tag_at hAt htag.1 htag.2 (by decide : wtLen < 8)
    have hAt1 := hAt.afterTag
    have hAt1' : (d.afterTag (encTag fd.num wtLen).length).At (pre ++ encTag fd.num wtLen)
        (encVarint (wiresN sub).length ++ wiresN sub ++ post) := by simpa using hAt1
    have hb := Dec.bytes_at hAt1' hlen
    -- the decoder after the whole record
    refine ⟨{ d.afterTag (encTag fd.num wtLen).length with
        off := (d.afterTag (encTag fd.num wtLen).length).off + (encVarint (wiresN sub).length ++ wiresN sub).length }, ?_, by simpa using hfast, ?_⟩
    · refine ⟨by show d.p = _; rw [hAt.p]; simp [NRec.wire], ?_⟩
      show d.off + (encTag fd.num wtLen).length + (encVarint (wiresN sub).length ++ wiresN sub).length = _
      simp [hAt.off, NRec.wire]; omega
    · -- the nested message: `unmarshalMsg` with `fuel` = the rule on the sub-records
      have hnested : unmarshalMsg S fast fuel (S.md i) (wiresN sub) = decodeMsgN S (S.md i) sub := by
        match fuel, hcost with
        | 0, hc => exfalso; omega
        | f + 1, hc =>
          simp only [unmarshalMsg]
          cases sub with
          | nil =>
            simp only [wiresN, decodeMsgN, List.isEmpty_nil, Bool.and_true]
            cases hr : hasRequired (S.md i)
            · simp
            · simp only [Bool.not_true, Bool.false_eq_true, if_false]
              have : unmarshalLoop S fast f (S.md i) { p := [], off := 0, fast := fast } (initFields (S.md i)) [] =
                  .ok (initFields (S.md i), []) := by
                obtain ⟨g, rfl⟩ : ∃ g, f = g + 1 := ⟨f - 1, by simp only [costs] at hc; omega⟩
                simp [unmarshalLoop, Dec.len]
              rw [this]
              simp [requiredMissing_initFields, hr]
          | cons r rest =>
            have hne : wiresN (r :: rest) ≠ [] := by
              intro e; exact absurd ((wiresN_nil_iff S (S.md i) (r :: rest) hsub).mp e) (by simp)
            have hie : (wiresN (r :: rest)).isEmpty = false := by
              cases hw : wiresN (r :: rest) with
              | nil => exact absurd hw hne
              | cons _ _ => rfl
            simp only [hie, Bool.and_false, Bool.false_eq_true, if_false, decodeMsgN]
            have hloop := loopN S fast (S.md i) (r :: rest) hsub f { p := wiresN (r :: rest), off := 0, fast := fast } []
              (initFields (S.md i)) [] (by simp only [costs] at hc ⊢; omega) ⟨by simp, by simp⟩ rfl
            rw [hloop]
            cases hfold : foldN S (S.md i) (r :: rest) (initFields (S.md i), []) with
            | ok st => obtain ⟨a, b⟩ := st; rfl
            | err => rfl
            | panic => rfl
      simp only [unmarshalLoop, hmore, not_true_eq_false, if_false, hts, hfind]
      simp only [fieldStep, hty, ne_eq, not_true_eq_false, if_false, hb, hnested, NRec.applyN]
      cases hd : decodeMsgN S (S.md i) sub with
      | ok r =>
        obtain ⟨nfs, nunk⟩ := r
        cases hc : fd.card <;> simp [hc] at hnm ⊢
      | err => cases hc : fd.card <;> simp [hc] at hnm ⊢
      | panic => cases hc : fd.card <;> simp [hc] at hnm ⊢
end

/-- a whole message: `Unmarshal` of the concatenated records = the rule on the records -/
theorem msgN (S : Schema) (fast : Bool) (md : MD) (rs : List NRec) (hok : OKs S md rs) (fuel : Nat)
    (hf : costs rs + 2 ≤ fuel) : unmarshalMsg S fast fuel md (wiresN rs) = decodeMsgN S md rs := by
  match fuel, hf with
  | f + 1, hf =>
    simp only [unmarshalMsg]
    cases rs with
    | nil =>
      simp only [wiresN, decodeMsgN, List.isEmpty_nil, Bool.and_true]
      cases hr : hasRequired md
      · simp
      · simp only [Bool.not_true, Bool.false_eq_true, if_false]
        obtain ⟨g, rfl⟩ : ∃ g, f = g + 1 := ⟨f - 1, by simp only [costs] at hf; omega⟩
        simp [unmarshalLoop, Dec.len, requiredMissing_initFields, hr]
    | cons r rest =>
      have hne : wiresN (r :: rest) ≠ [] := by
        intro e; exact absurd ((wiresN_nil_iff S md (r :: rest) hok).mp e) (by simp)
      have hie : (wiresN (r :: rest)).isEmpty = false := by
        cases hw : wiresN (r :: rest) with
        | nil => exact absurd hw hne
        | cons _ _ => rfl
      simp only [hie, Bool.and_false, Bool.false_eq_true, if_false, decodeMsgN]
      have hloop := loopN S fast md (r :: rest) hok f { p := wiresN (r :: rest), off := 0, fast := fast } []
        (initFields md) [] (by omega) ⟨by simp, by simp⟩ rfl
      rw [hloop]
      cases hfold : foldN S md (r :: rest) (initFields md, []) with
      | ok st => obtain ⟨a, b⟩ := st; rfl
      | err => rfl
      | panic => rfl

mutual
theorem NRec.cost_le (S : Schema) (md : MD) : ∀ (r : NRec), r.OK S md → r.cost ≤ 3 * r.wire.length
  | .flat w, h => by
    have := List.length_pos_iff.mpr (NRec.wire_ne_nil S md (.flat w) h)
    simp only [NRec.cost]; omega
  | .msg idx fd i sub, h => by
    obtain ⟨_, _, _, _, _, hsub⟩ := h
    have ih := costs_le S (S.md i) sub hsub
    have h1 := encVarint_length_pos (keyOf fd.num wtLen)
    have h2 := encVarint_length_pos (wiresN sub).length
    simp only [NRec.cost, NRec.wire, List.length_append, encTag]
    omega
theorem costs_le (S : Schema) (md : MD) : ∀ (rs : List NRec), OKs S md rs → costs rs ≤ 3 * (wiresN rs).length
  | [], _ => by simp [costs]
  | r :: rs, h => by
    simp only [OKs] at h
    have h1 := NRec.cost_le S md r h.1
    have h2 := costs_le S md rs h.2
    simp only [costs, wiresN_cons, List.length_append]
    omega
end

/-- **generated `Unmarshal` on any record sequence with nested messages** -/
theorem unmarshal_nested (S : Schema) (fast : Bool) (md : MD) (rs : List NRec) (hok : OKs S md rs) :
    unmarshal S fast md (wiresN rs) = decodeMsgN S md rs := by
  unfold unmarshal
  exact msgN S fast md rs hok _ (by have := costs_le S md rs hok; omega)

end Csproto.Gen
