import Csproto.Model.Dec
/-
  Totality of the decoder model: no reachable call panics, the cursor stays in range, allocation
  requests are bounded by the input length.
-/
namespace Csproto

/-- an element reader is *safe*: never panics and never claims more bytes than it was given -/
def ElemOK {α} (elem : Bytes → Res (α × Nat)) : Prop :=
  ∀ s, elem s ≠ .panic ∧ ∀ v n, elem s = .ok (v, n) → n ≤ s.length

theorem decVarintLoop_ok (fuel : Nat) : ∀ (shift acc n : Nat) (s : Bytes),
    decVarintLoop fuel shift acc n s ≠ .panic ∧
    ∀ v k, decVarintLoop fuel shift acc n s = .ok (v, k) → n < k ∧ k ≤ n + s.length := by
  induction fuel with
  | zero => intro shift acc n s; simp [decVarintLoop]
  | succ fuel ih =>
    intro shift acc n s
    cases s with
    | nil => simp [decVarintLoop]
    | cons b bs =>
      simp only [decVarintLoop]
      by_cases hb : b.toNat < 128
      · simp only [hb, if_true]
        refine ⟨by simp, ?_⟩
        intro v k h
        simp at h; obtain ⟨_, hk⟩ := h
        subst hk; simp
      · simp only [hb, if_false]
        have := ih (shift + 7) (acc ||| (b.toNat % 128) <<< shift % two64) (n + 1) bs
        refine ⟨this.1, ?_⟩
        intro v k h
        have := this.2 v k h
        simp; omega

theorem decodeVarint_ok : ElemOK decodeVarint := by
  intro s
  cases s with
  | nil => simp [decodeVarint]
  | cons b bs =>
    simp only [decodeVarint]
    by_cases hb : b.toNat < 128
    · simp only [hb, if_true]
      refine ⟨by simp, ?_⟩
      intro v n h; simp at h; obtain ⟨_, hn⟩ := h; subst hn; simp
    · simp only [hb, if_false]
      have := decVarintLoop_ok 10 0 0 0 (b :: bs)
      refine ⟨this.1, ?_⟩
      intro v n h
      have := this.2 v n h
      omega

theorem decodeVarint_pos {s : Bytes} {v n : Nat} (h : decodeVarint s = .ok (v, n)) : 0 < n := by
  cases s with
  | nil => simp [decodeVarint] at h
  | cons b bs =>
    simp only [decodeVarint] at h
    by_cases hb : b.toNat < 128
    · simp [hb] at h; omega
    · simp only [hb, if_false] at h
      have := (decVarintLoop_ok 10 0 0 0 (b :: bs)).2 v n h
      omega

theorem nz_ok {α} (elem : Bytes → Res (α × Nat)) (h : ElemOK elem) : ElemOK (fun p => nz (elem p)) := by
  intro s
  have := h s
  dsimp only
  unfold nz
  cases he : elem s with
  | ok r =>
    obtain ⟨v, n⟩ := r
    dsimp only
    by_cases hn : n = 0
    · simp [hn]
    · simp only [hn, if_false]
      exact ⟨by simp, fun v' n' h' => by simp at h'; obtain ⟨_, e⟩ := h'; subst e; exact this.2 v n he⟩
  | err => simp
  | panic => exact absurd he this.1

theorem elVarint_ok : ElemOK elVarint := nz_ok _ decodeVarint_ok

theorem ElemOK.map {α β} {elem : Bytes → Res (α × Nat)} (h : ElemOK elem) (f : α → β) :
    ElemOK (fun s => (elem s).map fun (v, n) => (f v, n)) := by
  intro s
  have := h s
  dsimp only
  cases he : elem s with
  | ok r =>
    obtain ⟨v, n⟩ := r
    simp only [Res.map]
    exact ⟨by simp, fun v' n' h' => by simp at h'; obtain ⟨_, e⟩ := h'; subst e; exact this.2 v n he⟩
  | err => simp [Res.map]
  | panic => exact absurd he this.1

/-- filtering an `ok` into an `err` (range checks) preserves safety -/
theorem ElemOK.filter {α β} {elem : Bytes → Res (α × Nat)} (h : ElemOK elem)
    (g : α → Nat → Res (β × Nat))
    (hg : ∀ v n, g v n = .err ∨ ∃ w, g v n = .ok (w, n)) :
    ElemOK (fun s => match elem s with | .ok (v, n) => g v n | .err => .err | .panic => .panic) := by
  intro s
  have := h s
  dsimp only
  cases he : elem s with
  | ok r =>
    obtain ⟨v, n⟩ := r
    dsimp only
    rcases hg v n with hgv | ⟨w, hgv⟩
    · rw [hgv]; simp
    · rw [hgv]; exact ⟨by simp, fun v' n' h' => by simp at h'; obtain ⟨_, e⟩ := h'; subst e; exact this.2 v n he⟩
  | err => simp
  | panic => exact absurd he this.1

theorem elBool_ok : ElemOK elBool := by
  unfold elBool; exact elVarint_ok.map (fun v => v != 0)

theorem elInt64_ok : ElemOK elInt64 := by
  unfold elInt64; exact elVarint_ok.map toI64

theorem elUint32_ok : ElemOK elUint32 := by
  intro s
  have := elVarint_ok s
  unfold elUint32
  cases he : elVarint s with
  | ok r =>
    obtain ⟨v, n⟩ := r
    dsimp only
    split
    · simp
    · exact ⟨by simp, fun v' n' h' => by simp at h'; obtain ⟨_, e⟩ := h'; subst e; exact this.2 v n he⟩
  | err => simp
  | panic => exact absurd he this.1

theorem elInt32_ok : ElemOK elInt32 := by
  intro s
  have := elVarint_ok s
  unfold elInt32
  cases he : elVarint s with
  | ok r =>
    obtain ⟨v, n⟩ := r
    dsimp only
    split
    · simp
    · exact ⟨by simp, fun v' n' h' => by simp at h'; obtain ⟨_, e⟩ := h'; subst e; exact this.2 v n he⟩
  | err => simp
  | panic => exact absurd he this.1

theorem decodeFixed32_ok : ElemOK decodeFixed32 := by
  intro s; unfold decodeFixed32
  by_cases h : s.length < 4
  · simp [h]
  · simp only [h, if_false]; exact ⟨by simp, fun v n h' => by simp at h'; omega⟩

theorem decodeFixed64_ok : ElemOK decodeFixed64 := by
  intro s; unfold decodeFixed64
  by_cases h : s.length < 8
  · simp [h]
  · simp only [h, if_false]; exact ⟨by simp, fun v n h' => by simp at h'; omega⟩

theorem elFixed32_ok : ElemOK elFixed32 := nz_ok _ decodeFixed32_ok
theorem elFixed64_ok : ElemOK elFixed64 := nz_ok _ decodeFixed64_ok
theorem elFloat32_ok : ElemOK elFloat32 := elFixed32_ok
theorem elFloat64_ok : ElemOK elFloat64 := elFixed64_ok

theorem decodeZigZag32_ok : ElemOK decodeZigZag32 := by
  intro s
  have := decodeVarint_ok s
  unfold decodeZigZag32
  cases he : decodeVarint s with
  | ok r =>
    obtain ⟨v, n⟩ := r
    dsimp only
    split
    · simp
    · exact ⟨by simp, fun v' n' h' => by simp at h'; obtain ⟨_, e⟩ := h'; subst e; exact this.2 v n he⟩
  | err => simp
  | panic => exact absurd he this.1

theorem decodeZigZag64_ok : ElemOK decodeZigZag64 := by
  intro s
  have := decodeVarint_ok s
  unfold decodeZigZag64
  cases he : decodeVarint s with
  | ok r =>
    obtain ⟨v, n⟩ := r
    dsimp only
    split
    · simp
    · exact ⟨by simp, fun v' n' h' => by simp at h'; obtain ⟨_, e⟩ := h'; subst e; exact this.2 v n he⟩
  | err => simp
  | panic => exact absurd he this.1

theorem elSint32_ok : ElemOK elSint32 := nz_ok _ decodeZigZag32_ok
theorem elSint64_ok : ElemOK elSint64 := nz_ok _ decodeZigZag64_ok

/-- the decoder invariant -/
def Dec.Inv (d : Dec) : Prop := d.off ≤ d.len

theorem sliceFrom_ok {p : Bytes} {i : Nat} (h : i ≤ p.length) : sliceFrom p i = .ok (p.drop i) := by
  simp [sliceFrom, h]

/-- scalar methods: no panic, cursor stays in range, buffer untouched -/
theorem Dec.scalar_safe {α} (d : Dec) (hi : d.Inv) (elem : Bytes → Res (α × Nat)) (mk : α → Item)
    (he : ElemOK elem) :
    (d.scalar elem mk).2 ≠ .panic ∧ (d.scalar elem mk).1.Inv ∧ (d.scalar elem mk).1.p = d.p := by
  unfold Dec.scalar
  by_cases h : d.off ≥ d.len
  · simp [h, hi]
  · simp only [h, if_false, sliceFrom_ok hi]
    have := he (d.p.drop d.off)
    cases hel : elem (d.p.drop d.off) with
    | ok r =>
      obtain ⟨v, n⟩ := r
      have hn := this.2 v n hel
      simp only [List.length_drop] at hn
      refine ⟨by simp, ?_, rfl⟩
      show d.off + n ≤ d.p.length
      unfold Dec.Inv Dec.len at hi; omega
    | err => exact ⟨by simp, hi, rfl⟩
    | panic => exact absurd hel this.1

/-- the packed loop: no panic; the cursor never leaves the buffer; cells ≤ bytes consumed -/
theorem packedLoop_safe {α} (elem : Bytes → Res (α × Nat)) (he : ElemOK elem) (p : Bytes) (l : Nat) :
    ∀ (fuel nRead off : Nat) (acc : List α), off ≤ p.length →
      (packedLoop elem p l fuel nRead off acc).2 ≠ .panic ∧
      off ≤ (packedLoop elem p l fuel nRead off acc).1 ∧
      (packedLoop elem p l fuel nRead off acc).1 ≤ p.length ∧
      ∀ vs, (packedLoop elem p l fuel nRead off acc).2 = .ok vs →
        vs.length + off ≤ acc.length + (packedLoop elem p l fuel nRead off acc).1 ∧ nRead ≤ l := by
  intro fuel
  induction fuel with
  | zero => intro nRead off acc h; simp [packedLoop, h]
  | succ fuel ih =>
    intro nRead off acc h
    rw [packedLoop]
    by_cases h1 : nRead < l
    · simp only [h1, if_true]
      by_cases h2 : off ≥ p.length
      · simp [h2, h]
      · simp only [h2, if_false, sliceFrom_ok h]
        have := he (p.drop off)
        cases hel : elem (p.drop off) with
        | ok r =>
          obtain ⟨v, n⟩ := r
          have hn := this.2 v n hel
          simp only [List.length_drop] at hn
          by_cases hn0 : n = 0
          · simp [hn0, h]
          · simp only [hn0, if_false]
            have := ih (nRead + n) (off + n) (v :: acc) (by omega)
            refine ⟨this.1, by omega, this.2.2.1, ?_⟩
            intro vs hvs
            have := this.2.2.2 vs hvs
            simp at this; omega
        | err => simp [h]
        | panic => exact absurd hel this.1
    · simp only [h1, if_false]
      by_cases h3 : nRead ≠ l
      · simp [h3, h]
      · simp only [h3, if_false]
        refine ⟨by simp, Nat.le_refl _, h, ?_⟩
        intro vs hvs
        simp at hvs; subst hvs; simp; omega

end Csproto
