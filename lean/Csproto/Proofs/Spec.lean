import Csproto.Spec.WireSpec
import Csproto.Proofs.Wire
/-
  The model's encoders meet the independent wire-format specification, and the specification
  determines the bytes uniquely.
-/
namespace Csproto
open Spec

theorem varintValue_encVarint (v : Nat) : varintValue (encVarint v) = v := by
  induction v using Nat.strongRecOn with
  | _ v ih =>
    by_cases h : v < 128
    · rw [encVarint_small h]
      simp only [varintValue]
      rw [u8_ofNat_toNat (by omega)]; omega
    · rw [encVarint_big h]
      simp only [varintValue]
      rw [u8_ofNat_toNat (by omega), ih (v / 128) (by omega)]; omega

theorem contOK_encVarint (v : Nat) : contOK (encVarint v) = true := by
  induction v using Nat.strongRecOn with
  | _ v ih =>
    by_cases h : v < 128
    · rw [encVarint_small h]; simp [contOK, u8_ofNat_toNat (by omega : v < 256), h]
    · rw [encVarint_big h]
      have hne := encVarint_ne_nil (v / 128)
      match hm : encVarint (v / 128), hne with
      | b :: bs, _ =>
        have := ih (v / 128) (by omega)
        rw [hm] at this
        simp only [contOK, this, Bool.and_true, decide_eq_true_eq]
        rw [u8_ofNat_toNat (by omega)]; omega

theorem lastNZ_encVarint (v : Nat) (hv : 0 < v) : lastGroupNonZero (encVarint v) = true := by
  induction v using Nat.strongRecOn with
  | _ v ih =>
    by_cases h : v < 128
    · rw [encVarint_small h]
      simp only [lastGroupNonZero, u8_ofNat_toNat (by omega : v < 256)]
      simp; omega
    · rw [encVarint_big h]
      have hne := encVarint_ne_nil (v / 128)
      match hm : encVarint (v / 128), hne with
      | b :: bs, _ =>
        have := ih (v / 128) (by omega) (by omega)
        rw [hm] at this
        simpa [lastGroupNonZero] using this

/-- **the encoder's varint is the canonical one** -/
theorem canon_encVarint (v : Nat) : CanonVarint (encVarint v) v := by
  refine ⟨contOK_encVarint v, ?_, varintValue_encVarint v⟩
  by_cases h : v < 128
  · left; rw [encVarint_small h]; rfl
  · right; exact lastNZ_encVarint v (by omega)

theorem varintValue_pos {bs : Bytes} (h : lastGroupNonZero bs = true) : 0 < varintValue bs := by
  induction bs with
  | nil => simp [lastGroupNonZero] at h
  | cons b bs ih =>
    cases bs with
    | nil => simp [lastGroupNonZero] at h; simp [varintValue]; omega
    | cons c cs =>
      have := ih (by simpa [lastGroupNonZero] using h)
      simp only [varintValue] at this ⊢; omega

/-- **canonical varints are unique**: the specification determines the bytes -/
theorem canon_unique {a b : Bytes} {v : Nat} (ha : CanonVarint a v) (hb : CanonVarint b v) : a = b := by
  induction a generalizing b v with
  | nil => simp [CanonVarint, contOK] at ha
  | cons x as ih =>
    obtain ⟨hca, hma, hva⟩ := ha
    obtain ⟨hcb, hmb, hvb⟩ := hb
    cases b with
    | nil => simp [contOK] at hcb
    | cons y bs =>
      cases as with
      | nil =>
        have hx : x.toNat < 128 := by simpa [contOK] using hca
        cases bs with
        | nil =>
          have hy : y.toNat < 128 := by simpa [contOK] using hcb
          simp only [varintValue] at hva hvb
          have : x.toNat = y.toNat := by omega
          have : x = y := UInt8.toNat_inj.mp this
          rw [this]
        | cons z zs =>
          exfalso
          have hl : lastGroupNonZero (z :: zs) = true := by
            rcases hmb with h | h
            · simp at h
            · simpa [lastGroupNonZero] using h
          have := varintValue_pos hl
          simp only [varintValue] at hva hvb this
          omega
      | cons w ws =>
        have hx : x.toNat ≥ 128 ∧ contOK (w :: ws) = true := by simpa [contOK] using hca
        have hla : lastGroupNonZero (w :: ws) = true := by
          rcases hma with h | h
          · simp at h
          · simpa [lastGroupNonZero] using h
        cases bs with
        | nil =>
          exfalso
          have hy : y.toNat < 128 := by simpa [contOK] using hcb
          have := varintValue_pos hla
          simp only [varintValue] at hva hvb this
          omega
        | cons z zs =>
          have hy : y.toNat ≥ 128 ∧ contOK (z :: zs) = true := by simpa [contOK] using hcb
          have hlb : lastGroupNonZero (z :: zs) = true := by
            rcases hmb with h | h
            · simp at h
            · simpa [lastGroupNonZero] using h
          have hxl := x.toNat_lt
          have hyl := y.toNat_lt
          have e1 : varintValue (x :: w :: ws) = x.toNat % 128 + 128 * varintValue (w :: ws) := rfl
          have e2 : varintValue (y :: z :: zs) = y.toNat % 128 + 128 * varintValue (z :: zs) := rfl
          rw [e1] at hva; rw [e2] at hvb
          have hxy : x.toNat = y.toNat := by omega
          have hval : varintValue (w :: ws) = varintValue (z :: zs) := by omega
          have hxe : x = y := UInt8.toNat_inj.mp hxy
          have := @ih (z :: zs) (varintValue (w :: ws)) ⟨hx.2, Or.inr hla, rfl⟩ ⟨hy.2, Or.inr hlb, hval.symm⟩
          rw [hxe, this]

/-! ### the other primitive encodings meet the spec -/

theorem leValue_leBytes (n v : Nat) : leValue (leBytes n v) = v % 256 ^ n := by
  induction n generalizing v with
  | zero => simp [leBytes, leValue, Nat.mod_one]
  | succ n ih =>
    simp only [leBytes, leValue]
    rw [ih, u8_ofNat_toNat (Nat.mod_lt _ (by decide))]
    rw [Nat.pow_succ, Nat.mul_comm (256 ^ n) 256, Nat.mod_mul]

theorem twos64_eq_toU64 (i : Int) (h : InI64 i) : twos64 i = toU64 i := by
  unfold InI64 two63 at h; unfold twos64 toU64 two64
  split <;> omega

theorem zz_eq_zigzag (i : Int) : zz i = zigzag i := rfl

theorem key_eq_keyOf {tag wt : Nat} (ht : tag ≤ maxTagValue) (hw : wt < 8) : key tag wt = keyOf tag wt :=
  (keyOf_eq ht hw).symm

end Csproto
