import Csproto.Model.ProvLazy
import Csproto.Proofs.Prov
/-
  lazyproto with provenance: reading the recorded windows against the decode buffer gives exactly the
  field data of the value model (`decodeIntoLoop`); hence a safe-mode result — whose windows refer to a
  private clone — answers every accessor call the same way whatever happens to the caller's buffer.
-/
namespace Csproto.Prov
open Csproto

theorem read_isEmpty (mem : Bytes) (w : WFD) : (w.read mem).data.isEmpty = w.data.isEmpty := by
  simp [WFD.read]

theorem read_snoc (mem : Bytes) (w : WFD) (wt : Nat) (win : Nat × Nat) :
    WFD.read mem { wt := wt, data := w.data ++ [win] } =
      { wt := wt, data := (w.read mem).data ++ [(mem.drop win.1).take win.2] } := by
  simp [WFD.read]

theorem window_drop (mem : Bytes) (base : Nat) (d : Dec) (hs : Sync mem base d) (s l sz : Nat) (hfit : s + l ≤ d.p.length) :
    ((d.p.drop s).take l).drop sz = (mem.drop (base + s + sz)).take (l - sz) := by
  have h := read_winRef hs hfit
  simp only [winRef, Ref.read] at h
  rw [← h, List.drop_take, List.drop_drop]

/-- **erasure for the lazy pass** -/
theorem erase_decodeIntoLoop (flat : List Nat) (mem : Bytes) : ∀ (fuel base : Nat) (d : Dec) (fds : List WFD),
    Sync mem base d →
    (decodeIntoLoopW flat fuel base d fds).map (List.map (WFD.read mem)) =
      decodeIntoLoop flat fuel d (fds.map (WFD.read mem)) := by
  intro fuel
  induction fuel with
  | zero => intro base d fds _; rfl
  | succ fuel ih =>
    intro base d fds hs
    simp only [decodeIntoLoopW, decodeIntoLoop]
    by_cases hc : d.off < d.len
    · simp only [hc, not_true_eq_false, if_false]
      generalize hr : d.step .tag = r
      obtain ⟨d1, o, a⟩ := r
      have hs1 : Sync mem base d1 := hs.same (tag_step_same hr)
      cases o with
      | ok it =>
        cases it with
        | tag tag wt =>
          simp only []
          cases idxOf? flat tag with
          | none =>
            simp only [Dec.step, withAlloc]
            rcases skipWin_cases d1 tag wt with ⟨d2, s, l, hw, ho, hsame, hfit⟩ | ⟨hw, ho⟩ | ⟨hw, ho⟩
            · rw [hw, ho]; exact ih base d2 fds (hs1.same hsame)
            · rw [hw, ho]; rfl
            · rw [hw, ho]; rfl
          | some i =>
            simp only [List.getElem?_map]
            cases hfd : fds[i]? with
            | none => rfl
            | some fd =>
              simp only [Option.map_some, read_isEmpty]
              have hwt : (fd.read mem).wt = fd.wt := rfl
              rw [hwt]
              by_cases hcf : ¬ fd.data.isEmpty = true ∧ fd.wt ≠ wt
              · rw [if_pos hcf, if_pos hcf]; rfl
              · rw [if_neg hcf, if_neg hcf]
                by_cases hv : wt = wtVarint ∨ wt = wtFixed32 ∨ wt = wtFixed64
                · simp only [hv, if_true, Dec.step, withAlloc]
                  rcases skipWin_cases d1 tag wt with ⟨d2, s, l, hw, ho, hsame, hfit⟩ | ⟨hw, ho⟩ | ⟨hw, ho⟩
                  · rw [hw, ho]
                    simp only []
                    obtain ⟨hoff, _, hle⟩ := skipWin_off d1 tag wt d2 s l hw
                    have hfit' : d1.off + (d2.off - d1.off) ≤ d1.p.length := by omega
                    have hwin := read_winRef hs1 hfit'
                    simp only [winRef, Ref.read] at hwin
                    rw [← hwin, ← read_snoc mem fd wt (base + d1.off, d2.off - d1.off), ← List.map_set]
                    exact ih base d2 _ (hs1.same hsame)
                  · rw [hw, ho]; rfl
                  · rw [hw, ho]; rfl
                · simp only [hv, if_false]
                  by_cases hl : wt = wtLen
                  · simp only [hl, if_true, Dec.step, withAlloc]
                    rcases bytesWin_cases d1 with ⟨d2, s, l, hw, ho, hsame, hfit⟩ | ⟨hw, ho⟩ | ⟨hw, ho⟩
                    · rw [hw, ho]
                      simp only []
                      have hwin := read_winRef hs1 hfit
                      simp only [winRef, Ref.read] at hwin
                      rw [← hwin, ← read_snoc mem fd wtLen (base + s, l), ← List.map_set]
                      exact ih base d2 _ (hs1.same hsame)
                    · rw [hw, ho]; rfl
                    · rw [hw, ho]; rfl
                  · simp only [hl, if_false]; rfl
        | _ => simp [Res.map]
      | err => simp [Res.map]
      | errNested _ => simp [Res.map]
      | panic => simp [Res.map]
    · simp only [hc, not_false_eq_true, if_true, Res.map]

end Csproto.Prov
