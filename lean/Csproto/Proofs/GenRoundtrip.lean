import Csproto.Proofs.GenRecords
/-
  Round trip for message types whose fields are scalars (singular with or without presence, required,
  repeated packed or not): what the generated `Marshal` writes is a sequence of well-formed records, and
  the generated `Unmarshal` — equivalently the reference rule, by `unmarshal_records` — turns it back
  into the message (`canon`: the Go struct after normalising values to their field width).
-/
namespace Csproto.Gen
open Csproto Csproto.C01

/-- a message type all of whose fields are scalar and none of which is a oneof member or a map -/
def FlatMD (md : MD) : Prop :=
  ∀ fd ∈ md, (∃ k, fd.ty = .sc k) ∧ (∀ g, fd.card ≠ .oneof g) ∧ fd.card ≠ .map ∧ fd.card ≠ .always

def NoDupNums (md : MD) : Prop := (md.map FD.num).Nodup

/-- `findField` with a starting index -/
theorem findField_base (md : MD) (num base : Nat) :
    findField md num base = (findField md num 0).map fun p => (p.1 + base, p.2) := by
  induction md generalizing base with
  | nil => simp [findField]
  | cons fd md ih =>
    simp only [findField]
    by_cases h : fd.num = num
    · simp [h]
    · simp only [h, if_false]
      rw [ih (base + 1), ih (0 + 1)]
      cases findField md num 0 <;> simp; omega

theorem findField_at (pre : MD) (fd : FD) (suf : MD) (h : NoDupNums (pre ++ fd :: suf)) :
    findField (pre ++ fd :: suf) fd.num 0 = some (pre.length, fd) := by
  induction pre with
  | nil => simp [findField]
  | cons p pre ih =>
    have hnd : NoDupNums (pre ++ fd :: suf) := by
      unfold NoDupNums at *; simp only [List.cons_append, List.map_cons, List.nodup_cons] at h; exact h.2
    have hne : p.num ≠ fd.num := by
      unfold NoDupNums at h
      simp only [List.cons_append, List.map_cons, List.nodup_cons, List.map_append, List.mem_append, List.mem_cons,
        List.mem_map, not_or] at h
      intro e
      exact h.1.2.1 e
    simp only [List.cons_append, findField, hne, if_false]
    rw [findField_base, ih hnd]
    simp

/-! ### the records of one field -/

def kindOf (fd : FD) : SK :=
  match fd.ty with
  | .sc k => k
  | .msg _ => .bool

/-- the records `Marshal` writes for field number `idx` -/
def fieldRecs (idx : Nat) (fd : FD) : F → List WRec
  | .unset => []
  | .one v =>
    match fd.card with
    | .implicit => if implicitPresent (kindOf fd) v then [.scalar idx fd (kindOf fd) v] else []
    | _ => [.scalar idx fd (kindOf fd) v]
  | .many vs =>
    match fd.card with
    | .packed => if vs.isEmpty then [] else [.packed idx fd (kindOf fd) vs]
    | _ => vs.map (.scalar idx fd (kindOf fd))

def recOp : WRec → EncOp
  | .scalar _ fd k v => scalarOp k fd.num v
  | .packed _ fd k vs => packedOp k fd.num vs
  | .unknown r => .raw r.wire

theorem wiresW_eq_wiresOf (rs : List WRec) : wiresW rs = wiresOf (rs.map recOp) := by
  induction rs with
  | nil => rfl
  | cons r rs ih =>
    rw [wiresW_cons, List.map_cons, wiresOf_cons, ih]
    cases r <;> simp [WRec.wire, recOp, EncOp.wire]

/-- the encoder calls of a scalar field are exactly its records -/
theorem opsField_recs (S : Schema) (idx : Nat) (fd : FD) (k : SK) (hty : fd.ty = .sc k) (f : F) (ops : List EncOp)
    (ho : opsField S fd f = .ok ops) : ops = (fieldRecs idx fd f).map recOp := by
  have hk : kindOf fd = k := by simp [kindOf, hty]
  cases f with
  | unset =>
    simp only [opsField] at ho
    split at ho <;> cases ho
    rfl
  | one v =>
    simp only [opsField, hty] at ho
    cases hc : fd.card <;> simp only [hc] at ho <;> cases ho <;>
      simp only [fieldRecs, hc, hk] <;> first | rfl | (split <;> rfl)
  | many vs =>
    simp only [opsField, hty] at ho
    cases hc : fd.card <;> simp only [hc] at ho <;> cases ho <;>
      simp only [fieldRecs, hc, hk] <;>
      first
        | (split <;> rfl)
        | (simp only [List.map_map]; apply List.map_congr_left; intro v _; rfl)

/-! ### what decoding them yields -/

/-- the field after a round trip -/
def canonField (fd : FD) : F → F
  | .unset => initField fd
  | .one v =>
    match fd.card with
    | .implicit => if implicitPresent (kindOf fd) v then .one (decodedV (kindOf fd) v) else initField fd
    | _ => .one (decodedV (kindOf fd) v)
  | .many vs => .many (vs.map (decodedV (kindOf fd)))

theorem decodedVs_eq (k : SK) (vs : List V) (hk : k ≠ .string ∧ k ≠ .bytes) :
    decodedVs k vs = vs.map (decodedV k) := by
  cases k <;> simp [decodedVs, decodedV, dpfv, dfv, FieldVal.item, itemToVs, itemToV, List.map_map, Function.comp_def] <;>
    first | exact absurd rfl hk.1 | exact absurd rfl hk.2

/-- `assign` on a field that is not a oneof member is a plain update -/
theorem assign_plain (md : MD) (fs : List F) (idx : Nat) (fd : FD) (f : F) (h : ∀ g, fd.card ≠ .oneof g) :
    assign md fs idx fd f = fs.set idx f := by
  unfold assign
  cases hc : fd.card <;> first | rfl | exact absurd hc (h _)

/-- `assign` behaves as a plain update on every state that agrees with `fs` away from `idx`
    (true for non-members of a oneof, and for a oneof member whose siblings are all unset) -/
def AssignPlain (md : MD) (fd : FD) (idx : Nat) (fs : List F) : Prop :=
  ∀ (fs' : List F) (x : F), fs'.length = fs.length → (∀ j, j ≠ idx → fs'[j]? = fs[j]?) →
    assign md fs' idx fd x = fs'.set idx x

theorem AssignPlain.of_plain (md : MD) (fd : FD) (idx : Nat) (fs : List F) (h : ∀ g, fd.card ≠ .oneof g) :
    AssignPlain md fd idx fs := fun fs' x _ _ => assign_plain md fs' idx fd x h

theorem AssignPlain.set {md : MD} {fd : FD} {idx : Nat} {fs : List F} (h : AssignPlain md fd idx fs) (y : F) :
    AssignPlain md fd idx (fs.set idx y) := by
  intro fs' x hl hag
  apply h fs' x (by simpa using hl)
  intro j hj
  rw [hag j hj, List.getElem?_set_ne (fun e => hj e.symm)]

theorem AssignPlain.self {md : MD} {fd : FD} {idx : Nat} {fs : List F} (h : AssignPlain md fd idx fs) (x : F) :
    assign md fs idx fd x = fs.set idx x := h fs x rfl (fun _ _ => rfl)

/-- `assign` on a oneof member all of whose siblings are unset is a plain update as well -/
theorem AssignPlain.of_clean (md : MD) (fd : FD) (idx : Nat) (fs : List F) (hlen : md.length = fs.length)
    (h : ∀ g, fd.card = .oneof g → ∀ j fdj, md[j]? = some fdj → fdj.card = .oneof g → j ≠ idx → fs[j]? = some .unset) :
    AssignPlain md fd idx fs := by
  intro fs' x hl hag
  unfold assign
  cases hc : fd.card
  case oneof g =>
    simp only []
    apply List.ext_getElem?
    intro j
    by_cases e : idx = j
    · subst e
      simp [List.getElem?_set, List.length_zip, hlen, hl]
    · have hj : j ≠ idx := fun x => e x.symm
      rw [List.getElem?_set_ne e, List.getElem?_set_ne e, List.getElem?_map, List.zip_eq_zipWith, List.getElem?_zipWith]
      cases hm : md[j]? with
      | none =>
        have : fs'[j]? = none := by
          rw [List.getElem?_eq_none_iff] at hm ⊢; omega
        simp [this]
      | some fdj =>
        cases hf : fs'[j]? with
        | none => simp
        | some fj =>
          simp only [Option.map_some]
          by_cases hg : fdj.card = Card.oneof g
          · have := h g hc j fdj hm hg hj
            rw [← hag j hj, hf] at this
            simp [hg, Option.some.inj this]
          · simp [hg]
  all_goals rfl

theorem fold_scalars_rep (md : MD) (idx : Nat) (fd : FD) (k : SK)
    (hrep : isRep fd.card = true) (unk : Bytes) : ∀ (vs acc : List V) (fs : List F), AssignPlain md fd idx fs → idx < fs.length →
    fs.getD idx .unset = .many acc →
    (vs.map (WRec.scalar idx fd k)).foldl (WRec.apply md) (fs, unk) = (fs.set idx (.many (acc ++ vs.map (decodedV k))), unk) := by
  intro vs
  induction vs with
  | nil =>
    intro acc fs _ hlt hcur
    simp only [List.map_nil, List.foldl_nil, List.append_nil]
    congr 1
    have hget : fs[idx] = F.many acc := by
      have := hcur
      rw [List.getD_eq_getElem?_getD, List.getElem?_eq_getElem hlt] at this
      simpa using this
    rw [← hget, List.set_getElem_self]
  | cons v vs ih =>
    intro acc fs hap hlt hcur
    simp only [List.map_cons, List.foldl_cons, WRec.apply, hrep, if_true, hap.self, hcur, appendTo]
    rw [ih (acc ++ [decodedV k v]) (fs.set idx (.many (acc ++ [decodedV k v]))) (hap.set _) (by simpa using hlt)
      (by simp [List.getD_eq_getElem?_getD, List.getElem?_set_self hlt])]
    simp [List.set_set]

/-- the Go struct field has the shape its declaration gives it -/
def ShapeOK (fd : FD) : F → Prop
  | .unset => True
  | .one _ => isRep fd.card = false
  | .many _ => isRep fd.card = true ∧ (fd.card = .packed → kindOf fd ≠ .string ∧ kindOf fd ≠ .bytes)

theorem set_getD_self (fs : List F) (idx : Nat) (x : F) (hlt : idx < fs.length) (h : fs.getD idx .unset = x) :
    fs.set idx x = fs := by
  have hget : fs[idx] = x := by
    rw [List.getD_eq_getElem?_getD, List.getElem?_eq_getElem hlt] at h
    simpa using h
  rw [← hget, List.set_getElem_self]

theorem initField_rep (fd : FD) (h : isRep fd.card = true) : initField fd = .many [] := by
  cases hc : fd.card <;> simp [isRep, hc] at h <;> simp [initField, hc]

/-- decoding the records of one field, starting from the freshly reset field -/
theorem field_fold' (md : MD) (idx : Nat) (fd : FD) (f : F) (fs : List F) (unk : Bytes)
    (hap : AssignPlain md fd idx fs) (hsh : ShapeOK fd f) (hlt : idx < fs.length)
    (hcur : fs.getD idx .unset = initField fd) :
    (fieldRecs idx fd f).foldl (WRec.apply md) (fs, unk) = (fs.set idx (canonField fd f), unk) := by
  cases f with
  | unset => simp [fieldRecs, canonField, set_getD_self fs idx _ hlt hcur]
  | one v =>
    simp only [ShapeOK] at hsh
    have hone : ([WRec.scalar idx fd (kindOf fd) v]).foldl (WRec.apply md) (fs, unk)
        = (fs.set idx (.one (decodedV (kindOf fd) v)), unk) := by
      simp [WRec.apply, hsh, hap.self]
    cases hc : fd.card <;> simp only [fieldRecs, canonField, hc] <;>
      first
        | exact hone
        | (by_cases hp : implicitPresent (kindOf fd) v = true
           · simp only [hp, if_true]; exact hone
           · simp only [hp]; simp [set_getD_self fs idx _ hlt hcur])
  | many vs =>
    obtain ⟨hrep, hpk⟩ := hsh
    have hinit := initField_rep fd hrep
    rw [hinit] at hcur
    have hlist : (vs.map (WRec.scalar idx fd (kindOf fd))).foldl (WRec.apply md) (fs, unk)
        = (fs.set idx (.many (vs.map (decodedV (kindOf fd)))), unk) := by
      have := fold_scalars_rep md idx fd (kindOf fd) hrep unk vs [] fs hap hlt hcur
      simpa using this
    cases hc : fd.card <;> simp only [fieldRecs, canonField, hc] <;>
      first
        | exact hlist
        | (by_cases he : vs.isEmpty = true
           · have : vs = [] := List.isEmpty_iff.mp he
             subst this
             simp [set_getD_self fs idx _ hlt hcur]
           · simp only [he]
             have hcur' : fs[idx]?.getD F.unset = F.many [] := by
               simpa [List.getD_eq_getElem?_getD] using hcur
             simp [WRec.apply, hap.self, hcur', appendTo, decodedVs_eq _ vs (hpk hc)])

theorem field_fold (md : MD) (idx : Nat) (fd : FD) (f : F) (fs : List F) (unk : Bytes)
    (hno : ∀ g, fd.card ≠ .oneof g) (hsh : ShapeOK fd f) (hlt : idx < fs.length)
    (hcur : fs.getD idx .unset = initField fd) :
    (fieldRecs idx fd f).foldl (WRec.apply md) (fs, unk) = (fs.set idx (canonField fd f), unk) :=
  field_fold' md idx fd f fs unk (AssignPlain.of_plain md fd idx fs hno) hsh hlt hcur

/-- all records of a message, field by field -/
def msgRecs : Nat → MD → List F → List WRec
  | base, fd :: md, f :: fs => fieldRecs base fd f ++ msgRecs (base + 1) md fs
  | _, _, _ => []

def canonFields : MD → List F → List F
  | fd :: md, f :: fs => canonField fd f :: canonFields md fs
  | md, _ => md.map initField

theorem opsFields_recs (S : Schema) : ∀ (base : Nat) (md : MD) (fs : List F) (ops : List EncOp),
    (∀ fd ∈ md, ∃ k, fd.ty = .sc k) → opsFields S md fs = .ok ops → ops = (msgRecs base md fs).map recOp
  | _, [], _, ops, _, ho => by simp only [opsFields] at ho; cases ho; simp [msgRecs]
  | _, _ :: _, [], ops, _, ho => by simp only [opsFields] at ho; cases ho; simp [msgRecs]
  | base, fd :: md, f :: fs, ops, hflat, ho => by
    simp only [opsFields] at ho
    obtain ⟨k, hk⟩ := hflat fd (by simp)
    cases ha : opsField S fd f with
    | ok a =>
      rw [ha] at ho
      cases hb : opsFields S md fs with
      | ok b =>
        rw [hb] at ho; cases ho
        rw [opsField_recs S base fd k hk f a ha,
          opsFields_recs S (base + 1) md fs b (fun x hx => hflat x (by simp [hx])) hb]
        simp [msgRecs]
      | err => rw [hb] at ho; cases ho
      | panic => rw [hb] at ho; cases ho
    | err => rw [ha] at ho; cases ho
    | panic => rw [ha] at ho; cases ho

theorem set_append_here (pre : List F) (x y : F) (rest : List F) :
    (pre ++ x :: rest).set pre.length y = pre ++ y :: rest := by
  induction pre with
  | nil => rfl
  | cons p pre ih => simp [ih]

/-- decoding all records of the message from the reset state gives the canonical message -/
theorem msg_fold (mdAll : MD) (unk : Bytes) : ∀ (md : MD) (fs pre : List F),
    (∀ fd ∈ md, ∀ g, fd.card ≠ .oneof g) → fs.length = md.length →
    (∀ p ∈ md.zip fs, ShapeOK p.1 p.2) →
    (msgRecs pre.length md fs).foldl (WRec.apply mdAll) (pre ++ md.map initField, unk)
      = (pre ++ canonFields md fs, unk)
  | [], fs, pre, _, hlen, _ => by
    cases fs with
    | nil => simp [msgRecs, canonFields]
    | cons f fs => simp at hlen
  | fd :: md, [], pre, _, hlen, _ => by simp at hlen
  | fd :: md, f :: fs, pre, hno, hlen, hsh => by
    simp only [msgRecs, List.foldl_append, List.map_cons, canonFields]
    have hcur : (pre ++ initField fd :: md.map initField).getD pre.length .unset = initField fd := by
      simp [List.getD_eq_getElem?_getD]
    rw [field_fold mdAll pre.length fd f _ unk (hno fd (by simp)) (hsh (fd, f) (by simp)) (by simp) hcur,
      set_append_here]
    have := msg_fold mdAll unk md fs (pre ++ [canonField fd f]) (fun x hx => hno x (by simp [hx]))
      (by simpa using hlen) (fun p hp => hsh p (by simp [hp]))
    simpa using this

/-- values in the ranges of their Go types, field numbers valid -/
def ValOK (fd : FD) : F → Prop
  | .unset => True
  | .one v => ValidTag fd.num ∧ DecValid (kindOf fd) v
  | .many vs => ValidTag fd.num ∧ (∀ v ∈ vs, DecValid (kindOf fd) v) ∧ vs.length ≤ maxFieldLen

theorem fieldRecs_ok (mdAll : MD) (idx : Nat) (fd : FD) (f : F) (hfind : findField mdAll fd.num 0 = some (idx, fd))
    (hk : fd.ty = .sc (kindOf fd)) (hsh : ShapeOK fd f) (hv : ValOK fd f) : ∀ r ∈ fieldRecs idx fd f, r.OK mdAll := by
  cases f with
  | unset => simp [fieldRecs]
  | one v =>
    obtain ⟨ht, hd⟩ := hv
    have hone : (WRec.scalar idx fd (kindOf fd) v).OK mdAll := ⟨hfind, hk, ht, hd⟩
    intro r hr
    cases hc : fd.card <;> simp only [fieldRecs, hc] at hr <;>
      first
        | (simp at hr; subst hr; exact hone)
        | (split at hr <;> simp at hr; subst hr; exact hone)
  | many vs =>
    obtain ⟨ht, hd, hl⟩ := hv
    obtain ⟨hrep, hpk⟩ := hsh
    intro r hr
    cases hc : fd.card <;> simp only [fieldRecs, hc] at hr <;>
      first
        | (simp only [List.mem_map] at hr; obtain ⟨v, hvm, rfl⟩ := hr; exact ⟨hfind, hk, ht, hd v hvm⟩)
        | (split at hr
           · simp at hr
           · rename_i hne
             simp at hr; subst hr
             exact ⟨hfind, hk, ht, hrep, by intro e; subst e; simp at hne, hd, hl, hpk hc⟩)

theorem msgRecs_ok (mdAll : MD) : ∀ (md : MD) (fs : List F) (pre : MD), mdAll = pre ++ md → NoDupNums mdAll →
    (∀ fd ∈ md, fd.ty = .sc (kindOf fd)) → (∀ p ∈ md.zip fs, ShapeOK p.1 p.2 ∧ ValOK p.1 p.2) →
    ∀ r ∈ msgRecs pre.length md fs, r.OK mdAll
  | [], _, _, _, _, _, _ => by simp [msgRecs]
  | _ :: _, [], _, _, _, _, _ => by simp [msgRecs]
  | fd :: md, f :: fs, pre, heq, hnd, hk, hv => by
    intro r hr
    simp only [msgRecs, List.mem_append] at hr
    rcases hr with hr | hr
    · have hfind : findField mdAll fd.num 0 = some (pre.length, fd) := by rw [heq]; exact findField_at pre fd md (heq ▸ hnd)
      exact fieldRecs_ok mdAll pre.length fd f hfind (hk fd (by simp)) (hv (fd, f) (by simp)).1 (hv (fd, f) (by simp)).2 r hr
    · have := msgRecs_ok mdAll md fs (pre ++ [fd]) (by rw [heq]; simp) hnd (fun x hx => hk x (by simp [hx]))
        (fun p hp => hv p (by simp [hp])) r (by simpa using hr)
      exact this

theorem fold_unknown_fs (md : MD) (urs : List Rec) : ∀ (fs : List F) (unk : Bytes),
    ((urs.map WRec.unknown).foldl (WRec.apply md) (fs, unk)) = (fs, unk ++ Csproto.wiresOf urs) := by
  induction urs with
  | nil => intro fs unk; simp [Csproto.wiresOf]
  | cons r urs ih => intro fs unk; simp only [List.map_cons, List.foldl_cons, WRec.apply]; rw [ih]; simp [Csproto.wiresOf_cons]

theorem wiresW_unknown (urs : List Rec) : wiresW (urs.map WRec.unknown) = Csproto.wiresOf urs := by
  induction urs with
  | nil => rfl
  | cons r urs ih => simp [wiresW_cons, Csproto.wiresOf_cons, WRec.wire, ih]

theorem wiresW_append (a b : List WRec) : wiresW (a ++ b) = wiresW a ++ wiresW b := by simp [wiresW]

/-- a message whose encoder calls succeed has no unset required field, so neither has its canonical form -/
theorem canon_complete (S : Schema) : ∀ (md : MD) (fs : List F) (ops : List EncOp), fs.length = md.length →
    opsFields S md fs = .ok ops → requiredMissing md (canonFields md fs) = false
  | [], fs, _, hlen, _ => by
    cases fs <;> simp [requiredMissing, canonFields] at *
  | fd :: md, [], _, hlen, _ => by simp at hlen
  | fd :: md, f :: fs, ops, hlen, ho => by
    simp only [opsFields] at ho
    cases ha : opsField S fd f with
    | ok a =>
      rw [ha] at ho
      cases hb : opsFields S md fs with
      | ok b =>
        have ih := canon_complete S md fs b (by simpa using hlen) hb
        simp only [requiredMissing, canonFields, List.zip_cons_cons, List.any_cons, Bool.or_eq_false_iff] at ih ⊢
        refine ⟨?_, ih⟩
        cases f with
        | unset =>
          simp only [opsField] at ha
          split at ha
          · cases ha
          · rename_i hnr; simp [hnr]
        | one v =>
          simp only [canonField]
          cases hc : fd.card <;> simp
        | many vs => simp [canonField]
      | err => rw [hb] at ho; cases ho
      | panic => rw [hb] at ho; cases ho
    | err => rw [ha] at ho; cases ho
    | panic => rw [ha] at ho; cases ho

/-- **Round trip of a message of scalar fields, with unknown fields, in either decoder mode**:
    `Unmarshal(Marshal(m))` is `m` (values normalised to their field width), presence included, and the
    unknown fields come back byte for byte. -/
theorem roundtrip_flat (S : Schema) (fast : Bool) (md : MD) (fs : List F) (urs : List Rec) (ops : List EncOp)
    (hflat : FlatMD md) (hnd : NoDupNums md) (hlen : fs.length = md.length)
    (hv : ∀ p ∈ md.zip fs, ShapeOK p.1 p.2 ∧ ValOK p.1 p.2)
    (hu : ∀ r ∈ urs, r.OK ∧ findField md r.tag 0 = none)
    (ho : opsFields S md fs = .ok ops) :
    unmarshal S fast md (wiresOf ops ++ Csproto.wiresOf urs) = .ok (canonFields md fs, Csproto.wiresOf urs) := by
  have hk : ∀ fd ∈ md, fd.ty = .sc (kindOf fd) := by
    intro fd hfd
    obtain ⟨⟨k, hk⟩, _⟩ := hflat fd hfd
    simp [kindOf, hk]
  have hops := opsFields_recs S 0 md fs ops (fun fd hfd => (hflat fd hfd).1) ho
  have hbytes : wiresOf ops ++ Csproto.wiresOf urs = wiresW (msgRecs 0 md fs ++ urs.map WRec.unknown) := by
    rw [wiresW_append, wiresW_unknown, wiresW_eq_wiresOf, ← hops]
  have hok : ∀ r ∈ msgRecs 0 md fs ++ urs.map WRec.unknown, r.OK md := by
    intro r hr
    rcases List.mem_append.mp hr with h | h
    · exact msgRecs_ok md md fs [] rfl hnd hk hv r h
    · obtain ⟨u, hum, rfl⟩ := List.mem_map.mp h
      exact hu u hum
  rw [hbytes, unmarshal_records S fast md _ hok, List.foldl_append]
  have hfold := msg_fold md [] md fs [] (fun fd hfd => (hflat fd hfd).2.1) hlen (fun p hp => (hv p hp).1)
  simp only [List.length_nil, List.nil_append] at hfold
  have hinit : initFields md = md.map initField := rfl
  rw [hinit, hfold, fold_unknown_fs]
  simp [canon_complete S md fs ops hlen ho]

end Csproto.Gen
