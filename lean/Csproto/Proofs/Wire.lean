import Csproto.Proofs.Varint
/-
  Helper lemmas: zig-zag, fixed-width little endian, keys.
-/
namespace Csproto

/-! ### zig-zag -/

theorem unzigzag_zigzag (i : Int) : unzigzag (zigzag i) = i := by
  unfold unzigzag zigzag
  by_cases h : 0 ≤ i
  · simp only [h, if_true]
    have h2 : (2 * i).toNat % 2 = 0 := by omega
    simp only [h2, if_true]
    omega
  · simp only [h, if_false]
    have h2 : ¬ ((-2 * i - 1).toNat % 2 = 0) := by omega
    simp only [h2, if_false]
    omega

theorem zigzag_unzigzag (n : Nat) : zigzag (unzigzag n) = n := by
  unfold unzigzag zigzag
  by_cases h : n % 2 = 0
  · simp only [h, if_true]
    have : (0:Int) ≤ ((n / 2 : Nat) : Int) := by omega
    simp only [this, if_true]; omega
  · simp only [h, if_false]
    have : ¬ ((0:Int) ≤ -((n / 2 : Nat) : Int) - 1) := by omega
    simp only [this, if_false]; omega

theorem zigzag_lt_two64 {i : Int} (h : InI64 i) : zigzag i < two64 := by
  unfold InI64 two63 at h; unfold zigzag two64
  split <;> omega

theorem zigzag_lt_two32 {i : Int} (h : InI32 i) : zigzag i < two32 := by
  unfold InI32 two31 at h; unfold zigzag two32
  split <;> omega

theorem decodeZigZag64_enc (i : Int) (h : InI64 i) (rest : Bytes) :
    decodeZigZag64 (encZigZag64 i ++ rest) = .ok (i, (encZigZag64 i).length) := by
  unfold decodeZigZag64 encZigZag64
  rw [decodeVarint_encVarint _ (zigzag_lt_two64 h)]
  have := encVarint_length_pos (zigzag i)
  have hne : ¬ (encVarint (zigzag i)).length = 0 := by omega
  simp [hne, unzigzag_zigzag]

theorem decodeZigZag32_enc (i : Int) (h : InI32 i) (rest : Bytes) :
    decodeZigZag32 (encZigZag32 i ++ rest) = .ok (i, (encZigZag32 i).length) := by
  unfold decodeZigZag32 encZigZag32
  have h32 := zigzag_lt_two32 h
  have h64 : zigzag i < two64 := by unfold two32 at h32; unfold two64; omega
  rw [decodeVarint_encVarint _ h64]
  have := encVarint_length_pos (zigzag i)
  have hne : ¬ (encVarint (zigzag i)).length = 0 := by omega
  simp [hne, Nat.mod_eq_of_lt h32, unzigzag_zigzag]

/-! ### fixed width -/

@[simp] theorem leBytes_length (n v : Nat) : (leBytes n v).length = n := by
  induction n generalizing v with
  | zero => simp [leBytes]
  | succ n ih => simp [leBytes, ih]

theorem fromLE_leBytes (n v : Nat) : fromLE (leBytes n v) = v % 256 ^ n := by
  induction n generalizing v with
  | zero => simp [leBytes, fromLE, Nat.mod_one]
  | succ n ih =>
    simp only [leBytes, fromLE]
    rw [ih, u8_ofNat_toNat (Nat.mod_lt _ (by decide))]
    rw [Nat.pow_succ, Nat.mul_comm (256 ^ n) 256, Nat.mod_mul]

theorem take_append_length {α} (a b : List α) : (a ++ b).take a.length = a := by
  simp

theorem decodeFixed32_enc (v : Nat) (h : v < two32) (rest : Bytes) :
    decodeFixed32 (encFixed32 v ++ rest) = .ok (v, 4) := by
  unfold decodeFixed32 encFixed32
  have hl : ¬ ((leBytes 4 v ++ rest).length < 4) := by simp
  have ht : (leBytes 4 v ++ rest).take 4 = leBytes 4 v := by
    simp
  simp only [hl, if_false, ht, fromLE_leBytes]
  have : v % 256 ^ 4 = v := Nat.mod_eq_of_lt (by unfold two32 at h; omega)
  rw [this]

theorem decodeFixed64_enc (v : Nat) (h : v < two64) (rest : Bytes) :
    decodeFixed64 (encFixed64 v ++ rest) = .ok (v, 8) := by
  unfold decodeFixed64 encFixed64
  have hl : ¬ ((leBytes 8 v ++ rest).length < 8) := by simp
  have ht : (leBytes 8 v ++ rest).take 8 = leBytes 8 v := by
    simp
  simp only [hl, if_false, ht, fromLE_leBytes]
  have : v % 256 ^ 8 = v := Nat.mod_eq_of_lt (by unfold two64 at h; omega)
  rw [this]

/-! ### keys -/

theorem keyOf_eq {tag wt : Nat} (ht : tag ≤ maxTagValue) (hw : wt < 8) : keyOf tag wt = tag * 8 + wt := by
  unfold keyOf
  rw [Nat.shiftLeft_eq]
  have : tag * 2 ^ 3 < two64 := by unfold maxTagValue at ht; unfold two64; omega
  rw [Nat.mod_eq_of_lt this, ← Nat.shiftLeft_eq, ← Nat.shiftLeft_add_eq_or_of_lt (by omega : wt < 2 ^ 3),
    Nat.shiftLeft_eq]

theorem keyOf_lt {tag wt : Nat} (ht : tag ≤ maxTagValue) (hw : wt < 8) : keyOf tag wt < two32 := by
  rw [keyOf_eq ht hw]; unfold maxTagValue at ht; unfold two32; omega

theorem keyOf_shift {tag wt : Nat} (ht : tag ≤ maxTagValue) (hw : wt < 8) :
    keyOf tag wt >>> 3 = tag ∧ keyOf tag wt &&& 7 = wt := by
  rw [keyOf_eq ht hw]
  constructor
  · rw [Nat.shiftRight_eq_div_pow]; omega
  · have : (7:Nat) = 2 ^ 3 - 1 := by decide
    rw [this, Nat.and_two_pow_sub_one_eq_mod]; omega

/-- adding a wire type (< 8) to `8·tag` never changes the number of 7-bit groups -/
theorem sizeOfTagKey_eq_length {tag wt : Nat} (ht : tag ≤ maxTagValue) (hw : wt < 8) :
    sizeOfTagKey tag = (encTag tag wt).length := by
  unfold sizeOfTagKey encTag
  rw [keyOf_eq ht hw, Nat.shiftLeft_eq]
  have : tag * 2 ^ 3 < two64 := by unfold maxTagValue at ht; unfold two64; omega
  rw [Nat.mod_eq_of_lt this, sizeOfVarint_eq_length]
  have key : ∀ n, 1 ≤ n → ((encVarint (tag * 2 ^ 3)).length ≤ n ↔ (encVarint (tag * 8 + wt)).length ≤ n) := by
    intro n hn
    rw [enc_length_le_iff _ _ hn, enc_length_le_iff _ _ hn]
    have e : 7 * n = 3 + (7 * n - 3) := by omega
    rw [e, Nat.pow_add]
    generalize 2 ^ (7 * n - 3) = M
    omega
  apply Nat.le_antisymm
  · exact (key _ (encVarint_length_pos _)).mpr (Nat.le_refl _)
  · exact (key _ (encVarint_length_pos _)).mp (Nat.le_refl _)

end Csproto

namespace Csproto
/-! ### signed/unsigned conversions -/

theorem toU64_lt (i : Int) : toU64 i < two64 := by
  unfold toU64 two64; omega

theorem toI64_toU64 {i : Int} (h : InI64 i) : toI64 (toU64 i) = i := by
  unfold InI64 two63 at h; unfold toI64 toU64 two64 two63
  split <;> omega

theorem InI32.toI64 {i : Int} (h : InI32 i) : InI64 i := by
  unfold InI32 two31 at h; unfold InI64 two63; omega

theorem toI32_toU32 {i : Int} (h : InI32 i) : toI32 (toU32 i) = i := by
  unfold InI32 two31 at h; unfold toI32 toU32 two32 two31
  split <;> omega

theorem toU32_lt (i : Int) : toU32 i < two32 := by
  unfold toU32 two32; omega
end Csproto
