import Csproto.Proofs.GenNestedRoundtrip
import Csproto.Model.GenMap
/-
  Round trip of **map fields** (marshal side), composing with `roundtrip_nested`.

  Marshal-side model (already in `Model/Gen.lean`): a map field is `Card.map` with `ty = .msg e`, `e` the
  synthetic entry type `[⟨1, key kind, always⟩, ⟨2, value type, always⟩]`; its Go value is `F.many es`, one
  `V.msg [.one key, .one value] []` per entry, IN THE ORDER `range` VISITS THEM (arbitrary).  `Size`
  (`sizeMsgList`) adds `SizeOfTagKey(n) + SizeOfVarint(keySize + valueSize) + keySize + valueSize` per entry
  and `MarshalTo` (`opsMsgList`) writes key `n`, that length, field 1, field 2 — both ALWAYS written
  (`Card.always`), a message-typed value nested.  An entry of a message-valued map whose value is a nil pointer
  (`V.msg [.one key, .unset] []`, `nilEntry`) is passed over by both (`if v != nil` / `if v == nil { continue }`):
  it has no record in the tree below, and `canonFs` — the message after the round trip — does not hold it.

  This file: the record tree of such a message (`recsFieldsM`: a map entry is an `NRec.map` record), its
  well-formedness in the sense of `unmarshal_nested` (`recs_okM`), and the round trip
  (`roundtrip_map`): for every value whose maps have pairwise distinct keys, whatever the order of the
  entries, `Unmarshal (Marshal m)` is `canonFs m` — every map field holds exactly the (normalised) entries,
  nothing lost, nothing merged — at any depth (maps inside nested messages, message-valued maps whose
  values contain maps, …), in both decoder modes.
-/
namespace Csproto.Gen
open Csproto Csproto.C01

/-! ### the record tree, with map entries as `NRec.map` records -/

/-- the record of one element of a repeated message field / one entry of a map field -/
def elemRec (idx : Nat) (fd : FD) (i : Nat) (sub : List NRec) : NRec :=
  if fd.card = .map then .map idx fd i sub else .msg idx fd i sub

mutual
/-- the record tree `Marshal` writes for a message value (maps included) -/
def recsFieldsM (S : Schema) : Nat → MD → List F → List NRec
  | base, fd :: md, f :: fs => recsFieldM S base fd f ++ recsFieldsM S (base + 1) md fs
  | _, _, _ => []
def recsFieldM (S : Schema) (idx : Nat) (fd : FD) : F → List NRec
  | .unset => []
  | .one v =>
    match fd.ty with
    | .sc _ => (fieldRecs idx fd (.one v)).map NRec.flat
    | .msg i => [.msg idx fd i (recsVM S (S.md i) v)]
  | .many vs =>
    match fd.ty with
    | .sc _ => (fieldRecs idx fd (.many vs)).map NRec.flat
    | .msg i => recsListM S idx fd i vs
def recsVM (S : Schema) (md : MD) : V → List NRec
  | .msg fs _ => recsFieldsM S 0 md fs
  | _ => []
def recsListM (S : Schema) (idx : Nat) (fd : FD) (i : Nat) : List V → List NRec
  | [] => []
  | v :: vs =>
    if fd.card.isMap && nilEntry (S.md i) v then recsListM S idx fd i vs
    else elemRec idx fd i (recsVM S (S.md i) v) :: recsListM S idx fd i vs
end

theorem elemRec_of_not_map {fd : FD} (h : fd.card ≠ .map) (idx i : Nat) (sub : List NRec) :
    elemRec idx fd i sub = .msg idx fd i sub := by simp [elemRec, h]
theorem elemRec_of_map {fd : FD} (h : fd.card = .map) (idx i : Nat) (sub : List NRec) :
    elemRec idx fd i sub = .map idx fd i sub := by simp [elemRec, h]

theorem elemRec_wire (idx : Nat) (fd : FD) (i : Nat) (sub : List NRec) :
    (elemRec idx fd i sub).wire = encTag fd.num wtLen ++ encVarint (wiresN sub).length ++ wiresN sub := by
  unfold elemRec; split <;> simp [NRec.wire]

mutual
/-- same bytes as the tree of `roundtrip_nested` (a map record and a message record have the same wire form) -/
theorem wires_recsFieldsM (S : Schema) : ∀ (base : Nat) (md : MD) (fs : List F),
    wiresN (recsFieldsM S base md fs) = wiresN (recsFields S base md fs)
  | _, [], _ => by simp [recsFieldsM, recsFields]
  | _, _ :: _, [] => by simp [recsFieldsM, recsFields]
  | base, fd :: md, f :: fs => by
    simp only [recsFieldsM, recsFields, wiresN_append, wires_recsFieldM S base fd f,
      wires_recsFieldsM S (base + 1) md fs]
theorem wires_recsFieldM (S : Schema) (idx : Nat) (fd : FD) : ∀ (f : F),
    wiresN (recsFieldM S idx fd f) = wiresN (recsField S idx fd f)
  | .unset => by simp [recsFieldM, recsField]
  | .one v => by
    cases hty : fd.ty with
    | sc k => simp [recsFieldM, recsField, hty]
    | msg i => simp [recsFieldM, recsField, hty, wiresN, NRec.wire, wires_recsVM S (S.md i) v]
  | .many vs => by
    cases hty : fd.ty with
    | sc k => simp [recsFieldM, recsField, hty]
    | msg i => simp only [recsFieldM, recsField, hty]; exact wires_recsListM S idx fd i vs
theorem wires_recsVM (S : Schema) (md : MD) : ∀ (v : V), wiresN (recsVM S md v) = wiresN (recsV S md v)
  | .msg fs _ => by simp only [recsVM, recsV]; exact wires_recsFieldsM S 0 md fs
  | .num _ => by simp [recsVM, recsV]
  | .bs _ => by simp [recsVM, recsV]
theorem wires_recsListM (S : Schema) (idx : Nat) (fd : FD) (i : Nat) : ∀ (vs : List V),
    wiresN (recsListM S idx fd i vs) = wiresN (recsList S idx fd i vs)
  | [] => by simp [recsListM, recsList]
  | v :: vs => by
    by_cases hn : (fd.card.isMap && nilEntry (S.md i) v) = true
    · simp only [recsListM, recsList, if_pos hn, wires_recsListM S idx fd i vs]
    · simp only [recsListM, recsList, if_neg hn, wiresN_cons, elemRec_wire, NRec.wire, wires_recsVM S (S.md i) v,
        wires_recsListM S idx fd i vs]
end

/-- **what `Marshal` writes is the record tree with map-entry records** -/
theorem ops_recsFieldsM (S : Schema) (md : MD) (fs : List F) (ops : List EncOp)
    (hok : OKFields S md fs) (hcl : CleanFs fs) (ho : opsFields S md fs = .ok ops) :
    wiresOf ops = wiresN (recsFieldsM S 0 md fs) := by
  rw [wires_recsFieldsM, ops_recsFields S 0 md fs ops hok hcl ho]

/-! ### well-formedness of schema and value -/

/-- distinct field numbers everywhere; a map field refers to an entry type -/
def SchemaOKM (S : Schema) : Prop :=
  ∀ i, NoDupNums (S.md i) ∧ ∀ fd ∈ S.md i, fd.card = .map → ∃ e kk vty, fd.ty = .msg e ∧ S.md e = entryMD kk vty

/-- the kind of the key of an entry type -/
def keyKind (emd : MD) : SK :=
  match emd with
  | fd :: _ => kindOf fd
  | [] => .bool

/-- the key of an entry as the Go map sees it: normalised to the key type's width -/
def canonKey (emd : MD) (e : V) : V := decodedV (keyKind emd) (entryKey e)

/-- a Go map has pairwise distinct keys (in whatever order `range` delivers the entries) -/
def KeysDistinct (emd : MD) (es : List V) : Prop :=
  es.Pairwise fun a b => keyEq (canonKey emd a) (canonKey emd b) = false

/-- an entry has a key and a value -/
def EntrySet : V → Prop
  | .msg fs _ => ∀ f ∈ fs, f ≠ F.unset
  | _ => False

/-- an entry as a Go map holds it: key and value, or — in a message-valued map — key and nil pointer (which
    the generated code does not write) -/
def EntryOK (emd : MD) (e : V) : Prop := EntrySet e ∨ nilEntry emd e = true

/-- the entries the generated code writes: all of a repeated field (`sk = false`), the non-nil-valued ones of a
    map field (`sk = true`) -/
def liveVs (md : MD) (sk : Bool) (vs : List V) : List V := vs.filter fun v => !(sk && nilEntry md v)

theorem liveVs_false (md : MD) (vs : List V) : liveVs md false vs = vs := by simp [liveVs]

/-- without nil-valued entries nothing is dropped -/
theorem liveVs_of_set (md : MD) (sk : Bool) (vs : List V) (h : ∀ e ∈ vs, EntrySet e) : liveVs md sk vs = vs := by
  unfold liveVs
  rw [List.filter_eq_self]
  intro e he
  have hs := h e he
  cases e with
  | msg fs u =>
    have : nilEntry md (.msg fs u) = false := by
      simp only [nilEntry, Bool.and_eq_false_iff]
      right
      match fs, hs with
      | [], _ => rfl
      | [_], _ => rfl
      | _ :: .unset :: _, hs => exact absurd rfl (hs .unset (by simp))
      | _ :: .one _ :: _, _ => rfl
      | _ :: .many _ :: _, _ => rfl
    simp [this]
  | num _ => simp [EntrySet] at hs
  | bs _ => simp [EntrySet] at hs

mutual
def WFsM (S : Schema) : MD → List F → Prop
  | fd :: md, f :: fs => WFfM S fd f ∧ WFsM S md fs
  | [], [] => True
  | _, _ => False
def WFfM (S : Schema) (fd : FD) : F → Prop
  | .unset => True
  | .one v =>
    match fd.ty with
    | .sc _ => ShapeOK fd (.one v) ∧ ValOK fd (.one v) ∧ CleanV v
    | .msg i => isRep fd.card = false ∧ fd.card ≠ .map ∧ ValidTag fd.num ∧ WFvM S (S.md i) v
  | .many vs =>
    match fd.ty with
    | .sc _ => ShapeOK fd (.many vs) ∧ ValOK fd (.many vs) ∧ CleanVs vs
    | .msg i =>
      (fd.card = .list ∨ (fd.card = .map ∧ (∀ e ∈ vs, EntryOK (S.md i) e) ∧ KeysDistinct (S.md i) vs)) ∧
        ValidTag fd.num ∧ WFvsM S (S.md i) vs
def WFvM (S : Schema) (md : MD) : V → Prop
  | .msg fs unk => unk = [] ∧ WFsM S md fs ∧ (wiresN (recsFieldsM S 0 md fs)).length ≤ maxFieldLen ∧ Excl md fs
  | _ => False
def WFvsM (S : Schema) (md : MD) : List V → Prop
  | [] => True
  | v :: vs => WFvM S md v ∧ WFvsM S md vs
end

theorem recVM_len (S : Schema) (md : MD) (v : V) (h : WFvM S md v) : (wiresN (recsVM S md v)).length ≤ maxFieldLen := by
  cases v with
  | msg fs unk => simp only [WFvM] at h; simpa [recsVM] using h.2.2.1
  | num _ => simp [WFvM] at h
  | bs _ => simp [WFvM] at h

theorem OKsE_append (S : Schema) (emd : MD) (a b : List NRec) : OKsE S emd (a ++ b) ↔ OKsE S emd a ∧ OKsE S emd b := by
  induction a with
  | nil => simp [OKsE]
  | cons r a ih => simp [OKsE, ih, and_assoc]

theorem findField_entry_key (kk : SK) (vty : Ty) :
    findField (entryMD kk vty) 1 0 = some (0, ⟨1, .sc kk, .always⟩) := by simp [entryMD, findField]
theorem findField_entry_val (kk : SK) (vty : Ty) :
    findField (entryMD kk vty) 2 0 = some (1, ⟨2, vty, .always⟩) := by simp [entryMD, findField]

/-- the key (or a scalar value) of an entry is one well-formed entry record -/
theorem recEsc_okM (S : Schema) (emd : MD) (idx : Nat) (fd : FD) (k : SK) (hty : fd.ty = .sc k) (hc : fd.card = .always)
    (hfind : findField emd fd.num 0 = some (idx, fd)) (f : F) (hwf : WFfM S fd f) :
    OKsE S emd (recsFieldM S idx fd f) := by
  cases f with
  | unset => simp [recsFieldM, OKsE]
  | one v =>
    simp only [WFfM, hty] at hwf
    obtain ⟨_, ⟨htag, hval⟩, _⟩ := hwf
    simp only [recsFieldM, hty, fieldRecs, hc, List.map_cons, List.map_nil, OKsE, NRec.OKE, flatOKE, and_true]
    exact ⟨hfind, by simp [kindOf, hty], htag, hval, by simp [isRep]⟩
  | many vs =>
    simp only [WFfM, hty] at hwf
    have := hwf.1.1
    simp [hc, isRep] at this

mutual
/-- the record tree of a well-formed value is well formed (map entries: `NRec.map` records whose payload
    is a sequence of well-formed entry records) -/
theorem recs_okM (S : Schema) (hS : SchemaOKM S) (mdAll : MD) (hnd : NoDupNums mdAll)
    (hmap : ∀ fd ∈ mdAll, fd.card = .map → ∃ e kk vty, fd.ty = .msg e ∧ S.md e = entryMD kk vty) :
    ∀ (md : MD) (fs : List F) (pre : MD), mdAll = pre ++ md →
    WFsM S md fs → OKs S mdAll (recsFieldsM S pre.length md fs)
  | [], [], _, _, _ => by simp [recsFieldsM, OKs]
  | [], _ :: _, _, _, h => by simp [WFsM] at h
  | _ :: _, [], _, _, h => by simp [WFsM] at h
  | fd :: md, f :: fs, pre, heq, hwf => by
    simp only [WFsM] at hwf
    have hfind : findField mdAll fd.num 0 = some (pre.length, fd) := by rw [heq]; exact findField_at pre fd md (heq ▸ hnd)
    have hmem : fd ∈ mdAll := by rw [heq]; simp
    simp only [recsFieldsM, OKs_append]
    refine ⟨recField_okM S hS mdAll fd pre.length hfind (hmap fd hmem) f hwf.1, ?_⟩
    have := recs_okM S hS mdAll hnd hmap md fs (pre ++ [fd]) (by rw [heq]; simp) hwf.2
    simpa using this
theorem recField_okM (S : Schema) (hS : SchemaOKM S) (mdAll : MD) (fd : FD) (idx : Nat)
    (hfind : findField mdAll fd.num 0 = some (idx, fd))
    (hmap : fd.card = .map → ∃ e kk vty, fd.ty = .msg e ∧ S.md e = entryMD kk vty) : ∀ (f : F), WFfM S fd f →
    OKs S mdAll (recsFieldM S idx fd f)
  | .unset, _ => by simp [recsFieldM, OKs]
  | .one v, hwf => by
    simp only [WFfM] at hwf
    cases hty : fd.ty with
    | sc k =>
      simp only [hty] at hwf
      simp only [recsFieldM, hty]
      exact OKs_flat S mdAll _ (fieldRecs_ok mdAll idx fd (.one v) hfind (scalar_kind fd k hty) hwf.1 hwf.2.1)
    | msg i =>
      simp only [hty] at hwf
      obtain ⟨_, hnm, htag, hv⟩ := hwf
      simp only [recsFieldM, hty, OKs, NRec.OK, and_true]
      exact ⟨hfind, trivial, htag, hnm, recVM_len S (S.md i) v hv, recV_okM S hS (S.md i) v hv ⟨i, rfl⟩⟩
  | .many vs, hwf => by
    simp only [WFfM] at hwf
    cases hty : fd.ty with
    | sc k =>
      simp only [hty] at hwf
      simp only [recsFieldM, hty]
      exact OKs_flat S mdAll _ (fieldRecs_ok mdAll idx fd (.many vs) hfind (scalar_kind fd k hty) hwf.1 hwf.2.1)
    | msg i =>
      simp only [hty] at hwf
      obtain ⟨hc, htag, hvs⟩ := hwf
      simp only [recsFieldM, hty]
      rcases hc with hl | ⟨hm, _, _⟩
      · exact recList_okM S hS mdAll fd idx i hfind hty htag hl vs hvs
      · obtain ⟨e, kk, vty, hte, hemd⟩ := hmap hm
        have hie : i = e := by rw [hty] at hte; exact Ty.msg.inj hte
        subst hie
        exact recMap_okM S hS mdAll fd idx i hfind hty htag hm kk vty hemd vs hvs
theorem recV_okM (S : Schema) (hS : SchemaOKM S) (md : MD) : ∀ (v : V), WFvM S md v →
    (∃ i, md = S.md i) → OKs S md (recsVM S md v)
  | .msg fs unk, hwf, ⟨i, hi⟩ => by
    simp only [WFvM] at hwf
    simp only [recsVM]
    have hs := hS i
    rw [← hi] at hs
    have := recs_okM S hS md hs.1 hs.2 md fs [] rfl hwf.2.1
    simpa using this
  | .num _, hwf, _ => by simp [WFvM] at hwf
  | .bs _, hwf, _ => by simp [WFvM] at hwf
theorem recList_okM (S : Schema) (hS : SchemaOKM S) (mdAll : MD) (fd : FD) (idx i : Nat)
    (hfind : findField mdAll fd.num 0 = some (idx, fd)) (hty : fd.ty = .msg i) (htag : ValidTag fd.num)
    (hl : fd.card = .list) : ∀ (vs : List V), WFvsM S (S.md i) vs → OKs S mdAll (recsListM S idx fd i vs)
  | [], _ => by simp [recsListM, OKs]
  | v :: vs, hwf => by
    simp only [WFvsM] at hwf
    have hnm : fd.card ≠ .map := by simp [hl]
    simp only [recsListM, isMap_of_ne hnm, Bool.false_and, Bool.false_eq_true, elemRec, hnm, if_false, OKs, NRec.OK]
    exact ⟨⟨hfind, hty, htag, hnm, recVM_len S (S.md i) v hwf.1, recV_okM S hS (S.md i) v hwf.1 ⟨i, rfl⟩⟩,
      recList_okM S hS mdAll fd idx i hfind hty htag hl vs hwf.2⟩
/-- the entries of a map field -/
theorem recMap_okM (S : Schema) (hS : SchemaOKM S) (mdAll : MD) (fd : FD) (idx i : Nat)
    (hfind : findField mdAll fd.num 0 = some (idx, fd)) (hty : fd.ty = .msg i) (htag : ValidTag fd.num)
    (hm : fd.card = .map) (kk : SK) (vty : Ty) (hemd : S.md i = entryMD kk vty) :
    ∀ (vs : List V), WFvsM S (S.md i) vs → OKs S mdAll (recsListM S idx fd i vs)
  | [], _ => by simp [recsListM, OKs]
  | v :: vs, hwf => by
    simp only [WFvsM] at hwf
    by_cases hn : (fd.card.isMap && nilEntry (S.md i) v) = true
    · simp only [recsListM, if_pos hn]
      exact recMap_okM S hS mdAll fd idx i hfind hty htag hm kk vty hemd vs hwf.2
    simp only [recsListM, if_neg hn]
    simp only [elemRec, hm, if_true, OKs, NRec.OK]
    refine ⟨⟨hfind, hty, htag, trivial, recVM_len S (S.md i) v hwf.1, ?_⟩,
      recMap_okM S hS mdAll fd idx i hfind hty htag hm kk vty hemd vs hwf.2⟩
    have h1 := hwf.1
    rw [hemd] at h1 ⊢
    exact recE_okM S hS kk vty v h1
/-- one entry: its payload is a sequence of well-formed entry records -/
theorem recE_okM (S : Schema) (hS : SchemaOKM S) (kk : SK) (vty : Ty) : ∀ (e : V), WFvM S (entryMD kk vty) e →
    OKsE S (entryMD kk vty) (recsVM S (entryMD kk vty) e)
  | .msg fs unk, hwf => by
    simp only [WFvM] at hwf
    simp only [recsVM]
    exact recEs_okM S hS kk vty fs hwf.2.1
  | .num _, hwf => by simp [WFvM] at hwf
  | .bs _, hwf => by simp [WFvM] at hwf
theorem recEs_okM (S : Schema) (hS : SchemaOKM S) (kk : SK) (vty : Ty) : ∀ (fs : List F), WFsM S (entryMD kk vty) fs →
    OKsE S (entryMD kk vty) (recsFieldsM S 0 (entryMD kk vty) fs)
  | [], h => by simp [entryMD, WFsM] at h
  | [_], h => by simp [entryMD, WFsM] at h
  | _ :: _ :: _ :: _, h => by simp [entryMD, WFsM] at h
  | [fk, fv], h => by
    have h' : WFfM S ⟨1, .sc kk, .always⟩ fk ∧ WFfM S ⟨2, vty, .always⟩ fv := by
      simpa [entryMD, WFsM] using h
    have e : recsFieldsM S 0 (entryMD kk vty) [fk, fv]
        = recsFieldM S 0 ⟨1, .sc kk, .always⟩ fk ++ recsFieldM S 1 ⟨2, vty, .always⟩ fv := by
      simp [entryMD, recsFieldsM]
    rw [e, OKsE_append]
    exact ⟨recEsc_okM S (entryMD kk vty) 0 ⟨1, .sc kk, .always⟩ kk rfl rfl (findField_entry_key kk vty) fk h'.1,
      recEv_okM S hS kk vty fv h'.2⟩
/-- the value of an entry: a scalar record, or a message record whose payload is a well-formed tree -/
theorem recEv_okM (S : Schema) (hS : SchemaOKM S) (kk : SK) (vty : Ty) : ∀ (f : F), WFfM S ⟨2, vty, .always⟩ f →
    OKsE S (entryMD kk vty) (recsFieldM S 1 ⟨2, vty, .always⟩ f)
  | .unset, _ => by simp [recsFieldM, OKsE]
  | .one v, hwf => by
    cases vty with
    | sc k => exact recEsc_okM S (entryMD kk (.sc k)) 1 ⟨2, .sc k, .always⟩ k rfl rfl (findField_entry_val kk (.sc k)) (.one v) hwf
    | msg j =>
      simp only [WFfM] at hwf
      obtain ⟨_, _, htag, hv⟩ := hwf
      simp only [recsFieldM, OKsE, NRec.OKE, and_true]
      exact ⟨findField_entry_val kk (.msg j), trivial, htag, by simp, by simp, recVM_len S (S.md j) v hv,
        recV_okM S hS (S.md j) v hv ⟨j, rfl⟩⟩
  | .many vs, hwf => by
    cases vty with
    | sc k => exact recEsc_okM S (entryMD kk (.sc k)) 1 ⟨2, .sc k, .always⟩ k rfl rfl (findField_entry_val kk (.sc k)) (.many vs) hwf
    | msg j =>
      simp only [WFfM] at hwf
      obtain ⟨hc, _, _⟩ := hwf
      simp at hc
end

/-! ### folding the record tree gives the canonical message -/

/-- `m[k] = v` for a key the map does not hold yet: a new entry -/
theorem mapInsert_fresh (e : V) : ∀ (acc : List V), (∀ x ∈ acc, keyEq (entryKey x) (entryKey e) = false) →
    mapInsert e acc = acc ++ [e]
  | [], _ => rfl
  | x :: xs, h => by
    have hx := h x (by simp)
    simp only [mapInsert, hx, Bool.false_eq_true, if_false, List.cons_append]
    rw [mapInsert_fresh e xs (fun y hy => h y (by simp [hy]))]

theorem foldE_append (S : Schema) (emd : MD) : ∀ (a b : List NRec) (efs efs' : List F),
    foldE S emd a efs = .ok efs' → foldE S emd (a ++ b) efs = foldE S emd b efs'
  | [], b, efs, efs', h => by simp [foldE] at h; subst h; rfl
  | r :: a, b, efs, efs', h => by
    simp only [List.cons_append, foldE] at h ⊢
    cases hr : r.applyE S efs with
    | ok s1 => rw [hr] at h; simp only [] at h ⊢; exact foldE_append S emd a b s1 efs' h
    | err => rw [hr] at h; cases h
    | panic => rw [hr] at h; cases h

/-- a repeated / map field that writes nothing (it is empty, or a map all of whose values are nil pointers) reads
    back empty -/
theorem recsListM_nil_canon (S : Schema) (idx : Nat) (fd : FD) (i : Nat) : ∀ (vs : List V),
    recsListM S idx fd i vs = [] → canonVs S (S.md i) fd.card.isMap vs = []
  | [], _ => rfl
  | v :: vs, h => by
    by_cases hn : (fd.card.isMap && nilEntry (S.md i) v) = true
    · simp only [recsListM, if_pos hn] at h
      simp only [canonVs, if_pos hn]
      exact recsListM_nil_canon S idx fd i vs h
    · simp only [recsListM, if_neg hn] at h
      cases h

/-- a field that writes nothing reads back as the reset field -/
theorem recsFieldM_nil_canon (S : Schema) (idx : Nat) (fd : FD) (f : F) (hwf : WFfM S fd f)
    (h : recsFieldM S idx fd f = []) : canonF S fd f = initField fd := by
  cases f with
  | unset => rfl
  | one v =>
    simp only [WFfM] at hwf
    cases hty : fd.ty with
    | sc k =>
      simp only [hty] at hwf
      simp only [recsFieldM, hty, List.map_eq_nil_iff] at h
      simp only [canonF, hty, canonField]
      cases hc : fd.card
      case implicit =>
        simp only [fieldRecs, hc] at h ⊢
        by_cases hp : implicitPresent (kindOf fd) v = true
        · simp [hp] at h
        · simp [hp]
      all_goals simp [fieldRecs, hc] at h
    | msg i => simp [recsFieldM, hty] at h
  | many vs =>
    simp only [WFfM] at hwf
    cases hty : fd.ty with
    | sc k =>
      simp only [hty] at hwf
      obtain ⟨⟨hrep, _⟩, _⟩ := hwf
      simp only [recsFieldM, hty, List.map_eq_nil_iff] at h
      simp only [canonF, hty, canonField]
      have hvs : vs = [] := by
        cases hc : fd.card <;> simp only [fieldRecs, hc] at h <;>
          first
            | (simpa using h)
            | (split at h
               · rename_i he; exact List.isEmpty_iff.mp he
               · simp at h)
      subst hvs
      simp [initField_rep fd hrep]
    | msg i =>
      simp only [hty] at hwf
      simp only [recsFieldM, hty] at h
      have hcv := recsListM_nil_canon S idx fd i vs h
      rcases hwf.1 with hl | ⟨hm, _, _⟩
      · simp only [canonF, hty, hcv]; simp [initField, hl]
      · simp only [canonF, hty, hcv]; simp [initField, hm]

theorem recsFieldsM_nil_canon (S : Schema) : ∀ (base : Nat) (md : MD) (fs : List F), WFsM S md fs →
    recsFieldsM S base md fs = [] → canonFs S md fs = md.map initField
  | _, [], [], _, _ => by simp [canonFs]
  | _, [], _ :: _, h, _ => by simp [WFsM] at h
  | _, _ :: _, [], h, _ => by simp [WFsM] at h
  | base, fd :: md, f :: fs, hwf, h => by
    simp only [WFsM] at hwf
    simp only [recsFieldsM, List.append_eq_nil_iff] at h
    simp only [canonFs, List.map_cons, recsFieldM_nil_canon S base fd f hwf.1 h.1,
      recsFieldsM_nil_canon S (base + 1) md fs hwf.2 h.2]

/-- a message that writes nothing and marshals without error declares no required field -/
theorem recsFieldsM_nil_noreq (S : Schema) : ∀ (base : Nat) (md : MD) (fs : List F) (ops : List EncOp), WFsM S md fs →
    recsFieldsM S base md fs = [] → opsFields S md fs = .ok ops → hasRequired md = false
  | _, [], [], _, _, _, _ => by simp [hasRequired]
  | _, [], _ :: _, _, h, _, _ => by simp [WFsM] at h
  | _, _ :: _, [], _, h, _, _ => by simp [WFsM] at h
  | base, fd :: md, f :: fs, ops, hwf, h, ho => by
    simp only [WFsM] at hwf
    simp only [recsFieldsM, List.append_eq_nil_iff] at h
    obtain ⟨⟨a, ha⟩, ⟨b, hb⟩⟩ := opsFields_cons_ok S fd md f fs ops ho
    have ih := recsFieldsM_nil_noreq S (base + 1) md fs b hwf.2 h.2 hb
    simp only [hasRequired, List.any_cons, Bool.or_eq_false_iff, decide_eq_false_iff_not] at ih ⊢
    refine ⟨?_, by simpa [hasRequired] using ih⟩
    intro hreq
    cases f with
    | unset => simp [opsField, hreq] at ha
    | one v =>
      cases hty : fd.ty with
      | sc k => simp [recsFieldM, hty, fieldRecs, hreq] at h
      | msg i => simp [recsFieldM, hty] at h
    | many vs =>
      have hw := hwf.1
      simp only [WFfM] at hw
      cases hty : fd.ty with
      | sc k => simp only [hty] at hw; have := hw.1.1; simp [isRep, hreq] at this
      | msg i => simp only [hty] at hw; simp [hreq] at hw

theorem canon_completeM (S : Schema) : ∀ (md : MD) (fs : List F) (ops : List EncOp), WFsM S md fs →
    opsFields S md fs = .ok ops → requiredMissing md (canonFs S md fs) = false
  | [], [], _, _, _ => by simp [requiredMissing, canonFs]
  | [], _ :: _, _, h, _ => by simp [WFsM] at h
  | _ :: _, [], _, h, _ => by simp [WFsM] at h
  | fd :: md, f :: fs, ops, hwf, ho => by
    simp only [WFsM] at hwf
    obtain ⟨⟨a, ha⟩, ⟨b, hb⟩⟩ := opsFields_cons_ok S fd md f fs ops ho
    have ih := canon_completeM S md fs b hwf.2 hb
    simp only [requiredMissing, canonFs, List.zip_cons_cons, List.any_cons, Bool.or_eq_false_iff] at ih ⊢
    refine ⟨?_, ih⟩
    cases f with
    | unset =>
      simp only [opsField] at ha
      split at ha
      · cases ha
      · rename_i hnr; simp [hnr]
    | one v =>
      cases hty : fd.ty with
      | sc k => simp only [canonF, hty, canonField]; cases hc : fd.card <;> simp
      | msg i => simp [canonF, hty]
    | many vs =>
      cases hty : fd.ty with
      | sc k => simp [canonF, hty, canonField]
      | msg i => simp [canonF, hty]

theorem wfsM_len (S : Schema) : ∀ (md : MD) (fs : List F), WFsM S md fs → md.length = fs.length
  | [], [], _ => rfl
  | [], _ :: _, h => by simp [WFsM] at h
  | _ :: _, [], h => by simp [WFsM] at h
  | _ :: md, _ :: fs, h => by simp only [WFsM] at h; simp [wfsM_len S md fs h.2]

/-- the key, or a scalar value, of an entry: one record, which sets its field -/
theorem fold_entryScM (S : Schema) (emd : MD) (idx : Nat) (fd : FD) (k : SK) (hty : fd.ty = .sc k) (hc : fd.card = .always)
    (f : F) (hne : f ≠ .unset) (hwf : WFfM S fd f) (efs : List F) :
    ∃ v, f = .one v ∧ canonF S fd f = .one (decodedV k v) ∧
      foldE S emd (recsFieldM S idx fd f) efs = .ok (efs.set idx (.one (decodedV k v))) := by
  cases f with
  | unset => exact absurd rfl hne
  | one v =>
    refine ⟨v, rfl, ?_, ?_⟩
    · simp [canonF, hty, canonField, hc, kindOf]
    · simp [recsFieldM, hty, fieldRecs, hc, foldE, NRec.applyE, flatE, kindOf]
  | many vs =>
    simp only [WFfM, hty] at hwf
    have := hwf.1.1
    simp [hc, isRep] at this

theorem entryKey_canon (kk : SK) (vty : Ty) (k : V) (f : F) (unk : Bytes) :
    canonKey (entryMD kk vty) (.msg [.one k, f] unk) = decodedV kk k := by
  simp [canonKey, keyKind, entryMD, kindOf, entryKey]

/-- what the schema says about a map field -/
abbrev MapRef (S : Schema) (fd : FD) : Prop :=
  fd.card = .map → ∃ e kk vty, fd.ty = .msg e ∧ S.md e = entryMD kk vty

mutual
/-- folding the records of the remaining fields from the reset state of those fields -/
theorem fold_fieldsM (S : Schema) (hS : SchemaOKM S) (mdAll : MD) (fsAll : List F) (unk : Bytes)
    (hlenAll : mdAll.length = fsAll.length) (hex : Excl mdAll fsAll) (hmapAll : ∀ fd ∈ mdAll, MapRef S fd) :
    ∀ (md : MD) (fs : List F) (preMd : MD) (preFs : List F) (ops : List EncOp),
    mdAll = preMd ++ md → fsAll = preFs ++ fs → preMd.length = preFs.length →
    WFsM S md fs → opsFields S md fs = .ok ops →
    foldN S mdAll (recsFieldsM S preMd.length md fs) (canonFs S preMd preFs ++ md.map initField, unk)
      = .ok (canonFs S preMd preFs ++ canonFs S md fs, unk)
  | [], [], _, _, _, _, _, _, _, _ => by simp [recsFieldsM, foldN, canonFs]
  | [], _ :: _, _, _, _, _, _, _, h, _ => by simp [WFsM] at h
  | _ :: _, [], _, _, _, _, _, _, h, _ => by simp [WFsM] at h
  | fd :: md, f :: fs, preMd, preFs, ops, hmd, hfs, hpl, hwf, ho => by
    simp only [WFsM] at hwf
    obtain ⟨⟨a, ha⟩, ⟨b, hb⟩⟩ := opsFields_cons_ok S fd md f fs ops ho
    have hlen2 := wfsM_len S md fs hwf.2
    have hcl := canonFs_length S preMd preFs hpl
    have hcur : (canonFs S preMd preFs ++ initField fd :: md.map initField).getD preMd.length .unset = initField fd := by
      rw [← hcl]; simp [List.getD_eq_getElem?_getD]
    have hap : f ≠ .unset → AssignPlain mdAll fd preMd.length (canonFs S preMd preFs ++ initField fd :: md.map initField) := by
      intro hset
      apply AssignPlain.of_clean
      · rw [hmd]; simp [hcl]
      · intro g hg j fdj hj hgj hne
        have hidx : mdAll[preMd.length]? = some fd := by rw [hmd]; simp
        have hfidx : fsAll[preMd.length]? = some f := by rw [hfs, hpl]; simp
        have hun : fsAll[j]? = some F.unset := by
          rcases hex preMd.length j fd fdj g hidx hj hg hgj (fun e => hne e.symm) with h | h
          · rw [hfidx] at h; exact absurd (Option.some.inj h) hset
          · exact h
        by_cases hlt : j < preMd.length
        · rw [List.getElem?_append_left (by rw [hcl]; exact hlt)]
          have h1 : preMd[j]? = some fdj := by rw [hmd, List.getElem?_append_left hlt] at hj; exact hj
          have h2 : preFs[j]? = some F.unset := by rw [hfs, List.getElem?_append_left (by omega)] at hun; exact hun
          rw [canonFs_get S preMd preFs j fdj .unset hpl h1 h2, canonF_unset, initField_oneof fdj g hgj]
        · have hgt : preMd.length < j := by omega
          rw [List.getElem?_append_right (by rw [hcl]; omega), hcl]
          rw [hmd, List.getElem?_append_right (by omega)] at hj
          obtain ⟨k, hk⟩ : ∃ k, j - preMd.length = k + 1 := ⟨j - preMd.length - 1, by omega⟩
          rw [hk] at hj ⊢
          simp only [List.getElem?_cons_succ, List.getElem?_map] at hj ⊢
          rw [hj]; simp [initField_oneof fdj g hgj]
    have hmem : fd ∈ mdAll := by rw [hmd]; simp
    have h1 := fold_fieldM S hS mdAll preMd.length fd (hmapAll fd hmem) f a
      (canonFs S preMd preFs ++ initField fd :: md.map initField) unk hap (by simp [hcl]) hcur hwf.1 ha
    rw [← hcl, set_append_here, hcl] at h1
    simp only [recsFieldsM, List.map_cons, canonFs]
    rw [foldN_append S mdAll _ _ _ _ h1]
    have := fold_fieldsM S hS mdAll fsAll unk hlenAll hex hmapAll md fs (preMd ++ [fd]) (preFs ++ [f]) b
      (by rw [hmd]; simp) (by rw [hfs]; simp) (by simp [hpl]) hwf.2 hb
    rw [canonFs_snoc S fd f preMd preFs hpl] at this
    simpa using this
termination_by structural _ fs => fs

/-- folding the records of one field, starting from the freshly reset field -/
theorem fold_fieldM (S : Schema) (hS : SchemaOKM S) (mdAll : MD) (idx : Nat) (fd : FD) (hmap : MapRef S fd) :
    ∀ (f : F) (ops : List EncOp) (fs : List F) (unk : Bytes), (f ≠ .unset → AssignPlain mdAll fd idx fs) →
    idx < fs.length → fs.getD idx .unset = initField fd →
    WFfM S fd f → opsField S fd f = .ok ops →
    foldN S mdAll (recsFieldM S idx fd f) (fs, unk) = .ok (fs.set idx (canonF S fd f), unk)
  | .unset, _, fs, unk, _, hlt, hcur, _, _ => by
    simp [recsFieldM, foldN, canonF, set_getD_self fs idx _ hlt hcur]
  | .one v, ops, fs, unk, hap', hlt, hcur, hwf, ho => by
    have hap := hap' (by simp)
    simp only [WFfM] at hwf
    cases hty : fd.ty with
    | sc k =>
      simp only [hty] at hwf
      simp only [recsFieldM, hty, canonF, foldN_flat]
      rw [field_fold' mdAll idx fd (.one v) fs unk hap hwf.1 hlt hcur]
    | msg i =>
      simp only [hty] at hwf
      obtain ⟨hrep, _, _, hv⟩ := hwf
      simp only [opsField, hty] at ho
      cases hb : bytesMsgV S (S.md i) v with
      | ok body =>
        obtain ⟨cfs, hcv, hd⟩ := fold_msgVM S hS (S.md i) ⟨i, rfl⟩ v body hv hb
        simp only [recsFieldM, hty, foldN, NRec.applyN_msg, hd, canonF, hcv, hap.self]
        cases hc : fd.card <;> simp [hc, isRep] at hrep ⊢
      | err => rw [hb] at ho; cases ho
      | panic => rw [hb] at ho; cases ho
  | .many vs, ops, fs, unk, hap', hlt, hcur, hwf, ho => by
    have hap := hap' (by simp)
    simp only [WFfM] at hwf
    cases hty : fd.ty with
    | sc k =>
      simp only [hty] at hwf
      simp only [recsFieldM, hty, canonF, foldN_flat]
      rw [field_fold' mdAll idx fd (.many vs) fs unk hap hwf.1 hlt hcur]
    | msg i =>
      simp only [hty] at hwf
      obtain ⟨hc, _, hvs⟩ := hwf
      simp only [opsField, hty] at ho
      rcases hc with hlist | ⟨hm, hset, hdist⟩
      · have hinit : initField fd = .many [] := by simp [initField, hlist]
        rw [hinit] at hcur
        rw [isMap_list hlist] at ho
        have := fold_listM S hS mdAll idx fd i (fun g => by simp [hlist]) hlist vs ops [] fs unk hlt hcur hvs ho
        simpa [recsFieldM, hty, canonF, isMap_list hlist] using this
      · obtain ⟨e, kk, vty, hte, hemd⟩ := hmap hm
        have hie : i = e := by rw [hty] at hte; exact Ty.msg.inj hte
        subst hie
        have hinit : initField fd = .many [] := by simp [initField, hm]
        rw [hinit] at hcur
        rw [isMap_of_eq hm] at ho
        have := fold_mapM S hS mdAll idx fd i hm kk vty hemd vs ops [] fs unk hlt hcur hvs hset hdist (by simp) ho
        simpa [recsFieldM, hty, canonF, isMap_of_eq hm] using this
termination_by structural f => f

/-- a nested message: decoding its record tree gives its canonical form -/
theorem fold_msgVM (S : Schema) (hS : SchemaOKM S) (md : MD) (hmd : ∃ i, md = S.md i) : ∀ (v : V) (body : Bytes),
    WFvM S md v → bytesMsgV S md v = .ok body →
    ∃ cfs, canonV S md v = .msg cfs [] ∧ decodeMsgN S md (recsVM S md v) = .ok (cfs, [])
  | .msg fs unk, body, hwf, hb => by
    obtain ⟨i, hi⟩ := hmd
    simp only [WFvM] at hwf
    obtain ⟨hu, hw, _, hex⟩ := hwf
    simp only [bytesMsgV] at hb
    refine ⟨canonFs S md fs, rfl, ?_⟩
    cases ho : opsFields S md fs with
    | ok ops =>
      have hs := hS i
      rw [← hi] at hs
      simp only [recsVM]
      cases hr : recsFieldsM S 0 md fs with
      | nil =>
        have hnr := recsFieldsM_nil_noreq S 0 md fs ops hw hr ho
        have hc := recsFieldsM_nil_canon S 0 md fs hw hr
        simp [decodeMsgN, hnr, hc, initFields]
      | cons r rest =>
        have hfold := fold_fieldsM S hS md fs [] (wfsM_len S md fs hw) hex hs.2 md fs [] [] ops rfl rfl rfl hw ho
        simp only [List.length_nil, List.nil_append, canonFs, List.map_nil] at hfold
        rw [hr] at hfold
        have hinit : initFields md = md.map initField := rfl
        simp only [decodeMsgN, hinit, hfold, canon_completeM S md fs ops hw ho]
        simp
    | err => rw [ho] at hb; cases hb
    | panic => rw [ho] at hb; cases hb
  | .num _, _, hwf, _ => by simp [WFvM] at hwf
  | .bs _, _, hwf, _ => by simp [WFvM] at hwf
termination_by structural v => v

/-- the elements of a repeated message field, appended one by one -/
theorem fold_listM (S : Schema) (hS : SchemaOKM S) (mdAll : MD) (idx : Nat) (fd : FD) (i : Nat) (hno : ∀ g, fd.card ≠ .oneof g)
    (hlist : fd.card = .list) : ∀ (vs : List V) (ops : List EncOp) (acc : List V) (fs : List F) (unk : Bytes),
    idx < fs.length → fs.getD idx .unset = .many acc → WFvsM S (S.md i) vs → opsMsgList S (S.md i) fd.num false vs = .ok ops →
    foldN S mdAll (recsListM S idx fd i vs) (fs, unk) = .ok (fs.set idx (.many (acc ++ canonVs S (S.md i) false vs)), unk)
  | [], _, acc, fs, unk, hlt, hcur, _, _ => by
    simp [recsListM, foldN, canonVs, set_getD_self fs idx _ hlt hcur]
  | v :: vs, ops, acc, fs, unk, hlt, hcur, hwf, ho => by
    simp only [WFvsM] at hwf
    simp only [opsMsgList, Bool.false_and, Bool.false_eq_true, if_false] at ho
    have hnm : fd.card ≠ .map := by simp [hlist]
    cases hb : bytesMsgV S (S.md i) v with
    | ok body =>
      rw [hb] at ho
      cases hr : opsMsgList S (S.md i) fd.num false vs with
      | ok rest =>
        obtain ⟨cfs, hcv, hd⟩ := fold_msgVM S hS (S.md i) ⟨i, rfl⟩ v body hwf.1 hb
        simp only [recsListM, isMap_of_ne hnm, Card.isMap, Bool.false_and, Bool.false_eq_true, if_false, elemRec_of_not_map hnm, foldN, NRec.applyN_msg, hd, assign_plain mdAll fs idx fd _ hno, hlist, hcur, appendTo]
        have ih := fold_listM S hS mdAll idx fd i hno hlist vs rest (acc ++ [V.msg cfs []])
          (fs.set idx (.many (acc ++ [V.msg cfs []]))) unk
          (by simpa using hlt) (by simp [List.getD_eq_getElem?_getD, List.getElem?_set_self hlt]) hwf.2 hr
        rw [ih]
        simp [canonVs, List.set_set, hcv]
      | err => rw [hr] at ho; cases ho
      | panic => rw [hr] at ho; cases ho
    | err => rw [hb] at ho; cases ho
    | panic => rw [hb] at ho; cases ho
termination_by structural vs => vs

/-- the entries of a map field, inserted one by one: with pairwise distinct keys every insertion adds an
    entry (none replaces an earlier one), so the map ends up holding exactly the entries written -/
theorem fold_mapM (S : Schema) (hS : SchemaOKM S) (mdAll : MD) (idx : Nat) (fd : FD) (i : Nat)
    (hm : fd.card = .map) (kk : SK) (vty : Ty) (hemd : S.md i = entryMD kk vty) :
    ∀ (vs : List V) (ops : List EncOp) (acc : List V) (fs : List F) (unk : Bytes),
    idx < fs.length → fs.getD idx .unset = .many acc → WFvsM S (S.md i) vs → (∀ e ∈ vs, EntryOK (S.md i) e) →
    KeysDistinct (S.md i) vs → (∀ x ∈ acc, ∀ e ∈ vs, keyEq (entryKey x) (canonKey (S.md i) e) = false) →
    opsMsgList S (S.md i) fd.num true vs = .ok ops →
    foldN S mdAll (recsListM S idx fd i vs) (fs, unk) = .ok (fs.set idx (.many (acc ++ canonVs S (S.md i) true vs)), unk)
  | [], _, acc, fs, unk, hlt, hcur, _, _, _, _, _ => by
    simp [recsListM, foldN, canonVs, set_getD_self fs idx _ hlt hcur]
  | v :: vs, ops, acc, fs, unk, hlt, hcur, hwf, hset, hdist, hfresh, ho => by
    simp only [WFvsM] at hwf
    simp only [opsMsgList, Bool.true_and] at ho
    have hno : ∀ g, fd.card ≠ .oneof g := by intro g; simp [hm]
    obtain ⟨hdv, hdvs⟩ := List.pairwise_cons.mp hdist
    by_cases hn : nilEntry (S.md i) v = true
    · -- the value is a nil pointer: no call, no record, no entry after the round trip
      rw [if_pos hn] at ho
      simp only [recsListM, canonVs, isMap_of_eq hm, Bool.true_and, if_pos hn]
      exact fold_mapM S hS mdAll idx fd i hm kk vty hemd vs ops acc fs unk hlt hcur hwf.2
        (fun e he => hset e (by simp [he])) hdvs (fun x hx e he => hfresh x hx e (by simp [he])) ho
    rw [if_neg hn] at ho
    have hsetv : EntrySet v := by
      rcases hset v (by simp) with h | h
      · exact h
      · exact absurd h hn
    cases hb : bytesMsgV S (S.md i) v with
    | ok body =>
      rw [hb] at ho
      cases hr : opsMsgList S (S.md i) fd.num true vs with
      | ok rest =>
        have hv1 := hwf.1
        have hb' := hb
        rw [hemd] at hv1 hb'
        obtain ⟨cfs, hcv, hd, hfill, hkey⟩ := fold_entryM S hS kk vty v body hv1 hsetv hb'
        rw [← hemd] at hcv hd hfill hkey
        have hfr : ∀ x ∈ acc, keyEq (entryKey x) (entryKey (V.msg cfs [])) = false := by
          intro x hx; rw [hkey]; exact hfresh x hx v (by simp)
        simp only [recsListM, isMap_of_eq hm, Bool.true_and, if_neg hn, elemRec_of_map hm, foldN, NRec.applyN, hd, hfill, hcur,
          assign_plain mdAll fs idx fd _ hno, mapInsert_fresh _ acc hfr]
        have ih := fold_mapM S hS mdAll idx fd i hm kk vty hemd vs rest (acc ++ [V.msg cfs []])
          (fs.set idx (.many (acc ++ [V.msg cfs []]))) unk
          (by simpa using hlt) (by simp [List.getD_eq_getElem?_getD, List.getElem?_set_self hlt]) hwf.2
          (fun e he => hset e (by simp [he])) hdvs
          (by
            intro x hx e he
            rcases List.mem_append.mp hx with hxa | hxe
            · exact hfresh x hxa e (by simp [he])
            · simp only [List.mem_cons, List.mem_nil_iff, or_false] at hxe
              subst hxe
              rw [hkey]; exact hdv e he) hr
        rw [ih]
        simp [canonVs, hn, List.set_set, hcv]
      | err => rw [hr] at ho; cases ho
      | panic => rw [hr] at ho; cases ho
    | err => rw [hb] at ho; cases ho
    | panic => rw [hb] at ho; cases ho
termination_by structural vs => vs

/-- one entry: the sub-decoder's rule on its payload gives the normalised key and value -/
theorem fold_entryM (S : Schema) (hS : SchemaOKM S) (kk : SK) (vty : Ty) : ∀ (e : V) (body : Bytes),
    WFvM S (entryMD kk vty) e → EntrySet e → bytesMsgV S (entryMD kk vty) e = .ok body →
    ∃ cfs, canonV S (entryMD kk vty) e = .msg cfs [] ∧
      foldE S (entryMD kk vty) (recsVM S (entryMD kk vty) e) (initFields (entryMD kk vty)) = .ok cfs ∧
      fillEntry S (entryMD kk vty) cfs = cfs ∧
      entryKey (V.msg cfs []) = canonKey (entryMD kk vty) e
  | .msg fs unk, body, hwf, hset, hb => by
    simp only [WFvM] at hwf
    simp only [EntrySet] at hset
    simp only [bytesMsgV] at hb
    cases ho : opsFields S (entryMD kk vty) fs with
    | ok ops =>
      obtain ⟨h1, h2, h3⟩ := fold_entryFsM S hS kk vty fs ops unk hwf.2.1 hset ho
      exact ⟨canonFs S (entryMD kk vty) fs, rfl, h1, h2, h3⟩
    | err => rw [ho] at hb; cases hb
    | panic => rw [ho] at hb; cases hb
  | .num _, _, hwf, _, _ => by simp [WFvM] at hwf
  | .bs _, _, hwf, _, _ => by simp [WFvM] at hwf
termination_by structural e => e

theorem fold_entryFsM (S : Schema) (hS : SchemaOKM S) (kk : SK) (vty : Ty) : ∀ (fs : List F) (ops : List EncOp) (unk : Bytes),
    WFsM S (entryMD kk vty) fs → (∀ f ∈ fs, f ≠ F.unset) → opsFields S (entryMD kk vty) fs = .ok ops →
    foldE S (entryMD kk vty) (recsFieldsM S 0 (entryMD kk vty) fs) (initFields (entryMD kk vty))
        = .ok (canonFs S (entryMD kk vty) fs) ∧
      fillEntry S (entryMD kk vty) (canonFs S (entryMD kk vty) fs) = canonFs S (entryMD kk vty) fs ∧
      entryKey (V.msg (canonFs S (entryMD kk vty) fs) []) = canonKey (entryMD kk vty) (.msg fs unk)
  | [], _, _, h, _, _ => by simp [entryMD, WFsM] at h
  | [_], _, _, h, _, _ => by simp [entryMD, WFsM] at h
  | _ :: _ :: _ :: _, _, _, h, _, _ => by simp [entryMD, WFsM] at h
  | [fk, fv], ops, unk, h, hset, ho => by
    have h' : WFfM S ⟨1, .sc kk, .always⟩ fk ∧ WFfM S ⟨2, vty, .always⟩ fv := by
      simpa [entryMD, WFsM] using h
    have ho' : opsFields S (⟨1, .sc kk, .always⟩ :: [⟨2, vty, .always⟩]) (fk :: [fv]) = .ok ops := ho
    obtain ⟨_, ⟨b, hb⟩⟩ := opsFields_cons_ok S _ _ fk [fv] ops ho'
    obtain ⟨⟨c, hc⟩, _⟩ := opsFields_cons_ok S _ _ fv [] b hb
    have e : recsFieldsM S 0 (entryMD kk vty) [fk, fv]
        = recsFieldM S 0 ⟨1, .sc kk, .always⟩ fk ++ recsFieldM S 1 ⟨2, vty, .always⟩ fv := by
      simp [entryMD, recsFieldsM]
    obtain ⟨k, hk, hck, hfk⟩ := fold_entryScM S (entryMD kk vty) 0 ⟨1, .sc kk, .always⟩ kk rfl rfl fk
      (hset fk (by simp)) h'.1 (initFields (entryMD kk vty))
    obtain ⟨cv, hcv, hfv⟩ := fold_entryValM S hS kk vty fv c (hset fv (by simp)) h'.2 hc
      ((initFields (entryMD kk vty)).set 0 (.one (decodedV kk k)))
    have hcan : canonFs S (entryMD kk vty) [fk, fv] = [.one (decodedV kk k), .one cv] := by
      simp [entryMD, canonFs, hck, hcv]
    rw [e, foldE_append S _ _ _ _ _ hfk, hfv, hcan]
    refine ⟨?_, ?_, ?_⟩
    · simp [initFields, entryMD]
    · cases vty <;> simp [fillEntry, entryMD]
    · subst hk; rw [entryKey_canon]; rfl
termination_by structural fs => fs

/-- the value of an entry -/
theorem fold_entryValM (S : Schema) (hS : SchemaOKM S) (kk : SK) (vty : Ty) : ∀ (f : F) (ops : List EncOp),
    f ≠ .unset → WFfM S ⟨2, vty, .always⟩ f → opsField S ⟨2, vty, .always⟩ f = .ok ops →
    ∀ (efs : List F), ∃ cv, canonF S ⟨2, vty, .always⟩ f = .one cv ∧
      foldE S (entryMD kk vty) (recsFieldM S 1 ⟨2, vty, .always⟩ f) efs = .ok (efs.set 1 (.one cv))
  | .unset, _, hne, _, _ => absurd rfl hne
  | .one v, ops, hne, hwf, ho => by
    intro efs
    cases vty with
    | sc k =>
      obtain ⟨v', hv', hc, hf⟩ := fold_entryScM S (entryMD kk (.sc k)) 1 ⟨2, .sc k, .always⟩ k rfl rfl (.one v) hne hwf efs
      exact ⟨_, hc, hf⟩
    | msg j =>
      simp only [WFfM] at hwf
      obtain ⟨_, _, _, hv⟩ := hwf
      simp only [opsField] at ho
      cases hb : bytesMsgV S (S.md j) v with
      | ok body =>
        obtain ⟨cfs, hcv, hd⟩ := fold_msgVM S hS (S.md j) ⟨j, rfl⟩ v body hv hb
        refine ⟨.msg cfs [], by simp [canonF, hcv], ?_⟩
        simp [recsFieldM, foldE, NRec.applyE_msg, hd]
      | err => rw [hb] at ho; cases ho
      | panic => rw [hb] at ho; cases ho
  | .many vs, ops, hne, hwf, ho => by
    intro efs
    cases vty with
    | sc k =>
      obtain ⟨v', hv', _, _⟩ := fold_entryScM S (entryMD kk (.sc k)) 1 ⟨2, .sc k, .always⟩ k rfl rfl (.many vs) hne hwf efs
      cases hv'
    | msg j =>
      simp only [WFfM] at hwf
      obtain ⟨hc, _, _⟩ := hwf
      simp at hc
termination_by structural f => f
end

mutual
/-- well-formed values carry no unknown fields below the top level -/
theorem wfsM_clean (S : Schema) : ∀ (md : MD) (fs : List F), WFsM S md fs → CleanFs fs
  | [], [], _ => by simp [CleanFs]
  | [], _ :: _, h => by simp [WFsM] at h
  | _ :: _, [], _ => by simp [CleanFs]
  | fd :: md, f :: fs, h => by
    simp only [WFsM] at h
    exact ⟨wffM_clean S fd f h.1, wfsM_clean S md fs h.2⟩
theorem wffM_clean (S : Schema) (fd : FD) : ∀ (f : F), WFfM S fd f → CleanF f
  | .unset, _ => by simp [CleanF]
  | .one v, h => by
    simp only [WFfM] at h
    simp only [CleanF]
    cases hty : fd.ty with
    | sc k => simp only [hty] at h; exact h.2.2
    | msg i => simp only [hty] at h; exact wfvM_clean S (S.md i) v h.2.2.2
  | .many vs, h => by
    simp only [WFfM] at h
    simp only [CleanF]
    cases hty : fd.ty with
    | sc k => simp only [hty] at h; exact h.2.2
    | msg i => simp only [hty] at h; exact wfvsM_clean S (S.md i) vs h.2.2
theorem wfvM_clean (S : Schema) (md : MD) : ∀ (v : V), WFvM S md v → CleanV v
  | .msg fs unk, h => by simp only [WFvM] at h; exact ⟨h.1, wfsM_clean S md fs h.2.1⟩
  | .num _, _ => by simp [CleanV]
  | .bs _, _ => by simp [CleanV]
theorem wfvsM_clean (S : Schema) (md : MD) : ∀ (vs : List V), WFvsM S md vs → CleanVs vs
  | [], _ => by simp [CleanVs]
  | v :: vs, h => by simp only [WFvsM] at h; exact ⟨wfvM_clean S md v h.1, wfvsM_clean S md vs h.2⟩
end

/-- the record tree of a well-formed message with maps is a well-formed tree in the sense of
    `unmarshal_nested`: every map entry is an `NRec.map` record whose payload is a sequence of entry records -/
theorem record_treeM_ok (S : Schema) (hS : SchemaOKM S) (i : Nat) (fs : List F) (hwf : WFsM S (S.md i) fs) :
    OKs S (S.md i) (recsFieldsM S 0 (S.md i) fs) := by
  have := recs_okM S hS (S.md i) (hS i).1 (hS i).2 (S.md i) fs [] rfl hwf
  simpa using this

/-- **Round trip of a message with map fields** (scalar- or message-valued, at any depth, next to nested /
    repeated / recursive message fields, real oneofs and scalars; unknown fields at the top level; either
    decoder mode): whatever the order in which the entries of each map were written, provided the keys of
    each map are pairwise distinct, `Unmarshal(Marshal(m))` is `canonFs m` — each map field holds exactly the
    normalised entries that were written, every other field is as in `roundtrip_nested`. -/
theorem roundtrip_map (S : Schema) (hS : SchemaOKM S) (fast : Bool) (i : Nat) (fs : List F) (urs : List Rec)
    (ops : List EncOp) (hwf : WFsM S (S.md i) fs) (hex : Excl (S.md i) fs) (hok : OKFields S (S.md i) fs)
    (hu : ∀ r ∈ urs, r.OK ∧ findField (S.md i) r.tag 0 = none)
    (ho : opsFields S (S.md i) fs = .ok ops) :
    unmarshal S fast (S.md i) (wiresOf ops ++ Csproto.wiresOf urs)
      = .ok (canonFs S (S.md i) fs, Csproto.wiresOf urs) := by
  have hs := hS i
  have hbytes : wiresOf ops ++ Csproto.wiresOf urs
      = wiresN (recsFieldsM S 0 (S.md i) fs ++ (urs.map WRec.unknown).map NRec.flat) := by
    rw [wiresN_append, wiresN_flat, wiresW_unknown,
      ops_recsFieldsM S (S.md i) fs ops hok (wfsM_clean S _ fs hwf) ho]
  have hoks : OKs S (S.md i) (recsFieldsM S 0 (S.md i) fs ++ (urs.map WRec.unknown).map NRec.flat) := by
    rw [OKs_append]
    refine ⟨record_treeM_ok S hS i fs hwf, OKs_flat S _ _ ?_⟩
    intro w hw
    obtain ⟨u, hum, rfl⟩ := List.mem_map.mp hw
    exact hu u hum
  rw [hbytes, unmarshal_nested S fast (S.md i) _ hoks]
  have hfold := fold_fieldsM S hS (S.md i) fs [] (wfsM_len S _ fs hwf) hex hs.2 (S.md i) fs [] [] ops rfl rfl rfl hwf ho
  simp only [List.length_nil, List.nil_append, canonFs, List.map_nil] at hfold
  have hall : foldN S (S.md i) (recsFieldsM S 0 (S.md i) fs ++ (urs.map WRec.unknown).map NRec.flat)
      (initFields (S.md i), []) = .ok (canonFs S (S.md i) fs, Csproto.wiresOf urs) := by
    have hinit : initFields (S.md i) = (S.md i).map initField := rfl
    rw [hinit, foldN_append S _ _ _ _ _ hfold, foldN_flat, fold_unknown_fs]
    simp
  cases hr : recsFieldsM S 0 (S.md i) fs ++ (urs.map WRec.unknown).map NRec.flat with
  | nil =>
    simp only [List.append_eq_nil_iff, List.map_eq_nil_iff] at hr
    obtain ⟨hr1, hr2⟩ := hr
    subst hr2
    have hnr := recsFieldsM_nil_noreq S 0 (S.md i) fs ops hwf hr1 ho
    have hc := recsFieldsM_nil_canon S 0 (S.md i) fs hwf hr1
    simp [decodeMsgN, hnr, hc, initFields, Csproto.wiresOf]
  | cons r rest =>
    rw [hr] at hall
    simp only [decodeMsgN, hall, canon_completeM S (S.md i) fs ops hwf ho]
    simp

/-- the length bound in `WFvM` can be checked on the computed size -/
theorem recsM_len_eq_size (S : Schema) (md : MD) (fs : List F) (ops : List EncOp) (hok : OKFields S md fs)
    (hcl : CleanFs fs) (ho : opsFields S md fs = .ok ops) :
    (wiresN (recsFieldsM S 0 md fs)).length = sizeFields S md fs := by
  rw [← ops_recsFieldsM S md fs ops hok hcl ho, (fields_exact S md fs ops hok ho).1]

/-! ### order independence: the decoded map as a finite map -/

/-- the entries after the round trip: the (normalised) entries that were written, in the order written -/
theorem canonVs_eq_map (S : Schema) (md : MD) (sk : Bool) : ∀ (vs : List V),
    canonVs S md sk vs = (liveVs md sk vs).map (canonV S md)
  | [] => rfl
  | v :: vs => by
    have ih := canonVs_eq_map S md sk vs
    unfold liveVs at ih ⊢
    cases hn : (sk && nilEntry md v)
    · simp only [canonVs, List.filter_cons, hn, ih, Bool.not_false, Bool.false_eq_true, ↓reduceIte, List.map_cons]
    · simp only [canonVs, List.filter_cons, hn, ih, Bool.not_true, Bool.false_eq_true, ↓reduceIte]

/-- two Go values of one message type that differ at most in the order in which the entries of their map
    fields are listed (two iteration orders of the same maps) -/
def MapsPermuted (md : MD) (fs gs : List F) : Prop :=
  fs.length = gs.length ∧ ∀ (j : Nat) (fd : FD), md[j]? = some fd → fs[j]? = gs[j]? ∨
    (fd.card = Card.map ∧ ∃ es1 es2 : List V, fs[j]? = some (F.many es1) ∧ gs[j]? = some (F.many es2) ∧ es1.Perm es2)

/-- normalisation commutes with reordering the entries of maps -/
theorem canonFs_mapsPermuted (S : Schema) (md : MD) (fs gs : List F) (hl : md.length = fs.length)
    (h : MapsPermuted md fs gs) : MapsPermuted md (canonFs S md fs) (canonFs S md gs) := by
  obtain ⟨hlen, hper⟩ := h
  have hl2 : md.length = gs.length := by omega
  refine ⟨by rw [canonFs_length S md fs hl, canonFs_length S md gs hl2], ?_⟩
  intro j fd hj
  have hjl : j < md.length := by
    rcases Nat.lt_or_ge j md.length with h | h
    · exact h
    · rw [List.getElem?_eq_none_iff.mpr h] at hj; cases hj
  obtain ⟨f, hf⟩ : ∃ f, fs[j]? = some f := ⟨fs[j]'(by omega), List.getElem?_eq_getElem (by omega)⟩
  obtain ⟨g, hg⟩ : ∃ g, gs[j]? = some g := ⟨gs[j]'(by omega), List.getElem?_eq_getElem (by omega)⟩
  rw [canonFs_get S md fs j fd f hl hj hf, canonFs_get S md gs j fd g hl2 hj hg]
  rcases hper j fd hj with he | ⟨hm, es1, es2, h1, h2, hp⟩
  · rw [hf, hg] at he; cases he; exact Or.inl rfl
  · rw [hf] at h1; rw [hg] at h2; cases h1; cases h2
    right
    refine ⟨hm, ?_⟩
    cases hty : fd.ty with
    | sc k =>
      exact ⟨es1.map (decodedV (kindOf fd)), es2.map (decodedV (kindOf fd)), by simp [canonF, hty, canonField],
        by simp [canonF, hty, canonField], hp.map _⟩
    | msg i =>
      refine ⟨canonVs S (S.md i) fd.card.isMap es1, canonVs S (S.md i) fd.card.isMap es2, by simp [canonF, hty],
        by simp [canonF, hty], ?_⟩
      rw [canonVs_eq_map, canonVs_eq_map]; exact (hp.filter _).map _

/-- `m[k]` on a map value held as an association list -/
def mapGet (es : List V) (k : V) : Option V := (es.find? fun e => keyEq (entryKey e) k).map entryVal

theorem keyEq_symm (a b : V) : keyEq a b = keyEq b a := by
  cases a <;> cases b <;> simp only [keyEq] <;> exact BEq.comm

theorem keyEq_trans {a b k : V} (h1 : keyEq a k = true) (h2 : keyEq b k = true) : keyEq a b = true := by
  cases a <;> cases b <;> cases k <;> simp [keyEq] at h1 h2 ⊢ <;> rw [h1, h2]

/-- the keys (as stored) are pairwise different -/
def StoredKeysDistinct (es : List V) : Prop := es.Pairwise fun a b => keyEq (entryKey a) (entryKey b) = false

/-- **a map value is determined by its entries, not by their order**: two association lists with pairwise
    distinct keys that are permutations of each other have the same lookup function -/
theorem mapGet_perm {es1 es2 : List V} (hp : es1.Perm es2) (hd : StoredKeysDistinct es1) (k : V) :
    mapGet es1 k = mapGet es2 k := by
  unfold mapGet
  congr 1
  induction hp with
  | nil => rfl
  | cons x _ ih =>
    simp only [List.find?_cons]
    rw [ih (List.pairwise_cons.mp hd).2]
  | swap x y l =>
    have hxy : keyEq (entryKey y) (entryKey x) = false := (List.pairwise_cons.mp hd).1 x (by simp)
    simp only [List.find?_cons]
    cases h1 : keyEq (entryKey x) k <;> cases h2 : keyEq (entryKey y) k <;> simp
    rw [keyEq_trans h2 h1] at hxy; cases hxy
  | trans h1 _ ih1 ih2 =>
    rw [ih1 hd]
    exact ih2 ((h1.pairwise_iff (fun {a b} hab => by rw [keyEq_symm]; exact hab)).mp hd)

theorem wfsM_get (S : Schema) : ∀ (md : MD) (fs : List F) (j : Nat) (fd : FD) (f : F), WFsM S md fs →
    md[j]? = some fd → fs[j]? = some f → WFfM S fd f
  | [], _, _, _, _, _, h, _ => by simp at h
  | _ :: _, [], _, _, _, h, _, _ => by simp [WFsM] at h
  | fd0 :: md, f0 :: fs, 0, fd, f, hwf, h1, h2 => by
    simp only [List.getElem?_cons_zero, Option.some.injEq] at h1 h2
    subst h1; subst h2
    simp only [WFsM] at hwf; exact hwf.1
  | _ :: md, _ :: fs, j + 1, fd, f, hwf, h1, h2 => by
    simp only [List.getElem?_cons_succ] at h1 h2
    simp only [WFsM] at hwf
    exact wfsM_get S md fs j fd f hwf.2 h1 h2

/-- the key a decoded entry is stored under is the normalised key of the entry written -/
theorem entryKey_canonV (S : Schema) (kk : SK) (vty : Ty) (e : V) (hwf : WFvM S (entryMD kk vty) e) (hset : EntrySet e) :
    entryKey (canonV S (entryMD kk vty) e) = canonKey (entryMD kk vty) e := by
  match e, hwf, hset with
  | .msg [] _, hwf, _ => simp [WFvM, entryMD, WFsM] at hwf
  | .msg (.unset :: _) _, _, hset => simp [EntrySet] at hset
  | .msg (.many vs :: rest) _, hwf, _ =>
    cases rest with
    | nil => simp [WFvM, entryMD, WFsM] at hwf
    | cons r rest => simp [WFvM, entryMD, WFsM, WFfM, ShapeOK, isRep] at hwf
  | .msg (.one k :: rest) unk, _, _ =>
    cases rest with
    | nil => simp [canonV, canonFs, entryMD, canonF, canonField, canonKey, keyKind, kindOf, entryKey]
    | cons r rest => simp [canonV, canonFs, entryMD, canonF, canonField, canonKey, keyKind, kindOf, entryKey]

/-- the decoded entries of a map field have pairwise distinct stored keys -/
theorem storedKeys_canonVs (S : Schema) (kk : SK) (vty : Ty) : ∀ (es : List V), WFvsM S (entryMD kk vty) es →
    (∀ e ∈ es, EntryOK (entryMD kk vty) e) → KeysDistinct (entryMD kk vty) es →
    StoredKeysDistinct (canonVs S (entryMD kk vty) true es)
  | [], _, _, _ => by simp [canonVs, StoredKeysDistinct]
  | e :: es, hwf, hset, hd => by
    simp only [WFvsM] at hwf
    obtain ⟨hde, hdes⟩ := List.pairwise_cons.mp hd
    have ih := storedKeys_canonVs S kk vty es hwf.2 (fun x hx => hset x (by simp [hx])) hdes
    by_cases hn : nilEntry (entryMD kk vty) e = true
    · simp only [canonVs, Bool.true_and, if_pos hn]; exact ih
    have hsete : EntrySet e := by
      rcases hset e (by simp) with h | h
      · exact h
      · exact absurd h hn
    simp only [canonVs, Bool.true_and, if_neg hn, StoredKeysDistinct, List.pairwise_cons]
    refine ⟨?_, ih⟩
    intro x hx
    rw [canonVs_eq_map] at hx
    obtain ⟨y, hy', rfl⟩ := List.mem_map.mp hx
    have hy : y ∈ es := (List.mem_filter.mp hy').1
    have hyn : nilEntry (entryMD kk vty) y = false := by
      have := (List.mem_filter.mp hy').2
      simpa using this
    have hsety : EntrySet y := by
      rcases hset y (by simp [hy]) with h | h
      · exact h
      · rw [hyn] at h; cases h
    have hwy : WFvM S (entryMD kk vty) y := by
      clear ih hde hdes hd hx hy'
      induction es with
      | nil => simp at hy
      | cons z zs ihz =>
        simp only [WFvsM] at hwf
        rcases List.mem_cons.mp hy with rfl | hy'
        · exact hwf.2.1
        · exact ihz ⟨hwf.1, hwf.2.2⟩ (fun x hx => hset x (by
            rcases List.mem_cons.mp hx with rfl | h
            · simp
            · simp [h])) hy'
    rw [entryKey_canonV S kk vty e hwf.1 hsete, entryKey_canonV S kk vty y hwy hsety]
    exact hde y hy

end Csproto.Gen
