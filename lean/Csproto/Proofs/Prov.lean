import Csproto.Model.Prov
/-
  Proofs about the provenance model of the generated `Unmarshal` (`Model/Prov.lean`):

  * ERASURE      reading every reference of `unmarshalP`'s result against the input gives exactly the value
                 model's result (`Gen.unmarshal`) — errors and panics included;
  * OWNERSHIP    with a policy that copies at every site in safe mode (the template's), a safe-mode result
                 contains no `alias` at any depth;
  * the structural consequence: an owned value reads the same against any buffer.
-/
namespace Csproto.Prov
open Csproto Csproto.Gen

/-! ### windows of windows -/

theorem window_sub (buf : Bytes) (base n s l : Nat) (h : s + l ≤ ((buf.drop base).take n).length) :
    (((buf.drop base).take n).drop s).take l = (buf.drop (base + s)).take l := by
  rw [List.drop_take, List.take_take, List.drop_drop]
  simp only [List.length_take, List.length_drop] at h
  congr 1
  omega

/-! ### what a decoder call leaves alone: the buffer and the mode -/

/-- what a step leaves alone -/
def Same (d d' : Dec) : Prop := d'.p = d.p ∧ d'.fast = d.fast

theorem Same.refl (d : Dec) : Same d d := ⟨rfl, rfl⟩
theorem Same.off (d : Dec) (o : Nat) : Same d { d with off := o } := ⟨rfl, rfl⟩
theorem Same.trans {a b c : Dec} (h1 : Same a b) (h2 : Same b c) : Same a c :=
  ⟨h2.1.trans h1.1, h2.2.trans h1.2⟩

theorem scalar_same {α} (d : Dec) (elem : Bytes → Res (α × Nat)) (mk : α → Item) : Same d (d.scalar elem mk).1 := by
  unfold Dec.scalar
  split
  · exact Same.refl d
  · split
    · split <;> first | exact Same.refl d | exact Same.off d _
    · exact Same.refl d

theorem packed_same {α} (d : Dec) (elem : Bytes → Res (α × Nat)) (mk : List α → Item) (pre : Option Nat) :
    Same d (d.packed elem mk pre).1 := by
  unfold Dec.packed
  by_cases h : d.off ≥ d.len
  · simp only [h, if_true]; exact Same.refl d
  · simp only [h, if_false]
    cases sliceFrom d.p d.off with
    | ok s =>
      simp only []
      cases elVarint s with
      | ok r =>
        obtain ⟨l, n⟩ := r
        simp only []
        cases pre with
        | some k =>
          simp only []
          split
          · exact Same.off d _
          · generalize packedLoop elem d.p l (d.len + 1) 0 (d.off + n) [] = q
            obtain ⟨off2, r⟩ := q
            cases r <;> exact Same.off d _
        | none =>
          simp only []
          generalize packedLoop elem d.p l (d.len + 1) 0 (d.off + n) [] = q
          obtain ⟨off2, r⟩ := q
          cases r <;> exact Same.off d _
      | err => exact Same.refl d
      | panic => exact Same.refl d
    | err => exact Same.refl d
    | panic => exact Same.refl d

theorem tag_same (d : Dec) : Same d (d.step .tag).1 := by
  simp only [Dec.step]
  split
  · exact Same.refl d
  · split
    · split
      · split <;> first | exact Same.refl d | exact ⟨rfl, rfl⟩
      · exact Same.refl d
      · exact Same.refl d
    · exact Same.refl d

theorem lenPrefix_fits (d : Dec) {s l : Nat} (h : d.lenPrefix = .ok (s, l)) : s + l ≤ d.p.length := by
  unfold Dec.lenPrefix at h
  split at h
  · simp at h
  · split at h
    · split at h
      · split at h
        · simp at h
        · split at h
          · simp at h
          · split at h
            · simp at h
            · simp only [Res.ok.injEq, Prod.mk.injEq] at h
              unfold Dec.len at *
              omega
      · simp at h
      · simp at h
    · simp at h

/-- `DecodeBytes` in the two models: same state, and the value is what the window holds -/
theorem bytesWin_cases (d : Dec) :
    (∃ d' s l, d.bytesWin = (d', .ok (s, l)) ∧ d.bytesOp = (d', .ok (.bytes ((d.p.drop s).take l))) ∧
        Same d d' ∧ s + l ≤ d.p.length) ∨
    (d.bytesWin = (d, .err) ∧ d.bytesOp = (d, .err)) ∨
    (d.bytesWin = (d, .panic) ∧ d.bytesOp = (d, .panic)) := by
  unfold Dec.bytesWin Dec.bytesOp
  cases h : d.lenPrefix with
  | ok r =>
    obtain ⟨s, l⟩ := r
    exact .inl ⟨_, s, l, rfl, rfl, Same.off d _, lenPrefix_fits d h⟩
  | err => exact .inr (.inl ⟨rfl, rfl⟩)
  | panic => exact .inr (.inr ⟨rfl, rfl⟩)

theorem skipWin_cases (d : Dec) (tag wt : Nat) :
    (∃ d' s l, d.skipWin tag wt = (d', .ok (s, l)) ∧ d.skip tag wt = (d', .ok (.bytes ((d.p.drop s).take l))) ∧
        Same d d' ∧ s + l ≤ d.p.length) ∨
    (d.skipWin tag wt = (d, .err) ∧ d.skip tag wt = (d, .err)) ∨
    (d.skipWin tag wt = (d, .panic) ∧ d.skip tag wt = (d, .panic)) := by
  unfold Dec.skipWin Dec.skip
  by_cases h : d.off ≥ d.len
  · rw [if_pos h, if_pos h]; exact .inr (.inl ⟨rfl, rfl⟩)
  · rw [if_neg h, if_neg h]
    dsimp only
    generalize hb : (if d.ke = d.off ∧ d.ke > d.ks then d.ks else d.off - sizeOfTagKey tag) = bof
    have hbof : bof ≤ d.off := by rw [← hb]; split <;> omega
    cases d.skipCheck tag wt bof (sizeOfTagKey tag) with
    | ok u =>
      cases u
      simp only []
      cases d.skipLen wt with
      | ok k =>
        simp only []
        by_cases hk : d.off + k > d.len
        · rw [if_pos hk, if_pos hk]; exact .inr (.inl ⟨rfl, rfl⟩)
        · rw [if_neg hk, if_neg hk]
          refine .inl ⟨_, bof, d.off + k - bof, rfl, rfl, Same.off d _, ?_⟩
          unfold Dec.len at hk; omega
      | err => exact .inr (.inl ⟨rfl, rfl⟩)
      | panic => exact .inr (.inr ⟨rfl, rfl⟩)
    | err => exact .inr (.inl ⟨rfl, rfl⟩)
    | panic => exact .inr (.inr ⟨rfl, rfl⟩)


/-- where a successful `Skip` leaves the cursor: at the end of the window it returns, which starts at or before the cursor -/
theorem skipWin_off (d : Dec) (tag wt : Nat) (d' : Dec) (s l : Nat) (h : d.skipWin tag wt = (d', .ok (s, l))) :
    d'.off = s + l ∧ s ≤ d.off ∧ d.off ≤ d'.off := by
  unfold Dec.skipWin at h
  by_cases h0 : d.off ≥ d.len
  · rw [if_pos h0] at h; cases h
  · rw [if_neg h0] at h
    dsimp only at h
    generalize hb : (if d.ke = d.off ∧ d.ke > d.ks then d.ks else d.off - sizeOfTagKey tag) = bof at h
    have hbof : bof ≤ d.off := by rw [← hb]; split <;> omega
    cases hc : d.skipCheck tag wt bof (sizeOfTagKey tag) with
    | ok u =>
      cases u
      rw [hc] at h
      simp only [] at h
      cases hk : d.skipLen wt with
      | ok k =>
        rw [hk] at h
        simp only [] at h
        by_cases hgt : d.off + k > d.len
        · rw [if_pos hgt] at h; cases h
        · rw [if_neg hgt] at h
          cases h
          refine ⟨?_, hbof, ?_⟩ <;> simp <;> omega
      | err => rw [hk] at h; cases h
      | panic => rw [hk] at h; cases h
    | err => rw [hc] at h; cases h
    | panic => rw [hc] at h; cases h

theorem bytesOp_same (d : Dec) : Same d d.bytesOp.1 := by
  rcases bytesWin_cases d with ⟨d', s, l, _, ho, hs, _⟩ | ⟨_, ho⟩ | ⟨_, ho⟩
  · rw [ho]; exact hs
  · rw [ho]; exact Same.refl d
  · rw [ho]; exact Same.refl d

theorem string_same (d : Dec) : Same d (d.step .string).1 := by
  simp only [Dec.step]
  split
  · exact Same.refl d
  · have := bytesOp_same d
    split
    · next h => rw [h] at this; exact this
    · next h => rw [h] at this; exact this

theorem decOp_same (k : SK) (d : Dec) : Same d (d.step (decOpOf k)).1 := by
  cases k <;> simp only [decOpOf, Dec.step, withAlloc] <;>
    first | exact scalar_same d _ _ | exact bytesOp_same d | exact string_same d

theorem packedOp_same (k : SK) (pop : DecOp) (h : packedDecOpOf k = some pop) (d : Dec) : Same d (d.step pop).1 := by
  cases k <;> simp only [packedDecOpOf, Option.some.injEq] at h <;> (try subst h) <;>
    first | exact packed_same d _ _ _ | (simp at h)

theorem readScalar_same {k : SK} {d : Dec} {wt : Nat} {d' : Dec} {v : V}
    (h : readScalar k d wt = .ok (d', v)) : Same d d' := by
  have hs := decOp_same k d
  unfold readScalar at h
  split at h
  · simp at h
  · generalize d.step (decOpOf k) = r at h hs
    obtain ⟨d1, o, a⟩ := r
    cases o <;> simp at h
    rw [← h.1]; exact hs

theorem readRepeated_same {k : SK} {d : Dec} {wt : Nat} {d' : Dec} {vs : List V}
    (h : readRepeated k d wt = .ok (d', vs)) : Same d d' := by
  unfold readRepeated at h
  have hsc : ∀ {d' vs}, ((readScalar k d wt).map fun (x : Dec × V) => (x.1, [x.2])) = .ok (d', vs) → Same d d' := by
    intro d' vs h
    cases hr : readScalar k d wt with
    | ok r => rw [hr] at h; simp [Res.map] at h; rw [← h.1]; exact readScalar_same (v := r.2) (by rw [hr])
    | err => rw [hr] at h; simp [Res.map] at h
    | panic => rw [hr] at h; simp [Res.map] at h
  cases hp : packedDecOpOf k with
  | none => rw [hp] at h; exact hsc h
  | some pop =>
    rw [hp] at h
    simp only [] at h
    split at h
    · exact hsc h
    · split at h
      · have hs := packedOp_same k pop hp d
        generalize d.step pop = r at h hs
        obtain ⟨d1, o, a⟩ := r
        cases o <;> simp at h
        rw [← h.1]; exact hs
      · simp at h


/-! ### structure lemmas -/
theorem eraseFs_eq_map (buf : Bytes) (fs : List PF) : eraseFs buf fs = fs.map (PF.erase buf) := by
  induction fs with
  | nil => rfl
  | cons f fs ih => simp [eraseFs, ih]

theorem eraseVs_eq_map (buf : Bytes) (vs : List PV) : eraseVs buf vs = vs.map (PV.erase buf) := by
  induction vs with
  | nil => rfl
  | cons v vs ih => simp [eraseVs, ih]

theorem ownedFs_iff (fs : List PF) : ownedFs fs = true ↔ ∀ f ∈ fs, f.owned = true := by
  induction fs with
  | nil => simp [ownedFs]
  | cons f fs ih => simp [ownedFs, ih]

theorem ownedVs_iff (vs : List PV) : ownedVs vs = true ↔ ∀ v ∈ vs, v.owned = true := by
  induction vs with
  | nil => simp [ownedVs]
  | cons v vs ih => simp [ownedVs, ih]

mutual
theorem erase_toPV (buf : Bytes) : ∀ v : V, (toPV v).erase buf = v
  | .num n => by simp [toPV, PV.erase]
  | .bs b => by simp [toPV, PV.erase, Ref.read]
  | .msg fs unk => by simp [toPV, PV.erase, erase_toPFs buf fs, readAll, Ref.read]
theorem erase_toPF (buf : Bytes) : ∀ f : F, (toPF f).erase buf = f
  | .unset => by simp [toPF, PF.erase]
  | .one v => by simp [toPF, PF.erase, erase_toPV buf v]
  | .many vs => by simp [toPF, PF.erase, erase_toPVs buf vs]
theorem erase_toPFs (buf : Bytes) : ∀ fs : List F, eraseFs buf (toPFs fs) = fs
  | [] => by simp [toPFs, eraseFs]
  | f :: fs => by simp [toPFs, eraseFs, erase_toPF buf f, erase_toPFs buf fs]
theorem erase_toPVs (buf : Bytes) : ∀ vs : List V, eraseVs buf (toPVs vs) = vs
  | [] => by simp [toPVs, eraseVs]
  | v :: vs => by simp [toPVs, eraseVs, erase_toPV buf v, erase_toPVs buf vs]
end

mutual
theorem owned_toPV : ∀ v : V, (toPV v).owned = true
  | .num n => by simp [toPV, PV.owned]
  | .bs b => by simp [toPV, PV.owned, Ref.isOwned]
  | .msg fs unk => by simp [toPV, PV.owned, owned_toPFs fs, Ref.isOwned]
theorem owned_toPF : ∀ f : F, (toPF f).owned = true
  | .unset => by simp [toPF, PF.owned]
  | .one v => by simp [toPF, PF.owned, owned_toPV v]
  | .many vs => by simp [toPF, PF.owned, owned_toPVs vs]
theorem owned_toPFs : ∀ fs : List F, ownedFs (toPFs fs) = true
  | [] => by simp [toPFs, ownedFs]
  | f :: fs => by simp [toPFs, ownedFs, owned_toPF f, owned_toPFs fs]
theorem owned_toPVs : ∀ vs : List V, ownedVs (toPVs vs) = true
  | [] => by simp [toPVs, ownedVs]
  | v :: vs => by simp [toPVs, ownedVs, owned_toPV v, owned_toPVs vs]
end

theorem read_owned (buf buf' : Bytes) : ∀ r : Ref, r.isOwned = true → r.read buf' = r.read buf
  | .owned _, _ => rfl
  | .alias _ _, h => by simp [Ref.isOwned] at h

theorem readAll_owned (buf buf' : Bytes) (rs : List Ref) (h : rs.all Ref.isOwned = true) :
    readAll buf' rs = readAll buf rs := by
  unfold readAll
  congr 1
  apply List.map_congr_left
  intro r hr
  exact read_owned buf buf' r (List.all_eq_true.mp h r hr)

mutual
/-- an owned value reads the same whatever the caller's buffer holds -/
theorem erase_owned_PV (buf buf' : Bytes) : ∀ v : PV, v.owned = true → v.erase buf' = v.erase buf
  | .num n, _ => rfl
  | .bs r, h => by simp only [PV.owned] at h; simp [PV.erase, read_owned buf buf' r h]
  | .msg fs unk, h => by
    simp only [PV.owned, Bool.and_eq_true] at h
    simp [PV.erase, erase_owned_Fs buf buf' fs h.1, readAll_owned buf buf' unk h.2]
theorem erase_owned_PF (buf buf' : Bytes) : ∀ f : PF, f.owned = true → f.erase buf' = f.erase buf
  | .unset, _ => rfl
  | .one v, h => by simp only [PF.owned] at h; simp [PF.erase, erase_owned_PV buf buf' v h]
  | .many vs, h => by simp only [PF.owned] at h; simp [PF.erase, erase_owned_Vs buf buf' vs h]
theorem erase_owned_Fs (buf buf' : Bytes) : ∀ fs : List PF, ownedFs fs = true → eraseFs buf' fs = eraseFs buf fs
  | [], _ => rfl
  | f :: fs, h => by
    simp only [ownedFs, Bool.and_eq_true] at h
    simp [eraseFs, erase_owned_PF buf buf' f h.1, erase_owned_Fs buf buf' fs h.2]
theorem erase_owned_Vs (buf buf' : Bytes) : ∀ vs : List PV, ownedVs vs = true → eraseVs buf' vs = eraseVs buf vs
  | [], _ => rfl
  | v :: vs, h => by
    simp only [ownedVs, Bool.and_eq_true] at h
    simp [eraseVs, erase_owned_PV buf buf' v h.1, erase_owned_Vs buf buf' vs h.2]
end

/-! ### the generated code's helpers commute with erasure -/

theorem erase_getD (buf : Bytes) (fs : List PF) (idx : Nat) :
    (eraseFs buf fs).getD idx .unset = (fs.getD idx .unset).erase buf := by
  rw [eraseFs_eq_map]
  simp only [List.getD_eq_getElem?_getD, List.getElem?_map]
  cases fs[idx]? <;> simp [PF.erase]

theorem erase_set (buf : Bytes) (fs : List PF) (idx : Nat) (f : PF) :
    eraseFs buf (fs.set idx f) = (eraseFs buf fs).set idx (f.erase buf) := by
  simp only [eraseFs_eq_map, List.map_set]

theorem erase_assign (buf : Bytes) (md : MD) (fs : List PF) (idx : Nat) (fd : FD) (f : PF) :
    eraseFs buf (assignP md fs idx fd f) = assign md (eraseFs buf fs) idx fd (f.erase buf) := by
  unfold assignP assign
  cases fd.card with
  | oneof g =>
    simp only [erase_set]
    congr 1
    simp only [eraseFs_eq_map, List.zip_map_right, List.map_map]
    apply List.map_congr_left
    intro p _
    simp only [Function.comp, Prod.map, id]
    split <;> simp [PF.erase]
  | _ => simp only [erase_set]

theorem isUnset_erase (buf : Bytes) (f : PF) :
    (match f.erase buf with | .unset => true | _ => false) = f.isUnset := by
  cases f <;> simp [PF.erase, PF.isUnset]

theorem erase_requiredMissing (buf : Bytes) (md : MD) (fs : List PF) :
    requiredMissing md (eraseFs buf fs) = requiredMissingP md fs := by
  unfold requiredMissing requiredMissingP
  simp only [eraseFs_eq_map, List.zip_map_right, List.any_map]
  congr 1
  funext p
  obtain ⟨fd, f⟩ := p
  cases f <;> simp [PF.erase, PF.isUnset]

theorem erase_entryKey (buf : Bytes) (v : PV) : entryKey (v.erase buf) = (entryKeyP v).erase buf := by
  cases v with
  | num n => simp [PV.erase, entryKey, entryKeyP]
  | bs r => simp [PV.erase, entryKey, entryKeyP]
  | msg fs unk =>
    cases fs with
    | nil => simp [PV.erase, eraseFs, entryKey, entryKeyP]
    | cons f fs => cases f <;> simp [PV.erase, eraseFs, PF.erase, entryKey, entryKeyP]

theorem erase_keyEq (buf : Bytes) (a b : PV) : keyEq (a.erase buf) (b.erase buf) = keyEqP buf a b := by
  cases a <;> cases b <;> simp [PV.erase, keyEq, keyEqP]

theorem erase_mapInsert (buf : Bytes) (e : PV) (es : List PV) :
    eraseVs buf (mapInsertP buf e es) = mapInsert (e.erase buf) (eraseVs buf es) := by
  induction es with
  | nil => simp [mapInsertP, mapInsert, eraseVs]
  | cons x xs ih =>
    simp only [mapInsertP, mapInsert, eraseVs, erase_entryKey, erase_keyEq]
    split
    · simp [eraseVs]
    · simp [eraseVs, ih]

theorem erase_append (buf : Bytes) (a b : List PV) : eraseVs buf (a ++ b) = eraseVs buf a ++ eraseVs buf b := by
  simp [eraseVs_eq_map]

theorem erase_appendTo (buf : Bytes) (cur : PF) (vs : List PV) :
    (appendToP cur vs).erase buf = appendTo (cur.erase buf) (eraseVs buf vs) := by
  cases cur <;> simp [appendToP, appendTo, PF.erase, erase_append]

theorem erase_initFields (buf : Bytes) (md : MD) : eraseFs buf (initFieldsP md) = initFields md :=
  erase_toPFs buf _

theorem erase_fixEntry (buf : Bytes) (S : Schema) (emd : MD) (efs : List PF) :
    eraseFs buf (fixEntryP S emd efs) =
      (emd.zip (eraseFs buf efs)).map fun (p : FD × F) =>
        match p.1.ty, p.2 with
        | .msg j, .unset => F.one (.msg (initFields (S.md j)) [])
        | _, ef => ef := by
  unfold fixEntryP
  simp only [eraseFs_eq_map, List.zip_map_right, List.map_map]
  apply List.map_congr_left
  intro p _
  obtain ⟨fd, f⟩ := p
  simp only [Function.comp, Prod.map, id]
  cases fd.ty with
  | sc k => rfl
  | msg j =>
    cases f with
    | unset => simp [PF.erase, PV.erase, erase_initFields, readAll]
    | one v => simp [PF.erase]
    | many vs => simp [PF.erase]


/-! ### decoder calls: the reference reads what the value model returns -/

/-- the decoder's `p` is the window `[base, base+n)` of `buf` -/
def Sync (buf : Bytes) (base : Nat) (d : Dec) : Prop := ∃ n, d.p = (buf.drop base).take n

theorem Sync.same {buf : Bytes} {base : Nat} {d d' : Dec} (h : Sync buf base d) (hs : Same d d') : Sync buf base d' := by
  obtain ⟨n, hn⟩ := h; exact ⟨n, hs.1.trans hn⟩

theorem Sync.new (buf : Bytes) (base len : Nat) (fast : Bool) :
    Sync buf base { p := (buf.drop base).take len, off := 0, fast := fast } := ⟨len, rfl⟩

theorem read_winRef {buf : Bytes} {base : Nat} {d : Dec} (h : Sync buf base d) {s l : Nat} (hfit : s + l ≤ d.p.length) :
    (winRef base (s, l)).read buf = (d.p.drop s).take l := by
  obtain ⟨n, hn⟩ := h
  rw [hn] at hfit ⊢
  simp only [winRef, Ref.read]
  exact (window_sub buf base n s l hfit).symm

theorem read_store (c : Bool) (buf : Bytes) (r : Ref) : (store c buf r).read buf = r.read buf := by
  cases c <;> simp [store, Ref.copy, Ref.read]

theorem read_copy (buf : Bytes) (r : Ref) : (r.copy buf).read buf = r.read buf := rfl

theorem map_map {α β γ} (f : α → β) (g : β → γ) (r : Res α) : (r.map f).map g = r.map (fun x => g (f x)) := by
  cases r <;> rfl

theorem map_id' {α} (f : α → α) (h : ∀ x, f x = x) (r : Res α) : r.map f = r := by
  cases r <;> simp [Res.map, h]

theorem erase_readScalar (pol : Policy) (buf : Bytes) (base : Nat) (site : Site) (k : SK) (d : Dec) (wt : Nat)
    (hs : Sync buf base d) :
    (readScalarP pol buf base site k d wt).map (fun x => (x.1, x.2.erase buf)) = readScalar k d wt := by
  have generic : ((readScalar k d wt).map fun x => (x.1, toPV x.2)).map (fun x => (x.1, x.2.erase buf)) = readScalar k d wt := by
    rw [map_map]; exact map_id' _ (fun x => by simp [erase_toPV]) _
  cases k
  case string =>
    simp only [readScalarP, readScalar, wtOf]
    by_cases hw : wt ≠ wtLen
    · simp [hw, Res.map]
    · simp only [hw, if_false, decOpOf, Dec.step, decodeStringP, decodeBytesP]
      by_cases hoff : d.off ≥ d.len
      · simp [hoff, Res.map]
      · simp only [hoff, if_false]
        rcases bytesWin_cases d with ⟨d', s, l, hw', ho, _, hfit⟩ | ⟨hw', ho⟩ | ⟨hw', ho⟩
        · rw [hw', ho]
          simp only [Res.map, itemToV, PV.erase]
          cases d.fast <;> simp only [read_copy, read_winRef hs hfit, if_true, if_false, Bool.false_eq_true]
        · rw [hw', ho]; simp [Res.map]
        · rw [hw', ho]; simp [Res.map]
  case bytes =>
    simp only [readScalarP, readScalar, wtOf]
    by_cases hw : wt ≠ wtLen
    · simp [hw, Res.map]
    · simp only [hw, if_false, decOpOf, Dec.step, decodeBytesP, withAlloc]
      rcases bytesWin_cases d with ⟨d', s, l, hw', ho, _, hfit⟩ | ⟨hw', ho⟩ | ⟨hw', ho⟩
      · rw [hw', ho]
        simp only [Res.map, itemToV, PV.erase, read_store, read_winRef hs hfit]
      · rw [hw', ho]; simp [Res.map]
      · rw [hw', ho]; simp [Res.map]
  all_goals exact generic


theorem erase_readRepeated (pol : Policy) (buf : Bytes) (base : Nat) (site : Site) (k : SK) (d : Dec) (wt : Nat)
    (hs : Sync buf base d) :
    (readRepeatedP pol buf base site k d wt).map (fun x => (x.1, eraseVs buf x.2)) = readRepeated k d wt := by
  have generic : ((readRepeated k d wt).map fun x => (x.1, toPVs x.2)).map (fun x => (x.1, eraseVs buf x.2)) = readRepeated k d wt := by
    rw [map_map]; exact map_id' _ (fun x => by simp [erase_toPVs]) _
  have lenDelim : packedDecOpOf k = none →
      ((readScalarP pol buf base site k d wt).map fun x => (x.1, [x.2])).map (fun x => (x.1, eraseVs buf x.2)) = readRepeated k d wt := by
    intro hp
    unfold readRepeated
    rw [hp, ← erase_readScalar pol buf base site k d wt hs, map_map, map_map]
    simp only [eraseVs]
  cases k
  case string => exact lenDelim rfl
  case bytes => exact lenDelim rfl
  all_goals exact generic

theorem readScalarP_same {pol : Policy} {buf : Bytes} {base : Nat} {site : Site} {k : SK} {d : Dec} {wt : Nat}
    (hs : Sync buf base d) {d' : Dec} {v : PV} (h : readScalarP pol buf base site k d wt = .ok (d', v)) : Same d d' := by
  have := erase_readScalar pol buf base site k d wt hs
  rw [h] at this
  exact readScalar_same this.symm

theorem readRepeatedP_same {pol : Policy} {buf : Bytes} {base : Nat} {site : Site} {k : SK} {d : Dec} {wt : Nat}
    (hs : Sync buf base d) {d' : Dec} {vs : List PV} (h : readRepeatedP pol buf base site k d wt = .ok (d', vs)) : Same d d' := by
  have := erase_readRepeated pol buf base site k d wt hs
  rw [h] at this
  exact readRepeated_same this.symm

/-- `Skip` in the two models -/
theorem skipP_cases {buf : Bytes} {base : Nat} (d : Dec) (tag wt : Nat) (hs : Sync buf base d) :
    (∃ d' r, skipP base d tag wt = .ok (d', r) ∧ d.skip tag wt = (d', .ok (.bytes (r.read buf))) ∧ Same d d') ∨
    (skipP base d tag wt = .err ∧ d.skip tag wt = (d, .err)) ∨
    (skipP base d tag wt = .panic ∧ d.skip tag wt = (d, .panic)) := by
  unfold skipP
  rcases skipWin_cases d tag wt with ⟨d', s, l, hw, ho, hsame, hfit⟩ | ⟨hw, ho⟩ | ⟨hw, ho⟩
  · rw [hw, ho]; exact .inl ⟨d', _, rfl, by rw [read_winRef hs hfit], hsame⟩
  · rw [hw, ho]; exact .inr (.inl ⟨rfl, rfl⟩)
  · rw [hw, ho]; exact .inr (.inr ⟨rfl, rfl⟩)


/-! ### erasure -/

def eraseStep (buf : Bytes) (x : Dec × PF) : Dec × F := (x.1, x.2.erase buf)

theorem readAll_nil (buf : Bytes) : readAll buf [] = [] := rfl
theorem readAll_snoc (buf : Bytes) (rs : List Ref) (r : Ref) : readAll buf (rs ++ [r]) = readAll buf rs ++ r.read buf := by
  simp [readAll]

/-- value model: the field arm leaves buffer and mode alone -/
theorem fieldStep_same (S : Schema) (fast : Bool) (fuel : Nat) (fd : FD) (wt : Nat) (d : Dec) (cur : F) {d' : Dec} {f : F}
    (h : fieldStep S fast fuel fd wt d cur = .ok (d', f)) : Same d d' := by
  cases fuel with
  | zero => simp [fieldStep] at h
  | succ fuel =>
    simp only [fieldStep] at h
    cases hty : fd.ty with
    | sc k =>
      rw [hty] at h
      simp only [] at h
      have repArm : ((readRepeated k d wt).map fun (x : Dec × List V) => (x.1, appendTo cur x.2)) = .ok (d', f) → Same d d' := by
        intro h
        cases hr : readRepeated k d wt with
        | ok r => rw [hr] at h; simp [Res.map] at h; rw [← h.1]; exact readRepeated_same (vs := r.2) (by rw [hr])
        | err => rw [hr] at h; simp [Res.map] at h
        | panic => rw [hr] at h; simp [Res.map] at h
      have scArm : ((readScalar k d wt).map fun (x : Dec × V) => (x.1, F.one x.2)) = .ok (d', f) → Same d d' := by
        intro h
        cases hr : readScalar k d wt with
        | ok r => rw [hr] at h; simp [Res.map] at h; rw [← h.1]; exact readScalar_same (v := r.2) (by rw [hr])
        | err => rw [hr] at h; simp [Res.map] at h
        | panic => rw [hr] at h; simp [Res.map] at h
      cases hc : fd.card <;> rw [hc] at h <;> first | exact repArm h | exact scArm h
    | msg i =>
      rw [hty] at h
      simp only [] at h
      by_cases hw : wt ≠ wtLen
      · simp [hw] at h
      · simp only [hw, if_false] at h
        have hb := bytesOp_same d
        generalize d.bytesOp = bo at h hb
        obtain ⟨d1, o⟩ := bo
        cases o with
        | ok it =>
          cases it with
          | bytes payload =>
            simp only [] at h
            cases hc : fd.card <;> rw [hc] at h <;> simp only [] at h <;>
              (split at h <;> simp at h <;> (rw [← h.1]; exact hb))
          | _ => simp at h
        | err => simp at h
        | errNested _ => simp at h
        | panic => simp at h


theorem tag_step_same {d d1 : Dec} {o : DecOut} {a : Nat} (h : d.step .tag = (d1, o, a)) : Same d d1 := by
  have := tag_same d; rw [h] at this; exact this

/-- **erasure**, all four mutually recursive parts, by induction on the fuel -/
theorem erase_aux (S : Schema) (pol : Policy) (fast : Bool) (buf : Bytes) : ∀ (fuel : Nat),
    (∀ md base len, (unmarshalMsgP S pol fast buf fuel md base len).map (PMsg.erase buf) =
        unmarshalMsg S fast fuel md ((buf.drop base).take len)) ∧
    (∀ md base d fs unk, Sync buf base d →
        (unmarshalLoopP S pol fast buf fuel md base d fs unk).map (PMsg.erase buf) =
          unmarshalLoop S fast fuel md d (eraseFs buf fs) (readAll buf unk)) ∧
    (∀ fd wt base d cur, Sync buf base d →
        (fieldStepP S pol fast buf fuel fd wt base d cur).map (eraseStep buf) =
          fieldStep S fast fuel fd wt d (cur.erase buf)) ∧
    (∀ emd base d efs, Sync buf base d →
        (entryLoopP S pol fast buf fuel emd base d efs).map (eraseFs buf) =
          entryLoop S fast fuel emd d (eraseFs buf efs)) := by
  intro fuel
  induction fuel with
  | zero =>
    refine ⟨?_, ?_, ?_, ?_⟩
    · intro md base len; simp [unmarshalMsgP, unmarshalMsg, Res.map]
    · intro md base d fs unk _; simp [unmarshalLoopP, unmarshalLoop, Res.map]
    · intro fd wt base d cur _; simp [fieldStepP, fieldStep, Res.map]
    · intro emd base d efs _; simp [entryLoopP, entryLoop, Res.map]
  | succ fuel ih =>
    obtain ⟨ihM, ihL, ihF, ihE⟩ := ih
    refine ⟨?_, ?_, ?_, ?_⟩
    · -- unmarshalMsg
      intro md base len
      simp only [unmarshalMsgP, unmarshalMsg]
      by_cases hc : (!hasRequired md && ((buf.drop base).take len).isEmpty) = true
      · simp only [hc, if_true, Res.map, PMsg.erase, erase_initFields, readAll_nil]
      · simp only [hc, if_false, Bool.false_eq_true]
        have hL := ihL md base { p := (buf.drop base).take len, off := 0, fast := fast } (initFieldsP md) []
          (Sync.new buf base len fast)
        rw [erase_initFields, readAll_nil] at hL
        rw [← hL]
        cases unmarshalLoopP S pol fast buf fuel md base { p := (buf.drop base).take len, off := 0, fast := fast }
            (initFieldsP md) [] with
        | ok r =>
          obtain ⟨fs, unk⟩ := r
          show Res.map (PMsg.erase buf) (if requiredMissingP md fs = true then Res.err else Res.ok (fs, unk)) =
            if requiredMissing md (eraseFs buf fs) = true then Res.err else Res.ok (eraseFs buf fs, readAll buf unk)
          rw [erase_requiredMissing]
          cases requiredMissingP md fs <;> rfl
        | err => rfl
        | panic => rfl
    · -- unmarshalLoop
      intro md base d fs unk hs
      simp only [unmarshalLoopP, unmarshalLoop]
      by_cases hc : d.off < d.len
      · simp only [hc, not_true_eq_false, if_false]
        generalize hr : d.step .tag = r
        obtain ⟨d1, o, a⟩ := r
        have hs1 : Sync buf base d1 := hs.same (tag_step_same hr)
        cases o with
        | ok it =>
          cases it with
          | tag num wt =>
            simp only []
            cases hf : findField md num 0 with
            | some r =>
              obtain ⟨idx, fd⟩ := r
              simp only []
              have hF := ihF fd wt base d1 (fs.getD idx .unset) hs1
              rw [erase_getD, ← hF]
              cases hfs : fieldStepP S pol fast buf fuel fd wt base d1 (fs.getD idx .unset) with
              | ok r2 =>
                obtain ⟨d2, f⟩ := r2
                simp only [Res.map, eraseStep]
                rw [← erase_assign]
                rw [hfs] at hF
                exact ihL md base d2 _ unk (hs1.same (fieldStep_same S fast fuel fd wt d1 _ hF.symm))
              | err => rfl
              | panic => rfl
            | none =>
              simp only [Dec.step, withAlloc]
              rcases skipP_cases d1 num wt hs1 with ⟨d2, r, hp, hv, hsame⟩ | ⟨hp, hv⟩ | ⟨hp, hv⟩
              · rw [hp, hv]
                simp only []
                rw [← read_store (pol .unknownFields d1.fast) buf r, ← readAll_snoc]
                exact ihL md base d2 fs _ (hs1.same hsame)
              · rw [hp, hv]; rfl
              · rw [hp, hv]; rfl
          | _ => simp [Res.map]
        | err => simp [Res.map]
        | errNested _ => simp [Res.map]
        | panic => simp [Res.map]
      · simp only [hc, not_false_eq_true, if_true, Res.map, PMsg.erase]
    · -- fieldStep
      intro fd wt base d cur hs
      simp only [fieldStepP, fieldStep]
      cases hty : fd.ty with
      | sc k =>
        simp only []
        have repArm : ∀ site, ((readRepeatedP pol buf base site k d wt).map fun x => (x.1, appendToP cur x.2)).map (eraseStep buf) =
            (readRepeated k d wt).map fun (x : Dec × List V) => (x.1, appendTo (cur.erase buf) x.2) := by
          intro site
          rw [← erase_readRepeated pol buf base site k d wt hs, map_map, map_map]
          simp only [eraseStep, erase_appendTo]
        have scArm : ∀ site, ((readScalarP pol buf base site k d wt).map fun x => (x.1, PF.one x.2)).map (eraseStep buf) =
            (readScalar k d wt).map fun (x : Dec × V) => (x.1, F.one x.2) := by
          intro site
          rw [← erase_readScalar pol buf base site k d wt hs, map_map, map_map]
          simp only [eraseStep, PF.erase]
        cases fd.card <;> first | exact repArm _ | exact scArm _
      | msg i =>
        simp only []
        by_cases hw : wt ≠ wtLen
        · simp [hw, Res.map]
        · simp only [hw, if_false]
          rcases bytesWin_cases d with ⟨d', s, l, hwin, ho, hsame, hfit⟩ | ⟨hwin, ho⟩ | ⟨hwin, ho⟩
          · rw [hwin, ho]
            simp only []
            have hpay : (d.p.drop s).take l = (buf.drop (base + s)).take l := (read_winRef hs hfit).symm
            rw [hpay]
            cases fd.card with
            | map =>
              simp only []
              have hE := ihE (S.md i) (base + s) { p := (buf.drop (base + s)).take l, off := 0, fast := fast }
                (initFieldsP (S.md i)) (Sync.new buf (base + s) l fast)
              rw [erase_initFields] at hE
              rw [← hE]
              cases entryLoopP S pol fast buf fuel (S.md i) (base + s)
                  { p := (buf.drop (base + s)).take l, off := 0, fast := fast } (initFieldsP (S.md i)) with
              | ok efs =>
                simp only [Res.map, eraseStep]
                erw [← erase_fixEntry]
                cases cur <;> simp [PF.erase, PV.erase, erase_mapInsert, readAll_nil, eraseVs]
              | err => rfl
              | panic => rfl
            | list =>
              simp only []
              rw [← ihM (S.md i) (base + s) l]
              cases unmarshalMsgP S pol fast buf fuel (S.md i) (base + s) l with
              | ok r =>
                obtain ⟨nfs, nunk⟩ := r
                simp only [Res.map, eraseStep, PMsg.erase, erase_appendTo, eraseVs, PV.erase]
              | err => rfl
              | panic => rfl
            | _ =>
              simp only []
              rw [← ihM (S.md i) (base + s) l]
              cases unmarshalMsgP S pol fast buf fuel (S.md i) (base + s) l with
              | ok r =>
                obtain ⟨nfs, nunk⟩ := r
                simp only [Res.map, eraseStep, PMsg.erase, PF.erase, PV.erase]
              | err => rfl
              | panic => rfl
          · rw [hwin, ho]; rfl
          · rw [hwin, ho]; rfl
    · -- entryLoop
      intro emd base d efs hs
      simp only [entryLoopP, entryLoop]
      by_cases hc : d.off < d.len
      · simp only [hc, not_true_eq_false, if_false]
        generalize hr : d.step .tag = r
        obtain ⟨d1, o, a⟩ := r
        have hs1 : Sync buf base d1 := hs.same (tag_step_same hr)
        cases o with
        | ok it =>
          cases it with
          | tag num wt =>
            simp only []
            cases hf : findField emd num 0 with
            | some r =>
              obtain ⟨idx, fd⟩ := r
              simp only []
              have hF := ihF fd wt base d1 (efs.getD idx .unset) hs1
              rw [erase_getD, ← hF]
              cases hfs : fieldStepP S pol fast buf fuel fd wt base d1 (efs.getD idx .unset) with
              | ok r2 =>
                obtain ⟨d2, f⟩ := r2
                simp only [Res.map, eraseStep]
                rw [← erase_set]
                rw [hfs] at hF
                exact ihE emd base d2 _ (hs1.same (fieldStep_same S fast fuel fd wt d1 _ hF.symm))
              | err => rfl
              | panic => rfl
            | none =>
              simp only [Dec.step, withAlloc]
              rcases skipP_cases d1 num wt hs1 with ⟨d2, r, hp, hv, hsame⟩ | ⟨hp, hv⟩ | ⟨hp, hv⟩
              · rw [hp, hv]
                simp only []
                exact ihE emd base d2 efs (hs1.same hsame)
              · rw [hp, hv]; rfl
              · rw [hp, hv]; rfl
          | _ => simp [Res.map]
        | err => simp [Res.map]
        | errNested _ => simp [Res.map]
        | panic => simp [Res.map]
      · simp only [hc, not_false_eq_true, if_true, Res.map]


/-- **ERASURE**: reading every reference of the provenance result against the input is exactly the value
    model's `Unmarshal` — whatever the copy discipline, in either mode, errors and panics included -/
theorem unmarshalP_erase (S : Schema) (pol : Policy) (fast : Bool) (md : MD) (p : Bytes) :
    (unmarshalP S pol fast md p).map (PMsg.erase p) = unmarshal S fast md p := by
  have := (erase_aux S pol fast p (3 * p.length + 8)).1 md 0 p.length
  simpa [unmarshalP, unmarshal] using this


/-! ### ownership -/

theorem fieldStepP_same {S : Schema} {pol : Policy} {fast : Bool} {buf : Bytes} {fuel : Nat} {fd : FD} {wt base : Nat}
    {d : Dec} {cur : PF} (hs : Sync buf base d) {d' : Dec} {f : PF}
    (h : fieldStepP S pol fast buf fuel fd wt base d cur = .ok (d', f)) : Same d d' := by
  have := (erase_aux S pol fast buf fuel).2.2.1 fd wt base d cur hs
  rw [h] at this
  exact fieldStep_same S fast fuel fd wt d _ this.symm

theorem skipP_same {buf : Bytes} {base : Nat} {d : Dec} {tag wt : Nat} (hs : Sync buf base d) {d' : Dec} {r : Ref}
    (h : skipP base d tag wt = .ok (d', r)) : Same d d' := by
  rcases skipP_cases d tag wt hs with ⟨d2, r2, hp, _, hsame⟩ | ⟨hp, _⟩ | ⟨hp, _⟩
  · rw [hp] at h; simp at h; rw [← h.1]; exact hsame
  · rw [hp] at h; simp at h
  · rw [hp] at h; simp at h

theorem owned_store_true (buf : Bytes) (r : Ref) : (store true buf r).isOwned = true := rfl

theorem owned_getD {fs : List PF} (h : ownedFs fs = true) (idx : Nat) : (fs.getD idx .unset).owned = true := by
  rw [List.getD_eq_getElem?_getD]
  cases hi : fs[idx]? with
  | none => rfl
  | some f => exact (ownedFs_iff fs).mp h f (List.mem_of_getElem? hi)

theorem owned_set {fs : List PF} (h : ownedFs fs = true) (idx : Nat) {f : PF} (hf : f.owned = true) :
    ownedFs (fs.set idx f) = true := by
  rw [ownedFs_iff] at h ⊢
  intro x hx
  rcases List.mem_or_eq_of_mem_set hx with hx | hx
  · exact h x hx
  · rw [hx]; exact hf

theorem owned_assign (md : MD) {fs : List PF} (h : ownedFs fs = true) (idx : Nat) (fd : FD) {f : PF} (hf : f.owned = true) :
    ownedFs (assignP md fs idx fd f) = true := by
  unfold assignP
  apply owned_set _ idx hf
  cases fd.card with
  | oneof g =>
    simp only []
    rw [ownedFs_iff] at h ⊢
    intro x hx
    obtain ⟨p, hp, rfl⟩ := List.mem_map.mp hx
    split
    · rfl
    · exact h p.2 (List.of_mem_zip hp).2
  | _ => exact h

theorem owned_append {a b : List PV} (ha : ownedVs a = true) (hb : ownedVs b = true) : ownedVs (a ++ b) = true := by
  rw [ownedVs_iff] at ha hb ⊢
  intro x hx
  rcases List.mem_append.mp hx with hx | hx
  · exact ha x hx
  · exact hb x hx

theorem owned_appendTo {cur : PF} (hc : cur.owned = true) {vs : List PV} (hv : ownedVs vs = true) :
    (appendToP cur vs).owned = true := by
  cases cur with
  | many old => simp only [appendToP, PF.owned] at hc ⊢; exact owned_append hc hv
  | unset => simpa [appendToP, PF.owned] using hv
  | one v => simpa [appendToP, PF.owned] using hv

theorem owned_mapInsert (buf : Bytes) {e : PV} (he : e.owned = true) {es : List PV} (hes : ownedVs es = true) :
    ownedVs (mapInsertP buf e es) = true := by
  induction es with
  | nil => simp [mapInsertP, ownedVs, he]
  | cons x xs ih =>
    simp only [ownedVs, Bool.and_eq_true] at hes
    simp only [mapInsertP]
    split
    · simp [ownedVs, he, hes.2]
    · simp [ownedVs, hes.1, ih hes.2]

theorem owned_initFields (md : MD) : ownedFs (initFieldsP md) = true := owned_toPFs _

theorem owned_fixEntry (S : Schema) (emd : MD) {efs : List PF} (h : ownedFs efs = true) :
    ownedFs (fixEntryP S emd efs) = true := by
  unfold fixEntryP
  rw [ownedFs_iff] at h ⊢
  intro x hx
  obtain ⟨p, hp, rfl⟩ := List.mem_map.mp hx
  have hp2 := h p.2 (List.of_mem_zip hp).2
  split
  · simp [PF.owned, PV.owned, owned_initFields]
  · exact hp2

theorem owned_readScalar {pol : Policy} (hpol : ∀ site, pol site false = true) {buf : Bytes} {base : Nat} {site : Site}
    {k : SK} {d : Dec} {wt : Nat} (hf : d.fast = false) {d' : Dec} {v : PV}
    (h : readScalarP pol buf base site k d wt = .ok (d', v)) : v.owned = true := by
  have generic : ((readScalar k d wt).map fun x => (x.1, toPV x.2)) = .ok (d', v) → v.owned = true := by
    intro h
    cases hr : readScalar k d wt with
    | ok r => rw [hr] at h; simp [Res.map] at h; rw [← h.2]; exact owned_toPV _
    | err => rw [hr] at h; simp [Res.map] at h
    | panic => rw [hr] at h; simp [Res.map] at h
  cases k
  case string =>
    simp only [readScalarP, decodeStringP, hf] at h
    split at h
    · simp at h
    · split at h
      · simp [Res.map] at h
      · split at h <;> simp [Res.map] at h
        rw [← h.2]; rfl
  case bytes =>
    simp only [readScalarP, hf, hpol] at h
    split at h
    · simp at h
    · cases hb : decodeBytesP base d with
      | ok r => rw [hb] at h; simp [Res.map] at h; rw [← h.2]; rfl
      | err => rw [hb] at h; simp [Res.map] at h
      | panic => rw [hb] at h; simp [Res.map] at h
  all_goals exact generic h

theorem owned_readRepeated {pol : Policy} (hpol : ∀ site, pol site false = true) {buf : Bytes} {base : Nat} {site : Site}
    {k : SK} {d : Dec} {wt : Nat} (hf : d.fast = false) {d' : Dec} {vs : List PV}
    (h : readRepeatedP pol buf base site k d wt = .ok (d', vs)) : ownedVs vs = true := by
  have generic : ((readRepeated k d wt).map fun x => (x.1, toPVs x.2)) = .ok (d', vs) → ownedVs vs = true := by
    intro h
    cases hr : readRepeated k d wt with
    | ok r => rw [hr] at h; simp [Res.map] at h; rw [← h.2]; exact owned_toPVs _
    | err => rw [hr] at h; simp [Res.map] at h
    | panic => rw [hr] at h; simp [Res.map] at h
  have lenDelim : ((readScalarP pol buf base site k d wt).map fun x => (x.1, [x.2])) = .ok (d', vs) → ownedVs vs = true := by
    intro h
    cases hr : readScalarP pol buf base site k d wt with
    | ok r =>
      rw [hr] at h; simp [Res.map] at h; rw [← h.2]
      simp [ownedVs, owned_readScalar hpol hf (v := r.2) (by rw [hr])]
    | err => rw [hr] at h; simp [Res.map] at h
    | panic => rw [hr] at h; simp [Res.map] at h
  cases k
  case string => exact lenDelim h
  case bytes => exact lenDelim h
  all_goals exact generic h


/-- **ownership**, all four mutually recursive parts, by induction on the fuel: in safe mode, with a policy that
    copies at every site in safe mode, nothing stored is a window -/
theorem owned_aux (S : Schema) (pol : Policy) (hpol : ∀ site, pol site false = true) (buf : Bytes) : ∀ (fuel : Nat),
    (∀ md base len m, unmarshalMsgP S pol false buf fuel md base len = .ok m → m.owned = true) ∧
    (∀ md base d fs unk m, Sync buf base d → d.fast = false → ownedFs fs = true → unk.all Ref.isOwned = true →
        unmarshalLoopP S pol false buf fuel md base d fs unk = .ok m → m.owned = true) ∧
    (∀ fd wt base d cur d' f, Sync buf base d → d.fast = false → cur.owned = true →
        fieldStepP S pol false buf fuel fd wt base d cur = .ok (d', f) → f.owned = true) ∧
    (∀ emd base d efs r, Sync buf base d → d.fast = false → ownedFs efs = true →
        entryLoopP S pol false buf fuel emd base d efs = .ok r → ownedFs r = true) := by
  intro fuel
  induction fuel with
  | zero =>
    refine ⟨?_, ?_, ?_, ?_⟩
    · intro md base len m h; simp [unmarshalMsgP] at h
    · intro md base d fs unk m _ _ _ _ h; simp [unmarshalLoopP] at h
    · intro fd wt base d cur d' f _ _ _ h; simp [fieldStepP] at h
    · intro emd base d efs r _ _ _ h; simp [entryLoopP] at h
  | succ fuel ih =>
    obtain ⟨ihM, ihL, ihF, ihE⟩ := ih
    refine ⟨?_, ?_, ?_, ?_⟩
    · -- unmarshalMsg
      intro md base len m h
      simp only [unmarshalMsgP] at h
      split at h
      · simp only [Res.ok.injEq] at h
        rw [← h]; simp [PMsg.owned, owned_initFields]
      · have hL := ihL md base { p := (buf.drop base).take len, off := 0, fast := false } (initFieldsP md) []
        cases hl : unmarshalLoopP S pol false buf fuel md base { p := (buf.drop base).take len, off := 0, fast := false }
            (initFieldsP md) [] with
        | ok r =>
          rw [hl] at h
          obtain ⟨fs, unk⟩ := r
          simp only [] at h
          split at h
          · simp at h
          · simp only [Res.ok.injEq] at h
            rw [← h]
            exact hL (fs, unk) (Sync.new buf base len false) rfl (owned_initFields md) rfl hl
        | err => rw [hl] at h; simp at h
        | panic => rw [hl] at h; simp at h
    · -- unmarshalLoop
      intro md base d fs unk m hs hfast hfs hunk h
      simp only [unmarshalLoopP] at h
      split at h
      · simp only [Res.ok.injEq] at h
        rw [← h]; simp [PMsg.owned, hfs, hunk]
      · generalize hr : d.step .tag = r at h
        obtain ⟨d1, o, a⟩ := r
        have hsame1 := tag_step_same hr
        have hs1 : Sync buf base d1 := hs.same hsame1
        have hfast1 : d1.fast = false := hsame1.2.trans hfast
        cases o with
        | ok it =>
          cases it with
          | tag num wt =>
            simp only [] at h
            cases hf : findField md num 0 with
            | some r =>
              rw [hf] at h
              obtain ⟨idx, fd⟩ := r
              simp only [] at h
              cases hfs' : fieldStepP S pol false buf fuel fd wt base d1 (fs.getD idx .unset) with
              | ok r2 =>
                rw [hfs'] at h
                obtain ⟨d2, f⟩ := r2
                simp only [] at h
                have hsame2 := fieldStepP_same hs1 hfs'
                have hfo := ihF fd wt base d1 _ d2 f hs1 hfast1 (owned_getD hfs idx) hfs'
                exact ihL md base d2 _ unk m (hs1.same hsame2) (hsame2.2.trans hfast1)
                  (owned_assign md hfs idx fd hfo) hunk h
              | err => rw [hfs'] at h; simp at h
              | panic => rw [hfs'] at h; simp at h
            | none =>
              rw [hf] at h
              simp only [] at h
              cases hsk : skipP base d1 num wt with
              | ok r2 =>
                rw [hsk] at h
                obtain ⟨d2, r⟩ := r2
                simp only [] at h
                have hsame2 := skipP_same hs1 hsk
                refine ihL md base d2 fs _ m (hs1.same hsame2) (hsame2.2.trans hfast1) hfs ?_ h
                rw [hfast1, hpol]
                simp [hunk, owned_store_true]
              | err => rw [hsk] at h; simp at h
              | panic => rw [hsk] at h; simp at h
          | _ => simp at h
        | err => simp at h
        | errNested _ => simp at h
        | panic => simp at h
    · -- fieldStep
      intro fd wt base d cur d' f hs hfast hcur h
      simp only [fieldStepP] at h
      cases hty : fd.ty with
      | sc k =>
        rw [hty] at h
        simp only [] at h
        have repArm : ∀ site, ((readRepeatedP pol buf base site k d wt).map fun x => (x.1, appendToP cur x.2)) = .ok (d', f) →
            f.owned = true := by
          intro site h
          cases hr : readRepeatedP pol buf base site k d wt with
          | ok r =>
            rw [hr] at h; simp [Res.map] at h; rw [← h.2]
            exact owned_appendTo hcur (owned_readRepeated hpol hfast (vs := r.2) (by rw [hr]))
          | err => rw [hr] at h; simp [Res.map] at h
          | panic => rw [hr] at h; simp [Res.map] at h
        have scArm : ∀ site, ((readScalarP pol buf base site k d wt).map fun x => (x.1, PF.one x.2)) = .ok (d', f) →
            f.owned = true := by
          intro site h
          cases hr : readScalarP pol buf base site k d wt with
          | ok r =>
            rw [hr] at h; simp [Res.map] at h; rw [← h.2]
            simp only [PF.owned]
            exact owned_readScalar hpol hfast (v := r.2) (by rw [hr])
          | err => rw [hr] at h; simp [Res.map] at h
          | panic => rw [hr] at h; simp [Res.map] at h
        cases hc : fd.card <;> rw [hc] at h <;> first | exact repArm _ h | exact scArm _ h
      | msg i =>
        rw [hty] at h
        simp only [] at h
        by_cases hw : wt ≠ wtLen
        · simp [hw] at h
        · simp only [hw, if_false] at h
          generalize d.bytesWin = bw at h
          obtain ⟨d1, o⟩ := bw
          cases o with
          | ok w =>
            obtain ⟨s, l⟩ := w
            simp only [] at h
            cases hc : fd.card with
            | map =>
              rw [hc] at h
              simp only [] at h
              cases he : entryLoopP S pol false buf fuel (S.md i) (base + s)
                  { p := (buf.drop (base + s)).take l, off := 0, fast := false } (initFieldsP (S.md i)) with
              | ok efs =>
                rw [he] at h
                simp only [Res.ok.injEq, Prod.mk.injEq] at h
                have hE := ihE (S.md i) (base + s) _ _ efs (Sync.new buf (base + s) l false) rfl
                  (owned_initFields (S.md i)) he
                have hentry : (PV.msg (fixEntryP S (S.md i) efs) []).owned = true := by
                  simp [PV.owned, owned_fixEntry S (S.md i) hE]
                rw [← h.2]
                cases cur with
                | many es =>
                  simp only [PF.owned] at hcur ⊢
                  exact owned_mapInsert buf hentry hcur
                | unset => simp only [PF.owned, ownedVs, hentry, Bool.and_self]
                | one v => simp only [PF.owned, ownedVs, hentry, Bool.and_self]
              | err => rw [he] at h; simp at h
              | panic => rw [he] at h; simp at h
            | list =>
              rw [hc] at h
              simp only [] at h
              cases hm : unmarshalMsgP S pol false buf fuel (S.md i) (base + s) l with
              | ok r =>
                rw [hm] at h
                obtain ⟨nfs, nunk⟩ := r
                simp only [Res.ok.injEq, Prod.mk.injEq] at h
                have hM := ihM (S.md i) (base + s) l _ hm
                rw [← h.2]
                apply owned_appendTo hcur
                simpa [ownedVs, PV.owned, PMsg.owned] using hM
              | err => rw [hm] at h; simp at h
              | panic => rw [hm] at h; simp at h
            | _ =>
              rw [hc] at h
              simp only [] at h
              cases hm : unmarshalMsgP S pol false buf fuel (S.md i) (base + s) l with
              | ok r =>
                rw [hm] at h
                obtain ⟨nfs, nunk⟩ := r
                simp only [Res.ok.injEq, Prod.mk.injEq] at h
                have hM := ihM (S.md i) (base + s) l _ hm
                rw [← h.2]
                simpa [PF.owned, PV.owned, PMsg.owned] using hM
              | err => rw [hm] at h; simp at h
              | panic => rw [hm] at h; simp at h
          | err => simp at h
          | panic => simp at h
    · -- entryLoop
      intro emd base d efs r hs hfast hefs h
      simp only [entryLoopP] at h
      split at h
      · simp only [Res.ok.injEq] at h
        rw [← h]; exact hefs
      · generalize hr : d.step .tag = q at h
        obtain ⟨d1, o, a⟩ := q
        have hsame1 := tag_step_same hr
        have hs1 : Sync buf base d1 := hs.same hsame1
        have hfast1 : d1.fast = false := hsame1.2.trans hfast
        cases o with
        | ok it =>
          cases it with
          | tag num wt =>
            simp only [] at h
            cases hf : findField emd num 0 with
            | some q =>
              rw [hf] at h
              obtain ⟨idx, fd⟩ := q
              simp only [] at h
              cases hfs' : fieldStepP S pol false buf fuel fd wt base d1 (efs.getD idx .unset) with
              | ok r2 =>
                rw [hfs'] at h
                obtain ⟨d2, f⟩ := r2
                simp only [] at h
                have hsame2 := fieldStepP_same hs1 hfs'
                have hfo := ihF fd wt base d1 _ d2 f hs1 hfast1 (owned_getD hefs idx) hfs'
                exact ihE emd base d2 _ r (hs1.same hsame2) (hsame2.2.trans hfast1) (owned_set hefs idx hfo) h
              | err => rw [hfs'] at h; simp at h
              | panic => rw [hfs'] at h; simp at h
            | none =>
              rw [hf] at h
              simp only [] at h
              cases hsk : skipP base d1 num wt with
              | ok r2 =>
                rw [hsk] at h
                obtain ⟨d2, r'⟩ := r2
                simp only [] at h
                have hsame2 := skipP_same hs1 hsk
                exact ihE emd base d2 efs r (hs1.same hsame2) (hsame2.2.trans hfast1) hefs h
              | err => rw [hsk] at h; simp at h
              | panic => rw [hsk] at h; simp at h
          | _ => simp at h
        | err => simp at h
        | errNested _ => simp at h
        | panic => simp at h


/-- **SAFE MODE OWNS EVERYTHING** (policy-generic form): safe mode + a policy that copies at every site in safe
    mode ⇒ no `alias` at any depth of the result -/
theorem unmarshalP_owned (S : Schema) (pol : Policy) (hpol : ∀ site, pol site false = true) (md : MD) (p : Bytes)
    {m : PMsg} (h : unmarshalP S pol false md p = .ok m) : m.owned = true :=
  (owned_aux S pol hpol p _).1 md 0 p.length m h

/-- an owned message reads the same against any two buffers -/
theorem erase_owned_msg (buf buf' : Bytes) (m : PMsg) (h : m.owned = true) : m.erase buf' = m.erase buf := by
  simp only [PMsg.owned, Bool.and_eq_true] at h
  simp only [PMsg.erase, erase_owned_Fs buf buf' m.1 h.1, readAll_owned buf buf' m.2 h.2]

end Csproto.Prov
