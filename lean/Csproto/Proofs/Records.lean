import Csproto.Proofs.Dec
import Csproto.Proofs.Skip
/-
  Well-formed top-level records as a reference parser sees them, shared by C13/C14 (lazy decoding)
  and C20 (protodump).
-/
namespace Csproto

inductive Rec where
  | varint (tag v : Nat)
  | fixed32 (tag v : Nat)
  | fixed64 (tag v : Nat)
  | len (tag : Nat) (b : Bytes)
deriving Repr

def Rec.tag : Rec → Nat
  | .varint t _ | .fixed32 t _ | .fixed64 t _ | .len t _ => t

def Rec.wt : Rec → Nat
  | .varint .. => wtVarint | .fixed32 .. => wtFixed32 | .fixed64 .. => wtFixed64 | .len .. => wtLen

def Rec.OK : Rec → Prop
  | .varint t v => 1 ≤ t ∧ t ≤ maxTagValue ∧ v < two64
  | .fixed32 t v => 1 ≤ t ∧ t ≤ maxTagValue ∧ v < two32
  | .fixed64 t v => 1 ≤ t ∧ t ≤ maxTagValue ∧ v < two64
  | .len t b => 1 ≤ t ∧ t ≤ maxTagValue ∧ b.length ≤ maxFieldLen

/-- the raw value bytes a reference parser attributes to the record (what lazyproto records) -/
def Rec.chunk : Rec → Bytes
  | .varint _ v => encVarint v
  | .fixed32 _ v => encFixed32 v
  | .fixed64 _ v => encFixed64 v
  | .len _ b => b

/-- the bytes after the key -/
def Rec.body : Rec → Bytes
  | .len _ b => encVarint b.length ++ b
  | r => r.chunk

def Rec.wire (r : Rec) : Bytes := encTag r.tag r.wt ++ r.body

theorem Rec.tag_ok {r : Rec} (h : r.OK) : 1 ≤ r.tag ∧ r.tag ≤ maxTagValue := by
  cases r <;> exact ⟨h.1, h.2.1⟩

theorem Rec.wt_lt (r : Rec) : r.wt < 8 := by cases r <;> simp [Rec.wt, wtVarint, wtFixed32, wtFixed64, wtLen]

theorem Rec.body_wf {r : Rec} (h : r.OK) : WFPayload r.wt r.body := by
  cases r with
  | varint t v => exact WFPayload.varint v h.2.2
  | fixed32 t v => exact WFPayload.fixed32 _ (by simp [Rec.body, Rec.chunk, encFixed32])
  | fixed64 t v => exact WFPayload.fixed64 _ (by simp [Rec.body, Rec.chunk, encFixed64])
  | len t b => exact WFPayload.len b h.2.2

theorem Rec.wire_ne_nil (r : Rec) : r.wire ≠ [] := by
  simp [Rec.wire, encTag, encVarint_ne_nil]

def wiresOf (rs : List Rec) : Bytes := (rs.map Rec.wire).flatten

theorem wiresOf_cons (r : Rec) (rs : List Rec) : wiresOf (r :: rs) = r.wire ++ wiresOf rs := by
  simp [wiresOf]

theorem length_le_wiresOf (rs : List Rec) : rs.length ≤ (wiresOf rs).length := by
  induction rs with
  | nil => simp [wiresOf]
  | cons r rs ih =>
    have := List.length_pos_iff.mpr (Rec.wire_ne_nil r)
    rw [wiresOf_cons]; simp; omega

end Csproto
