import Csproto.Proofs.Dec
/-
  `Decoder.Skip` on a well-formed field returns exactly the field's raw bytes (key and payload)
  and leaves the cursor on the next field.
-/
namespace Csproto

/-- payloads a conforming writer emits for each supported wire type -/
inductive WFPayload : Nat → Bytes → Prop
  | varint (v : Nat) (hv : v < two64) : WFPayload wtVarint (encVarint v)
  | fixed64 (b : Bytes) (h : b.length = 8) : WFPayload wtFixed64 b
  | fixed32 (b : Bytes) (h : b.length = 4) : WFPayload wtFixed32 b
  | len (body : Bytes) (h : body.length ≤ maxFieldLen) : WFPayload wtLen (encVarint body.length ++ body)

theorem WFPayload.ne_nil {wt : Nat} {p : Bytes} (h : WFPayload wt p) : p ≠ [] := by
  cases h with
  | varint v hv => exact encVarint_ne_nil v
  | fixed64 b h => intro e; subst e; simp at h
  | fixed32 b h => intro e; subst e; simp at h
  | len body h => simp [encVarint_ne_nil]

theorem WFPayload.wt_lt {wt : Nat} {p : Bytes} (h : WFPayload wt p) : wt < 8 := by
  cases h <;> decide

theorem drop_take_mid (pre mid post : Bytes) : ((pre ++ mid ++ post).drop pre.length).take mid.length = mid := by
  simp

theorem Dec.skip_at {d : Dec} {pre payload post : Bytes} {tag wt : Nat}
    (h1 : 1 ≤ tag) (ht : tag ≤ maxTagValue) (hp : WFPayload wt payload)
    (h : d.At (pre ++ encTag tag wt) (payload ++ post))
    (hkey : d.ke = d.off ∧ d.ke > d.ks → d.ks = pre.length) :
    d.skip tag wt = ({ d with off := d.off + payload.length }, .ok (.bytes (encTag tag wt ++ payload))) := by
  have hw := hp.wt_lt
  have hne : payload ++ post ≠ [] := by simp [hp.ne_nil]
  have hsz : sizeOfTagKey tag = (encTag tag wt).length := sizeOfTagKey_eq_length ht hw
  have hoff : d.off = pre.length + (encTag tag wt).length := by rw [h.off]; simp
  have hbof0 : d.off - sizeOfTagKey tag = pre.length := by rw [hsz, hoff]; omega
  have hbof : (if d.ke = d.off ∧ d.ke > d.ks then d.ks else d.off - sizeOfTagKey tag) = pre.length := by
    by_cases hc : d.ke = d.off ∧ d.ke > d.ks
    · rw [if_pos hc]; exact hkey hc
    · rw [if_neg hc]; exact hbof0
  have hk64 : keyOf tag wt < two64 := by
    have := keyOf_lt ht hw; unfold two32 at this; unfold two64; omega
  have hks := keyOf_shift ht hw
  have hpp : d.p = pre ++ (encTag tag wt ++ (payload ++ post)) := by rw [h.p]; simp
  have hslice : sliceFrom d.p pre.length = .ok (encTag tag wt ++ (payload ++ post)) := by
    unfold sliceFrom; rw [hpp]; simp
  have hcheck : d.skipCheck tag wt pre.length (sizeOfTagKey tag) = .ok () := by
    unfold Dec.skipCheck
    by_cases hf : d.fast
    · simp [hf]
    · simp only [hf, if_false, hslice]
      unfold encTag
      rw [decodeVarint_encVarint _ hk64]
      simp [hsz, encTag, hks.1, hks.2]
  have hskipped : d.skipLen wt = .ok payload.length := by
    unfold Dec.skipLen
    cases hp with
    | varint v hv =>
      simp only [if_true, h.slice]
      rw [decodeVarint_encVarint v hv]; rfl
    | fixed64 b hb => simp [wtFixed64, wtVarint, hb]
    | fixed32 b hb => simp [wtFixed32, wtVarint, wtFixed64, wtLen, hb]
    | len body hb =>
      have hl64 : body.length < two64 := by unfold maxFieldLen at hb; unfold two64; omega
      have hn := encVarint_length_pos body.length
      have hn0 : ¬ (encVarint body.length).length = 0 := by omega
      have hm : ¬ body.length > maxFieldLen := by omega
      simp only [wtLen, wtVarint, wtFixed64, h.slice]
      rw [List.append_assoc, decodeVarint_encVarint _ hl64]
      simp [hn0, hm]
  unfold Dec.skip
  simp only [h.not_eof hne, if_false, hbof]
  simp only [hcheck, hskipped]
  have hfit : ¬ (d.off + payload.length > d.len) := by rw [h.len, h.off]; simp
  simp only [hfit, if_false]
  have hlen : d.off + payload.length - pre.length = (encTag tag wt ++ payload).length := by
    rw [hoff]; simp; omega
  have hp3 : d.p = pre ++ (encTag tag wt ++ payload) ++ post := by rw [h.p]; simp
  rw [hlen, hp3, drop_take_mid]

end Csproto
