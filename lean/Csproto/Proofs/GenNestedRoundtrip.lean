import Csproto.Proofs.GenNested
import Csproto.Proofs.GenRoundtrip
/-
  Round trip with nested messages: for message types built from scalar fields and message-typed
  fields (singular, repeated, members of real oneofs; any depth; recursive types), what the generated
  `Marshal` writes is a tree of well-formed records, and the generated `Unmarshal` turns it back into the
  message.  (Maps are outside this theorem; unknown fields are carried at the top level only.)
-/
namespace Csproto.Gen
open Csproto Csproto.C01

mutual
/-- the record tree `Marshal` writes for a message value -/
def recsFields (S : Schema) : Nat → MD → List F → List NRec
  | base, fd :: md, f :: fs => recsField S base fd f ++ recsFields S (base + 1) md fs
  | _, _, _ => []
def recsField (S : Schema) (idx : Nat) (fd : FD) : F → List NRec
  | .unset => []
  | .one v =>
    match fd.ty with
    | .sc _ => (fieldRecs idx fd (.one v)).map NRec.flat
    | .msg i => [.msg idx fd i (recsV S (S.md i) v)]
  | .many vs =>
    match fd.ty with
    | .sc _ => (fieldRecs idx fd (.many vs)).map NRec.flat
    | .msg i => recsList S idx fd i vs
def recsV (S : Schema) (md : MD) : V → List NRec
  | .msg fs _ => recsFields S 0 md fs
  | _ => []
def recsList (S : Schema) (idx : Nat) (fd : FD) (i : Nat) : List V → List NRec
  | [] => []
  | v :: vs =>
    -- a nil-valued entry of a message-valued map: no record
    if fd.card.isMap && nilEntry (S.md i) v then recsList S idx fd i vs
    else .msg idx fd i (recsV S (S.md i) v) :: recsList S idx fd i vs
end

mutual
/-- the message after a round trip -/
def canonFs (S : Schema) : MD → List F → List F
  | fd :: md, f :: fs => canonF S fd f :: canonFs S md fs
  | md, _ => md.map initField
def canonF (S : Schema) (fd : FD) : F → F
  | .unset => initField fd
  | .one v =>
    match fd.ty with
    | .sc _ => canonField fd (.one v)
    | .msg i => .one (canonV S (S.md i) v)
  | .many vs =>
    match fd.ty with
    | .sc _ => canonField fd (.many vs)
    | .msg i => .many (canonVs S (S.md i) fd.card.isMap vs)
def canonV (S : Schema) (md : MD) : V → V
  | .msg fs _ => .msg (canonFs S md fs) []
  | v => v
/-- … of the elements of a repeated message field (`sk = false`) / the entries of a map field (`sk = true`: an entry
    whose message value is a nil pointer was not written, so it is not there after the round trip) -/
def canonVs (S : Schema) (md : MD) (sk : Bool) : List V → List V
  | [] => []
  | v :: vs => if sk && nilEntry md v then canonVs S md sk vs else canonV S md v :: canonVs S md sk vs
end

mutual
/-- nested messages carry no unknown fields of their own (the top level may) -/
def CleanFs : List F → Prop
  | [] => True
  | f :: fs => CleanF f ∧ CleanFs fs
def CleanF : F → Prop
  | .unset => True
  | .one v => CleanV v
  | .many vs => CleanVs vs
def CleanV : V → Prop
  | .msg fs unk => unk = [] ∧ CleanFs fs
  | _ => True
def CleanVs : List V → Prop
  | [] => True
  | v :: vs => CleanV v ∧ CleanVs vs
end

theorem wiresN_append (a b : List NRec) : wiresN (a ++ b) = wiresN a ++ wiresN b := by
  induction a with
  | nil => simp [wiresN]
  | cons r a ih => simp [wiresN_cons, ih]

theorem wiresN_flat (rs : List WRec) : wiresN (rs.map NRec.flat) = wiresW rs := by
  induction rs with
  | nil => rfl
  | cons r rs ih => simp [wiresN_cons, wiresW_cons, NRec.wire, ih]

mutual
/-- the bytes of the encoder calls are the wires of the record tree -/
theorem ops_recsFields (S : Schema) : ∀ (base : Nat) (md : MD) (fs : List F) (ops : List EncOp),
    OKFields S md fs → CleanFs fs → opsFields S md fs = .ok ops → wiresOf ops = wiresN (recsFields S base md fs)
  | _, [], _, ops, _, _, ho => by simp only [opsFields] at ho; cases ho; simp [recsFields, wiresOf, wiresN]
  | _, _ :: _, [], ops, _, _, ho => by simp only [opsFields] at ho; cases ho; simp [recsFields, wiresOf, wiresN]
  | base, fd :: md, f :: fs, ops, hok, hcl, ho => by
    simp only [CleanFs] at hcl
    simp only [OKFields] at hok
    simp only [opsFields] at ho
    cases ha : opsField S fd f with
    | ok a =>
      rw [ha] at ho
      cases hb : opsFields S md fs with
      | ok b =>
        rw [hb] at ho; cases ho
        rw [wiresOf_append, recsFields, wiresN_append, ops_recsField S base fd f a hok.1 hcl.1 ha,
          ops_recsFields S (base + 1) md fs b hok.2 hcl.2 hb]
      | err => rw [hb] at ho; cases ho
      | panic => rw [hb] at ho; cases ho
    | err => rw [ha] at ho; cases ho
    | panic => rw [ha] at ho; cases ho
theorem ops_recsField (S : Schema) (idx : Nat) (fd : FD) : ∀ (f : F) (ops : List EncOp),
    OKField S fd f → CleanF f → opsField S fd f = .ok ops → wiresOf ops = wiresN (recsField S idx fd f)
  | .unset, ops, _, _, ho => by
    simp only [opsField] at ho
    split at ho <;> cases ho
    simp [recsField, wiresOf, wiresN]
  | .one v, ops, hok, hcl, ho => by
    simp only [CleanF] at hcl
    simp only [OKField] at hok
    cases hty : fd.ty with
    | sc k =>
      have := opsField_recs S idx fd k hty (.one v) ops ho
      simp only [recsField, hty, wiresN_flat, wiresW_eq_wiresOf, ← this]
    | msg i =>
      simp only [hty] at hok
      simp only [opsField, hty] at ho
      cases hb : bytesMsgV S (S.md i) v with
      | ok body =>
        rw [hb] at ho; cases ho
        have hl := msgV_exact S (S.md i) v body hok.2 hb
        have hbody := bytes_recsV S (S.md i) v body hok.2 hcl hb
        simp [recsField, hty, wiresOf, wiresN, NRec.wire, EncOp.wire, hl, ← hbody]
      | err => rw [hb] at ho; cases ho
      | panic => rw [hb] at ho; cases ho
  | .many vs, ops, hok, hcl, ho => by
    simp only [CleanF] at hcl
    simp only [OKField] at hok
    cases hty : fd.ty with
    | sc k =>
      have := opsField_recs S idx fd k hty (.many vs) ops ho
      simp only [recsField, hty, wiresN_flat, wiresW_eq_wiresOf, ← this]
    | msg i =>
      simp only [hty] at hok
      simp only [opsField, hty] at ho
      simp only [recsField, hty]
      exact ops_recsList S idx fd i vs ops hok.2 hcl ho
theorem bytes_recsV (S : Schema) (md : MD) : ∀ (v : V) (body : Bytes),
    OKMsgV S md v → CleanV v → bytesMsgV S md v = .ok body → body = wiresN (recsV S md v)
  | .msg fs unk, body, hok, hcl, hb => by
    simp only [CleanV] at hcl
    obtain ⟨hu, hcf⟩ := hcl
    subst hu
    simp only [OKMsgV] at hok
    simp only [bytesMsgV] at hb
    cases ho : opsFields S md fs with
    | ok ops =>
      rw [ho] at hb; cases hb
      simp [recsV, ops_recsFields S 0 md fs ops hok hcf ho]
    | err => rw [ho] at hb; cases hb
    | panic => rw [ho] at hb; cases hb
  | .num _, body, _, _, hb => by simp only [bytesMsgV] at hb; cases hb; simp [recsV, wiresN]
  | .bs _, body, _, _, hb => by simp only [bytesMsgV] at hb; cases hb; simp [recsV, wiresN]
theorem ops_recsList (S : Schema) (idx : Nat) (fd : FD) (i : Nat) : ∀ (vs : List V) (ops : List EncOp),
    OKMsgList S (S.md i) vs → CleanVs vs → opsMsgList S (S.md i) fd.num fd.card.isMap vs = .ok ops →
    wiresOf ops = wiresN (recsList S idx fd i vs)
  | [], ops, _, _, ho => by simp only [opsMsgList] at ho; cases ho; simp [recsList, wiresOf, wiresN]
  | v :: vs, ops, hok, hcl, ho => by
    simp only [CleanVs] at hcl
    simp only [OKMsgList] at hok
    simp only [opsMsgList] at ho
    by_cases hn : (fd.card.isMap && nilEntry (S.md i) v) = true
    · rw [if_pos hn] at ho
      simp only [recsList, if_pos hn]
      exact ops_recsList S idx fd i vs ops hok.2 hcl.2 ho
    rw [if_neg hn] at ho
    cases hb : bytesMsgV S (S.md i) v with
    | ok body =>
      rw [hb] at ho
      cases hr : opsMsgList S (S.md i) fd.num fd.card.isMap vs with
      | ok rest =>
        rw [hr] at ho; cases ho
        have hl := msgV_exact S (S.md i) v body hok.1 hb
        have hbody := bytes_recsV S (S.md i) v body hok.1 hcl.1 hb
        have ih := ops_recsList S idx fd i vs rest hok.2 hcl.2 hr
        simp only [recsList, if_neg hn]
        simp [wiresOf_cons, wiresN_cons, NRec.wire, EncOp.wire, hl, ← hbody, ih]
      | err => rw [hr] at ho; cases ho
      | panic => rw [hr] at ho; cases ho
    | err => rw [hb] at ho; cases ho
    | panic => rw [hb] at ho; cases ho
end

/-! ### well-formedness of schema and value -/

/-- the message types this theorem covers: distinct field numbers, no maps -/
def SchemaOK (S : Schema) : Prop :=
  ∀ i, NoDupNums (S.md i) ∧ ∀ fd ∈ S.md i, fd.card ≠ .map ∧ fd.card ≠ .always

/-- at most one member of every real oneof is set -/
def Excl (md : MD) (fs : List F) : Prop :=
  ∀ (i j : Nat) (fdi fdj : FD) (g : Nat), md[i]? = some fdi → md[j]? = some fdj → fdi.card = .oneof g → fdj.card = .oneof g → i ≠ j →
    fs[i]? = some F.unset ∨ fs[j]? = some F.unset

mutual
def WFs (S : Schema) : MD → List F → Prop
  | fd :: md, f :: fs => WFf S fd f ∧ WFs S md fs
  | [], [] => True
  | _, _ => False
def WFf (S : Schema) (fd : FD) : F → Prop
  | .unset => True
  | .one v =>
    match fd.ty with
    | .sc _ => ShapeOK fd (.one v) ∧ ValOK fd (.one v) ∧ CleanV v
    | .msg i => isRep fd.card = false ∧ ValidTag fd.num ∧ WFv S (S.md i) v
  | .many vs =>
    match fd.ty with
    | .sc _ => ShapeOK fd (.many vs) ∧ ValOK fd (.many vs) ∧ CleanVs vs
    | .msg i => fd.card = .list ∧ ValidTag fd.num ∧ WFvs S (S.md i) vs
def WFv (S : Schema) (md : MD) : V → Prop
  | .msg fs unk => unk = [] ∧ WFs S md fs ∧ (wiresN (recsFields S 0 md fs)).length ≤ maxFieldLen ∧ Excl md fs
  | _ => False
def WFvs (S : Schema) (md : MD) : List V → Prop
  | [] => True
  | v :: vs => WFv S md v ∧ WFvs S md vs
end

theorem OKs_append (S : Schema) (md : MD) (a b : List NRec) : OKs S md (a ++ b) ↔ OKs S md a ∧ OKs S md b := by
  induction a with
  | nil => simp [OKs]
  | cons r a ih => simp [OKs, ih, and_assoc]

theorem OKs_flat (S : Schema) (md : MD) (ws : List WRec) (h : ∀ w ∈ ws, w.OK md) : OKs S md (ws.map NRec.flat) := by
  induction ws with
  | nil => simp [OKs]
  | cons w ws ih =>
    simp only [List.map_cons, OKs, NRec.OK]
    exact ⟨h w (by simp), ih (fun x hx => h x (by simp [hx]))⟩

theorem scalar_kind (fd : FD) (k : SK) (h : fd.ty = .sc k) : fd.ty = .sc (kindOf fd) := by simp [kindOf, h]

theorem recV_len (S : Schema) (md : MD) (v : V) (h : WFv S md v) : (wiresN (recsV S md v)).length ≤ maxFieldLen := by
  cases v with
  | msg fs unk => simp only [WFv] at h; simpa [recsV] using h.2.2.1
  | num _ => simp [WFv] at h
  | bs _ => simp [WFv] at h

mutual
/-- the record tree of a well-formed value is well formed -/
theorem recs_ok (S : Schema) (hS : SchemaOK S) (mdAll : MD) (hnd : NoDupNums mdAll)
    (hcards : ∀ fd ∈ mdAll, fd.card ≠ .map) : ∀ (md : MD) (fs : List F) (pre : MD), mdAll = pre ++ md →
    WFs S md fs → OKs S mdAll (recsFields S pre.length md fs)
  | [], [], _, _, _ => by simp [recsFields, OKs]
  | [], _ :: _, _, _, h => by simp [WFs] at h
  | _ :: _, [], _, _, h => by simp [WFs] at h
  | fd :: md, f :: fs, pre, heq, hwf => by
    simp only [WFs] at hwf
    have hfind : findField mdAll fd.num 0 = some (pre.length, fd) := by rw [heq]; exact findField_at pre fd md (heq ▸ hnd)
    have hmem : fd ∈ mdAll := by rw [heq]; simp
    simp only [recsFields, OKs_append]
    refine ⟨recField_ok S hS mdAll fd pre.length hfind (hcards fd hmem) f hwf.1, ?_⟩
    have := recs_ok S hS mdAll hnd hcards md fs (pre ++ [fd]) (by rw [heq]; simp) hwf.2
    simpa using this
theorem recField_ok (S : Schema) (hS : SchemaOK S) (mdAll : MD) (fd : FD) (idx : Nat)
    (hfind : findField mdAll fd.num 0 = some (idx, fd)) (hnm : fd.card ≠ .map) : ∀ (f : F), WFf S fd f →
    OKs S mdAll (recsField S idx fd f)
  | .unset, _ => by simp [recsField, OKs]
  | .one v, hwf => by
    simp only [WFf] at hwf
    cases hty : fd.ty with
    | sc k =>
      simp only [hty] at hwf
      simp only [recsField, hty]
      exact OKs_flat S mdAll _ (fieldRecs_ok mdAll idx fd (.one v) hfind (scalar_kind fd k hty) hwf.1 hwf.2.1)
    | msg i =>
      simp only [hty] at hwf
      obtain ⟨_, htag, hv⟩ := hwf
      simp only [recsField, hty, OKs, NRec.OK, and_true]
      exact ⟨hfind, trivial, htag, hnm, recV_len S (S.md i) v hv, recV_ok S hS (S.md i) v hv ⟨i, rfl⟩⟩
  | .many vs, hwf => by
    simp only [WFf] at hwf
    cases hty : fd.ty with
    | sc k =>
      simp only [hty] at hwf
      simp only [recsField, hty]
      exact OKs_flat S mdAll _ (fieldRecs_ok mdAll idx fd (.many vs) hfind (scalar_kind fd k hty) hwf.1 hwf.2.1)
    | msg i =>
      simp only [hty] at hwf
      obtain ⟨_, htag, hvs⟩ := hwf
      simp only [recsField, hty]
      exact recList_ok S hS mdAll fd idx i hfind hty htag hnm vs hvs
theorem recV_ok (S : Schema) (hS : SchemaOK S) (md : MD) : ∀ (v : V), WFv S md v →
    (∃ i, md = S.md i) → OKs S md (recsV S md v)
  | .msg fs unk, hwf, ⟨i, hi⟩ => by
    simp only [WFv] at hwf
    simp only [recsV]
    have hs := hS i
    rw [← hi] at hs
    have := recs_ok S hS md hs.1 (fun fd hfd => (hs.2 fd hfd).1) md fs [] rfl hwf.2.1
    simpa using this
  | .num _, hwf, _ => by simp [WFv] at hwf
  | .bs _, hwf, _ => by simp [WFv] at hwf
theorem recList_ok (S : Schema) (hS : SchemaOK S) (mdAll : MD) (fd : FD) (idx i : Nat)
    (hfind : findField mdAll fd.num 0 = some (idx, fd)) (hty : fd.ty = .msg i) (htag : ValidTag fd.num)
    (hnm : fd.card ≠ .map) : ∀ (vs : List V), WFvs S (S.md i) vs → OKs S mdAll (recsList S idx fd i vs)
  | [], _ => by simp [recsList, OKs]
  | v :: vs, hwf => by
    simp only [WFvs] at hwf
    simp only [recsList, isMap_of_ne hnm, Bool.false_and, Bool.false_eq_true, if_false, OKs, NRec.OK]
    exact ⟨⟨hfind, hty, htag, hnm, recV_len S (S.md i) v hwf.1, recV_ok S hS (S.md i) v hwf.1 ⟨i, rfl⟩⟩,
      recList_ok S hS mdAll fd idx i hfind hty htag hnm vs hwf.2⟩
end

/-! ### folding the record tree gives the canonical message -/

theorem foldN_flat (S : Schema) (md : MD) : ∀ (ws : List WRec) (st : List F × Bytes),
    foldN S md (ws.map NRec.flat) st = .ok (ws.foldl (WRec.apply md) st)
  | [], st => by simp [foldN]
  | w :: ws, st => by simp [foldN, NRec.applyN_flat, foldN_flat S md ws]

theorem foldN_append (S : Schema) (md : MD) : ∀ (a b : List NRec) (st st' : List F × Bytes),
    foldN S md a st = .ok st' → foldN S md (a ++ b) st = foldN S md b st'
  | [], b, st, st', h => by simp [foldN] at h; subst h; rfl
  | r :: a, b, st, st', h => by
    simp only [List.cons_append, foldN] at h ⊢
    cases hr : r.applyN S md st with
    | ok s1 => rw [hr] at h; simp only [] at h ⊢; exact foldN_append S md a b s1 st' h
    | err => rw [hr] at h; cases h
    | panic => rw [hr] at h; cases h

theorem opsFields_cons_ok (S : Schema) (fd : FD) (md : MD) (f : F) (fs : List F) (ops : List EncOp)
    (h : opsFields S (fd :: md) (f :: fs) = .ok ops) :
    (∃ a, opsField S fd f = .ok a) ∧ (∃ b, opsFields S md fs = .ok b) := by
  simp only [opsFields] at h
  cases ha : opsField S fd f with
  | ok a =>
    rw [ha] at h
    cases hb : opsFields S md fs with
    | ok b => exact ⟨⟨a, rfl⟩, ⟨b, rfl⟩⟩
    | err => rw [hb] at h; cases h
    | panic => rw [hb] at h; cases h
  | err => rw [ha] at h; cases h
  | panic => rw [ha] at h; cases h

/-- a field that writes nothing reads back as the reset field -/
theorem recsField_nil_canon (S : Schema) (idx : Nat) (fd : FD) (f : F) (hwf : WFf S fd f)
    (h : recsField S idx fd f = []) : canonF S fd f = initField fd := by
  cases f with
  | unset => rfl
  | one v =>
    simp only [WFf] at hwf
    cases hty : fd.ty with
    | sc k =>
      simp only [hty] at hwf
      simp only [recsField, hty, List.map_eq_nil_iff] at h
      simp only [canonF, hty, canonField]
      cases hc : fd.card
      case implicit =>
        simp only [fieldRecs, hc] at h ⊢
        by_cases hp : implicitPresent (kindOf fd) v = true
        · simp [hp] at h
        · simp [hp]
      all_goals simp [fieldRecs, hc] at h
    | msg i => simp [recsField, hty] at h
  | many vs =>
    simp only [WFf] at hwf
    cases hty : fd.ty with
    | sc k =>
      simp only [hty] at hwf
      obtain ⟨⟨hrep, _⟩, _⟩ := hwf
      simp only [recsField, hty, List.map_eq_nil_iff] at h
      simp only [canonF, hty, canonField]
      have hvs : vs = [] := by
        cases hc : fd.card <;> simp only [fieldRecs, hc] at h <;>
          first
            | (simpa using h)
            | (split at h
               · rename_i he; exact List.isEmpty_iff.mp he
               · simp at h)
      subst hvs
      simp [initField_rep fd hrep]
    | msg i =>
      simp only [hty] at hwf
      simp only [recsField, hty] at h
      cases vs with
      | nil => simp [canonF, hty, canonVs, initField, hwf.1]
      | cons v vs => simp [recsList, isMap_list hwf.1] at h

theorem recsFields_nil_canon (S : Schema) : ∀ (base : Nat) (md : MD) (fs : List F), WFs S md fs →
    recsFields S base md fs = [] → canonFs S md fs = md.map initField
  | _, [], [], _, _ => by simp [canonFs]
  | _, [], _ :: _, h, _ => by simp [WFs] at h
  | _, _ :: _, [], h, _ => by simp [WFs] at h
  | base, fd :: md, f :: fs, hwf, h => by
    simp only [WFs] at hwf
    simp only [recsFields, List.append_eq_nil_iff] at h
    simp only [canonFs, List.map_cons, recsField_nil_canon S base fd f hwf.1 h.1,
      recsFields_nil_canon S (base + 1) md fs hwf.2 h.2]

/-- a message that writes nothing and marshals without error declares no required field -/
theorem recsFields_nil_noreq (S : Schema) : ∀ (base : Nat) (md : MD) (fs : List F) (ops : List EncOp), WFs S md fs →
    recsFields S base md fs = [] → opsFields S md fs = .ok ops → hasRequired md = false
  | _, [], [], _, _, _, _ => by simp [hasRequired]
  | _, [], _ :: _, _, h, _, _ => by simp [WFs] at h
  | _, _ :: _, [], _, h, _, _ => by simp [WFs] at h
  | base, fd :: md, f :: fs, ops, hwf, h, ho => by
    simp only [WFs] at hwf
    simp only [recsFields, List.append_eq_nil_iff] at h
    obtain ⟨⟨a, ha⟩, ⟨b, hb⟩⟩ := opsFields_cons_ok S fd md f fs ops ho
    have ih := recsFields_nil_noreq S (base + 1) md fs b hwf.2 h.2 hb
    simp only [hasRequired, List.any_cons, Bool.or_eq_false_iff, decide_eq_false_iff_not] at ih ⊢
    refine ⟨?_, by simpa [hasRequired] using ih⟩
    intro hreq
    cases f with
    | unset => simp [opsField, hreq] at ha
    | one v =>
      cases hty : fd.ty with
      | sc k => simp [recsField, hty, fieldRecs, hreq] at h
      | msg i => simp [recsField, hty] at h
    | many vs =>
      have hw := hwf.1
      simp only [WFf] at hw
      cases hty : fd.ty with
      | sc k => simp only [hty] at hw; have := hw.1.1; simp [isRep, hreq] at this
      | msg i => simp only [hty] at hw; simp [hreq] at hw

theorem canon_completeN (S : Schema) : ∀ (md : MD) (fs : List F) (ops : List EncOp), WFs S md fs →
    opsFields S md fs = .ok ops → requiredMissing md (canonFs S md fs) = false
  | [], [], _, _, _ => by simp [requiredMissing, canonFs]
  | [], _ :: _, _, h, _ => by simp [WFs] at h
  | _ :: _, [], _, h, _ => by simp [WFs] at h
  | fd :: md, f :: fs, ops, hwf, ho => by
    simp only [WFs] at hwf
    obtain ⟨⟨a, ha⟩, ⟨b, hb⟩⟩ := opsFields_cons_ok S fd md f fs ops ho
    have ih := canon_completeN S md fs b hwf.2 hb
    simp only [requiredMissing, canonFs, List.zip_cons_cons, List.any_cons, Bool.or_eq_false_iff] at ih ⊢
    refine ⟨?_, ih⟩
    cases f with
    | unset =>
      simp only [opsField] at ha
      split at ha
      · cases ha
      · rename_i hnr; simp [hnr]
    | one v =>
      cases hty : fd.ty with
      | sc k => simp only [canonF, hty, canonField]; cases hc : fd.card <;> simp
      | msg i => simp [canonF, hty]
    | many vs =>
      cases hty : fd.ty with
      | sc k => simp [canonF, hty, canonField]
      | msg i => simp [canonF, hty]

theorem set_append_here' (pre : List F) (x y : F) (rest : List F) :
    (pre ++ x :: rest).set pre.length y = pre ++ y :: rest := set_append_here pre x y rest

theorem wfs_len (S : Schema) : ∀ (md : MD) (fs : List F), WFs S md fs → md.length = fs.length
  | [], [], _ => rfl
  | [], _ :: _, h => by simp [WFs] at h
  | _ :: _, [], h => by simp [WFs] at h
  | _ :: md, _ :: fs, h => by simp only [WFs] at h; simp [wfs_len S md fs h.2]

theorem canonFs_length (S : Schema) : ∀ (md : MD) (fs : List F), md.length = fs.length → (canonFs S md fs).length = md.length
  | [], [], _ => by simp [canonFs]
  | [], _ :: _, h => by simp at h
  | _ :: _, [], h => by simp at h
  | _ :: md, _ :: fs, h => by simp only [canonFs, List.length_cons]; rw [canonFs_length S md fs (by simpa using h)]

theorem canonFs_snoc (S : Schema) (fd : FD) (f : F) : ∀ (md : MD) (fs : List F), md.length = fs.length →
    canonFs S (md ++ [fd]) (fs ++ [f]) = canonFs S md fs ++ [canonF S fd f]
  | [], [], _ => by simp [canonFs]
  | [], _ :: _, h => by simp at h
  | _ :: _, [], h => by simp at h
  | _ :: md, _ :: fs, h => by
    simp only [List.cons_append, canonFs]; rw [canonFs_snoc S fd f md fs (by simpa using h)]

theorem canonFs_get (S : Schema) : ∀ (md : MD) (fs : List F) (j : Nat) (fd : FD) (f : F), md.length = fs.length →
    md[j]? = some fd → fs[j]? = some f → (canonFs S md fs)[j]? = some (canonF S fd f)
  | [], _, _, _, _, _, h, _ => by simp at h
  | _ :: _, [], _, _, _, h, _, _ => by simp at h
  | fd0 :: md, f0 :: fs, 0, fd, f, _, h1, h2 => by
    simp only [List.getElem?_cons_zero, Option.some.injEq] at h1 h2
    subst h1; subst h2
    simp [canonFs]
  | _ :: md, _ :: fs, j + 1, fd, f, h, h1, h2 => by
    simp only [List.getElem?_cons_succ] at h1 h2
    simp only [canonFs, List.getElem?_cons_succ]
    exact canonFs_get S md fs j fd f (by simpa using h) h1 h2

theorem initField_oneof (fd : FD) (g : Nat) (h : fd.card = .oneof g) : initField fd = .unset := by
  simp [initField, h]

theorem canonF_unset (S : Schema) (fd : FD) : canonF S fd .unset = initField fd := by simp [canonF]

mutual
/-- folding the records of the remaining fields from the reset state of those fields -/
theorem fold_fields (S : Schema) (hS : SchemaOK S) (mdAll : MD) (fsAll : List F) (unk : Bytes)
    (hlenAll : mdAll.length = fsAll.length) (hex : Excl mdAll fsAll) :
    ∀ (md : MD) (fs : List F) (preMd : MD) (preFs : List F) (ops : List EncOp),
    mdAll = preMd ++ md → fsAll = preFs ++ fs → preMd.length = preFs.length →
    WFs S md fs → opsFields S md fs = .ok ops →
    foldN S mdAll (recsFields S preMd.length md fs) (canonFs S preMd preFs ++ md.map initField, unk)
      = .ok (canonFs S preMd preFs ++ canonFs S md fs, unk)
  | [], [], _, _, _, _, _, _, _, _ => by simp [recsFields, foldN, canonFs]
  | [], _ :: _, _, _, _, _, _, _, h, _ => by simp [WFs] at h
  | _ :: _, [], _, _, _, _, _, _, h, _ => by simp [WFs] at h
  | fd :: md, f :: fs, preMd, preFs, ops, hmd, hfs, hpl, hwf, ho => by
    simp only [WFs] at hwf
    obtain ⟨⟨a, ha⟩, ⟨b, hb⟩⟩ := opsFields_cons_ok S fd md f fs ops ho
    have hlen2 := wfs_len S md fs hwf.2
    have hcl := canonFs_length S preMd preFs hpl
    have hcur : (canonFs S preMd preFs ++ initField fd :: md.map initField).getD preMd.length .unset = initField fd := by
      rw [← hcl]; simp [List.getD_eq_getElem?_getD]
    have hap : f ≠ .unset → AssignPlain mdAll fd preMd.length (canonFs S preMd preFs ++ initField fd :: md.map initField) := by
      intro hset
      apply AssignPlain.of_clean
      · rw [hmd]; simp [hcl]
      · intro g hg j fdj hj hgj hne
        -- the sibling `j` is unset in the message …
        have hidx : mdAll[preMd.length]? = some fd := by rw [hmd]; simp
        have hfidx : fsAll[preMd.length]? = some f := by rw [hfs, hpl]; simp
        have hun : fsAll[j]? = some F.unset := by
          rcases hex preMd.length j fd fdj g hidx hj hg hgj (fun e => hne e.symm) with h | h
          · rw [hfidx] at h; exact absurd (Option.some.inj h) hset
          · exact h
        -- … hence unset in the current state, whether already decoded or still to come
        by_cases hlt : j < preMd.length
        · rw [List.getElem?_append_left (by rw [hcl]; exact hlt)]
          have h1 : preMd[j]? = some fdj := by rw [hmd, List.getElem?_append_left hlt] at hj; exact hj
          have h2 : preFs[j]? = some F.unset := by rw [hfs, List.getElem?_append_left (by omega)] at hun; exact hun
          rw [canonFs_get S preMd preFs j fdj .unset hpl h1 h2, canonF_unset, initField_oneof fdj g hgj]
        · have hgt : preMd.length < j := by omega
          rw [List.getElem?_append_right (by rw [hcl]; omega), hcl]
          rw [hmd, List.getElem?_append_right (by omega)] at hj
          obtain ⟨k, hk⟩ : ∃ k, j - preMd.length = k + 1 := ⟨j - preMd.length - 1, by omega⟩
          rw [hk] at hj ⊢
          simp only [List.getElem?_cons_succ, List.getElem?_map] at hj ⊢
          rw [hj]; simp [initField_oneof fdj g hgj]
    have h1 := fold_field S hS mdAll preMd.length fd f a (canonFs S preMd preFs ++ initField fd :: md.map initField) unk
      hap (by simp [hcl]) hcur hwf.1 ha
    rw [← hcl, set_append_here, hcl] at h1
    simp only [recsFields, List.map_cons, canonFs]
    rw [foldN_append S mdAll _ _ _ _ h1]
    have := fold_fields S hS mdAll fsAll unk hlenAll hex md fs (preMd ++ [fd]) (preFs ++ [f]) b
      (by rw [hmd]; simp) (by rw [hfs]; simp) (by simp [hpl]) hwf.2 hb
    rw [canonFs_snoc S fd f preMd preFs hpl] at this
    simpa using this
termination_by structural _ fs => fs

/-- folding the records of one field, starting from the freshly reset field -/
theorem fold_field (S : Schema) (hS : SchemaOK S) (mdAll : MD) (idx : Nat) (fd : FD) :
    ∀ (f : F) (ops : List EncOp) (fs : List F) (unk : Bytes), (f ≠ .unset → AssignPlain mdAll fd idx fs) →
    idx < fs.length → fs.getD idx .unset = initField fd →
    WFf S fd f → opsField S fd f = .ok ops →
    foldN S mdAll (recsField S idx fd f) (fs, unk) = .ok (fs.set idx (canonF S fd f), unk)
  | .unset, _, fs, unk, _, hlt, hcur, _, _ => by
    simp [recsField, foldN, canonF, set_getD_self fs idx _ hlt hcur]
  | .one v, ops, fs, unk, hap', hlt, hcur, hwf, ho => by
    have hap := hap' (by simp)
    simp only [WFf] at hwf
    cases hty : fd.ty with
    | sc k =>
      simp only [hty] at hwf
      simp only [recsField, hty, canonF, foldN_flat]
      rw [field_fold' mdAll idx fd (.one v) fs unk hap hwf.1 hlt hcur]
    | msg i =>
      simp only [hty] at hwf
      obtain ⟨hrep, _, hv⟩ := hwf
      simp only [opsField, hty] at ho
      cases hb : bytesMsgV S (S.md i) v with
      | ok body =>
        obtain ⟨cfs, hcv, hd⟩ := fold_msgV S hS (S.md i) ⟨i, rfl⟩ v body hv hb
        simp only [recsField, hty, foldN, NRec.applyN_msg, hd, canonF, hcv, hap.self]
        cases hc : fd.card <;> simp [hc, isRep] at hrep ⊢
      | err => rw [hb] at ho; cases ho
      | panic => rw [hb] at ho; cases ho
  | .many vs, ops, fs, unk, hap', hlt, hcur, hwf, ho => by
    have hap := hap' (by simp)
    simp only [WFf] at hwf
    cases hty : fd.ty with
    | sc k =>
      simp only [hty] at hwf
      simp only [recsField, hty, canonF, foldN_flat]
      rw [field_fold' mdAll idx fd (.many vs) fs unk hap hwf.1 hlt hcur]
    | msg i =>
      simp only [hty] at hwf
      obtain ⟨hlist, _, hvs⟩ := hwf
      simp only [opsField, hty, isMap_list hlist] at ho
      have hinit : initField fd = .many [] := by simp [initField, hlist]
      rw [hinit] at hcur
      have := fold_list S hS mdAll idx fd i (fun g => by simp [hlist]) hlist vs ops [] fs unk hlt hcur hvs ho
      simpa [recsField, hty, canonF, isMap_list hlist] using this
termination_by structural f => f

/-- a nested message: decoding its record tree gives its canonical form -/
theorem fold_msgV (S : Schema) (hS : SchemaOK S) (md : MD) (hmd : ∃ i, md = S.md i) : ∀ (v : V) (body : Bytes),
    WFv S md v → bytesMsgV S md v = .ok body →
    ∃ cfs, canonV S md v = .msg cfs [] ∧ decodeMsgN S md (recsV S md v) = .ok (cfs, [])
  | .msg fs unk, body, hwf, hb => by
    obtain ⟨i, hi⟩ := hmd
    simp only [WFv] at hwf
    obtain ⟨hu, hw, _, hex⟩ := hwf
    simp only [bytesMsgV] at hb
    refine ⟨canonFs S md fs, rfl, ?_⟩
    cases ho : opsFields S md fs with
    | ok ops =>
      have hs := hS i
      rw [← hi] at hs
      simp only [recsV]
      cases hr : recsFields S 0 md fs with
      | nil =>
        have hnr := recsFields_nil_noreq S 0 md fs ops hw hr ho
        have hc := recsFields_nil_canon S 0 md fs hw hr
        simp [decodeMsgN, hnr, hc, initFields]
      | cons r rest =>
        have hfold := fold_fields S hS md fs [] (wfs_len S md fs hw) hex md fs [] [] ops rfl rfl rfl hw ho
        simp only [List.length_nil, List.nil_append, canonFs, List.map_nil] at hfold
        rw [hr] at hfold
        have hinit : initFields md = md.map initField := rfl
        simp only [decodeMsgN, hinit, hfold, canon_completeN S md fs ops hw ho]
        simp
    | err => rw [ho] at hb; cases hb
    | panic => rw [ho] at hb; cases hb
  | .num _, _, hwf, _ => by simp [WFv] at hwf
  | .bs _, _, hwf, _ => by simp [WFv] at hwf
termination_by structural v => v

/-- the elements of a repeated message field, appended one by one -/
theorem fold_list (S : Schema) (hS : SchemaOK S) (mdAll : MD) (idx : Nat) (fd : FD) (i : Nat) (hno : ∀ g, fd.card ≠ .oneof g)
    (hlist : fd.card = .list) : ∀ (vs : List V) (ops : List EncOp) (acc : List V) (fs : List F) (unk : Bytes),
    idx < fs.length → fs.getD idx .unset = .many acc → WFvs S (S.md i) vs → opsMsgList S (S.md i) fd.num false vs = .ok ops →
    foldN S mdAll (recsList S idx fd i vs) (fs, unk) = .ok (fs.set idx (.many (acc ++ canonVs S (S.md i) false vs)), unk)
  | [], _, acc, fs, unk, hlt, hcur, _, _ => by
    simp [recsList, foldN, canonVs, set_getD_self fs idx _ hlt hcur]
  | v :: vs, ops, acc, fs, unk, hlt, hcur, hwf, ho => by
    simp only [WFvs] at hwf
    simp only [opsMsgList, Bool.false_and, Bool.false_eq_true, if_false] at ho
    cases hb : bytesMsgV S (S.md i) v with
    | ok body =>
      rw [hb] at ho
      cases hr : opsMsgList S (S.md i) fd.num false vs with
      | ok rest =>
        obtain ⟨cfs, hcv, hd⟩ := fold_msgV S hS (S.md i) ⟨i, rfl⟩ v body hwf.1 hb
        simp only [recsList, isMap_list hlist, Card.isMap, Bool.false_and, Bool.false_eq_true, if_false, foldN, NRec.applyN_msg, hd, assign_plain mdAll fs idx fd _ hno, hlist, hcur, appendTo]
        have ih := fold_list S hS mdAll idx fd i hno hlist vs rest (acc ++ [V.msg cfs []])
          (fs.set idx (.many (acc ++ [V.msg cfs []]))) unk
          (by simpa using hlt) (by simp [List.getD_eq_getElem?_getD, List.getElem?_set_self hlt]) hwf.2 hr
        rw [ih]
        simp [canonVs, List.set_set, hcv]
      | err => rw [hr] at ho; cases ho
      | panic => rw [hr] at ho; cases ho
    | err => rw [hb] at ho; cases ho
    | panic => rw [hb] at ho; cases ho
termination_by structural vs => vs
end

mutual
/-- well-formed values carry no unknown fields below the top level -/
theorem wfs_clean (S : Schema) : ∀ (md : MD) (fs : List F), WFs S md fs → CleanFs fs
  | [], [], _ => by simp [CleanFs]
  | [], _ :: _, h => by simp [WFs] at h
  | _ :: _, [], _ => by simp [CleanFs]
  | fd :: md, f :: fs, h => by
    simp only [WFs] at h
    exact ⟨wff_clean S fd f h.1, wfs_clean S md fs h.2⟩
theorem wff_clean (S : Schema) (fd : FD) : ∀ (f : F), WFf S fd f → CleanF f
  | .unset, _ => by simp [CleanF]
  | .one v, h => by
    simp only [WFf] at h
    simp only [CleanF]
    cases hty : fd.ty with
    | sc k => simp only [hty] at h; exact h.2.2
    | msg i => simp only [hty] at h; exact wfv_clean S (S.md i) v h.2.2
  | .many vs, h => by
    simp only [WFf] at h
    simp only [CleanF]
    cases hty : fd.ty with
    | sc k => simp only [hty] at h; exact h.2.2
    | msg i => simp only [hty] at h; exact wfvs_clean S (S.md i) vs h.2.2
theorem wfv_clean (S : Schema) (md : MD) : ∀ (v : V), WFv S md v → CleanV v
  | .msg fs unk, h => by simp only [WFv] at h; exact ⟨h.1, wfs_clean S md fs h.2.1⟩
  | .num _, _ => by simp [CleanV]
  | .bs _, _ => by simp [CleanV]
theorem wfvs_clean (S : Schema) (md : MD) : ∀ (vs : List V), WFvs S md vs → CleanVs vs
  | [], _ => by simp [CleanVs]
  | v :: vs, h => by simp only [WFvs] at h; exact ⟨wfv_clean S md v h.1, wfvs_clean S md vs h.2⟩
end

/-- **Round trip of a message with nested messages (singular, repeated, any depth, recursive types), with
    unknown fields at the top level, in either decoder mode**: `Unmarshal(Marshal(m))` is `m` with its values
    normalised to their field width, presence included at every level, and the unknown fields come back byte
    for byte. -/
theorem roundtrip_nested (S : Schema) (hS : SchemaOK S) (fast : Bool) (i : Nat) (fs : List F) (urs : List Rec)
    (ops : List EncOp) (hwf : WFs S (S.md i) fs) (hex : Excl (S.md i) fs) (hok : OKFields S (S.md i) fs)
    (hu : ∀ r ∈ urs, r.OK ∧ findField (S.md i) r.tag 0 = none)
    (ho : opsFields S (S.md i) fs = .ok ops) :
    unmarshal S fast (S.md i) (wiresOf ops ++ Csproto.wiresOf urs)
      = .ok (canonFs S (S.md i) fs, Csproto.wiresOf urs) := by
  have hs := hS i
  have hbytes : wiresOf ops ++ Csproto.wiresOf urs
      = wiresN (recsFields S 0 (S.md i) fs ++ (urs.map WRec.unknown).map NRec.flat) := by
    rw [wiresN_append, wiresN_flat, wiresW_unknown,
      ops_recsFields S 0 (S.md i) fs ops hok (wfs_clean S _ fs hwf) ho]
  have hoks : OKs S (S.md i) (recsFields S 0 (S.md i) fs ++ (urs.map WRec.unknown).map NRec.flat) := by
    rw [OKs_append]
    refine ⟨?_, OKs_flat S _ _ ?_⟩
    · have := recs_ok S hS (S.md i) hs.1 (fun fd hfd => (hs.2 fd hfd).1) (S.md i) fs [] rfl hwf
      simpa using this
    · intro w hw
      obtain ⟨u, hum, rfl⟩ := List.mem_map.mp hw
      exact hu u hum
  rw [hbytes, unmarshal_nested S fast (S.md i) _ hoks]
  have hfold := fold_fields S hS (S.md i) fs [] (wfs_len S _ fs hwf) hex (S.md i) fs [] [] ops rfl rfl rfl hwf ho
  simp only [List.length_nil, List.nil_append, canonFs, List.map_nil] at hfold
  have hall : foldN S (S.md i) (recsFields S 0 (S.md i) fs ++ (urs.map WRec.unknown).map NRec.flat)
      (initFields (S.md i), []) = .ok (canonFs S (S.md i) fs, Csproto.wiresOf urs) := by
    have hinit : initFields (S.md i) = (S.md i).map initField := rfl
    rw [hinit, foldN_append S _ _ _ _ _ hfold, foldN_flat, fold_unknown_fs]
    simp
  cases hr : recsFields S 0 (S.md i) fs ++ (urs.map WRec.unknown).map NRec.flat with
  | nil =>
    simp only [List.append_eq_nil_iff, List.map_eq_nil_iff] at hr
    obtain ⟨hr1, hr2⟩ := hr
    subst hr2
    have hnr := recsFields_nil_noreq S 0 (S.md i) fs ops hwf hr1 ho
    have hc := recsFields_nil_canon S 0 (S.md i) fs hwf hr1
    simp [decodeMsgN, hnr, hc, initFields, Csproto.wiresOf]
  | cons r rest =>
    rw [hr] at hall
    simp only [decodeMsgN, hall, canon_completeN S (S.md i) fs ops hwf ho]
    simp

/-- the length bound in `WFv` can be checked on the computed size -/
theorem recs_len_eq_size (S : Schema) (md : MD) (fs : List F) (ops : List EncOp) (hok : OKFields S md fs)
    (hcl : CleanFs fs) (ho : opsFields S md fs = .ok ops) :
    (wiresN (recsFields S 0 md fs)).length = sizeFields S md fs := by
  rw [← ops_recsFields S 0 md fs ops hok hcl ho, (fields_exact S md fs ops hok ho).1]

end Csproto.Gen
