import Csproto.Model.Lazy
import Csproto.Proofs.Records
/-
  The single pass of lazyproto over a well-formed message records, for every requested tag, exactly
  the raw values of that tag's occurrences in wire order.
-/
namespace Csproto

/-- what the pass does with one record (specification level) -/
def applyRec (flat : List Nat) (fds : List FD) (r : Rec) : List FD :=
  match idxOf? flat r.tag with
  | none => fds
  | some i =>
    match fds[i]? with
    | none => fds
    | some fd => fds.set i { wt := r.wt, data := fd.data ++ [r.chunk] }

def applyRecs (flat : List Nat) (fds : List FD) (rs : List Rec) : List FD := rs.foldl (applyRec flat) fds

/-- no requested tag changes its wire type while data is recorded for it -/
def NoConflict (flat : List Nat) : List FD → List Rec → Prop
  | _, [] => True
  | fds, r :: rs =>
    (∀ i fd, idxOf? flat r.tag = some i → fds[i]? = some fd → fd.data = [] ∨ fd.wt = r.wt) ∧
    NoConflict flat (applyRec flat fds r) rs

theorem applyRec_length (flat : List Nat) (fds : List FD) (r : Rec) : (applyRec flat fds r).length = fds.length := by
  unfold applyRec
  split
  · rfl
  · split <;> simp

theorem idxOf?_lt {xs : List Nat} {x i : Nat} (h : idxOf? xs x = some i) : i < xs.length := by
  unfold idxOf? at h
  simp only at h
  split at h
  · simp at h; omega
  · simp at h

theorem drop_key (tag wt : Nat) (ht : tag ≤ maxTagValue) (hw : wt < 8) (body : Bytes) :
    (encTag tag wt ++ body).drop (sizeOfTagKey tag) = body := by
  rw [sizeOfTagKey_eq_length ht hw]; simp

/-- one iteration of the pass on a well-formed record -/
theorem loop_step (flat : List Nat) (r : Rec) (hok : r.OK) (fuel : Nat) (d : Dec) (pre rest : Bytes) (fds : List FD)
    (hAt : d.At pre (r.wire ++ rest)) (hfast : d.fast = true) (hlen : fds.length = flat.length)
    (hnc : ∀ i fd, idxOf? flat r.tag = some i → fds[i]? = some fd → fd.data = [] ∨ fd.wt = r.wt) :
    ∃ d', d'.At (pre ++ r.wire) rest ∧ d'.fast = true ∧
      decodeIntoLoop flat (fuel + 1) d fds = decodeIntoLoop flat fuel d' (applyRec flat fds r) := by
  have htag := Rec.tag_ok hok
  have hmore : d.off < d.len := by
    have := List.length_pos_iff.mpr (Rec.wire_ne_nil r)
    rw [hAt.len, hAt.off]; simp; omega
  unfold Rec.wire at hAt
  rw [List.append_assoc] at hAt
  have hts := Dec.tag_at hAt htag.1 htag.2 (Rec.wt_lt r)
  have hAt1 := hAt.afterTag
  have hsk := Dec.skip_at htag.1 htag.2 (Rec.body_wf hok) hAt1 (by intro _; simp [hAt.off])
  have hAt2 : Dec.At { d.afterTag (encTag r.tag r.wt).length with off := d.off + (encTag r.tag r.wt).length + r.body.length }
      (pre ++ (encTag r.tag r.wt ++ r.body)) rest := by
    have := hAt1.advance; simpa [List.append_assoc] using this
  refine ⟨{ d.afterTag (encTag r.tag r.wt).length with off := d.off + (encTag r.tag r.wt).length + r.body.length },
    by simpa [Rec.wire] using hAt2, hfast, ?_⟩
  have hskip : Dec.step (d.afterTag (encTag r.tag r.wt).length) (.skip r.tag r.wt) =
      ({ d.afterTag (encTag r.tag r.wt).length with off := d.off + (encTag r.tag r.wt).length + r.body.length },
        .ok (.bytes (encTag r.tag r.wt ++ r.body)), 0) := by
    show withAlloc (Dec.skip _ r.tag r.wt) 0 = _
    rw [hsk]; rfl
  rw [decodeIntoLoop]
  simp only [hmore, not_true_eq_false, if_false, hts]
  unfold applyRec
  cases hidx : idxOf? flat r.tag with
  | none => simp only [hskip]
  | some i =>
    have hi : i < fds.length := by rw [hlen]; exact idxOf?_lt hidx
    have hget : fds[i]? = some fds[i] := by simp [hi]
    have hc := hnc i fds[i] hidx hget
    have hcond : ¬ (¬ (fds[i].data.isEmpty = true) ∧ fds[i].wt ≠ r.wt) := by
      rcases hc with h | h
      · simp [h]
      · simp [h]
    simp only [hget, hcond, if_false]
    -- the value recorded for a varint / fixed field: `data[start:dec.Offset()]`, from the end of the key to the end of the field
    have hval : ((d.afterTag (encTag r.tag r.wt).length).p.drop (d.afterTag (encTag r.tag r.wt).length).off).take
        (d.off + (encTag r.tag r.wt).length + r.body.length - (d.afterTag (encTag r.tag r.wt).length).off) = r.body := by
      rw [hAt1.rest_eq, Dec.afterTag_off]
      have : d.off + (encTag r.tag r.wt).length + r.body.length - (d.off + (encTag r.tag r.wt).length) = r.body.length := by omega
      rw [this]; simp
    cases r with
    | varint t v =>
      simp only [Rec.wt, Rec.tag, Rec.body, Rec.chunk, true_or, if_true] at hskip hval ⊢
      simp only [hskip, Rec.tag, Rec.chunk, Rec.body, hval]
    | fixed32 t v =>
      simp only [Rec.wt, Rec.tag, Rec.body, Rec.chunk, true_or, or_true, if_true] at hskip hval ⊢
      simp only [hskip, Rec.tag, Rec.chunk, Rec.body, hval]
    | fixed64 t v =>
      simp only [Rec.wt, Rec.tag, Rec.body, Rec.chunk, true_or, or_true, if_true] at hskip hval ⊢
      simp only [hskip, Rec.tag, Rec.chunk, Rec.body, hval]
    | len t b =>
      have n1 : ¬ (wtLen = wtVarint ∨ wtLen = wtFixed32 ∨ wtLen = wtFixed64) := by decide
      have hAt1' : Dec.At (d.afterTag (encTag t wtLen).length) (pre ++ encTag t wtLen)
          (encVarint b.length ++ b ++ rest) := by simpa [Rec.tag, Rec.wt, Rec.body] using hAt1
      have hb := Dec.bytes_at hAt1' hok.2.2
      have hbytes : Dec.step (d.afterTag (encTag t wtLen).length) .bytes =
          ({ d.afterTag (encTag t wtLen).length with off := d.off + (encTag t wtLen).length + (encVarint b.length ++ b).length }, .ok (.bytes b), 0) := by
        show withAlloc (Dec.bytesOp _) 0 = _
        rw [hb]; rfl
      simp only [Rec.wt, Rec.tag, n1, if_false, if_true, hbytes, Rec.chunk, Rec.body]

/-- **the pass computes `applyRecs`** on every well-formed message -/
theorem loop_records (flat : List Nat) (rs : List Rec) (hok : ∀ r ∈ rs, r.OK) :
    ∀ (fuel : Nat) (d : Dec) (pre : Bytes) (fds : List FD), rs.length < fuel → d.At pre (wiresOf rs) →
      d.fast = true → fds.length = flat.length → NoConflict flat fds rs →
      decodeIntoLoop flat fuel d fds = .ok (applyRecs flat fds rs) := by
  induction rs with
  | nil =>
    intro fuel d pre fds hf hAt _ _ _
    match fuel, hf with
    | fuel + 1, _ =>
      have : ¬ d.off < d.len := by rw [hAt.len, hAt.off]; simp [wiresOf]
      simp [decodeIntoLoop, this, applyRecs]
  | cons r rs ih =>
    intro fuel d pre fds hf hAt hfast hlen hnc
    match fuel, hf with
    | fuel + 1, hf =>
      rw [wiresOf_cons] at hAt
      obtain ⟨d', hAt', hfast', hstep⟩ := loop_step flat r (hok r (by simp)) fuel d pre (wiresOf rs) fds hAt hfast hlen hnc.1
      rw [hstep]
      have := ih (fun q hq => hok q (by simp [hq])) fuel d' (pre ++ r.wire) (applyRec flat fds r)
        (by simp at hf; omega) hAt' hfast' (by rw [applyRec_length, hlen]) hnc.2
      rw [this]; rfl

end Csproto
