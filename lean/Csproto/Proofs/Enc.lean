import Csproto.Model.Enc
import Csproto.Proofs.Wire
/-
  Helper lemmas about the Encoder model: a call that has room appends exactly its wire bytes.
-/
namespace Csproto

theorem writeAt_length {buf bs : Bytes} {off : Nat} (h : off + bs.length ≤ buf.length) :
    (writeAt buf off bs).length = buf.length := by
  unfold writeAt
  simp only [List.length_append, List.length_take, List.length_drop]
  omega

theorem writeAt_take {buf bs : Bytes} {off : Nat} (h : off + bs.length ≤ buf.length) :
    (writeAt buf off bs).take (off + bs.length) = buf.take off ++ bs := by
  unfold writeAt
  exact List.take_left' (by simp; omega)

/-- `Room e n`: the cursor is inside the buffer and `n` more bytes fit. -/
def Enc.Room (e : Enc) (n : Nat) : Prop := e.off + n ≤ e.cap

/-- what a successful, in-bounds write looks like -/
structure Enc.Appended (e e' : Enc) (bs : Bytes) : Prop where
  cap : e'.cap = e.cap
  off : e'.off = e.off + bs.length
  written : e'.written = e.written ++ bs

theorem Enc.Appended.refl (e : Enc) : Enc.Appended e e [] := ⟨rfl, by simp, by simp⟩

theorem Enc.Appended.trans {e1 e2 e3 : Enc} {a b : Bytes}
    (h1 : Enc.Appended e1 e2 a) (h2 : Enc.Appended e2 e3 b) : Enc.Appended e1 e3 (a ++ b) :=
  ⟨h2.cap.trans h1.cap, by rw [h2.off, h1.off]; simp; omega, by rw [h2.written, h1.written]; simp⟩

theorem Enc.store_room (e : Enc) (bs : Bytes) (h : e.Room bs.length) :
    ∃ e', e.store bs = .ok e' ∧ Enc.Appended e e' bs := by
  unfold Enc.Room Enc.cap at h
  refine ⟨{ buf := writeAt e.buf e.off bs, off := e.off + bs.length }, ?_, ?_, rfl, ?_⟩
  · simp [Enc.store, Enc.cap, h]
  · simp [Enc.cap, writeAt_length h]
  · simp only [Enc.written]; exact writeAt_take h

theorem Enc.copy_room (e : Enc) (bs : Bytes) (h : e.Room bs.length) :
    ∃ e', e.copy bs = .ok e' ∧ Enc.Appended e e' bs := by
  unfold Enc.Room Enc.cap at h
  have hle : e.off ≤ e.buf.length := by omega
  have htake : bs.take (e.buf.length - e.off) = bs := List.take_of_length_le (by omega)
  refine ⟨{ buf := writeAt e.buf e.off bs, off := e.off + bs.length }, ?_, ?_, rfl, ?_⟩
  · simp [Enc.copy, Enc.copyAdv, Enc.cap, hle, htake]
  · simp [Enc.cap, writeAt_length h]
  · simp only [Enc.written]; exact writeAt_take h

/-- an op is *plain* when it is not `EncodeNested` (whose behaviour depends on the nested object) -/
def EncOp.plain : EncOp → Bool
  | .nested .. => false
  | _ => true

theorem ofRes_ok {e' : Enc} {r : Res Enc} (h : r = .ok e') : EncOut.ofRes r = .ok e' := by
  subst h; rfl

/-- **A call with room appends exactly its wire bytes** (no panic, no truncation). -/
theorem Enc.step_room (e : Enc) (op : EncOp) (hp : op.plain = true) (h : e.Room op.wire.length) :
    ∃ e', e.step op = .ok e' ∧ Enc.Appended e e' op.wire := by
  cases op with
  | nested => simp [EncOp.plain] at hp
  | bytes t v =>
    simp only [EncOp.wire, List.length_append, Enc.Room] at h
    obtain ⟨e1, h1, a1⟩ := e.store_room (encTag t wtLen) (by unfold Enc.Room; omega)
    obtain ⟨e2, h2, a2⟩ := e1.store_room (encVarint v.length) (by unfold Enc.Room; rw [a1.off, a1.cap]; omega)
    obtain ⟨e3, h3, a3⟩ := e2.copy_room v (by unfold Enc.Room; rw [a2.off, a2.cap, a1.off, a1.cap]; omega)
    refine ⟨e3, ?_, ?_⟩
    · simp only [Enc.step]
      apply ofRes_ok
      show (e.store (encTag t wtLen) >>= fun e => e.store (encVarint v.length) >>= fun e => e.copy v) = _
      rw [h1, Res.bind_ok, h2, Res.bind_ok, h3]
    · simpa [EncOp.wire] using (a1.trans a2).trans a3
  | raw d =>
    by_cases hd : d.isEmpty
    · have : d = [] := by simpa using hd
      subst this
      exact ⟨e, by simp [Enc.step], by simpa [EncOp.wire] using Enc.Appended.refl e⟩
    · obtain ⟨e1, h1, a1⟩ := e.copy_room d (by simpa [EncOp.wire] using h)
      exact ⟨e1, by simp [Enc.step, hd, h1, EncOut.ofRes], by simpa [EncOp.wire] using a1⟩
  | packedBool t vs =>
    by_cases hd : vs.isEmpty
    · exact ⟨e, by simp [Enc.step, hd], by simpa [EncOp.wire, hd] using Enc.Appended.refl e⟩
    · obtain ⟨e1, h1, a1⟩ := e.store_room _ h
      exact ⟨e1, by simp [Enc.step, hd, h1, EncOut.ofRes], a1⟩
  | packedVarint t vs =>
    by_cases hd : vs.isEmpty
    · exact ⟨e, by simp [Enc.step, hd], by simpa [EncOp.wire, hd] using Enc.Appended.refl e⟩
    · obtain ⟨e1, h1, a1⟩ := e.store_room _ h
      exact ⟨e1, by simp [Enc.step, hd, h1, EncOut.ofRes], a1⟩
  | packedZigzag32 t vs =>
    by_cases hd : vs.isEmpty
    · exact ⟨e, by simp [Enc.step, hd], by simpa [EncOp.wire, hd] using Enc.Appended.refl e⟩
    · obtain ⟨e1, h1, a1⟩ := e.store_room _ h
      exact ⟨e1, by simp [Enc.step, hd, h1, EncOut.ofRes], a1⟩
  | packedZigzag64 t vs =>
    by_cases hd : vs.isEmpty
    · exact ⟨e, by simp [Enc.step, hd], by simpa [EncOp.wire, hd] using Enc.Appended.refl e⟩
    · obtain ⟨e1, h1, a1⟩ := e.store_room _ h
      exact ⟨e1, by simp [Enc.step, hd, h1, EncOut.ofRes], a1⟩
  | packedFixed32 t vs =>
    by_cases hd : vs.isEmpty
    · exact ⟨e, by simp [Enc.step, hd], by simpa [EncOp.wire, hd] using Enc.Appended.refl e⟩
    · obtain ⟨e1, h1, a1⟩ := e.store_room _ h
      exact ⟨e1, by simp [Enc.step, hd, h1, EncOut.ofRes], a1⟩
  | packedFixed64 t vs =>
    by_cases hd : vs.isEmpty
    · exact ⟨e, by simp [Enc.step, hd], by simpa [EncOp.wire, hd] using Enc.Appended.refl e⟩
    · obtain ⟨e1, h1, a1⟩ := e.store_room _ h
      exact ⟨e1, by simp [Enc.step, hd, h1, EncOut.ofRes], a1⟩
  | bool t v =>
    obtain ⟨e1, h1, a1⟩ := e.store_room _ h
    exact ⟨e1, by simp [Enc.step, h1, EncOut.ofRes], a1⟩
  | varint t v =>
    obtain ⟨e1, h1, a1⟩ := e.store_room _ h
    exact ⟨e1, by simp [Enc.step, h1, EncOut.ofRes], a1⟩
  | zigzag32 t v =>
    obtain ⟨e1, h1, a1⟩ := e.store_room _ h
    exact ⟨e1, by simp [Enc.step, h1, EncOut.ofRes], a1⟩
  | zigzag64 t v =>
    obtain ⟨e1, h1, a1⟩ := e.store_room _ h
    exact ⟨e1, by simp [Enc.step, h1, EncOut.ofRes], a1⟩
  | fixed32 t v =>
    obtain ⟨e1, h1, a1⟩ := e.store_room _ h
    exact ⟨e1, by simp [Enc.step, h1, EncOut.ofRes], a1⟩
  | fixed64 t v =>
    obtain ⟨e1, h1, a1⟩ := e.store_room _ h
    exact ⟨e1, by simp [Enc.step, h1, EncOut.ofRes], a1⟩
  | mapHeader t sz =>
    obtain ⟨e1, h1, a1⟩ := e.store_room _ h
    exact ⟨e1, by simp [Enc.step, h1, EncOut.ofRes], a1⟩

theorem Enc.new_written (n : Nat) : (Enc.new n).written = [] := by simp [Enc.new, Enc.written]
theorem Enc.new_cap (n : Nat) : (Enc.new n).cap = n := by simp [Enc.new, Enc.cap]

/-- written = whole buffer once the cursor reaches the capacity -/
theorem Enc.written_full {e : Enc} (h : e.off = e.cap) : e.written = e.buf := by
  unfold Enc.written Enc.cap at *; rw [h]; simp

end Csproto
