import Csproto.Model.Wire
/-
  L1 (read side): the cursor-based `Decoder` of decoder.go as a labelled transition system.
  Every exported method is one `DecOp`; `Dec.step` returns the new state, the outcome and the
  number of element cells / bytes the call *requests* from the allocator.

  Run-time panics are explicit: `idx p i` models `p[i]`, `sliceFrom p i` models `p[i:]`, and the
  `binary.LittleEndian.Uint32/64` reads panic on a short slice.  Theorems then show that no
  reachable call takes a `.panic` branch.
-/
namespace Csproto

structure Dec where
  p    : Bytes
  off  : Nat
  fast : Bool
  /-- `keyStart`, `keyEnd`: where the key read by the most recent successful `DecodeTag` starts / ends -/
  ks   : Nat := 0
  ke   : Nat := 0
deriving Repr, DecidableEq

def Dec.new (p : Bytes) : Dec := { p := p, off := 0, fast := false }
def Dec.len (d : Dec) : Nat := d.p.length
def Dec.rest (d : Dec) : Bytes := d.p.drop d.off

/-- Go `p[i:]` -/
def sliceFrom (p : Bytes) (i : Nat) : Res Bytes := if i ≤ p.length then .ok (p.drop i) else .panic
/-- `binary.LittleEndian.Uint32(p)` -/
def leU32 (p : Bytes) : Res Nat := if p.length < 4 then .panic else .ok (fromLE (p.take 4))
/-- `binary.LittleEndian.Uint64(p)` -/
def leU64 (p : Bytes) : Res Nat := if p.length < 8 then .panic else .ok (fromLE (p.take 8))

inductive Item where
  | unit
  | bool (b : Bool)
  | nat (n : Nat)
  | int (i : Int)
  | bytes (b : Bytes)
  | tag (n wt : Nat)
  | bools (bs : List Bool)
  | nats (ns : List Nat)
  | ints (is : List Int)
deriving Repr, DecidableEq

inductive DecOut where
  | ok (it : Item)
  | err
  /-- `DecodeNested`: the nested unmarshaler was invoked on `payload` and returned an error -/
  | errNested (payload : Bytes)
  | panic
deriving Repr, DecidableEq

inductive DecOp where
  | tag | bool | string | bytes | uint32 | uint64 | int32 | int64 | sint32 | sint64
  | fixed32 | fixed64 | float32 | float64
  | packedBool | packedInt32 | packedInt64 | packedUint32 | packedUint64 | packedSint32
  | packedSint64 | packedFixed32 | packedFixed64 | packedFloat32 | packedFloat64
  | nested (succeeds : Bool)
  | skip (tag wt : Nat)          -- `tag`, `wt` as the `uint64(...)` image of the Go `int` argument
  | seek (offset : Int) (whence : Int)
  | reset | setMode (fast : Bool) | more | offset
  /-- harness-only: after a failed call the environment may leave the cursor anywhere in
      `[0, len]` (the property does not constrain it further) -/
  | resync (n : Nat)
deriving Repr, DecidableEq

/-! #### element readers used by the scalar and the packed methods: value and bytes consumed -/

/-- the `if n == 0 { return …, ErrInvalid…Data }` guard every method applies to the free functions -/
def nz {α} (r : Res (α × Nat)) : Res (α × Nat) :=
  match r with
  | .ok (v, n) => if n = 0 then .err else .ok (v, n)
  | r => r

def elVarint (p : Bytes) : Res (Nat × Nat) := nz (decodeVarint p)

def elBool (p : Bytes) : Res (Bool × Nat) :=
  (elVarint p).map fun (v, n) => (v != 0, n)

def elUint32 (p : Bytes) : Res (Nat × Nat) :=
  match elVarint p with
  | .ok (v, n) => if v > 4294967295 then .err else .ok (v, n)
  | r => r

/-- `DecodeInt32`: `int64(v)` must lie in the int32 range -/
def elInt32 (p : Bytes) : Res (Int × Nat) :=
  match elVarint p with
  | .ok (v, n) => if toI64 v > 2147483647 ∨ toI64 v < -2147483648 then .err else .ok (toI64 v, n)
  | .err => .err
  | .panic => .panic

def elInt64 (p : Bytes) : Res (Int × Nat) :=
  (elVarint p).map fun (v, n) => (toI64 v, n)

def elFixed32 (p : Bytes) : Res (Nat × Nat) := nz (decodeFixed32 p)
def elFixed64 (p : Bytes) : Res (Nat × Nat) := nz (decodeFixed64 p)
def elSint32 (p : Bytes) : Res (Int × Nat) := nz (decodeZigZag32 p)
def elSint64 (p : Bytes) : Res (Int × Nat) := nz (decodeZigZag64 p)

/-- `DecodeFloat32` / the element read of `DecodePackedFloat32`: a short payload is an error
    (since the `fix:` commit; before it the `LittleEndian.Uint32` read panicked) -/
def elFloat32 (p : Bytes) : Res (Nat × Nat) := elFixed32 p
def elFloat64 (p : Bytes) : Res (Nat × Nat) := elFixed64 p

/-- scalar method skeleton: `if d.offset >= len(d.p) → EOF; v, n := elem(d.p[d.offset:]); d.offset += n` -/
def Dec.scalar (d : Dec) (elem : Bytes → Res (α × Nat)) (mk : α → Item) : Dec × DecOut :=
  if d.off ≥ d.len then (d, .err) else
  match sliceFrom d.p d.off with
  | .ok s =>
    match elem s with
    | .ok (v, n) => ({ d with off := d.off + n }, .ok (mk v))
    | .err => (d, .err)
    | .panic => (d, .panic)
  | _ => (d, .panic)

/-- the `for nRead < l { … }` loop shared by all `DecodePacked*`; the cursor is *not* restored on
    error.  `fuel` bounds the iterations (each consumes ≥ 1 byte). Returns new offset and result. -/
def packedLoop (elem : Bytes → Res (α × Nat)) (p : Bytes) (l : Nat) :
    (fuel : Nat) → (nRead off : Nat) → (acc : List α) → Nat × Res (List α)
  | 0, _, off, _ => (off, .err)
  | fuel+1, nRead, off, acc =>
    if nRead < l then
      if off ≥ p.length then (off, .err) else
      match sliceFrom p off with
      | .ok s =>
        match elem s with
        | .ok (v, n) => if n = 0 then (off, .err) else packedLoop elem p l fuel (nRead + n) (off + n) (v :: acc)
        | .err => (off, .err)
        | .panic => (off, .panic)
      | _ => (off, .panic)
    else if nRead ≠ l then (off, .err) else (off, .ok acc.reverse)

/-- `DecodePackedX`: returns state, outcome, allocation request (cells).
    `prealloc` models `make([]T, 0, l/k)` (only the float32 reader pre-allocates). -/
def Dec.packed (d : Dec) (elem : Bytes → Res (α × Nat)) (mk : List α → Item)
    (prealloc : Option Nat) : Dec × DecOut × Nat :=
  if d.off ≥ d.len then (d, .err, 0) else
  match sliceFrom d.p d.off with
  | .ok s =>
    match elVarint s with
    | .ok (l, n) =>
      let off1 := d.off + n
      match prealloc with
      | some k =>
        -- since the `fix:` commit a declared length beyond the remaining input is rejected
        -- before `make` is reached
        if l > d.len - off1 then ({ d with off := off1 }, .err, 0) else
        let (off2, r) := packedLoop elem d.p l (d.len + 1) 0 off1 []
        match r with
        | .ok vs => ({ d with off := off2 }, .ok (mk vs), l / k + vs.length)
        | .err => ({ d with off := off2 }, .err, l / k)
        | .panic => ({ d with off := off2 }, .panic, l / k)
      | none =>
        let (off2, r) := packedLoop elem d.p l (d.len + 1) 0 off1 []
        match r with
        | .ok vs => ({ d with off := off2 }, .ok (mk vs), vs.length)
        | .err => ({ d with off := off2 }, .err, off2 - off1)
        | .panic => ({ d with off := off2 }, .panic, 0)
    | .err => (d, .err, 0)
    | .panic => (d, .panic, 0)
  | _ => (d, .panic, 0)

/-- header of a length-delimited field (`DecodeBytes`, `DecodeNested`): payload start and length -/
def Dec.lenPrefix (d : Dec) : Res (Nat × Nat) :=
  if d.off ≥ d.len then .err else
  match sliceFrom d.p d.off with
  | .ok s =>
    match decodeVarint s with
    | .ok (l, n) =>
      if n = 0 then .err
      else if l > maxFieldLen then .err
      else if d.off + n + l > d.len then .err
      else .ok (d.off + n, l)
    | .err => .err
    | .panic => .panic
  | _ => .panic

def Dec.bytesOp (d : Dec) : Dec × DecOut :=
  match d.lenPrefix with
  | .ok (start, l) => ({ d with off := start + l }, .ok (.bytes ((d.p.drop start).take l)))
  | .err => (d, .err)
  | .panic => (d, .panic)

/-- `Skip`, safe mode only: re-read the key at `bof` and compare it with the expected tag / wire type -/
def Dec.skipCheck (d : Dec) (tag wt bof sz : Nat) : Res Unit :=
  if d.fast then .ok () else
  match sliceFrom d.p bof with
  | .ok s =>
    match decodeVarint s with
    | .ok (v, n) =>
      if n ≠ sz then .err
      else if v >>> 3 ≠ tag ∨ v &&& 7 ≠ wt then .err
      else .ok ()
    | .err => .err
    | .panic => .panic
  | _ => .panic

/-- `Skip`: number of payload bytes to skip for the wire type -/
def Dec.skipLen (d : Dec) (wt : Nat) : Res Nat :=
  if wt = wtVarint then
    match sliceFrom d.p d.off with
    | .ok s => (decodeVarint s).map (fun r => r.2)
    | _ => .panic
  else if wt = wtFixed64 then .ok 8
  else if wt = wtLen then
    match sliceFrom d.p d.off with
    | .ok s =>
      match decodeVarint s with
      | .ok (l, n) => if n = 0 then .err else if l > maxFieldLen then .err else .ok (n + l)
      | .err => .err
      | .panic => .panic
    | _ => .panic
  else if wt = wtFixed32 then .ok 4
  else .err

def Dec.skip (d : Dec) (tag wt : Nat) : Dec × DecOut :=
  if d.off ≥ d.len then (d, .err) else
  let sz := sizeOfTagKey tag
  -- `offset - sz` clamped at 0; when `Skip` directly follows the `DecodeTag` that read the key, the start
  -- of that key (they differ when the key was not minimally encoded)
  let bof := if d.ke = d.off ∧ d.ke > d.ks then d.ks else d.off - sz
  match d.skipCheck tag wt bof sz with
  | .err => (d, .err)
  | .panic => (d, .panic)
  | .ok () =>
    match d.skipLen wt with
    | .ok k =>
      if d.off + k > d.len then (d, .err)
      else ({ d with off := d.off + k }, .ok (.bytes ((d.p.drop bof).take (d.off + k - bof))))
    | .err => (d, .err)
    | .panic => (d, .panic)

/-- `Seek`: Go computes in wrapping 64-bit `int` -/
def Dec.seek (d : Dec) (offset whence : Int) : Dec × DecOut :=
  let pos0 : Int := toI64 (toU64 offset)
  let pos : Option Int :=
    if whence = 0 then some pos0
    else if whence = 1 then some (toI64 (toU64 (pos0 + d.off)))
    else if whence = 2 then some (toI64 (toU64 (pos0 + d.len)))
    else none
  match pos with
  | none => (d, .err)
  | some q =>
    if q < 0 ∨ q > d.len then (d, .err)
    else ({ d with off := q.toNat }, .ok (.int q))

def withAlloc (r : Dec × DecOut) (a : Nat) : Dec × DecOut × Nat := (r.1, r.2, a)

def Dec.step (d : Dec) : DecOp → Dec × DecOut × Nat
  | .tag =>
    if d.off ≥ d.len then (d, .err, 0) else
    match sliceFrom d.p d.off with
    | .ok s =>
      match decodeVarint s with
      | .ok (v, n) =>
        if n < 1 ∨ v < 1 ∨ v >>> 3 > maxTagValue then (d, .err, 0)
        else ({ d with off := d.off + n, ks := d.off, ke := d.off + n }, .ok (.tag (v >>> 3) (v &&& 7)), 0)
      | .err => (d, .err, 0)
      | .panic => (d, .panic, 0)
    | _ => (d, .panic, 0)
  | .bool => withAlloc (d.scalar elBool .bool) 0
  | .bytes => withAlloc d.bytesOp 0
  | .string =>
    if d.off ≥ d.len then (d, .err, 0) else
    match d.bytesOp with
    | (d', .ok (.bytes b)) => (d', .ok (.bytes b), if d.fast then 0 else b.length)
    | (d', o) => (d', o, 0)
  | .uint32 => withAlloc (d.scalar elUint32 .nat) 0
  | .uint64 => withAlloc (d.scalar elVarint .nat) 0
  | .int32 => withAlloc (d.scalar elInt32 .int) 0
  | .int64 => withAlloc (d.scalar elInt64 .int) 0
  | .sint32 => withAlloc (d.scalar elSint32 .int) 0
  | .sint64 => withAlloc (d.scalar elSint64 .int) 0
  | .fixed32 => withAlloc (d.scalar elFixed32 .nat) 0
  | .fixed64 => withAlloc (d.scalar elFixed64 .nat) 0
  | .float32 => withAlloc (d.scalar elFloat32 .nat) 0
  | .float64 => withAlloc (d.scalar elFloat64 .nat) 0
  | .packedBool => d.packed elBool .bools none
  | .packedInt32 => d.packed elInt32 .ints none
  | .packedInt64 => d.packed elInt64 .ints none
  | .packedUint32 => d.packed elUint32 .nats none
  | .packedUint64 => d.packed elVarint .nats none
  | .packedSint32 => d.packed elSint32 .ints none
  | .packedSint64 => d.packed elSint64 .ints none
  | .packedFixed32 => d.packed elFixed32 .nats none
  | .packedFixed64 => d.packed elFixed64 .nats none
  | .packedFloat32 => d.packed elFloat32 .nats (some 4)
  | .packedFloat64 => d.packed elFloat64 .nats none
  | .nested succeeds =>
    match d.lenPrefix with
    | .ok (start, l) =>
      let payload := (d.p.drop start).take l
      if succeeds then ({ d with off := start + l }, .ok (.bytes payload), 0)
      else (d, .errNested payload, 0)
    | .err => (d, .err, 0)
    | .panic => (d, .panic, 0)
  | .skip tag wt => withAlloc (d.skip tag wt) 0
  | .seek o w => withAlloc (d.seek o w) 0
  | .reset => ({ d with off := 0 }, .ok .unit, 0)
  | .setMode f => ({ d with fast := f }, .ok .unit, 0)
  | .more => (d, .ok (.bool (d.off < d.len)), 0)
  | .offset => (d, .ok (.nat d.off), 0)
  | .resync n => (if n ≤ d.len then { d with off := n } else d, .ok .unit, 0)

/-- run an op sequence, collecting outcomes and allocation requests -/
def Dec.run (d : Dec) : List DecOp → Dec × List (DecOut × Nat)
  | [] => (d, [])
  | op :: ops =>
    let (d1, o, a) := d.step op
    let (d2, rs) := d1.run ops
    (d2, (o, a) :: rs)

end Csproto
