import Csproto.Model.Wire
/-
  L1 (write side): the cursor-based `Encoder` of encoder.go.

  The Go encoder writes strictly sequentially at `e.offset` into a caller-supplied slice of fixed
  length `cap` and never revisits a byte, so the observable buffer is `out ++ (untouched suffix)`.
  Two write disciplines exist in the source and behave differently when the buffer is too small:
    * indexed stores (`dest[n] = …`, `PutUint32/64`)  → run-time panic;
    * `copy(e.p[e.offset:], v)`                        → silent truncation, and the cursor is still
      advanced by `len(v)`; the slice expression itself panics once `offset > cap`.
-/
namespace Csproto

structure Enc where
  buf : Bytes      -- the caller's slice; `cap = buf.length`
  off : Nat
deriving Repr, DecidableEq

def Enc.cap (e : Enc) : Nat := e.buf.length
def Enc.new (cap : Nat) : Enc := { buf := List.replicate cap 0, off := 0 }
/-- what has been written so far -/
def Enc.written (e : Enc) : Bytes := e.buf.take e.off

def writeAt (buf : Bytes) (off : Nat) (bs : Bytes) : Bytes :=
  buf.take off ++ bs ++ buf.drop (off + bs.length)

/-- indexed stores of `bs` at the cursor -/
def Enc.store (e : Enc) (bs : Bytes) : Res Enc :=
  if e.off + bs.length ≤ e.cap then .ok { buf := writeAt e.buf e.off bs, off := e.off + bs.length }
  else .panic

/-- `copy(e.p[e.offset:], bs); e.offset += n` (`n = len(bs)` except in `EncodeNested`) -/
def Enc.copyAdv (e : Enc) (bs : Bytes) (n : Nat) : Res Enc :=
  if e.off ≤ e.cap then .ok { buf := writeAt e.buf e.off (bs.take (e.cap - e.off)), off := e.off + n }
  else .panic

def Enc.copy (e : Enc) (bs : Bytes) : Res Enc := e.copyAdv bs bs.length

/-- values of the packed list writers / scalar writers, already converted the way the Go method
    converts its argument (`uint64(v)` sign-extends signed inputs) -/
inductive EncOp where
  | bool (tag : Nat) (v : Bool)
  | varint (tag : Nat) (v : Nat)          -- EncodeUInt32/UInt64/Int32/Int64 after `uint64(v)`
  | zigzag32 (tag : Nat) (v : Int)
  | zigzag64 (tag : Nat) (v : Int)
  | fixed32 (tag : Nat) (v : Nat)         -- EncodeFixed32, EncodeFloat32 (bits)
  | fixed64 (tag : Nat) (v : Nat)
  | bytes (tag : Nat) (v : Bytes)         -- EncodeBytes / EncodeString
  | packedBool (tag : Nat) (vs : List Bool)
  | packedVarint (tag : Nat) (vs : List Nat)
  | packedZigzag32 (tag : Nat) (vs : List Int)
  | packedZigzag64 (tag : Nat) (vs : List Int)
  | packedFixed32 (tag : Nat) (vs : List Nat)
  | packedFixed64 (tag : Nat) (vs : List Nat)
  | raw (d : Bytes)
  | mapHeader (tag : Nat) (size : Nat)
  /-- `EncodeNested(tag, m)`: `size` = what `csproto.Size(m)` returns (consulted on the MarshalerTo
      path only); `how`: 0 = MarshalerTo, 1 = Marshaler, 2 = runtime (`csproto.Marshal`); `body` =
      `none` when the nested marshal fails, else the bytes it produces -/
  | nested (tag : Nat) (size : Nat) (how : Nat) (body : Option Bytes)
deriving Repr

def sumSizes (f : α → Nat) (vs : List α) : Nat := (vs.map f).sum

/-- the bytes a writer emits when the buffer is large enough -/
def EncOp.wire : EncOp → Bytes
  | .bool t v => encTag t wtVarint ++ [boolByte v]
  | .varint t v => encTag t wtVarint ++ encVarint v
  | .zigzag32 t v => encTag t wtVarint ++ encZigZag32 v
  | .zigzag64 t v => encTag t wtVarint ++ encZigZag64 v
  | .fixed32 t v => encTag t wtFixed32 ++ encFixed32 v
  | .fixed64 t v => encTag t wtFixed64 ++ encFixed64 v
  | .bytes t v => encTag t wtLen ++ encVarint v.length ++ v
  | .packedBool t vs => if vs.isEmpty then [] else
      encTag t wtLen ++ encVarint vs.length ++ vs.map boolByte
  | .packedVarint t vs => if vs.isEmpty then [] else
      encTag t wtLen ++ encVarint (sumSizes sizeOfVarint vs) ++ (vs.map encVarint).flatten
  | .packedZigzag32 t vs => if vs.isEmpty then [] else
      encTag t wtLen ++ encVarint (sumSizes sizeOfZigZag vs) ++ (vs.map encZigZag32).flatten
  | .packedZigzag64 t vs => if vs.isEmpty then [] else
      encTag t wtLen ++ encVarint (sumSizes sizeOfZigZag vs) ++ (vs.map encZigZag64).flatten
  | .packedFixed32 t vs => if vs.isEmpty then [] else
      encTag t wtLen ++ encVarint (vs.length * 4) ++ (vs.map encFixed32).flatten
  | .packedFixed64 t vs => if vs.isEmpty then [] else
      encTag t wtLen ++ encVarint (vs.length * 8) ++ (vs.map encFixed64).flatten
  | .raw d => d
  | .mapHeader t sz => encTag t wtLen ++ encVarint sz
  | .nested t sz how body => encTag t wtLen ++ encVarint (if how = 0 then sz else (body.getD []).length) ++ (body.getD [])

/-- result of one encoder call: new state, or the call returned an error (`EncodeNested` only;
    the state after the error is kept), or panicked -/
inductive EncOut where
  | ok (e : Enc)
  | err (e : Enc)
  | panic
deriving Repr

def EncOut.ofRes : Res Enc → EncOut
  | .ok e => .ok e
  | .err => .panic   -- unreachable: store/copy never return `err`
  | .panic => .panic

/-- one encoder call, with the write discipline of the source -/
def Enc.step (e : Enc) : EncOp → EncOut
  | .bytes t v => EncOut.ofRes do
      let e ← e.store (encTag t wtLen)
      let e ← e.store (encVarint v.length)
      e.copy v
  | .raw d => if d.isEmpty then .ok e else EncOut.ofRes (e.copy d)
  | .nested t sz how body =>
      if how = 0 then
        -- MarshalerTo: key and `Size(m)` first, then `tv.MarshalTo(e.p[e.offset:])`, then `offset += sz`
        match (do let e ← e.store (encTag t wtLen); e.store (encVarint sz) : Res Enc) with
        | .ok e1 =>
          match body with
          | none => .err e1        -- (the slice expression cannot panic here: the stores succeeded)
          | some b =>
            match e1.store b with
            | .ok e2 => .ok { e2 with off := e1.off + sz }
            | _ => .panic
        | _ => .panic
      else
        -- Marshaler / runtime: marshal first; on success exactly `EncodeBytes(tag, buf)`
        match body with
        | none => .err e
        | some b => EncOut.ofRes do
            let e ← e.store (encTag t wtLen)
            let e ← e.store (encVarint b.length)
            e.copy b
  | op@(.packedBool _ vs) => if vs.isEmpty then .ok e else EncOut.ofRes (e.store op.wire)
  | op@(.packedVarint _ vs) => if vs.isEmpty then .ok e else EncOut.ofRes (e.store op.wire)
  | op@(.packedZigzag32 _ vs) => if vs.isEmpty then .ok e else EncOut.ofRes (e.store op.wire)
  | op@(.packedZigzag64 _ vs) => if vs.isEmpty then .ok e else EncOut.ofRes (e.store op.wire)
  | op@(.packedFixed32 _ vs) => if vs.isEmpty then .ok e else EncOut.ofRes (e.store op.wire)
  | op@(.packedFixed64 _ vs) => if vs.isEmpty then .ok e else EncOut.ofRes (e.store op.wire)
  | op => EncOut.ofRes (e.store op.wire)

/-- run a whole program on a fresh buffer; stops at the first panic -/
def Enc.run (e : Enc) : List EncOp → EncOut
  | [] => .ok e
  | op :: ops =>
    match e.step op with
    | .ok e' => e'.run ops
    | .err e' => e'.run ops
    | .panic => .panic

end Csproto
