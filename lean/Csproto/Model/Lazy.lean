import Csproto.Model.Dec
/-
  L4: lazyproto — one pass recording raw value slices per requested tag, typed accessors, nested
  results, and the pooled-object life cycle (`sync.Pool` reuse, `Close`).

  Unobservable by construction (and therefore absent from the model): slice capacities, the
  `WithMaxBufferSize` / `WithBufferFilterFunc` trimming (they only change capacities), the
  fast-mode scratch slices (they only change aliasing, which is C10's concern).
-/
namespace Csproto

/-- recorded data of one requested tag: wire type of the occurrences and their raw payloads -/
structure FD where
  wt : Nat
  data : List Bytes
deriving Repr, DecidableEq

/-- a decoder (and all its nested decoders): sorted, de-duplicated tags -/
inductive LDec where
  | mk (flat : List Nat) (nested : List (Nat × LDec))
deriving Repr

def LDec.flat : LDec → List Nat | .mk f _ => f
def LDec.nested : LDec → List (Nat × LDec) | .mk _ n => n

/-- a definition as the caller builds it: map entries (unique keys) -/
inductive LDef where
  | node (entries : List (Int × Option LDef))
deriving Repr

def insertSorted (x : Nat) : List Nat → List Nat
  | [] => [x]
  | y :: ys => if x < y then x :: y :: ys else if x = y then y :: ys else y :: insertSorted x ys

def sortDedup (xs : List Nat) : List Nat := xs.foldr insertSorted []

def insertNested (x : Nat × LDec) : List (Nat × LDec) → List (Nat × LDec)
  | [] => [x]
  | y :: ys => if x.1 < y.1 then x :: y :: ys else if x.1 = y.1 then y :: ys else y :: insertNested x ys

mutual
/-- `newBaseResult`: |k| for every key; nested decoders for keys with a sub-definition, built from
    the definition stored under the *positive* key -/
def LDef.compile : LDef → LDec
  | .node es => .mk (sortDedup (es.map fun e => e.1.natAbs)) (compileNested es es)
def compileNested (all : List (Int × Option LDef)) : List (Int × Option LDef) → List (Nat × LDec)
  | [] => []
  | (k, some _) :: rest => insertNested (k.natAbs, lookupCompile k.natAbs all) (compileNested all rest)
  | (_, none) :: rest => compileNested all rest
/-- `def[tag]` for the positive key (an absent or nil entry gives the empty decoder) -/
def lookupCompile (tag : Nat) : List (Int × Option LDef) → LDec
  | [] => .mk [] []
  | (k, some d) :: rest => if k = (tag : Int) then d.compile else lookupCompile tag rest
  | (k, none) :: rest => if k = (tag : Int) then .mk [] [] else lookupCompile tag rest
end

def idxOf? (xs : List Nat) (x : Nat) : Option Nat :=
  let i := xs.idxOf x
  if i < xs.length then some i else none

def LDec.sub (d : LDec) (tag : Nat) : Option LDec := (d.nested.find? (·.1 = tag)).map (·.2)

/-- `(*DecodeResult).decode`: one pass in fast mode appending to the object's current field data -/
def decodeIntoLoop (flat : List Nat) : (fuel : Nat) → Dec → List FD → Res (List FD)
  | 0, _, _ => .err
  | fuel+1, d, fds =>
    if ¬ (d.off < d.len) then .ok fds else
    match d.step .tag with
    | (d1, .ok (.tag tag wt), _) =>
      match idxOf? flat tag with
      | none =>
        match d1.step (.skip tag wt) with
        | (d2, .ok _, _) => decodeIntoLoop flat fuel d2 fds
        | (_, .panic, _) => .panic
        | _ => .err
      | some i =>
        match fds[i]? with
        | none => .panic           -- flatData shorter than flatTags: impossible by construction
        | some fd =>
          if ¬ fd.data.isEmpty ∧ fd.wt ≠ wt then .err else
          if wt = wtVarint ∨ wt = wtFixed32 ∨ wt = wtFixed64 then
            match d1.step (.skip tag wt) with
            | (d2, .ok (.bytes _), _) =>
              -- `start := dec.Offset()` after DecodeTag, `data[start:dec.Offset()]` after Skip: the value, whatever the length of the key
              decodeIntoLoop flat fuel d2 (fds.set i { wt := wt, data := fd.data ++ [(d1.p.drop d1.off).take (d2.off - d1.off)] })
            | (_, .panic, _) => .panic
            | _ => .err
          else if wt = wtLen then
            match d1.step .bytes with
            | (d2, .ok (.bytes val), _) =>
              decodeIntoLoop flat fuel d2 (fds.set i { wt := wt, data := fd.data ++ [val] })
            | (_, .panic, _) => .panic
            | _ => .err
          else .err
    | (_, .panic, _) => .panic
    | _ => .err

def decodeInto (flat : List Nat) (fds : List FD) (input : Bytes) : Res (List FD) :=
  decodeIntoLoop flat (input.length + 1) { p := input, off := 0, fast := true } fds

def cleanFds (n : Nat) : List FD := List.replicate n { wt := 0, data := [] }

/-! ### typed accessors (fielddata.go) -/

inductive Acc where
  | bool | bools | string | strings | bytes | bytess
  | uint32 | uint32s | int32 | int32s | sint32 | sint32s
  | uint64 | uint64s | int64 | int64s | sint64 | sint64s
  | fixed32 | fixed32s | fixed64 | fixed64s | float32 | float32s | float64 | float64s
deriving Repr, DecidableEq

inductive Ans where
  | ok (it : Item)
  | okBytesList (bs : List Bytes)
  | notFound | notDefined | nestingNotDefined | mismatch | overflow | err | panic
deriving Repr, DecidableEq

/-- result of a conversion function: value, bytes consumed -/
inductive Conv (α : Type) where
  | ok (v : α) (n : Nat)
  | overflow
  | err

/-- which error `DecodeVarint` reports: `ErrValueOverflow` when ten bytes in a row carry the
    continuation bit (only the `len(p) >= 10` path can see that), otherwise an EOF / invalid-data
    error.  The typed accessors surface this distinction through `errors.Is`. -/
def varintErrIsOverflow (p : Bytes) : Bool := p.length ≥ 10 && (p.take 10).all (fun b => b.toNat ≥ 128)

def varintErr {α} (p : Bytes) : Conv α := if varintErrIsOverflow p then .overflow else .err

def convVarint (f : Nat → Option α) (p : Bytes) : Conv α :=
  match decodeVarint p with
  | .ok (v, n) => match f v with | some x => .ok x n | none => .overflow
  | _ => varintErr p

/-- `SInt32Value(s)`: the varint must fit in 32 bits (overflow otherwise, like `Int32Value` / `UInt32Value`),
    then the zig-zag transform on those 32 bits -/
def convZz32 (p : Bytes) : Conv Int :=
  match decodeVarint p with
  | .ok (dv, n) => if n = 0 then .err else if dv > 4294967295 then .overflow else .ok (unzigzag (dv % two32)) n
  | _ => varintErr p
def convZz64 (p : Bytes) : Conv Int :=
  match decodeZigZag64 p with | .ok (v, n) => .ok v n | _ => varintErr p
def convFixed32 (p : Bytes) : Conv Nat :=
  match decodeFixed32 p with | .ok (v, n) => .ok v n | _ => .err
def convFixed64 (p : Bytes) : Conv Nat :=
  match decodeFixed64 p with | .ok (v, n) => .ok v n | _ => .err

/-- `scalarValue`: last occurrence, wire type must match -/
def scalarValue (fd : FD) (wt : Nat) (conv : Bytes → Conv α) (mk : α → Item) : Ans :=
  match fd.data.getLast? with
  | none => .notFound
  | some last =>
    if fd.wt ≠ wt then .mismatch else
    match conv last with
    | .ok v _ => .ok (mk v)
    | .overflow => .overflow
    | .err => .err

/-- the inner `for offset < len(data)` loop of `sliceValue` -/
def chunkValues (conv : Bytes → Conv α) : (fuel : Nat) → Bytes → List α → Option (Option (List α))
  | 0, _, _ => some none
  | fuel+1, data, acc =>
    if data.isEmpty then some (some acc) else
    match conv data with
    | .ok v n => if n = 0 then some none else chunkValues conv fuel (data.drop n) (acc ++ [v])
    | .overflow => none
    | .err => some none

/-- `sliceValue` (after the caller's `len(fd.data) == 0` guard): every occurrence, packed runs
    expanded; a length-delimited target takes exactly one value per occurrence. Result:
    `none` = overflow, `some none` = other error -/
def sliceLoop (wt : Nat) (conv : Bytes → Conv α) : List Bytes → List α → Option (Option (List α))
  | [], acc => some (some acc)
  | data :: rest, acc =>
    if wt = wtLen then
      match conv data with
      | .ok v _ => sliceLoop wt conv rest (acc ++ [v])
      | .overflow => none
      | .err => some none
    else
      match chunkValues conv (data.length + 1) data acc with
      | some (some acc') => sliceLoop wt conv rest acc'
      | r => r

def sliceValue (fd : FD) (wt : Nat) (conv : Bytes → Conv α) (mk : List α → Item) : Ans :=
  if fd.data.isEmpty then .notFound else
  if fd.wt = wt ∨ fd.wt = wtLen then
    match sliceLoop wt conv fd.data [] with
    | some (some vs) => .ok (mk vs)
    | some none => .err
    | none => .overflow
  else .mismatch

def u32? (v : Nat) : Option Nat := if v > 4294967295 then none else some v
def i32? (v : Nat) : Option Int := if toI64 v > 2147483647 ∨ toI64 v < -2147483648 then none else some (toI64 v)

def accessFD (fd : FD) : Acc → Ans
  | .bool => scalarValue fd wtVarint (convVarint fun v => some (v != 0)) .bool
  | .bools => sliceValue fd wtVarint (convVarint fun v => some (v != 0)) .bools
  | .string | .bytes => scalarValue fd wtLen (fun p => .ok p p.length) .bytes
  | .strings => sliceValue fd wtLen (fun p => Conv.ok p p.length) (fun vs => .nats (vs.map List.length)) |> fun a =>
      match a with
      | .ok _ => .okBytesList fd.data      -- one string per occurrence
      | a => a
  | .bytess => if fd.data.isEmpty then .notFound else if fd.wt ≠ wtLen then .mismatch else .okBytesList fd.data
  | .uint32 => scalarValue fd wtVarint (convVarint u32?) .nat
  | .uint32s => sliceValue fd wtVarint (convVarint u32?) .nats
  | .int32 => scalarValue fd wtVarint (convVarint i32?) .int
  | .int32s => sliceValue fd wtVarint (convVarint i32?) .ints
  | .sint32 => scalarValue fd wtVarint convZz32 .int
  | .sint32s => sliceValue fd wtVarint convZz32 .ints
  | .uint64 => scalarValue fd wtVarint (convVarint some) .nat
  | .uint64s => sliceValue fd wtVarint (convVarint some) .nats
  | .int64 => scalarValue fd wtVarint (convVarint fun v => some (toI64 v)) .int
  | .int64s => sliceValue fd wtVarint (convVarint fun v => some (toI64 v)) .ints
  | .sint64 => scalarValue fd wtVarint convZz64 .int
  | .sint64s => sliceValue fd wtVarint convZz64 .ints
  | .fixed32 | .float32 => scalarValue fd wtFixed32 convFixed32 .nat
  | .fixed32s | .float32s => sliceValue fd wtFixed32 convFixed32 .nats
  | .fixed64 | .float64 => scalarValue fd wtFixed64 convFixed64 .nat
  | .fixed64s | .float64s => sliceValue fd wtFixed64 convFixed64 .nats

/-- `GetFieldData(tag)` + accessor on a result with field data `fds` (tag already made positive) -/
def accessTag (dec : LDec) (fds : List FD) (tag : Nat) (a : Acc) : Ans :=
  if dec.flat.isEmpty then .notDefined else
  match idxOf? dec.flat tag with
  | none => .notDefined
  | some i =>
    match fds[i]? with
    | none => .panic
    | some fd => if fd.data.isEmpty then .notFound else accessFD fd a

/-- the payload `NestedResult(tag)` decodes: last occurrence of a length-delimited field -/
inductive NestedSel where
  | payload (dec : LDec) (b : Bytes)
  | ans (a : Ans)

def nestedSelect (dec : LDec) (fds : List FD) (tag : Nat) : NestedSel :=
  if dec.nested.isEmpty then .ans .notDefined else
  match idxOf? dec.flat tag with
  | none => .ans .notDefined
  | some i =>
    match dec.sub tag with
    | none => .ans .nestingNotDefined
    | some sub =>
      match fds[i]? with
      | none => .ans .panic
      | some fd =>
        match fd.data.getLast? with
        | none => .ans .notFound
        | some last => if fd.wt ≠ wtLen then .ans .mismatch else .payload sub last

/-- pure view of `FieldData(path…)` + accessor on freshly decoded data (what the result *means*):
    every nested step decodes the last occurrence's payload with a clean object -/
def lookupPath : (fuel : Nat) → LDec → Option (List FD) → List Nat → Acc → Ans
  | 0, _, _, _, _ => .err
  | _, _, _, [], _ => .err
  | _+1, _, none, _, _ => .notDefined         -- nil result (empty message)
  | _+1, dec, some fds, [tag], a => accessTag dec fds tag a
  | fuel+1, dec, some fds, tag :: rest, a =>
    match nestedSelect dec fds tag with
    | .ans x => x
    | .payload sub b =>
      if b.isEmpty then lookupPath fuel sub none rest a else
      match decodeInto sub.flat (cleanFds sub.flat.length) b with
      | .ok fds' => lookupPath fuel sub (some fds') rest a
      | .err => .err
      | .panic => .panic

end Csproto
