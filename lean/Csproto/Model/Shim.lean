import Csproto.Model.Basic
/-
  L5: the runtime-agnostic shim as decision logic.  Runtimes are abstract; what is modelled is which
  branch a value's *capability vector* selects, the first-use type cache, and the JSON option wiring.
-/
namespace Csproto

inductive MT where
  | unknown | gogo | googleV1 | google
deriving Repr, DecidableEq

def MT.toNat : MT → Nat | .unknown => 0 | .gogo => 1 | .googleV1 => 2 | .google => 3

/-- what `MsgType` looks at -/
structure Caps where
  nilIface : Bool        -- the interface value itself is nil
  isV2 : Bool            -- satisfies google.golang.org/protobuf proto.Message
  isPtr : Bool           -- reflect kind is Ptr
  isV1Iface : Bool       -- satisfies the (identical) gogo / golang-v1 Message interface
  gogoRegistered : Bool  -- gogo.MessageName(m) != ""
deriving Repr, DecidableEq

/-- `deduceMsgType` -/
def deduce (c : Caps) : MT :=
  if c.isV2 then .google
  else if !c.isPtr then .unknown
  else if c.isV1Iface then (if c.gogoRegistered then .gogo else .googleV1)
  else .unknown

/-- `MsgType` without the cache -/
def msgType (c : Caps) : MT := if c.nilIface then .unknown else deduce c

/-! ### the first-use type cache: `Load`; on a miss `deduceMsgType`; `Store` -/

inductive PC where
  | start
  | missed
  | deduced (v : MT)
  | done (v : MT)
deriving Repr, DecidableEq

structure CacheState where
  cache : Option MT
  pcs : List PC
deriving Repr

def CacheState.init (g : Nat) : CacheState := { cache := none, pcs := List.replicate g .start }

/-- goroutine `g` performs its next atomic action (`sync.Map` operations are linearizable) -/
def cacheStep (c : Caps) (s : CacheState) (g : Nat) : CacheState :=
  match s.pcs[g]? with
  | none => s
  | some .start =>
    match s.cache with
    | some v => { s with pcs := s.pcs.set g (.done v) }
    | none => { s with pcs := s.pcs.set g .missed }
  | some .missed => { s with pcs := s.pcs.set g (.deduced (deduce c)) }
  | some (.deduced v) => { cache := some v, pcs := s.pcs.set g (.done v) }
  | some (.done _) => s

def cacheRun (c : Caps) (s : CacheState) (sched : List Nat) : CacheState := sched.foldl (cacheStep c) s

/-! ### `Equal`: classify both arguments, then ask the runtime that owns them

  The runtimes' equality relations are abstract (`rt`: what the owning runtime's `Equal` says about the
  pair).  They are NOT assumed reflexive: Gogo compares float fields with Go's `==`, so a message that
  holds a NaN is not equal to itself there.  `samePtr` (both interface values hold the very same
  pointer) is an input of the model precisely so that the theorems can say it is never looked at. -/

/-- `csproto.Equal` as the source has it: classes differ → false; unsupported → false; else the runtime's answer -/
def shimEqual (t1 t2 : MT) (_samePtr : Bool) (rt : Bool) : Bool :=
  if t1 != t2 then false
  else match t1 with
    | .unknown => false
    | _ => rt

/-- a dispatcher that answers "same pointer" by itself (what protobuf-go does *inside* its own `Equal`,
    where the relation is reflexive) — not what the shim may do for a runtime it does not own -/
def shimEqualShortcut (t1 t2 : MT) (samePtr : Bool) (rt : Bool) : Bool :=
  if t1 != t2 then false
  else match t1 with
    | .unknown => false
    | _ => if samePtr then true else rt

/-- `Clone` / `MarshalText` / the extension accessors: unsupported → the documented zero result (`none`),
    else the result of the owning runtime's function, unchanged -/
def shimUnary {α : Type} (t : MT) (rt : α) : Option α :=
  match t with
  | .unknown => none
  | _ => some rt

/-! ### dispatch by probing interfaces in source order -/

/-- first probe (in the order the source tests them) that the value satisfies -/
def firstProbe (probes : List String) (has : String → Bool) : Option String := probes.find? has

end Csproto
