/-
  Basic vocabulary of the csproto model.  Core-only (no Mathlib): this file is imported by the
  line-protocol driver, which is linked as a `lean_exe`.
-/
namespace Csproto

abbrev Bytes := List UInt8

/-- Outcome of a modelled Go call: a value, a returned `error`, or a run-time panic
    (index out of range, slice bounds, nil dereference, `makeslice: cap out of range`). -/
inductive Res (α : Type) where
  | ok    : α → Res α
  | err   : Res α
  | panic : Res α
deriving Repr, DecidableEq

namespace Res
def map (f : α → β) : Res α → Res β
  | .ok a => .ok (f a)
  | .err => .err
  | .panic => .panic

def bind (r : Res α) (f : α → Res β) : Res β :=
  match r with
  | .ok a => f a
  | .err => .err
  | .panic => .panic

instance : Monad Res where
  pure := Res.ok
  bind := Res.bind

def isPanic : Res α → Bool
  | .panic => true
  | _ => false

@[simp] theorem bind_ok (a : α) (f : α → Res β) : (Res.ok a >>= f) = f a := rfl
@[simp] theorem bind_err (f : α → Res β) : ((Res.err : Res α) >>= f) = Res.err := rfl
@[simp] theorem bind_panic (f : α → Res β) : ((Res.panic : Res α) >>= f) = Res.panic := rfl
@[simp] theorem pure_eq (a : α) : (pure a : Res α) = Res.ok a := rfl
end Res

def two64 : Nat := 18446744073709551616
def two63 : Nat := 9223372036854775808
def two32 : Nat := 4294967296
def two31 : Nat := 2147483648

theorem two64_eq : two64 = 2 ^ 64 := by decide
theorem two63_eq : two63 = 2 ^ 63 := by decide
theorem two32_eq : two32 = 2 ^ 32 := by decide
theorem two31_eq : two31 = 2 ^ 31 := by decide

/-- Go `uint64(x)` for a signed 64-bit (or sign-extended 32-bit) integer `x`. -/
def toU64 (i : Int) : Nat := (i % (two64 : Int)).toNat
/-- Go `int64(v)` for `v : uint64`. -/
def toI64 (v : Nat) : Int := if v % two64 < two63 then (v % two64 : Nat) else ((v % two64 : Nat) : Int) - two64
/-- Go `uint32(x)` of a signed 32-bit integer. -/
def toU32 (i : Int) : Nat := (i % (two32 : Int)).toNat
/-- Go `int32(v)` for an unsigned value (truncating). -/
def toI32 (v : Nat) : Int := if v % two32 < two31 then (v % two32 : Nat) else ((v % two32 : Nat) : Int) - two32

def InI32 (i : Int) : Prop := -(two31 : Int) ≤ i ∧ i < two31
def InI64 (i : Int) : Prop := -(two63 : Int) ≤ i ∧ i < two63

instance (i : Int) : Decidable (InI32 i) := by unfold InI32; infer_instance
instance (i : Int) : Decidable (InI64 i) := by unfold InI64; infer_instance

end Csproto
