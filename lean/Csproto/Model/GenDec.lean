import Csproto.Model.Gen
import Csproto.Model.Dec
/-
  L3, read side: the `Unmarshal` method protoc-gen-fastmarshal generates, as a loop of calls of the
  L1 decoder model (`Dec.step`, decoder.go) — one arm per `Unmarshal*` template snippet.

  `Reset()`, then `for dec.More() { tag, wt := DecodeTag(); switch tag { … default: Skip } }`, then the
  required-field check.  Nested messages and map entries recurse on the payload bytes; `fuel` bounds the
  recursion (`unmarshal` passes 3·len+8, which the loop cannot exhaust: every iteration consumes a byte).

  Core-only: imported by the line-protocol driver.
-/
namespace Csproto.Gen
open Csproto

/-- expected wire type of one element of the kind -/
def wtOf : SK → Nat
  | .fixed32 | .sfixed32 | .float => wtFixed32
  | .fixed64 | .sfixed64 | .double => wtFixed64
  | .string | .bytes => wtLen
  | _ => wtVarint

/-- the decoder method the snippet calls for one element -/
def decOpOf : SK → DecOp
  | .bool => .bool | .int32 | .enum => .int32 | .int64 => .int64 | .uint32 => .uint32 | .uint64 => .uint64
  | .sint32 => .sint32 | .sint64 => .sint64 | .fixed32 | .sfixed32 => .fixed32 | .fixed64 | .sfixed64 => .fixed64
  | .float => .float32 | .double => .float64 | .string => .string | .bytes => .bytes

/-- the packed reader (`DecodePacked*`); `none`: not packable -/
def packedDecOpOf : SK → Option DecOp
  | .bool => some .packedBool | .int32 | .enum => some .packedInt32 | .int64 => some .packedInt64
  | .uint32 => some .packedUint32 | .uint64 => some .packedUint64 | .sint32 => some .packedSint32
  | .sint64 => some .packedSint64 | .fixed32 | .sfixed32 => some .packedFixed32
  | .fixed64 | .sfixed64 => some .packedFixed64 | .float => some .packedFloat32 | .double => some .packedFloat64
  | .string | .bytes => none

/-- is the Go field type 32 bits wide (signed results are stored as their 32-bit pattern) -/
def is32 : SK → Bool
  | .int32 | .sint32 | .enum | .sfixed32 => true
  | _ => false

/-- the value stored into the struct for what the decoder handed back -/
def itemToV (k : SK) : Item → V
  | .bool b => .num (if b then 1 else 0)
  | .nat n => .num n
  | .int i => .num (if is32 k then toU32 i else toU64 i)
  | .bytes b => .bs b
  | _ => .num 0

def itemToVs (k : SK) : Item → List V
  | .bools bs => bs.map fun b => .num (if b then 1 else 0)
  | .nats ns => ns.map V.num
  | .ints is => is.map fun i => .num (if is32 k then toU32 i else toU64 i)
  | _ => []

/-- the struct after `Reset()` -/
def initField (fd : FD) : F :=
  match fd.card with
  | .implicit =>
    match fd.ty with
    | .sc .string | .sc .bytes => .one (.bs [])
    | _ => .one (.num 0)
  | .always =>
    match fd.ty with
    | .sc .string | .sc .bytes => .one (.bs [])
    | .sc _ => .one (.num 0)
    | .msg _ => .unset                      -- `entryValue == nil` until decoded
  | .list | .packed | .map => .many []
  | _ => .unset

def initFields (md : MD) : List F := md.map initField

def findField : MD → Nat → Nat → Option (Nat × FD)
  | [], _, _ => none
  | fd :: md, num, i => if fd.num = num then some (i, fd) else findField md num (i + 1)

def keyEq : V → V → Bool
  | .num a, .num b => a == b
  | .bs a, .bs b => a == b
  | _, _ => false

/-- the key of a decoded map entry (first field of the entry message) -/
def entryKey : V → V
  | .msg (.one k :: _) _ => k
  | _ => .num 0

/-- `m.Map[entryKey] = entryValue`: replace the entry with that key, else add one -/
def mapInsert (e : V) : List V → List V
  | [] => [e]
  | x :: xs => if keyEq (entryKey x) (entryKey e) then e :: xs else x :: mapInsert e xs

/-- assign field `idx`; a oneof member replaces whichever member of its group was set -/
def assign (md : MD) (fs : List F) (idx : Nat) (fd : FD) (f : F) : List F :=
  let fs' := match fd.card with
    | .oneof g => (md.zip fs).map fun (p : FD × F) => if p.1.card = Card.oneof g then F.unset else p.2
    | _ => fs
  fs'.set idx f

def appendTo (f : F) (vs : List V) : F :=
  match f with
  | .many old => .many (old ++ vs)
  | _ => .many vs

/-- one scalar element with the wire-type check of the singular snippets -/
def readScalar (k : SK) (d : Dec) (wt : Nat) : Res (Dec × V) :=
  if wt ≠ wtOf k then .err else
  match d.step (decOpOf k) with
  | (d', .ok it, _) => .ok (d', itemToV k it)
  | (_, .panic, _) => .panic
  | _ => .err

/-- the `switch wt` of the repeated-number snippets: one element, or a packed run -/
def readRepeated (k : SK) (d : Dec) (wt : Nat) : Res (Dec × List V) :=
  match packedDecOpOf k with
  | none => (readScalar k d wt).map fun (d', v) => (d', [v])          -- string / bytes: one per tag
  | some pop =>
    if wt = wtOf k then (readScalar k d wt).map fun (d', v) => (d', [v])
    else if wt = wtLen then
      match d.step pop with
      | (d', .ok it, _) => .ok (d', itemToVs k it)
      | (_, .panic, _) => .panic
      | _ => .err
    else .err

def requiredMissing (md : MD) (fs : List F) : Bool :=
  (md.zip fs).any fun (p : FD × F) => p.1.card = Card.required && (match p.2 with | .unset => true | _ => false)

mutual
/-- generated `Unmarshal(p)` of message type `md` -/
def unmarshalMsg (S : Schema) (fast : Bool) : Nat → MD → Bytes → Res (List F × Bytes)
  | 0, _, _ => .err
  | fuel + 1, md, p =>
    if !hasRequired md && p.isEmpty then .ok (initFields md, []) else
    match unmarshalLoop S fast fuel md { p := p, off := 0, fast := fast } (initFields md) [] with
    | .ok (fs, unk) => if requiredMissing md fs then .err else .ok (fs, unk)
    | r => r

/-- `for dec.More() { … }` -/
def unmarshalLoop (S : Schema) (fast : Bool) : Nat → MD → Dec → List F → Bytes → Res (List F × Bytes)
  | 0, _, _, _, _ => .err
  | fuel + 1, md, d, fs, unk =>
    if ¬ d.off < d.len then .ok (fs, unk) else
    match d.step .tag with
    | (d1, .ok (.tag num wt), _) =>
      match findField md num 0 with
      | some (idx, fd) =>
        match fieldStep S fast fuel fd wt d1 (fs.getD idx .unset) with
        | .ok (d2, f) => unmarshalLoop S fast fuel md d2 (assign md fs idx fd f) unk
        | .err => .err
        | .panic => .panic
      | none =>
        match d1.step (.skip num wt) with
        | (d2, .ok (.bytes b), _) => unmarshalLoop S fast fuel md d2 fs (unk ++ b)
        | (_, .panic, _) => .panic
        | _ => .err
    | (_, .panic, _) => .panic
    | _ => .err

/-- the `case <number>:` arm of one field: new decoder state and new field state -/
def fieldStep (S : Schema) (fast : Bool) : Nat → FD → Nat → Dec → F → Res (Dec × F)
  | 0, _, _, _, _ => .err
  | fuel + 1, fd, wt, d, cur =>
    match fd.ty with
    | .sc k =>
      match fd.card with
      | .list | .packed => (readRepeated k d wt).map fun (d', vs) => (d', appendTo cur vs)
      | _ => (readScalar k d wt).map fun (d', v) => (d', .one v)
    | .msg i =>
      if wt ≠ wtLen then .err else
      match d.bytesOp with
      | (d', .ok (.bytes payload)) =>
        match fd.card with
        | .map =>
          match entryLoop S fast fuel (S.md i) { p := payload, off := 0, fast := fast } (initFields (S.md i)) with
          | .ok efs =>
            -- a message-valued entry without a value gets an empty message
            let efs := ((S.md i).zip efs).map fun (p : FD × F) =>
              match p.1.ty, p.2 with
              | .msg j, .unset => F.one (.msg (initFields (S.md j)) [])
              | _, ef => ef
            .ok (d', match cur with
                     | .many es => .many (mapInsert (.msg efs []) es)
                     | _ => .many [.msg efs []])
          | .err => .err
          | .panic => .panic
        | .list =>
          match unmarshalMsg S fast fuel (S.md i) payload with
          | .ok (nfs, nunk) => .ok (d', appendTo cur [.msg nfs nunk])
          | .err => .err
          | .panic => .panic
        | _ =>
          match unmarshalMsg S fast fuel (S.md i) payload with
          | .ok (nfs, nunk) => .ok (d', .one (.msg nfs nunk))      -- replaces an earlier occurrence
          | .err => .err
          | .panic => .panic
      | (_, .panic) => .panic
      | _ => .err

/-- the sub-decoder over one map entry: fields 1 (key) and 2 (value); anything else is skipped -/
def entryLoop (S : Schema) (fast : Bool) : Nat → MD → Dec → List F → Res (List F)
  | 0, _, _, _ => .err
  | fuel + 1, emd, d, efs =>
    if ¬ d.off < d.len then .ok efs else
    match d.step .tag with
    | (d1, .ok (.tag num wt), _) =>
      match findField emd num 0 with
      | some (idx, fd) =>
        match fieldStep S fast fuel fd wt d1 (efs.getD idx .unset) with
        | .ok (d2, f) => entryLoop S fast fuel emd d2 (efs.set idx f)
        | .err => .err
        | .panic => .panic
      | none =>
        match d1.step (.skip num wt) with
        | (d2, .ok _, _) => entryLoop S fast fuel emd d2 efs
        | (_, .panic, _) => .panic
        | _ => .err
    | (_, .panic, _) => .panic
    | _ => .err
end

/-- entry point with the fuel the loop cannot exhaust -/
def unmarshal (S : Schema) (fast : Bool) (md : MD) (p : Bytes) : Res (List F × Bytes) :=
  unmarshalMsg S fast (3 * p.length + 8) md p

end Csproto.Gen
