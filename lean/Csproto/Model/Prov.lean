import Csproto.Model.GenDec
/-
  Provenance-tracking model of the generated `Unmarshal` (C10).

  The value model (`Model/GenDec.lean`) stores byte *values*; whether a stored string / bytes value
  shares memory with the caller's input cannot be said there.  Here every stored byte string is a
  `Ref`: either a window onto the caller's buffer (`alias off len`, offsets relative to the buffer
  the *outermost* `Unmarshal` was given) or a private copy (`owned bytes`).

  Where the references come from — the slicing expressions of decoder.go:
    * `DecodeBytes`   `b := d.p[d.offset+n : d.offset+n+nb]`        → a window of `d.p`   (`Dec.bytesWin`)
    * `Skip`          `return d.p[bof:d.offset]`                     → a window of `d.p`   (`Dec.skipWin`)
    * `DecodeString`  `string(b)` (safe) / `*(*string)(unsafe.Pointer(&b))` (fast)
                                                                     → copy / the window   (`decodeStringP`)
    * `DecodeNested`  `tv.Unmarshal(d.p[d.offset+n : d.offset+n+nb])`→ the nested decoder's `p` is itself a
      window, so the nested message's windows are shifted by the window's start (`base`).

  What the generated code does with them — the template text (fieldsnippets.tmpl, permessage.go.tmpl):
    * string arms store what `DecodeString` returned;
    * bytes arms (`UnmarshalBytes`, map value, oneof member) apply
        `if dec.Mode() == csproto.DecoderModeSafe { b = append([]byte{}, b...) }`;
    * the `default:` arm does `m.unknownFields = append(m.unknownFields, skipped...)`;
    * a map entry is decoded by a sub-decoder over `entryData` (a `DecodeBytes` window) in the same mode.
  "This arm copies" is the parameter `Policy` (one Boolean per storage site and decoder mode), so that
  the template's discipline (`templatePolicy`) and its negation (`noCopyPolicy`: the bytes arms as they
  were before the copy was added) are instances of the same model.

  Control flow, decoder states and all non-byte-string values are those of the value model: the loop
  structure below is `GenDec`'s, numeric arms call `readScalar` / `readRepeated` unchanged.

  Core-only.
-/
namespace Csproto

/-- `DecodeBytes`, tracking where the result lies: new state and the window `(start, len)` of `d.p` -/
def Dec.bytesWin (d : Dec) : Dec × Res (Nat × Nat) :=
  match d.lenPrefix with
  | .ok (start, l) => ({ d with off := start + l }, .ok (start, l))
  | .err => (d, .err)
  | .panic => (d, .panic)

/-- `Skip`, tracking where the result lies: `d.p[bof:d.offset]` as the window `(bof, d.offset - bof)` -/
def Dec.skipWin (d : Dec) (tag wt : Nat) : Dec × Res (Nat × Nat) :=
  if d.off ≥ d.len then (d, .err) else
  let sz := sizeOfTagKey tag
  let bof := if d.ke = d.off ∧ d.ke > d.ks then d.ks else d.off - sz
  match d.skipCheck tag wt bof sz with
  | .err => (d, .err)
  | .panic => (d, .panic)
  | .ok () =>
    match d.skipLen wt with
    | .ok k =>
      if d.off + k > d.len then (d, .err)
      else ({ d with off := d.off + k }, .ok (bof, d.off + k - bof))
    | .err => (d, .err)
    | .panic => (d, .panic)

end Csproto

namespace Csproto.Prov
open Csproto Csproto.Gen

/-! ## references -/

/-- a stored byte string: a window onto the caller's input buffer, or a private copy -/
inductive Ref where
  | alias (off len : Nat)
  | owned (bytes : Bytes)
deriving Repr, DecidableEq

/-- what the program reads through the reference, given the current contents of the caller's buffer -/
def Ref.read (buf : Bytes) : Ref → Bytes
  | .alias off len => (buf.drop off).take len
  | .owned b => b

def Ref.isOwned : Ref → Bool
  | .owned _ => true
  | .alias _ _ => false

/-- `append([]byte{}, b...)`, `string(b)`, `append(m.unknownFields, b...)`: fresh memory holding what the
    reference reads *now* -/
def Ref.copy (buf : Bytes) (r : Ref) : Ref := .owned (r.read buf)

/-- contents of a slice assembled from chunks (the unknown-field bytes) -/
def readAll (buf : Bytes) (rs : List Ref) : Bytes := (rs.map (Ref.read buf)).flatten

/-- the absolute reference of the window `w = (start, len)` of a decoder whose `p` starts at `base` -/
def winRef (base : Nat) (w : Nat × Nat) : Ref := .alias (base + w.1) w.2

/-! ## values with provenance (same shape as `Gen.V` / `Gen.F`) -/

mutual
inductive PV where
  | num (n : Nat)
  | bs (r : Ref)                                  -- string / bytes
  | msg (fs : List PF) (unk : List Ref)           -- message; unknown fields as the appended chunks
inductive PF where
  | unset
  | one (v : PV)
  | many (vs : List PV)
end

mutual
/-- forget provenance: read every reference against `buf` -/
def PV.erase (buf : Bytes) : PV → V
  | .num n => .num n
  | .bs r => .bs (r.read buf)
  | .msg fs unk => .msg (eraseFs buf fs) (readAll buf unk)
def PF.erase (buf : Bytes) : PF → F
  | .unset => .unset
  | .one v => .one (v.erase buf)
  | .many vs => .many (eraseVs buf vs)
def eraseFs (buf : Bytes) : List PF → List F
  | [] => []
  | f :: fs => f.erase buf :: eraseFs buf fs
def eraseVs (buf : Bytes) : List PV → List V
  | [] => []
  | v :: vs => v.erase buf :: eraseVs buf vs
end

mutual
/-- no `alias` anywhere inside: nested messages, repeated elements, map entries, oneof members,
    unknown fields -/
def PV.owned : PV → Bool
  | .num _ => true
  | .bs r => r.isOwned
  | .msg fs unk => ownedFs fs && unk.all Ref.isOwned
def PF.owned : PF → Bool
  | .unset => true
  | .one v => v.owned
  | .many vs => ownedVs vs
def ownedFs : List PF → Bool
  | [] => true
  | f :: fs => f.owned && ownedFs fs
def ownedVs : List PV → Bool
  | [] => true
  | v :: vs => v.owned && ownedVs vs
end

mutual
/-- a value that never was a window (numbers, the `Reset()` state): trivially owned -/
def toPV : V → PV
  | .num n => .num n
  | .bs b => .bs (.owned b)
  | .msg fs unk => .msg (toPFs fs) [.owned unk]
def toPF : F → PF
  | .unset => .unset
  | .one v => .one (toPV v)
  | .many vs => .many (toPVs vs)
def toPFs : List F → List PF
  | [] => []
  | f :: fs => toPF f :: toPFs fs
def toPVs : List V → List PV
  | [] => []
  | v :: vs => toPV v :: toPVs vs
end

/-- a decoded message: fields and unknown-field chunks -/
abbrev PMsg := List PF × List Ref

def PMsg.erase (buf : Bytes) (m : PMsg) : List F × Bytes := (eraseFs buf m.1, readAll buf m.2)
def PMsg.owned (m : PMsg) : Bool := ownedFs m.1 && m.2.all Ref.isOwned

/-! ## storage sites and the copy discipline -/

inductive Site where
  | bytesField        -- `UnmarshalBytes`, singular
  | repeatedBytes     -- `UnmarshalBytes`, repeated
  | oneofBytes        -- `UnmarshalOneOf`, bytes member
  | mapValueBytes     -- `UnmarshalMapEntry`, bytes value
  | unknownFields     -- `default:` arm of the tag switch
deriving Repr, DecidableEq

/-- does the arm of this site copy, given the decoder's mode (`true` = fast) -/
abbrev Policy := Site → Bool → Bool

/-- the templates as they are: bytes arms copy under `dec.Mode() == csproto.DecoderModeSafe`,
    unknown fields are always `append`ed to the message's own slice -/
def templatePolicy : Policy
  | .unknownFields, _ => true
  | _, fast => !fast

/-- the bytes arms without the copy (`m.X = b` straight from `DecodeBytes`, as before the fix) -/
def noCopyPolicy : Policy
  | .unknownFields, _ => true
  | _, _ => false

/-- which bytes site a scalar arm of the given presence discipline is -/
def bytesSite : Card → Site
  | .list | .packed => .repeatedBytes
  | .oneof _ => .oneofBytes
  | .always => .mapValueBytes
  | _ => .bytesField

/-- apply (or not) the arm's copy -/
def store (copies : Bool) (buf : Bytes) (r : Ref) : Ref := if copies then r.copy buf else r

/-! ## decoder calls with provenance -/

/-- `DecodeBytes`: the result is a sub-slice of the input in both modes -/
def decodeBytesP (base : Nat) (d : Dec) : Res (Dec × Ref) :=
  match d.bytesWin with
  | (d', .ok w) => .ok (d', winRef base w)
  | (_, .err) => .err
  | (_, .panic) => .panic

/-- `DecodeString`: `string(b)` copies, the fast-mode cast does not -/
def decodeStringP (buf : Bytes) (base : Nat) (d : Dec) : Res (Dec × Ref) :=
  if d.off ≥ d.len then .err else
  match decodeBytesP base d with
  | .ok (d', r) => .ok (d', if d.fast then r else r.copy buf)
  | .err => .err
  | .panic => .panic

/-- `Skip`: the result is a sub-slice of the input in both modes -/
def skipP (base : Nat) (d : Dec) (tag wt : Nat) : Res (Dec × Ref) :=
  match d.skipWin tag wt with
  | (d', .ok w) => .ok (d', winRef base w)
  | (_, .err) => .err
  | (_, .panic) => .panic

/-! ## the generated code's helpers on provenance values (same text as in `GenDec`) -/

def initFieldsP (md : MD) : List PF := toPFs (initFields md)

def entryKeyP : PV → PV
  | .msg (.one k :: _) _ => k
  | _ => .num 0

/-- Go map key comparison: by content (a fast-mode string key is read through its window) -/
def keyEqP (buf : Bytes) : PV → PV → Bool
  | .num a, .num b => a == b
  | .bs a, .bs b => a.read buf == b.read buf
  | _, _ => false

def mapInsertP (buf : Bytes) (e : PV) : List PV → List PV
  | [] => [e]
  | x :: xs => if keyEqP buf (entryKeyP x) (entryKeyP e) then e :: xs else x :: mapInsertP buf e xs

def assignP (md : MD) (fs : List PF) (idx : Nat) (fd : FD) (f : PF) : List PF :=
  let fs' := match fd.card with
    | .oneof g => (md.zip fs).map fun (p : FD × PF) => if p.1.card = Card.oneof g then PF.unset else p.2
    | _ => fs
  fs'.set idx f

def appendToP (f : PF) (vs : List PV) : PF :=
  match f with
  | .many old => .many (old ++ vs)
  | _ => .many vs

def PF.isUnset : PF → Bool
  | .unset => true
  | _ => false

def requiredMissingP (md : MD) (fs : List PF) : Bool :=
  (md.zip fs).any fun (p : FD × PF) => p.1.card = Card.required && p.2.isUnset

/-- `if entryValue == nil { entryValue = new(T) }` -/
def fixEntryP (S : Schema) (emd : MD) (efs : List PF) : List PF :=
  (emd.zip efs).map fun (p : FD × PF) =>
    match p.1.ty, p.2 with
    | .msg j, .unset => PF.one (.msg (initFieldsP (S.md j)) [])
    | _, ef => ef

/-- one scalar element; `site` is the storage site a bytes value goes to -/
def readScalarP (pol : Policy) (buf : Bytes) (base : Nat) (site : Site) (k : SK) (d : Dec) (wt : Nat) :
    Res (Dec × PV) :=
  match k with
  | .string =>
    if wt ≠ wtLen then .err else
    (decodeStringP buf base d).map fun x => (x.1, PV.bs x.2)
  | .bytes =>
    if wt ≠ wtLen then .err else
    (decodeBytesP base d).map fun x => (x.1, PV.bs (store (pol site d.fast) buf x.2))
  | _ => (readScalar k d wt).map fun x => (x.1, toPV x.2)

def readRepeatedP (pol : Policy) (buf : Bytes) (base : Nat) (site : Site) (k : SK) (d : Dec) (wt : Nat) :
    Res (Dec × List PV) :=
  match k with
  | .string | .bytes => (readScalarP pol buf base site k d wt).map fun x => (x.1, [x.2])
  | _ => (readRepeated k d wt).map fun x => (x.1, toPVs x.2)

/-! ## the generated `Unmarshal` with provenance

`buf` is the buffer the outermost `Unmarshal` received; a (sub-)decoder reads the window
`[base, base+len)` of it.  Everything else is `GenDec`. -/

mutual
def unmarshalMsgP (S : Schema) (pol : Policy) (fast : Bool) (buf : Bytes) :
    Nat → MD → (base len : Nat) → Res PMsg
  | 0, _, _, _ => .err
  | fuel + 1, md, base, len =>
    if !hasRequired md && ((buf.drop base).take len).isEmpty then .ok (initFieldsP md, []) else
    match unmarshalLoopP S pol fast buf fuel md base
        { p := (buf.drop base).take len, off := 0, fast := fast } (initFieldsP md) [] with
    | .ok (fs, unk) => if requiredMissingP md fs then .err else .ok (fs, unk)
    | r => r

def unmarshalLoopP (S : Schema) (pol : Policy) (fast : Bool) (buf : Bytes) :
    Nat → MD → (base : Nat) → Dec → List PF → List Ref → Res PMsg
  | 0, _, _, _, _, _ => .err
  | fuel + 1, md, base, d, fs, unk =>
    if ¬ d.off < d.len then .ok (fs, unk) else
    match d.step .tag with
    | (d1, .ok (.tag num wt), _) =>
      match findField md num 0 with
      | some (idx, fd) =>
        match fieldStepP S pol fast buf fuel fd wt base d1 (fs.getD idx .unset) with
        | .ok (d2, f) => unmarshalLoopP S pol fast buf fuel md base d2 (assignP md fs idx fd f) unk
        | .err => .err
        | .panic => .panic
      | none =>
        match skipP base d1 num wt with
        | .ok (d2, r) =>
          -- `m.unknownFields = append(m.unknownFields, skipped...)`
          unmarshalLoopP S pol fast buf fuel md base d2 fs (unk ++ [store (pol .unknownFields d1.fast) buf r])
        | .err => .err
        | .panic => .panic
    | (_, .panic, _) => .panic
    | _ => .err

def fieldStepP (S : Schema) (pol : Policy) (fast : Bool) (buf : Bytes) :
    Nat → FD → Nat → (base : Nat) → Dec → PF → Res (Dec × PF)
  | 0, _, _, _, _, _ => .err
  | fuel + 1, fd, wt, base, d, cur =>
    match fd.ty with
    | .sc k =>
      match fd.card with
      | .list | .packed =>
        (readRepeatedP pol buf base (bytesSite fd.card) k d wt).map fun x => (x.1, appendToP cur x.2)
      | _ => (readScalarP pol buf base (bytesSite fd.card) k d wt).map fun x => (x.1, PF.one x.2)
    | .msg i =>
      if wt ≠ wtLen then .err else
      match d.bytesWin with
      | (d', .ok (start, l)) =>
        match fd.card with
        | .map =>
          -- `entryDec := csproto.NewDecoder(entryData); entryDec.SetMode(dec.Mode())`
          match entryLoopP S pol fast buf fuel (S.md i) (base + start)
              { p := (buf.drop (base + start)).take l, off := 0, fast := fast } (initFieldsP (S.md i)) with
          | .ok efs =>
            let efs := fixEntryP S (S.md i) efs
            .ok (d', match cur with
                     | .many es => .many (mapInsertP buf (.msg efs []) es)
                     | _ => .many [.msg efs []])
          | .err => .err
          | .panic => .panic
        | .list =>
          -- `DecodeNested`: the nested `Unmarshal` gets the sub-slice
          match unmarshalMsgP S pol fast buf fuel (S.md i) (base + start) l with
          | .ok (nfs, nunk) => .ok (d', appendToP cur [.msg nfs nunk])
          | .err => .err
          | .panic => .panic
        | _ =>
          match unmarshalMsgP S pol fast buf fuel (S.md i) (base + start) l with
          | .ok (nfs, nunk) => .ok (d', .one (.msg nfs nunk))
          | .err => .err
          | .panic => .panic
      | (_, .panic) => .panic
      | _ => .err

def entryLoopP (S : Schema) (pol : Policy) (fast : Bool) (buf : Bytes) :
    Nat → MD → (base : Nat) → Dec → List PF → Res (List PF)
  | 0, _, _, _, _ => .err
  | fuel + 1, emd, base, d, efs =>
    if ¬ d.off < d.len then .ok efs else
    match d.step .tag with
    | (d1, .ok (.tag num wt), _) =>
      match findField emd num 0 with
      | some (idx, fd) =>
        match fieldStepP S pol fast buf fuel fd wt base d1 (efs.getD idx .unset) with
        | .ok (d2, f) => entryLoopP S pol fast buf fuel emd base d2 (efs.set idx f)
        | .err => .err
        | .panic => .panic
      | none =>
        -- `if _, err := entryDec.Skip(etag, ewt)`: the skipped bytes are dropped
        match skipP base d1 num wt with
        | .ok (d2, _) => entryLoopP S pol fast buf fuel emd base d2 efs
        | .err => .err
        | .panic => .panic
    | (_, .panic, _) => .panic
    | _ => .err
end

/-- generated `Unmarshal(p)` with provenance: the caller's buffer is `p` itself -/
def unmarshalP (S : Schema) (pol : Policy) (fast : Bool) (md : MD) (p : Bytes) : Res PMsg :=
  unmarshalMsgP S pol fast p (3 * p.length + 8) md 0 p.length

end Csproto.Prov
