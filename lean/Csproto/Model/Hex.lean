import Csproto.Model.Basic
/-
  `prototest.ParseAnnotatedHex`: per line — cut at the first ';', drop `unicode.IsSpace` runes,
  skip if empty, `hex.DecodeString`.  Text is a list of Unicode code points; `goRunes` turns the bytes
  of a Go string into that list the way Go reads a string rune by rune (a byte that does not start a
  well-formed UTF-8 sequence is one U+FFFD).  Core-only.
-/
namespace Csproto

/-- Go `unicode.IsSpace` -/
def isSpaceRune (c : Char) : Bool :=
  let n := c.toNat
  (9 ≤ n && n ≤ 13) || n = 0x20 || n = 0x85 || n = 0xA0 || n = 0x1680 || (0x2000 ≤ n && n ≤ 0x200A) ||
  n = 0x2028 || n = 0x2029 || n = 0x202F || n = 0x205F || n = 0x3000

def hexDigitVal (c : Char) : Option Nat :=
  let n := c.toNat
  if 48 ≤ n ∧ n ≤ 57 then some (n - 48)
  else if 97 ≤ n ∧ n ≤ 102 then some (n - 87)
  else if 65 ≤ n ∧ n ≤ 70 then some (n - 55)
  else none

/-- Go `hex.DecodeString` -/
def decodeHex : List Char → Option Bytes
  | [] => some []
  | [_] => none
  | a :: b :: rest =>
    match hexDigitVal a, hexDigitVal b, decodeHex rest with
    | some x, some y, some r => some (UInt8.ofNat (x * 16 + y) :: r)
    | _, _, _ => none

/-- `strings.Split(x, "\n")` -/
def splitLines : List Char → List (List Char)
  | [] => [[]]
  | c :: cs =>
    if c = '\n' then [] :: splitLines cs
    else match splitLines cs with
      | [] => [[c]]
      | l :: ls => (c :: l) :: ls

/-- cut at the first ';' -/
def cutComment : List Char → List Char
  | [] => []
  | c :: cs => if c = ';' then [] else c :: cutComment cs

/-- what remains of a line: outside the comment, not whitespace -/
def sigLine (l : List Char) : List Char := (cutComment l).filter (fun c => !isSpaceRune c)

def parseLines : List (List Char) → Option Bytes
  | [] => some []
  | l :: ls =>
    let s := sigLine l
    if s.isEmpty then parseLines ls
    else match decodeHex s, parseLines ls with
      | some b, some bs => some (b ++ bs)
      | _, _ => none

/-- `ParseAnnotatedHex` -/
def parseAnnotatedHex (x : List Char) : Option Bytes := parseLines (splitLines x)

/-! ### a Go string as characters -/

def runeError : Char := Char.ofNat 0xFFFD

def inRange (b : UInt8) (lo hi : Nat) : Bool := lo ≤ b.toNat && b.toNat ≤ hi

/-- Go's `utf8.DecodeRune` applied repeatedly (what `for range s`, `strings.Map`, `[]rune(s)` see):
    shortest-form sequences only, no surrogates, nothing above U+10FFFF; any other byte is consumed
    alone and read as U+FFFD. -/
def goRunesAux : Nat → Bytes → List Char
  | 0, _ => []
  | _, [] => []
  | f+1, b0 :: rest =>
    let n0 := b0.toNat
    let bad := fun (_ : Unit) => runeError :: goRunesAux f rest
    if n0 < 0x80 then Char.ofNat n0 :: goRunesAux f rest
    else if 0xC2 ≤ n0 ∧ n0 ≤ 0xDF then
      match rest with
      | b1 :: r1 =>
        if inRange b1 0x80 0xBF then
          Char.ofNat (((n0 &&& 0x1F) <<< 6) ||| (b1.toNat &&& 0x3F)) :: goRunesAux f r1
        else bad ()
      | _ => bad ()
    else if 0xE0 ≤ n0 ∧ n0 ≤ 0xEF then
      let lo := if n0 = 0xE0 then 0xA0 else 0x80
      let hi := if n0 = 0xED then 0x9F else 0xBF
      match rest with
      | b1 :: b2 :: r2 =>
        if inRange b1 lo hi && inRange b2 0x80 0xBF then
          Char.ofNat (((n0 &&& 0x0F) <<< 12) ||| ((b1.toNat &&& 0x3F) <<< 6) ||| (b2.toNat &&& 0x3F)) :: goRunesAux f r2
        else bad ()
      | _ => bad ()
    else if 0xF0 ≤ n0 ∧ n0 ≤ 0xF4 then
      let lo := if n0 = 0xF0 then 0x90 else 0x80
      let hi := if n0 = 0xF4 then 0x8F else 0xBF
      match rest with
      | b1 :: b2 :: b3 :: r3 =>
        if inRange b1 lo hi && inRange b2 0x80 0xBF && inRange b3 0x80 0xBF then
          Char.ofNat (((n0 &&& 0x07) <<< 18) ||| ((b1.toNat &&& 0x3F) <<< 12) ||| ((b2.toNat &&& 0x3F) <<< 6) ||| (b3.toNat &&& 0x3F)) :: goRunesAux f r3
        else bad ()
      | _ => bad ()
    else bad ()

def goRunes (b : Bytes) : List Char := goRunesAux b.length b

/-- `ParseAnnotatedHex` on the bytes of a Go string (well-formed UTF-8 or not) -/
def parseAnnotatedHexBytes (x : Bytes) : Option Bytes := parseAnnotatedHex (goRunes x)

end Csproto
