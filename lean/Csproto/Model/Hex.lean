import Csproto.Model.Basic
/-
  `prototest.ParseAnnotatedHex`: per line — cut at the first ';', drop `unicode.IsSpace` runes,
  skip if empty, `hex.DecodeString`.  Text is a list of Unicode code points (the harness feeds valid
  UTF-8 only).  Core-only.
-/
namespace Csproto

/-- Go `unicode.IsSpace` -/
def isSpaceRune (c : Char) : Bool :=
  let n := c.toNat
  (9 ≤ n && n ≤ 13) || n = 0x20 || n = 0x85 || n = 0xA0 || n = 0x1680 || (0x2000 ≤ n && n ≤ 0x200A) ||
  n = 0x2028 || n = 0x2029 || n = 0x202F || n = 0x205F || n = 0x3000

def hexDigitVal (c : Char) : Option Nat :=
  let n := c.toNat
  if 48 ≤ n ∧ n ≤ 57 then some (n - 48)
  else if 97 ≤ n ∧ n ≤ 102 then some (n - 87)
  else if 65 ≤ n ∧ n ≤ 70 then some (n - 55)
  else none

/-- Go `hex.DecodeString` -/
def decodeHex : List Char → Option Bytes
  | [] => some []
  | [_] => none
  | a :: b :: rest =>
    match hexDigitVal a, hexDigitVal b, decodeHex rest with
    | some x, some y, some r => some (UInt8.ofNat (x * 16 + y) :: r)
    | _, _, _ => none

/-- `strings.Split(x, "\n")` -/
def splitLines : List Char → List (List Char)
  | [] => [[]]
  | c :: cs =>
    if c = '\n' then [] :: splitLines cs
    else match splitLines cs with
      | [] => [[c]]
      | l :: ls => (c :: l) :: ls

/-- cut at the first ';' -/
def cutComment : List Char → List Char
  | [] => []
  | c :: cs => if c = ';' then [] else c :: cutComment cs

/-- what remains of a line: outside the comment, not whitespace -/
def sigLine (l : List Char) : List Char := (cutComment l).filter (fun c => !isSpaceRune c)

def parseLines : List (List Char) → Option Bytes
  | [] => some []
  | l :: ls =>
    let s := sigLine l
    if s.isEmpty then parseLines ls
    else match decodeHex s, parseLines ls with
      | some b, some bs => some (b ++ bs)
      | _, _ => none

/-- `ParseAnnotatedHex` -/
def parseAnnotatedHex (x : List Char) : Option Bytes := parseLines (splitLines x)

end Csproto
