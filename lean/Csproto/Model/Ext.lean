import Csproto.Model.Shim
/-
  L5, extension accessors: the runtimes' extension stores are abstract (`Store`: extension number ↦ value — what
  the runtime's own Set/Get/Has/Clear/Range implement); what is modelled is csproto's part, the dispatch on
  (message type, dynamic type of the descriptor argument).  Computable: the driver (`M ext …`) runs whole
  histories through `runCs`, the harness compares every answer of the implementation with it.
  The dispatcher never looks at the extension NUMBER (nor at declared ranges or the extended type): `k` only
  ever reaches the store.
-/
namespace Csproto.C12
open Csproto

abbrev Val := Nat
abbrev Store := List (Nat × Val)

def sset (s : Store) (k : Nat) (v : Val) : Store := (k, v) :: s.filter (fun p => p.1 != k)
def sget (s : Store) (k : Nat) : Option Val := (s.find? (fun p => p.1 == k)).map (·.2)
def shas (s : Store) (k : Nat) : Bool := (sget s k).isSome
def sclear (s : Store) (k : Nat) : Store := s.filter (fun p => p.1 != k)
def skeys (s : Store) : List Nat := s.map (·.1)

/-- dynamic type of the `ext` argument -/
inductive DK where
  | gogoDesc        -- *gogo.ExtensionDesc
  | googleInfo      -- *protoimpl.ExtensionInfo (= *golang/protobuf ExtensionDesc; implements protoreflect.ExtensionType)
  | otherV2Type     -- another protoreflect.ExtensionType implementation (e.g. dynamicpb)
  | other
deriving DecidableEq, Repr

/-- the type assertion each arm of `extensions.go` makes on `ext` -/
def accepts : MT → DK → Bool
  | .gogo, .gogoDesc => true
  | .googleV1, .googleInfo => true
  | .google, .googleInfo => true
  | .google, .otherV2Type => true
  | _, _ => false

inductive Out where
  | unit | bool (b : Bool) | val (v : Option Val) | keys (ks : List Nat) | err | panic
deriving DecidableEq, Repr

def csHas (mt : MT) (dk : DK) (s : Store) (k : Nat) : Out :=
  if accepts mt dk then .bool (shas s k) else .bool false
def csGet (mt : MT) (dk : DK) (s : Store) (k : Nat) : Out :=
  if accepts mt dk then .val (sget s k) else .err
def csSet (mt : MT) (dk : DK) (s : Store) (k : Nat) (v : Val) : Store × Out :=
  if accepts mt dk then (sset s k v, .unit) else (s, .err)
def csClear (mt : MT) (dk : DK) (s : Store) (k : Nat) : Store × Out :=
  if accepts mt dk then (sclear s k, .unit) else (s, .panic)
def csClearAll (mt : MT) (s : Store) : Store × Out :=
  if mt = .unknown then (s, .unit) else ([], .unit)
def csRange (mt : MT) (s : Store) : Out :=
  if mt = .unknown then .err else .keys (skeys s)

inductive Op where
  | set (k : Nat) (v : Val) | clear (k : Nat) | clearAll | has (k : Nat) | get (k : Nat) | range

/-- a history driven through csproto with descriptors of kind `dk` -/
def runCs (mt : MT) (dk : DK) : Store → List Op → Store × List Out
  | s, [] => (s, [])
  | s, op :: ops =>
    let (s', o) := match op with
      | .set k v => csSet mt dk s k v
      | .clear k => csClear mt dk s k
      | .clearAll => csClearAll mt s
      | .has k => (s, csHas mt dk s k)
      | .get k => (s, csGet mt dk s k)
      | .range => (s, csRange mt s)
    let (s'', os) := runCs mt dk s' ops
    (s'', o :: os)

/-- the same history on the abstract map (the runtime's own API) -/
def runSpec : Store → List Op → Store × List Out
  | s, [] => (s, [])
  | s, op :: ops =>
    let (s', o) := match op with
      | .set k v => (sset s k v, Out.unit)
      | .clear k => (sclear s k, Out.unit)
      | .clearAll => ([], Out.unit)
      | .has k => (s, Out.bool (shas s k))
      | .get k => (s, Out.val (sget s k))
      | .range => (s, Out.keys (skeys s))
    let (s'', os) := runSpec s' ops
    (s'', o :: os)

end Csproto.C12
