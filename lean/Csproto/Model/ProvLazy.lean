import Csproto.Model.Prov
import Csproto.Model.Lazy
/-
  Provenance-tracking model of lazyproto's decode pass (C10, lazy part).

  `(*DecodeResult).decode(data)` stores *sub-slices of `data`* in `FieldData.data`
  (`val[csproto.SizeOfTagKey(tag):]` of a `Skip` result, or a `DecodeBytes` result), in both modes.
  What differs is which memory `data` is:

    func (dec *Decoder) Decode(data []byte) (*DecodeResult, error) {
        if dec.mode == csproto.DecoderModeSafe {
            return dec.decodeWithPool(slices.Clone(data))     -- private clone
        }
        return dec.decodeWithPool(data)                       -- the caller's buffer
    }
    func Decode(data []byte, def Def) (DecodeResult, error) { … result.decode(slices.Clone(data)) … }

  `NestedResult(s)` run `decodeWithPool(b)` on a stored sub-slice `b` *without* cloning, so a nested
  result's windows lie in the same memory as its parent's (`base` below is where `b` starts).

  A result is therefore: the memory its windows refer to (`Backing`) + windows.  The accessors
  (`Model/Lazy.lean`: `accessTag`, `lookupPath`) are run on what the windows hold *at the time of the
  call*.

  Core-only.
-/
namespace Csproto.Prov
open Csproto

/-- the memory a lazy result's field data points into -/
inductive Backing where
  | caller                  -- the slice the caller passed (fast mode)
  | priv (clone : Bytes)    -- `slices.Clone(data)`: nobody else holds a reference, so it never changes
deriving Repr, DecidableEq

/-- contents of that memory when the caller's buffer currently holds `now` -/
def Backing.view (now : Bytes) : Backing → Bytes
  | .caller => now
  | .priv c => c

/-- `FieldData` with its `data [][]byte` as windows `(offset, length)` of the backing memory -/
structure WFD where
  wt : Nat
  data : List (Nat × Nat)
deriving Repr, DecidableEq

/-- the `FieldData` the accessors see when the backing memory holds `mem` -/
def WFD.read (mem : Bytes) (w : WFD) : FD :=
  { wt := w.wt, data := w.data.map fun x => (mem.drop x.1).take x.2 }

def cleanW (n : Nat) : List WFD := List.replicate n { wt := 0, data := [] }

/-- `(*DecodeResult).decode` recording windows; the decoder reads the window of the backing memory that
    starts at `base` (0 for a top-level result, the payload's start for a nested one).
    Same control flow as `decodeIntoLoop`. -/
def decodeIntoLoopW (flat : List Nat) : (fuel : Nat) → (base : Nat) → Dec → List WFD → Res (List WFD)
  | 0, _, _, _ => .err
  | fuel+1, base, d, fds =>
    if ¬ (d.off < d.len) then .ok fds else
    match d.step .tag with
    | (d1, .ok (.tag tag wt), _) =>
      match idxOf? flat tag with
      | none =>
        match d1.skipWin tag wt with
        | (d2, .ok _) => decodeIntoLoopW flat fuel base d2 fds
        | (_, .panic) => .panic
        | _ => .err
      | some i =>
        match fds[i]? with
        | none => .panic
        | some fd =>
          if ¬ fd.data.isEmpty ∧ fd.wt ≠ wt then .err else
          if wt = wtVarint ∨ wt = wtFixed32 ∨ wt = wtFixed64 then
            match d1.skipWin tag wt with
            | (d2, .ok (s, l)) =>
              -- `start := dec.Offset()` … `val := data[start:dec.Offset()]`
              decodeIntoLoopW flat fuel base d2
                (fds.set i { wt := wt, data := fd.data ++ [(base + d1.off, d2.off - d1.off)] })
            | (_, .panic) => .panic
            | _ => .err
          else if wt = wtLen then
            match d1.bytesWin with
            | (d2, .ok (s, l)) =>
              decodeIntoLoopW flat fuel base d2 (fds.set i { wt := wt, data := fd.data ++ [(base + s, l)] })
            | (_, .panic) => .panic
            | _ => .err
          else .err
    | (_, .panic, _) => .panic
    | _ => .err

/-- a decode result: where its windows point, and the windows -/
structure LRes where
  backing : Backing
  fds : List WFD
deriving Repr, DecidableEq

/-- `(*Decoder).Decode(data)` (and the package-level `Decode`, which always clones) for a decoder whose
    sorted tag list is `flat`; `fast = false` is `DecoderModeSafe` -/
def lazyDecodeP (fast : Bool) (flat : List Nat) (input : Bytes) : Res LRes :=
  (decodeIntoLoopW flat (input.length + 1) 0 { p := input, off := 0, fast := true } (cleanW flat.length)).map
    fun fds => { backing := if fast then .caller else .priv input, fds := fds }

/-- `NestedResult`: decode the window `w` of the parent's memory (no clone) -/
def lazyNestedP (parent : LRes) (now : Bytes) (subFlat : List Nat) (w : Nat × Nat) : Res LRes :=
  let mem := parent.backing.view now
  (decodeIntoLoopW subFlat (((mem.drop w.1).take w.2).length + 1) w.1
      { p := (mem.drop w.1).take w.2, off := 0, fast := true }
      (cleanW subFlat.length)).map
    fun fds => { backing := parent.backing, fds := fds }

/-- the field data the accessors work on, when the caller's buffer currently holds `now` -/
def LRes.fdsAt (r : LRes) (now : Bytes) : List FD := r.fds.map (WFD.read (r.backing.view now))

/-- `GetFieldData(tag)` + typed accessor, called when the caller's buffer holds `now` -/
def LRes.access (r : LRes) (now : Bytes) (dec : LDec) (tag : Nat) (a : Acc) : Ans :=
  accessTag dec (r.fdsAt now) tag a

/-- `FieldData(path…)` + typed accessor (nested steps decode stored payloads on the fly), called when the
    caller's buffer holds `now` -/
def LRes.lookup (r : LRes) (now : Bytes) (fuel : Nat) (dec : LDec) (path : List Nat) (a : Acc) : Ans :=
  lookupPath fuel dec (some (r.fdsAt now)) path a

/-! ### values handed out by the accessors

fielddata.go, `BytesValue` / `StringValue` (and the elements of `BytesValues` / `StringValues`):
`if fd.unsafe { return data }` / `unsafe.String(unsafe.SliceData(data), len(data))`, otherwise
`slices.Clone(data)` / `string(data)`.  `fd.unsafe` is `dec.mode != csproto.DecoderModeSafe`. -/

/-- where the bytes of a value handed out by an accessor live -/
inductive LRef where
  | window (b : Backing) (off len : Nat)
  | owned (bytes : Bytes)
deriving Repr, DecidableEq

def LRef.read (now : Bytes) : LRef → Bytes
  | .window b off len => ((b.view now).drop off).take len
  | .owned x => x

/-- `BytesValue()` / `StringValue()` of the field at index `i` (last occurrence), called when the caller's buffer
    holds `now` -/
def LRes.bytesValueP (r : LRes) (unsafeFlag : Bool) (now : Bytes) (i : Nat) : Option LRef :=
  match r.fds[i]? with
  | none => none
  | some fd =>
    fd.data.getLast?.map fun w =>
      if unsafeFlag then .window r.backing w.1 w.2 else .owned (((r.backing.view now).drop w.1).take w.2)

end Csproto.Prov
