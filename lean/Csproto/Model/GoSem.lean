import Csproto.Model.Basic
/-
  A small-step-free, compositional semantics for the fragment of Go that the wire primitives of
  `encoder.go` / `decoder.go` are written in.  `harness/cmd/extract` TRANSLATES the bodies of those functions
  (from the go/ast + go/types of `/repo`'s current tree, on every run) into Lean definitions over these
  combinators (`Generated/WireFuncs.lean`); `Bridge/WireFuncs.lean` proves the translated functions equal to the
  hand-written model of `Model/Wire.lean` for every input.  A change to one of those Go functions therefore changes
  a Lean definition a bridge theorem is about.

  The fragment: integer locals (fixed-width, two's complement: `BitVec w`), `[]byte` locals (`Bytes`), `error`
  results drawn from a fixed set, assignment / op-assignment / `++`, indexed load and store with Go's bounds
  check (out of range = panic), `len`, re-slicing `p[:k]`, `if`, `for` (three-clause and condition-only) with
  `return` from inside, conversions between integer types.  Loops are unfolded by a fuel argument; running out
  of fuel is the distinct outcome `diverge`, so that a theorem stating a result also states termination.
-/
namespace Csproto.Go

/-- the `error` values the wire primitives return -/
inductive Err where
  | nil | invalidVarint | unexpectedEOF | overflow
  /-- any other error value: another package-level sentinel (by name), or a fresh `fmt.Errorf` without `%w` ("errorf").
      `fmt.Errorf("… %w …", e)` is translated to `e` itself: wrapping keeps the class (`errors.Is`). -/
  | other (what : String)
deriving DecidableEq, Repr

/-- outcome of running a statement in state `σ`: fall through with a new state, `return` a value, panic
    (index out of range, slice bounds out of range), or out of fuel -/
inductive Out (σ ρ : Type) where
  | next (s : σ)
  | ret (r : ρ) (s : σ)      -- `return r`; `s` is the state at that point (what the call did to `dest`)
  | panic
  | diverge

/-- sequential composition -/
@[inline] def seq (a b : σ → Out σ ρ) : σ → Out σ ρ := fun s =>
  match a s with
  | .next s' => b s'
  | .ret r s1 => .ret r s1
  | .panic => .panic
  | .diverge => .diverge

/-- the empty statement -/
@[inline] def skip : σ → Out σ ρ := fun s => .next s

/-- a `for` loop: `cond`, `body`, `post`; at most `fuel` iterations -/
def loop (cond : σ → Option Bool) (body post : σ → Out σ ρ) : Nat → σ → Out σ ρ
  | 0, _ => .diverge
  | fuel + 1, s =>
    match cond s with
    | none => .panic                     -- the condition itself indexed out of range
    | some false => .next s
    | some true =>
      match body s with
      | .next s1 =>
        match post s1 with
        | .next s2 => loop cond body post fuel s2
        | o => o
      | o => o

/-- a `for _, x := range xs` loop: the elements of the list as it is when the loop starts, in order; `bind` stores the
    element in the loop variable.  Structural recursion on the list: no fuel. -/
def forEachGo {σ ρ α : Type} (bind : σ → α → σ) (body : σ → Out σ ρ) : List α → σ → Out σ ρ
  | [], s => .next s
  | x :: r, s =>
    match body (bind s x) with
    | .next s' => forEachGo bind body r s'
    | o => o

def forEach {σ ρ α : Type} (xs : σ → List α) (bind : σ → α → σ) (body : σ → Out σ ρ) : σ → Out σ ρ :=
  fun s => forEachGo bind body (xs s) s

/-- `copy(dst[lo:], src)` for `lo ≤ len(dst)`: the first `len(dst) - lo` bytes of `src` (all of it when it fits) overwrite `dst`
    from `lo` on; `dst` keeps its length, nothing is reported when `src` is truncated -/
def copyAt (dst : Bytes) (lo : Nat) (src : Bytes) : Bytes :=
  dst.take lo ++ src.take (dst.length - lo) ++ dst.drop (lo + (src.take (dst.length - lo)).length)

/-- the `k` low-order bytes of `v`, least significant first -/
def leB : Nat → Nat → Bytes
  | 0, _ => []
  | k + 1, v => UInt8.ofNat (v % 256) :: leB k (v / 256)

/-- `binary.LittleEndian.PutUint32/64(b, v)` for `k ≤ len(b)`: the first `k` bytes of `b` become the little-endian bytes of `v`
    (TRUSTED rendering of encoding/binary: a bounds check on `b[k-1]`, then one store per byte) -/
def putLE (b : Bytes) (k : Nat) (v : Nat) : Bytes := leB k v ++ b.drop k

/-- `p[i]` -/
@[inline] def rd (p : Bytes) (i : Nat) : BitVec 8 := (p.getD i 0).toBitVec
/-- the value stored by `dest[i] = b` -/
@[inline] def wr (p : Bytes) (i : Nat) (b : BitVec 8) : Bytes := p.set i (UInt8.ofBitVec b)

/-- falling off the end of a function body that has results cannot happen in compiled Go; the translator
    closes every body with this -/
@[inline] def missingReturn : σ → Out σ ρ := fun _ => .panic

end Csproto.Go
