import Csproto.Model.Basic
/-
  L0: wire primitives of encoder.go / decoder.go / sizeof.go, as pure functions.
  Unsigned 64-bit quantities are `Nat` (with `% two64` where Go wraps); signed ones are `Int`.
-/
namespace Csproto

/-! ### Constants (decoder.go, wiretype.go).  `Generated/Facts.lean` re-extracts them from the
    source on every run and `Bridge/Facts.lean` proves they are equal to these. -/
def maxTagValue : Nat := 536870911
def maxFieldLen : Nat := 2147483647
def wtVarint : Nat := 0
def wtFixed64 : Nat := 1
def wtLen : Nat := 2
def wtFixed32 : Nat := 5

/-! ### Encoding -/

/-- `EncodeVarint`: the bytes written for `v` (caller passes `v < 2^64`). -/
def encVarint (v : Nat) : Bytes :=
  if h : v < 128 then [UInt8.ofNat v] else UInt8.ofNat (v % 128 + 128) :: encVarint (v / 128)
termination_by v
decreasing_by omega

/-- `EncodeTag`: `(uint64(tag) << 3) | uint64(wireType)` then varint. -/
def keyOf (tag wt : Nat) : Nat := ((tag <<< 3) % two64) ||| wt
def encTag (tag wt : Nat) : Bytes := encVarint (keyOf tag wt)

/-- little-endian bytes of the low `8*n` bits of `v` -/
def leBytes : Nat → Nat → Bytes
  | 0, _ => []
  | n+1, v => UInt8.ofNat (v % 256) :: leBytes n (v / 256)

def encFixed32 (v : Nat) : Bytes := leBytes 4 v
def encFixed64 (v : Nat) : Bytes := leBytes 8 v

/-- arithmetic zig-zag: `0,-1,1,-2,… ↦ 0,1,2,3,…` -/
def zigzag (i : Int) : Nat := if 0 ≤ i then (2 * i).toNat else (-2 * i - 1).toNat
def unzigzag (n : Nat) : Int := if n % 2 = 0 then (n / 2 : Nat) else -((n / 2 : Nat) : Int) - 1

def encZigZag32 (i : Int) : Bytes := encVarint (zigzag i)
def encZigZag64 (i : Int) : Bytes := encVarint (zigzag i)

def boolByte (b : Bool) : UInt8 := if b then 1 else 0

/-! ### Sizes (sizeof.go) -/

/-- Go `bits.Len64` -/
def bitLen (x : Nat) : Nat := if x = 0 then 0 else Nat.log2 x + 1
def sizeOfVarint (v : Nat) : Nat := (bitLen (v ||| 1) + 6) / 7
def sizeOfTagKey (k : Nat) : Nat := sizeOfVarint ((k <<< 3) % two64)
/-- `SizeOfZigZag(v uint64)`: `(v << 1) ^ uint64(int64(v) >> 63)`; the argument is the
    `uint64(...)` conversion of a signed value, so the model takes the signed value. -/
def sizeOfZigZag (i : Int) : Nat := sizeOfVarint (zigzag i)

/-! ### Decoding -/

/-- the shared loop of `DecodeVarint` (both the `len(p) < 10` and the `len(p) >= 10` path; they
    differ only in *which* error they report, and errors are one class in this model).
    `fuel` = bytes still allowed (10 in total), `shift` = 7 * bytes consumed. -/
def decVarintLoop : (fuel : Nat) → (shift acc n : Nat) → Bytes → Res (Nat × Nat)
  | 0, _, _, _, _ => .err
  | _+1, _, _, _, [] => .err
  | fuel+1, shift, acc, n, b :: bs =>
    let acc' := acc ||| (((b.toNat % 128) <<< shift) % two64)
    if b.toNat < 128 then .ok (acc', n + 1) else decVarintLoop fuel (shift + 7) acc' (n + 1) bs

/-- `DecodeVarint(p)`: value and number of bytes consumed. -/
def decodeVarint (p : Bytes) : Res (Nat × Nat) :=
  match p with
  | [] => .err
  | b :: _ => if b.toNat < 128 then .ok (b.toNat, 1) else decVarintLoop 10 0 0 0 p

def fromLE : Bytes → Nat
  | [] => 0
  | b :: bs => b.toNat + 256 * fromLE bs

/-- `DecodeFixed32(p)` -/
def decodeFixed32 (p : Bytes) : Res (Nat × Nat) :=
  if p.length < 4 then .err else .ok (fromLE (p.take 4), 4)
/-- `DecodeFixed64(p)` -/
def decodeFixed64 (p : Bytes) : Res (Nat × Nat) :=
  if p.length < 8 then .err else .ok (fromLE (p.take 8), 8)

/-- `DecodeZigZag32`: `(uint32(dv) >> 1) ^ uint32((int32(dv&1)<<31)>>31)` — arithmetic form on the
    low 32 bits of `dv` (the source expression is bridged in `Bridge/Wire.lean`). -/
def decodeZigZag32 (p : Bytes) : Res (Int × Nat) :=
  match decodeVarint p with
  | .ok (dv, n) => if n = 0 then .err else .ok (unzigzag (dv % two32), n)
  | .err => .err
  | .panic => .panic

def decodeZigZag64 (p : Bytes) : Res (Int × Nat) :=
  match decodeVarint p with
  | .ok (dv, n) => if n = 0 then .err else .ok (unzigzag dv, n)
  | .err => .err
  | .panic => .panic

end Csproto
