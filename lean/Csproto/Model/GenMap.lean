import Csproto.Model.Gen
import Csproto.Model.GenDec
/-
  L3, map fields — the text of the two map snippets of
  `cmd/protoc-gen-fastmarshal/templates/fieldsnippets.tmpl`, transcribed literally.

  `Model/Gen.lean` treats a map field (`Card.map`, `ty = .msg e`) through the arms of a repeated message field
  of the synthetic entry type `e = entryMD kk vty` (`sizeMsgList` / `opsMsgList` with `skipNil = true`: one
  `EncodeNested`-shaped call per entry whose body is the entry's two `always` fields; an entry whose message value
  is a nil pointer is passed over).  The generated code does not call `EncodeNested`
  for an entry: `SizeOfMapEntry` computes `keySize` / `valueSize` with the literal `1 +` for the entry's
  internal keys, and `MarshalMapEntry` calls `EncodeMapEntryHeader(n, itemSize)` and then the two scalar /
  nested writers.  The definitions below are that text; `Proofs/GenMapTemplate.lean` proves that they add the
  same number and write the same bytes as the arms of `Model/Gen.lean` (so every theorem about the latter is a
  theorem about the snippets).  Additive: nothing here is used by `Model/Gen.lean` or by the driver.

  Core-only.
-/
namespace Csproto.Gen
open Csproto

/-- the synthetic message type of a map entry: key = field 1, value = field 2, both always written -/
def entryMD (kk : SK) (vty : Ty) : MD := [⟨1, .sc kk, .always⟩, ⟨2, vty, .always⟩]

/-- the value of an entry (second field of the entry message) -/
def entryVal : V → V
  | .msg (_ :: .one v :: _) _ => v
  | _ => .num 0

/-- key kinds the map snippets have an arm for (the others: `panic(...)` in the generated code; protoc does
    not accept them as map keys) -/
def legalKey : SK → Bool
  | .int32 | .int64 | .uint32 | .uint64 | .sint32 | .sint64 | .fixed32 | .fixed64 | .sfixed32 | .sfixed64
  | .bool | .string => true
  | _ => false

/-- `keySize` of `SizeOfMapEntry` ("always has an internal tag of 1") = the `itemSize +=` term of
    `MarshalMapEntry` -/
def tKeySize (kk : SK) (k : V) : Nat :=
  match kk with
  | .int32 => 1 + sizeOfVarint (toU64 (toI32 k.n))           -- `uint64(k)` of an `int32` sign-extends
  | .int64 | .uint32 | .uint64 => 1 + sizeOfVarint k.n
  | .bool => 1 + 1
  | .string => 1 + sizeOfVarint k.b.length + k.b.length
  | .sint32 => 1 + sizeOfZigZag (toI32 k.n)
  | .sint64 => 1 + sizeOfZigZag (toI64 k.n)
  | .fixed32 | .sfixed32 => 5
  | .fixed64 | .sfixed64 => 9
  | _ => 0

/-- `valueSize` of `SizeOfMapEntry` ("always has an internal tag of 2") = the initial `itemSize` of
    `MarshalMapEntry`, scalar value kinds (`5` / `9` appear as literals in the template) -/
def tValSizeSc (kv : SK) (v : V) : Nat :=
  match kv with
  | .int32 | .enum => 1 + sizeOfVarint (toU64 (toI32 v.n))
  | .int64 | .uint32 | .uint64 => 1 + sizeOfVarint v.n
  | .bool => 1 + 1
  | .string | .bytes => 1 + sizeOfVarint v.b.length + v.b.length
  | .sint32 => 1 + sizeOfZigZag (toI32 v.n)
  | .sint64 => 1 + sizeOfZigZag (toI64 v.n)
  | .fixed32 | .sfixed32 | .float => 5
  | .fixed64 | .sfixed64 | .double => 9

/-- … message value: `l = csproto.Size(v); valueSize := 1 + SizeOfVarint(l) + l` (for `v != nil`) -/
def tValSize (S : Schema) (vty : Ty) (v : V) : Nat :=
  match vty with
  | .sc kv => tValSizeSc kv v
  | .msg j => let l := sizeMsgV S (S.md j) v; 1 + sizeOfVarint l + l

/-- what one iteration of the `range` loop of `SizeOfMapEntry` adds:
    `sz += SizeOfTagKey(n) + SizeOfVarint(uint64(keySize + valueSize)) + keySize + valueSize` -/
def tEntrySize (S : Schema) (num : Nat) (kk : SK) (vty : Ty) (k v : V) : Nat :=
  sizeOfTagKey num + sizeOfVarint (tKeySize kk k + tValSize S vty v) + tKeySize kk k + tValSize S vty v

/-- the encoder calls of one iteration of the `range` loop of `MarshalMapEntry`: `itemSize` is the value part,
    `+=` the key part; `EncodeMapEntryHeader(n, itemSize)`; the key as field 1; the value as field 2 -/
def tEntryOps (S : Schema) (num : Nat) (kk : SK) (vty : Ty) (k v : V) : Res (List EncOp) :=
  let itemSize := tValSize S vty v + tKeySize kk k
  match vty with
  | .sc kv => .ok [.mapHeader num itemSize, scalarOp kk 1 k, scalarOp kv 2 v]
  | .msg j =>
    match bytesMsgV S (S.md j) v with
    | .ok body => .ok [.mapHeader num itemSize, scalarOp kk 1 k, .nested 2 (sizeMsgV S (S.md j) v) 0 (some body)]
    | .err => .err                         -- `return fmt.Errorf("unable to encode message data for map field …")`
    | .panic => .panic

/-- the test `v == nil`, which the snippets make only in the arm for the value kind `message`
    (`if v != nil { … }` around the three statements of `SizeOfMapEntry`; `if v == nil { continue }` as the first
    statement of `MarshalMapEntry`); a scalar value cannot be nil -/
def tNil (vty : Ty) (e : V) : Bool :=
  match vty with
  | .msg _ => valUnset e
  | .sc _ => false

/-- the whole `range` loop of `SizeOfMapEntry`, the entries in iteration order -/
def tMapSize (S : Schema) (num : Nat) (kk : SK) (vty : Ty) : List V → Nat
  | [] => 0
  | e :: es =>
    (if tNil vty e then 0 else tEntrySize S num kk vty (entryKey e) (entryVal e)) + tMapSize S num kk vty es

/-- the whole `range` loop of `MarshalMapEntry` -/
def tMapOps (S : Schema) (num : Nat) (kk : SK) (vty : Ty) : List V → Res (List EncOp)
  | [] => .ok []
  | e :: es =>
    if tNil vty e then tMapOps S num kk vty es else
    match tEntryOps S num kk vty (entryKey e) (entryVal e) with
    | .ok a =>
      match tMapOps S num kk vty es with
      | .ok b => .ok (a ++ b)
      | r => r
    | r => r

end Csproto.Gen
