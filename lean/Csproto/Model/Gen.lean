import Csproto.Model.Enc
/-
  L3: the code protoc-gen-fastmarshal generates, as a function of the message schema.

  One Lean arm per template snippet of `cmd/protoc-gen-fastmarshal/templates/fieldsnippets.tmpl`
  (`SizeOf*` → `sizeField`, `Marshal*` → `opsField`), parameterised by the field's kind and by its
  *presence discipline* (`Card`), which is what the template's `Syntax`/`Cardinality`/`ContainingOneof`
  case analysis boils down to.  `MarshalTo` is modelled as the *sequence of encoder calls* it makes
  (`EncOp`, the L1 encoder model of `encoder.go`), so that buffer overruns (panics) and slack are
  properties of running that sequence on a buffer of `Size()` bytes.

  Core-only: imported by the line-protocol driver.
-/
namespace Csproto.Gen
open Csproto

/-- scalar kinds of the protobuf language -/
inductive SK where
  | double | float | int32 | int64 | uint32 | uint64 | sint32 | sint64
  | fixed32 | fixed64 | sfixed32 | sfixed64 | bool | string | bytes | enum
deriving DecidableEq, Repr

inductive Ty where
  | sc (k : SK)
  | msg (idx : Nat)      -- index of the message type in the schema
deriving DecidableEq, Repr

/-- presence discipline of a field in the generated Go struct -/
inductive Card where
  | implicit            -- proto3 field without presence: plain Go value, zero = absent
  | explicit            -- proto2 optional / proto3 optional: pointer (or nil-able slice), nil = absent
  | oneof (g : Nat)     -- member of real oneof number `g`: wrapper set / not set
  | required            -- proto2 required: pointer, nil = error on Marshal and on Unmarshal
  | always              -- key / value of a map entry: written even when zero
  | list                -- repeated, one record per element
  | packed              -- repeated scalar, packed
  | map                 -- map field: `ty = .msg i` where `i` is the synthetic entry type (fields 1, 2 `always`)
deriving DecidableEq, Repr

structure FD where
  num : Nat
  ty : Ty
  card : Card
deriving DecidableEq, Repr

/-- a message type: its fields *in the order the generated code visits them* (declared fields, then
    the members of each real oneof) -/
abbrev MD := List FD
abbrev Schema := List MD

def Schema.md (S : Schema) (i : Nat) : MD := S.getD i []

mutual
/-- a value held by a generated struct -/
inductive V where
  | num (n : Nat)                          -- numeric / bool / enum: the bit pattern at the Go type's width
  | bs (b : Bytes)                         -- string / bytes
  | msg (fs : List F) (unk : Bytes)        -- message: one entry per field of its `MD`, plus unknown fields
/-- the state of one field -/
inductive F where
  | unset
  | one (v : V)
  | many (vs : List V)
end

def V.n : V → Nat
  | .num n => n
  | _ => 0
def V.b : V → Bytes
  | .bs b => b
  | _ => []

/-! ## scalar snippets -/

/-- the test `SizeOf*` / `Marshal*` apply to a proto3 field without presence
    (`!= 0`, `math.Float32bits(..) != 0`, `len(..) > 0`, the bool itself) -/
def implicitPresent (k : SK) (v : V) : Bool :=
  match k with
  | .string | .bytes => !v.b.isEmpty
  | _ => v.n != 0

/-- the encoder call for one scalar value (with the conversion the generated code applies) -/
def scalarOp (k : SK) (tag : Nat) (v : V) : EncOp :=
  match k with
  | .bool => .bool tag (v.n != 0)
  | .int32 | .enum => .varint tag (toU64 (toI32 v.n))
  | .int64 | .uint32 | .uint64 => .varint tag v.n
  | .sint32 => .zigzag32 tag (toI32 v.n)
  | .sint64 => .zigzag64 tag (toI64 v.n)
  | .fixed32 | .sfixed32 | .float => .fixed32 tag v.n
  | .fixed64 | .sfixed64 | .double => .fixed64 tag v.n
  | .string | .bytes => .bytes tag v.b

/-- what the `SizeOf*` snippet adds for one scalar value -/
def scalarSize (k : SK) (tag : Nat) (v : V) : Nat :=
  match k with
  | .bool => sizeOfTagKey tag + 1
  | .int32 | .enum => sizeOfTagKey tag + sizeOfVarint (toU64 (toI32 v.n))
  | .int64 | .uint32 | .uint64 => sizeOfTagKey tag + sizeOfVarint v.n
  | .sint32 => sizeOfTagKey tag + sizeOfZigZag (toI32 v.n)
  | .sint64 => sizeOfTagKey tag + sizeOfZigZag (toI64 v.n)
  | .fixed32 | .sfixed32 | .float => sizeOfTagKey tag + 4
  | .fixed64 | .sfixed64 | .double => sizeOfTagKey tag + 8
  | .string | .bytes => sizeOfTagKey tag + sizeOfVarint v.b.length + v.b.length

/-- the packed writer call (`EncodePacked*`); strings and bytes cannot be packed -/
def packedOp (k : SK) (tag : Nat) (vs : List V) : EncOp :=
  match k with
  | .bool => .packedBool tag (vs.map fun v => v.n != 0)
  | .int32 | .enum => .packedVarint tag (vs.map fun v => toU64 (toI32 v.n))
  | .int64 | .uint32 | .uint64 => .packedVarint tag (vs.map V.n)
  | .sint32 => .packedZigzag32 tag (vs.map fun v => toI32 v.n)
  | .sint64 => .packedZigzag64 tag (vs.map fun v => toI64 v.n)
  | .fixed32 | .sfixed32 | .float => .packedFixed32 tag (vs.map V.n)
  | .fixed64 | .sfixed64 | .double => .packedFixed64 tag (vs.map V.n)
  | .string | .bytes => .raw []

/-- what the packed arm of `SizeOf*` adds (guarded by `len > 0` in the template) -/
def packedSize (k : SK) (tag : Nat) (vs : List V) : Nat :=
  if vs.isEmpty then 0 else
  match k with
  | .bool => sizeOfTagKey tag + sizeOfVarint vs.length + vs.length
  | .int32 | .enum =>
      let l := sumSizes sizeOfVarint (vs.map fun v => toU64 (toI32 v.n)); sizeOfTagKey tag + sizeOfVarint l + l
  | .int64 | .uint32 | .uint64 =>
      let l := sumSizes sizeOfVarint (vs.map V.n); sizeOfTagKey tag + sizeOfVarint l + l
  | .sint32 =>
      let l := sumSizes sizeOfZigZag (vs.map fun v => toI32 v.n); sizeOfTagKey tag + sizeOfVarint l + l
  | .sint64 =>
      let l := sumSizes sizeOfZigZag (vs.map fun v => toI64 v.n); sizeOfTagKey tag + sizeOfVarint l + l
  | .fixed32 | .sfixed32 | .float => sizeOfTagKey tag + sizeOfVarint (vs.length * 4) + vs.length * 4
  | .fixed64 | .sfixed64 | .double => sizeOfTagKey tag + sizeOfVarint (vs.length * 8) + vs.length * 8
  | .string | .bytes => 0

def wiresOf (ops : List EncOp) : Bytes := (ops.map EncOp.wire).flatten

/-! ## nil pointers in a message-valued map

  `SizeOfMapEntry` wraps the whole `sz +=` of an entry whose value kind is `message` in `if v != nil { … }`, and
  `MarshalMapEntry` starts the iteration with `if v == nil { continue }`: an entry whose value is a nil pointer adds
  nothing to `Size()` and nothing is written for it (no key of the field, no entry length, no entry key).  An entry
  is a value of the synthetic entry type (key = first field, value = second field); the nil pointer is `F.unset` in
  the value position.

  The other positions a nil `*T` can occupy need no arm of their own:
  * singular message field (`explicit`, `required`): `if m.X != nil` / `if m.X == nil { return error }` = `F.unset`;
  * element of a repeated message field, member of a oneof wrapper: the snippets have NO nil test, they call
    `csproto.Size(val)` (= 0, `Size()` on a nil receiver) and `EncodeNested(n, val)` (key, length 0,
    `MarshalTo` on a nil receiver is a no-op, also when the type declares required fields): an empty record.
    A non-message `V` in message position (`sizeMsgV _ = 0`, `bytesMsgV _ = .ok []`) is that nil pointer. -/

def Card.isMap : Card → Bool
  | .map => true
  | _ => false

/-- the entry type's value field (second field) is a message -/
def msgValued : MD → Bool
  | _ :: fd :: _ => (match fd.ty with | .msg _ => true | .sc _ => false)
  | _ => false

/-- the entry's value (second field) is a nil pointer -/
def valUnset : V → Bool
  | .msg (_ :: .unset :: _) _ => true
  | _ => false

/-- `v == nil` of the two map snippets (the test only exists when the value kind is `message`) -/
def nilEntry (emd : MD) (e : V) : Bool := msgValued emd && valUnset e

/-! ## `Size()` -/

mutual
/-- `Size()` of a message value of type `md` (without its unknown fields) -/
def sizeFields (S : Schema) : MD → List F → Nat
  | fd :: md, f :: fs => sizeField S fd f + sizeFields S md fs
  | _, _ => 0

def sizeField (S : Schema) (fd : FD) : F → Nat
  | .unset =>
    -- `SizeOfBytes`, required arm: `l = len(m.X); sz += …` without a nil test (Marshal then fails)
    if fd.card = .required ∧ fd.ty = .sc .bytes then sizeOfTagKey fd.num + sizeOfVarint 0 + 0 else 0
  | .one v =>
    match fd.ty with
    | .sc k =>
      match fd.card with
      | .implicit => if implicitPresent k v then scalarSize k fd.num v else 0
      | _ => scalarSize k fd.num v
    | .msg i => let l := sizeMsgV S (S.md i) v; sizeOfTagKey fd.num + sizeOfVarint l + l
  | .many vs =>
    match fd.ty with
    | .sc k =>
      match fd.card with
      | .packed => packedSize k fd.num vs
      | _ => sumSizes (scalarSize k fd.num) vs
    | .msg i => sizeMsgList S (S.md i) fd.num fd.card.isMap vs

/-- `csproto.Size(m)` of a nested generated message -/
def sizeMsgV (S : Schema) (md : MD) : V → Nat
  | .msg fs unk => sizeFields S md fs + unk.length
  | _ => 0

/-- the `range` loop of a repeated message field (`skipNil = false`: no nil test) and of a map field
    (`skipNil = true`: `SizeOfMapEntry`, `if v != nil { … }` around the `sz +=` of a message-valued entry) -/
def sizeMsgList (S : Schema) (md : MD) (tag : Nat) (skipNil : Bool) : List V → Nat
  | [] => 0
  | v :: vs =>
    (if skipNil && nilEntry md v then 0 else (let l := sizeMsgV S md v; sizeOfTagKey tag + sizeOfVarint l + l))
      + sizeMsgList S md tag skipNil vs
end

/-! ## `MarshalTo()` as a sequence of encoder calls -/

mutual
def opsFields (S : Schema) : MD → List F → Res (List EncOp)
  | fd :: md, f :: fs =>
    match opsField S fd f with
    | .ok a =>
      match opsFields S md fs with
      | .ok b => .ok (a ++ b)
      | r => r
    | r => r
  | _, _ => .ok []

def opsField (S : Schema) (fd : FD) : F → Res (List EncOp)
  | .unset => if fd.card = .required then .err else .ok []   -- `return fmt.Errorf("required field ... has no value")`
  | .one v =>
    match fd.ty with
    | .sc k =>
      match fd.card with
      | .implicit => .ok (if implicitPresent k v then [scalarOp k fd.num v] else [])
      | _ => .ok [scalarOp k fd.num v]
    | .msg i =>
      match bytesMsgV S (S.md i) v with
      | .ok body => .ok [.nested fd.num (sizeMsgV S (S.md i) v) 0 (some body)]
      | .err => .err                                            -- `EncodeNested` returned the nested error
      | .panic => .panic
  | .many vs =>
    match fd.ty with
    | .sc k =>
      match fd.card with
      | .packed => .ok (if vs.isEmpty then [] else [packedOp k fd.num vs])
      | _ => .ok (vs.map (scalarOp k fd.num))
    | .msg i => opsMsgList S (S.md i) fd.num fd.card.isMap vs

/-- the bytes a nested generated message's `MarshalTo` produces in a buffer of its own `Size()`
    (stated functionally here; `Props/C04` proves that running the calls on that buffer gives exactly
    this, without panic) -/
def bytesMsgV (S : Schema) (md : MD) : V → Res Bytes
  | .msg fs unk =>
    match opsFields S md fs with
    | .ok ops => .ok (wiresOf ops ++ unk)
    | .err => .err
    | .panic => .panic
  | _ => .ok []

/-- … `MarshalMapEntry`: `if v == nil { continue }` when `skipNil` -/
def opsMsgList (S : Schema) (md : MD) (tag : Nat) (skipNil : Bool) : List V → Res (List EncOp)
  | [] => .ok []
  | v :: vs =>
    if skipNil && nilEntry md v then opsMsgList S md tag skipNil vs else
    match bytesMsgV S md v with
    | .ok body =>
      match opsMsgList S md tag skipNil vs with
      | .ok rest => .ok (.nested tag (sizeMsgV S md v) 0 (some body) :: rest)
      | r => r
    | .err => .err
    | .panic => .panic
end

/-- does the message type declare a required field (template function `hasRequiredFields`) -/
def hasRequired (md : MD) : Bool := md.any fun fd => fd.card = .required

/-- generated `Marshal()` given the value `Size()` returned: the empty shortcut,
    `buf := make([]byte, siz)`, `MarshalTo(buf)` = the encoder calls followed by `EncodeRaw(unknown)` -/
def marshalSized (S : Schema) (md : MD) (fs : List F) (unk : Bytes) (siz : Nat) : Res Bytes :=
  if !hasRequired md && siz = 0 then .ok [] else
  match opsFields S md fs with
  | .ok ops =>
    match (Enc.new siz).run (ops ++ [.raw unk]) with
    | .ok e => .ok e.buf
    | .err e => .ok e.buf
    | .panic => .panic
  | .err => .err
  | .panic => .panic

/-- generated `Marshal()`: `siz := m.Size()` … -/
def marshal (S : Schema) (md : MD) (fs : List F) (unk : Bytes) : Res Bytes :=
  marshalSized S md fs unk (sizeFields S md fs + unk.length)

end Csproto.Gen
