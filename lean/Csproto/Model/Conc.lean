import Csproto.Model.Basic
/-
  Ownership model for a lazy Decoder shared by goroutines (C15).

  Locations are grouped into *objects* (a DecodeResult with its FieldData, scratch slices and
  closers) and the *shared tables* of the decoder (tag tables, nested decoders, options).  The only
  synchronisation is `sync.Pool`: `Get` and `Put` are atomic and a `Put` happens-before the `Get`
  that returns the same object.  Every other step is an access (read or write) by one goroutine to
  one object or a read of the shared tables.
-/
namespace Csproto

inductive CStep where
  | getNew (g obj : Nat)        -- pool.Get() falls back to New: a fresh object
  | getPooled (g obj : Nat)     -- pool.Get() returns a pooled object
  | put (g obj : Nat)           -- pool.Put(obj)
  | access (g obj : Nat) (write : Bool)   -- decode / accessor / NestedResult / close touch an object
  | readShared (g : Nat)        -- binary search in flatTags, nestedDecoders[i], options
deriving Repr, DecidableEq

structure CState where
  pool : List Nat
  owned : List (Nat × Nat)     -- (goroutine, object) pairs currently held
  known : List Nat             -- every object id ever created
deriving Repr

def CState.init : CState := { pool := [], owned := [], known := [] }

/-- the code's discipline: a goroutine touches an object only between the `Get` that handed it out
    and the `Put` that returns it (results are reachable only through the handle `Decode` /
    `NestedResult(s)` returned to that goroutine), and `Get`/`Put` follow `sync.Pool`'s contract -/
def CState.enabled (s : CState) : CStep → Bool
  | .getNew _ obj => !s.known.contains obj
  | .getPooled _ obj => s.pool.contains obj
  | .put g obj => s.owned.contains (g, obj)
  | .access g obj _ => s.owned.contains (g, obj)
  | .readShared _ => true

def CState.step (s : CState) : CStep → CState
  | .getNew g obj => { s with owned := (g, obj) :: s.owned, known := obj :: s.known }
  | .getPooled g obj => { s with pool := s.pool.erase obj, owned := (g, obj) :: s.owned }
  | .put g obj => { s with pool := obj :: s.pool, owned := s.owned.erase (g, obj) }
  | .access _ _ _ => s
  | .readShared _ => s

/-- run a schedule (an interleaving of the goroutines' steps), stopping at the first disabled step -/
def CState.run (s : CState) : List CStep → Option CState
  | [] => some s
  | st :: rest => if s.enabled st then (s.step st).run rest else none

end Csproto
