import Csproto.Model.Lazy
/-
  The pooled life cycle of lazyproto results as an explicit state machine with object identities.
  `sync.Pool` is modelled as a multiset of object ids per decoder node; `Get` may return any pooled
  object or a new one — the choice is an input of the transition (the harness passes the choice
  the implementation was observed to make; the theorems quantify over all choices).
-/
namespace Csproto

structure LObj where
  path : List Nat            -- decoder node the object belongs to (tags from the root)
  fds : List FD
  closers : List Nat         -- ids of nested results to release with this one
  skipClose : Bool
  closed : Bool
deriving Repr

inductive Choice where
  | new (id : Nat)
  | reuse (id : Nat)
deriving Repr, DecidableEq

structure LState where
  root : LDec
  rootPooled : Bool                       -- false for the deprecated package-level `Decode`
  objs : List (Nat × LObj)
  pools : List (List Nat × List Nat)      -- node path ↦ pooled ids (a multiset)
  handles : List (Nat × Option Nat)       -- client handle ↦ object id (`none` = nil result)
  anon : Nat                              -- next id for objects the client never sees
deriving Repr

def LState.init (root : LDec) (pooled : Bool) : LState :=
  { root := root, rootPooled := pooled, objs := [], pools := [], handles := [], anon := 1000000 }

def decAt : LDec → List Nat → Option LDec
  | d, [] => some d
  | d, t :: ts => (d.sub t).bind (decAt · ts)

def LState.obj? (s : LState) (id : Nat) : Option LObj := (s.objs.find? (·.1 = id)).map (·.2)
def LState.setObj (s : LState) (id : Nat) (o : LObj) : LState :=
  { s with objs := (id, o) :: s.objs.filter (·.1 ≠ id) }
def LState.pool (s : LState) (path : List Nat) : List Nat := ((s.pools.find? (·.1 = path)).map (·.2)).getD []
def LState.setPool (s : LState) (path : List Nat) (ids : List Nat) : LState :=
  { s with pools := (path, ids) :: s.pools.filter (·.1 ≠ path) }
def LState.handle? (s : LState) (h : Nat) : Option (Option Nat) := (s.handles.find? (·.1 = h)).map (·.2)
def LState.setHandle (s : LState) (h : Nat) (v : Option Nat) : LState :=
  { s with handles := (h, v) :: s.handles.filter (·.1 ≠ h) }

def isPooledNode (s : LState) (path : List Nat) : Bool := !path.isEmpty || s.rootPooled

/-- `(*DecodeResult).close`: clear the recorded data, release the nested results, return to the pool -/
def closeObj : (fuel : Nat) → LState → Nat → LState
  | 0, s, _ => s
  | fuel+1, s, id =>
    match s.obj? id with
    | none => s
    | some o =>
      let s1 := s.setObj id { o with fds := o.fds.map fun fd => { fd with data := [] }, closers := [] }
      let s2 := o.closers.foldl (closeObj fuel) s1
      if isPooledNode s2 o.path then s2.setPool o.path (s2.pool o.path ++ [id]) else s2

/-- `(*DecodeResult).Close` -/
def closeRes (s : LState) (id : Nat) : LState :=
  match s.obj? id with
  | none => s
  | some o =>
    if o.skipClose ∨ o.closed then s
    else closeObj (s.objs.length + 1) (s.setObj id { o with closed := true }) id

inductive DecodeOut where
  | res (id : Nat)
  | nil            -- empty input: (nil, nil)
  | err
  | panic
  | notPooled      -- the claimed reuse is impossible: the object is not in the pool
deriving Repr, DecidableEq

/-- `decodeWithPool` on the decoder at `path` -/
def decodeWithPool (s : LState) (path : List Nat) (input : Bytes) (c : Choice) : LState × DecodeOut :=
  if input.isEmpty then (s, .nil) else
  match decAt s.root path with
  | none => (s, .panic)
  | some node =>
    let got : Option (LState × Nat × LObj) :=
      match c with
      | .new id => some (s, id, { path := path, fds := cleanFds node.flat.length, closers := [], skipClose := false, closed := false })
      | .reuse id =>
        if (s.pool path).contains id then
          (s.obj? id).map fun o => (s.setPool path ((s.pool path).erase id), id, o)
        else none
    match got with
    | none => (s, .notPooled)
    | some (s1, id, o) =>
      let o := { o with closed := false }
      match decodeInto node.flat o.fds input with
      | .ok fds => (s1.setObj id { o with fds := fds }, .res id)
      | .err => (closeRes (s1.setObj id o) id, .err)
      | .panic => (s1, .panic)

inductive LOp where
  | decode (h : Nat) (input : Bytes) (c : Choice)
  | acc (h : Nat) (path : List Int) (a : Acc)
  | nested (h : Nat) (tag : Int) (h' : Nat) (c : Choice)
  | nesteds (h : Nat) (tag : Int) (hs : List Nat) (cs : List Choice)
  | range (h : Nat)
  | close (h : Nat)
deriving Repr

inductive LOut where
  | ok | nil | err | panic | notPooled
  | ans (a : Ans)
  | many (present : List Bool)
  | tags (ts : List (Nat × Bool))
  | badHandle
deriving Repr, DecidableEq

/-- `NestedResult(tag)` on object `id` -/
def nestedResult (s : LState) (id : Nat) (tag : Nat) (c : Choice) : LState × LOut × Option (Option Nat) :=
  match s.obj? id with
  | none => (s, .badHandle, none)
  | some o =>
    match decAt s.root o.path with
    | none => (s, .panic, none)
    | some node =>
      match nestedSelect node o.fds tag with
      | .ans a => (s, .ans a, none)
      | .payload _ b =>
        match decodeWithPool s (o.path ++ [tag]) b c with
        | (s1, .res nid) =>
          match s1.obj? nid, s1.obj? id with
          | some no, some o1 =>
            let s2 := (s1.setObj nid { no with skipClose := true }).setObj id { o1 with closers := o1.closers ++ [nid] }
            (s2, .ok, some (some nid))
          | _, _ => (s1, .panic, none)
        | (s1, .nil) => (s1, .nil, some none)
        | (s1, .err) => (s1, .err, none)
        | (s1, .panic) => (s1, .panic, none)
        | (s1, .notPooled) => (s1, .notPooled, none)

/-- `FieldData(path…)` + accessor, allocating client-invisible nested results along the path -/
def accPath : (fuel : Nat) → LState → Option Nat → List Nat → Acc → LState × Ans
  | 0, s, _, _, _ => (s, .err)
  | _, s, _, [], _ => (s, .err)
  | _+1, s, none, _, _ => (s, .notDefined)
  | fuel+1, s, some id, tag :: rest, a =>
    match s.obj? id with
    | none => (s, .panic)
    | some o =>
      match decAt s.root o.path with
      | none => (s, .panic)
      | some node =>
        if rest.isEmpty then (s, accessTag node o.fds tag a) else
        let (s1, out, r) := nestedResult s id tag (.new s.anon)
        let s1 := { s1 with anon := s1.anon + 1 }
        match out, r with
        | .ok, some nxt => accPath fuel s1 nxt rest a
        | .nil, some nxt => accPath fuel s1 nxt rest a
        | .ans x, _ => (s1, x)
        | .err, _ => (s1, .err)
        | _, _ => (s1, .panic)

def nestedResults (s : LState) (id : Nat) (tag : Nat) :
    List Bytes → List Nat → List Choice → List Bool → LState × LOut
  | [], _, _, acc => (s, .many acc)
  | b :: bs, h :: hs, c :: cs, acc =>
    match s.obj? id with
    | none => (s, .badHandle)
    | some o =>
      match decodeWithPool s (o.path ++ [tag]) b c with
      | (s1, .res nid) =>
        match s1.obj? nid, s1.obj? id with
        | some no, some o1 =>
          let s2 := (s1.setObj nid { no with skipClose := true }).setObj id { o1 with closers := o1.closers ++ [nid] }
          nestedResults (s2.setHandle h (some nid)) id tag bs hs cs (acc ++ [true])
        | _, _ => (s1, .panic)
      | (s1, .nil) => nestedResults (s1.setHandle h none) id tag bs hs cs (acc ++ [false])
      | (s1, .err) => (s1, .err)
      | (s1, .panic) => (s1, .panic)
      | (s1, .notPooled) => (s1, .notPooled)
  | _, _, _, _ => (s, .badHandle)

def LState.step (s : LState) : LOp → LState × LOut
  | .decode h input c =>
    match decodeWithPool s [] input c with
    | (s1, .res id) => (s1.setHandle h (some id), .ok)
    | (s1, .nil) => (s1.setHandle h none, .nil)
    | (s1, .err) => (s1, .err)
    | (s1, .panic) => (s1, .panic)
    | (s1, .notPooled) => (s1, .notPooled)
  | .acc h path a =>
    match s.handle? h with
    | none => (s, .badHandle)
    | some r =>
      let (s1, x) := accPath (path.length + 1) s r (path.map Int.natAbs) a
      (s1, .ans x)
  | .nested h tag h' c =>
    match s.handle? h with
    | none => (s, .badHandle)
    | some none => (s, .ans .notDefined)
    | some (some id) =>
      let (s1, out, r) := nestedResult s id tag.natAbs c
      match r with
      | some v => (s1.setHandle h' v, out)
      | none => (s1, out)
  | .nesteds h tag hs cs =>
    match s.handle? h with
    | none => (s, .badHandle)
    | some none => (s, .ans .notDefined)
    | some (some id) =>
      match s.obj? id with
      | none => (s, .badHandle)
      | some o =>
        match decAt s.root o.path with
        | none => (s, .panic)
        | some node =>
          let t := tag.natAbs
          if node.nested.isEmpty then (s, .ans .notDefined) else
          match node.sub t, idxOf? node.flat t with
          | none, _ => (s, .ans .notDefined)
          | _, none => (s, .ans .notDefined)
          | some _, some i =>
            match o.fds[i]? with
            | none => (s, .panic)
            | some fd =>
              if fd.data.isEmpty then (s, .ans .notFound)
              else nestedResults s id t fd.data hs cs []
  | .range h =>
    match s.handle? h with
    | none => (s, .badHandle)
    | some none => (s, .tags [])
    | some (some id) =>
      match s.obj? id with
      | none => (s, .badHandle)
      | some o =>
        match decAt s.root o.path with
        | none => (s, .panic)
        | some node => (s, .tags ((node.flat.zip o.fds).map fun (t, fd) => (t, !fd.data.isEmpty)))
  | .close h =>
    match s.handle? h with
    | none => (s, .badHandle)
    | some none => (s, .ok)
    | some (some id) => (closeRes s id, .ok)

end Csproto
