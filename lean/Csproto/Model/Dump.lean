import Csproto.Model.Dec
/-
  `cmd/protodump`: tag-path parsing/matching and the recursive dump loop over the Decoder model.
  Output is the exact bytes written to stdout plus whether the run ended with an error.
-/
namespace Csproto

def asciiBytes (s : String) : Bytes := s.toUTF8.toList

def wtName (wt : Nat) : String :=
  if wt = wtVarint then "varint" else if wt = wtFixed64 then "fixed64"
  else if wt = wtLen then "length-delimited" else if wt = wtFixed32 then "fixed32" else "unknown"

def hexUpper (n : Nat) : Char := if n < 10 then Char.ofNat (48 + n) else Char.ofNat (55 + n)
def byteHex (b : UInt8) : String := String.ofList ['0', 'x', hexUpper (b.toNat / 16), hexUpper (b.toNat % 16)]

/-- `tagPath.Matches`: equal length, non-empty, elementwise equal -/
def pathMatches (tp p : List Nat) : Bool := !tp.isEmpty && tp == p
/-- `tagPaths.Matches` -/
def pathsMatch (paths : List (List Nat)) (p : List Nat) : Bool := paths.any (pathMatches · p)

inductive DumpEnd where
  | ok | err | panic
deriving Repr, DecidableEq

def indentStr (n : Nat) : String := String.ofList (List.replicate (2 * n) ' ')

/-- one field's value lines; `none` = the decoder returned an error -/
def dumpLoop (expand strs : List (List Nat)) : (fuel : Nat) → Dec → (parent : List Nat) → (indent : Nat) → Bytes × DumpEnd
  | 0, _, _, _ => ([], .err)
  | fuel+1, d, parent, indent =>
    if ¬ (d.off < d.len) then ([], .ok) else
    let prefix_ := indentStr indent
    match d.step .tag with
    | (d1, .ok (.tag tag wt), _) =>
      let path := parent ++ [tag]
      let hdr := asciiBytes s!"{prefix_}tag: {tag}, wire type: {wtName wt}\n"
      let cont (d2 : Dec) (out : Bytes) : Bytes × DumpEnd :=
        let (rest, e) := dumpLoop expand strs fuel d2 parent indent
        (hdr ++ out ++ rest, e)
      if wt = wtVarint then
        match d1.step .int64 with
        | (d2, .ok (.int v), _) => cont d2 (asciiBytes s!"{prefix_}  varint: {v}\n")
        | (_, .panic, _) => (hdr, .panic)
        | _ => (hdr, .err)
      else if wt = wtFixed32 then
        match d1.step .fixed32 with
        | (d2, .ok (.nat v), _) => cont d2 (asciiBytes s!"{prefix_}  fixed32: {v}\n")
        | (_, .panic, _) => (hdr, .panic)
        | _ => (hdr, .err)
      else if wt = wtFixed64 then
        match d1.step .fixed64 with
        | (d2, .ok (.nat v), _) => cont d2 (asciiBytes s!"{prefix_}  fixed64: {v}\n")
        | (_, .panic, _) => (hdr, .panic)
        | _ => (hdr, .err)
      else if wt = wtLen then
        match d1.step .bytes with
        | (d2, .ok (.bytes b), _) =>
          let lenLine := asciiBytes s!"{prefix_}  length: {b.length}\n"
          if pathsMatch strs path then
            cont d2 (lenLine ++ asciiBytes s!"{prefix_}  string: " ++ b ++ asciiBytes "\n")
          else
            let bytesLine := asciiBytes (s!"{prefix_}  [" ++ ",".intercalate (b.map byteHex) ++ "]\n")
            if pathsMatch expand path then
              let (inner, e) := dumpLoop expand strs fuel (Dec.new b) path (indent + 1)
              match e with
              | .ok => cont d2 (lenLine ++ bytesLine ++ inner)
              | e => (hdr ++ lenLine ++ bytesLine ++ inner, e)
            else cont d2 (lenLine ++ bytesLine)
        | (_, .panic, _) => (hdr, .panic)
        | _ => (hdr, .err)
      else
        -- `dec.Skip(tag, wireType)` result ignored, then "unrecognized proto wire type"
        match d1.step (.skip tag wt) with
        | (_, .panic, _) => (hdr, .panic)
        | _ => (hdr, .err)
    | (_, .panic, _) => ([], .panic)
    | _ => ([], .err)

/-- `dumpProtoFile` -/
def dumpProto (data : Bytes) (expand strs : List (List Nat)) : Bytes × DumpEnd :=
  dumpLoop expand strs (data.length + 1) (Dec.new data) [] 0

/-! ### `tagPaths.Set` -/

/-- Go `strconv.Atoi` restricted to what matters here: optional sign, decimal digits -/
def atoi (s : List Char) : Option Int :=
  let (neg, ds) := match s with
    | '+' :: r => (false, r)
    | '-' :: r => (true, r)
    | r => (false, r)
  if ds.isEmpty || !ds.all Char.isDigit then none else
  let v : Nat := ds.foldl (fun acc c => acc * 10 + (c.toNat - 48)) 0
  if v > 9223372036854775807 + (if neg then 1 else 0) then none
  else some (if neg then -(v : Int) else v)

def splitOnChar (sep : Char) : List Char → List (List Char)
  | [] => [[]]
  | c :: cs =>
    if c = sep then [] :: splitOnChar sep cs
    else match splitOnChar sep cs with
      | [] => [[c]]
      | l :: ls => (c :: l) :: ls

/-- one path: tokens separated by '.', empty tokens skipped -/
def parsePath (p : List Char) : Option (List Nat) :=
  (splitOnChar '.' p).foldlM (fun acc t =>
    if t.isEmpty then some acc else
    match atoi t with
    | some v => if v < 0 ∨ v > 536870911 then none else some (acc ++ [v.toNat])
    | none => none) []

/-- `tagPaths.Set(value)` appended to `cur` -/
def parsePaths (cur : List (List Nat)) (value : List Char) : Option (List (List Nat)) :=
  if value.isEmpty then some cur else
  (splitOnChar ',' value).foldlM (fun acc p =>
    match parsePath p with
    | some tp => some (if tp.isEmpty then acc else acc ++ [tp])
    | none => none) cur

end Csproto
