import Csproto.Proofs.Prov
import Csproto.Proofs.ProvLazy
import Csproto.Props.C10
/-
  C10 — Safe-mode decoding never aliases the caller's buffer, *derived from the Unmarshal model*.

  `Props/C10.lean` argues over a table of storage sites.  Here the claim is a theorem about an executable
  provenance-tracking model of the generated `Unmarshal` (`Model/Prov.lean`): the control flow, decoder
  states and values are those of the value model `Gen.unmarshal` (`Model/GenDec.lean`); every stored
  string / bytes / unknown-field value is a `Ref` — a window onto the caller's buffer (`alias`) or a
  private copy (`owned`) — produced where decoder.go slices `d.p` and copied where the template copies.

  * `erasure`                    the provenance model is a conservative extension of the value model;
  * `safe_mode_owns_everything`  safe mode + the template's copy discipline ⇒ no `alias` at any depth;
  * `clobber_invariant`          hence the message reads the same whatever the caller does to the buffer;
  * `fast_mode_aliases`, `nocopy_bytes_arm_aliases`, `nested_alias_is_relative_to_outer_buffer`
                                 the distinction is real: the opt-in mode, and the bytes arm without its copy,
                                 do produce windows, and overwriting the buffer changes what is read;
  * `lazy_*`                     lazyproto: safe-mode results point into a private clone.

  The copy discipline (`templatePolicy`) is not an assumption: `policy_from_facts` equates it with what the
  facts regenerated from the template text say (`C10.siteCopies`).
-/
namespace Csproto.C10Prov
open Csproto Csproto.Gen Csproto.Prov

/-! ## the generated `Unmarshal` -/

/-- the template's discipline copies at every site in safe mode -/
theorem template_policy_safe : ∀ site, templatePolicy site false = true := by
  intro site; cases site <;> rfl

def toC10Site : Site → C10.Site
  | .bytesField => .bytesField
  | .repeatedBytes => .repeatedBytes
  | .oneofBytes => .oneofBytes
  | .mapValueBytes => .mapValueBytes
  | .unknownFields => .unknownFields

/-- `templatePolicy` is what the facts regenerated from the template text say, site by site and mode by mode -/
theorem policy_from_facts : ∀ site fast, templatePolicy site fast = C10.siteCopies fast (toC10Site site) := by
  intro site fast; cases site <;> cases fast <;> decide

/-- **(a) ERASURE**: reading every reference of the provenance result against the input gives exactly the value
    model's `Unmarshal` — for every schema, input, mode and copy discipline; errors and panics coincide -/
theorem erasure (S : Schema) (pol : Policy) (fast : Bool) (md : MD) (p : Bytes) :
    (unmarshalP S pol fast md p).map (PMsg.erase p) = unmarshal S fast md p :=
  unmarshalP_erase S pol fast md p

/-- in particular the provenance model succeeds exactly when the value model does -/
theorem succeeds_iff (S : Schema) (pol : Policy) (fast : Bool) (md : MD) (p : Bytes) (v : List F × Bytes) :
    unmarshal S fast md p = .ok v ↔ ∃ m, unmarshalP S pol fast md p = .ok m ∧ m.erase p = v := by
  rw [← erasure S pol fast md p]
  cases unmarshalP S pol fast md p <;> simp [Res.map]

/-- **(b) SAFE MODE OWNS EVERYTHING**: for every schema and every input, the message a safe-mode `Unmarshal`
    (template copy discipline) produces contains no window onto the input at any depth — fields, repeated
    elements, map keys and values, oneof members, nested messages, unknown fields -/
theorem safe_mode_owns_everything (S : Schema) (md : MD) (p : Bytes) (m : PMsg)
    (h : unmarshalP S templatePolicy false md p = .ok m) : m.owned = true :=
  unmarshalP_owned S templatePolicy template_policy_safe md p h

/-- **(c) CLOBBER INVARIANCE**: whatever the caller's buffer holds afterwards (`buf'` arbitrary: overwritten,
    truncated, recycled), the message reads as it did against the original input -/
theorem clobber_invariant (S : Schema) (md : MD) (p buf' : Bytes) (m : PMsg)
    (h : unmarshalP S templatePolicy false md p = .ok m) : m.erase buf' = m.erase p :=
  erase_owned_msg p buf' m (safe_mode_owns_everything S md p m h)

/-- … and that is the value the value model decoded -/
theorem clobbered_reads_decoded (S : Schema) (md : MD) (p buf' : Bytes) (m : PMsg)
    (h : unmarshalP S templatePolicy false md p = .ok m) : unmarshal S false md p = .ok (m.erase buf') := by
  rw [clobber_invariant S md p buf' m h, ← erasure S templatePolicy false md p, h]; rfl

/-- the full statement of C10 for the generated code -/
def SafeModeNeverAliases : Prop :=
  ∀ (S : Schema) (md : MD) (p : Bytes) (v : List F × Bytes), unmarshal S false md p = .ok v →
    ∃ m, unmarshalP S templatePolicy false md p = .ok m ∧ m.owned = true ∧ ∀ buf', m.erase buf' = v

theorem safe_mode_never_aliases : SafeModeNeverAliases := by
  intro S md p v hv
  obtain ⟨m, hm, he⟩ := (succeeds_iff S templatePolicy false md p v).mp hv
  exact ⟨m, hm, safe_mode_owns_everything S md p m hm, fun buf' => by rw [clobber_invariant S md p buf' m hm, he]⟩

/-! ### (d) the distinction is not vacuous -/

/-- message type 0: `string a = 1; bytes b = 2; Inner c = 3;`   message type 1 (`Inner`): `string s = 1;` -/
def exSchema : Schema :=
  [[{ num := 1, ty := .sc .string, card := .implicit }, { num := 2, ty := .sc .bytes, card := .implicit },
    { num := 3, ty := .msg 1, card := .explicit }],
   [{ num := 1, ty := .sc .string, card := .implicit }]]

/-- `a: "hi"` -/
def exString : Bytes := [0x0a, 0x02, 0x68, 0x69]
/-- `b: "hi"` -/
def exBytes : Bytes := [0x12, 0x02, 0x68, 0x69]
/-- `c: { s: "hi" }` -/
def exNested : Bytes := [0x1a, 0x04, 0x0a, 0x02, 0x68, 0x69]

/-- the opt-in: in fast mode the string field is the window `[2, 4)` of the caller's buffer, and overwriting the
    buffer changes what the message reads; in safe mode the same input gives a private copy -/
theorem fast_mode_aliases :
    unmarshalP exSchema templatePolicy true (exSchema.md 0) exString =
      .ok ([.one (.bs (.alias 2 2)), .one (.bs (.owned [])), .unset], []) ∧
    (Ref.alias 2 2).read exString = [0x68, 0x69] ∧
    (Ref.alias 2 2).read [0xff, 0xff, 0xff, 0xff] = [0xff, 0xff] ∧
    unmarshalP exSchema templatePolicy false (exSchema.md 0) exString =
      .ok ([.one (.bs (.owned [0x68, 0x69])), .one (.bs (.owned [])), .unset], []) := by
  refine ⟨?_, ?_, ?_, ?_⟩ <;> with_unfolding_all rfl

/-- the template's bytes arm copies only `if dec.Mode() == csproto.DecoderModeSafe`: in fast mode a bytes field
    is a window too -/
theorem fast_mode_bytes_alias :
    unmarshalP exSchema templatePolicy true (exSchema.md 0) exBytes =
      .ok ([.one (.bs (.owned [])), .one (.bs (.alias 2 2)), .unset], []) := by
  with_unfolding_all rfl

/-- the negation: the bytes arm *without* its copy (the code before the fix) stores a window even in safe mode,
    and a clobbered buffer is observable -/
theorem nocopy_bytes_arm_aliases :
    unmarshalP exSchema noCopyPolicy false (exSchema.md 0) exBytes =
      .ok ([.one (.bs (.owned [])), .one (.bs (.alias 2 2)), .unset], []) ∧
    PMsg.erase exBytes ([.one (.bs (.owned [])), .one (.bs (.alias 2 2)), .unset], []) =
      ([.one (.bs []), .one (.bs [0x68, 0x69]), .unset], []) ∧
    PMsg.erase [0, 0, 0, 0] ([.one (.bs (.owned [])), .one (.bs (.alias 2 2)), .unset], []) =
      ([.one (.bs []), .one (.bs [0, 0]), .unset], []) := by
  refine ⟨?_, ?_, ?_⟩ <;> with_unfolding_all rfl

/-- a nested message is decoded on a sub-slice: in fast mode its string is the window `[4, 6)` *of the outer
    buffer* (the inner decoder saw it at `[2, 4)` of its own) -/
theorem nested_alias_is_relative_to_outer_buffer :
    unmarshalP exSchema templatePolicy true (exSchema.md 0) exNested =
      .ok ([.one (.bs (.owned [])), .one (.bs (.owned [])), .one (.msg [.one (.bs (.alias 4 2))] [])], []) ∧
    unmarshalP exSchema templatePolicy false (exSchema.md 0) exNested =
      .ok ([.one (.bs (.owned [])), .one (.bs (.owned [])), .one (.msg [.one (.bs (.owned [0x68, 0x69]))] [])], []) := by
  refine ⟨?_, ?_⟩ <;> with_unfolding_all rfl

/-- unknown fields are `append`ed to the message's own slice in both modes -/
theorem unknown_fields_owned_in_fast_mode :
    unmarshalP exSchema templatePolicy true (exSchema.md 1) [0x10, 0x07] = .ok ([.one (.bs (.owned []))], [.owned [0x10, 0x07]]) := by
  with_unfolding_all rfl

/-- `map<string,bytes> m = 1; oneof o { bytes ob = 2; string os = 3; } repeated bytes rb = 4;` and the map's entry type -/
def exSchema2 : Schema :=
  [[{ num := 1, ty := .msg 1, card := .map }, { num := 2, ty := .sc .bytes, card := .oneof 0 },
    { num := 3, ty := .sc .string, card := .oneof 0 }, { num := 4, ty := .sc .bytes, card := .list }],
   [{ num := 1, ty := .sc .string, card := .always }, { num := 2, ty := .sc .bytes, card := .always }]]

/-- `m: {"k1": "v1"}  ob: "A"  rb: "B"  rb: "C"` -/
def exSites : Bytes :=
  [0x0a, 0x08, 0x0a, 0x02, 0x6b, 0x31, 0x12, 0x02, 0x76, 0x31, 0x12, 0x01, 0x41, 0x22, 0x01, 0x42, 0x22, 0x01, 0x43]

/-- every kind of storage site on one input: map key and value, oneof member, repeated bytes — windows in fast
    mode (the entry's offsets are again those of the outer buffer), private copies in safe mode, and with the
    bytes arms' copy removed only the `DecodeString` key stays owned -/
theorem every_site_example :
    unmarshalP exSchema2 templatePolicy true (exSchema2.md 0) exSites =
      .ok ([.many [.msg [.one (.bs (.alias 4 2)), .one (.bs (.alias 8 2))] []], .one (.bs (.alias 12 1)), .unset,
            .many [.bs (.alias 15 1), .bs (.alias 18 1)]], []) ∧
    unmarshalP exSchema2 templatePolicy false (exSchema2.md 0) exSites =
      .ok ([.many [.msg [.one (.bs (.owned [0x6b, 0x31])), .one (.bs (.owned [0x76, 0x31]))] []],
            .one (.bs (.owned [0x41])), .unset, .many [.bs (.owned [0x42]), .bs (.owned [0x43])]], []) ∧
    unmarshalP exSchema2 noCopyPolicy false (exSchema2.md 0) exSites =
      .ok ([.many [.msg [.one (.bs (.owned [0x6b, 0x31])), .one (.bs (.alias 8 2))] []], .one (.bs (.alias 12 1)), .unset,
            .many [.bs (.alias 15 1), .bs (.alias 18 1)]], []) := by
  refine ⟨?_, ?_, ?_⟩ <;> with_unfolding_all rfl

/-! ## lazyproto -/

theorem cleanW_read (mem : Bytes) (n : Nat) : (cleanW n).map (WFD.read mem) = cleanFds n := by
  simp [cleanW, cleanFds, WFD.read]

theorem lazy_view_at_decode (fast : Bool) (input : Bytes) :
    (if fast then Backing.caller else Backing.priv input).view input = input := by
  cases fast <;> rfl

/-- **erasure for lazyproto**: reading the recorded windows against the buffer as it was at decode time gives
    exactly the field data of the value model — in either mode, errors and panics included -/
theorem lazy_erasure (fast : Bool) (flat : List Nat) (input : Bytes) :
    (lazyDecodeP fast flat input).map (fun r => r.fdsAt input) = decodeInto flat (cleanFds flat.length) input := by
  unfold lazyDecodeP decodeInto
  rw [map_map]
  simp only [LRes.fdsAt, lazy_view_at_decode]
  have := erase_decodeIntoLoop flat input (input.length + 1) 0 { p := input, off := 0, fast := true }
    (cleanW flat.length) ⟨input.length, by simp⟩
  rw [cleanW_read] at this
  exact this

/-- safe mode (`(*Decoder).Decode` with `DecoderModeSafe`, and the package-level `Decode`): the windows refer to
    the private clone -/
theorem lazy_safe_backing (flat : List Nat) (input : Bytes) (r : LRes) (h : lazyDecodeP false flat input = .ok r) :
    r.backing = .priv input := by
  unfold lazyDecodeP at h
  cases hd : decodeIntoLoopW flat (input.length + 1) 0 { p := input, off := 0, fast := true } (cleanW flat.length) with
  | ok fds => rw [hd] at h; simp [Res.map] at h; rw [← h]
  | err => rw [hd] at h; simp [Res.map] at h
  | panic => rw [hd] at h; simp [Res.map] at h

/-- **clobber invariance for lazy results**: the field data a safe-mode result presents to the accessors does not
    depend on what the caller's buffer holds (`now` arbitrary), and is what the value model decoded -/
theorem lazy_clobber_invariant (flat : List Nat) (input now : Bytes) (r : LRes)
    (h : lazyDecodeP false flat input = .ok r) :
    r.fdsAt now = r.fdsAt input ∧ decodeInto flat (cleanFds flat.length) input = .ok (r.fdsAt now) := by
  have hb := lazy_safe_backing flat input r h
  have h1 : r.fdsAt now = r.fdsAt input := by simp [LRes.fdsAt, hb, Backing.view]
  refine ⟨h1, ?_⟩
  rw [h1, ← lazy_erasure false flat input, h]; rfl

/-- every typed accessor, and every `FieldData(path…)` lookup through nested messages, answers the same after any
    clobber as at decode time -/
theorem lazy_accessors_clobber_invariant (flat : List Nat) (input now : Bytes) (r : LRes)
    (h : lazyDecodeP false flat input = .ok r) (dec : LDec) :
    (∀ tag a, r.access now dec tag a = r.access input dec tag a) ∧
    (∀ fuel path a, r.lookup now fuel dec path a = r.lookup input fuel dec path a) := by
  have h1 := (lazy_clobber_invariant flat input now r h).1
  exact ⟨fun tag a => by simp [LRes.access, h1], fun fuel path a => by simp [LRes.lookup, h1]⟩

/-- a nested result shares its parent's memory (no clone in `NestedResult`), and its windows read what the value
    model decodes from the payload — so nested results of a safe-mode result are clobber-invariant too -/
theorem lazy_nested (parent : LRes) (now : Bytes) (subFlat : List Nat) (w : Nat × Nat) :
    (∀ r, lazyNestedP parent now subFlat w = .ok r → r.backing = parent.backing) ∧
    (lazyNestedP parent now subFlat w).map (fun r => r.fdsAt now) =
      decodeInto subFlat (cleanFds subFlat.length) (((parent.backing.view now).drop w.1).take w.2) := by
  constructor
  · intro r h
    unfold lazyNestedP at h
    simp only [] at h
    cases hd : decodeIntoLoopW subFlat ((((parent.backing.view now).drop w.1).take w.2).length + 1) w.1
        { p := ((parent.backing.view now).drop w.1).take w.2, off := 0, fast := true } (cleanW subFlat.length) with
    | ok fds => rw [hd] at h; simp [Res.map] at h; rw [← h]
    | err => rw [hd] at h; simp [Res.map] at h
    | panic => rw [hd] at h; simp [Res.map] at h
  · unfold lazyNestedP decodeInto
    simp only []
    rw [map_map]
    simp only [LRes.fdsAt]
    have := erase_decodeIntoLoop subFlat (parent.backing.view now)
      ((((parent.backing.view now).drop w.1).take w.2).length + 1) w.1
      { p := ((parent.backing.view now).drop w.1).take w.2, off := 0, fast := true } (cleanW subFlat.length) ⟨w.2, rfl⟩
    rw [cleanW_read] at this
    exact this

/-- the value `BytesValue` / `StringValue` hands out reads, at the time of the call, the last occurrence the value
    model's accessor picks -/
theorem lazy_value_erasure (r : LRes) (unsafeFlag : Bool) (now : Bytes) (i : Nat) :
    (r.bytesValueP unsafeFlag now i).map (LRef.read now) = ((r.fdsAt now)[i]?).bind (fun fd => fd.data.getLast?) := by
  unfold LRes.bytesValueP LRes.fdsAt
  rw [List.getElem?_map]
  cases r.fds[i]? with
  | none => rfl
  | some fd =>
    simp only [Option.map_some, Option.bind_some, WFD.read, List.getLast?_map, Option.map_map]
    cases fd.data.getLast? with
    | none => rfl
    | some w => cases unsafeFlag <;> rfl

/-- **values obtained from a lazy result stay what they were**: a value handed out by an accessor of a safe-mode
    result (`unsafe = false`: it is a copy) or of any result whose memory is a private clone reads the same after
    any later change of the caller's buffer -/
theorem lazy_values_clobber_invariant (r : LRes) (unsafeFlag : Bool) (now later : Bytes) (i : Nat) (v : LRef)
    (hsafe : unsafeFlag = false ∨ ∃ c, r.backing = .priv c) (h : r.bytesValueP unsafeFlag now i = some v) :
    v.read later = v.read now := by
  unfold LRes.bytesValueP at h
  cases hfd : r.fds[i]? with
  | none => rw [hfd] at h; simp at h
  | some fd =>
    rw [hfd] at h
    simp only [] at h
    cases hl : fd.data.getLast? with
    | none => rw [hl] at h; simp at h
    | some w =>
      rw [hl] at h
      simp only [Option.map_some, Option.some.injEq] at h
      cases unsafeFlag with
      | false => simp only [Bool.false_eq_true, if_false] at h; rw [← h]; rfl
      | true =>
        simp only [if_true] at h
        rcases hsafe with hu | ⟨c, hc⟩
        · simp at hu
        · rw [← h, hc]; rfl

/-- fast mode (`WithMode(DecoderModeFast)`): the windows refer to the caller's buffer, and overwriting it changes
    what `BytesValue` returns -/
theorem lazy_fast_mode_aliases :
    lazyDecodeP true [1] exString = .ok { backing := .caller, fds := [{ wt := 2, data := [(2, 2)] }] } ∧
    (LRes.mk .caller [{ wt := 2, data := [(2, 2)] }]).access exString (.mk [1] []) 1 .bytes = .ok (.bytes [0x68, 0x69]) ∧
    (LRes.mk .caller [{ wt := 2, data := [(2, 2)] }]).access [0, 0, 0, 0] (.mk [1] []) 1 .bytes = .ok (.bytes [0, 0]) ∧
    lazyDecodeP false [1] exString = .ok { backing := .priv exString, fds := [{ wt := 2, data := [(2, 2)] }] } ∧
    (LRes.mk (.priv exString) [{ wt := 2, data := [(2, 2)] }]).access [0, 0, 0, 0] (.mk [1] []) 1 .bytes =
      .ok (.bytes [0x68, 0x69]) := by
  refine ⟨?_, ?_, ?_, ?_, ?_⟩ <;> with_unfolding_all rfl

end Csproto.C10Prov
