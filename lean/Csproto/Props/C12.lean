import Csproto.Model.Shim
import Csproto.Model.Ext
import Csproto.Bridge.Shim
/-
  C12 — Extension accessors are coherent on every runtime.

  The runtimes' extension stores are abstract (`Store`: extension number ↦ value — what the runtime's
  own Set/Get/Has/Clear/Range implement; validated against the three real runtimes by the harness, part
  of the trusted base).  What is modelled and proved is csproto's part: the dispatch on
  (message type, dynamic type of the descriptor argument).

  * `accepts` is the table of type assertions of `extensions.go` (bridge `ext_asserts_ok`: regenerated
    facts `Generated.shimAsserts`; `Bridge.arms_call_owner`: each arm calls its own runtime's function);
  * `transparent_*`   — with a descriptor of the message's own runtime every csproto accessor *is* the
                         runtime's accessor (same state change, same answer);
  * `history_refines` — hence every history of Set/Clear/ClearAll/Has/Get/Range through csproto behaves
                         as the abstract map: Has after Set, Get returns the value set, absent after
                         Clear/ClearAll, Range visits exactly the set ones (`coherent_*`);
  * `mismatch_*`      — a descriptor of another runtime family: Has = false, Get/Set = error,
                         ClearExtension panics as documented; the message is never modified.
-/
namespace Csproto.C12
open Csproto

/-! ### the abstract map is coherent -/

theorem coherent_has_after_set (s : Store) (k : Nat) (v : Val) : shas (sset s k v) k = true := by
  simp [shas, sget, sset]
theorem coherent_get_after_set (s : Store) (k : Nat) (v : Val) : sget (sset s k v) k = some v := by
  simp [sget, sset]
theorem coherent_set_other (s : Store) (k k' : Nat) (v : Val) (h : k' ≠ k) : sget (sset s k v) k' = sget s k' := by
  have hb : (k == k') = false := by simpa using (Ne.symm h)
  simp only [sget, sset, List.find?_cons, hb, List.find?_filter]
  congr 2
  funext a
  by_cases ha : a.1 = k'
  · simp [ha, h]
  · simp [ha]
theorem coherent_absent_after_clear (s : Store) (k : Nat) : shas (sclear s k) k = false := by
  simp only [shas, sget, sclear]
  induction s with
  | nil => rfl
  | cons p s ih =>
    by_cases hp : p.1 = k
    · simpa [List.filter_cons, hp] using ih
    · simpa [List.filter_cons, hp, List.find?_cons] using ih
theorem coherent_keys_after_clear (s : Store) (k : Nat) : k ∉ skeys (sclear s k) := by
  simp [skeys, sclear]
theorem coherent_clearAll (mt : MT) (s : Store) (h : mt ≠ .unknown) : (csClearAll mt s).1 = [] ∧ csRange mt (csClearAll mt s).1 = .keys [] := by
  simp [csClearAll, csRange, h, skeys]
theorem coherent_range_has (s : Store) (k : Nat) : k ∈ skeys s ↔ shas s k = true := by
  simp only [skeys, shas, sget, Option.isSome_map, List.find?_isSome, List.mem_map]
  constructor
  · rintro ⟨p, hp, rfl⟩; exact ⟨p, hp, by simp⟩
  · rintro ⟨p, hp, hk⟩; exact ⟨p, hp, by simpa using hk⟩

/-! ### matching descriptor: csproto is the runtime's own accessor -/

theorem transparent (mt : MT) (dk : DK) (s : Store) (k : Nat) (v : Val) (h : accepts mt dk = true) :
    csHas mt dk s k = .bool (shas s k) ∧ csGet mt dk s k = .val (sget s k) ∧
    csSet mt dk s k v = (sset s k v, .unit) ∧ csClear mt dk s k = (sclear s k, .unit) := by
  simp [csHas, csGet, csSet, csClear, h]

/-- **the property's clauses, for every extension number whatsoever** (the first or the last number of a
    declared range, 2^29-1, …: the dispatcher never looks at the number, it only hands it to the store):
    after Set, Has is true and Get returns the value; after Clear or ClearAll, Has is false and Range does not
    visit it -/
theorem set_then_has_get (mt : MT) (dk : DK) (s : Store) (k : Nat) (v : Val) (h : accepts mt dk = true) :
    csHas mt dk (csSet mt dk s k v).1 k = .bool true ∧ csGet mt dk (csSet mt dk s k v).1 k = .val (some v) := by
  simp [csHas, csGet, csSet, h, coherent_has_after_set, coherent_get_after_set]

theorem clear_then_absent (mt : MT) (dk : DK) (s : Store) (k : Nat) (h : accepts mt dk = true) :
    csHas mt dk (csClear mt dk s k).1 k = .bool false ∧
    (∀ ks, csRange mt (csClear mt dk s k).1 = .keys ks → k ∉ ks) := by
  have hm : mt ≠ .unknown := by intro e; subst e; cases dk <;> simp [accepts] at h
  refine ⟨by simp [csHas, csClear, h, coherent_absent_after_clear], ?_⟩
  intro ks hks
  simp only [csRange, csClear, h, hm, if_true, if_false, Out.keys.injEq] at hks
  subst hks
  exact coherent_keys_after_clear s k

theorem clearAll_then_absent (mt : MT) (dk : DK) (s : Store) (k : Nat) (h : accepts mt dk = true) :
    csHas mt dk (csClearAll mt s).1 k = .bool false := by
  have hm : mt ≠ .unknown := by intro e; subst e; cases dk <;> simp [accepts] at h
  simp [csHas, csClearAll, h, hm, shas, sget]

/-- the answers for two numbers differ only through the store: a dispatcher that treated some numbers
    specially (say, the last one of a declared range) would not satisfy this -/
theorem number_blind (mt : MT) (dk : DK) (s : Store) (k k' : Nat) (h : shas s k = shas s k') :
    csHas mt dk s k = csHas mt dk s k' := by
  simp [csHas, h]

/-- non-vacuity at the boundaries: `extensions 100 to 199`, `extensions 1000 to max` -/
example : (runCs .gogo .gogoDesc [] [.set 199 1, .set 536870911 2, .has 199, .has 536870911, .clear 199, .has 199, .range]).2
    = [.unit, .unit, .bool true, .bool true, .unit, .bool false, .keys [536870911]] := by decide

/-! ### mismatching descriptor: refused, message untouched -/

theorem mismatch (mt : MT) (dk : DK) (s : Store) (k : Nat) (v : Val) (h : accepts mt dk = false) :
    csHas mt dk s k = .bool false ∧ csGet mt dk s k = .err ∧
    csSet mt dk s k v = (s, .err) ∧ csClear mt dk s k = (s, .panic) := by
  simp [csHas, csGet, csSet, csClear, h]

/-- descriptors of the other runtime family are mismatches, in both directions -/
theorem cross_family_refused :
    accepts .gogo .googleInfo = false ∧ accepts .gogo .otherV2Type = false ∧
    accepts .google .gogoDesc = false ∧ accepts .googleV1 .gogoDesc = false ∧
    (∀ dk, accepts .unknown dk = false) := by
  refine ⟨rfl, rfl, rfl, rfl, ?_⟩; intro dk; cases dk <;> rfl

/-! ### histories -/

/-- **every history through csproto with the message's own descriptors is the history on the
    runtime's store**: same final state, same answers at every step -/
theorem history_refines (mt : MT) (dk : DK) (h : accepts mt dk = true) (ops : List Op) : ∀ (s : Store),
    runCs mt dk s ops = runSpec s ops := by
  have hm : mt ≠ .unknown := by intro e; subst e; cases dk <;> simp [accepts] at h
  induction ops with
  | nil => intro s; rfl
  | cons op ops ih =>
    intro s
    cases op <;> simp only [runCs, runSpec, csSet, csClear, csClearAll, csHas, csGet, csRange, h, hm, if_true, if_false, ih]

/-- with a foreign descriptor no history modifies the message -/
theorem foreign_history_keeps_state (mt : MT) (dk : DK) (h : accepts mt dk = false) (ops : List Op)
    (hno : ∀ op ∈ ops, op ≠ .clearAll) : ∀ (s : Store), (runCs mt dk s ops).1 = s := by
  induction ops with
  | nil => intro s; rfl
  | cons op ops ih =>
    intro s
    have ih' := ih (fun o ho => hno o (by simp [ho]))
    cases op with
    | clearAll => exact absurd rfl (hno .clearAll (by simp))
    | set k v => simp only [runCs, csSet, h]; exact ih' s
    | clear k => simp only [runCs, csClear, h]; exact ih' s
    | has k => simp only [runCs]; exact ih' s
    | get k => simp only [runCs]; exact ih' s
    | range => simp only [runCs]; exact ih' s

/-! ### bridge: the assertions of extensions.go -/

/-- each arm of Has/Clear/Get/SetExtension asserts the descriptor type of its own runtime -/
theorem ext_asserts_ok :
    ∀ f ∈ ["HasExtension", "ClearExtension", "GetExtension", "SetExtension"],
      (f, "MessageTypeGogo", "github.com/gogo/protobuf/proto", "*ExtensionDesc") ∈ Generated.shimAsserts ∧
      (f, "MessageTypeGoogleV1", "google.golang.org/protobuf/internal/impl", "*ExtensionInfo") ∈ Generated.shimAsserts ∧
      (f, "MessageTypeGoogle", "google.golang.org/protobuf/reflect/protoreflect", "ExtensionType") ∈ Generated.shimAsserts := by
  decide

/-- and no arm asserts a descriptor type of another family -/
theorem ext_asserts_nothing_else :
    ∀ a ∈ Generated.shimAsserts, a.1 ∈ ["HasExtension", "ClearExtension", "GetExtension", "SetExtension"] →
      (a.2.1 = "MessageTypeGogo" → a.2.2.1 = "github.com/gogo/protobuf/proto") ∧
      (a.2.1 ≠ "MessageTypeGogo" → a.2.2.1 ≠ "github.com/gogo/protobuf/proto") := by
  decide

/-- non-vacuity -/
example : (runCs .google .googleInfo [] [.set 100 7, .set 101 9, .clear 100, .has 100, .get 101, .range]).2
    = [.unit, .unit, .unit, .bool false, .val (some 9), .keys [101]] := by decide

end Csproto.C12
