import Csproto.Model.Shim
/-
  C11 — The runtime-agnostic API is a transparent, stable dispatcher.

  Lean carries the decision logic: classification as a function of the capability vector, its
  values on the supported classes and on everything else, and stability of the first-use cache under
  every interleaving.  That each `switch MsgType` arm calls the owning runtime's function is a
  bridge lemma over the regenerated wiring table (Bridge/Shim.lean); that the runtimes' own
  functions behave as expected is an assumption validated by the correspondence stream.
-/
namespace Csproto.C11
open Csproto

/-- capability vectors of the six supported classes, as *measured* on real types by the harness
    (fast-marshal methods do not influence classification) -/
def gogoCaps : Caps := { nilIface := false, isV2 := false, isPtr := true, isV1Iface := true, gogoRegistered := true }
def googleV1Caps : Caps := { nilIface := false, isV2 := false, isPtr := true, isV1Iface := true, gogoRegistered := false }
def googleV2Caps : Caps := { nilIface := false, isV2 := true, isPtr := true, isV1Iface := true, gogoRegistered := false }

/-- **classification is correct on the supported classes** -/
theorem classify_supported :
    msgType gogoCaps = .gogo ∧ msgType googleV1Caps = .googleV1 ∧ msgType googleV2Caps = .google := by decide

/-- **classification is a function of the capability vector only** (trivially: `msgType` has no
    other argument) and **everything that is not a message is `unknown`**: nil, non-pointers that
    are not v2 messages, pointers to non-messages -/
theorem classify_unsupported (c : Caps) (h : c.nilIface = true ∨ (c.isV2 = false ∧ (c.isPtr = false ∨ c.isV1Iface = false))) :
    msgType c = .unknown := by
  unfold msgType deduce
  rcases h with h | ⟨h1, h2 | h2⟩ <;> simp [*]

/-- a v2 message is `google` whatever else it satisfies (v1-style methods, registration) -/
theorem classify_v2_first (c : Caps) (h1 : c.nilIface = false) (h2 : c.isV2 = true) : msgType c = .google := by
  simp [msgType, deduce, h1, h2]

/-! ## stability of the first-use cache under every interleaving -/

/-- every goroutine's local value and the cache only ever hold the true classification -/
structure CacheInv (c : Caps) (s : CacheState) : Prop where
  cache : ∀ v, s.cache = some v → v = deduce c
  pcs : ∀ pc ∈ s.pcs, (∀ v, pc = .deduced v → v = deduce c) ∧ (∀ v, pc = .done v → v = deduce c)

theorem mem_set {α} {l : List α} {i : Nat} {a x : α} (h : x ∈ l.set i a) : x = a ∨ x ∈ l := by
  induction l generalizing i with
  | nil => simp at h
  | cons y ys ih =>
    cases i with
    | zero => simp at h; rcases h with h | h <;> simp [h]
    | succ i =>
      simp at h
      rcases h with h | h
      · simp [h]
      · rcases ih h with h' | h' <;> simp [h']

theorem cacheInv_init (c : Caps) (g : Nat) : CacheInv c (CacheState.init g) := by
  refine ⟨by simp [CacheState.init], ?_⟩
  intro pc hpc
  simp [CacheState.init] at hpc
  obtain ⟨_, rfl⟩ := hpc
  simp

theorem cacheInv_step (c : Caps) (s : CacheState) (g : Nat) (h : CacheInv c s) : CacheInv c (cacheStep c s g) := by
  unfold cacheStep
  cases hg : s.pcs[g]? with
  | none => exact h
  | some pc =>
    have hmem : pc ∈ s.pcs := List.mem_of_getElem? hg
    cases pc with
    | start =>
      cases hc : s.cache with
      | none =>
        refine ⟨by simpa [hc] using h.cache, ?_⟩
        intro x hx
        rcases mem_set hx with rfl | hx
        · simp
        · exact h.pcs x hx
      | some v =>
        have hv := h.cache v hc
        refine ⟨by simpa [hc] using h.cache, ?_⟩
        intro x hx
        rcases mem_set hx with rfl | hx
        · simp [hv]
        · exact h.pcs x hx
    | missed =>
      refine ⟨h.cache, ?_⟩
      intro x hx
      rcases mem_set hx with rfl | hx
      · simp
      · exact h.pcs x hx
    | deduced v =>
      have hv := (h.pcs _ hmem).1 v rfl
      refine ⟨by intro w hw; simp at hw; rw [← hw]; exact hv, ?_⟩
      intro x hx
      rcases mem_set hx with rfl | hx
      · simp [hv]
      · exact h.pcs x hx
    | done v => exact h

/-- **Every interleaving of any number of goroutines' first calls keeps the invariant**: every call
    that has returned, returned `deduce c`, and the cache holds nothing else. -/
theorem cache_stable (c : Caps) (g : Nat) (sched : List Nat) : CacheInv c (cacheRun c (CacheState.init g) sched) := by
  unfold cacheRun
  generalize hs : CacheState.init g = s
  have hi : CacheInv c s := hs ▸ cacheInv_init c g
  clear hs
  induction sched generalizing s with
  | nil => exact hi
  | cons x xs ih => exact ih _ (cacheInv_step c s x hi)

/-- corollary in the property's words: whatever the schedule, a returned classification is the
    documented one -/
theorem returned_value_correct (c : Caps) (g : Nat) (sched : List Nat) (i : Nat) (v : MT)
    (h : (cacheRun c (CacheState.init g) sched).pcs[i]? = some (.done v)) : v = deduce c :=
  ((cache_stable c g sched).pcs _ (List.mem_of_getElem? h)).2 v rfl

/-! ## dispatch by probing -/

/-- the first satisfied probe wins: a value with generated fast-marshal methods is always served by
    them, whatever else it satisfies -/
theorem firstProbe_head (p : String) (ps : List String) (has : String → Bool) (h : has p = true) :
    firstProbe (p :: ps) has = some p := by simp [firstProbe, List.find?, h]

theorem firstProbe_none (ps : List String) (has : String → Bool) (h : ∀ p ∈ ps, has p = false) :
    firstProbe ps has = none := by
  unfold firstProbe
  exact List.find?_eq_none.mpr (fun p hp => by simp [h p hp])

/-! ## `Equal` (and the one-argument functions) hand the owning runtime's result through

  The runtimes' relations are abstract and not assumed reflexive (Gogo: `==` on floats, so a message
  holding a NaN differs from itself).  That the source's `Equal` has exactly the shape of `shimEqual` —
  classification of both arguments, one comparison of the two classes, then a direct `return` of the
  runtime's call in every arm and nothing in between — is `Bridge.shimFrame_ok` / `Bridge.shimArms_ok`;
  the harness sends every argument pair it tries (same pointer, clones, wire copies, …) through
  `shimEqual` and compares with `csproto.Equal`. -/

/-- **for two messages of one supported class the answer is the runtime's**, whatever the pair is -/
theorem equal_transparent (t : MT) (same rt : Bool) (h : t ≠ .unknown) : shimEqual t t same rt = rt := by
  cases t <;> simp [shimEqual] at h ⊢

/-- messages of different classes are never equal -/
theorem equal_cross_class (t1 t2 : MT) (same rt : Bool) (h : t1 ≠ t2) : shimEqual t1 t2 same rt = false := by
  simp [shimEqual, h]

/-- values of unsupported types are never equal to anything (documented zero result) -/
theorem equal_unsupported (t2 : MT) (same rt : Bool) :
    shimEqual .unknown t2 same rt = false ∧ shimEqual t2 .unknown same rt = false := by
  cases t2 <;> simp [shimEqual]

/-- **pointer identity of the two arguments is never consulted** -/
theorem equal_ignores_identity (t1 t2 : MT) (s1 s2 rt : Bool) : shimEqual t1 t2 s1 rt = shimEqual t1 t2 s2 rt := rfl

/-- a dispatcher with a same-pointer short cut agrees with the runtime on `(m, m)` **iff** the runtime's
    relation is reflexive at `m` — which the shim cannot know -/
theorem shortcut_transparent_iff (t : MT) (rt : Bool) (h : t ≠ .unknown) :
    shimEqualShortcut t t true rt = shimEqual t t true rt ↔ rt = true := by
  cases t <;> cases rt <;> simp [shimEqualShortcut, shimEqual] at h ⊢

/-- witness: a Gogo message that its runtime does not consider equal to itself (it holds a NaN) -/
theorem shortcut_witness : shimEqualShortcut .gogo .gogo true false ≠ shimEqual .gogo .gogo true false := by decide

/-- off the diagonal the short cut changes nothing: only same-pointer pairs can expose it -/
theorem shortcut_only_on_same_pointer (t1 t2 : MT) (rt : Bool) :
    shimEqualShortcut t1 t2 false rt = shimEqual t1 t2 false rt := by
  cases t1 <;> cases t2 <;> simp [shimEqualShortcut, shimEqual]

/-- Clone / MarshalText / …: the runtime's result, unchanged, for every supported class; the zero result otherwise -/
theorem unary_transparent {α : Type} (t : MT) (rt : α) :
    (t ≠ .unknown → shimUnary t rt = some rt) ∧ (t = .unknown → shimUnary t rt = none) := by
  cases t <;> simp [shimUnary]

/-! ## non-vacuity -/
example : (cacheRun googleV2Caps (CacheState.init 3) [0, 1, 0, 2, 1, 0, 1, 2, 2]).cache = some .google := by decide

end Csproto.C11
