import Csproto.Model.Conc
import Csproto.Props.C14
/-
  C15 — A lazy Decoder can be shared by concurrent goroutines.

  What a Lean model can carry: the *ownership discipline*.  Under every interleaving, an object is
  held by at most one goroutine at a time and is never simultaneously pooled and held; consequently
  two accesses to the same object by different goroutines are always separated by a `Put` of one
  and a `Get` of the other (which `sync.Pool` orders), and the shared tables are only read.  What
  each goroutine then observes is the sequential semantics on objects it holds exclusively — i.e.
  C14: a recycled object is cleared, so the values are those of the goroutine's own input.
  Data-race freedom in the sense of the Go memory model itself is NOT carried by the model; the race
  detector run of the check is supporting evidence only.

  The model has exactly two kinds of locations — objects and the constructor-written tables.  That the
  code has no third kind is a regenerated fact: `Bridge.no_package_level_state_mutated` (no function of
  lazyproto mutates a package-level variable at run time; `Bridge/LazyWrites.lean`, fact F17) next to
  `Bridge.shared_written_only_by_constructors` / `Bridge.writes_classified` (field writes, fact F15).
  What a goroutine was HANDED (byte slices, strings, typed slices) is Go aliasing, not in the model: in
  safe mode the values must be copies (`Bridge.lazyAccessors_ok` pins the cloning accessors), and the
  check keeps every value across `Close` and later decodes, in-process and under the race detector.
-/
namespace Csproto.C15
open Csproto

/-- every known object is in exactly one place: the pool (once) or held by one goroutine (once) -/
structure Inv (s : CState) : Prop where
  poolNodup : s.pool.Nodup
  ownedObjsNodup : (s.owned.map (·.2)).Nodup
  disjoint : ∀ obj, obj ∈ s.pool → obj ∉ s.owned.map (·.2)
  known : ∀ obj, (obj ∈ s.pool ∨ obj ∈ s.owned.map (·.2)) → obj ∈ s.known

theorem inv_init : Inv CState.init := ⟨by simp [CState.init], by simp [CState.init], by simp [CState.init], by simp [CState.init]⟩

theorem map_erase_sub {l : List (Nat × Nat)} {x : Nat × Nat} {o : Nat} (h : o ∈ (l.erase x).map (·.2)) : o ∈ l.map (·.2) := by
  simp only [List.mem_map] at h ⊢
  obtain ⟨p, hp, rfl⟩ := h
  exact ⟨p, List.mem_of_mem_erase hp, rfl⟩

theorem nodup_map_erase {l : List (Nat × Nat)} (x : Nat × Nat) (h : (l.map (·.2)).Nodup) : ((l.erase x).map (·.2)).Nodup := by
  induction l with
  | nil => simp
  | cons y ys ih =>
    simp only [List.map_cons, List.nodup_cons] at h
    by_cases e : y = x
    · subst e; simp [h.2]
    · have : (y :: ys).erase x = y :: ys.erase x := by
        simp [List.erase_cons, e]
      rw [this]
      simp only [List.map_cons, List.nodup_cons]
      exact ⟨fun hm => h.1 (map_erase_sub hm), ih h.2⟩

theorem erased_not_mem {l : List (Nat × Nat)} {g obj : Nat} (hn : (l.map (·.2)).Nodup) (hm : (g, obj) ∈ l) :
    obj ∉ (l.erase (g, obj)).map (·.2) := by
  induction l with
  | nil => simp at hm
  | cons y ys ih =>
    simp only [List.map_cons, List.nodup_cons] at hn
    by_cases e : y = (g, obj)
    · subst e; simp only [List.erase_cons_head]; exact hn.1
    · have : (y :: ys).erase (g, obj) = y :: ys.erase (g, obj) := by simp [List.erase_cons, e]
      rw [this]
      have hm' : (g, obj) ∈ ys := by
        rcases List.mem_cons.mp hm with h | h
        · exact absurd h.symm e
        · exact h
      simp only [List.map_cons, List.mem_cons, not_or]
      refine ⟨?_, ih hn.2 hm'⟩
      intro ho
      apply hn.1
      rw [← ho]
      exact List.mem_map.mpr ⟨(g, obj), hm', rfl⟩

/-- the invariant is preserved by every enabled step of every goroutine -/
theorem inv_step (s : CState) (st : CStep) (hi : Inv s) (he : s.enabled st = true) : Inv (s.step st) := by
  cases st with
  | getNew g obj =>
    have hfresh : obj ∉ s.known := by simpa [CState.enabled] using he
    refine ⟨hi.poolNodup, ?_, ?_, ?_⟩
    · simp only [CState.step, List.map_cons, List.nodup_cons]
      exact ⟨fun h => hfresh (hi.known obj (Or.inr h)), hi.ownedObjsNodup⟩
    · intro o ho
      simp only [CState.step, List.map_cons, List.mem_cons, not_or]
      exact ⟨fun e => hfresh (by rw [← e]; exact hi.known o (Or.inl ho)), hi.disjoint o ho⟩
    · intro o ho
      simp only [CState.step, List.map_cons, List.mem_cons] at ho ⊢
      rcases ho with h | h | h
      · exact Or.inr (hi.known o (Or.inl h))
      · exact Or.inl h
      · exact Or.inr (hi.known o (Or.inr h))
  | getPooled g obj =>
    have hin : obj ∈ s.pool := by simpa [CState.enabled] using he
    refine ⟨hi.poolNodup.erase obj, ?_, ?_, ?_⟩
    · simp only [CState.step, List.map_cons, List.nodup_cons]
      exact ⟨hi.disjoint obj hin, hi.ownedObjsNodup⟩
    · intro o ho
      simp only [CState.step] at ho ⊢
      have ho' := List.mem_of_mem_erase ho
      simp only [List.map_cons, List.mem_cons, not_or]
      refine ⟨?_, hi.disjoint o ho'⟩
      intro e; subst e
      exact (List.Nodup.mem_erase_iff hi.poolNodup).mp ho |>.1 rfl
    · intro o ho
      simp only [CState.step, List.map_cons, List.mem_cons] at ho ⊢
      rcases ho with h | h | h
      · exact hi.known o (Or.inl (List.mem_of_mem_erase h))
      · exact hi.known o (Or.inl (h ▸ hin))
      · exact hi.known o (Or.inr h)
  | put g obj =>
    have hin : (g, obj) ∈ s.owned := by simpa [CState.enabled] using he
    have hobj : obj ∈ s.owned.map (·.2) := List.mem_map.mpr ⟨(g, obj), hin, rfl⟩
    refine ⟨?_, nodup_map_erase _ hi.ownedObjsNodup, ?_, ?_⟩
    · simp only [CState.step, List.nodup_cons]
      exact ⟨fun h => hi.disjoint obj h hobj, hi.poolNodup⟩
    · intro o ho
      simp only [CState.step, List.mem_cons] at ho ⊢
      rcases ho with e | h
      · subst e; exact erased_not_mem hi.ownedObjsNodup hin
      · exact fun hm => hi.disjoint o h (map_erase_sub hm)
    · intro o ho
      simp only [CState.step, List.mem_cons] at ho
      rcases ho with (e | h) | h
      · exact hi.known o (Or.inr (e ▸ hobj))
      · exact hi.known o (Or.inl h)
      · exact hi.known o (Or.inr (map_erase_sub h))
  | access g obj w => exact hi
  | readShared g => exact hi

/-- **Every interleaving keeps the invariant.** -/
theorem inv_run : ∀ (sched : List CStep) (s s' : CState), Inv s → s.run sched = some s' → Inv s'
  | [], s, s', hi, h => by simp only [CState.run, Option.some.injEq] at h; rw [← h]; exact hi
  | st :: rest, s, s', hi, h => by
    simp only [CState.run] at h
    by_cases he : s.enabled st = true
    · simp only [he, if_true] at h
      exact inv_run rest _ s' (inv_step s st hi he) h
    · simp [he] at h

theorem owner_unique : ∀ {l : List (Nat × Nat)}, (l.map (·.2)).Nodup → ∀ {g1 g2 obj : Nat},
    (g1, obj) ∈ l → (g2, obj) ∈ l → g1 = g2
  | [], _, _, _, _, h1, _ => by simp at h1
  | y :: ys, hn, g1, g2, obj, h1, h2 => by
    simp only [List.map_cons, List.nodup_cons] at hn
    rcases List.mem_cons.mp h1 with e1 | m1 <;> rcases List.mem_cons.mp h2 with e2 | m2
    · rw [← e2] at e1; exact (Prod.mk.inj e1).1
    · exfalso; apply hn.1; rw [← e1]; exact List.mem_map.mpr ⟨(g2, obj), m2, rfl⟩
    · exfalso; apply hn.1; rw [← e2]; exact List.mem_map.mpr ⟨(g1, obj), m1, rfl⟩
    · exact owner_unique hn.2 m1 m2

/-- **Exclusive ownership.** In every reachable state no object is held by two goroutines, and no
    held object is in the pool: all accesses to an object between its `Get` and its `Put` are by one
    goroutine. -/
theorem exclusive (sched : List CStep) (s : CState) (h : CState.init.run sched = some s)
    (g1 g2 obj : Nat) (h1 : (g1, obj) ∈ s.owned) (h2 : (g2, obj) ∈ s.owned) : g1 = g2 ∧ obj ∉ s.pool := by
  have hi := inv_run sched _ s inv_init h
  exact ⟨owner_unique hi.ownedObjsNodup h1 h2,
    fun hp => hi.disjoint obj hp (List.mem_map.mpr ⟨(g1, obj), h1, rfl⟩)⟩

/-- an owner keeps the object until it puts it back -/
theorem owner_persists : ∀ (mid : List CStep) (s s' : CState) (g obj : Nat), s.run mid = some s' →
    (g, obj) ∈ s.owned → CStep.put g obj ∉ mid → (g, obj) ∈ s'.owned
  | [], s, s', g, obj, hr, ho, _ => by simp only [CState.run, Option.some.injEq] at hr; rw [← hr]; exact ho
  | st :: rest, s, s', g, obj, hr, ho, hnp => by
    simp only [CState.run] at hr
    by_cases he : s.enabled st = true
    · simp only [he, if_true] at hr
      have hne : st ≠ .put g obj := fun e => hnp (by simp [e])
      have ho' : (g, obj) ∈ (s.step st).owned := by
        cases st with
        | getNew g' o => simp [CState.step, ho]
        | getPooled g' o => simp [CState.step, ho]
        | put g' o =>
          simp only [CState.step]
          have : (g, obj) ≠ (g', o) := by
            intro e; apply hne; rw [(Prod.mk.inj e).1, (Prod.mk.inj e).2]
          exact (List.mem_erase_of_ne this).mpr ho
        | access g' o w => exact ho
        | readShared g' => exact ho
      exact owner_persists rest _ s' g obj hr ho' (fun h => hnp (List.mem_cons_of_mem _ h))
    · simp [he] at hr

/-- a goroutine can come to hold an already existing object only through `pool.Get` -/
theorem acquire_via_pool : ∀ (mid : List CStep) (s s' : CState) (g obj : Nat), s.run mid = some s' →
    obj ∈ s.known → (g, obj) ∉ s.owned → (g, obj) ∈ s'.owned → CStep.getPooled g obj ∈ mid
  | [], s, s', g, obj, hr, _, hno, ho => by
    simp only [CState.run, Option.some.injEq] at hr; rw [← hr] at ho; exact absurd ho hno
  | st :: rest, s, s', g, obj, hr, hk, hno, ho => by
    simp only [CState.run] at hr
    by_cases he : s.enabled st = true
    · simp only [he, if_true] at hr
      by_cases hx : st = .getPooled g obj
      · simp [hx]
      · have hk' : obj ∈ (s.step st).known := by cases st <;> simp [CState.step, hk]
        have hno' : (g, obj) ∉ (s.step st).owned := by
          cases st with
          | getNew g' o =>
            have hf : o ∉ s.known := by simpa [CState.enabled] using he
            simp only [CState.step, List.mem_cons, not_or]
            exact ⟨fun e => hf ((Prod.mk.inj e).2 ▸ hk), hno⟩
          | getPooled g' o =>
            simp only [CState.step, List.mem_cons, not_or]
            exact ⟨fun e => hx (by rw [(Prod.mk.inj e).1, (Prod.mk.inj e).2]), hno⟩
          | put g' o => simp only [CState.step]; exact fun h => hno (List.mem_of_mem_erase h)
          | access g' o w => exact hno
          | readShared g' => exact hno
        exact List.mem_cons_of_mem _ (acquire_via_pool rest _ s' g obj hr hk' hno' ho)
    · simp [he] at hr

/-- **Conflicting accesses are ordered by the pool.** If goroutine `g1` accesses `obj` and later in
    the schedule a different goroutine `g2` accesses it, then in between `g1` put it back and `g2`
    got it from the pool — the two operations `sync.Pool` orders by happens-before. -/
theorem accesses_ordered (pre mid : List CStep) (s0 s1 : CState) (g1 g2 obj : Nat) (w1 w2 : Bool)
    (h0 : CState.init.run pre = some s0) (ha1 : s0.enabled (.access g1 obj w1) = true)
    (hmid : s0.run mid = some s1) (ha2 : s1.enabled (.access g2 obj w2) = true) (hne : g1 ≠ g2) :
    CStep.put g1 obj ∈ mid ∧ CStep.getPooled g2 obj ∈ mid := by
  have hi0 := inv_run pre _ s0 inv_init h0
  have hi1 := inv_run mid s0 s1 hi0 hmid
  have own1 : (g1, obj) ∈ s0.owned := by simpa [CState.enabled] using ha1
  have own2 : (g2, obj) ∈ s1.owned := by simpa [CState.enabled] using ha2
  constructor
  · -- otherwise g1 would still hold it, together with g2
    apply Classical.byContradiction
    intro hnp
    have := owner_persists mid s0 s1 g1 obj hmid own1 hnp
    exact hne (owner_unique hi1.ownedObjsNodup this own2)
  · have hk : obj ∈ s0.known := hi0.known obj (Or.inr (List.mem_map.mpr ⟨(g1, obj), own1, rfl⟩))
    have hno : (g2, obj) ∉ s0.owned := fun h => hne (owner_unique hi0.ownedObjsNodup own1 h)
    exact acquire_via_pool mid s0 s1 g2 obj hmid hk hno own2

/-- the shared tables are never written: no step of the model writes them (they are only read) -/
theorem shared_tables_read_only (s : CState) (g : Nat) : s.step (.readShared g) = s := rfl

/-! ## non-vacuity: a schedule in which two goroutines recycle one object -/
example : (CState.init.run [.getNew 1 0, .access 1 0 true, .put 1 0, .getPooled 2 0, .access 2 0 true, .put 2 0]).isSome = true := by
  decide

end Csproto.C15
