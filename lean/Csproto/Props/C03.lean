import Csproto.Proofs.Total
/-
  C03 — The decoder is total and bounds-safe on arbitrary bytes.

  Quantification: every byte string `d.p`, every decoder state with the cursor inside the buffer,
  every operation (all exported `Decoder` methods + the harness-only `resync`), every operation
  sequence.  `DecodeNested` is parametrised by an arbitrary nested unmarshaler that may fail.
-/
namespace Csproto.C03
open Csproto

/-- what one call may do: outcome is never a panic, the cursor stays inside the (unchanged)
    buffer, and the allocation request is bounded by the input length (+ a constant) -/
structure StepSafe (d : Dec) (r : Dec × DecOut × Nat) : Prop where
  noPanic : r.2.1 ≠ .panic
  inv : r.1.Inv
  sameBuf : r.1.p = d.p
  alloc : r.2.2 ≤ 2 * d.len + 1

theorem of_scalar {α} (d : Dec) (hi : d.Inv) (elem : Bytes → Res (α × Nat)) (mk : α → Item) (he : ElemOK elem) :
    StepSafe d (withAlloc (d.scalar elem mk) 0) := by
  have := d.scalar_safe hi elem mk he
  exact ⟨this.1, this.2.1, this.2.2, by simp [withAlloc]⟩

theorem packed_safe {α} (d : Dec) (hi : d.Inv) (elem : Bytes → Res (α × Nat)) (mk : List α → Item)
    (prealloc : Option Nat) (hk : ∀ k, prealloc = some k → 1 ≤ k) (he : ElemOK elem) :
    StepSafe d (d.packed elem mk prealloc) := by
  have hlen : d.len = d.p.length := rfl
  unfold Dec.packed
  by_cases h : d.off ≥ d.len
  · simp only [h, if_true]; exact ⟨by simp, hi, rfl, by simp⟩
  · simp only [h, if_false, sliceFrom_ok hi]
    have hv := elVarint_ok (d.p.drop d.off)
    cases hel : elVarint (d.p.drop d.off) with
    | err => exact ⟨by simp, hi, rfl, by simp⟩
    | panic => exact absurd hel hv.1
    | ok r =>
      obtain ⟨l, n⟩ := r
      have hn := hv.2 l n hel
      simp only [List.length_drop] at hn
      have hoff1 : d.off + n ≤ d.p.length := by unfold Dec.Inv Dec.len at hi; omega
      have hloop := packedLoop_safe elem he d.p l (d.len + 1) 0 (d.off + n) [] hoff1
      cases prealloc with
      | none =>
        dsimp only
        generalize hr : packedLoop elem d.p l (d.len + 1) 0 (d.off + n) [] = res at hloop
        obtain ⟨off2, r⟩ := res
        cases r with
        | ok vs =>
          have := hloop.2.2.2 vs rfl
          refine ⟨by simp, hloop.2.2.1, rfl, ?_⟩
          have h2 : off2 ≤ d.len := hloop.2.2.1
          simp at this ⊢; omega
        | err => refine ⟨by simp, hloop.2.2.1, rfl, ?_⟩; simp; have := hloop.2.2.1; have := hloop.2.1; unfold Dec.len; simp at *; omega
        | panic => exact absurd rfl hloop.1
      | some k =>
        have hk1 := hk k rfl
        dsimp only
        by_cases hfit : l > d.len - (d.off + n)
        · simp only [hfit, if_true]; exact ⟨by simp, hoff1, rfl, by simp⟩
        · simp only [hfit, if_false]
          generalize hr : packedLoop elem d.p l (d.len + 1) 0 (d.off + n) [] = res at hloop
          obtain ⟨off2, r⟩ := res
          have hdiv : l / k ≤ l := Nat.div_le_self l k
          cases r with
          | ok vs =>
            have := hloop.2.2.2 vs rfl
            refine ⟨by simp, hloop.2.2.1, rfl, ?_⟩
            simp at this ⊢; omega
          | err => refine ⟨by simp, hloop.2.2.1, rfl, ?_⟩; simp; omega
          | panic => exact absurd rfl hloop.1


/-- header of a length-delimited field: never panics; on success the payload lies inside the buffer
    (so a declared length that exceeds the remaining input is always an error) -/
theorem lenPrefix_safe (d : Dec) (hi : d.Inv) :
    d.lenPrefix ≠ .panic ∧ ∀ start l, d.lenPrefix = .ok (start, l) → d.off < start ∧ start + l ≤ d.len := by
  unfold Dec.lenPrefix
  by_cases h : d.off ≥ d.len
  · simp [h]
  · simp only [h, if_false, sliceFrom_ok hi]
    have hv := decodeVarint_ok (d.p.drop d.off)
    cases hel : decodeVarint (d.p.drop d.off) with
    | err => simp
    | panic => exact absurd hel hv.1
    | ok r =>
      obtain ⟨l, n⟩ := r
      have hpos := decodeVarint_pos hel
      dsimp only
      by_cases h1 : n = 0
      · simp [h1]
      · by_cases h2 : l > maxFieldLen
        · simp [h1, h2]
        · by_cases h3 : d.off + n + l > d.len
          · simp [h1, h2, h3]
          · simp only [h1, h2, h3, if_false]
            refine ⟨by simp, ?_⟩
            intro start l' he
            simp at he; obtain ⟨e1, e2⟩ := he
            subst e1; subst e2; omega

/-- **a declared length that exceeds the remaining input is reported as an error** (length-delimited
    readers: `DecodeBytes`, `DecodeString`, `DecodeNested`) -/
theorem declared_length_beyond_input_is_error (d : Dec) (hi : d.Inv) (l n : Nat)
    (hdec : decodeVarint (d.p.drop d.off) = .ok (l, n)) (hbig : l > d.len - (d.off + n)) :
    d.lenPrefix = .err := by
  unfold Dec.lenPrefix
  by_cases h : d.off ≥ d.len
  · simp [h]
  · simp only [h, if_false, sliceFrom_ok hi, hdec]
    have hv := (decodeVarint_ok (d.p.drop d.off)).2 l n hdec
    simp only [List.length_drop] at hv
    have hlen : d.len = d.p.length := rfl
    by_cases h1 : n = 0
    · simp [h1]
    · by_cases h2 : l > maxFieldLen
      · simp [h1, h2]
      · have h3 : d.off + n + l > d.len := by omega
        simp [h1, h2, h3]

theorem bytesOp_safe (d : Dec) (hi : d.Inv) :
    d.bytesOp.2 ≠ .panic ∧ d.bytesOp.1.Inv ∧ d.bytesOp.1.p = d.p ∧
    ∀ b, d.bytesOp.2 = .ok (.bytes b) → b.length ≤ d.len := by
  have := lenPrefix_safe d hi
  unfold Dec.bytesOp
  cases h : d.lenPrefix with
  | ok r =>
    obtain ⟨start, l⟩ := r
    have hb := this.2 start l h
    refine ⟨by simp, hb.2, rfl, ?_⟩
    intro b hbe; simp at hbe; subst hbe; simp; omega
  | err => exact ⟨by simp, hi, rfl, by simp⟩
  | panic => exact absurd h this.1

theorem skipCheck_safe (d : Dec) (tag wt bof sz : Nat) (hb : bof ≤ d.len) : d.skipCheck tag wt bof sz ≠ .panic := by
  unfold Dec.skipCheck
  by_cases hf : d.fast
  · simp [hf]
  · simp only [hf, sliceFrom_ok hb]
    have hv := decodeVarint_ok (d.p.drop bof)
    cases hel : decodeVarint (d.p.drop bof) with
    | err => simp
    | panic => exact absurd hel hv.1
    | ok r => obtain ⟨v, n⟩ := r; dsimp only; split <;> (try split) <;> (try split) <;> simp

theorem skipLen_safe (d : Dec) (hi : d.Inv) (wt : Nat) : d.skipLen wt ≠ .panic := by
  unfold Dec.skipLen
  have hv := decodeVarint_ok (d.p.drop d.off)
  split
  · simp only [sliceFrom_ok hi]
    cases hel : decodeVarint (d.p.drop d.off) with
    | err => simp [Res.map]
    | panic => exact absurd hel hv.1
    | ok r => simp [Res.map]
  · split
    · simp
    · split
      · simp only [sliceFrom_ok hi]
        cases hel : decodeVarint (d.p.drop d.off) with
        | err => simp
        | panic => exact absurd hel hv.1
        | ok r => obtain ⟨l, n⟩ := r; dsimp only; split <;> (try split) <;> (try split) <;> simp
      · split <;> simp

theorem skip_safe (d : Dec) (hi : d.Inv) (tag wt : Nat) :
    (d.skip tag wt).2 ≠ .panic ∧ (d.skip tag wt).1.Inv ∧ (d.skip tag wt).1.p = d.p := by
  unfold Dec.skip
  by_cases h : d.off ≥ d.len
  · simp [h, hi]
  · simp only [h, if_false]
    have hb : (if d.ke = d.off ∧ d.ke > d.ks then d.ks else d.off - sizeOfTagKey tag) ≤ d.len := by
      unfold Dec.Inv at hi; split <;> omega
    have h1 := skipCheck_safe d tag wt _ (sizeOfTagKey tag) hb
    cases hc : d.skipCheck tag wt (if d.ke = d.off ∧ d.ke > d.ks then d.ks else d.off - sizeOfTagKey tag) (sizeOfTagKey tag) with
    | err => exact ⟨by simp, hi, rfl⟩
    | panic => exact absurd hc h1
    | ok u =>
      have h2 := skipLen_safe d hi wt
      dsimp only
      cases hl : d.skipLen wt with
      | err => exact ⟨by simp, hi, rfl⟩
      | panic => exact absurd hl h2
      | ok k =>
        dsimp only
        by_cases hfit : d.off + k > d.len
        · simp only [hfit, if_true]; exact ⟨by simp, hi, by simp⟩
        · simp only [hfit, if_false]; exact ⟨by simp, by unfold Dec.Inv; show d.off + k ≤ d.len; omega, by simp⟩

theorem seek_safe (d : Dec) (hi : d.Inv) (o w : Int) :
    (d.seek o w).2 ≠ .panic ∧ (d.seek o w).1.Inv ∧ (d.seek o w).1.p = d.p := by
  unfold Dec.seek
  dsimp only
  split
  · exact ⟨by simp, hi, rfl⟩
  · rename_i q _
    by_cases hq : q < 0 ∨ q > d.len
    · simp only [hq, if_true]; exact ⟨by simp, hi, by simp⟩
    · simp only [hq, if_false]
      refine ⟨by simp, ?_, by simp⟩
      show q.toNat ≤ d.len
      omega

/-- **Every call is safe**: for every buffer, every in-range cursor and every operation (with any
    arguments, any nested-unmarshaler behaviour), the call does not panic, leaves the cursor within
    `[0, len]`, does not touch the buffer, and requests at most `2·len + 1` cells. -/
theorem step_safe (d : Dec) (hi : d.Inv) (op : DecOp) : StepSafe d (d.step op) := by
  have triv : StepSafe d (d, .err, 0) := ⟨by simp, hi, rfl, by simp⟩
  cases op with
  | tag =>
    simp only [Dec.step]
    by_cases h : d.off ≥ d.len
    · simp only [h, if_true]; exact triv
    · simp only [h, if_false, sliceFrom_ok hi]
      have hv := decodeVarint_ok (d.p.drop d.off)
      cases hel : decodeVarint (d.p.drop d.off) with
      | err => exact triv
      | panic => exact absurd hel hv.1
      | ok r =>
        obtain ⟨v, n⟩ := r
        have hn := hv.2 v n hel
        simp only [List.length_drop] at hn
        dsimp only
        split
        · exact triv
        · exact ⟨by simp, by unfold Dec.Inv Dec.len at *; show d.off + n ≤ d.p.length; omega, rfl, by simp⟩
  | bool => exact of_scalar d hi _ _ elBool_ok
  | bytes =>
    have := bytesOp_safe d hi
    exact ⟨this.1, this.2.1, this.2.2.1, by simp [Dec.step, withAlloc]⟩
  | string =>
    have := bytesOp_safe d hi
    simp only [Dec.step]
    by_cases h : d.off ≥ d.len
    · simp only [h, if_true]; exact triv
    · simp only [h, if_false]
      generalize hb : d.bytesOp = r at this
      obtain ⟨d', o⟩ := r
      cases o with
      | ok it =>
        cases it with
        | bytes b =>
          have hl := this.2.2.2 b rfl
          refine ⟨by simp, this.2.1, this.2.2.1, ?_⟩
          dsimp only; split <;> omega
        | _ => exact ⟨by simp, this.2.1, this.2.2.1, by simp⟩
      | err => exact ⟨by simp, this.2.1, this.2.2.1, by simp⟩
      | errNested p => exact ⟨by simp, this.2.1, this.2.2.1, by simp⟩
      | panic => exact absurd rfl this.1
  | uint32 => exact of_scalar d hi _ _ elUint32_ok
  | uint64 => exact of_scalar d hi _ _ elVarint_ok
  | int32 => exact of_scalar d hi _ _ elInt32_ok
  | int64 => exact of_scalar d hi _ _ elInt64_ok
  | sint32 => exact of_scalar d hi _ _ elSint32_ok
  | sint64 => exact of_scalar d hi _ _ elSint64_ok
  | fixed32 => exact of_scalar d hi _ _ elFixed32_ok
  | fixed64 => exact of_scalar d hi _ _ elFixed64_ok
  | float32 => exact of_scalar d hi _ _ elFloat32_ok
  | float64 => exact of_scalar d hi _ _ elFloat64_ok
  | packedBool => exact packed_safe d hi _ _ none (by simp) elBool_ok
  | packedInt32 => exact packed_safe d hi _ _ none (by simp) elInt32_ok
  | packedInt64 => exact packed_safe d hi _ _ none (by simp) elInt64_ok
  | packedUint32 => exact packed_safe d hi _ _ none (by simp) elUint32_ok
  | packedUint64 => exact packed_safe d hi _ _ none (by simp) elVarint_ok
  | packedSint32 => exact packed_safe d hi _ _ none (by simp) elSint32_ok
  | packedSint64 => exact packed_safe d hi _ _ none (by simp) elSint64_ok
  | packedFixed32 => exact packed_safe d hi _ _ none (by simp) elFixed32_ok
  | packedFixed64 => exact packed_safe d hi _ _ none (by simp) elFixed64_ok
  | packedFloat32 => exact packed_safe d hi _ _ (some 4) (by simp) elFloat32_ok
  | packedFloat64 => exact packed_safe d hi _ _ none (by simp) elFloat64_ok
  | nested succeeds =>
    have := lenPrefix_safe d hi
    simp only [Dec.step]
    cases h : d.lenPrefix with
    | ok r =>
      obtain ⟨start, l⟩ := r
      have hb := this.2 start l h
      dsimp only
      split
      · exact ⟨by simp, hb.2, rfl, by simp⟩
      · exact ⟨by simp, hi, rfl, by simp⟩
    | err => exact triv
    | panic => exact absurd h this.1
  | skip tag wt =>
    have := skip_safe d hi tag wt
    exact ⟨this.1, this.2.1, this.2.2, by simp [Dec.step, withAlloc]⟩
  | seek o w =>
    have := seek_safe d hi o w
    exact ⟨this.1, this.2.1, this.2.2, by simp [Dec.step, withAlloc]⟩
  | reset => exact ⟨by simp [Dec.step], by simp [Dec.step, Dec.Inv], rfl, by simp [Dec.step]⟩
  | setMode f => exact ⟨by simp [Dec.step], hi, rfl, by simp [Dec.step]⟩
  | more => exact ⟨by simp [Dec.step], hi, rfl, by simp [Dec.step]⟩
  | offset => exact ⟨by simp [Dec.step], hi, rfl, by simp [Dec.step]⟩
  | resync n =>
    simp only [Dec.step]
    split
    · rename_i h; exact ⟨by simp, h, rfl, by simp⟩
    · exact ⟨by simp, hi, rfl, by simp⟩

/-- outcomes of a run -/
def AllSafe (len : Nat) (rs : List (DecOut × Nat)) : Prop := ∀ r ∈ rs, r.1 ≠ .panic ∧ r.2 ≤ 2 * len + 1

/-- **Every history is safe**: for every byte string, every starting cursor in range and every
    sequence of decoder calls (including `resync` to any position after a failed call, mode switches,
    `Seek`, `Reset`), no call panics, the cursor is in `[0, len]` after every call, and every
    allocation request is linear in the input length. -/
theorem run_safe (ops : List DecOp) : ∀ (d : Dec), d.Inv →
    AllSafe d.len (d.run ops).2 ∧ (d.run ops).1.Inv ∧ (d.run ops).1.p = d.p := by
  induction ops with
  | nil => intro d hi; exact ⟨by simp [Dec.run, AllSafe], hi, rfl⟩
  | cons op ops ih =>
    intro d hi
    have hs := step_safe d hi op
    simp only [Dec.run]
    generalize hr : d.step op = r at hs
    obtain ⟨d1, o, a⟩ := r
    have hlen : d1.len = d.len := by unfold Dec.len; rw [hs.sameBuf]
    have := ih d1 hs.inv
    rw [hlen] at this
    refine ⟨?_, this.2.1, this.2.2.trans hs.sameBuf⟩
    intro r hr'
    simp at hr'
    rcases hr' with rfl | hr'
    · exact ⟨hs.noPanic, hs.alloc⟩
    · exact this.1 r hr'

/-- the decoder as created by `NewDecoder` satisfies the invariant -/
theorem new_inv (p : Bytes) : (Dec.new p).Inv := by simp [Dec.new, Dec.Inv]

/-! ## non-vacuity: a concrete malformed input on which calls fail without panicking -/
example : ((Dec.new [0x0a, 0xff, 0xff, 0xff, 0xff, 0x0f]).run [.tag, .packedFloat32]).2.map (·.1)
    = [.ok (.tag 1 2), .err] := by decide

end Csproto.C03
