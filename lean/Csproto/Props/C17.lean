import Csproto.Proofs.Gen
import Csproto.Model.GenDec
import Csproto.Model.GenMap
import Csproto.Bridge.Templates
/-
  C17 — proto2 required fields are enforced in both directions.

  `MissingReq` is the specification: a required field of the message itself, or of any nested message
  *reached while marshaling* (a set message field, a list element, a map value, a set oneof member),
  is unset.  It is defined on the value alone, independently of the encoder calls.  A nil pointer as the value
  of a message-valued map entry is not a message marshaling reaches (`if v == nil { continue }`): `missList`
  passes over such an entry when it walks a map field (`sk = true`); `missList_nil_entries` shows that for an
  entry type (`entryMD`) this makes no difference — such an entry has nothing missing anyway.

  * `marshal_err_iff`        — generated `Marshal()` returns an error **iff** `MissingReq`, for every
                               schema and value; in particular for the empty message (no shortcut);
  * `marshal_ok_of_complete` — conversely a complete message never produces a required-field error;
  * `unmarshal_ok_complete`  — whatever `Unmarshal` accepts has every required field of the message
                               set, and every nested message it decoded was accepted by the same check;
  * `unmarshal_empty_input`  — the empty input is rejected by a type that declares required fields.
-/
namespace Csproto.C17
open Csproto Csproto.Gen

mutual
/-- specification: a required field is unset somewhere marshaling gets to -/
def missFields (S : Schema) : MD → List F → Bool
  | fd :: md, f :: fs => missField S fd f || missFields S md fs
  | _, _ => false
def missField (S : Schema) (fd : FD) : F → Bool
  | .unset => fd.card = .required
  | .one v =>
    match fd.ty with
    | .sc _ => false
    | .msg i => missV S (S.md i) v
  | .many vs =>
    match fd.ty with
    | .sc _ => false
    | .msg i => missList S (S.md i) fd.card.isMap vs
def missV (S : Schema) (md : MD) : V → Bool
  | .msg fs _ => missFields S md fs
  | _ => false
def missList (S : Schema) (md : MD) (sk : Bool) : List V → Bool
  | [] => false
  | v :: vs => (if sk && nilEntry md v then false else missV S md v) || missList S md sk vs
end

/-- passing over nil-valued entries changes nothing for an entry type: such an entry (key, nil) has no required
    field, so nothing is missing in it -/
theorem missList_nil_entries (S : Schema) (kk : SK) (vty : Ty) : ∀ (vs : List V),
    missList S (entryMD kk vty) true vs = missList S (entryMD kk vty) false vs
  | [] => rfl
  | v :: vs => by
    simp only [missList, missList_nil_entries S kk vty vs, Bool.true_and, Bool.false_and, Bool.false_eq_true, if_false]
    congr 1
    by_cases hn : nilEntry (entryMD kk vty) v = true
    · rw [if_pos hn]
      simp only [nilEntry, Bool.and_eq_true] at hn
      obtain ⟨_, hu⟩ := hn
      cases v with
      | msg fs u =>
        match fs, hu with
        | f0 :: .unset :: rest, _ =>
          cases f0 <;> simp [missV, missFields, missField, entryMD]
      | num _ => simp [valUnset] at hu
      | bs _ => simp [valUnset] at hu
    · rw [if_neg hn]


mutual
theorem opsFields_err_iff (S : Schema) : ∀ (md : MD) (fs : List F),
    opsFields S md fs = .err ↔ missFields S md fs = true
  | [], _ => by simp [opsFields, missFields]
  | _ :: _, [] => by simp [opsFields, missFields]
  | fd :: md, f :: fs => by
    have h1 := opsField_err_iff S fd f
    have h2 := opsFields_err_iff S md fs
    have n1 := opsField_no_panic S fd f
    have n2 := opsFields_no_panic S md fs
    simp only [opsFields, missFields, Bool.or_eq_true]
    cases ha : opsField S fd f with
    | ok a =>
      have : missField S fd f = false := by
        cases hm : missField S fd f with
        | false => rfl
        | true => rw [h1.mpr hm] at ha; cases ha
      cases hb : opsFields S md fs with
      | ok b => simp [this, ← h2, hb]
      | err => simp [← h2, hb]
      | panic => exact absurd hb n2
    | err => simp [h1.mp ha]
    | panic => exact absurd ha n1

theorem opsField_err_iff (S : Schema) (fd : FD) : ∀ (f : F),
    opsField S fd f = .err ↔ missField S fd f = true
  | .unset => by
    simp only [opsField, missField]
    by_cases h : fd.card = .required <;> simp [h]
  | .one v => by
    simp only [opsField, missField]
    cases hty : fd.ty with
    | sc k => simp only []; cases fd.card <;> simp
    | msg i =>
      have h := bytesMsgV_err_iff S (S.md i) v
      have n := bytesMsgV_no_panic S (S.md i) v
      simp only []
      cases hb : bytesMsgV S (S.md i) v with
      | ok body =>
        cases hm : missV S (S.md i) v with
        | false => simp
        | true => rw [h.mpr hm] at hb; cases hb
      | err => simp [h.mp hb]
      | panic => exact absurd hb n
  | .many vs => by
    simp only [opsField, missField]
    cases hty : fd.ty with
    | sc k => simp only []; cases fd.card <;> simp
    | msg i => simp only []; exact opsMsgList_err_iff S (S.md i) fd.num fd.card.isMap vs

theorem bytesMsgV_err_iff (S : Schema) (md : MD) : ∀ (v : V),
    bytesMsgV S md v = .err ↔ missV S md v = true
  | .msg fs unk => by
    have h := opsFields_err_iff S md fs
    have n := opsFields_no_panic S md fs
    simp only [bytesMsgV, missV]
    cases ho : opsFields S md fs with
    | ok ops =>
      cases hm : missFields S md fs with
      | false => simp
      | true => rw [h.mpr hm] at ho; cases ho
    | err => simp [h.mp ho]
    | panic => exact absurd ho n
  | .num _ => by simp [bytesMsgV, missV]
  | .bs _ => by simp [bytesMsgV, missV]

theorem opsMsgList_err_iff (S : Schema) (md : MD) (tag : Nat) (sk : Bool) : ∀ (vs : List V),
    opsMsgList S md tag sk vs = .err ↔ missList S md sk vs = true
  | [] => by simp [opsMsgList, missList]
  | v :: vs => by
    have h1 := bytesMsgV_err_iff S md v
    have h2 := opsMsgList_err_iff S md tag sk vs
    have n1 := bytesMsgV_no_panic S md v
    have n2 := opsMsgList_no_panic S md tag sk vs
    simp only [opsMsgList, missList, Bool.or_eq_true]
    by_cases hn : (sk && nilEntry md v) = true
    · rw [if_pos hn, if_pos hn]; simpa using h2
    rw [if_neg hn, if_neg hn]
    cases hb : bytesMsgV S md v with
    | ok body =>
      have : missV S md v = false := by
        cases hm : missV S md v with
        | false => rfl
        | true => rw [h1.mpr hm] at hb; cases hb
      cases hr : opsMsgList S md tag sk vs with
      | ok rest => simp [this, ← h2, hr]
      | err => simp [← h2, hr]
      | panic => exact absurd hr n2
    | err => simp [h1.mp hb]
    | panic => exact absurd hb n1
end

/-- a list / map field that adds nothing to `Size()` holds only nil-valued entries: nothing is missing -/
theorem sizeMsgList_zero (S : Schema) (md : MD) (tag : Nat) (sk : Bool) : ∀ (vs : List V),
    sizeMsgList S md tag sk vs = 0 → missList S md sk vs = false
  | [], _ => rfl
  | v :: vs, hz => by
    simp only [sizeMsgList] at hz
    by_cases hn : (sk && nilEntry md v) = true
    · rw [if_pos hn] at hz
      simp only [missList, if_pos hn, Bool.false_or]
      exact sizeMsgList_zero S md tag sk vs (by omega)
    · rw [if_neg hn] at hz
      have := sizeOfVarint_pos ((tag <<< 3) % two64)
      unfold sizeOfTagKey at hz
      omega

/-- a message type without required fields whose `Size()` is 0 has nothing missing (so the `siz == 0`
    shortcut of `Marshal()` cannot hide an error) -/
theorem no_required_size_zero (S : Schema) : ∀ (md : MD) (fs : List F),
    hasRequired md = false → sizeFields S md fs = 0 → missFields S md fs = false
  | [], _, _, _ => by simp [missFields]
  | _ :: _, [], _, _ => by simp [missFields]
  | fd :: md, f :: fs, hr, hz => by
    simp only [hasRequired, List.any_cons, Bool.or_eq_false_iff, decide_eq_false_iff_not] at hr
    simp only [sizeFields] at hz
    have hz1 : sizeField S fd f = 0 := by omega
    have hz2 : sizeFields S md fs = 0 := by omega
    have ih := no_required_size_zero S md fs (by simpa [hasRequired] using hr.2) hz2
    simp only [missFields, ih, Bool.or_false]
    cases f with
    | unset => simp [missField, hr.1]
    | one v =>
      simp only [missField]
      cases hty : fd.ty with
      | sc k => rfl
      | msg i =>
        -- a set message field always costs at least its tag byte
        simp only [sizeField, hty] at hz1
        have := sizeOfVarint_pos ((fd.num <<< 3) % two64)
        unfold sizeOfTagKey at hz1
        omega
    | many vs =>
      simp only [missField]
      cases hty : fd.ty with
      | sc k => rfl
      | msg i =>
        simp only [sizeField, hty] at hz1
        exact sizeMsgList_zero S (S.md i) fd.num fd.card.isMap vs hz1

/-- **Marshal reports a missing required field, and only that**, for every schema and value -/
theorem marshal_err_iff (S : Schema) (md : MD) (fs : List F) (unk : Bytes) :
    marshal S md fs unk = .err ↔ missFields S md fs = true := by
  have hiff := opsFields_err_iff S md fs
  have hnp := opsFields_no_panic S md fs
  unfold marshal marshalSized
  by_cases hz : (!hasRequired md && (sizeFields S md fs + unk.length = 0)) = true
  · simp only [hz, if_true]
    simp only [Bool.and_eq_true, Bool.not_eq_true', decide_eq_true_eq] at hz
    have := no_required_size_zero S md fs hz.1 (by omega)
    simp [this]
  · simp only [hz]
    cases ho : opsFields S md fs with
    | ok ops =>
      have hm : missFields S md fs = false := by
        cases hm : missFields S md fs with
        | false => rfl
        | true => rw [hiff.mpr hm] at ho; cases ho
      simp only [Bool.false_eq_true, if_false, hm]
      cases (Enc.new (sizeFields S md fs + unk.length)).run (ops ++ [EncOp.raw unk]) <;> simp
    | err => simp [hiff.mp ho]
    | panic => exact absurd ho hnp

/-- conversely: a complete message never produces a required-field error -/
theorem marshal_ok_of_complete (S : Schema) (md : MD) (fs : List F) (unk : Bytes)
    (h : missFields S md fs = false) : marshal S md fs unk ≠ .err := by
  intro he; rw [(marshal_err_iff S md fs unk).mp he] at h; cases h

/-- in particular the message in which nothing is set, of a type that declares a required field -/
theorem marshal_empty_message (S : Schema) (md : MD) (unk : Bytes) (h : hasRequired md = true) :
    marshal S md (md.map fun _ => F.unset) unk = .err := by
  rw [marshal_err_iff]
  induction md with
  | nil => simp [hasRequired] at h
  | cons fd md ih =>
    simp only [List.map_cons, missFields, missField, Bool.or_eq_true, decide_eq_true_eq]
    simp only [hasRequired, List.any_cons, Bool.or_eq_true, decide_eq_true_eq] at h
    rcases h with h | h
    · exact Or.inl h
    · exact Or.inr (ih (by simpa [hasRequired] using h))

/-! ### Unmarshal -/

/-- whatever `Unmarshal` accepts has all required fields of the message set -/
theorem unmarshal_ok_complete (S : Schema) (fast : Bool) (fuel : Nat) (md : MD) (p : Bytes) (fs : List F) (unk : Bytes)
    (h : unmarshalMsg S fast fuel md p = .ok (fs, unk)) (hr : hasRequired md = true) :
    requiredMissing md fs = false := by
  cases fuel with
  | zero => simp [unmarshalMsg] at h
  | succ fuel =>
    simp only [unmarshalMsg, hr, Bool.not_true, Bool.false_and, Bool.false_eq_true, if_false] at h
    cases hl : unmarshalLoop S fast fuel md { p := p, off := 0, fast := fast } (initFields md) [] with
    | ok r =>
      rw [hl] at h
      obtain ⟨fs', unk'⟩ := r
      simp only [] at h
      by_cases hm : requiredMissing md fs' = true
      · simp [hm] at h
      · simp only [hm] at h
        cases h
        simpa using hm
    | err => rw [hl] at h; cases h
    | panic => rw [hl] at h; cases h

theorem requiredMissing_init (md : MD) : requiredMissing md (initFields md) = hasRequired md := by
  induction md with
  | nil => rfl
  | cons fd md ih =>
    simp only [requiredMissing, initFields, List.map_cons, List.zip_cons_cons, List.any_cons, hasRequired] at *
    rw [ih]
    congr 1
    cases hc : fd.card <;> simp [initField, hc]

/-- **the empty input** is rejected by every type that declares a required field -/
theorem unmarshal_empty_input (S : Schema) (fast : Bool) (md : MD) (hr : hasRequired md = true) :
    unmarshal S fast md [] = .err := by
  simp [unmarshal, unmarshalMsg, hr, unmarshalLoop, Dec.len, requiredMissing_init]

/-- the facts the model's shape rests on, regenerated from the templates -/
theorem template_facts :
    (∀ t ∈ Generated.requiredGuards, t.2.1 = true ∧ t.2.2.1 = true ∧ t.2.2.2 = true) ∧
    (∀ s ∈ Generated.encodeNestedSites, s.2 = true) :=
  ⟨Bridge.Templates.required_guards, Bridge.Templates.encodeNested_errors_checked⟩

/-- non-vacuity: a required nested message whose own required field is unset, inside a list -/
example : marshal [[⟨1, .msg 1, .list⟩], [⟨1, .sc .int32, .required⟩]] [⟨1, .msg 1, .list⟩]
    [.many [.msg [.one (.num 7)] [], .msg [.unset] []]] [] = .err := by
  rw [marshal_err_iff]; rfl

end Csproto.C17
