import Csproto.Props.C02Source
/-
  C02, the Skip clause in full, for the SOURCE: `skip_walk` — a walk with the translated `DecodeTag` / `Skip` over any number
  of well-formed fields returns exactly the fields (concatenating the skipped slices reproduces the input) and ends on the
  byte after the last field.  `skip_step` is one step of the walk with the facts about the decoder's fields the next step needs.
-/
set_option linter.unusedSimpArgs false
set_option linter.unusedVariables false
namespace Csproto.C02.Source
open Csproto Csproto.Generated.WireFuncs Csproto.Bridge Csproto.Bridge.WireFuncs Csproto.Bridge.DecoderFuncs Csproto.Bridge.SkipFuncs

/-- a well-formed field: number, wire type and a payload a conforming writer emits for that wire type -/
structure Fld where
  tag : BitVec 64
  wt : BitVec 64
  payload : Bytes

def Fld.WF (f : Fld) : Prop := 1 ≤ f.tag.toNat ∧ f.tag.toNat ≤ 536870911 ∧ WFPayload f.wt.toNat f.payload
def Fld.bytes (f : Fld) : Bytes := encTag f.tag.toNat f.wt.toNat ++ f.payload

/-- one step of a client's skip walk on the translated source: `DecodeTag()` then `Skip(tag, wt)`; returns the skipped slice and
    the decoder's fields afterwards -/
def skipStep (fuel : Nat) (p : Bytes) (off mode ks ke : BitVec 64) : Option (Bytes × BitVec 64 × BitVec 64 × BitVec 64) :=
  match Decoder_DecodeTag fuel p off mode ks ke with
  | .ret (t, w, .nil) sd =>
    match Decoder_Skip fuel sd.d_p sd.d_offset sd.d_mode sd.d_keyStart sd.d_keyEnd t w with
    | .ret (b, .nil) s2 => some (b, s2.d_offset, s2.d_keyStart, s2.d_keyEnd)
    | _ => none
  | _ => none

/-- the walk over `n` fields -/
def skipWalk (fuel : Nat) (p : Bytes) (mode : BitVec 64) : Nat → BitVec 64 → BitVec 64 → BitVec 64 → Option (List Bytes × BitVec 64)
  | 0, off, _, _ => some ([], off)
  | n + 1, off, ks, ke =>
    match skipStep fuel p off mode ks ke with
    | some (b, off', ks', ke') =>
      match skipWalk fuel p mode n off' ks' ke' with
      | some (bs, o) => some (b :: bs, o)
      | none => none
    | none => none

theorem skip_step (fuel : Nat) (hf : 11 ≤ fuel) (pre post : Bytes) (f : Fld) (off mode ks ke : BitVec 64)
    (hlen : (pre ++ f.bytes ++ post).length < 2 ^ 62) (hoff : off.toNat = pre.length)
    (hks : ks.toNat ≤ (pre ++ f.bytes ++ post).length) (hke : ke.toNat ≤ (pre ++ f.bytes ++ post).length) (hwf : f.WF) :
    ∃ off' ks' ke', skipStep fuel (pre ++ f.bytes ++ post) off mode ks ke = some (f.bytes, off', ks', ke') ∧
      off'.toNat = pre.length + f.bytes.length ∧ ks'.toNat ≤ (pre ++ f.bytes ++ post).length ∧ ke'.toNat ≤ (pre ++ f.bytes ++ post).length := by
  obtain ⟨ht1, ht, hw⟩ := hwf
  have htm : f.tag.toNat ≤ maxTagValue := ht
  have hwt := hw.wt_lt
  unfold Fld.bytes at *
  generalize hP : pre ++ (encTag f.tag.toNat f.wt.toNat ++ f.payload) ++ post = P at *
  have hP' : P = pre ++ (encTag f.tag.toNat f.wt.toNat ++ (f.payload ++ post)) := by rw [← hP]; simp
  have hPl : pre.length + (encTag f.tag.toNat f.wt.toNat).length + f.payload.length ≤ P.length := by rw [hP']; simp; omega
  have hp63 : P.length < 2 ^ 63 := by omega
  have hat : (decOf P off ks ke (mode != 0#64)).At pre (encTag f.tag.toNat f.wt.toNat ++ (f.payload ++ post)) :=
    ⟨by simp [decOf, hP'], by simp [decOf, hoff]⟩
  have htag := Dec.tag_at hat ht1 htm hwt
  obtain ⟨t, w, e, sd, hdt, hdp, hdm, hmatch⟩ := DecodeTag_refines fuel hf P off mode ks ke (mode != 0#64) hp63 (by omega)
  rw [htag] at hmatch
  simp only [Dec.afterTag_off, Dec.afterTag_ks, Dec.afterTag_ke] at hmatch
  obtain ⟨he, htn, hwn, hso, hsks, hske⟩ := hmatch
  subst he
  have htq : f.tag = t := (BitVec.eq_of_toNat_eq htn).symm
  have hwq : f.wt = w := (BitVec.eq_of_toNat_eq hwn).symm
  have hdoff : (decOf P off ks ke (mode != 0#64)).off = pre.length := by simp [decOf, hoff]
  rw [hdoff] at hso hsks hske
  have hd2 : decOf sd.d_p sd.d_offset sd.d_keyStart sd.d_keyEnd (sd.d_mode != 0#64) =
      (decOf P off ks ke (mode != 0#64)).afterTag (encTag f.tag.toNat f.wt.toNat).length := by
    simp only [decOf, Dec.afterTag, hdp, hdm, hso, hsks, hske, hoff]
  have hsk := Dec.skip_at (d := decOf sd.d_p sd.d_offset sd.d_keyStart sd.d_keyEnd (sd.d_mode != 0#64)) (pre := pre) (post := post)
    ht1 htm hw (by rw [hd2]; exact hat.afterTag) (by rw [hd2]; intro _; simp [decOf, hoff])
  obtain ⟨b, e2, s2, hsr, hs2p, hs2m, hs2ks, hs2ke, hm2⟩ := Skip_refines fuel hf sd.d_p sd.d_offset sd.d_mode sd.d_keyStart sd.d_keyEnd f.tag f.wt
    (by rw [hdp]; exact hlen) (by rw [hdp, hso]; omega) (by rw [hdp, hsks]; omega) (by rw [hdp, hske]; omega)
  simp only [Dec.step, withAlloc, hsk] at hm2
  obtain ⟨he2, hb, ho2⟩ := hm2
  subst he2; subst hb
  refine ⟨s2.d_offset, s2.d_keyStart, s2.d_keyEnd, ?_, ?_, ?_, ?_⟩
  · unfold skipStep
    rw [hdt]
    simp only
    rw [← htq, ← hwq, hsr]
  · rw [ho2]; simp only [decOf, hso, List.length_append]; omega
  · rw [hs2ks, hsks]; omega
  · rw [hs2ke, hske]; omega

/-- **The Skip clause of C02 in full, for the source**: a client that walks a buffer `pre ++ field₁ ++ … ++ fieldₙ ++ post` of
    well-formed fields with the source's `DecodeTag()` / `Skip(tag, wt)` gets back exactly `field₁, …, fieldₙ` — so
    concatenating the skipped slices reproduces the input between `pre` and `post` — and ends with the cursor on `post`;
    any number of fields, any mode, whatever key span the decoder remembered at the start. -/
theorem skip_walk (fuel : Nat) (hf : 11 ≤ fuel) (mode : BitVec 64) : ∀ (fs : List Fld) (pre post : Bytes) (off ks ke : BitVec 64),
    (pre ++ (fs.map Fld.bytes).flatten ++ post).length < 2 ^ 62 → off.toNat = pre.length →
    ks.toNat ≤ (pre ++ (fs.map Fld.bytes).flatten ++ post).length → ke.toNat ≤ (pre ++ (fs.map Fld.bytes).flatten ++ post).length →
    (∀ f ∈ fs, f.WF) →
    ∃ o, skipWalk fuel (pre ++ (fs.map Fld.bytes).flatten ++ post) mode fs.length off ks ke = some (fs.map Fld.bytes, o) ∧
      o.toNat = pre.length + (fs.map Fld.bytes).flatten.length := by
  intro fs
  induction fs with
  | nil => intro pre post off ks ke _ hoff _ _ _; exact ⟨off, rfl, by simp [hoff]⟩
  | cons f r ih =>
    intro pre post off ks ke hlen hoff hks hke hwf
    have hbuf : pre ++ ((f :: r).map Fld.bytes).flatten ++ post = pre ++ f.bytes ++ ((r.map Fld.bytes).flatten ++ post) := by simp
    have hbuf2 : pre ++ f.bytes ++ ((r.map Fld.bytes).flatten ++ post) = (pre ++ f.bytes) ++ (r.map Fld.bytes).flatten ++ post := by simp
    rw [hbuf] at hlen hks hke ⊢
    obtain ⟨off', ks', ke', hstep, ho', hks', hke'⟩ := skip_step fuel hf pre ((r.map Fld.bytes).flatten ++ post) f off mode ks ke hlen hoff hks hke
      (hwf f (by simp))
    rw [hbuf2] at hlen hks' hke' hstep ⊢
    obtain ⟨o, hw, ho⟩ := ih (pre ++ f.bytes) post off' ks' ke' hlen (by rw [ho']; simp) hks' hke' (fun g hg => hwf g (by simp [hg]))
    refine ⟨o, ?_, ?_⟩
    · simp only [List.length_cons, skipWalk, hstep, hw, List.map_cons]
    · rw [ho]; simp; omega

end Csproto.C02.Source
