import Csproto.Props.C01
import Csproto.Proofs.Spec
import Csproto.Proofs.Skip
/-
  C02 — Encoder/decoder conform to the canonical protobuf wire format; Skip is exact.

  `Spec.*` is the independent specification (Spec/WireSpec.lean): canonical varints are defined by
  a predicate on byte strings (continuation bits, minimality, denoted value), fixed-width payloads by
  their length and little-endian value, keys by `number·8 + wire type`.
-/
namespace Csproto.C02
open Csproto Csproto.C01 Csproto.Spec

/-! ## the specification of a field's canonical encoding (relational, independent of the encoder) -/

/-- a packed body is the concatenation of its elements' encodings -/
def PackedSpec {α} (el : α → Bytes → Prop) : List α → Bytes → Prop
  | [], b => b = []
  | v :: vs, b => ∃ x y, el v x ∧ PackedSpec el vs y ∧ b = x ++ y

def LenPrefixed (body p : Bytes) : Prop := ∃ l, CanonVarint l body.length ∧ p = l ++ body

def Fixed (w n : Nat) (p : Bytes) : Prop := p.length = w ∧ leValue p = n

/-- canonical payload of a field value -/
def SpecPayload : FieldVal → Bytes → Prop
  | .bool b, p => p = [if b then 1 else 0]
  | .int32 i, p | .int64 i, p => CanonVarint p (twos64 i)     -- negatives: 10-byte sign-extended
  | .uint32 n, p | .uint64 n, p => CanonVarint p n
  | .sint32 i, p | .sint64 i, p => CanonVarint p (zz i)
  | .fixed32 n, p | .float32 n, p => Fixed 4 n p
  | .fixed64 n, p | .float64 n, p => Fixed 8 n p
  | .str b, p | .bytes b, p => LenPrefixed b p
  | .pBool vs, p => ∃ body, PackedSpec (fun b x => x = [if b then 1 else 0]) vs body ∧ LenPrefixed body p
  | .pInt32 vs, p | .pInt64 vs, p => ∃ body, PackedSpec (fun i x => CanonVarint x (twos64 i)) vs body ∧ LenPrefixed body p
  | .pUint32 vs, p | .pUint64 vs, p => ∃ body, PackedSpec (fun n x => CanonVarint x n) vs body ∧ LenPrefixed body p
  | .pSint32 vs, p | .pSint64 vs, p => ∃ body, PackedSpec (fun i x => CanonVarint x (zz i)) vs body ∧ LenPrefixed body p
  | .pFixed32 vs, p | .pFloat32 vs, p => ∃ body, PackedSpec (fun n x => Fixed 4 n x) vs body ∧ LenPrefixed body p
  | .pFixed64 vs, p | .pFloat64 vs, p => ∃ body, PackedSpec (fun n x => Fixed 8 n x) vs body ∧ LenPrefixed body p

/-- wire type by the encoding document: 0 varint, 1 64-bit, 2 length-delimited, 5 32-bit -/
def specWt : FieldVal → Nat
  | .bool _ | .int32 _ | .int64 _ | .uint32 _ | .uint64 _ | .sint32 _ | .sint64 _ => 0
  | .fixed32 _ | .float32 _ => 5
  | .fixed64 _ | .float64 _ => 1
  | _ => 2

/-- **canonical wire encoding of a field** -/
def SpecField (fv : FieldVal) (tag : Nat) (bs : Bytes) : Prop :=
  ∃ k p, CanonVarint k (key tag (specWt fv)) ∧ SpecPayload fv p ∧ bs = k ++ p

/-! ## 1. the encoder emits the canonical encoding -/

theorem packedSpec_map {α} (el : α → Bytes → Prop) (enc : α → Bytes) (vs : List α)
    (h : ∀ v ∈ vs, el v (enc v)) : PackedSpec el vs ((vs.map enc).flatten) := by
  induction vs with
  | nil => simp [PackedSpec]
  | cons v vs ih =>
    exact ⟨enc v, (vs.map enc).flatten, h v (by simp), ih (fun w hw => h w (by simp [hw])), by simp⟩

theorem lenPrefixed_enc (body : Bytes) : LenPrefixed body (encVarint body.length ++ body) :=
  ⟨_, canon_encVarint _, rfl⟩

theorem fixed_enc (w n : Nat) (h : n < 256 ^ w) : Fixed w n (leBytes w n) :=
  ⟨leBytes_length w n, by rw [leValue_leBytes, Nat.mod_eq_of_lt h]⟩

theorem specWt_eq (fv : FieldVal) : specWt fv = fv.wt := by cases fv <;> rfl

theorem payload_meets_spec (fv : FieldVal) (tag : Nat) (hv : fv.Valid) : SpecPayload fv (fv.payload tag) := by
  have hpay : ∀ x, (fv.encOp tag).wire = encTag tag fv.wt ++ x → fv.payload tag = x := by
    intro x hx; unfold FieldVal.payload; rw [hx]; simp
  cases fv with
  | bool b => rw [hpay [boolByte b] rfl]; simp [SpecPayload, boolByte]
  | int32 i => rw [hpay (encVarint (toU64 i)) rfl]; show CanonVarint _ _; rw [twos64_eq_toU64 i (InI32.toI64 hv)]; exact canon_encVarint _
  | int64 i => rw [hpay (encVarint (toU64 i)) rfl]; show CanonVarint _ _; rw [twos64_eq_toU64 i hv]; exact canon_encVarint _
  | uint32 n => rw [hpay (encVarint n) rfl]; exact canon_encVarint _
  | uint64 n => rw [hpay (encVarint n) rfl]; exact canon_encVarint _
  | sint32 i => rw [hpay (encZigZag32 i) rfl]; exact canon_encVarint _
  | sint64 i => rw [hpay (encZigZag64 i) rfl]; exact canon_encVarint _
  | fixed32 n => rw [hpay (encFixed32 n) rfl]; exact fixed_enc 4 n (by unfold FieldVal.Valid two32 at hv; omega)
  | float32 n => rw [hpay (encFixed32 n) rfl]; exact fixed_enc 4 n (by unfold FieldVal.Valid two32 at hv; omega)
  | fixed64 n => rw [hpay (encFixed64 n) rfl]; exact fixed_enc 8 n (by unfold FieldVal.Valid two64 at hv; omega)
  | float64 n => rw [hpay (encFixed64 n) rfl]; exact fixed_enc 8 n (by unfold FieldVal.Valid two64 at hv; omega)
  | str b => rw [hpay (encVarint b.length ++ b) (by simp [FieldVal.encOp, EncOp.wire, FieldVal.wt])]; exact lenPrefixed_enc b
  | bytes b => rw [hpay (encVarint b.length ++ b) (by simp [FieldVal.encOp, EncOp.wire, FieldVal.wt])]; exact lenPrefixed_enc b
  | pBool vs =>
    have hne0 : vs ≠ [] := by unfold FieldVal.Valid at hv; exact hv.1
    rw [hpay (encVarint ((vs.map (fun b => [boolByte b])).flatten).length ++ (vs.map (fun b => [boolByte b])).flatten)
      (by simp [FieldVal.encOp, EncOp.wire, FieldVal.wt, hne0, map_singleton_flatten])]
    exact ⟨_, packedSpec_map _ _ vs (fun v _ => by simp [boolByte]), lenPrefixed_enc _⟩
  | pInt32 vs =>
    obtain ⟨hne0, hall, _⟩ : vs ≠ [] ∧ (∀ v ∈ vs, InI32 v) ∧ vs.length * 10 < two64 := by unfold FieldVal.Valid at hv; exact hv
    rw [hpay (encVarint ((vs.map (encVarint ∘ toU64)).flatten).length ++ (vs.map (encVarint ∘ toU64)).flatten)
      (by simp [FieldVal.encOp, EncOp.wire, FieldVal.wt, hne0, sumSizes_flatten sizeOfVarint encVarint sizeOfVarint_eq_length])]
    exact ⟨_, packedSpec_map _ _ vs (fun v hv => by
      show CanonVarint _ _; rw [twos64_eq_toU64 v (InI32.toI64 (hall v hv))]; exact canon_encVarint _), lenPrefixed_enc _⟩
  | pInt64 vs =>
    obtain ⟨hne0, hall, _⟩ : vs ≠ [] ∧ (∀ v ∈ vs, InI64 v) ∧ vs.length * 10 < two64 := by unfold FieldVal.Valid at hv; exact hv
    rw [hpay (encVarint ((vs.map (encVarint ∘ toU64)).flatten).length ++ (vs.map (encVarint ∘ toU64)).flatten)
      (by simp [FieldVal.encOp, EncOp.wire, FieldVal.wt, hne0, sumSizes_flatten sizeOfVarint encVarint sizeOfVarint_eq_length])]
    exact ⟨_, packedSpec_map _ _ vs (fun v hv => by
      show CanonVarint _ _; rw [twos64_eq_toU64 v (hall v hv)]; exact canon_encVarint _), lenPrefixed_enc _⟩
  | pUint32 vs =>
    have hne0 : vs ≠ [] := by unfold FieldVal.Valid at hv; exact hv.1
    rw [hpay (encVarint ((vs.map encVarint).flatten).length ++ (vs.map encVarint).flatten)
      (by simp [FieldVal.encOp, EncOp.wire, FieldVal.wt, hne0, sumSizes_flatten sizeOfVarint encVarint sizeOfVarint_eq_length])]
    exact ⟨_, packedSpec_map _ _ vs (fun v _ => canon_encVarint v), lenPrefixed_enc _⟩
  | pUint64 vs =>
    have hne0 : vs ≠ [] := by unfold FieldVal.Valid at hv; exact hv.1
    rw [hpay (encVarint ((vs.map encVarint).flatten).length ++ (vs.map encVarint).flatten)
      (by simp [FieldVal.encOp, EncOp.wire, FieldVal.wt, hne0, sumSizes_flatten sizeOfVarint encVarint sizeOfVarint_eq_length])]
    exact ⟨_, packedSpec_map _ _ vs (fun v _ => canon_encVarint v), lenPrefixed_enc _⟩
  | pSint32 vs =>
    have hne0 : vs ≠ [] := by unfold FieldVal.Valid at hv; exact hv.1
    rw [hpay (encVarint ((vs.map encZigZag32).flatten).length ++ (vs.map encZigZag32).flatten)
      (by simp [FieldVal.encOp, EncOp.wire, FieldVal.wt, hne0, sumSizes_flatten sizeOfZigZag encZigZag32 (fun i => (sizeOfZigZag_exact i).2)])]
    exact ⟨_, packedSpec_map _ _ vs (fun v _ => canon_encVarint _), lenPrefixed_enc _⟩
  | pSint64 vs =>
    have hne0 : vs ≠ [] := by unfold FieldVal.Valid at hv; exact hv.1
    rw [hpay (encVarint ((vs.map encZigZag64).flatten).length ++ (vs.map encZigZag64).flatten)
      (by simp [FieldVal.encOp, EncOp.wire, FieldVal.wt, hne0, sumSizes_flatten sizeOfZigZag encZigZag64 (fun i => (sizeOfZigZag_exact i).1)])]
    exact ⟨_, packedSpec_map _ _ vs (fun v _ => canon_encVarint _), lenPrefixed_enc _⟩
  | pFixed32 vs =>
    obtain ⟨hne0, hall, _⟩ : vs ≠ [] ∧ (∀ v ∈ vs, v < two32) ∧ vs.length * 10 < two64 := by unfold FieldVal.Valid at hv; exact hv
    rw [hpay (encVarint ((vs.map encFixed32).flatten).length ++ (vs.map encFixed32).flatten)
      (by simp [FieldVal.encOp, EncOp.wire, FieldVal.wt, hne0, flatten_const_length encFixed32 4 (fun v => by simp [encFixed32])])]
    exact ⟨_, packedSpec_map _ _ vs (fun v hv => fixed_enc 4 v (by have := hall v hv; unfold two32 at this; omega)), lenPrefixed_enc _⟩
  | pFloat32 vs =>
    obtain ⟨hne0, hall, _⟩ : vs ≠ [] ∧ (∀ v ∈ vs, v < two32) ∧ vs.length * 10 < two64 := by unfold FieldVal.Valid at hv; exact hv
    rw [hpay (encVarint ((vs.map encFixed32).flatten).length ++ (vs.map encFixed32).flatten)
      (by simp [FieldVal.encOp, EncOp.wire, FieldVal.wt, hne0, flatten_const_length encFixed32 4 (fun v => by simp [encFixed32])])]
    exact ⟨_, packedSpec_map _ _ vs (fun v hv => fixed_enc 4 v (by have := hall v hv; unfold two32 at this; omega)), lenPrefixed_enc _⟩
  | pFixed64 vs =>
    obtain ⟨hne0, hall, _⟩ : vs ≠ [] ∧ (∀ v ∈ vs, v < two64) ∧ vs.length * 10 < two64 := by unfold FieldVal.Valid at hv; exact hv
    rw [hpay (encVarint ((vs.map encFixed64).flatten).length ++ (vs.map encFixed64).flatten)
      (by simp [FieldVal.encOp, EncOp.wire, FieldVal.wt, hne0, flatten_const_length encFixed64 8 (fun v => by simp [encFixed64])])]
    exact ⟨_, packedSpec_map _ _ vs (fun v hv => fixed_enc 8 v (by have := hall v hv; unfold two64 at this; omega)), lenPrefixed_enc _⟩
  | pFloat64 vs =>
    obtain ⟨hne0, hall, _⟩ : vs ≠ [] ∧ (∀ v ∈ vs, v < two64) ∧ vs.length * 10 < two64 := by unfold FieldVal.Valid at hv; exact hv
    rw [hpay (encVarint ((vs.map encFixed64).flatten).length ++ (vs.map encFixed64).flatten)
      (by simp [FieldVal.encOp, EncOp.wire, FieldVal.wt, hne0, flatten_const_length encFixed64 8 (fun v => by simp [encFixed64])])]
    exact ⟨_, packedSpec_map _ _ vs (fun v hv => fixed_enc 8 v (by have := hall v hv; unfold two64 at this; omega)), lenPrefixed_enc _⟩

/-- **The bytes the encoder produces for a field are the canonical protobuf encoding of it.** -/
theorem encoder_canonical (fv : FieldVal) (tag : Nat) (ht : ValidTag tag) (hv : fv.Valid) :
    SpecField fv tag (fv.encOp tag).wire := by
  refine ⟨encTag tag fv.wt, fv.payload tag, ?_, payload_meets_spec fv tag hv, wire_split fv tag hv⟩
  unfold encTag
  rw [specWt_eq, key_eq_keyOf ht.2 (wt_lt fv)]
  exact canon_encVarint _


/-! ## 2. the specification determines the bytes, so the decoder handles *every* conforming encoding -/

theorem leValue_inj : ∀ (a b : Bytes), a.length = b.length → leValue a = leValue b → a = b
  | [], [], _, _ => rfl
  | [], _ :: _, h, _ => by simp at h
  | _ :: _, [], h, _ => by simp at h
  | x :: a, y :: b, hl, hv => by
    have hx := x.toNat_lt
    have hy := y.toNat_lt
    simp only [leValue] at hv
    have h1 : x.toNat = y.toNat := by omega
    have h2 : leValue a = leValue b := by omega
    rw [UInt8.toNat_inj.mp h1, leValue_inj a b (by simpa using hl) h2]

theorem fixed_unique {w n : Nat} {a b : Bytes} (ha : Fixed w n a) (hb : Fixed w n b) : a = b :=
  leValue_inj a b (ha.1.trans hb.1.symm) (ha.2.trans hb.2.symm)

theorem lenPrefixed_unique {body a b : Bytes} (ha : LenPrefixed body a) (hb : LenPrefixed body b) : a = b := by
  obtain ⟨l1, c1, e1⟩ := ha
  obtain ⟨l2, c2, e2⟩ := hb
  rw [e1, e2, canon_unique c1 c2]

theorem packedSpec_unique {α} {el : α → Bytes → Prop} (hel : ∀ v a b, el v a → el v b → a = b) :
    ∀ (vs : List α) (a b : Bytes), PackedSpec el vs a → PackedSpec el vs b → a = b
  | [], a, b, ha, hb => by simp [PackedSpec] at ha hb; rw [ha, hb]
  | v :: vs, a, b, ha, hb => by
    obtain ⟨x1, y1, e1, p1, r1⟩ := ha
    obtain ⟨x2, y2, e2, p2, r2⟩ := hb
    rw [r1, r2, hel v x1 x2 e1 e2, packedSpec_unique hel vs y1 y2 p1 p2]

theorem packed_payload_unique {α} {el : α → Bytes → Prop} (hel : ∀ v a b, el v a → el v b → a = b)
    (vs : List α) {a b : Bytes}
    (ha : ∃ body, PackedSpec el vs body ∧ LenPrefixed body a)
    (hb : ∃ body, PackedSpec el vs body ∧ LenPrefixed body b) : a = b := by
  obtain ⟨b1, p1, l1⟩ := ha
  obtain ⟨b2, p2, l2⟩ := hb
  have := packedSpec_unique hel vs b1 b2 p1 p2
  subst this
  exact lenPrefixed_unique l1 l2

theorem specPayload_unique (fv : FieldVal) (a b : Bytes) (ha : SpecPayload fv a) (hb : SpecPayload fv b) : a = b := by
  cases fv with
  | bool v => simp only [SpecPayload] at ha hb; rw [ha, hb]
  | int32 i => exact canon_unique ha hb
  | int64 i => exact canon_unique ha hb
  | uint32 n => exact canon_unique ha hb
  | uint64 n => exact canon_unique ha hb
  | sint32 i => exact canon_unique ha hb
  | sint64 i => exact canon_unique ha hb
  | fixed32 n => exact fixed_unique ha hb
  | float32 n => exact fixed_unique ha hb
  | fixed64 n => exact fixed_unique ha hb
  | float64 n => exact fixed_unique ha hb
  | str v => exact lenPrefixed_unique ha hb
  | bytes v => exact lenPrefixed_unique ha hb
  | pBool vs => exact packed_payload_unique (el := fun (b : Bool) (x : Bytes) => x = [if b then (1 : UInt8) else 0]) (fun _ a b h1 h2 => by rw [h1, h2]) vs ha hb
  | pInt32 vs => exact packed_payload_unique (el := fun i x => CanonVarint x (twos64 i)) (fun _ _ _ h1 h2 => canon_unique h1 h2) vs ha hb
  | pInt64 vs => exact packed_payload_unique (el := fun i x => CanonVarint x (twos64 i)) (fun _ _ _ h1 h2 => canon_unique h1 h2) vs ha hb
  | pUint32 vs => exact packed_payload_unique (el := fun n x => CanonVarint x n) (fun _ _ _ h1 h2 => canon_unique h1 h2) vs ha hb
  | pUint64 vs => exact packed_payload_unique (el := fun n x => CanonVarint x n) (fun _ _ _ h1 h2 => canon_unique h1 h2) vs ha hb
  | pSint32 vs => exact packed_payload_unique (el := fun i x => CanonVarint x (zz i)) (fun _ _ _ h1 h2 => canon_unique h1 h2) vs ha hb
  | pSint64 vs => exact packed_payload_unique (el := fun i x => CanonVarint x (zz i)) (fun _ _ _ h1 h2 => canon_unique h1 h2) vs ha hb
  | pFixed32 vs => exact packed_payload_unique (el := fun n x => Fixed 4 n x) (fun _ _ _ h1 h2 => fixed_unique h1 h2) vs ha hb
  | pFloat32 vs => exact packed_payload_unique (el := fun n x => Fixed 4 n x) (fun _ _ _ h1 h2 => fixed_unique h1 h2) vs ha hb
  | pFixed64 vs => exact packed_payload_unique (el := fun n x => Fixed 8 n x) (fun _ _ _ h1 h2 => fixed_unique h1 h2) vs ha hb
  | pFloat64 vs => exact packed_payload_unique (el := fun n x => Fixed 8 n x) (fun _ _ _ h1 h2 => fixed_unique h1 h2) vs ha hb

/-- the canonical encoding of a field is unique: any conforming writer emits the encoder's bytes -/
theorem specField_unique (fv : FieldVal) (tag : Nat) (a b : Bytes)
    (ha : SpecField fv tag a) (hb : SpecField fv tag b) : a = b := by
  obtain ⟨k1, p1, c1, s1, e1⟩ := ha
  obtain ⟨k2, p2, c2, s2, e2⟩ := hb
  rw [e1, e2, canon_unique c1 c2, specPayload_unique fv p1 p2 s1 s2]

/-- **The decoder returns the reference's value for every well-formed field encoding a conforming
    writer can emit** (10-byte sign-extended negatives and every valid field number included):
    wherever `bs` sits in the input, `DecodeTag` + `Decode<kind>` return the field and consume
    exactly `bs`. -/
theorem conforming_decode (fv : FieldVal) (tag : Nat) (ht : ValidTag tag) (hv : fv.Valid) (bs : Bytes)
    (hc : SpecField fv tag bs) (d : Dec) (pre post : Bytes) (h : d.At pre (bs ++ post)) :
    ∃ d1 d2 a, d.step .tag = (d1, .ok (.tag tag (specWt fv)), 0) ∧
      d1.step fv.decOp = (d2, .ok fv.item, a) ∧ d2.off = pre.length + bs.length := by
  have : bs = (fv.encOp tag).wire := specField_unique fv tag _ _ hc (encoder_canonical fv tag ht hv)
  subst this
  obtain ⟨d1, d2, a, h1, h2, h3, _, _⟩ := roundtrip fv tag ht hv d pre post h
  exact ⟨d1, d2, a, by rw [specWt_eq]; exact h1, h2, h3⟩

/-! ## 3. Skip returns exactly the field's raw encoding and lands on the next field -/

theorem canon_eq_enc {p : Bytes} {v : Nat} (h : CanonVarint p v) : p = encVarint v :=
  canon_unique h (canon_encVarint v)

theorem twos64_lt (i : Int) (h : InI64 i) : twos64 i < two64 := by
  rw [twos64_eq_toU64 i h]; exact toU64_lt i

theorem lenPrefixed_wf {body p : Bytes} (h : LenPrefixed body p) (hl : p.length ≤ maxFieldLen) : WFPayload wtLen p := by
  obtain ⟨l, c, e⟩ := h
  rw [e, canon_eq_enc c]
  exact WFPayload.len body (by rw [e] at hl; simp at hl; omega)

/-- every payload the encoder writes is a well-formed payload of its wire type (fields above 2 GiB
    cannot be skipped — `Skip` reports `ErrLenOverflow` — hence the size hypothesis) -/
theorem payload_wf (fv : FieldVal) (tag : Nat) (hv : fv.Valid) (hl : (fv.payload tag).length ≤ maxFieldLen) :
    WFPayload fv.wt (fv.payload tag) := by
  have hs := payload_meets_spec fv tag hv
  cases fv with
  | bool b =>
    have hs' : FieldVal.payload (.bool b) tag = encVarint (if b then 1 else 0) := by
      rw [hs]; cases b <;> simp [encVarint_small]
    rw [hs']; exact WFPayload.varint _ (by cases b <;> decide)
  | int32 i => rw [canon_eq_enc hs]; exact WFPayload.varint _ (twos64_lt i (InI32.toI64 hv))
  | int64 i => rw [canon_eq_enc hs]; exact WFPayload.varint _ (twos64_lt i hv)
  | uint32 n => rw [canon_eq_enc hs]; exact WFPayload.varint _ (by unfold FieldVal.Valid two32 at hv; unfold two64; omega)
  | uint64 n => rw [canon_eq_enc hs]; exact WFPayload.varint _ hv
  | sint32 i => rw [canon_eq_enc hs]; exact WFPayload.varint _ (zigzag_lt_two64 (InI32.toI64 hv))
  | sint64 i => rw [canon_eq_enc hs]; exact WFPayload.varint _ (zigzag_lt_two64 hv)
  | fixed32 n => exact WFPayload.fixed32 _ hs.1
  | float32 n => exact WFPayload.fixed32 _ hs.1
  | fixed64 n => exact WFPayload.fixed64 _ hs.1
  | float64 n => exact WFPayload.fixed64 _ hs.1
  | str b => exact lenPrefixed_wf hs hl
  | bytes b => exact lenPrefixed_wf hs hl
  | pBool vs => obtain ⟨_, _, h⟩ := hs; exact lenPrefixed_wf h hl
  | pInt32 vs => obtain ⟨_, _, h⟩ := hs; exact lenPrefixed_wf h hl
  | pInt64 vs => obtain ⟨_, _, h⟩ := hs; exact lenPrefixed_wf h hl
  | pUint32 vs => obtain ⟨_, _, h⟩ := hs; exact lenPrefixed_wf h hl
  | pUint64 vs => obtain ⟨_, _, h⟩ := hs; exact lenPrefixed_wf h hl
  | pSint32 vs => obtain ⟨_, _, h⟩ := hs; exact lenPrefixed_wf h hl
  | pSint64 vs => obtain ⟨_, _, h⟩ := hs; exact lenPrefixed_wf h hl
  | pFixed32 vs => obtain ⟨_, _, h⟩ := hs; exact lenPrefixed_wf h hl
  | pFloat32 vs => obtain ⟨_, _, h⟩ := hs; exact lenPrefixed_wf h hl
  | pFixed64 vs => obtain ⟨_, _, h⟩ := hs; exact lenPrefixed_wf h hl
  | pFloat64 vs => obtain ⟨_, _, h⟩ := hs; exact lenPrefixed_wf h hl

structure FieldOK (f : FieldVal × Nat) : Prop where
  tag : ValidTag f.2
  valid : f.1.Valid
  small : (f.1.payload f.2).length ≤ maxFieldLen

def wireOf (f : FieldVal × Nat) : Bytes := (f.1.encOp f.2).wire

/-- **Skip one field**: after `DecodeTag`, `Skip(tag, wt)` (safe mode: with validation; fast mode:
    without) returns exactly key ++ payload and leaves the cursor on the next field. -/
theorem skip_field (f : FieldVal × Nat) (hf : FieldOK f) (d : Dec) (pre post : Bytes)
    (h : d.At pre (wireOf f ++ post)) :
    ∃ d1 d2, d.step .tag = (d1, .ok (.tag f.2 f.1.wt), 0) ∧
      d1.step (.skip f.2 f.1.wt) = (d2, .ok (.bytes (wireOf f)), 0) ∧
      d2.At (pre ++ wireOf f) post := by
  unfold wireOf at h ⊢
  rw [wire_split f.1 f.2 hf.valid, List.append_assoc] at h
  have h1 := Dec.tag_at h hf.tag.1 hf.tag.2 (wt_lt f.1)
  have hAt := h.afterTag
  have hsk := Dec.skip_at hf.tag.1 hf.tag.2 (payload_wf f.1 f.2 hf.valid hf.small) hAt (by intro _; simp [h.off])
  refine ⟨_, { d.afterTag (encTag f.2 f.1.wt).length with off := (d.afterTag (encTag f.2 f.1.wt).length).off + (f.1.payload f.2).length }, h1, ?_, ?_⟩
  · simp only [Dec.step, withAlloc, hsk]; rw [wire_split f.1 f.2 hf.valid]
  · rw [wire_split f.1 f.2 hf.valid, ← List.append_assoc]
    exact hAt.advance

/-- walk a message: `DecodeTag` then `Skip` with the tag and wire type just read -/
def skipWalk : Nat → Dec → Option (Dec × List Bytes)
  | 0, d => some (d, [])
  | n + 1, d =>
    match d.step .tag with
    | (d1, .ok (.tag t w), _) =>
      match d1.step (.skip t w) with
      | (d2, .ok (.bytes b), _) => (skipWalk n d2).map fun (d3, bs) => (d3, b :: bs)
      | _ => none
    | _ => none

/-- **Concatenating the skipped fields reproduces the input**, for every sequence of conforming
    fields. -/
theorem skip_walk (fs : List (FieldVal × Nat)) (hfs : ∀ f ∈ fs, FieldOK f) :
    ∀ (d : Dec) (pre post : Bytes), d.At pre ((fs.map wireOf).flatten ++ post) →
      ∃ d', skipWalk fs.length d = some (d', fs.map wireOf) ∧ d'.At (pre ++ (fs.map wireOf).flatten) post := by
  induction fs with
  | nil => intro d pre post h; exact ⟨d, rfl, by simpa using h⟩
  | cons f fs ih =>
    intro d pre post h
    simp only [List.map_cons, List.flatten_cons, List.append_assoc] at h
    obtain ⟨d1, d2, h1, h2, hAt⟩ := skip_field f (hfs f (by simp)) d pre _ h
    obtain ⟨d', hw, hAt'⟩ := ih (fun g hg => hfs g (by simp [hg])) d2 _ post hAt
    refine ⟨d', ?_, by simpa using hAt'⟩
    simp only [List.length_cons, skipWalk, h1, h2, hw, List.map_cons, Option.map]

/-! ## non-vacuity -/

example : FieldOK (FieldVal.int64 (-1), 536870911) := by
  refine ⟨by unfold ValidTag maxTagValue; simp, by unfold FieldVal.Valid InI64 two63; simp, ?_⟩
  have := encVarint_length_le_10 (toU64_lt (-1))
  have hp : FieldVal.payload (.int64 (-1)) 536870911 = encVarint (toU64 (-1)) := by
    unfold FieldVal.payload; simp [FieldVal.encOp, EncOp.wire, FieldVal.wt]
  rw [hp]; unfold maxFieldLen; omega

end Csproto.C02
