import Csproto.Bridge.SkipFuncs
import Csproto.Proofs.Skip
/-
  C02 (the Skip clause) for the SOURCE: stated about the functions TRANSLATED from `/repo`'s current decoder.go.

  `source_skip_field`: let the buffer be `pre ++ key ++ payload ++ post` where `key` is the canonical key of a field number
  1 … 2^29-1 with one of the four supported wire types and `payload` a payload a conforming writer emits for that wire type
  (`WFPayload`: a canonical varint, 8 bytes, 4 bytes, or a length prefix followed by that many bytes).  A Decoder whose cursor
  stands at the start of the key — in safe or fast mode, whatever key span it remembered — reads the key with the source's
  `DecodeTag()` and then the source's `Skip(tag, wireType)` returns EXACTLY `key ++ payload` (the field's complete raw
  encoding), reports no error, and leaves the cursor at the first byte of `post`: concatenating what successive Skips return
  reproduces the input.
-/
set_option linter.unusedSimpArgs false
set_option linter.unusedVariables false
namespace Csproto.C02.Source
open Csproto Csproto.Generated.WireFuncs Csproto.Bridge Csproto.Bridge.WireFuncs Csproto.Bridge.DecoderFuncs Csproto.Bridge.SkipFuncs

theorem source_skip_field (fuel : Nat) (hf : 11 ≤ fuel) (pre payload post : Bytes) (off mode ks ke tag wt : BitVec 64)
    (hlen : (pre ++ encTag tag.toNat wt.toNat ++ payload ++ post).length < 2 ^ 62)
    (hoff : off.toNat = pre.length)
    (hks : ks.toNat ≤ (pre ++ encTag tag.toNat wt.toNat ++ payload ++ post).length)
    (hke : ke.toNat ≤ (pre ++ encTag tag.toNat wt.toNat ++ payload ++ post).length)
    (ht1 : 1 ≤ tag.toNat) (ht : tag.toNat ≤ 536870911) (hw : WFPayload wt.toNat payload) :
    ∃ sd, Decoder_DecodeTag fuel (pre ++ encTag tag.toNat wt.toNat ++ payload ++ post) off mode ks ke = .ret (tag, wt, .nil) sd ∧
      ∃ s2, Decoder_Skip fuel sd.d_p sd.d_offset sd.d_mode sd.d_keyStart sd.d_keyEnd tag wt =
          .ret (encTag tag.toNat wt.toNat ++ payload, .nil) s2 ∧
        s2.d_offset.toNat = pre.length + (encTag tag.toNat wt.toNat ++ payload).length ∧
        s2.d_p = pre ++ encTag tag.toNat wt.toNat ++ payload ++ post := by
  have htm : tag.toNat ≤ maxTagValue := ht
  have hwt := hw.wt_lt
  generalize hP : pre ++ encTag tag.toNat wt.toNat ++ payload ++ post = P at *
  have hP' : P = pre ++ (encTag tag.toNat wt.toNat ++ (payload ++ post)) := by rw [← hP]; simp
  have hPl : pre.length + (encTag tag.toNat wt.toNat).length + payload.length ≤ P.length := by rw [hP']; simp; omega
  have hp63 : P.length < 2 ^ 63 := by omega
  -- DecodeTag
  have hat : (decOf P off ks ke (mode != 0#64)).At pre (encTag tag.toNat wt.toNat ++ (payload ++ post)) :=
    ⟨by simp [decOf, hP'], by simp [decOf, hoff]⟩
  have htag := Dec.tag_at hat ht1 htm hwt
  obtain ⟨t, w, e, sd, hdt, hdp, hdm, hmatch⟩ := DecodeTag_refines fuel hf P off mode ks ke (mode != 0#64) hp63 (by omega)
  rw [htag] at hmatch
  simp only [Dec.afterTag_off, Dec.afterTag_ks, Dec.afterTag_ke] at hmatch
  obtain ⟨he, htn, hwn, hso, hsks, hske⟩ := hmatch
  subst he
  have htq : tag = t := (BitVec.eq_of_toNat_eq htn).symm
  have hwq : wt = w := (BitVec.eq_of_toNat_eq hwn).symm
  subst htq; subst hwq
  refine ⟨sd, hdt, ?_⟩
  -- Skip
  have hdoff : (decOf P off ks ke (mode != 0#64)).off = pre.length := by simp [decOf, hoff]
  rw [hdoff] at hso hsks hske
  have hd2 : decOf sd.d_p sd.d_offset sd.d_keyStart sd.d_keyEnd (sd.d_mode != 0#64) =
      (decOf P off ks ke (mode != 0#64)).afterTag (encTag tag.toNat wt.toNat).length := by
    simp only [decOf, Dec.afterTag, hdp, hdm, hso, hsks, hske, hoff]
  have hsk := Dec.skip_at (d := decOf sd.d_p sd.d_offset sd.d_keyStart sd.d_keyEnd (sd.d_mode != 0#64)) (pre := pre) (post := post)
    ht1 htm hw (by rw [hd2]; exact hat.afterTag) (by rw [hd2]; intro _; simp [decOf, hoff])
  obtain ⟨b, e2, s2, hsr, hs2p, _, _, _, hm2⟩ := Skip_refines fuel hf sd.d_p sd.d_offset sd.d_mode sd.d_keyStart sd.d_keyEnd tag wt
    (by rw [hdp]; exact hlen) (by rw [hdp, hso]; omega) (by rw [hdp, hsks]; omega) (by rw [hdp, hske]; omega)
  simp only [Dec.step, withAlloc, hsk] at hm2
  obtain ⟨he2, hb, ho2⟩ := hm2
  subst he2; subst hb
  refine ⟨s2, hsr, ?_, by rw [hs2p, hdp]⟩
  rw [ho2]
  simp only [decOf, hso, List.length_append]
  omega

end Csproto.C02.Source
