import Csproto.Model.Pool
/-
  C14 — the capacity options (`WithMaxBufferSize`, `WithBufferFilterFunc`) never change recorded data.

  `Model/Pool.lean` has no options: its `closeObj` leaves `o.fds.map fun fd => { fd with data := [] }`.
  Here `(*DecodeResult).close` / `trunc` / `cap` and `(*FieldData).trunc` / `cap` are modelled WITH the
  capacities they work on (capacity of `fd.data`, `fd.maxCap` bounding the typed scratch slices, capacity of
  `closers`) and with both options — the max buffer size (`-1` = not given) and an arbitrary filter function
  whose answer may be negative ("leave the buffers alone"), zero, small or huge. `closeFds_erases_options`:
  for EVERY combination (none, max only, filter only, both) and every filter function the recorded data a
  closed object takes into the pool is exactly what the option-free pool machine leaves; `closeFds_all_empty`:
  nothing recorded survives `close`. `closeFds_lazy_reset_witness` is the negation for a `close` that leaves
  the clearing of the data to `trunc` (a filter without a max buffer size answering with a negative capacity).
  Tie to the code: `Bridge.lazyClose_resets_first` (regenerated fact `lazyCloseSteps`: the first statement of
  `(*DecodeResult).close` is the unconditional loop that empties every `data`), and the option histories of the
  harness (C13 reuse / live, C14 histories, C15: every combination of the options).
-/
namespace Csproto.C14Opts
open Csproto

/-- a `*FieldData` with the capacities `close` looks at -/
structure FDC where
  fd : FD
  dataCap : Nat     -- cap(fd.data)
  maxCap : Nat      -- fd.maxCap
deriving Repr

structure Opts where
  maxBuffer : Int                 -- `dec.maxBuffer`, -1 unless `WithMaxBufferSize(n)` was given
  filter : Option (Nat → Int)     -- `WithBufferFilterFunc(fn)`

/-- `(*FieldData).trunc(n)` (n ≥ 0): a larger `data` slice is replaced by an empty one of capacity n; the
    scratch slices are cut down when `n ≤ maxCap` -/
def FDC.trunc (n : Nat) (x : FDC) : FDC :=
  let x1 : FDC := if x.dataCap > n then { x with fd := { x.fd with data := [] }, dataCap := n } else x
  if n > x1.maxCap then x1 else { x1 with maxCap := n }

/-- `(*DecodeResult).trunc(n)`: nothing for a negative n -/
def truncAll (n : Int) (closersCap : Nat) (xs : List FDC) : Nat × List FDC :=
  if n < 0 then (closersCap, xs)
  else (if closersCap > n.toNat then n.toNat else closersCap, xs.map (FDC.trunc n.toNat))

/-- `(*DecodeResult).cap()` -/
def capAll (closersCap : Nat) (xs : List FDC) : Nat :=
  xs.foldl (fun c x => max c (max x.dataCap x.maxCap)) closersCap

def FDC.reset (x : FDC) : FDC := { x with fd := { x.fd with data := [] } }

/-- `(*DecodeResult).close`, the part that touches the object's own field data (`closers` has been emptied by then:
    only its capacity is left) -/
def closeFds (o : Opts) (pooled : Bool) (closersCap : Nat) (xs : List FDC) : List FDC :=
  let xs0 := xs.map FDC.reset
  if !pooled then xs0 else
  let (cc1, xs1) := if o.maxBuffer ≥ 0 then truncAll o.maxBuffer closersCap xs0 else (closersCap, xs0)
  match o.filter with
  | none => xs1
  | some f =>
    let n := f (capAll cc1 xs1)
    if n ≥ 0 then (truncAll n cc1 xs1).2 else xs1

def erased (fds : List FD) : List FD := fds.map fun fd => { fd with data := [] }

theorem trunc_fd (n : Nat) (x : FDC) (h : x.fd.data = []) : (x.trunc n).fd = x.fd := by
  obtain ⟨⟨wt, data⟩, dc, mc⟩ := x
  simp only at h
  subst h
  unfold FDC.trunc
  by_cases h1 : dc > n <;> by_cases h2 : n > mc <;> simp [h1, h2]

theorem truncAll_fds (n : Int) (cc : Nat) (xs : List FDC) (h : ∀ x ∈ xs, x.fd.data = []) :
    (truncAll n cc xs).2.map (·.fd) = xs.map (·.fd) := by
  unfold truncAll
  by_cases hn : n < 0
  · simp [hn]
  · simp only [hn, if_false, List.map_map]
    apply List.map_congr_left
    intro x hx
    exact trunc_fd _ x (h x hx)

theorem truncAll_empty (n : Int) (cc : Nat) (xs : List FDC) (h : ∀ x ∈ xs, x.fd.data = []) :
    ∀ x ∈ (truncAll n cc xs).2, x.fd.data = [] := by
  intro x hx
  have := truncAll_fds n cc xs h
  have hm : x.fd ∈ (truncAll n cc xs).2.map (·.fd) := List.mem_map_of_mem hx
  rw [this] at hm
  obtain ⟨y, hy, hyx⟩ := List.mem_map.1 hm
  rw [← hyx]; exact h y hy

theorem reset_empty (xs : List FDC) : ∀ x ∈ xs.map FDC.reset, x.fd.data = [] := by
  intro x hx
  obtain ⟨y, _, rfl⟩ := List.mem_map.1 hx
  rfl

theorem reset_fds (xs : List FDC) : (xs.map FDC.reset).map (·.fd) = erased (xs.map (·.fd)) := by
  simp [erased, FDC.reset, List.map_map, Function.comp_def]

/-- whatever the options are, a closed object's recorded data is what the option-free pool machine (`closeObj`)
    leaves: every `data` emptied, the wire-type marks as they were -/
theorem closeFds_erases_options (o : Opts) (pooled : Bool) (cc : Nat) (xs : List FDC) :
    (closeFds o pooled cc xs).map (·.fd) = erased (xs.map (·.fd)) := by
  unfold closeFds
  have h0 := reset_empty xs
  by_cases hp : pooled <;> simp only [hp, Bool.not_true, Bool.not_false, if_true, if_false, Bool.false_eq_true]
  · by_cases hm : o.maxBuffer ≥ 0 <;> simp only [hm, if_true, if_false]
    · have h1 := truncAll_empty o.maxBuffer cc _ h0
      have e1 := truncAll_fds o.maxBuffer cc _ h0
      cases hf : o.filter with
      | none => simp only; rw [e1, reset_fds]
      | some f =>
        simp only
        split
        · rw [truncAll_fds _ _ _ h1, e1, reset_fds]
        · rw [e1, reset_fds]
    · cases hf : o.filter with
      | none => simp only; rw [reset_fds]
      | some f =>
        simp only
        split
        · rw [truncAll_fds _ _ _ h0, reset_fds]
        · rw [reset_fds]
  · exact reset_fds xs

/-- nothing recorded survives `close`, under every option combination -/
theorem closeFds_all_empty (o : Opts) (pooled : Bool) (cc : Nat) (xs : List FDC) :
    ∀ x ∈ closeFds o pooled cc xs, x.fd.data = [] := by
  intro x hx
  have hm : x.fd ∈ (closeFds o pooled cc xs).map (·.fd) := List.mem_map_of_mem hx
  rw [closeFds_erases_options] at hm
  obtain ⟨y, _, hyx⟩ := List.mem_map.1 hm
  rw [← hyx]

/-- the four combinations the harness draws, spelled out: they agree with one another -/
theorem closeFds_option_independent (o o' : Opts) (cc cc' : Nat) (xs : List FDC) :
    (closeFds o true cc xs).map (·.fd) = (closeFds o' true cc' xs).map (·.fd) := by
  rw [closeFds_erases_options, closeFds_erases_options]

/-- a `close` that relies on `trunc` to empty the data when any option is set (and clears it itself only when
    none is) -/
def closeFdsLazyReset (o : Opts) (closersCap : Nat) (xs : List FDC) : List FDC :=
  if o.maxBuffer < 0 ∧ o.filter.isNone then xs.map FDC.reset else
  let (cc1, xs1) := if o.maxBuffer ≥ 0 then truncAll o.maxBuffer closersCap (xs.map FDC.reset) else (closersCap, xs)
  match o.filter with
  | none => xs1
  | some f =>
    let n := f (capAll cc1 xs1)
    if n ≥ 0 then (truncAll n cc1 (xs1.map FDC.reset)).2 else xs1

/-- ... is NOT option independent: a filter without a max buffer size that answers "leave it alone" keeps the data -/
theorem closeFds_lazy_reset_witness :
    (closeFdsLazyReset { maxBuffer := -1, filter := some fun _ => -1 } 0
      [{ fd := { wt := 0, data := [[5]] }, dataCap := 1, maxCap := 0 }]).map (·.fd)
      ≠ erased [{ wt := 0, data := [[5]] }] := by
  decide

end Csproto.C14Opts
