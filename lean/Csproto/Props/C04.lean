import Csproto.Proofs.Gen
/-
  C04 — Generated Size, Marshal and MarshalTo agree for every message.

  Model: `Model/Gen.lean` (one arm per template snippet).  For **every** schema, every message type
  of it and every value whose numbers are in their machine ranges (`OKFields`: nothing is assumed about
  which fields are set, zero, empty or nested how deep):

  * `size_exact`      — `Size()` is exactly the number of bytes the encoder calls of `MarshalTo` write
                        (plus the unknown fields);
  * `marshalTo_fills` — running those calls on a caller-supplied buffer of `Size()` bytes does not
                        panic, leaves the cursor at the end (never overrun, never slack) and the buffer
                        holds exactly the fields' wire bytes followed by the unknown fields;
  * `marshal_total`   — `Marshal()` never panics; it returns an error only for a missing required field
                        (C17) and otherwise exactly those bytes, of length `Size()`.
-/
namespace Csproto.C04
open Csproto Csproto.Gen

/-- `Size()` of a message = bytes written by its `MarshalTo` -/
theorem size_exact (S : Schema) (md : MD) (fs : List F) (unk : Bytes) (ops : List EncOp)
    (hok : OKFields S md fs) (ho : opsFields S md fs = .ok ops) :
    sizeFields S md fs + unk.length = (wiresOf (ops ++ [.raw unk])).length := by
  obtain ⟨s, _⟩ := fields_exact S md fs ops hok ho
  rw [wiresOf_append, List.length_append, s]; simp [wiresOf, EncOp.wire]

/-- **MarshalTo into a buffer of exactly `Size()` bytes**: no panic, exact fill, exact contents -/
theorem marshalTo_fills (S : Schema) (md : MD) (fs : List F) (unk : Bytes) (ops : List EncOp)
    (hok : OKFields S md fs) (ho : opsFields S md fs = .ok ops) :
    ∃ e, (Enc.new (sizeFields S md fs + unk.length)).run (ops ++ [.raw unk]) = .ok e ∧
      e.off = e.cap ∧ e.cap = sizeFields S md fs + unk.length ∧ e.buf = wiresOf ops ++ unk := by
  obtain ⟨_, x⟩ := fields_exact S md fs ops hok ho
  have hsz := size_exact S md fs unk ops hok ho
  have hx : ∀ op ∈ ops ++ [EncOp.raw unk], OpExact op := by
    intro op hop
    rcases List.mem_append.mp hop with h | h
    · exact x op h
    · simp at h; subst h; exact True.intro
  obtain ⟨e, hr, ha⟩ := run_exact (ops ++ [.raw unk]) (Enc.new (sizeFields S md fs + unk.length)) hx
    (by unfold Enc.Room; rw [Enc.new_cap, hsz]; simp [Enc.new])
  have hcap : e.cap = sizeFields S md fs + unk.length := by rw [ha.cap, Enc.new_cap]
  have hoff : e.off = e.cap := by rw [ha.off, hcap, hsz]; simp [Enc.new]
  refine ⟨e, hr, hoff, hcap, ?_⟩
  rw [← Enc.written_full hoff, ha.written, Enc.new_written, wiresOf_append]
  simp [wiresOf, EncOp.wire]

/-- **Marshal**: never panics; on success returns exactly the wire bytes, whose length is `Size()` -/
theorem marshal_total (S : Schema) (md : MD) (fs : List F) (unk : Bytes) (hok : OKFields S md fs) :
    (marshal S md fs unk = .err ∧ opsFields S md fs = .err) ∨
    ∃ bs, marshal S md fs unk = .ok bs ∧ bs.length = sizeFields S md fs + unk.length ∧
      ((∃ ops, opsFields S md fs = .ok ops ∧ bs = wiresOf ops ++ unk) ∨
       (opsFields S md fs = .err ∧ hasRequired md = false ∧ bs = [])) := by
  unfold marshal marshalSized
  by_cases hz : (!hasRequired md && (sizeFields S md fs + unk.length = 0)) = true
  · -- the `siz == 0` shortcut (only for types without required fields)
    simp only [hz, if_true]
    simp only [Bool.and_eq_true, Bool.not_eq_true', decide_eq_true_eq] at hz
    right
    refine ⟨[], rfl, by simp [hz.2], ?_⟩
    cases ho : opsFields S md fs with
    | ok ops =>
      left
      refine ⟨ops, rfl, ?_⟩
      have := size_exact S md fs unk ops hok ho
      rw [hz.2, wiresOf_append] at this
      have h0 : (wiresOf ops ++ wiresOf [EncOp.raw unk]).length = 0 := this.symm
      have h1 : wiresOf ops ++ wiresOf [EncOp.raw unk] = [] := List.eq_nil_of_length_eq_zero h0
      simpa [wiresOf, EncOp.wire] using h1.symm
    | err => right; exact ⟨rfl, hz.1, rfl⟩
    | panic =>
      -- `opsFields` never panics
      exfalso
      exact absurd ho (by
        intro h
        have := opsFields_no_panic S md fs
        exact this h)
  · simp only [hz]
    cases ho : opsFields S md fs with
    | ok ops =>
      obtain ⟨e, hr, _, hcap, hbuf⟩ := marshalTo_fills S md fs unk ops hok ho
      right
      simp only [Bool.false_eq_true, if_false, hr]
      refine ⟨e.buf, rfl, ?_, Or.inl ⟨ops, rfl, hbuf⟩⟩
      have : e.buf.length = e.cap := rfl
      rw [this, hcap]
    | err => left; simp
    | panic => exfalso; exact opsFields_no_panic S md fs ho

end Csproto.C04
