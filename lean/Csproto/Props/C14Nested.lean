import Csproto.Props.C14History
/-
  C14, whole histories WITH nested results: a refinement theorem.

  `NSpec` is a pool-free description of what a client may observe when it also calls `NestedResult`,
  `NestedResults` and multi-element `FieldData` paths: a handle is a nil result, a live result that is
  described by *the bytes it was decoded from* and the decoder node (`path`) that decoded them, or closed.
  Every answer is computed from those bytes alone by a brand-new object.  Closing a root handle closes
  every nested handle that was (transitively) created from it (`gen` names the root decode they descend from).

  `nested_history_refines` shows that the pooled state machine of `Model/Pool.lean` produces exactly the
  outputs of `NSpec`, for every history that keeps to the API contract and for every choice every pool
  (the root decoder's and each nested decoder's) may make.

  The invariant (`W`) is the *closer forest*: a ghost map `G` says which objects are live and what they
  hold; the closers of a live object are live objects one level deeper of the same generation, no object
  is in two closer lists, pooled objects are not live (hence in no live closer list), are cleared, sit in
  the pool of their own decoder node, and no pool holds an object twice.
-/
namespace Csproto.C14N
open Csproto Csproto.C14

/-! ## 1. ghost state and the closer-forest invariant -/

structure Ghost where
  bytes : Bytes
  path : List Nat
  gen : Nat

abbrev GMap := Nat → Option Ghost

def GMap.rem (G : GMap) (c : Nat) : GMap := fun x => if x = c then none else G x
def GMap.set (G : GMap) (c : Nat) (d : Ghost) : GMap := fun x => if x = c then some d else G x

structure LiveObj (root : LDec) (G : GMap) (d : Ghost) (o : LObj) (node : LDec) (fds : List FD) : Prop where
  hpath : o.path = d.path
  hnode : decAt root d.path = some node
  hdec : decodeInto node.flat (cleanFds node.flat.length) d.bytes = .ok fds
  eq : FdsEq o.fds fds
  opn : o.closed = false
  skip : o.skipClose = !d.path.isEmpty
  nodup : o.closers.Nodup
  kids : ∀ c ∈ o.closers, ∃ dc, G c = some dc ∧ dc.gen = d.gen ∧ dc.path.length = d.path.length + 1

def PoolObj (root : LDec) (p : List Nat) (o : LObj) : Prop :=
  Cleared o ∧ o.path = p ∧ (∃ node, decAt root p = some node ∧ o.fds.length = node.flat.length) ∧
  (p = [] → o.skipClose = false)

structure W (s : LState) (root : LDec) (G : GMap) : Prop where
  live : ∀ id d, G id = some d → ∃ o node fds, s.obj? id = some o ∧ LiveObj root G d o node fds
  forest : ∀ i1 i2 d1 d2 o1 o2 c, G i1 = some d1 → G i2 = some d2 → s.obj? i1 = some o1 → s.obj? i2 = some o2 →
      c ∈ o1.closers → c ∈ o2.closers → i1 = i2
  pool : ∀ p id, id ∈ s.pool p → G id = none ∧ ∃ o, s.obj? id = some o ∧ PoolObj root p o
  nodup : ∀ p, (s.pool p).Nodup

/-- no live object has `c` in its closers -/
def Detached (s : LState) (G : GMap) (c : Nat) : Prop := ∀ i d o, G i = some d → s.obj? i = some o → c ∉ o.closers

theorem W.unpooled {s root G} (w : W s root G) {id d} (h : G id = some d) (p : List Nat) : id ∉ s.pool p := by
  intro hm
  have := (w.pool p id hm).1
  rw [h] at this; cases this

theorem W.ext {s s' : LState} {root G} (w : W s root G) (ho : ∀ i, s'.obj? i = s.obj? i)
    (hp : ∀ p, s'.pool p = s.pool p) : W s' root G where
  live := by intro id d h; simp only [ho]; exact w.live id d h
  forest := by intro i1 i2 d1 d2 o1 o2 c a b; simp only [ho]; exact w.forest i1 i2 d1 d2 o1 o2 c a b
  pool := by intro p id h; rw [hp] at h; simp only [ho]; exact w.pool p id h
  nodup := by intro p; rw [hp]; exact w.nodup p

theorem LiveObj.mono {root G G' d o node fds} (l : LiveObj root G d o node fds)
    (h : ∀ c ∈ o.closers, G' c = G c) : LiveObj root G' d o node fds :=
  { l with kids := by intro c hc; rw [h c hc]; exact l.kids c hc }

theorem W.rem {s root G} (w : W s root G) (c : Nat) (hd : Detached s G c) : W s root (G.rem c) where
  live := by
    intro id d h
    unfold GMap.rem at h
    by_cases e : id = c
    · simp [e] at h
    · simp only [e, if_false] at h
      obtain ⟨o, node, fds, h1, h2⟩ := w.live id d h
      refine ⟨o, node, fds, h1, h2.mono ?_⟩
      intro c' hc'
      have : c' ≠ c := fun e' => hd id d o h h1 (e' ▸ hc')
      simp [GMap.rem, this]
  forest := by
    intro i1 i2 d1 d2 o1 o2 x a b
    unfold GMap.rem at a b
    by_cases e1 : i1 = c
    · simp [e1] at a
    · by_cases e2 : i2 = c
      · simp [e2] at b
      · simp only [e1, e2, if_false] at a b
        exact w.forest i1 i2 d1 d2 o1 o2 x a b
  pool := by
    intro p id h
    obtain ⟨h1, h2⟩ := w.pool p id h
    refine ⟨?_, h2⟩
    unfold GMap.rem; split
    · rfl
    · exact h1
  nodup := w.nodup

/-- replacing an object that is neither live nor pooled -/
theorem W.setDead {s root G} (w : W s root G) (id : Nat) (x : LObj) (hg : G id = none)
    (hnp : ∀ p, id ∉ s.pool p) : W (s.setObj id x) root G where
  live := by
    intro i d h
    obtain ⟨o, node, fds, h1, h2⟩ := w.live i d h
    have hne : i ≠ id := fun e => by rw [e, hg] at h; cases h
    exact ⟨o, node, fds, by rw [obj_setObj]; simp [hne, h1], h2⟩
  forest := by
    intro i1 i2 d1 d2 o1 o2 c a b h1 h2
    have n1 : i1 ≠ id := fun e => by rw [e, hg] at a; cases a
    have n2 : i2 ≠ id := fun e => by rw [e, hg] at b; cases b
    rw [obj_setObj] at h1 h2
    simp only [n1, n2, if_false] at h1 h2
    exact w.forest i1 i2 d1 d2 o1 o2 c a b h1 h2
  pool := by
    intro p i h
    rw [pool_setObj] at h
    obtain ⟨h1, o, h2, h3⟩ := w.pool p i h
    have hne : i ≠ id := fun e => hnp p (e ▸ h)
    exact ⟨h1, o, by rw [obj_setObj]; simp [hne, h2], h3⟩
  nodup := w.nodup

theorem W.poolAdd {s root G} (w : W s root G) (id : Nat) (o : LObj) (hg : G id = none)
    (ho : s.obj? id = some o) (hpo : PoolObj root o.path o) (hnp : ∀ p, id ∉ s.pool p) :
    W (s.setPool o.path (s.pool o.path ++ [id])) root G where
  live := by intro i d h; simp only [obj_setPool]; exact w.live i d h
  forest := by intro i1 i2 d1 d2 o1 o2 c a b; simp only [obj_setPool]; exact w.forest i1 i2 d1 d2 o1 o2 c a b
  pool := by
    intro p i h
    rw [pool_setPool] at h
    simp only [obj_setPool]
    by_cases e : p = o.path
    · simp only [e, if_true, List.mem_append, List.mem_singleton] at h
      rcases h with h | h
      · rw [e]; exact w.pool _ i h
      · subst h; rw [e]; exact ⟨hg, o, ho, hpo⟩
    · simp only [e, if_false] at h; exact w.pool p i h
  nodup := by
    intro p
    rw [pool_setPool]
    by_cases e : p = o.path
    · simp only [e, if_true]
      exact List.nodup_append.mpr ⟨w.nodup _, by simp, by
        intro a ha b hb; simp at hb; subst hb; exact fun e' => hnp _ (e' ▸ ha)⟩
    · simp only [e, if_false]; exact w.nodup p

theorem W.poolErase {s root G} (w : W s root G) (p0 : List Nat) (id : Nat) :
    W (s.setPool p0 ((s.pool p0).erase id)) root G where
  live := by intro i d h; simp only [obj_setPool]; exact w.live i d h
  forest := by intro i1 i2 d1 d2 o1 o2 c a b; simp only [obj_setPool]; exact w.forest i1 i2 d1 d2 o1 o2 c a b
  pool := by
    intro p i h
    rw [pool_setPool] at h
    simp only [obj_setPool]
    by_cases e : p = p0
    · simp only [e, if_true] at h; rw [e]; exact w.pool _ i (List.mem_of_mem_erase h)
    · simp only [e, if_false] at h; exact w.pool p i h
  nodup := by
    intro p
    rw [pool_setPool]
    by_cases e : p = p0
    · simp only [e, if_true]; exact (w.nodup _).erase id
    · simp only [e, if_false]; exact w.nodup p


/-! ## 2. `close` walks one tree of the forest -/

/-- `G'` is `G` minus some objects of generation `g` that sit deeper than level `n` -/
def Shrink (G G' : GMap) (g n : Nat) : Prop :=
  ∀ x, G' x = G x ∨ (G' x = none ∧ ∃ dx, G x = some dx ∧ dx.gen = g ∧ n < dx.path.length)

theorem Shrink.refl (G : GMap) (g n : Nat) : Shrink G G g n := fun _ => Or.inl rfl

theorem Shrink.trans {G1 G2 G3 : GMap} {g n : Nat} (a : Shrink G1 G2 g n) (b : Shrink G2 G3 g n) : Shrink G1 G3 g n := by
  intro x
  rcases b x with h | ⟨h, dx, h2, h3⟩
  · rcases a x with h' | h'
    · exact Or.inl (h.trans h')
    · exact Or.inr ⟨h.trans h'.1, h'.2⟩
  · rcases a x with h' | h'
    · exact Or.inr ⟨h, dx, h' ▸ h2, h3⟩
    · rw [h'.1] at h2; cases h2

theorem Shrink.weaken {G1 G2 : GMap} {g n m : Nat} (a : Shrink G1 G2 g n) (h : m ≤ n) : Shrink G1 G2 g m := by
  intro x
  rcases a x with h' | ⟨h1, dx, h2, h3, h4⟩
  · exact Or.inl h'
  · exact Or.inr ⟨h1, dx, h2, h3, by omega⟩

/-- if the end of a shrinking chain still agrees with the start, so does the middle -/
theorem Shrink.mid {G1 G2 G3 : GMap} {g n m : Nat} (a : Shrink G1 G2 g n) (b : Shrink G2 G3 g m) (x : Nat)
    (h : G3 x = G1 x) : G2 x = G1 x ∧ G3 x = G2 x := by
  rcases a x with h1 | ⟨h1, dx, h2, _⟩
  · exact ⟨h1, h.trans h1.symm⟩
  · rcases b x with h3 | ⟨h3, _⟩
    · rw [h3, h1, h2] at h; cases h
    · rw [h3, h2] at h; cases h

/-- the contract of one `close` call, as a property of the function used for the recursive calls -/
def CloseSpec (f : LState → Nat → LState) (root : LDec) : Prop :=
  ∀ (s : LState) (G : GMap) (id : Nat) (o : LObj) (g n : Nat),
    W s root G → G id = none → (∀ p, id ∉ s.pool p) → s.obj? id = some o →
    (∃ node, decAt root o.path = some node ∧ o.fds.length = node.flat.length) → (o.path = [] → o.skipClose = false) →
    o.closers.Nodup →
    (∀ c ∈ o.closers, ∃ dc, G c = some dc ∧ dc.gen = g ∧ dc.path.length = n + 1 ∧ Detached s G c) →
    ∃ G', W (f s id) root G' ∧ Shrink G G' g n ∧
      (∀ x, x ≠ id → G' x = G x → (f s id).obj? x = s.obj? x) ∧
      (∀ x, x ≠ id → G x = none → ∀ p, x ∈ (f s id).pool p → x ∈ s.pool p)

theorem liveObj_len {root G d o node fds} (l : LiveObj root G d o node fds) : o.fds.length = node.flat.length := by
  rw [l.eq.length]
  exact (C13.decodeInto_total node.flat (cleanFds node.flat.length) d.bytes (by simp [cleanFds])).2 fds l.hdec

theorem fold_close (f : LState → Nat → LState) (root : LDec) (hf : CloseSpec f root) :
    ∀ (cs : List Nat) (s : LState) (G : GMap) (g n : Nat), W s root G → cs.Nodup →
      (∀ c ∈ cs, ∃ dc, G c = some dc ∧ dc.gen = g ∧ dc.path.length = n + 1 ∧ Detached s G c) →
      ∃ G', W (cs.foldl f s) root G' ∧ Shrink G G' g n ∧
        (∀ x, G' x = G x → (cs.foldl f s).obj? x = s.obj? x) ∧
        (∀ x, G x = none → ∀ p, x ∈ (cs.foldl f s).pool p → x ∈ s.pool p)
  | [], s, G, g, n, w, _, _ => ⟨G, w, Shrink.refl G g n, fun _ _ => rfl, fun _ _ _ h => h⟩
  | c :: rest, s, G, g, n, w, hnd, hk => by
    obtain ⟨dc, hGc, hgen, hlen, hdet⟩ := hk c (by simp)
    obtain ⟨oc, nodec, fdsc, hoc, lc⟩ := w.live c dc hGc
    have hnd' := List.nodup_cons.mp hnd
    -- close `c`, after forgetting that it is live
    have hrem : (G.rem c) c = none := by simp [GMap.rem]
    have hkids : ∀ c' ∈ oc.closers, ∃ dc', (G.rem c) c' = some dc' ∧ dc'.gen = g ∧ dc'.path.length = (n + 1) + 1 ∧
        Detached s (G.rem c) c' := by
      intro c' hc'
      obtain ⟨dc', h1, h2, h3⟩ := lc.kids c' hc'
      have hne : c' ≠ c := by
        intro e; rw [e, hGc] at h1; injection h1 with h1; subst h1; omega
      refine ⟨dc', by simp [GMap.rem, hne, h1], by rw [h2, hgen], by rw [h3, hlen], ?_⟩
      intro i d o hi hoi hmem
      unfold GMap.rem at hi
      by_cases e : i = c
      · simp [e] at hi
      · simp only [e, if_false] at hi
        exact e (w.forest i c d dc o oc c' hi hGc hoi hoc hmem hc')
    obtain ⟨G1, w1, sh1, eff1, pl1⟩ := hf s (G.rem c) c oc g (n + 1) (w.rem c hdet) hrem
      (fun p => w.unpooled hGc p) hoc ⟨nodec, by rw [lc.hpath]; exact lc.hnode, liveObj_len lc⟩
      (by intro e; rw [lc.hpath] at e; rw [e] at hlen; simp at hlen) lc.nodup hkids
    have shc : Shrink G (G.rem c) g n := by
      intro x
      by_cases e : x = c
      · exact Or.inr ⟨by simp [GMap.rem, e], dc, by rw [e]; exact hGc, hgen, by omega⟩
      · exact Or.inl (by simp [GMap.rem, e])
    have sh01 : Shrink G G1 g n := shc.trans (sh1.weaken (by omega))
    -- the remaining closers are still live and detached
    have hk' : ∀ c' ∈ rest, ∃ dc', G1 c' = some dc' ∧ dc'.gen = g ∧ dc'.path.length = n + 1 ∧ Detached (f s c) G1 c' := by
      intro c' hc'
      obtain ⟨dc', h1, h2, h3, h4⟩ := hk c' (by simp [hc'])
      have hne : c' ≠ c := fun e => hnd'.1 (e ▸ hc')
      have hr : (G.rem c) c' = some dc' := by simp [GMap.rem, hne, h1]
      have hG1 : G1 c' = some dc' := by
        rcases sh1 c' with h | ⟨_, dx, hx, _, hl⟩
        · rw [h, hr]
        · rw [hr] at hx; injection hx with hx; subst hx; omega
      refine ⟨dc', hG1, h2, h3, ?_⟩
      intro i d o hi hoi
      have hi' : G1 i = (G.rem c) i := by
        rcases sh1 i with h | ⟨h, _⟩
        · exact h
        · rw [hi] at h; cases h
      have hic : i ≠ c := by
        intro e; rw [e, hrem] at hi'; rw [e, hi'] at hi; cases hi
      have hGi : G i = some d := by
        rw [← hi, hi']; simp [GMap.rem, hic]
      rw [eff1 i hic hi'] at hoi
      exact h4 i d o hGi hoi
    obtain ⟨G2, w2, sh2, eff2, pl2⟩ := fold_close f root hf rest (f s c) G1 g n w1 hnd'.2 hk'
    refine ⟨G2, w2, sh01.trans sh2, ?_, ?_⟩
    · intro x hx
      obtain ⟨m1, m2⟩ := Shrink.mid sh01 sh2 x hx
      have hxc : x ≠ c := by
        intro e
        rcases sh1 c with h | ⟨h, _⟩
        · rw [e, h, hrem, hGc] at m1; cases m1
        · rw [e, h, hGc] at m1; cases m1
      have : G1 x = (G.rem c) x := by rw [m1]; simp [GMap.rem, hxc]
      simp only [List.foldl_cons]
      rw [eff2 x m2, eff1 x hxc this]
    · intro x hx p hm
      simp only [List.foldl_cons] at hm
      have hxc : x ≠ c := fun e => by rw [e, hGc] at hx; cases hx
      have hx1 : G1 x = none := by
        rcases sh01 x with h | ⟨h, _⟩
        · rw [h, hx]
        · exact h
      exact pl1 x hxc (by simp [GMap.rem, hx]) p (pl2 x hx1 p hm)

def clearObj (o : LObj) : LObj := { o with fds := o.fds.map fun fd => { fd with data := [] }, closers := [] }

theorem clearObj_cleared (o : LObj) : Cleared (clearObj o) := by
  constructor
  · intro fd hfd
    simp [clearObj] at hfd
    obtain ⟨x, _, rfl⟩ := hfd; rfl
  · rfl

theorem closeObj_succ (fuel : Nat) (s : LState) (id : Nat) (o : LObj) (ho : s.obj? id = some o) :
    closeObj (fuel + 1) s id =
      let s2 := o.closers.foldl (closeObj fuel) (s.setObj id (clearObj o))
      if isPooledNode s2 o.path then s2.setPool o.path (s2.pool o.path ++ [id]) else s2 := by
  rw [closeObj]; simp only [ho]; rfl

/-- **`close` releases exactly one tree of the closer forest**: whatever it clears and pools was live in
    the tree below `id`; every other object, live or pooled, is untouched; the invariant is kept -/
theorem closeObj_spec (root : LDec) : ∀ (fuel : Nat), CloseSpec (closeObj fuel) root
  | 0 => by
    intro s G id o g n w _ _ _ _ _ _ _
    exact ⟨G, w, Shrink.refl G g n, fun _ _ _ => rfl, fun _ _ _ _ h => h⟩
  | fuel + 1 => by
    intro s G id o g n w hg hnp ho hnode hskip hnd hk
    rw [closeObj_succ fuel s id o ho]
    have w1 : W (s.setObj id (clearObj o)) root G := w.setDead id _ hg hnp
    have hk1 : ∀ c ∈ o.closers, ∃ dc, G c = some dc ∧ dc.gen = g ∧ dc.path.length = n + 1 ∧
        Detached (s.setObj id (clearObj o)) G c := by
      intro c hc
      obtain ⟨dc, h1, h2, h3, h4⟩ := hk c hc
      refine ⟨dc, h1, h2, h3, ?_⟩
      intro i d oi hi hoi
      have hne : i ≠ id := fun e => by rw [e, hg] at hi; cases hi
      rw [obj_setObj] at hoi; simp only [hne, if_false] at hoi
      exact h4 i d oi hi hoi
    obtain ⟨G2, w2, sh2, eff2, pl2⟩ := fold_close (closeObj fuel) root (closeObj_spec root fuel) o.closers
      (s.setObj id (clearObj o)) G g n w1 hnd hk1
    have hg2 : G2 id = none := by
      rcases sh2 id with h | ⟨h, _⟩
      · rw [h, hg]
      · exact h
    have ho2 : (o.closers.foldl (closeObj fuel) (s.setObj id (clearObj o))).obj? id = some (clearObj o) := by
      rw [eff2 id (by rw [hg2, hg]), obj_setObj]; simp
    have hnp2 : ∀ p, id ∉ (o.closers.foldl (closeObj fuel) (s.setObj id (clearObj o))).pool p := by
      intro p hm
      exact hnp p (pl2 id hg p hm)
    have effA : ∀ x, x ≠ id → G2 x = G x →
        (o.closers.foldl (closeObj fuel) (s.setObj id (clearObj o))).obj? x = s.obj? x := by
      intro x hx hxg
      rw [eff2 x hxg, obj_setObj]; simp [hx]
    have plA : ∀ x, x ≠ id → G x = none → ∀ p,
        x ∈ (o.closers.foldl (closeObj fuel) (s.setObj id (clearObj o))).pool p → x ∈ s.pool p := by
      intro x _ hxg p hm
      exact pl2 x hxg p hm
    simp only []
    split
    · have hpo : PoolObj root (clearObj o).path (clearObj o) := by
        obtain ⟨node, h1, h2⟩ := hnode
        exact ⟨clearObj_cleared o, rfl, ⟨node, h1, by simp [clearObj, h2]⟩, hskip⟩
      have w3 := w2.poolAdd id (clearObj o) hg2 ho2 hpo hnp2
      refine ⟨G2, w3, sh2, ?_, ?_⟩
      · intro x hx hxg; rw [obj_setPool]; exact effA x hx hxg
      · intro x hx hxg p hm
        rw [pool_setPool] at hm
        by_cases e : p = o.path
        · simp only [e, if_true, List.mem_append, List.mem_singleton] at hm
          rcases hm with hm | hm
          · rw [e]; exact plA x hx hxg _ hm
          · exact absurd hm hx
        · simp only [e, if_false] at hm; exact plA x hx hxg p hm
    · exact ⟨G2, w2, sh2, effA, plA⟩

/-- what `close` leaves alone -/
structure Misc (s s' : LState) : Prop where
  root : s'.root = s.root
  handles : ∀ h, s'.handle? h = s.handle? h
  anon : s'.anon = s.anon
  rootPooled : s'.rootPooled = s.rootPooled
  none : ∀ x, s.obj? x = none → s'.obj? x = none
  flags : ∀ x o, s.obj? x = some o → ∃ o', s'.obj? x = some o' ∧ o'.closed = o.closed ∧ o'.skipClose = o.skipClose

theorem Misc.refl (s : LState) : Misc s s := ⟨rfl, fun _ => rfl, rfl, rfl, fun _ h => h, fun _ o h => ⟨o, h, rfl, rfl⟩⟩

theorem Misc.trans {a b c : LState} (h1 : Misc a b) (h2 : Misc b c) : Misc a c where
  root := h2.root.trans h1.root
  handles := fun h => (h2.handles h).trans (h1.handles h)
  anon := h2.anon.trans h1.anon
  rootPooled := h2.rootPooled.trans h1.rootPooled
  none := fun x h => h2.none x (h1.none x h)
  flags := by
    intro x o h
    obtain ⟨o1, a1, a2, a3⟩ := h1.flags x o h
    obtain ⟨o2, b1, b2, b3⟩ := h2.flags x o1 a1
    exact ⟨o2, b1, b2.trans a2, b3.trans a3⟩

theorem foldl_misc (f : LState → Nat → LState) (hf : ∀ s id, Misc s (f s id)) :
    ∀ (ids : List Nat) (s : LState), Misc s (ids.foldl f s)
  | [], s => Misc.refl s
  | id :: ids, s => (hf s id).trans (foldl_misc f hf ids (f s id))

theorem misc_setObj (s : LState) (id : Nat) (o o' : LObj) (ho : s.obj? id = some o) (h1 : o'.closed = o.closed)
    (h2 : o'.skipClose = o.skipClose) : Misc s (s.setObj id o') where
  root := rfl
  handles := fun _ => rfl
  anon := rfl
  rootPooled := rfl
  none := by
    intro x hx; rw [obj_setObj]
    have : x ≠ id := fun e => by rw [e, ho] at hx; cases hx
    simp [this, hx]
  flags := by
    intro x ox hx
    rw [obj_setObj]
    by_cases e : x = id
    · rw [e, ho] at hx; injection hx with hx; subst hx
      exact ⟨o', by simp [e], h1, h2⟩
    · exact ⟨ox, by simp [e, hx], rfl, rfl⟩

theorem misc_setPool (s : LState) (p ids) : Misc s (s.setPool p ids) :=
  ⟨rfl, fun _ => rfl, rfl, rfl, fun _ h => h, fun _ o h => ⟨o, h, rfl, rfl⟩⟩

theorem closeObj_misc : ∀ (fuel : Nat) (s : LState) (id : Nat), Misc s (closeObj fuel s id)
  | 0, s, _ => Misc.refl s
  | fuel + 1, s, id => by
    cases ho : s.obj? id with
    | none => rw [closeObj]; simp only [ho]; exact Misc.refl s
    | some o =>
      rw [closeObj_succ fuel s id o ho]
      have h1 : Misc s (s.setObj id (clearObj o)) := misc_setObj s id o _ ho rfl rfl
      have h2 := foldl_misc (closeObj fuel) (closeObj_misc fuel) o.closers (s.setObj id (clearObj o))
      simp only []
      split
      · exact (h1.trans h2).trans (misc_setPool _ _ _)
      · exact h1.trans h2

/-! ## 3. `decodeWithPool` on any decoder node -/

/-- a choice the pool of node `pth` can make -/
def ChoiceIn (s : LState) (pth : List Nat) : Choice → Prop
  | .new id => s.obj? id = none
  | .reuse id => id ∈ s.pool pth

/-- what a step leaves alone, except that it may create the object named by a `.new` choice -/
structure Frame (s s' : LState) (c : Choice) : Prop where
  root : s'.root = s.root
  handles : ∀ h, s'.handle? h = s.handle? h
  anon : s'.anon = s.anon
  rootPooled : s'.rootPooled = s.rootPooled
  born : ∀ x, s.obj? x = none → c ≠ .new x → s'.obj? x = none

theorem closeRes_noClosers (s : LState) (id : Nat) (o : LObj) (ho : s.obj? id = some o) (hc : o.closers = [])
    (hcl : o.closed = false) :
    closeRes s id =
      if o.skipClose then s else
      let s1 := (s.setObj id { o with closed := true }).setObj id (clearObj { o with closed := true })
      if isPooledNode s1 o.path then s1.setPool o.path (s1.pool o.path ++ [id]) else s1 := by
  unfold closeRes
  simp only [ho, hcl, Bool.false_eq_true, or_false]
  by_cases hs : o.skipClose = true
  · simp [hs]
  · rw [if_neg hs, if_neg hs]
    rw [closeObj_succ _ _ id { o with closed := true } (by rw [obj_setObj]; simp)]
    simp only [hc, List.foldl_nil]

theorem decode_chosenN (s1 : LState) (root : LDec) (G : GMap) (pth : List Nat) (node : LDec) (b : Bytes)
    (nid : Nat) (o : LObj) (w1 : W s1 root G) (hg : G nid = none) (hnp : ∀ p, nid ∉ s1.pool p)
    (hpo : PoolObj root pth o) (hnode : decAt root pth = some node) :
    let res : LState × DecodeOut :=
      match decodeInto node.flat o.fds b with
      | .ok fds => (s1.setObj nid { o with closed := false, fds := fds }, .res nid)
      | .err => (closeRes (s1.setObj nid { o with closed := false }) nid, .err)
      | .panic => (s1, .panic)
    match decodeInto node.flat (cleanFds node.flat.length) b with
    | .ok fds => ∃ s' o', res = (s', .res nid) ∧ W s' root G ∧ (∀ p, nid ∉ s'.pool p) ∧ s'.obj? nid = some o' ∧
        o'.path = pth ∧ FdsEq o'.fds fds ∧ o'.closers = [] ∧ o'.closed = false ∧ (pth = [] → o'.skipClose = false) ∧
        (∀ x, x ≠ nid → s'.obj? x = s1.obj? x) ∧ s'.root = s1.root ∧ (∀ h, s'.handle? h = s1.handle? h) ∧
        s'.anon = s1.anon ∧ s'.rootPooled = s1.rootPooled
    | .err => ∃ s', res = (s', .err) ∧ W s' root G ∧ (∀ x, x ≠ nid → s1.obj? x = none → s'.obj? x = none) ∧
        s'.root = s1.root ∧ (∀ h, s'.handle? h = s1.handle? h) ∧ s'.anon = s1.anon ∧ s'.rootPooled = s1.rootPooled
    | .panic => False := by
  dsimp only
  obtain ⟨hcl, hp, ⟨node', hn', hlen⟩, hsk⟩ := hpo
  rw [hnode] at hn'; injection hn' with hn'; subst hn'
  have hrel := decode_into_clean node.flat o.fds b hcl.1
  rw [hlen] at hrel
  have htot := (C13.decodeInto_total node.flat (cleanFds node.flat.length) b (by simp [cleanFds])).1
  cases hy : decodeInto node.flat (cleanFds node.flat.length) b with
  | panic => exact htot hy
  | ok ys =>
    cases hx : decodeInto node.flat o.fds b with
    | ok xs =>
      rw [hx, hy] at hrel
      simp only []
      refine ⟨s1.setObj nid { o with closed := false, fds := xs }, { o with closed := false, fds := xs }, rfl,
        w1.setDead nid _ hg hnp, hnp, by rw [obj_setObj]; simp, hp, hrel, hcl.2, rfl, hsk, ?_, rfl,
        fun _ => rfl, rfl, rfl⟩
      intro x hx'; rw [obj_setObj]; simp [hx']
    | err => rw [hx, hy] at hrel; exact hrel.elim
    | panic => rw [hx, hy] at hrel; exact hrel.elim
  | err =>
    cases hx : decodeInto node.flat o.fds b with
    | ok xs => rw [hx, hy] at hrel; exact hrel.elim
    | panic => rw [hx, hy] at hrel; exact hrel.elim
    | err =>
      simp only []
      refine ⟨_, rfl, ?_⟩
      have wA : W (s1.setObj nid { o with closed := false }) root G := w1.setDead nid _ hg hnp
      rw [closeRes_noClosers (s1.setObj nid { o with closed := false }) nid { o with closed := false }
        (by rw [obj_setObj]; simp) hcl.2 rfl]
      by_cases hs : o.skipClose = true
      · rw [if_pos hs]
        refine ⟨wA, ?_, rfl, fun _ => rfl, rfl, rfl⟩
        intro x hx' h; rw [obj_setObj]; simp [hx', h]
      · rw [if_neg hs]
        dsimp only
        have hnpA : ∀ p, nid ∉ (s1.setObj nid { o with closed := false }).pool p := hnp
        have wB := (wA.setDead nid { o with closed := true } hg hnpA).setDead nid
          (clearObj { o with closed := true }) hg hnpA
        have hob : ∀ x, x ≠ nid → s1.obj? x = none →
            (((s1.setObj nid { o with closed := false }).setObj nid { o with closed := true }).setObj nid
              (clearObj { o with closed := true })).obj? x = none := by
          intro x hx' h; rw [obj_setObj, obj_setObj, obj_setObj]; simp [hx', h]
        split
        · have wC := wB.poolAdd nid (clearObj { o with closed := true }) hg (by rw [obj_setObj]; simp)
            ⟨clearObj_cleared _, rfl, ⟨node, by simp [clearObj, hp, hnode], by simp [clearObj, hlen]⟩,
              by intro e; simp only [clearObj] at e ⊢; exact hsk (hp ▸ e)⟩ hnpA
          refine ⟨?_, ?_, rfl, fun _ => rfl, rfl, rfl⟩
          · exact wC
          · intro x hx' h; rw [obj_setPool]; exact hob x hx' h
        · exact ⟨wB, hob, rfl, fun _ => rfl, rfl, rfl⟩

theorem decodeAt (s : LState) (root : LDec) (G : GMap) (pth : List Nat) (node : LDec) (b : Bytes) (c : Choice)
    (hroot : s.root = root) (w : W s root G) (hnode : decAt root pth = some node) (hne : b.isEmpty = false)
    (hc : ChoiceIn s pth c) :
    match decodeInto node.flat (cleanFds node.flat.length) b with
    | .ok fds => ∃ s' nid o', decodeWithPool s pth b c = (s', .res nid) ∧ Frame s s' c ∧ W s' root G ∧ G nid = none ∧
        (∀ p, nid ∉ s'.pool p) ∧ s'.obj? nid = some o' ∧ o'.path = pth ∧ FdsEq o'.fds fds ∧ o'.closers = [] ∧
        o'.closed = false ∧ (pth = [] → o'.skipClose = false) ∧ (∀ x, x ≠ nid → s'.obj? x = s.obj? x)
    | .err => ∃ s', decodeWithPool s pth b c = (s', .err) ∧ Frame s s' c ∧ W s' root G
    | .panic => False := by
  unfold decodeWithPool
  simp only [hne, Bool.false_eq_true, if_false, hroot, hnode]
  cases c with
  | new id =>
    have hfresh : s.obj? id = none := hc
    have hg : G id = none := by
      cases h : G id with
      | none => rfl
      | some d => obtain ⟨o, _, _, h1, _⟩ := w.live id d h; rw [hfresh] at h1; cases h1
    have hnp : ∀ p, id ∉ s.pool p := by
      intro p hm
      obtain ⟨_, o, h1, _⟩ := w.pool p id hm
      rw [hfresh] at h1; cases h1
    have := decode_chosenN s root G pth node b id
      { path := pth, fds := cleanFds node.flat.length, closers := [], skipClose := false, closed := false }
      w hg hnp ⟨⟨by simp [cleanFds], rfl⟩, rfl, ⟨node, hnode, by simp [cleanFds]⟩, fun _ => rfl⟩ hnode
    dsimp only at this ⊢
    cases hy : decodeInto node.flat (cleanFds node.flat.length) b with
    | panic => rw [hy] at this; exact this
    | ok ys =>
      rw [hy] at this
      dsimp only at this ⊢
      obtain ⟨s', o', h1, h2, h3, h4, h5, h6, h7, h8, h9, h10, h11, h12, h13, h14⟩ := this
      refine ⟨s', id, o', h1, ⟨h11, h12, h13, h14, ?_⟩, h2, hg, h3, h4, h5, h6, h7, h8, h9, h10⟩
      intro x hx hcx
      have : x ≠ id := fun e => hcx (by rw [e])
      rw [h10 x this]; exact hx
    | err =>
      rw [hy] at this
      dsimp only at this ⊢
      obtain ⟨s', h1, h2, h3, h11, h12, h13, h14⟩ := this
      refine ⟨s', h1, ⟨h11, h12, h13, h14, ?_⟩, h2⟩
      intro x hx hcx
      have : x ≠ id := fun e => hcx (by rw [e])
      exact h3 x this hx
  | reuse id =>
    have hin : id ∈ s.pool pth := hc
    obtain ⟨hg, o, ho, hpo⟩ := w.pool pth id hin
    have hcont : (s.pool pth).contains id = true := by simpa using hin
    have w1 := w.poolErase pth id
    have hnp : ∀ p, id ∉ (s.setPool pth ((s.pool pth).erase id)).pool p := by
      intro p hm
      rw [pool_setPool] at hm
      by_cases e : p = pth
      · simp only [e, if_true] at hm
        exact (((w.nodup pth).mem_erase_iff).mp hm).1 rfl
      · simp only [e, if_false] at hm
        obtain ⟨_, o2, ho2, hpo2⟩ := w.pool p id hm
        rw [ho] at ho2; injection ho2 with ho2; subst ho2
        exact e (hpo2.2.1.symm.trans hpo.2.1)
    have := decode_chosenN (s.setPool pth ((s.pool pth).erase id)) root G pth node b id o w1 hg hnp hpo hnode
    simp only [hcont, if_true, ho, Option.map_some]
    dsimp only at this ⊢
    cases hy : decodeInto node.flat (cleanFds node.flat.length) b with
    | panic => rw [hy] at this; exact this
    | ok ys =>
      rw [hy] at this
      dsimp only at this ⊢
      obtain ⟨s', o', h1, h2, h3, h4, h5, h6, h7, h8, h9, h10, h11, h12, h13, h14⟩ := this
      refine ⟨s', id, o', h1, ⟨h11, h12, h13, h14, ?_⟩, h2, hg, h3, h4, h5, h6, h7, h8, h9, h10⟩
      intro x hx hcx
      have : x ≠ id := fun e => by rw [e, ho] at hx; cases hx
      rw [h10 x this, obj_setPool]; exact hx
    | err =>
      rw [hy] at this
      dsimp only at this ⊢
      obtain ⟨s', h1, h2, h3, h11, h12, h13, h14⟩ := this
      refine ⟨s', h1, ⟨h11, h12, h13, h14, ?_⟩, h2⟩
      intro x hx hcx
      have : x ≠ id := fun e => by rw [e, ho] at hx; cases hx
      exact h3 x this (by rw [obj_setPool]; exact hx)

/-! ## 4. attaching a nested result to its parent -/

/-- the common core of `NestedResult` and of one round of `NestedResults` -/
def attach (s : LState) (id : Nat) (pth : List Nat) (b : Bytes) (c : Choice) : LState × LOut × Option (Option Nat) :=
  match decodeWithPool s pth b c with
  | (s1, .res nid) =>
    match s1.obj? nid, s1.obj? id with
    | some no, some o1 =>
      ((s1.setObj nid { no with skipClose := true }).setObj id { o1 with closers := o1.closers ++ [nid] }, .ok, some (some nid))
    | _, _ => (s1, .panic, none)
  | (s1, .nil) => (s1, .nil, some none)
  | (s1, .err) => (s1, .err, none)
  | (s1, .panic) => (s1, .panic, none)
  | (s1, .notPooled) => (s1, .notPooled, none)

theorem attach_nil (s : LState) (id : Nat) (pth : List Nat) (b : Bytes) (c : Choice) (hb : b.isEmpty = true) :
    attach s id pth b c = (s, .nil, some none) := by
  simp [attach, decodeWithPool, hb]

/-- the invariant after a successful attach -/
theorem W.attach {s1 : LState} {root : LDec} {G : GMap} (w1 : W s1 root G) (id nid : Nat) (d : Ghost) (t : Nat)
    (b : Bytes) (sub : LDec) (fds' : List FD) (o1 no : LObj)
    (hd : G id = some d) (hg : G nid = none) (hnp : ∀ p, nid ∉ s1.pool p) (ho1 : s1.obj? id = some o1)
    (hno : s1.obj? nid = some no) (hsub : decAt root (d.path ++ [t]) = some sub)
    (hdec : decodeInto sub.flat (cleanFds sub.flat.length) b = .ok fds') (hp : no.path = d.path ++ [t])
    (heq : FdsEq no.fds fds') (hcl : no.closers = []) (hop : no.closed = false) :
    W ((s1.setObj nid { no with skipClose := true }).setObj id { o1 with closers := o1.closers ++ [nid] }) root
      (G.set nid ⟨b, d.path ++ [t], d.gen⟩) := by
  have hne : id ≠ nid := fun e => by rw [e, hg] at hd; cases hd
  have hobj : ∀ x, ((s1.setObj nid { no with skipClose := true }).setObj id { o1 with closers := o1.closers ++ [nid] }).obj? x =
      if x = id then some { o1 with closers := o1.closers ++ [nid] } else
      if x = nid then some { no with skipClose := true } else s1.obj? x := by
    intro x; rw [obj_setObj, obj_setObj]
  obtain ⟨o1', node1, fds1, ho1', l1⟩ := w1.live id d hd
  rw [ho1] at ho1'; injection ho1' with ho1'; subst ho1'
  have hkidsG : ∀ i di oi, G i = some di → s1.obj? i = some oi → nid ∉ oi.closers := by
    intro i di oi hi hoi hm
    obtain ⟨oi', _, _, h1, l⟩ := w1.live i di hi
    rw [hoi] at h1; injection h1 with h1; subst h1
    obtain ⟨dc, h2, _⟩ := l.kids nid hm
    rw [hg] at h2; cases h2
  have hset : ∀ x, x ≠ nid → (G.set nid ⟨b, d.path ++ [t], d.gen⟩) x = G x := by
    intro x hx; simp [GMap.set, hx]
  have hsetn : (G.set nid ⟨b, d.path ++ [t], d.gen⟩) nid = some ⟨b, d.path ++ [t], d.gen⟩ := by simp [GMap.set]
  -- closers of a G-live object, after the step
  have hclo : ∀ i di oi', G i = some di → ((s1.setObj nid { no with skipClose := true }).setObj id
      { o1 with closers := o1.closers ++ [nid] }).obj? i = some oi' →
      ∃ oi, s1.obj? i = some oi ∧ ((i = id ∧ oi'.closers = oi.closers ++ [nid]) ∨ (i ≠ id ∧ oi' = oi)) := by
    intro i di oi' hi hoi'
    have hin : i ≠ nid := fun e => by rw [e, hg] at hi; cases hi
    rw [hobj] at hoi'
    by_cases e : i = id
    · simp only [e, if_true] at hoi'; injection hoi' with hoi'; subst hoi'
      exact ⟨o1, by rw [e]; exact ho1, Or.inl ⟨e, rfl⟩⟩
    · simp only [e, hin, if_false] at hoi'
      exact ⟨oi', hoi', Or.inr ⟨e, rfl⟩⟩
  refine ⟨?_, ?_, ?_, ?_⟩
  · intro x dx hx
    by_cases e : x = nid
    · rw [e, hsetn] at hx; injection hx with hx; subst hx
      refine ⟨{ no with skipClose := true }, sub, fds', by rw [hobj]; simp [e, hne.symm], ?_⟩
      exact { hpath := hp, hnode := hsub, hdec := hdec, eq := heq, opn := hop, skip := by simp,
              nodup := by simp [hcl], kids := by intro c hc; simp [hcl] at hc }
    · rw [hset x e] at hx
      obtain ⟨ox, nodex, fdsx, hox, lx⟩ := w1.live x dx hx
      by_cases e2 : x = id
      · subst e2
        rw [hd] at hx; injection hx with hx; subst hx
        rw [ho1] at hox; injection hox with hox; subst hox
        refine ⟨{ o1 with closers := o1.closers ++ [nid] }, nodex, fdsx, by rw [hobj]; simp, ?_⟩
        exact { hpath := lx.hpath, hnode := lx.hnode, hdec := lx.hdec, eq := lx.eq, opn := lx.opn, skip := lx.skip,
                nodup := by
                  refine List.nodup_append.mpr ⟨lx.nodup, by simp, ?_⟩
                  intro a ha b' hb'; simp at hb'; subst hb'
                  exact fun e' => hkidsG x d o1 hd ho1 (e' ▸ ha),
                kids := by
                  intro c hc
                  rcases List.mem_append.mp hc with hc | hc
                  · have hcn : c ≠ nid := fun e' => hkidsG x d o1 hd ho1 (e' ▸ hc)
                    rw [hset c hcn]; exact lx.kids c hc
                  · have : c = nid := by simpa using hc
                    subst this
                    exact ⟨_, hsetn, rfl, by simp⟩ }
      · refine ⟨ox, nodex, fdsx, by rw [hobj]; simp [e, e2, hox], lx.mono ?_⟩
        intro c hc
        exact hset c (fun e' => hkidsG x dx ox hx hox (e' ▸ hc))
  · intro i1 i2 d1 d2 o1' o2' c a1 a2 h1 h2 m1 m2
    have n1 : i1 ≠ nid := by
      intro e; rw [e, hobj] at h1; simp only [hne.symm, if_false, if_true] at h1
      injection h1 with h1; subst h1; simp [hcl] at m1
    have n2 : i2 ≠ nid := by
      intro e; rw [e, hobj] at h2; simp only [hne.symm, if_false, if_true] at h2
      injection h2 with h2; subst h2; simp [hcl] at m2
    rw [hset i1 n1] at a1; rw [hset i2 n2] at a2
    obtain ⟨p1, hp1, c1⟩ := hclo i1 d1 o1' a1 h1
    obtain ⟨p2, hp2, c2⟩ := hclo i2 d2 o2' a2 h2
    by_cases ec : c = nid
    · have e1 : i1 = id := by
        rcases c1 with ⟨e, _⟩ | ⟨_, e⟩
        · exact e
        · subst e; exact absurd (ec ▸ m1) (hkidsG i1 d1 o1' a1 hp1)
      have e2 : i2 = id := by
        rcases c2 with ⟨e, _⟩ | ⟨_, e⟩
        · exact e
        · subst e; exact absurd (ec ▸ m2) (hkidsG i2 d2 o2' a2 hp2)
      rw [e1, e2]
    · have m1' : c ∈ p1.closers := by
        rcases c1 with ⟨_, e⟩ | ⟨_, e⟩
        · rw [e] at m1; rcases List.mem_append.mp m1 with h | h
          · exact h
          · exact absurd (by simpa using h) ec
        · rw [← e]; exact m1
      have m2' : c ∈ p2.closers := by
        rcases c2 with ⟨_, e⟩ | ⟨_, e⟩
        · rw [e] at m2; rcases List.mem_append.mp m2 with h | h
          · exact h
          · exact absurd (by simpa using h) ec
        · rw [← e]; exact m2
      exact w1.forest i1 i2 d1 d2 p1 p2 c a1 a2 hp1 hp2 m1' m2'
  · intro p x hm
    have hm' : x ∈ s1.pool p := hm
    obtain ⟨hgx, ox, hox, hpo⟩ := w1.pool p x hm'
    have n1 : x ≠ nid := fun e => hnp p (e ▸ hm')
    have n2 : x ≠ id := fun e => by rw [e, hd] at hgx; cases hgx
    exact ⟨by rw [hset x n1]; exact hgx, ox, by rw [hobj]; simp [n1, n2, hox], hpo⟩
  · intro p; exact w1.nodup p

theorem attach_spec (s : LState) (root : LDec) (G : GMap) (id : Nat) (d : Ghost) (t : Nat) (b : Bytes) (c : Choice)
    (sub : LDec) (hroot : s.root = root) (w : W s root G) (hd : G id = some d)
    (hsub : decAt root (d.path ++ [t]) = some sub) (hne : b.isEmpty = false) (hc : ChoiceIn s (d.path ++ [t]) c) :
    match decodeInto sub.flat (cleanFds sub.flat.length) b with
    | .ok _ => ∃ s' nid, attach s id (d.path ++ [t]) b c = (s', .ok, some (some nid)) ∧ Frame s s' c ∧ G nid = none ∧
        W s' root (G.set nid ⟨b, d.path ++ [t], d.gen⟩)
    | .err => ∃ s', attach s id (d.path ++ [t]) b c = (s', .err, none) ∧ Frame s s' c ∧ W s' root G
    | .panic => False := by
  have := decodeAt s root G (d.path ++ [t]) sub b c hroot w hsub hne hc
  cases hy : decodeInto sub.flat (cleanFds sub.flat.length) b with
  | panic => rw [hy] at this; exact this
  | err =>
    rw [hy] at this
    obtain ⟨s', h1, h2, h3⟩ := this
    exact ⟨s', by simp only [attach, h1], h2, h3⟩
  | ok fds' =>
    rw [hy] at this
    obtain ⟨s1, nid, no, h1, fr, w1, hg, hnp, hno, hp, heq, hcl, hop, _, hsame⟩ := this
    have hne' : id ≠ nid := fun e => by rw [e, hg] at hd; cases hd
    obtain ⟨o1, _, _, ho1, _⟩ := w.live id d hd
    have ho1' : s1.obj? id = some o1 := by rw [hsame id hne']; exact ho1
    refine ⟨_, nid, by simp only [attach, h1, hno, ho1'], ?_, hg,
      w1.attach id nid d t b sub fds' o1 no hd hg hnp ho1' hno hsub hy hp heq hcl hop⟩
    refine ⟨fr.root, fr.handles, fr.anon, fr.rootPooled, ?_⟩
    intro x hx hcx
    have hx1 := fr.born x hx hcx
    rw [obj_setObj, obj_setObj]
    have n1 : x ≠ id := fun e => by rw [e, ho1'] at hx1; cases hx1
    have n2 : x ≠ nid := fun e => by rw [e, hno] at hx1; cases hx1
    simp [n1, n2, hx1]

/-! ## 5. the pool-free specification with nested handles -/

inductive NH where
  | nilRes
  | live (bytes : Bytes) (path : List Nat) (gen : Nat)
  | closed
deriving DecidableEq

structure NSpec where
  root : LDec
  handles : List (Nat × NH)
  justClosed : Option Nat
  gen : Nat                      -- number of root results created so far (names the next one)

def NSpec.init (root : LDec) : NSpec := { root := root, handles := [], justClosed := none, gen := 0 }

def NSpec.handle? (sp : NSpec) (h : Nat) : Option NH := (sp.handles.find? (·.1 = h)).map (·.2)
def NSpec.setHandle (sp : NSpec) (h : Nat) (v : NH) : NSpec :=
  { sp with handles := (h, v) :: sp.handles.filter (·.1 ≠ h) }
def NSpec.clr (sp : NSpec) : NSpec := { sp with justClosed := none }

/-- what a brand-new object of the decoder node at `p` holds after decoding `b` -/
def view (root : LDec) (p : List Nat) (b : Bytes) : Option (LDec × List FD) :=
  match decAt root p with
  | none => none
  | some node =>
    match decodeInto node.flat (cleanFds node.flat.length) b with
    | .ok fds => some (node, fds)
    | _ => none

/-- the outcome of decoding the sub-message `pb` with a brand-new object of decoder `sub` -/
def subOut (sub : LDec) (pb : Bytes) : LOut :=
  if pb.isEmpty then .nil else
  match decodeInto sub.flat (cleanFds sub.flat.length) pb with
  | .ok _ => .ok
  | .err => .err
  | .panic => .panic

def closeGen (g : Nat) : NH → NH
  | .live b p g' => if g' = g then .closed else .live b p g'
  | v => v

/-- closing the root result of generation `g` closes every handle that descends from it -/
def NSpec.closeAll (sp : NSpec) (g : Nat) : NSpec :=
  { sp with handles := sp.handles.map fun e => (e.1, closeGen g e.2) }

def specNesteds (sub : LDec) (p : List Nat) (t g : Nat) :
    NSpec → List Bytes → List Nat → List Choice → List Bool → NSpec × LOut
  | sp, [], _, _, acc => (sp, .many acc)
  | sp, b :: bs, h :: hs, _ :: cs, acc =>
    match subOut sub b with
    | .ok => specNesteds sub p t g (sp.setHandle h (.live b (p ++ [t]) g)) bs hs cs (acc ++ [true])
    | .nil => specNesteds sub p t g (sp.setHandle h .nilRes) bs hs cs (acc ++ [false])
    | out => (sp, out)
  | sp, _, _, _, _ => (sp, .badHandle)

/-- the specification: every answer is computed from the handle's own bytes by a brand-new object -/
def NSpec.step (sp : NSpec) : LOp → NSpec × LOut
  | .decode h input _ =>
    if input.isEmpty then ((sp.setHandle h .nilRes).clr, .nil) else
    match fresh sp.root input with
    | .ok _ => ({ (sp.setHandle h (.live input [] sp.gen)).clr with gen := sp.gen + 1 }, .ok)
    | .err => (sp.clr, .err)
    | .panic => (sp.clr, .panic)
  | .acc h path a =>
    (sp.clr,
     match sp.handle? h with
     | none => .badHandle
     | some .closed => .badHandle
     | some .nilRes => .ans (lookupPath (path.length + 1) sp.root none (path.map Int.natAbs) a)
     | some (.live b p _) =>
       match view sp.root p b with
       | some (node, fds) => .ans (lookupPath (path.length + 1) node (some fds) (path.map Int.natAbs) a)
       | none => .ans .panic)
  | .range h =>
    (sp.clr,
     match sp.handle? h with
     | none => .badHandle
     | some .closed => .badHandle
     | some .nilRes => .tags []
     | some (.live b p _) =>
       match view sp.root p b with
       | some (node, fds) => .tags (tagsOf node fds)
       | none => .panic)
  | .close h =>
    match sp.handle? h with
    | none => (sp.clr, .badHandle)
    | some .nilRes => (sp.clr, .ok)
    | some (.live _ p g) =>
      if p.isEmpty then ({ sp.closeAll g with justClosed := some h }, .ok)   -- a root result
      else (sp.clr, .ok)                                                       -- `Close` on a nested result has no effect
    | some .closed => (sp, .ok)
  | .nested h tag h' _ =>
    match sp.handle? h with
    | none => (sp.clr, .badHandle)
    | some .closed => (sp.clr, .badHandle)
    | some .nilRes => (sp.clr, .ans .notDefined)
    | some (.live b p g) =>
      match view sp.root p b with
      | none => (sp.clr, .panic)
      | some (node, fds) =>
        match nestedSelect node fds tag.natAbs with
        | .ans a => (sp.clr, .ans a)
        | .payload sub pb =>
          match subOut sub pb with
          | .ok => ((sp.setHandle h' (.live pb (p ++ [tag.natAbs]) g)).clr, .ok)
          | .nil => ((sp.setHandle h' .nilRes).clr, .nil)
          | out => (sp.clr, out)
  | .nesteds h tag hs cs =>
    match sp.handle? h with
    | none => (sp.clr, .badHandle)
    | some .closed => (sp.clr, .badHandle)
    | some .nilRes => (sp.clr, .ans .notDefined)
    | some (.live b p g) =>
      match view sp.root p b with
      | none => (sp.clr, .panic)
      | some (node, fds) =>
        let t := tag.natAbs
        if node.nested.isEmpty then (sp.clr, .ans .notDefined) else
        match node.sub t, idxOf? node.flat t with
        | none, _ => (sp.clr, .ans .notDefined)
        | _, none => (sp.clr, .ans .notDefined)
        | some sub, some i =>
          match fds[i]? with
          | none => (sp.clr, .panic)
          | some fd =>
            if fd.data.isEmpty then (sp.clr, .ans .notFound)
            else specNesteds sub p t g sp.clr fd.data hs cs []

/-! ### the API contract -/

/-- a choice the pool of node `pth` can make: a brand-new object (client-visible ids stay below the
    counter the machine uses for the results it allocates behind `FieldData(path…)`), or any pooled one -/
def ChoiceOKN (s : LState) (pth : List Nat) : Choice → Prop
  | .new id => s.obj? id = none ∧ id < s.anon
  | .reuse id => id ∈ s.pool pth

/-- one round of `NestedResults` -/
def nestedsRound (s : LState) (id : Nat) (pth : List Nat) (b : Bytes) (h : Nat) (c : Choice) : LState × LOut :=
  match attach s id pth b c with
  | (s1, out, some v) => (s1.setHandle h v, out)
  | (s1, out, none) => (s1, out)

/-- the pool's choices during `NestedResults`: each one is possible in the state it is made in -/
def NestedsOK (id : Nat) (pth : List Nat) : LState → List Bytes → List Nat → List Choice → Prop
  | s, b :: bs, h :: hs, c :: cs =>
    (b.isEmpty = false → ChoiceOKN s pth c) ∧ NestedsOK id pth (nestedsRound s id pth b h c).1 bs hs cs
  | _, _, _, _ => True

/-- the sub-message `NestedResult(t)` on handle `h` decodes, if it decodes one -/
def NSpec.payload? (sp : NSpec) (h : Nat) (t : Nat) : Option (List Nat × Bytes) :=
  match sp.handle? h with
  | some (.live b p _) =>
    match view sp.root p b with
    | some (node, fds) =>
      match nestedSelect node fds t with
      | .payload _ pb => if pb.isEmpty then none else some (p ++ [t], pb)
      | _ => none
    | none => none
  | _ => none

/-- the API contract for one operation: no use after `Close` — of the result itself or, for a nested
    result, of the root result it descends from (an immediately repeated `Close` excepted) — and the
    pool's choices are choices it can make -/
def NOpOK (s : LState) (sp : NSpec) : LOp → Prop
  | .decode _ input c => input.isEmpty = false → ChoiceOKN s [] c
  | .acc h _ _ => sp.handle? h ≠ some .closed
  | .range h => sp.handle? h ≠ some .closed
  | .close h => sp.handle? h = some .closed → sp.justClosed = some h
  | .nested h tag _ c => sp.handle? h ≠ some .closed ∧
      ∀ pth pb, sp.payload? h tag.natAbs = some (pth, pb) → ChoiceOKN s pth c
  | .nesteds h tag hs cs => sp.handle? h ≠ some .closed ∧
      ∀ id o node i fd, s.handle? h = some (some id) → s.obj? id = some o → decAt s.root o.path = some node →
        idxOf? node.flat tag.natAbs = some i → o.fds[i]? = some fd →
        NestedsOK id (o.path ++ [tag.natAbs]) s fd.data hs cs

/-! ### the refinement relation -/

def HRel (s : LState) (G : GMap) (h : Nat) : Option NH → Prop
  | none => s.handle? h = none
  | some .nilRes => s.handle? h = some none
  | some (.live b p g) => ∃ id, s.handle? h = some (some id) ∧ G id = some ⟨b, p, g⟩
  | some .closed => True

structure Inv (s : LState) (sp : NSpec) (G : GMap) : Prop where
  root : s.root = sp.root
  anon : ∀ x, s.anon ≤ x → s.obj? x = none
  w : W s sp.root G
  gens : ∀ id d, G id = some d → d.gen < sp.gen
  hs : ∀ h, HRel s G h (sp.handle? h)
  jc : ∀ h, sp.justClosed = some h → ∃ id o, s.handle? h = some (some id) ∧ s.obj? id = some o ∧ o.closed = true

theorem nhandle_setHandle (sp : NSpec) (h h' : Nat) (v : NH) :
    (sp.setHandle h v).handle? h' = if h' = h then some v else sp.handle? h' := by
  unfold NSpec.setHandle NSpec.handle?
  by_cases e : h' = h
  · subst e; simp
  · have hne : ¬ (h = h') := fun x => e x.symm
    simp only [e, if_false, List.find?_cons, hne, decide_false]
    rw [find_filter_ne h h' e]

theorem nhandle_closeAll (sp : NSpec) (g h : Nat) : (sp.closeAll g).handle? h = (sp.handle? h).map (closeGen g) := by
  unfold NSpec.closeAll NSpec.handle?
  simp only
  generalize sp.handles = l
  induction l with
  | nil => rfl
  | cons e l ih =>
    simp only [List.map_cons, List.find?_cons]
    by_cases he : e.1 = h
    · simp [he]
    · simp only [he, decide_false]; exact ih

theorem Inv.init (root : LDec) (pooled : Bool) : Inv (LState.init root pooled) (NSpec.init root) (fun _ => none) where
  root := rfl
  anon := by intro x _; simp [LState.init, LState.obj?]
  w := { live := by intro id d h; cases h
         forest := by intro i1 i2 d1 d2 o1 o2 c a; cases a
         pool := by intro p id h; simp [LState.init, LState.pool] at h
         nodup := by intro p; simp [LState.init, LState.pool] }
  gens := by intro id d h; cases h
  hs := by intro h; simp [NSpec.init, NSpec.handle?, HRel, LState.init, LState.handle?]
  jc := by intro h e; simp [NSpec.init] at e

theorem HRel.mono {s s' : LState} {G G' : GMap} {h : Nat} {v : Option NH} (r : HRel s G h v)
    (hh : s'.handle? h = s.handle? h) (hsub : ∀ x dx, G x = some dx → G' x = some dx) : HRel s' G' h v := by
  cases v with
  | none => simp only [HRel] at r ⊢; rw [hh]; exact r
  | some nv =>
    cases nv with
    | nilRes => simp only [HRel] at r ⊢; rw [hh]; exact r
    | closed => trivial
    | live b p g =>
      simp only [HRel] at r ⊢
      obtain ⟨id, h1, h2⟩ := r
      exact ⟨id, by rw [hh]; exact h1, hsub _ _ h2⟩

/-- the machine moved on without touching handles; the live objects were kept (and maybe more became live) -/
theorem Inv.grow {s s' : LState} {sp : NSpec} {G G' : GMap} (r : Inv s sp G) (hroot : s'.root = s.root)
    (hh : ∀ h, s'.handle? h = s.handle? h) (hanon : ∀ x, s'.anon ≤ x → s'.obj? x = none) (w' : W s' sp.root G')
    (hsub : ∀ x dx, G x = some dx → G' x = some dx) (hg : ∀ x dx, G' x = some dx → dx.gen < sp.gen) :
    Inv s' sp.clr G' where
  root := hroot.trans r.root
  anon := hanon
  w := w'
  gens := hg
  hs := fun h => (r.hs h).mono (hh h) hsub
  jc := by intro h e; cases e

theorem Inv.clear {s : LState} {sp : NSpec} {G : GMap} (r : Inv s sp G) : Inv s sp.clr G :=
  r.grow rfl (fun _ => rfl) r.anon r.w (fun _ _ h => h) r.gens

theorem Inv.bump {s : LState} {sp : NSpec} {G : GMap} (r : Inv s sp G) : Inv s { sp with gen := sp.gen + 1 } G where
  root := r.root
  anon := r.anon
  w := r.w
  gens := fun id d h => Nat.lt_succ_of_lt (r.gens id d h)
  hs := r.hs
  jc := r.jc

theorem Inv.setNil {s : LState} {sp : NSpec} {G : GMap} (r : Inv s sp G) (h : Nat) :
    Inv (s.setHandle h none) (sp.setHandle h .nilRes).clr G where
  root := r.root
  anon := r.anon
  w := r.w.ext (fun _ => rfl) (fun _ => rfl)
  gens := r.gens
  hs := by
    intro h'
    show HRel _ G h' ((sp.setHandle h .nilRes).handle? h')
    rw [nhandle_setHandle]
    by_cases e : h' = h
    · simp only [e, if_true, HRel, handle_setHandle]
    · simp only [e, if_false]
      exact (r.hs h').mono (by rw [handle_setHandle]; simp [e]) (fun _ _ h => h)
  jc := by intro h e; cases e

theorem Inv.setLive {s : LState} {sp : NSpec} {G : GMap} (r : Inv s sp G) (h id : Nat) (b : Bytes) (p : List Nat)
    (g : Nat) (hg : G id = some ⟨b, p, g⟩) :
    Inv (s.setHandle h (some id)) (sp.setHandle h (.live b p g)).clr G where
  root := r.root
  anon := r.anon
  w := r.w.ext (fun _ => rfl) (fun _ => rfl)
  gens := r.gens
  hs := by
    intro h'
    show HRel _ G h' ((sp.setHandle h (.live b p g)).handle? h')
    rw [nhandle_setHandle]
    by_cases e : h' = h
    · simp only [e, if_true, HRel, handle_setHandle]
      exact ⟨id, rfl, hg⟩
    · simp only [e, if_false]
      exact (r.hs h').mono (by rw [handle_setHandle]; simp [e]) (fun _ _ h => h)
  jc := by intro h e; cases e

/-- a new leaf of the forest (used for root results; nested ones go through `W.attach`) -/
theorem W.addLeaf {s : LState} {root : LDec} {G : GMap} (w : W s root G) (nid : Nat) (dn : Ghost) (no : LObj)
    (node : LDec) (fds : List FD) (hg : G nid = none) (hnp : ∀ p, nid ∉ s.pool p) (hno : s.obj? nid = some no)
    (l : LiveObj root G dn no node fds) (hcl : no.closers = []) : W s root (G.set nid dn) := by
  have hkids : ∀ i di oi, G i = some di → s.obj? i = some oi → ∀ c ∈ oi.closers, (G.set nid dn) c = G c := by
    intro i di oi hi hoi c hc
    obtain ⟨oi', _, _, h1, li⟩ := w.live i di hi
    rw [hoi] at h1; injection h1 with h1; subst h1
    obtain ⟨dc, h2, _⟩ := li.kids c hc
    have : c ≠ nid := fun e => by rw [e, hg] at h2; cases h2
    simp [GMap.set, this]
  refine ⟨?_, ?_, ?_, w.nodup⟩
  · intro x dx hx
    by_cases e : x = nid
    · simp only [GMap.set, e, if_true] at hx; injection hx with hx; subst hx
      refine ⟨no, node, fds, by rw [e]; exact hno, l.mono ?_⟩
      intro c hc; rw [hcl] at hc; cases hc
    · simp only [GMap.set, e, if_false] at hx
      obtain ⟨ox, nodex, fdsx, hox, lx⟩ := w.live x dx hx
      exact ⟨ox, nodex, fdsx, hox, lx.mono (hkids x dx ox hx hox)⟩
  · intro i1 i2 d1 d2 o1 o2 c a1 a2 h1 h2 m1 m2
    have n1 : i1 ≠ nid := by
      intro e; rw [e, hno] at h1; injection h1 with h1; subst h1; rw [hcl] at m1; cases m1
    have n2 : i2 ≠ nid := by
      intro e; rw [e, hno] at h2; injection h2 with h2; subst h2; rw [hcl] at m2; cases m2
    simp only [GMap.set, n1, n2, if_false] at a1 a2
    exact w.forest i1 i2 d1 d2 o1 o2 c a1 a2 h1 h2 m1 m2
  · intro p x hm
    obtain ⟨h1, h2⟩ := w.pool p x hm
    have : x ≠ nid := fun e => hnp p (e ▸ hm)
    exact ⟨by simp [GMap.set, this, h1], h2⟩

theorem gset_sub (G : GMap) (nid : Nat) (dn : Ghost) (hg : G nid = none) : ∀ x dx, G x = some dx → (G.set nid dn) x = some dx := by
  intro x dx h
  have : x ≠ nid := fun e => by rw [e, hg] at h; cases h
  simp [GMap.set, this, h]

theorem frame_anon {s s' : LState} {c : Choice} (fr : Frame s s' c) (ha : ∀ x, s.anon ≤ x → s.obj? x = none)
    (hc : ∀ x, c = .new x → x < s.anon) : ∀ x, s'.anon ≤ x → s'.obj? x = none := by
  intro x hx
  rw [fr.anon] at hx
  exact fr.born x (ha x hx) (fun e => by have := hc x e; omega)

theorem choiceIn_of_ok {s : LState} {pth : List Nat} {c : Choice} (h : ChoiceOKN s pth c) :
    ChoiceIn s pth c ∧ ∀ x, c = .new x → x < s.anon := by
  cases c with
  | new id => exact ⟨h.1, fun x e => by injection e with e; subst e; exact h.2⟩
  | reuse id => exact ⟨h, fun x e => by cases e⟩

/-! ## 6. one step: same output, and the invariant is kept -/

def StepOK (s : LState) (sp : NSpec) (op : LOp) : Prop :=
  (s.step op).2 = (sp.step op).2 ∧ ∃ G', Inv (s.step op).1 (sp.step op).1 G'

theorem step_decode (s : LState) (sp : NSpec) (G : GMap) (r : Inv s sp G) (h : Nat) (input : Bytes) (c : Choice)
    (hok : NOpOK s sp (.decode h input c)) : StepOK s sp (.decode h input c) := by
  unfold StepOK
  by_cases hemp : input.isEmpty = true
  · simp only [LState.step, decodeWithPool, hemp, if_true, NSpec.step]
    exact ⟨trivial, G, r.setNil h⟩
  · have hne : input.isEmpty = false := by simpa using hemp
    obtain ⟨hin, hlt⟩ := choiceIn_of_ok (hok hne)
    have hd := decodeAt s sp.root G [] sp.root input c r.root r.w (decAt_root _) hne hin
    simp only [LState.step, NSpec.step, hne, Bool.false_eq_true, if_false, fresh]
    cases hy : decodeInto sp.root.flat (cleanFds sp.root.flat.length) input with
    | panic => rw [hy] at hd; exact hd.elim
    | err =>
      rw [hy] at hd
      obtain ⟨s', h1, fr, w'⟩ := hd
      simp only [h1]
      exact ⟨trivial, G, r.grow fr.root fr.handles (frame_anon fr r.anon hlt) w' (fun _ _ h => h) r.gens⟩
    | ok fds =>
      rw [hy] at hd
      obtain ⟨s', nid, o', h1, fr, w', hg, hnp, hno, hp, heq, hcl, hop, hsk, _⟩ := hd
      simp only [h1]
      refine ⟨trivial, G.set nid ⟨input, [], sp.gen⟩, ?_⟩
      have l : LiveObj sp.root G ⟨input, [], sp.gen⟩ o' sp.root fds :=
        { hpath := hp, hnode := decAt_root _, hdec := hy, eq := heq, opn := hop, skip := by simp [hsk rfl],
          nodup := by simp [hcl], kids := by intro c hc; simp [hcl] at hc }
      have w2 := w'.addLeaf nid ⟨input, [], sp.gen⟩ o' sp.root fds hg hnp hno l hcl
      have r2 : Inv s' ({ sp with gen := sp.gen + 1 } : NSpec).clr (G.set nid ⟨input, [], sp.gen⟩) :=
        r.bump.grow fr.root fr.handles (frame_anon fr r.anon hlt) w2 (gset_sub G nid _ hg) (by
          intro x dx hx
          by_cases e : x = nid
          · simp only [GMap.set, e, if_true] at hx; injection hx with hx; subst hx; exact Nat.lt_succ_self _
          · simp only [GMap.set, e, if_false] at hx; exact Nat.lt_succ_of_lt (r.gens x dx hx))
      exact r2.setLive h nid input [] sp.gen (by simp [GMap.set])

theorem root_detached {s : LState} {root : LDec} {G : GMap} (w : W s root G) (id : Nat) (d : Ghost) (hd : G id = some d)
    (hp : d.path = []) : Detached s G id := by
  intro i di oi hi hoi hm
  obtain ⟨oi', _, _, h1, li⟩ := w.live i di hi
  rw [hoi] at h1; injection h1 with h1; subst h1
  obtain ⟨dc, h2, _, h3⟩ := li.kids id hm
  rw [hd] at h2; injection h2 with h2; subst h2
  rw [hp] at h3; simp at h3

theorem closeRes_skip (s : LState) (id : Nat) (o : LObj) (ho : s.obj? id = some o) (h : o.skipClose = true ∨ o.closed = true) :
    closeRes s id = s := by
  unfold closeRes; simp only [ho]; rw [if_pos h]

theorem closeRes_open (s : LState) (id : Nat) (o : LObj) (ho : s.obj? id = some o) (h1 : o.skipClose = false)
    (h2 : o.closed = false) :
    closeRes s id = closeObj (s.objs.length + 1) (s.setObj id { o with closed := true }) id := by
  unfold closeRes; simp only [ho]; rw [if_neg (by simp [h1, h2])]

/-- closing a live root result -/
theorem close_root (s : LState) (sp : NSpec) (G : GMap) (r : Inv s sp G) (h id : Nat) (b : Bytes) (g : Nat)
    (hh : s.handle? h = some (some id)) (hd : G id = some ⟨b, [], g⟩) :
    ∃ G', Inv (closeRes s id) { sp.closeAll g with justClosed := some h } G' := by
  obtain ⟨o, node, fds, ho, l⟩ := r.w.live id _ hd
  have hsk : o.skipClose = false := by simpa using l.skip
  rw [closeRes_open s id o ho hsk l.opn]
  have hdet := root_detached r.w id _ hd rfl
  have hrem : (G.rem id) id = none := by simp [GMap.rem]
  have hnp := fun p => r.w.unpooled hd p
  have w1 : W (s.setObj id { o with closed := true }) sp.root (G.rem id) :=
    (r.w.rem id hdet).setDead id _ hrem hnp
  have hkids : ∀ c ∈ o.closers, ∃ dc, (G.rem id) c = some dc ∧ dc.gen = g ∧ dc.path.length = 0 + 1 ∧
      Detached (s.setObj id { o with closed := true }) (G.rem id) c := by
    intro c hc
    obtain ⟨dc, h1, h2, h3⟩ := l.kids c hc
    have hne : c ≠ id := by
      intro e; rw [e, hd] at h1; injection h1 with h1; subst h1; simp at h3
    refine ⟨dc, by simp [GMap.rem, hne, h1], h2, by simpa using h3, ?_⟩
    intro i di oi hi hoi hm
    unfold GMap.rem at hi
    by_cases e : i = id
    · simp [e] at hi
    · simp only [e, if_false] at hi
      rw [obj_setObj] at hoi; simp only [e, if_false] at hoi
      exact e (r.w.forest i id di _ oi o c hi hd hoi ho hm hc)
  obtain ⟨G', w', sh, _, _⟩ := closeObj_spec sp.root (s.objs.length + 1) (s.setObj id { o with closed := true })
    (G.rem id) id { o with closed := true } g 0 w1 hrem hnp (by rw [obj_setObj]; simp)
    ⟨node, by rw [l.hpath]; exact l.hnode, (liveObj_len l : o.fds.length = node.flat.length)⟩ (fun _ => hsk) l.nodup hkids
  have hm0none : ∀ x, s.obj? x = none → (s.setObj id { o with closed := true }).obj? x = none := by
    intro x hx; rw [obj_setObj]
    have : x ≠ id := fun e => by rw [e, ho] at hx; cases hx
    simp [this, hx]
  have hm := closeObj_misc (s.objs.length + 1) (s.setObj id { o with closed := true }) id
  have hG' : ∀ x dx, G' x = some dx → G x = some dx ∧ x ≠ id := by
    intro x dx hx
    rcases sh x with e | ⟨e, _⟩
    · rw [e] at hx
      unfold GMap.rem at hx
      by_cases e2 : x = id
      · simp [e2] at hx
      · simp only [e2, if_false] at hx; exact ⟨hx, e2⟩
    · rw [e] at hx; cases hx
  refine ⟨G', ?_⟩
  exact
    { root := hm.root.trans r.root
      anon := by
        intro x hx
        rw [hm.anon] at hx
        exact hm.none x (hm0none x (r.anon x hx))
      w := w'
      gens := fun x dx hx => r.gens x dx (hG' x dx hx).1
      hs := by
        intro h'
        show HRel _ G' h' ((sp.closeAll g).handle? h')
        rw [nhandle_closeAll]
        have hr := r.hs h'
        have hheq : (closeObj (s.objs.length + 1) (s.setObj id { o with closed := true }) id).handle? h' = s.handle? h' :=
          hm.handles h'
        cases hv : sp.handle? h' with
        | none => rw [hv] at hr; simp only [Option.map_none, HRel] at hr ⊢; rw [hheq]; exact hr
        | some nv =>
          rw [hv] at hr
          cases nv with
          | nilRes => simp only [Option.map_some, closeGen, HRel] at hr ⊢; rw [hheq]; exact hr
          | closed => simp [closeGen, HRel]
          | live b' p' g' =>
            simp only [Option.map_some, closeGen]
            by_cases eg : g' = g
            · simp [eg, HRel]
            · simp only [eg, if_false, HRel] at hr ⊢
              obtain ⟨id', h1, h2⟩ := hr
              refine ⟨id', by rw [hheq]; exact h1, ?_⟩
              have hne : id' ≠ id := by
                intro e; rw [e, hd] at h2; injection h2 with h2; injection h2 with _ _ h2; exact eg h2.symm
              rcases sh id' with e | ⟨_, dx, e1, e2, _⟩
              · rw [e]; simp [GMap.rem, hne, h2]
              · simp only [GMap.rem, hne, if_false] at e1
                rw [h2] at e1; injection e1 with e1; subst e1
                exact absurd e2 eg
      jc := by
        intro h' e
        injection e with e; subst e
        obtain ⟨o', h1, h2, _⟩ := hm.flags id { o with closed := true } (by rw [obj_setObj]; simp)
        exact ⟨id, o', by rw [hm.handles]; exact hh, h1, h2⟩ }

theorem step_close (s : LState) (sp : NSpec) (G : GMap) (r : Inv s sp G) (h : Nat)
    (hok : NOpOK s sp (.close h)) : StepOK s sp (.close h) := by
  unfold StepOK
  simp only [LState.step, NSpec.step]
  have hr := r.hs h
  cases hv : sp.handle? h with
  | none => rw [hv] at hr; simp only [HRel] at hr; simp only [hr]; exact ⟨trivial, G, r.clear⟩
  | some nv =>
    rw [hv] at hr
    cases nv with
    | nilRes => simp only [HRel] at hr; simp only [hr]; exact ⟨trivial, G, r.clear⟩
    | closed =>
      obtain ⟨id, o, h1, h2, h3⟩ := r.jc h (hok hv)
      simp only [h1]
      rw [closeRes_skip s id o h2 (Or.inr h3)]
      exact ⟨trivial, G, r⟩
    | live b p g =>
      simp only [HRel] at hr
      obtain ⟨id, h1, h2⟩ := hr
      simp only [h1]
      by_cases hp : p.isEmpty = true
      · have : p = [] := by simpa using hp
        subst this
        simp only [List.isEmpty_nil, if_true]
        exact ⟨trivial, close_root s sp G r h id b g h1 h2⟩
      · have hp' : p.isEmpty = false := by simpa using hp
        simp only [hp', Bool.false_eq_true, if_false]
        obtain ⟨o, node, fds, ho, l⟩ := r.w.live id _ h2
        have hsk : o.skipClose = true := by
          have := l.skip; simp only at this; rw [this]; simpa using hp
        rw [closeRes_skip s id o ho (Or.inl hsk)]
        exact ⟨trivial, G, r.clear⟩

theorem decAt_append : ∀ (p : List Nat) (d : LDec) (t : Nat), decAt d (p ++ [t]) = (decAt d p).bind (·.sub t)
  | [], d, t => by
    simp only [List.nil_append, decAt, Option.bind_some]
    cases h : d.sub t <;> simp
  | x :: p, d, t => by
    simp only [List.cons_append, decAt]
    cases h : d.sub x with
    | none => rfl
    | some d' => simp only [Option.bind_some]; exact decAt_append p d' t

theorem nestedSelect_payload {node : LDec} {fds : List FD} {t : Nat} {sub : LDec} {pb : Bytes}
    (h : nestedSelect node fds t = .payload sub pb) : node.sub t = some sub := by
  unfold nestedSelect at h
  split at h
  · cases h
  · split at h
    · cases h
    · split at h
      · cases h
      · rename_i sub' hs
        split at h
        · cases h
        · split at h
          · cases h
          · split at h
            · cases h
            · injection h with h1 _; rw [hs, h1]

theorem nestedResult_eq (s : LState) (id : Nat) (o : LObj) (node : LDec) (tag : Nat) (c : Choice)
    (ho : s.obj? id = some o) (hn : decAt s.root o.path = some node) :
    nestedResult s id tag c =
      match nestedSelect node o.fds tag with
      | .ans a => (s, .ans a, none)
      | .payload _ b => attach s id (o.path ++ [tag]) b c := by
  unfold nestedResult
  simp only [ho, hn]
  cases nestedSelect node o.fds tag with
  | ans a => rfl
  | payload sub b => rfl

/-- what the invariant knows about a live object -/
theorem Inv.liveObj {s : LState} {sp : NSpec} {G : GMap} (r : Inv s sp G) {id : Nat} {b : Bytes} {p : List Nat} {g : Nat}
    (hd : G id = some ⟨b, p, g⟩) {node : LDec} {fds : List FD} (hv : view sp.root p b = some (node, fds)) :
    ∃ o, s.obj? id = some o ∧ o.path = p ∧ decAt s.root o.path = some node ∧ decAt sp.root p = some node ∧
      decodeInto node.flat (cleanFds node.flat.length) b = .ok fds ∧ FdsEq o.fds fds := by
  obtain ⟨o, node', fds', ho, l⟩ := r.w.live id _ hd
  have hn := l.hnode
  have hdc := l.hdec
  simp only at hn hdc
  unfold view at hv
  rw [hn] at hv
  simp only [hdc] at hv
  injection hv with hv; injection hv with e1 e2; subst e1; subst e2
  exact ⟨o, ho, l.hpath, by rw [r.root, l.hpath]; exact hn, hn, hdc, l.eq⟩

theorem Inv.view_some {s : LState} {sp : NSpec} {G : GMap} (r : Inv s sp G) {id : Nat} {b : Bytes} {p : List Nat} {g : Nat}
    (hd : G id = some ⟨b, p, g⟩) : ∃ node fds, view sp.root p b = some (node, fds) := by
  obtain ⟨o, node', fds', ho, l⟩ := r.w.live id _ hd
  have hn := l.hnode
  have hdc := l.hdec
  simp only at hn hdc
  exact ⟨node', fds', by simp only [view, hn, hdc]⟩

theorem Frame.refl (s : LState) (c : Choice) : Frame s s c := ⟨rfl, fun _ => rfl, rfl, rfl, fun _ h _ => h⟩

/-- attaching a nested result, seen from the invariant -/
theorem attach_inv (s : LState) (sp : NSpec) (G : GMap) (r : Inv s sp G) (id : Nat) (b : Bytes) (p : List Nat) (g t : Nat)
    (sub : LDec) (pb : Bytes) (c : Choice) (hd : G id = some ⟨b, p, g⟩) (hsub : decAt sp.root (p ++ [t]) = some sub)
    (hc : pb.isEmpty = false → ChoiceIn s (p ++ [t]) c) :
    ∃ s' r', attach s id (p ++ [t]) pb c = (s', subOut sub pb, r') ∧ Frame s s' c ∧
      match subOut sub pb with
      | .ok => ∃ nid G', r' = some (some nid) ∧ W s' sp.root G' ∧ G' nid = some ⟨pb, p ++ [t], g⟩ ∧
          (∀ x dx, G x = some dx → G' x = some dx) ∧ (∀ x dx, G' x = some dx → dx.gen < sp.gen)
      | .nil => r' = some none ∧ s' = s
      | _ => r' = none ∧ W s' sp.root G := by
  by_cases hemp : pb.isEmpty = true
  · refine ⟨s, some none, by rw [attach_nil s id _ pb c hemp]; simp [subOut, hemp], Frame.refl s c, ?_⟩
    simp [subOut, hemp]
  · have hne : pb.isEmpty = false := by simpa using hemp
    have := attach_spec s sp.root G id ⟨b, p, g⟩ t pb c sub r.root r.w hd hsub hne (hc hne)
    simp only [subOut, hne, Bool.false_eq_true, if_false]
    cases hy : decodeInto sub.flat (cleanFds sub.flat.length) pb with
    | panic => rw [hy] at this; exact this.elim
    | err =>
      rw [hy] at this
      obtain ⟨s', h1, fr, w'⟩ := this
      exact ⟨s', none, h1, fr, rfl, w'⟩
    | ok fds' =>
      rw [hy] at this
      obtain ⟨s', nid, h1, fr, hg, w'⟩ := this
      refine ⟨s', some (some nid), h1, fr, nid, _, rfl, w', by simp [GMap.set], gset_sub G nid _ hg, ?_⟩
      intro x dx hx
      by_cases e : x = nid
      · simp only [GMap.set, e, if_true] at hx; injection hx with hx; subst hx
        exact r.gens id ⟨b, p, g⟩ hd
      · simp only [GMap.set, e, if_false] at hx; exact r.gens x dx hx

theorem subOut_cases (sub : LDec) (pb : Bytes) :
    (subOut sub pb = .nil ∧ pb.isEmpty = true) ∨
    (pb.isEmpty = false ∧ (subOut sub pb = .ok ∨ subOut sub pb = .err ∨ subOut sub pb = .panic)) := by
  unfold subOut
  by_cases h : pb.isEmpty = true
  · left; simp [h]
  · right
    have h' : pb.isEmpty = false := by simpa using h
    refine ⟨h', ?_⟩
    simp only [h', Bool.false_eq_true, if_false]
    cases decodeInto sub.flat (cleanFds sub.flat.length) pb <;> simp

theorem payload_eq {sp : NSpec} {h : Nat} {b : Bytes} {p : List Nat} {g : Nat} {node : LDec} {fds : List FD} {t : Nat}
    {sub : LDec} {pb : Bytes} (hv : sp.handle? h = some (.live b p g)) (hvw : view sp.root p b = some (node, fds))
    (hsel : nestedSelect node fds t = .payload sub pb) (hne : pb.isEmpty = false) :
    sp.payload? h t = some (p ++ [t], pb) := by
  simp [NSpec.payload?, hv, hvw, hsel, hne]

theorem step_nested (s : LState) (sp : NSpec) (G : GMap) (r : Inv s sp G) (h : Nat) (tag : Int) (h' : Nat) (c : Choice)
    (hok : NOpOK s sp (.nested h tag h' c)) : StepOK s sp (.nested h tag h' c) := by
  unfold StepOK
  obtain ⟨hnc, hch⟩ := hok
  simp only [LState.step, NSpec.step]
  have hr := r.hs h
  cases hv : sp.handle? h with
  | none => rw [hv] at hr; simp only [HRel] at hr; simp only [hr]; exact ⟨trivial, G, r.clear⟩
  | some nv =>
    rw [hv] at hr
    cases nv with
    | nilRes => simp only [HRel] at hr; simp only [hr]; exact ⟨trivial, G, r.clear⟩
    | closed => exact absurd hv hnc
    | live b p g =>
      simp only [HRel] at hr
      obtain ⟨id, h1, hd⟩ := hr
      obtain ⟨node, fds, hvw⟩ := r.view_some hd
      obtain ⟨o, ho, hp, hn, hn', hdc, heq⟩ := r.liveObj hd hvw
      simp only [h1, hvw]
      rw [nestedResult_eq s id o node tag.natAbs c ho hn, nestedSelect_congr node heq]
      cases hsel : nestedSelect node fds tag.natAbs with
      | ans a => exact ⟨rfl, G, r.clear⟩
      | payload sub pb =>
        simp only []
        have hsub : decAt sp.root (p ++ [tag.natAbs]) = some sub := by
          rw [decAt_append, hn']; simp [nestedSelect_payload hsel]
        have hcok : pb.isEmpty = false → ChoiceOKN s (p ++ [tag.natAbs]) c :=
          fun hne => hch _ _ (payload_eq hv hvw hsel hne)
        obtain ⟨s', r', ha, fr, hm⟩ := attach_inv s sp G r id b p g tag.natAbs sub pb c hd hsub
          (fun hne => (choiceIn_of_ok (hcok hne)).1)
        rw [hp, ha]
        rcases subOut_cases sub pb with ⟨hso, _⟩ | ⟨hne, hso | hso | hso⟩
        · rw [hso] at hm ⊢
          obtain ⟨e1, e2⟩ := hm
          subst e1; subst e2
          exact ⟨rfl, G, r.setNil h'⟩
        · rw [hso] at hm ⊢
          obtain ⟨nid, G', e1, w', hg', hsub', hgens⟩ := hm
          subst e1
          have hanon := frame_anon fr r.anon (choiceIn_of_ok (hcok hne)).2
          exact ⟨rfl, G', (r.grow fr.root fr.handles hanon w' hsub' hgens).setLive h' nid pb _ g hg'⟩
        · rw [hso] at hm ⊢
          obtain ⟨e1, w'⟩ := hm
          subst e1
          have hanon := frame_anon fr r.anon (choiceIn_of_ok (hcok hne)).2
          exact ⟨rfl, G, r.grow fr.root fr.handles hanon w' (fun _ _ h => h) r.gens⟩
        · rw [hso] at hm ⊢
          obtain ⟨e1, w'⟩ := hm
          subst e1
          have hanon := frame_anon fr r.anon (choiceIn_of_ok (hcok hne)).2
          exact ⟨rfl, G, r.grow fr.root fr.handles hanon w' (fun _ _ h => h) r.gens⟩

theorem step_range (s : LState) (sp : NSpec) (G : GMap) (r : Inv s sp G) (h : Nat)
    (hok : NOpOK s sp (.range h)) : StepOK s sp (.range h) := by
  unfold StepOK
  simp only [LState.step, NSpec.step]
  have hr := r.hs h
  cases hv : sp.handle? h with
  | none => rw [hv] at hr; simp only [HRel] at hr; simp only [hr]; exact ⟨trivial, G, r.clear⟩
  | some nv =>
    rw [hv] at hr
    cases nv with
    | nilRes => simp only [HRel] at hr; simp only [hr]; exact ⟨trivial, G, r.clear⟩
    | closed => exact absurd hv hok
    | live b p g =>
      simp only [HRel] at hr
      obtain ⟨id, h1, hd⟩ := hr
      obtain ⟨node, fds, hvw⟩ := r.view_some hd
      obtain ⟨o, ho, hp, hn, hn', hdc, heq⟩ := r.liveObj hd hvw
      simp only [h1, hvw, ho, hn]
      refine ⟨?_, G, r.clear⟩
      have := tagsOf_congr node heq
      simp only [tagsOf] at this ⊢
      rw [this]

theorem accPath_none (fuel : Nat) (s : LState) (path : List Nat) (a : Acc) (dec : LDec) :
    accPath fuel s none path a = (s, lookupPath fuel dec none path a) := by
  cases fuel with
  | zero => simp [accPath, lookupPath]
  | succ n =>
    cases path with
    | nil => simp [accPath, lookupPath]
    | cons t ts => simp [accPath, lookupPath]

theorem Inv.bumpAnon {s : LState} {sp : NSpec} {G : GMap} (r : Inv s sp G)
    (ha : ∀ x, s.anon + 1 ≤ x → s.obj? x = none) : Inv { s with anon := s.anon + 1 } sp G where
  root := r.root
  anon := ha
  w := r.w.ext (fun _ => rfl) (fun _ => rfl)
  gens := r.gens
  hs := fun h => (r.hs h).mono rfl (fun _ _ h => h)
  jc := r.jc

theorem subOut_ok {sub : LDec} {pb : Bytes} (h : subOut sub pb = .ok) :
    pb.isEmpty = false ∧ ∃ fds', decodeInto sub.flat (cleanFds sub.flat.length) pb = .ok fds' := by
  unfold subOut at h
  by_cases he : pb.isEmpty = true
  · simp [he] at h
  · have he' : pb.isEmpty = false := by simpa using he
    simp only [he', Bool.false_eq_true, if_false] at h
    refine ⟨he', ?_⟩
    cases hd : decodeInto sub.flat (cleanFds sub.flat.length) pb with
    | ok fds' => exact ⟨fds', rfl⟩
    | err => rw [hd] at h; cases h
    | panic => rw [hd] at h; cases h

theorem subOut_err {sub : LDec} {pb : Bytes} (h : subOut sub pb = .err) :
    pb.isEmpty = false ∧ decodeInto sub.flat (cleanFds sub.flat.length) pb = .err := by
  unfold subOut at h
  by_cases he : pb.isEmpty = true
  · simp [he] at h
  · have he' : pb.isEmpty = false := by simpa using he
    simp only [he', Bool.false_eq_true, if_false] at h
    refine ⟨he', ?_⟩
    cases hd : decodeInto sub.flat (cleanFds sub.flat.length) pb with
    | ok fds' => rw [hd] at h; cases h
    | err => rfl
    | panic => rw [hd] at h; cases h

theorem subOut_panic {sub : LDec} {pb : Bytes} (h : subOut sub pb = .panic) :
    pb.isEmpty = false ∧ decodeInto sub.flat (cleanFds sub.flat.length) pb = .panic := by
  unfold subOut at h
  by_cases he : pb.isEmpty = true
  · simp [he] at h
  · have he' : pb.isEmpty = false := by simpa using he
    simp only [he', Bool.false_eq_true, if_false] at h
    refine ⟨he', ?_⟩
    cases hd : decodeInto sub.flat (cleanFds sub.flat.length) pb with
    | ok fds' => rw [hd] at h; cases h
    | err => rw [hd] at h; cases h
    | panic => rfl

theorem accPath_succ (fuel : Nat) (s : LState) (id tag : Nat) (rest : List Nat) (a : Acc) (o : LObj) (node : LDec)
    (ho : s.obj? id = some o) (hn : decAt s.root o.path = some node) :
    accPath (fuel + 1) s (some id) (tag :: rest) a =
      if rest.isEmpty then (s, accessTag node o.fds tag a) else
      match nestedResult s id tag (.new s.anon) with
      | (s1, out, r) =>
        match out, r with
        | .ok, some nxt => accPath fuel { s1 with anon := s1.anon + 1 } nxt rest a
        | .nil, some nxt => accPath fuel { s1 with anon := s1.anon + 1 } nxt rest a
        | .ans x, _ => ({ s1 with anon := s1.anon + 1 }, x)
        | .err, _ => ({ s1 with anon := s1.anon + 1 }, .err)
        | _, _ => ({ s1 with anon := s1.anon + 1 }, .panic) := by
  rw [accPath]
  simp only [ho, hn]
  rfl

theorem lookupPath_cons2 (fuel : Nat) (dec : LDec) (fds : List FD) (tag t2 : Nat) (rest : List Nat) (a : Acc) :
    lookupPath (fuel + 1) dec (some fds) (tag :: t2 :: rest) a =
      match nestedSelect dec fds tag with
      | .ans x => x
      | .payload sub b =>
        if b.isEmpty then lookupPath fuel sub none (t2 :: rest) a else
        match decodeInto sub.flat (cleanFds sub.flat.length) b with
        | .ok fds' => lookupPath fuel sub (some fds') (t2 :: rest) a
        | .err => .err
        | .panic => .panic := by
  rw [lookupPath]
  · rfl
  · intro h; cases h

theorem clr_clr (sp : NSpec) : sp.clr.clr = sp.clr := rfl

/-- **multi-element paths**: the nested results `FieldData(path…)` allocates behind the client's back
    answer from the corresponding sub-message, and keep the forest -/
theorem accPath_spec (sp : NSpec) (a : Acc) : ∀ (fuel : Nat) (path : List Nat) (s : LState) (G : GMap) (id : Nat)
    (b : Bytes) (p : List Nat) (g : Nat) (node : LDec) (fds : List FD),
    Inv s sp G → G id = some ⟨b, p, g⟩ → view sp.root p b = some (node, fds) →
    (accPath fuel s (some id) path a).2 = lookupPath fuel node (some fds) path a ∧
      ∃ G', Inv (accPath fuel s (some id) path a).1 sp.clr G'
  | 0, path, s, G, id, b, p, g, node, fds, r, _, _ => by
    simp only [accPath, lookupPath]; exact ⟨trivial, G, r.clear⟩
  | fuel + 1, [], s, G, id, b, p, g, node, fds, r, _, _ => by
    simp only [accPath, lookupPath]; exact ⟨trivial, G, r.clear⟩
  | fuel + 1, [tag], s, G, id, b, p, g, node, fds, r, hd, hvw => by
    obtain ⟨o, ho, hp, hn, hn', hdc, heq⟩ := r.liveObj hd hvw
    rw [accPath_succ fuel s id tag [] a o node ho hn]
    simp only [List.isEmpty_nil, if_true, lookupPath]
    exact ⟨accessTag_congr node heq tag a, G, r.clear⟩
  | fuel + 1, tag :: t2 :: rest, s, G, id, b, p, g, node, fds, r, hd, hvw => by
    obtain ⟨o, ho, hp, hn, hn', hdc, heq⟩ := r.liveObj hd hvw
    rw [accPath_succ fuel s id tag (t2 :: rest) a o node ho hn, lookupPath_cons2]
    simp only [List.isEmpty_cons, Bool.false_eq_true, if_false]
    rw [nestedResult_eq s id o node tag (.new s.anon) ho hn, nestedSelect_congr node heq]
    cases hsel : nestedSelect node fds tag with
    | ans x =>
      refine ⟨rfl, G, ?_⟩
      exact r.clear.bumpAnon (fun x hx => r.anon x (by omega))
    | payload sub pb =>
      simp only []
      have hsub : decAt sp.root (p ++ [tag]) = some sub := by
        rw [decAt_append, hn']; simp [nestedSelect_payload hsel]
      obtain ⟨s', r', ha, fr, hm⟩ := attach_inv s sp G r id b p g tag sub pb (.new s.anon) hd hsub
        (fun _ => r.anon s.anon (Nat.le_refl _))
      have hanon : ∀ x, s'.anon + 1 ≤ x → s'.obj? x = none := by
        intro x hx
        rw [fr.anon] at hx
        exact fr.born x (r.anon x (by omega)) (fun e => by injection e with e; omega)
      rw [hp, ha]
      rcases subOut_cases sub pb with ⟨hso, hemp⟩ | ⟨hne, hso | hso | hso⟩
      · rw [hso] at hm ⊢
        obtain ⟨e1, e2⟩ := hm
        subst e1; subst e2
        simp only [hemp, if_true]
        rw [accPath_none fuel _ (t2 :: rest) a sub]
        exact ⟨rfl, G, r.clear.bumpAnon hanon⟩
      · obtain ⟨_, fds', hdec'⟩ := subOut_ok hso
        rw [hso] at hm ⊢
        obtain ⟨nid, G', e1, w', hg', hsub', hgens⟩ := hm
        subst e1
        simp only [hne, Bool.false_eq_true, if_false, hdec']
        have r2 : Inv { s' with anon := s'.anon + 1 } sp.clr G' := r.grow (s' := { s' with anon := s'.anon + 1 })
          fr.root fr.handles hanon (w'.ext (fun _ => rfl) (fun _ => rfl)) hsub' hgens
        have hvw' : view sp.clr.root (p ++ [tag]) pb = some (sub, fds') := by
          show view sp.root (p ++ [tag]) pb = some (sub, fds')
          simp only [view, hsub, hdec']
        exact accPath_spec sp.clr a fuel (t2 :: rest) _ G' nid pb (p ++ [tag]) g sub fds' r2 hg' hvw'
      · obtain ⟨_, hdec'⟩ := subOut_err hso
        rw [hso] at hm ⊢
        obtain ⟨e1, w'⟩ := hm
        subst e1
        simp only [hne, Bool.false_eq_true, if_false, hdec']
        have r2 : Inv { s' with anon := s'.anon + 1 } sp.clr G := r.grow (s' := { s' with anon := s'.anon + 1 })
          fr.root fr.handles hanon (w'.ext (fun _ => rfl) (fun _ => rfl)) (fun _ _ h => h) r.gens
        exact ⟨trivial, G, r2⟩
      · obtain ⟨_, hdec'⟩ := subOut_panic hso
        rw [hso] at hm ⊢
        obtain ⟨e1, w'⟩ := hm
        subst e1
        simp only [hne, Bool.false_eq_true, if_false, hdec']
        have r2 : Inv { s' with anon := s'.anon + 1 } sp.clr G := r.grow (s' := { s' with anon := s'.anon + 1 })
          fr.root fr.handles hanon (w'.ext (fun _ => rfl) (fun _ => rfl)) (fun _ _ h => h) r.gens
        exact ⟨trivial, G, r2⟩

theorem step_acc (s : LState) (sp : NSpec) (G : GMap) (r : Inv s sp G) (h : Nat) (path : List Int) (a : Acc)
    (hok : NOpOK s sp (.acc h path a)) : StepOK s sp (.acc h path a) := by
  unfold StepOK
  simp only [LState.step, NSpec.step]
  have hr := r.hs h
  cases hv : sp.handle? h with
  | none => rw [hv] at hr; simp only [HRel] at hr; simp only [hr]; exact ⟨trivial, G, r.clear⟩
  | some nv =>
    rw [hv] at hr
    cases nv with
    | nilRes =>
      simp only [HRel] at hr
      simp only [hr]
      rw [accPath_none (path.length + 1) s (path.map Int.natAbs) a sp.root]
      exact ⟨rfl, G, r.clear⟩
    | closed => exact absurd hv hok
    | live b p g =>
      simp only [HRel] at hr
      obtain ⟨id, h1, hd⟩ := hr
      obtain ⟨node, fds, hvw⟩ := r.view_some hd
      simp only [h1, hvw]
      obtain ⟨e, G', r'⟩ := accPath_spec sp a (path.length + 1) (path.map Int.natAbs) s G id b p g node fds r hd hvw
      exact ⟨by rw [e], G', r'⟩

/-! ### `NestedResults` -/

theorem nestedResults_cons (s : LState) (id tag : Nat) (b : Bytes) (bs : List Bytes) (h : Nat) (hs : List Nat)
    (c : Choice) (cs : List Choice) (acc : List Bool) (o : LObj) (ho : s.obj? id = some o) :
    nestedResults s id tag (b :: bs) (h :: hs) (c :: cs) acc =
      match nestedsRound s id (o.path ++ [tag]) b h c with
      | (s', .ok) => nestedResults s' id tag bs hs cs (acc ++ [true])
      | (s', .nil) => nestedResults s' id tag bs hs cs (acc ++ [false])
      | (s', out) => (s', out) := by
  rw [nestedResults]
  simp only [ho, nestedsRound, attach]
  rcases hdw : decodeWithPool s (o.path ++ [tag]) b c with ⟨s1, out⟩
  cases out with
  | res nid =>
    simp only []
    cases h1 : s1.obj? nid with
    | none => rfl
    | some no =>
      cases h2 : s1.obj? id with
      | none => rfl
      | some o1 => rfl
  | nil => rfl
  | err => rfl
  | panic => rfl
  | notPooled => rfl

theorem clr_of_none {sp : NSpec} (h : sp.justClosed = none) : sp.clr = sp := by
  cases sp; simp only [NSpec.clr] at h ⊢; subst h; rfl

theorem setHandle_clr {sp : NSpec} (hjc : sp.justClosed = none) (h : Nat) (v : NH) :
    (sp.setHandle h v).clr = sp.setHandle h v := clr_of_none hjc

theorem nesteds_loop (sub : LDec) (p : List Nat) (t g id : Nat) (b0 : Bytes) :
    ∀ (data : List Bytes) (hs : List Nat) (cs : List Choice) (acc : List Bool) (s : LState) (sp : NSpec) (G : GMap),
    Inv s sp G → sp.justClosed = none → G id = some ⟨b0, p, g⟩ → decAt sp.root (p ++ [t]) = some sub →
    NestedsOK id (p ++ [t]) s data hs cs →
    (nestedResults s id t data hs cs acc).2 = (specNesteds sub p t g sp data hs cs acc).2 ∧
      ∃ G', Inv (nestedResults s id t data hs cs acc).1 (specNesteds sub p t g sp data hs cs acc).1 G'
  | [], hs, cs, acc, s, sp, G, r, _, _, _, _ => by
    rw [nestedResults]; simp only [specNesteds]; exact ⟨trivial, G, r⟩
  | b :: bs, [], cs, acc, s, sp, G, r, _, _, _, _ => by
    simp only [nestedResults, specNesteds]; exact ⟨trivial, G, r⟩
  | b :: bs, h :: hs, [], acc, s, sp, G, r, _, _, _, _ => by
    simp only [nestedResults, specNesteds]; exact ⟨trivial, G, r⟩
  | b :: bs, h :: hs, c :: cs, acc, s, sp, G, r, hjc, hd, hsub, hok => by
    obtain ⟨o, _, _, ho, l⟩ := r.w.live id _ hd
    have hp : o.path = p := l.hpath
    rw [nestedResults_cons s id t b bs h hs c cs acc o ho, hp]
    obtain ⟨hc, hnext⟩ := hok
    obtain ⟨s', r', ha, fr, hm⟩ := attach_inv s sp G r id b0 p g t sub b c hd hsub
      (fun hne => (choiceIn_of_ok (hc hne)).1)
    simp only [specNesteds]
    rcases subOut_cases sub b with ⟨hso, _⟩ | ⟨hne, hso | hso | hso⟩
    · rw [hso] at hm ha ⊢
      obtain ⟨e1, e2⟩ := hm
      subst e1; subst e2
      have hround : nestedsRound s' id (p ++ [t]) b h c = (s'.setHandle h none, .nil) := by
        simp only [nestedsRound, ha]
      rw [hround] at hnext ⊢
      have r1 := r.setNil h
      rw [setHandle_clr hjc] at r1
      exact nesteds_loop sub p t g id b0 bs hs cs (acc ++ [false]) _ _ G r1 hjc hd hsub hnext
    · rw [hso] at hm ha ⊢
      obtain ⟨nid, G', e1, w', hg', hsub', hgens⟩ := hm
      subst e1
      have hround : nestedsRound s id (p ++ [t]) b h c = (s'.setHandle h (some nid), .ok) := by
        simp only [nestedsRound, ha]
      rw [hround] at hnext ⊢
      have hanon := frame_anon fr r.anon (choiceIn_of_ok (hc hne)).2
      have r1 := (r.grow fr.root fr.handles hanon w' hsub' hgens).setLive h nid b (p ++ [t]) g hg'
      rw [clr_of_none hjc, setHandle_clr hjc] at r1
      exact nesteds_loop sub p t g id b0 bs hs cs (acc ++ [true]) _ _ G' r1 hjc (hsub' _ _ hd) hsub hnext
    · rw [hso] at hm ha ⊢
      obtain ⟨e1, w'⟩ := hm
      subst e1
      have hround : nestedsRound s id (p ++ [t]) b h c = (s', .err) := by simp only [nestedsRound, ha]
      rw [hround]
      have hanon := frame_anon fr r.anon (choiceIn_of_ok (hc hne)).2
      have r1 := r.grow fr.root fr.handles hanon w' (fun _ _ h => h) r.gens
      rw [clr_of_none hjc] at r1
      exact ⟨rfl, G, r1⟩
    · rw [hso] at hm ha ⊢
      obtain ⟨e1, w'⟩ := hm
      subst e1
      have hround : nestedsRound s id (p ++ [t]) b h c = (s', .panic) := by simp only [nestedsRound, ha]
      rw [hround]
      have hanon := frame_anon fr r.anon (choiceIn_of_ok (hc hne)).2
      have r1 := r.grow fr.root fr.handles hanon w' (fun _ _ h => h) r.gens
      rw [clr_of_none hjc] at r1
      exact ⟨rfl, G, r1⟩

theorem step_nesteds (s : LState) (sp : NSpec) (G : GMap) (r : Inv s sp G) (h : Nat) (tag : Int) (hs : List Nat)
    (cs : List Choice) (hok : NOpOK s sp (.nesteds h tag hs cs)) : StepOK s sp (.nesteds h tag hs cs) := by
  unfold StepOK
  obtain ⟨hnc, hch⟩ := hok
  simp only [LState.step, NSpec.step]
  have hr := r.hs h
  cases hv : sp.handle? h with
  | none => rw [hv] at hr; simp only [HRel] at hr; simp only [hr]; exact ⟨trivial, G, r.clear⟩
  | some nv =>
    rw [hv] at hr
    cases nv with
    | nilRes => simp only [HRel] at hr; simp only [hr]; exact ⟨trivial, G, r.clear⟩
    | closed => exact absurd hv hnc
    | live b p g =>
      simp only [HRel] at hr
      obtain ⟨id, h1, hd⟩ := hr
      obtain ⟨node, fds, hvw⟩ := r.view_some hd
      obtain ⟨o, ho, hp, hn, hn', hdc, heq⟩ := r.liveObj hd hvw
      simp only [h1, hvw, ho, hn]
      by_cases hne : node.nested.isEmpty = true
      · simp only [hne, if_true]; exact ⟨trivial, G, r.clear⟩
      · have hne' : node.nested.isEmpty = false := by simpa using hne
        simp only [hne', Bool.false_eq_true, if_false]
        cases hsb : node.sub tag.natAbs with
        | none => simp only []; exact ⟨trivial, G, r.clear⟩
        | some sub =>
          cases hix : idxOf? node.flat tag.natAbs with
          | none => simp only []; exact ⟨trivial, G, r.clear⟩
          | some i =>
            simp only []
            rcases heq.get i with ⟨hx, hy⟩ | ⟨fa, fb, hx, hy, hab⟩
            · simp only [hx, hy]; exact ⟨trivial, G, r.clear⟩
            · simp only [hx, hy, ← hab.1]
              by_cases hde : fa.data.isEmpty = true
              · simp only [hde, if_true]; exact ⟨trivial, G, r.clear⟩
              · have hde' : fa.data.isEmpty = false := by simpa using hde
                simp only [hde', Bool.false_eq_true, if_false]
                have hsub : decAt sp.clr.root (p ++ [tag.natAbs]) = some sub := by
                  show decAt sp.root (p ++ [tag.natAbs]) = some sub
                  rw [decAt_append, hn']; simp [hsb]
                have hk := hch id o node i fa h1 ho hn hix hx
                rw [hp] at hk
                exact nesteds_loop sub p tag.natAbs g id b fa.data hs cs [] s sp.clr G r.clear rfl hd hsub hk

/-! ## 7. whole histories -/

/-- **one step**: same output, and the closer-forest invariant is kept -/
theorem nstep_refines (s : LState) (sp : NSpec) (G : GMap) (r : Inv s sp G) (op : LOp) (hok : NOpOK s sp op) :
    (s.step op).2 = (sp.step op).2 ∧ ∃ G', Inv (s.step op).1 (sp.step op).1 G' := by
  cases op with
  | decode h input c => exact step_decode s sp G r h input c hok
  | acc h path a => exact step_acc s sp G r h path a hok
  | nested h tag h' c => exact step_nested s sp G r h tag h' c hok
  | nesteds h tag hs cs => exact step_nesteds s sp G r h tag hs cs hok
  | range h => exact step_range s sp G r h hok
  | close h => exact step_close s sp G r h hok

def NSpec.outputs (sp : NSpec) : List LOp → List LOut
  | [] => []
  | op :: ops => (sp.step op).2 :: NSpec.outputs (sp.step op).1 ops

/-- the history keeps to the API contract at every step (and every pool's choices are choices it can make) -/
def NHistOK (s : LState) (sp : NSpec) : List LOp → Prop
  | [] => True
  | op :: ops => NOpOK s sp op ∧ NHistOK (s.step op).1 (sp.step op).1 ops

theorem nhistory_refines_from (ops : List LOp) : ∀ (s : LState) (sp : NSpec) (G : GMap), Inv s sp G → NHistOK s sp ops →
    outputs s ops = NSpec.outputs sp ops := by
  induction ops with
  | nil => intro s sp G _ _; rfl
  | cons op ops ih =>
    intro s sp G r hok
    obtain ⟨h1, G', h2⟩ := nstep_refines s sp G r op hok.1
    simp only [outputs, NSpec.outputs, h1, ih _ _ G' h2 hok.2]

/-- **C14, whole histories with nested results.**  For every decoder definition, pooled or not, every
    history of Decode / accessor (paths of any length) / NestedResult / NestedResults / Range / Close
    operations that keeps to the API contract — no use of a result after its `Close`, nor of a nested
    result after the `Close` of the root result it descends from — and every choice every pool makes at
    every decode (the root decoder's pool and each nested decoder's pool: a brand-new object or ANY object
    currently pooled there), the observable outputs are those of the pool-free specification `NSpec`, in
    which every answer is computed from the handle's own (sub-)message bytes decoded into a brand-new object. -/
theorem nested_history_refines (root : LDec) (pooled : Bool) (ops : List LOp)
    (hok : NHistOK (LState.init root pooled) (NSpec.init root) ops) :
    outputs (LState.init root pooled) ops = NSpec.outputs (NSpec.init root) ops :=
  nhistory_refines_from ops _ _ _ (Inv.init root pooled) hok

/-! ### no panic -/

theorem nestedSelect_ne_panic (dec : LDec) (fds : List FD) (tag : Nat) (hl : fds.length = dec.flat.length) :
    nestedSelect dec fds tag ≠ .ans .panic := by
  unfold nestedSelect
  split
  · simp
  · split
    · simp
    · rename_i i hi
      have hlt := idxOf?_lt hi
      split
      · simp
      · rw [List.getElem?_eq_getElem (by omega)]
        simp only []
        split
        · simp
        · split <;> simp

theorem clean_total (sub : LDec) (b : Bytes) :
    decodeInto sub.flat (cleanFds sub.flat.length) b ≠ .panic ∧
      ∀ fds', decodeInto sub.flat (cleanFds sub.flat.length) b = .ok fds' → fds'.length = sub.flat.length :=
  C13.decodeInto_total sub.flat (cleanFds sub.flat.length) b (by simp [cleanFds])

theorem lookupPath_ne_panic (a : Acc) : ∀ (fuel : Nat) (dec : LDec) (ofds : Option (List FD)) (path : List Nat),
    (∀ fds, ofds = some fds → fds.length = dec.flat.length) → lookupPath fuel dec ofds path a ≠ .panic
  | 0, _, _, _, _ => by simp [lookupPath]
  | _ + 1, _, _, [], _ => by simp [lookupPath]
  | _ + 1, _, none, _ :: _, _ => by simp [lookupPath]
  | _ + 1, dec, some fds, [tag], hl => by
    simp only [lookupPath]; exact accessTag_ne_panic dec fds tag a (hl fds rfl)
  | fuel + 1, dec, some fds, tag :: t2 :: rest, hl => by
    rw [lookupPath_cons2]
    have := nestedSelect_ne_panic dec fds tag (hl fds rfl)
    cases hsel : nestedSelect dec fds tag with
    | ans x => intro e; simp only [] at e; rw [hsel, e] at this; exact this rfl
    | payload sub b =>
      simp only []
      split
      · exact lookupPath_ne_panic a fuel sub none _ (by intro _ h; cases h)
      · have ht := clean_total sub b
        cases hd : decodeInto sub.flat (cleanFds sub.flat.length) b with
        | ok fds' =>
          simp only []
          exact lookupPath_ne_panic a fuel sub (some fds') _ (by intro f h; injection h with h; subst h; exact ht.2 _ hd)
        | err => simp
        | panic => exact absurd hd ht.1

theorem subOut_ne_panic (sub : LDec) (pb : Bytes) : subOut sub pb ≠ .panic := by
  intro h
  exact (clean_total sub pb).1 (subOut_panic h).2

theorem specNesteds_ne_panic (sub : LDec) (p : List Nat) (t g : Nat) : ∀ (data : List Bytes) (hs : List Nat)
    (cs : List Choice) (acc : List Bool) (sp : NSpec),
    (specNesteds sub p t g sp data hs cs acc).2 ≠ .panic ∧ (specNesteds sub p t g sp data hs cs acc).2 ≠ .ans .panic
  | [], _, _, _, _ => by simp [specNesteds]
  | _ :: _, [], _, _, _ => by simp [specNesteds]
  | _ :: _, _ :: _, [], _, _ => by simp [specNesteds]
  | b :: bs, h :: hs, c :: cs, acc, sp => by
    simp only [specNesteds]
    rcases subOut_cases sub b with ⟨hso, _⟩ | ⟨_, hso | hso | hso⟩
    · rw [hso]; exact specNesteds_ne_panic sub p t g bs hs cs _ _
    · rw [hso]; exact specNesteds_ne_panic sub p t g bs hs cs _ _
    · rw [hso]; simp
    · exact absurd hso (subOut_ne_panic sub b)

theorem view_len {root : LDec} {p : List Nat} {b : Bytes} {node : LDec} {fds : List FD}
    (h : view root p b = some (node, fds)) : fds.length = node.flat.length := by
  unfold view at h
  split at h
  · cases h
  · rename_i node' _
    cases hd : decodeInto node'.flat (cleanFds node'.flat.length) b with
    | ok fds' =>
      rw [hd] at h; simp only [] at h
      injection h with h; injection h with e1 e2; subst e1; subst e2
      exact (clean_total node' b).2 _ hd
    | err => rw [hd] at h; cases h
    | panic => rw [hd] at h; cases h

/-- **no operation of such a history panics**: not a decoder pass (root or nested), not an accessor on a
    path of any length, not `NestedResult(s)`, not `Close` -/
theorem nspec_no_panic (s : LState) (sp : NSpec) (G : GMap) (r : Inv s sp G) (op : LOp) :
    (sp.step op).2 ≠ .panic ∧ (sp.step op).2 ≠ .ans .panic := by
  cases op with
  | decode h input c =>
    simp only [NSpec.step]
    split
    · simp
    · have := (clean_total sp.root input).1
      unfold fresh
      split <;> simp_all
  | acc h path a =>
    simp only [NSpec.step]
    have hr := r.hs h
    cases hv : sp.handle? h with
    | none => simp
    | some nv =>
      rw [hv] at hr
      cases nv with
      | closed => simp
      | nilRes =>
        simp only []
        refine ⟨by simp, fun e => ?_⟩
        injection e with e
        exact lookupPath_ne_panic a _ sp.root none _ (by intro _ h; cases h) e
      | live b p g =>
        simp only [HRel] at hr
        obtain ⟨id, _, hd⟩ := hr
        obtain ⟨node, fds, hvw⟩ := r.view_some hd
        simp only [hvw]
        refine ⟨by simp, fun e => ?_⟩
        injection e with e
        exact lookupPath_ne_panic a _ node (some fds) _
          (by intro f h; injection h with h; subst h; exact view_len hvw) e
  | range h =>
    simp only [NSpec.step]
    have hr := r.hs h
    cases hv : sp.handle? h with
    | none => simp
    | some nv =>
      rw [hv] at hr
      cases nv with
      | closed => simp
      | nilRes => simp
      | live b p g =>
        simp only [HRel] at hr
        obtain ⟨id, _, hd⟩ := hr
        obtain ⟨node, fds, hvw⟩ := r.view_some hd
        simp [hvw]
  | close h =>
    simp only [NSpec.step]
    split
    · simp
    · simp
    · split <;> simp
    · simp
  | nested h tag h' c =>
    simp only [NSpec.step]
    have hr := r.hs h
    cases hv : sp.handle? h with
    | none => simp
    | some nv =>
      rw [hv] at hr
      cases nv with
      | closed => simp
      | nilRes => simp
      | live b p g =>
        simp only [HRel] at hr
        obtain ⟨id, _, hd⟩ := hr
        obtain ⟨node, fds, hvw⟩ := r.view_some hd
        simp only [hvw]
        have hns := nestedSelect_ne_panic node fds tag.natAbs (view_len hvw)
        cases hsel : nestedSelect node fds tag.natAbs with
        | ans x =>
          simp only []
          refine ⟨by simp, fun e => ?_⟩
          injection e with e
          rw [hsel, e] at hns; exact hns rfl
        | payload sub pb =>
          simp only []
          rcases subOut_cases sub pb with ⟨hso, _⟩ | ⟨_, hso | hso | hso⟩
          · rw [hso]; simp
          · rw [hso]; simp
          · rw [hso]; simp
          · exact absurd hso (subOut_ne_panic sub pb)
  | nesteds h tag hs cs =>
    simp only [NSpec.step]
    have hr := r.hs h
    cases hv : sp.handle? h with
    | none => simp
    | some nv =>
      rw [hv] at hr
      cases nv with
      | closed => simp
      | nilRes => simp
      | live b p g =>
        simp only [HRel] at hr
        obtain ⟨id, _, hd⟩ := hr
        obtain ⟨node, fds, hvw⟩ := r.view_some hd
        simp only [hvw]
        split
        · simp
        · split
          · simp
          · simp
          · rename_i i _ hi
            have hlt := idxOf?_lt hi
            rw [List.getElem?_eq_getElem (by rw [view_len hvw]; exact hlt)]
            simp only []
            split
            · simp
            · exact specNesteds_ne_panic _ _ _ _ _ _ _ _ _

theorem nstep_no_panic (s : LState) (sp : NSpec) (G : GMap) (r : Inv s sp G) (op : LOp) (hok : NOpOK s sp op) :
    (s.step op).2 ≠ .panic ∧ (s.step op).2 ≠ .ans .panic := by
  rw [(nstep_refines s sp G r op hok).1]
  exact nspec_no_panic s sp G r op

theorem nhistory_no_panic_from (ops : List LOp) : ∀ (s : LState) (sp : NSpec) (G : GMap), Inv s sp G → NHistOK s sp ops →
    ∀ out ∈ outputs s ops, out ≠ .panic ∧ out ≠ .ans .panic := by
  induction ops with
  | nil => intro s sp G _ _ out ho; simp [outputs] at ho
  | cons op ops ih =>
    intro s sp G r hok out ho
    simp only [outputs, List.mem_cons] at ho
    rcases ho with rfl | ho
    · exact nstep_no_panic s sp G r op hok.1
    · obtain ⟨_, G', r'⟩ := nstep_refines s sp G r op hok.1
      exact ih _ _ G' r' hok.2 out ho

/-- **no operation of a history with nested results panics**, whatever the pools hand out -/
theorem nested_history_no_panic (root : LDec) (pooled : Bool) (ops : List LOp)
    (hok : NHistOK (LState.init root pooled) (NSpec.init root) ops) :
    ∀ out ∈ outputs (LState.init root pooled) ops, out ≠ .panic ∧ out ≠ .ans .panic :=
  nhistory_no_panic_from ops _ _ _ (Inv.init root pooled) hok

/-! ## 8. non-vacuity: a concrete history with nested results in which a root object AND nested objects are recycled

  To check the contract of a concrete history by evaluation we give a Boolean version of it. -/

def choiceOKb (s : LState) (pth : List Nat) : Choice → Bool
  | .new id => (s.obj? id).isNone && decide (id < s.anon)
  | .reuse id => (s.pool pth).contains id

theorem choiceOKb_sound {s : LState} {pth : List Nat} {c : Choice} (h : choiceOKb s pth c = true) : ChoiceOKN s pth c := by
  cases c with
  | new id =>
    simp only [choiceOKb, Bool.and_eq_true, decide_eq_true_eq] at h
    exact ⟨by simpa using h.1, h.2⟩
  | reuse id =>
    simp only [choiceOKb] at h
    exact (by simpa using h : id ∈ s.pool pth)

def nestedsOKb (id : Nat) (pth : List Nat) : LState → List Bytes → List Nat → List Choice → Bool
  | s, b :: bs, h :: hs, c :: cs =>
    (b.isEmpty || choiceOKb s pth c) && nestedsOKb id pth (nestedsRound s id pth b h c).1 bs hs cs
  | _, _, _, _ => true

theorem nestedsOKb_sound (id : Nat) (pth : List Nat) : ∀ (s : LState) (data : List Bytes) (hs : List Nat) (cs : List Choice),
    nestedsOKb id pth s data hs cs = true → NestedsOK id pth s data hs cs
  | _, [], _, _, _ => by simp [NestedsOK]
  | _, _ :: _, [], _, _ => by simp [NestedsOK]
  | _, _ :: _, _ :: _, [], _ => by simp [NestedsOK]
  | s, b :: bs, h :: hs, c :: cs, hb => by
    simp only [nestedsOKb, Bool.and_eq_true, Bool.or_eq_true] at hb
    refine ⟨fun hne => ?_, nestedsOKb_sound id pth _ bs hs cs hb.2⟩
    rcases hb.1 with h1 | h1
    · rw [hne] at h1; cases h1
    · exact choiceOKb_sound h1

def nopOKb (s : LState) (sp : NSpec) : LOp → Bool
  | .decode _ input c => input.isEmpty || choiceOKb s [] c
  | .acc h _ _ => decide (sp.handle? h ≠ some .closed)
  | .range h => decide (sp.handle? h ≠ some .closed)
  | .close h => decide (sp.handle? h ≠ some .closed) || decide (sp.justClosed = some h)
  | .nested h tag _ c =>
    decide (sp.handle? h ≠ some .closed) &&
      match sp.payload? h tag.natAbs with
      | some (pth, _) => choiceOKb s pth c
      | none => true
  | .nesteds h tag hs cs =>
    decide (sp.handle? h ≠ some .closed) &&
      match s.handle? h with
      | some (some id) =>
        match s.obj? id with
        | some o =>
          match decAt s.root o.path with
          | some node =>
            match idxOf? node.flat tag.natAbs with
            | some i =>
              match o.fds[i]? with
              | some fd => nestedsOKb id (o.path ++ [tag.natAbs]) s fd.data hs cs
              | none => true
            | none => true
          | none => true
        | none => true
      | _ => true

theorem nopOKb_sound {s : LState} {sp : NSpec} {op : LOp} (h : nopOKb s sp op = true) : NOpOK s sp op := by
  cases op with
  | decode hd input c =>
    simp only [nopOKb, Bool.or_eq_true] at h
    intro hne
    rcases h with h | h
    · rw [hne] at h; cases h
    · exact choiceOKb_sound h
  | acc hd path a => simpa [nopOKb, NOpOK] using h
  | range hd => simpa [nopOKb, NOpOK] using h
  | close hd =>
    simp only [nopOKb, Bool.or_eq_true, decide_eq_true_eq] at h
    intro hc
    rcases h with h | h
    · exact absurd hc h
    · exact h
  | nested hd tag h' c =>
    simp only [nopOKb, Bool.and_eq_true, decide_eq_true_eq] at h
    refine ⟨h.1, ?_⟩
    intro pth pb hp
    have h2 := h.2
    rw [hp] at h2
    exact choiceOKb_sound h2
  | nesteds hd tag hs cs =>
    simp only [nopOKb, Bool.and_eq_true, decide_eq_true_eq] at h
    refine ⟨h.1, ?_⟩
    intro id o node i fd h1 h2 h3 h4 h5
    have h6 := h.2
    simp only [h1, h2, h3, h4, h5] at h6
    exact nestedsOKb_sound _ _ _ _ _ _ h6

def nhistOKb (s : LState) (sp : NSpec) : List LOp → Bool
  | [] => true
  | op :: ops => nopOKb s sp op && nhistOKb (s.step op).1 (sp.step op).1 ops

theorem nhistOKb_sound : ∀ (ops : List LOp) (s : LState) (sp : NSpec), nhistOKb s sp ops = true → NHistOK s sp ops
  | [], _, _, _ => trivial
  | op :: ops, s, sp, h => by
    simp only [nhistOKb, Bool.and_eq_true] at h
    exact ⟨nopOKb_sound h.1, nhistOKb_sound ops _ _ h.2⟩

/-- tag 1 is a scalar, tag 2 a nested message of which tag 1 is requested -/
def nroot : LDec := .mk [1, 2] [(2, .mk [1] [])]
/-- `{1: 5, 2: {1: 7}}` -/
def ninA : Bytes := [0x08, 0x05, 0x12, 0x02, 0x08, 0x07]
/-- `{2: {1: 9}}` — no field 1 -/
def ninB : Bytes := [0x12, 0x02, 0x08, 0x09]

/-- Decode A into the new object 10; `NestedResult(2)` into the new object 11 (handle 2); read it; read the same
    value through the two-element path `[2, 1]` (which allocates the client-invisible nested object 1000000);
    `NestedResults(2)` into the new object 12 (handle 3); `Close` the nested handle (no effect), `Close` the
    root (releasing 11, 1000000, 12 into the nested decoder's pool and 10 into the root pool), `Close` it again.
    Then Decode B into the RECYCLED root object 10, `NestedResult(2)` into the RECYCLED nested object 11
    (handle 5), read both, take another nested result out of the RECYCLED invisible object 1000000, Range, Close. -/
def nhistEx : List LOp :=
  [.decode 1 ninA (.new 10), .nested 1 2 2 (.new 11), .acc 2 [1] .uint64, .acc 1 [2, 1] .uint64,
   .nesteds 1 2 [3] [.new 12], .acc 3 [1] .uint64, .close 2, .acc 2 [1] .uint64, .close 1, .close 1,
   .decode 4 ninB (.reuse 10), .nested 4 2 5 (.reuse 11), .acc 5 [1] .uint64, .acc 4 [1] .uint64,
   .nested 4 2 6 (.reuse 1000000), .acc 6 [1] .uint64, .range 5, .acc 4 [2, 1] .uint64, .close 4]

theorem nhistEx_ok : NHistOK (LState.init nroot true) (NSpec.init nroot) nhistEx :=
  nhistOKb_sound _ _ _ (by decide)

/-- the pooled machine's outputs on it: the second root result (object 10 again) has no field 1 although the
    object held `5` there before, and the recycled nested objects answer `9`, not `7` -/
theorem nhistEx_outputs : outputs (LState.init nroot true) nhistEx =
    [.ok, .ok, .ans (.ok (.nat 7)), .ans (.ok (.nat 7)), .many [true], .ans (.ok (.nat 7)), .ok, .ans (.ok (.nat 7)),
     .ok, .ok, .ok, .ok, .ans (.ok (.nat 9)), .ans .notFound, .ok, .ans (.ok (.nat 9)), .tags [(1, true)],
     .ans (.ok (.nat 9)), .ok] := by
  decide

/-! ## 9. pool choices behind `FieldData(path…)`

  `accPath` in `Model/Pool.lean` lets the nested results that a multi-element path allocates always be
  brand-new objects (`Choice.new s.anon`), whereas the implementation's `FieldData` calls `NestedResult`,
  whose `pool.Get()` may equally hand out a recycled object.  `accPathC` is `accPath` with those choices
  made explicit (an empty choice list gives `accPath` itself); the extended machine `xstep` adds the
  operation `accC`, and the refinement theorem is re-proved for it: such a choice is as invisible as the others. -/

def accPathC : Nat → LState → Option Nat → List Nat → Acc → List Choice → LState × Ans
  | fuel, s, r, path, a, [] => accPath fuel s r path a
  | 0, s, _, _, _, _ :: _ => (s, .err)
  | _ + 1, s, _, [], _, _ :: _ => (s, .err)
  | _ + 1, s, none, _ :: _, _, _ :: _ => (s, .notDefined)
  | fuel + 1, s, some id, tag :: rest, a, c :: cs =>
    match s.obj? id with
    | none => (s, .panic)
    | some o =>
      match decAt s.root o.path with
      | none => (s, .panic)
      | some node =>
        if rest.isEmpty then (s, accessTag node o.fds tag a) else
        match nestedResult s id tag c with
        | (s1, out, r) =>
          match out, r with
          | .ok, some nxt => accPathC fuel s1 nxt rest a cs
          | .nil, some nxt => accPathC fuel s1 nxt rest a cs
          | .ans x, _ => (s1, x)
          | .err, _ => (s1, .err)
          | _, _ => (s1, .panic)

theorem accPathC_nil (fuel : Nat) (s : LState) (r : Option Nat) (path : List Nat) (a : Acc) :
    accPathC fuel s r path a [] = accPath fuel s r path a := by
  cases fuel <;> simp [accPathC]

theorem accPathC_none (fuel : Nat) (s : LState) (path : List Nat) (a : Acc) (cs : List Choice) (dec : LDec) :
    accPathC fuel s none path a cs = (s, lookupPath fuel dec none path a) := by
  cases cs with
  | nil => rw [accPathC_nil]; exact accPath_none fuel s path a dec
  | cons c cs =>
    cases fuel with
    | zero => simp [accPathC, lookupPath]
    | succ n =>
      cases path with
      | nil => simp [accPathC, lookupPath]
      | cons t ts => simp [accPathC, lookupPath]

theorem accPathC_succ (fuel : Nat) (s : LState) (id tag : Nat) (rest : List Nat) (a : Acc) (c : Choice) (cs : List Choice)
    (o : LObj) (node : LDec) (ho : s.obj? id = some o) (hn : decAt s.root o.path = some node) :
    accPathC (fuel + 1) s (some id) (tag :: rest) a (c :: cs) =
      if rest.isEmpty then (s, accessTag node o.fds tag a) else
      match nestedResult s id tag c with
      | (s1, out, r) =>
        match out, r with
        | .ok, some nxt => accPathC fuel s1 nxt rest a cs
        | .nil, some nxt => accPathC fuel s1 nxt rest a cs
        | .ans x, _ => (s1, x)
        | .err, _ => (s1, .err)
        | _, _ => (s1, .panic) := by
  rw [accPathC]
  simp only [ho, hn]

/-- the explicit choices are choices the nested pools can make, each in the state it is made in -/
def AccCOK : Nat → LState → Option Nat → List Nat → List Choice → Prop
  | fuel + 1, s, some id, tag :: t2 :: rest, c :: cs =>
    ∀ o node, s.obj? id = some o → decAt s.root o.path = some node →
      (∀ sub pb, nestedSelect node o.fds tag = .payload sub pb → pb.isEmpty = false → ChoiceOKN s (o.path ++ [tag]) c) ∧
      match nestedResult s id tag c with
      | (s1, _, some nxt) => AccCOK fuel s1 nxt (t2 :: rest) cs
      | _ => True
  | _, _, _, _, _ => True

theorem accPathC_spec (sp : NSpec) (a : Acc) : ∀ (fuel : Nat) (path : List Nat) (cs : List Choice) (s : LState) (G : GMap)
    (id : Nat) (b : Bytes) (p : List Nat) (g : Nat) (node : LDec) (fds : List FD),
    Inv s sp G → G id = some ⟨b, p, g⟩ → view sp.root p b = some (node, fds) → AccCOK fuel s (some id) path cs →
    (accPathC fuel s (some id) path a cs).2 = lookupPath fuel node (some fds) path a ∧
      ∃ G', Inv (accPathC fuel s (some id) path a cs).1 sp.clr G'
  | fuel, path, [], s, G, id, b, p, g, node, fds, r, hd, hvw, _ => by
    rw [accPathC_nil]; exact accPath_spec sp a fuel path s G id b p g node fds r hd hvw
  | 0, path, c :: cs, s, G, id, b, p, g, node, fds, r, _, _, _ => by
    simp only [accPathC, lookupPath]; exact ⟨trivial, G, r.clear⟩
  | fuel + 1, [], c :: cs, s, G, id, b, p, g, node, fds, r, _, _, _ => by
    simp only [accPathC, lookupPath]; exact ⟨trivial, G, r.clear⟩
  | fuel + 1, [tag], c :: cs, s, G, id, b, p, g, node, fds, r, hd, hvw, _ => by
    obtain ⟨o, ho, hp, hn, hn', hdc, heq⟩ := r.liveObj hd hvw
    rw [accPathC_succ fuel s id tag [] a c cs o node ho hn]
    simp only [List.isEmpty_nil, if_true, lookupPath]
    exact ⟨accessTag_congr node heq tag a, G, r.clear⟩
  | fuel + 1, tag :: t2 :: rest, c :: cs, s, G, id, b, p, g, node, fds, r, hd, hvw, hok => by
    obtain ⟨o, ho, hp, hn, hn', hdc, heq⟩ := r.liveObj hd hvw
    rw [accPathC_succ fuel s id tag (t2 :: rest) a c cs o node ho hn, lookupPath_cons2]
    simp only [List.isEmpty_cons, Bool.false_eq_true, if_false]
    rw [AccCOK] at hok
    obtain ⟨hc, hnext⟩ := hok o node ho hn
    rw [nestedResult_eq s id o node tag c ho hn] at hnext ⊢
    rw [nestedSelect_congr node heq] at hnext hc ⊢
    cases hsel : nestedSelect node fds tag with
    | ans x => exact ⟨rfl, G, r.clear⟩
    | payload sub pb =>
      rw [hsel] at hnext
      simp only [] at hnext ⊢
      have hsub : decAt sp.root (p ++ [tag]) = some sub := by
        rw [decAt_append, hn']; simp [nestedSelect_payload hsel]
      have hcok : pb.isEmpty = false → ChoiceOKN s (p ++ [tag]) c := fun hne => hp ▸ hc sub pb hsel hne
      obtain ⟨s', r', ha, fr, hm⟩ := attach_inv s sp G r id b p g tag sub pb c hd hsub
        (fun hne => (choiceIn_of_ok (hcok hne)).1)
      rw [hp] at hnext ⊢
      rw [ha] at hnext ⊢
      rcases subOut_cases sub pb with ⟨hso, hemp⟩ | ⟨hne, hso | hso | hso⟩
      · rw [hso] at hm ⊢
        obtain ⟨e1, e2⟩ := hm
        subst e1; subst e2
        simp only [hemp, if_true]
        rw [accPathC_none fuel _ (t2 :: rest) a cs sub]
        exact ⟨rfl, G, r.clear⟩
      · obtain ⟨_, fds', hdec'⟩ := subOut_ok hso
        rw [hso] at hm ⊢
        obtain ⟨nid, G', e1, w', hg', hsub', hgens⟩ := hm
        subst e1
        simp only [hne, Bool.false_eq_true, if_false, hdec']
        have hanon := frame_anon fr r.anon (choiceIn_of_ok (hcok hne)).2
        have r2 : Inv s' sp.clr G' := r.grow fr.root fr.handles hanon w' hsub' hgens
        have hvw' : view sp.clr.root (p ++ [tag]) pb = some (sub, fds') := by
          show view sp.root (p ++ [tag]) pb = some (sub, fds')
          simp only [view, hsub, hdec']
        exact accPathC_spec sp.clr a fuel (t2 :: rest) cs s' G' nid pb (p ++ [tag]) g sub fds' r2 hg' hvw' hnext
      · obtain ⟨_, hdec'⟩ := subOut_err hso
        rw [hso] at hm ⊢
        obtain ⟨e1, w'⟩ := hm
        subst e1
        simp only [hne, Bool.false_eq_true, if_false, hdec']
        have hanon := frame_anon fr r.anon (choiceIn_of_ok (hcok hne)).2
        exact ⟨trivial, G, r.grow fr.root fr.handles hanon w' (fun _ _ h => h) r.gens⟩
      · obtain ⟨_, hdec'⟩ := subOut_panic hso
        rw [hso] at hm ⊢
        obtain ⟨e1, w'⟩ := hm
        subst e1
        simp only [hne, Bool.false_eq_true, if_false, hdec']
        have hanon := frame_anon fr r.anon (choiceIn_of_ok (hcok hne)).2
        exact ⟨trivial, G, r.grow fr.root fr.handles hanon w' (fun _ _ h => h) r.gens⟩

/-- the operations of `LState.step`, plus `FieldData(path…)` + accessor with explicit pool choices -/
inductive XOp where
  | base (op : LOp)
  | accC (h : Nat) (path : List Int) (a : Acc) (cs : List Choice)

def xstep (s : LState) : XOp → LState × LOut
  | .base op => s.step op
  | .accC h path a cs =>
    match s.handle? h with
    | none => (s, .badHandle)
    | some r =>
      let (s1, x) := accPathC (path.length + 1) s r (path.map Int.natAbs) a cs
      (s1, .ans x)

/-- with no explicit choices `accC` is the model's `acc` -/
theorem xstep_accC_nil (s : LState) (h : Nat) (path : List Int) (a : Acc) :
    xstep s (.accC h path a []) = s.step (.acc h path a) := by
  simp only [xstep, LState.step, accPathC_nil]
  cases s.handle? h <;> rfl

/-- the specification does not see the choices -/
def NSpec.xstep (sp : NSpec) : XOp → NSpec × LOut
  | .base op => sp.step op
  | .accC h path a _ => sp.step (.acc h path a)

def XOpOK (s : LState) (sp : NSpec) : XOp → Prop
  | .base op => NOpOK s sp op
  | .accC h path _ cs => sp.handle? h ≠ some .closed ∧
      ∀ r, s.handle? h = some r → AccCOK (path.length + 1) s r (path.map Int.natAbs) cs

theorem xstep_refines (s : LState) (sp : NSpec) (G : GMap) (r : Inv s sp G) (op : XOp) (hok : XOpOK s sp op) :
    (xstep s op).2 = (sp.xstep op).2 ∧ ∃ G', Inv (xstep s op).1 (sp.xstep op).1 G' := by
  cases op with
  | base op => exact nstep_refines s sp G r op hok
  | accC h path a cs =>
    obtain ⟨hnc, hch⟩ := hok
    simp only [xstep, NSpec.xstep, NSpec.step]
    have hr := r.hs h
    cases hv : sp.handle? h with
    | none => rw [hv] at hr; simp only [HRel] at hr; simp only [hr]; exact ⟨trivial, G, r.clear⟩
    | some nv =>
      rw [hv] at hr
      cases nv with
      | nilRes =>
        simp only [HRel] at hr
        simp only [hr]
        rw [accPathC_none (path.length + 1) s (path.map Int.natAbs) a cs sp.root]
        exact ⟨rfl, G, r.clear⟩
      | closed => exact absurd hv hnc
      | live b p g =>
        simp only [HRel] at hr
        obtain ⟨id, h1, hd⟩ := hr
        obtain ⟨node, fds, hvw⟩ := r.view_some hd
        simp only [h1, hvw]
        obtain ⟨e, G', r'⟩ := accPathC_spec sp a (path.length + 1) (path.map Int.natAbs) cs s G id b p g node fds r hd hvw
          (hch _ h1)
        exact ⟨by rw [e], G', r'⟩

def xoutputs (s : LState) : List XOp → List LOut
  | [] => []
  | op :: ops => (xstep s op).2 :: xoutputs (xstep s op).1 ops

def NSpec.xoutputs (sp : NSpec) : List XOp → List LOut
  | [] => []
  | op :: ops => (sp.xstep op).2 :: NSpec.xoutputs (sp.xstep op).1 ops

def XHistOK (s : LState) (sp : NSpec) : List XOp → Prop
  | [] => True
  | op :: ops => XOpOK s sp op ∧ XHistOK (xstep s op).1 (sp.xstep op).1 ops

theorem xhistory_refines_from (ops : List XOp) : ∀ (s : LState) (sp : NSpec) (G : GMap), Inv s sp G → XHistOK s sp ops →
    xoutputs s ops = NSpec.xoutputs sp ops ∧ ∀ out ∈ xoutputs s ops, out ≠ .panic ∧ out ≠ .ans .panic := by
  induction ops with
  | nil => intro s sp G _ _; exact ⟨rfl, by intro out ho; simp [xoutputs] at ho⟩
  | cons op ops ih =>
    intro s sp G r hok
    obtain ⟨h1, G', h2⟩ := xstep_refines s sp G r op hok.1
    obtain ⟨i1, i2⟩ := ih _ _ G' h2 hok.2
    refine ⟨by simp only [xoutputs, NSpec.xoutputs, h1, i1], ?_⟩
    intro out ho
    simp only [xoutputs, List.mem_cons] at ho
    rcases ho with rfl | ho
    · rw [h1]
      cases op with
      | base op => exact nspec_no_panic s sp G r op
      | accC h path a cs => exact nspec_no_panic s sp G r (.acc h path a)
    · exact i2 out ho

/-- **C14 with nested results, including the pool choices made behind multi-element `FieldData` paths**:
    same outputs as the pool-free specification, and no panic. -/
theorem nested_history_refines_x (root : LDec) (pooled : Bool) (ops : List XOp)
    (hok : XHistOK (LState.init root pooled) (NSpec.init root) ops) :
    xoutputs (LState.init root pooled) ops = NSpec.xoutputs (NSpec.init root) ops ∧
      ∀ out ∈ xoutputs (LState.init root pooled) ops, out ≠ .panic ∧ out ≠ .ans .panic :=
  xhistory_refines_from ops _ _ _ (Inv.init root pooled) hok

def accCOKb : Nat → LState → Option Nat → List Nat → List Choice → Bool
  | fuel + 1, s, some id, tag :: t2 :: rest, c :: cs =>
    match s.obj? id with
    | none => true
    | some o =>
      match decAt s.root o.path with
      | none => true
      | some node =>
        (match nestedSelect node o.fds tag with
          | .payload _ pb => pb.isEmpty || choiceOKb s (o.path ++ [tag]) c
          | _ => true) &&
        (match nestedResult s id tag c with
          | (s1, _, some nxt) => accCOKb fuel s1 nxt (t2 :: rest) cs
          | _ => true)
  | _, _, _, _, _ => true

theorem accCOKb_sound : ∀ (fuel : Nat) (s : LState) (r : Option Nat) (path : List Nat) (cs : List Choice),
    accCOKb fuel s r path cs = true → AccCOK fuel s r path cs
  | fuel + 1, s, some id, tag :: t2 :: rest, c :: cs, h => by
    rw [AccCOK]
    intro o node ho hn
    rw [accCOKb] at h
    simp only [ho, hn, Bool.and_eq_true] at h
    refine ⟨?_, ?_⟩
    · intro sub pb hsel hne
      have h1 := h.1
      rw [hsel] at h1
      simp only [Bool.or_eq_true] at h1
      rcases h1 with h1 | h1
      · rw [hne] at h1; cases h1
      · exact choiceOKb_sound h1
    · have h2 := h.2
      rcases hnr : nestedResult s id tag c with ⟨s1, out, r⟩
      rw [hnr] at h2
      cases r with
      | none => trivial
      | some nxt => exact accCOKb_sound fuel s1 nxt (t2 :: rest) cs h2
  | 0, _, _, _, _, _ => by simp [AccCOK]
  | _ + 1, _, none, _, _, _ => by simp [AccCOK]
  | _ + 1, _, some _, [], _, _ => by simp [AccCOK]
  | _ + 1, _, some _, [_], _, _ => by simp [AccCOK]
  | _ + 1, _, some _, _ :: _ :: _, [], _ => by simp [AccCOK]

def xopOKb (s : LState) (sp : NSpec) : XOp → Bool
  | .base op => nopOKb s sp op
  | .accC h path _ cs =>
    decide (sp.handle? h ≠ some .closed) &&
      match s.handle? h with
      | some r => accCOKb (path.length + 1) s r (path.map Int.natAbs) cs
      | none => true

theorem xopOKb_sound {s : LState} {sp : NSpec} {op : XOp} (h : xopOKb s sp op = true) : XOpOK s sp op := by
  cases op with
  | base op => exact nopOKb_sound h
  | accC hd path a cs =>
    simp only [xopOKb, Bool.and_eq_true, decide_eq_true_eq] at h
    refine ⟨h.1, ?_⟩
    intro r hr
    have h2 := h.2
    rw [hr] at h2
    exact accCOKb_sound _ _ _ _ _ h2

def xhistOKb (s : LState) (sp : NSpec) : List XOp → Bool
  | [] => true
  | op :: ops => xopOKb s sp op && xhistOKb (xstep s op).1 (sp.xstep op).1 ops

theorem xhistOKb_sound : ∀ (ops : List XOp) (s : LState) (sp : NSpec), xhistOKb s sp ops = true → XHistOK s sp ops
  | [], _, _, _ => trivial
  | op :: ops, s, sp, h => by
    simp only [xhistOKb, Bool.and_eq_true] at h
    exact ⟨xopOKb_sound h.1, xhistOKb_sound ops _ _ h.2⟩

/-- the two-element path `[2, 1]` first allocates the invisible nested object 1000000; after `Close` and a
    re-decode into the recycled root object 10, the same path is served by the RECYCLED object 1000000 -/
def xhistEx : List XOp :=
  [.base (.decode 1 ninA (.new 10)), .base (.acc 1 [2, 1] .uint64), .base (.close 1),
   .base (.decode 2 ninB (.reuse 10)), .accC 2 [2, 1] .uint64 [.reuse 1000000], .base (.acc 2 [1] .uint64),
   .base (.close 2)]

theorem xhistEx_ok : XHistOK (LState.init nroot true) (NSpec.init nroot) xhistEx :=
  xhistOKb_sound _ _ _ (by decide)

theorem xhistEx_outputs : xoutputs (LState.init nroot true) xhistEx =
    [.ok, .ans (.ok (.nat 7)), .ok, .ok, .ans (.ok (.nat 9)), .ans .notFound, .ok] := by
  decide

/-! ## what is proved, and what is not

  Proved (no `sorry`, axioms: propext / Classical.choice / Quot.sound only — see `Audit/C14Nested.lean`):
  * `nested_history_refines`, `nested_history_no_panic`: the FULL statement for the machine of
    `Model/Pool.lean` (`LState.step`): every history of Decode / accessor with paths of any length /
    NestedResult / NestedResults / Range / Close, nesting of any depth, pooled or unpooled root, every choice
    of every pool (root and nested) — outputs equal those of the pool-free `NSpec`, and nothing panics.
  * `nested_history_refines_x`: the same with the pool choices made explicit for the nested results that a
    multi-element `FieldData` path allocates (section 9), which the model fixes to "always new".
  * `nhistEx_ok` / `nhistEx_outputs` / `xhistEx_ok` / `xhistEx_outputs`: concrete histories that meet the
    contract and recycle a root object, client-visible nested objects and a client-invisible one.

  The contract (`NOpOK`): no accessor / Range / NestedResult(s) on a closed handle, where closing a root handle
  closes every handle descending from it; `Close` on a closed handle only as the immediate repetition of the
  root `Close`; `Close` on a live nested handle is allowed (and has no effect); handles may be overwritten;
  a `.new` choice names an unused object id below the machine's counter for invisible objects, a `.reuse`
  choice any object currently in the pool of the decoder node that decodes.

  Shape of the invariant: `W` is the closer forest restricted to what safety needs — a nested object is in
  the closer list of AT MOST one live object (`forest`), closers are live, one level deeper, of the same root
  generation; pooled objects are not live, cleared, in the pool of their own node, and no pool holds an
  object twice.  "At least one parent" is not part of it: it is not needed for isolation (it would say that
  `Close` leaks nothing), and an object whose decode failed after being recycled is legitimately parentless
  (`skipClose` stays set on a recycled nested object, so the `res.Close()` in `decodeWithPool` is a no-op and
  the object is dropped, in the model as in the implementation).

  The proof does not depend on `closeRes`'s fuel being sufficient (`closeObj_spec` holds for every fuel:
  running out of fuel leaves objects unreleased, which is safe). -/

end Csproto.C14N
