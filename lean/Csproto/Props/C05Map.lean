import Csproto.Props.C04
import Csproto.Props.C05
import Csproto.Proofs.GenMapRoundtrip
import Csproto.Proofs.GenMapTemplate
import Csproto.Proofs.GenMapSame
/-
  C05 / C06 / C04 for **map fields** — the marshal side, which `roundtrip_nested` left out.

  A Go map is iterated in arbitrary order.  In the model a map field (`Card.map`, `ty = .msg e`, `e` the entry
  type `entryMD kk vty`) holds `F.many es`: the entries IN THE ORDER `range` DELIVERED THEM, each
  `V.msg [.one key, .one value] []` — or, in a message-valued map, `V.msg [.one key, .unset] []` when the value is
  a nil pointer; such an entry is passed over by `Size` and `MarshalTo` exactly as by the two snippets
  (`nil_value_entry_is_skipped`, `nil_valued_entries_do_not_matter`) and is therefore not in the map after the round
  trip (`roundtrip_drops_nil_valued_entries`).  The hypotheses of the theorems below say nothing about that order; they
  only require the keys of one map to be pairwise distinct after normalisation to the key type's width
  (`KeysDistinct`), which every Go map satisfies.

  (a) exactness — `size_exact_maps`, `marshalTo_fills_maps` (instances of C04, which never excluded maps), and
      for the snippets AS WRITTEN (`EncodeMapEntryHeader` + key writer + value writer, `keySize`/`valueSize`
      with the literal `1 +`): `snippet_size_is_model_size`, `snippet_bytes_are_model_bytes`, `snippet_exact`;
  (b) `map_field_is_entry_records`, `marshal_record_tree_maps`, `record_tree_maps_well_formed` — what a map
      field writes is one `NRec.map` record per entry, each a well-formed map-entry record in the sense of
      `unmarshal_nested` (payload: the key record then the value record, value nested when message-typed);
  (c) `roundtrip_maps` — `Unmarshal (Marshal m) = canonFs m` in both decoder modes, for maps at any depth next
      to everything `roundtrip_nested` covers; consequences that do not mention order:
      `roundtrip_maps_as_finite_map` (same length, same entries, same lookup function) and
      `roundtrip_order_independent` (two iteration orders of the same maps decode to messages that are equal
      field by field except that map fields are permutations of each other, and have the same lookup function).
-/
namespace Csproto.C05Map
open Csproto Csproto.Gen

/-! ### (a) Size = bytes written, exact fill — messages with map fields -/

/-- `Size()` of a message with map fields (any schema, any nesting) = bytes written by its `MarshalTo` -/
theorem size_exact_maps (S : Schema) (md : MD) (fs : List F) (unk : Bytes) (ops : List EncOp)
    (hok : OKFields S md fs) (ho : opsFields S md fs = .ok ops) :
    sizeFields S md fs + unk.length = (Gen.wiresOf (ops ++ [.raw unk])).length :=
  C04.size_exact S md fs unk ops hok ho

/-- `MarshalTo` into a buffer of exactly `Size()` bytes: no panic, exact fill, exact contents -/
theorem marshalTo_fills_maps (S : Schema) (md : MD) (fs : List F) (unk : Bytes) (ops : List EncOp)
    (hok : OKFields S md fs) (ho : opsFields S md fs = .ok ops) :
    ∃ e, (Enc.new (sizeFields S md fs + unk.length)).run (ops ++ [.raw unk]) = .ok e ∧
      e.off = e.cap ∧ e.cap = sizeFields S md fs + unk.length ∧ e.buf = Gen.wiresOf ops ++ unk :=
  C04.marshalTo_fills S md fs unk ops hok ho

/-- the `range` loop of `SizeOfMapEntry` as written adds what the model's map arm adds -/
theorem snippet_size_is_model_size (S : Schema) (num e : Nat) (kk : SK) (vty : Ty) (hk : legalKey kk = true)
    (hemd : S.md e = entryMD kk vty) (es : List V) (hes : ∀ x ∈ es, IsEntry vty x) :
    tMapSize S num kk vty es = sizeField S ⟨num, .msg e, .map⟩ (.many es) := by
  simp only [sizeField, hemd, Card.isMap]
  exact tMapSize_eq S num kk vty hk es hes

/-- the `range` loop of `MarshalMapEntry` as written (`EncodeMapEntryHeader`, key, value) has the outcome and
    writes the bytes of the model's map arm -/
theorem snippet_bytes_are_model_bytes (S : Schema) (num e : Nat) (kk : SK) (vty : Ty) (hk : legalKey kk = true)
    (hemd : S.md e = entryMD kk vty) (es : List V) (hes : ∀ x ∈ es, IsEntry vty x)
    (hvs : ∀ x ∈ es, ∀ j, vty = .msg j → OKMsgV S (S.md j) (entryVal x)) :
    (tMapOps S num kk vty es).map Gen.wiresOf = (opsField S ⟨num, .msg e, .map⟩ (.many es)).map Gen.wiresOf := by
  simp only [opsField, hemd, Card.isMap]
  exact (tMapOps_eq S num kk vty hk es hes hvs).1

/-- C04 for the two map snippets as written, entries in any order -/
theorem snippet_exact (S : Schema) (num : Nat) (kk : SK) (vty : Ty) (hk : legalKey kk = true) (ht : C01.ValidTag num)
    (es : List V) (hes : ∀ e ∈ es, IsEntry vty e) (hok : OKMsgList S (entryMD kk vty) es)
    (hvs : ∀ e ∈ es, ∀ j, vty = .msg j → OKMsgV S (S.md j) (entryVal e))
    (ops : List EncOp) (ho : tMapOps S num kk vty es = .ok ops) :
    tMapSize S num kk vty es = (Gen.wiresOf ops).length ∧
      ∀ (e : Enc), e.Room (Gen.wiresOf ops).length → ∃ e', e.run ops = .ok e' ∧ Enc.Appended e e' (Gen.wiresOf ops) :=
  tMap_exact S num kk vty hk ht es hes hok hvs ops ho

/-- **a nil pointer as the value of a message-valued map entry**: the entry adds nothing to `Size()` and
    `MarshalTo` makes no encoder call for it — `if v != nil { … }` around the `sz +=` of `SizeOfMapEntry`,
    `if v == nil { continue }` at the top of the loop body of `MarshalMapEntry` (all three API flavours share the
    snippets).  (Before, the model wrote such an entry key-only.) -/
theorem nil_value_entry_is_skipped (S : Schema) (num j : Nat) (kk : SK) (k : V) (u : Bytes) :
    sizeMsgList S (entryMD kk (.msg j)) num true [.msg [.one k, .unset] u] = 0 ∧
    opsMsgList S (entryMD kk (.msg j)) num true [.msg [.one k, .unset] u] = .ok [] := by
  constructor <;> simp [sizeMsgList, opsMsgList, nilEntry, msgValued, valUnset, entryMD]

/-- the same for the map field as a whole, wherever the entry sits in the iteration order: `Size()` and the
    encoder calls of a map field are those of the map without its nil-valued entries -/
theorem sizeMsgList_live (S : Schema) (md : MD) (tag : Nat) (sk : Bool) : ∀ (vs : List V),
    sizeMsgList S md tag sk vs = sizeMsgList S md tag false (liveVs md sk vs)
  | [] => rfl
  | v :: vs => by
    have ih := sizeMsgList_live S md tag sk vs
    unfold liveVs at ih ⊢
    cases hn : (sk && nilEntry md v)
    · simp only [sizeMsgList, List.filter_cons, hn, ih, Bool.not_false, Bool.false_and, Bool.false_eq_true, ↓reduceIte]
    · simp only [sizeMsgList, List.filter_cons, hn, ih, Bool.not_true, Bool.false_eq_true, ↓reduceIte, Nat.zero_add]

theorem opsMsgList_live (S : Schema) (md : MD) (tag : Nat) (sk : Bool) : ∀ (vs : List V),
    opsMsgList S md tag sk vs = opsMsgList S md tag false (liveVs md sk vs)
  | [] => rfl
  | v :: vs => by
    have ih := opsMsgList_live S md tag sk vs
    unfold liveVs at ih ⊢
    cases hn : (sk && nilEntry md v)
    · simp only [opsMsgList, List.filter_cons, hn, ih, Bool.not_false, Bool.false_and, Bool.false_eq_true, ↓reduceIte]
    · simp only [opsMsgList, List.filter_cons, hn, ih, Bool.not_true, Bool.false_eq_true, ↓reduceIte]

/-- **nil-valued entries do not matter**: a map field marshals exactly as the same map with the nil-valued entries
    removed (same `Size()`, same encoder calls, hence — `C04` — the same bytes) -/
theorem nil_valued_entries_do_not_matter (S : Schema) (num e : Nat) (es : List V) :
    sizeField S ⟨num, .msg e, .map⟩ (.many es) = sizeField S ⟨num, .msg e, .map⟩ (.many (liveVs (S.md e) true es)) ∧
    opsField S ⟨num, .msg e, .map⟩ (.many es) = opsField S ⟨num, .msg e, .map⟩ (.many (liveVs (S.md e) true es)) := by
  have hll : liveVs (S.md e) true (liveVs (S.md e) true es) = liveVs (S.md e) true es := by
    simp [liveVs, List.filter_filter]
  constructor
  · simp only [sizeField, Card.isMap]
    rw [sizeMsgList_live S _ num true es, sizeMsgList_live S _ num true (liveVs (S.md e) true es), hll]
  · simp only [opsField, Card.isMap]
    rw [opsMsgList_live S _ num true es, opsMsgList_live S _ num true (liveVs (S.md e) true es), hll]

/-! ### (b) what a map field writes: one well-formed map-entry record per entry -/

/-- a map field contributes one `NRec.map` record per entry written (i.e. not nil-valued), in iteration order, whose payload is the record
    tree of the entry (key record, value record) -/
theorem map_field_is_entry_records (S : Schema) (idx : Nat) (fd : FD) (e : Nat) (hty : fd.ty = .msg e)
    (hm : fd.card = .map) (es : List V) :
    recsFieldM S idx fd (.many es)
      = (liveVs (S.md e) true es).map fun x => NRec.map idx fd e (recsVM S (S.md e) x) := by
  simp only [recsFieldM, hty]
  induction es with
  | nil => rfl
  | cons x xs ih =>
    unfold liveVs at ih ⊢
    cases hn : nilEntry (S.md e) x
    · simp only [recsListM, isMap_of_eq hm, Bool.true_and, hn, Bool.false_eq_true, ↓reduceIte, elemRec_of_map hm, ih,
        List.filter_cons, Bool.not_false, List.map_cons]
    · simp only [recsListM, isMap_of_eq hm, Bool.true_and, hn, ↓reduceIte, ih, List.filter_cons, Bool.not_true,
        Bool.false_eq_true]

/-- what `Marshal` writes is exactly the wire form of that record tree -/
theorem marshal_record_tree_maps (S : Schema) (md : MD) (fs : List F) (ops : List EncOp)
    (hok : OKFields S md fs) (hcl : CleanFs fs) (ho : opsFields S md fs = .ok ops) :
    Gen.wiresOf ops = wiresN (recsFieldsM S 0 md fs) :=
  ops_recsFieldsM S md fs ops hok hcl ho

/-- every record of the tree is well formed in the sense of `unmarshal_nested`: a map entry is an `NRec.map`
    record of the map field's own number whose payload is a sequence of well-formed entry records (`OKsE`) -/
theorem record_tree_maps_well_formed (S : Schema) (hS : SchemaOKM S) (i : Nat) (fs : List F)
    (hwf : WFsM S (S.md i) fs) : OKs S (S.md i) (recsFieldsM S 0 (S.md i) fs) :=
  record_treeM_ok S hS i fs hwf

/-! ### (c) round trip -/

/-- **Round trip with map fields**, both decoder modes, any iteration order, keys pairwise distinct -/
theorem roundtrip_maps (S : Schema) (hS : SchemaOKM S) (fast : Bool) (i : Nat) (fs : List F) (urs : List Rec)
    (ops : List EncOp) (hwf : WFsM S (S.md i) fs) (hex : Excl (S.md i) fs) (hok : OKFields S (S.md i) fs)
    (hu : ∀ r ∈ urs, r.OK ∧ findField (S.md i) r.tag 0 = none)
    (ho : opsFields S (S.md i) fs = .ok ops) :
    unmarshal S fast (S.md i) (Gen.wiresOf ops ++ Csproto.wiresOf urs)
      = .ok (canonFs S (S.md i) fs, Csproto.wiresOf urs) :=
  roundtrip_map S hS fast i fs urs ops hwf hex hok hu ho

/-- the two decoder modes agree on `Marshal` output -/
theorem roundtrip_maps_mode_independent (S : Schema) (hS : SchemaOKM S) (i : Nat) (fs : List F) (urs : List Rec)
    (ops : List EncOp) (hwf : WFsM S (S.md i) fs) (hex : Excl (S.md i) fs) (hok : OKFields S (S.md i) fs)
    (hu : ∀ r ∈ urs, r.OK ∧ findField (S.md i) r.tag 0 = none)
    (ho : opsFields S (S.md i) fs = .ok ops) :
    unmarshal S true (S.md i) (Gen.wiresOf ops ++ Csproto.wiresOf urs)
      = unmarshal S false (S.md i) (Gen.wiresOf ops ++ Csproto.wiresOf urs) := by
  rw [roundtrip_maps S hS true i fs urs ops hwf hex hok hu ho, roundtrip_maps S hS false i fs urs ops hwf hex hok hu ho]

/-- the decoded entries of a well-formed map field have pairwise distinct stored keys -/
theorem decoded_keys_distinct (S : Schema) (fd : FD) (f : F) (es : List V) (hm : fd.card = .map)
    (href : MapRef S fd) (hwf : WFfM S fd f) (hc : canonF S fd f = .many es) : StoredKeysDistinct es := by
  obtain ⟨e, kk, vty, hty, hemd⟩ := href hm
  cases f with
  | unset =>
    simp [canonF, initField, hm] at hc
    subst hc; simp [StoredKeysDistinct]
  | one v => simp [canonF, hty] at hc
  | many vs =>
    simp only [WFfM, hty] at hwf
    obtain ⟨hcase, _, hvs⟩ := hwf
    rcases hcase with hl | ⟨_, hset, hd⟩
    · rw [hm] at hl; cases hl
    · simp only [canonF, hty, F.many.injEq, isMap_of_eq hm] at hc
      subst hc
      rw [hemd] at hvs hd hset ⊢
      exact storedKeys_canonVs S kk vty vs hvs hset hd

/-- **the decoded map equals the original as a finite map**: for every map field, what `Unmarshal (Marshal m)`
    holds is a permutation of (in fact: is) the normalised entries of `m` that were written — all entries except
    those whose message value is a nil pointer (`liveVs`; see `roundtrip_maps_as_finite_map_no_nil` for maps
    without such entries, where that is all of them) — same number of entries, every entry present, none merged —
    its stored keys are pairwise distinct, and its lookup function is that of the normalised original, a statement
    in which the order of the entries does not occur -/
theorem roundtrip_maps_as_finite_map (S : Schema) (hS : SchemaOKM S) (fast : Bool) (i : Nat) (fs : List F)
    (ops : List EncOp) (hwf : WFsM S (S.md i) fs) (hex : Excl (S.md i) fs) (hok : OKFields S (S.md i) fs)
    (ho : opsFields S (S.md i) fs = .ok ops) :
    ∃ d, unmarshal S fast (S.md i) (Gen.wiresOf ops) = .ok (d, []) ∧
      ∀ (j e : Nat) (fd : FD) (es : List V), (S.md i)[j]? = some fd → fd.card = .map → fd.ty = .msg e →
        fs[j]? = some (.many es) →
        ∃ ds, d[j]? = some (.many ds) ∧ ds.Perm ((liveVs (S.md e) true es).map (canonV S (S.md e))) ∧
          ds.length = (liveVs (S.md e) true es).length ∧
          StoredKeysDistinct ds ∧ ∀ k, mapGet ds k = mapGet ((liveVs (S.md e) true es).map (canonV S (S.md e))) k := by
  have hrt := roundtrip_maps S hS fast i fs [] ops hwf hex hok (by simp) ho
  simp only [Csproto.wiresOf, List.map_nil, List.flatten_nil, List.append_nil] at hrt
  refine ⟨canonFs S (S.md i) fs, hrt, ?_⟩
  intro j e fd es hj hm hty hf
  have hg := canonFs_get S (S.md i) fs j fd (.many es) (wfsM_len S _ fs hwf) hj hf
  have hmem : fd ∈ S.md i := List.mem_of_getElem? hj
  have hcf : canonF S fd (.many es) = .many (canonVs S (S.md e) true es) := by simp [canonF, hty, isMap_of_eq hm]
  have hdist := decoded_keys_distinct S fd (.many es) _ hm ((hS i).2 fd hmem) (wfsM_get S _ fs j fd _ hwf hj hf) hcf
  rw [hcf] at hg
  rw [canonVs_eq_map] at hg hdist
  exact ⟨_, hg, List.Perm.refl _, by simp, hdist, fun _ => rfl⟩

/-- … for a message none of whose top-level maps holds a nil pointer: every entry is there after the round trip
    (the statement `roundtrip_maps_as_finite_map` had before nil-valued entries were modelled) -/
theorem roundtrip_maps_as_finite_map_no_nil (S : Schema) (hS : SchemaOKM S) (fast : Bool) (i : Nat) (fs : List F)
    (ops : List EncOp) (hwf : WFsM S (S.md i) fs) (hex : Excl (S.md i) fs) (hok : OKFields S (S.md i) fs)
    (ho : opsFields S (S.md i) fs = .ok ops)
    (hnn : ∀ (j : Nat) (es : List V), fs[j]? = some (.many es) → ∀ x ∈ es, EntrySet x) :
    ∃ d, unmarshal S fast (S.md i) (Gen.wiresOf ops) = .ok (d, []) ∧
      ∀ (j e : Nat) (fd : FD) (es : List V), (S.md i)[j]? = some fd → fd.card = .map → fd.ty = .msg e →
        fs[j]? = some (.many es) →
        ∃ ds, d[j]? = some (.many ds) ∧ ds.Perm (es.map (canonV S (S.md e))) ∧ ds.length = es.length ∧
          StoredKeysDistinct ds ∧ ∀ k, mapGet ds k = mapGet (es.map (canonV S (S.md e))) k := by
  obtain ⟨d, hd, h⟩ := roundtrip_maps_as_finite_map S hS fast i fs ops hwf hex hok ho
  refine ⟨d, hd, ?_⟩
  intro j e fd es hj hm hty hf
  have := h j e fd es hj hm hty hf
  rwa [liveVs_of_set (S.md e) true es (hnn j es hf)] at this

theorem wfvsM_mem (S : Schema) (md : MD) : ∀ (vs : List V), WFvsM S md vs → ∀ y ∈ vs, WFvM S md y
  | [], _, _, hy => by simp at hy
  | v :: vs, h, y, hy => by
    simp only [WFvsM] at h
    rcases List.mem_cons.mp hy with rfl | hy'
    · exact h.1
    · exact wfvsM_mem S md vs h.2 y hy'

/-- in a Go map a key occurs once: an entry's key differs from the key of every other entry -/
theorem keys_differ (emd : MD) : ∀ (es : List V), KeysDistinct emd es → ∀ x ∈ es, ∀ y ∈ es, x ≠ y →
    keyEq (canonKey emd y) (canonKey emd x) = false
  | [], _, _, hx, _, _, _ => by simp at hx
  | a :: l, hd, x, hx, y, hy, hne => by
    obtain ⟨ha, hl⟩ := List.pairwise_cons.mp hd
    rcases List.mem_cons.mp hx with rfl | hx' <;> rcases List.mem_cons.mp hy with rfl | hy'
    · exact absurd rfl hne
    · rw [keyEq_symm]; exact ha y hy'
    · exact ha x hx'
    · exact keys_differ emd l hl x hx' y hy' hne

/-- **round trip of a map holding nil pointers**: `Unmarshal (Marshal m)` is `m` with the nil-valued entries
    removed (and the usual normalisation of values to their field width) — for every map field of `m` the decoded
    map holds exactly the normalised entries whose value is not nil, in the order written, and the key of a
    nil-valued entry is NOT a key of the decoded map (`m[k]` finds nothing) -/
theorem roundtrip_drops_nil_valued_entries (S : Schema) (hS : SchemaOKM S) (fast : Bool) (i : Nat) (fs : List F)
    (ops : List EncOp) (hwf : WFsM S (S.md i) fs) (hex : Excl (S.md i) fs) (hok : OKFields S (S.md i) fs)
    (ho : opsFields S (S.md i) fs = .ok ops) :
    ∃ d, unmarshal S fast (S.md i) (Gen.wiresOf ops) = .ok (d, []) ∧
      ∀ (j e : Nat) (fd : FD) (es : List V), (S.md i)[j]? = some fd → fd.card = .map → fd.ty = .msg e →
        fs[j]? = some (.many es) →
        ∃ ds, d[j]? = some (.many ds) ∧
          ds = (es.filter fun x => !nilEntry (S.md e) x).map (canonV S (S.md e)) ∧
          ∀ x ∈ es, nilEntry (S.md e) x = true → mapGet ds (canonKey (S.md e) x) = none := by
  have hrt := roundtrip_maps S hS fast i fs [] ops hwf hex hok (by simp) ho
  simp only [Csproto.wiresOf, List.map_nil, List.flatten_nil, List.append_nil] at hrt
  refine ⟨canonFs S (S.md i) fs, hrt, ?_⟩
  intro j e fd es hj hm hty hf
  have hg := canonFs_get S (S.md i) fs j fd (.many es) (wfsM_len S _ fs hwf) hj hf
  have hmem : fd ∈ S.md i := List.mem_of_getElem? hj
  have hcf : canonF S fd (.many es) = .many (canonVs S (S.md e) true es) := by simp [canonF, hty, isMap_of_eq hm]
  rw [hcf, canonVs_eq_map] at hg
  have hlive : liveVs (S.md e) true es = es.filter fun x => !nilEntry (S.md e) x := by simp [liveVs]
  rw [hlive] at hg
  refine ⟨_, hg, rfl, ?_⟩
  intro x hx hxn
  -- what the schema and the well-formedness of the value say about this field
  obtain ⟨e', kk, vty, hte, hemd⟩ := (hS i).2 fd hmem hm
  have hee : e = e' := by rw [hty] at hte; exact Ty.msg.inj hte
  subst hee
  have hwff := wfsM_get S _ fs j fd _ hwf hj hf
  simp only [WFfM, hty] at hwff
  obtain ⟨hcase, _, hvs⟩ := hwff
  rcases hcase with hl | ⟨_, hset, hd⟩
  · rw [hm] at hl; cases hl
  · unfold mapGet
    rw [List.find?_eq_none.mpr, Option.map_none]
    intro c hc
    obtain ⟨y, hy', rfl⟩ := List.mem_map.mp hc
    obtain ⟨hy, hyn⟩ := List.mem_filter.mp hy'
    have hyn' : nilEntry (S.md e) y = false := by simpa using hyn
    have hsety : EntrySet y := by
      rcases hset y hy with h | h
      · exact h
      · rw [hyn'] at h; cases h
    have hwy : WFvM S (S.md e) y := wfvsM_mem S (S.md e) es hvs y hy
    have hne : x ≠ y := by intro h; rw [h, hyn'] at hxn; cases hxn
    have hk := keys_differ (S.md e) es hd x hx y hy hne
    rw [hemd] at hwy hk ⊢
    rw [entryKey_canonV S kk vty y hwy hsety]
    simp [hk]

/-- **order independence of the round trip**: let `fs` and `gs` be the same message with the entries of its
    maps delivered in two different orders (`MapsPermuted`).  Then both encodings decode successfully, the
    two results agree on every non-map field, their map fields are permutations of each other, and every map
    field has the same lookup function in both — i.e. they are the same message. -/
theorem roundtrip_order_independent (S : Schema) (hS : SchemaOKM S) (fast : Bool) (i : Nat) (fs gs : List F)
    (opsF opsG : List EncOp) (hperm : MapsPermuted (S.md i) fs gs)
    (hwfF : WFsM S (S.md i) fs) (hexF : Excl (S.md i) fs) (hokF : OKFields S (S.md i) fs)
    (hoF : opsFields S (S.md i) fs = .ok opsF)
    (hwfG : WFsM S (S.md i) gs) (hexG : Excl (S.md i) gs) (hokG : OKFields S (S.md i) gs)
    (hoG : opsFields S (S.md i) gs = .ok opsG) :
    ∃ d1 d2, unmarshal S fast (S.md i) (Gen.wiresOf opsF) = .ok (d1, []) ∧
      unmarshal S fast (S.md i) (Gen.wiresOf opsG) = .ok (d2, []) ∧
      MapsPermuted (S.md i) d1 d2 ∧
      ∀ (j : Nat) (fd : FD) (es1 es2 : List V), (S.md i)[j]? = some fd → fd.card = .map →
        d1[j]? = some (.many es1) → d2[j]? = some (.many es2) → ∀ k, mapGet es1 k = mapGet es2 k := by
  have h1 := roundtrip_maps S hS fast i fs [] opsF hwfF hexF hokF (by simp) hoF
  have h2 := roundtrip_maps S hS fast i gs [] opsG hwfG hexG hokG (by simp) hoG
  simp only [Csproto.wiresOf, List.map_nil, List.flatten_nil, List.append_nil] at h1 h2
  have hl := wfsM_len S _ fs hwfF
  have hmp := canonFs_mapsPermuted S (S.md i) fs gs hl hperm
  refine ⟨_, _, h1, h2, hmp, ?_⟩
  intro j fd es1 es2 hj hm hd1 hd2 k
  rcases hmp.2 j fd hj with he | ⟨_, a, b, ha, hb, hp⟩
  · rw [hd1, hd2] at he; cases he; rfl
  · rw [hd1] at ha; rw [hd2] at hb; cases ha; cases hb
    have hjl : j < fs.length := by
      rw [← hl]
      rcases Nat.lt_or_ge j (S.md i).length with h | h
      · exact h
      · rw [List.getElem?_eq_none_iff.mpr h] at hj; cases hj
    have hf : fs[j]? = some fs[j] := List.getElem?_eq_getElem hjl
    have hg := canonFs_get S (S.md i) fs j fd fs[j] hl hj hf
    rw [hd1] at hg
    have hmem : fd ∈ S.md i := List.mem_of_getElem? hj
    exact mapGet_perm hp (decoded_keys_distinct S fd fs[j] es1 hm ((hS i).2 fd hmem)
      (wfsM_get S _ fs j fd _ hwfF hj hf) (Option.some.inj hg).symm) k

/-! ### non-vacuity: `map<string,int32>`, `map<int32,Inner>` (message-valued; `Inner` itself has a map), two
    entries each, written in two different orders -/

/-- 0: `{ map<string,int32> a = 1; map<int32,Inner> b = 2; int32 c = 3 }`, 1: entry of `a` (and of `Inner.m`),
    2: entry of `b`, 3: `Inner { optional string s = 1; map<string,int32> m = 2 }` -/
def sX : Schema :=
  [[⟨1, .msg 1, .map⟩, ⟨2, .msg 2, .map⟩, ⟨3, .sc .int32, .implicit⟩],
   entryMD .string (.sc .int32),
   entryMD .int32 (.msg 3),
   [⟨1, .sc .string, .explicit⟩, ⟨2, .msg 1, .map⟩]]

def eA : V := .msg [.one (.bs [0x61]), .one (.num 1)] []                 -- "a" ↦ 1
def eB : V := .msg [.one (.bs [0x62]), .one (.num 4294967295)] []        -- "b" ↦ -1
def inner1 : V := .msg [.one (.bs [0x78]), .many [eA]] []                -- { s: "x", m: { "a": 1 } }
def inner2 : V := .msg [.unset, .many []] []                             -- {}
def e7 : V := .msg [.one (.num 7), .one inner1] []                       -- 7 ↦ inner1
def e8 : V := .msg [.one (.num 8), .one inner2] []                       -- 8 ↦ inner2
/-- one iteration order … -/
def fsX : List F := [.many [eB, eA], .many [e8, e7], .one (.num 5)]
/-- … and another -/
def gsX : List F := [.many [eA, eB], .many [e7, e8], .one (.num 5)]

theorem md0 : sX.md 0 = [⟨1, .msg 1, .map⟩, ⟨2, .msg 2, .map⟩, ⟨3, .sc .int32, .implicit⟩] := rfl
theorem md1 : sX.md 1 = entryMD .string (.sc .int32) := rfl
theorem md2 : sX.md 2 = entryMD .int32 (.msg 3) := rfl
theorem md3 : sX.md 3 = [⟨1, .sc .string, .explicit⟩, ⟨2, .msg 1, .map⟩] := rfl

theorem schemaX_ok : SchemaOKM sX := by
  intro i
  match i with
  | 0 => rw [md0]; exact ⟨by simp [NoDupNums], by
      intro fd hfd hm
      simp only [List.mem_cons, List.mem_nil_iff, or_false] at hfd
      rcases hfd with rfl | rfl | rfl
      · exact ⟨1, _, _, rfl, md1⟩
      · exact ⟨2, _, _, rfl, md2⟩
      · simp at hm⟩
  | 1 => rw [md1]; exact ⟨by simp [NoDupNums, entryMD], by simp [entryMD]⟩
  | 2 => rw [md2]; exact ⟨by simp [NoDupNums, entryMD], by simp [entryMD]⟩
  | 3 => rw [md3]; exact ⟨by simp [NoDupNums], by
      intro fd hfd hm
      simp only [List.mem_cons, List.mem_nil_iff, or_false] at hfd
      rcases hfd with rfl | rfl
      · simp at hm
      · exact ⟨1, _, _, rfl, md1⟩⟩
  | n + 4 => simp [sX, Schema.md, NoDupNums]

/-- a message type without oneof members puts no constraint on which fields are set -/
theorem excl_of_no_oneof (md : MD) (h : ∀ fd ∈ md, ∀ g, fd.card ≠ .oneof g) (fs : List F) : Excl md fs := by
  intro i j fdi fdj g hi _ hgi _ _
  exact absurd hgi (h fdi (List.mem_of_getElem? hi) g)

theorem exclX (i : Nat) (fs : List F) : Excl (sX.md i) fs := by
  apply excl_of_no_oneof
  match i with
  | 0 => rw [md0]; simp
  | 1 => rw [md1]; simp [entryMD]
  | 2 => rw [md2]; simp [entryMD]
  | 3 => rw [md3]; simp
  | n + 4 => simp [sX, Schema.md]

/-- assembling `WFvM` for a concrete value: the length bound is checked on the computed `Size()` -/
theorem wfv_intro (i : Nat) (fs : List F) (hwf : WFsM sX (sX.md i) fs) (hok : OKFields sX (sX.md i) fs)
    (ho : ∃ ops, opsFields sX (sX.md i) fs = .ok ops) (hs : sizeFields sX (sX.md i) fs ≤ maxFieldLen) :
    WFvM sX (sX.md i) (.msg fs []) := by
  obtain ⟨ops, ho⟩ := ho
  refine ⟨rfl, hwf, ?_, exclX i fs⟩
  rw [recsM_len_eq_size sX _ fs ops hok (wfsM_clean sX _ fs hwf) ho]; exact hs

theorem wf_eA : WFvM sX (sX.md 1) eA := by
  apply wfv_intro 1
  · rw [md1]; simp [entryMD, WFsM, WFfM, ShapeOK, ValOK, isRep, C01.ValidTag, maxTagValue, DecValid, CleanV, kindOf, V.b, maxFieldLen]
  · rw [md1]; simp [entryMD, OKFields, OKField, ValidScalar, C01.ValidTag, maxTagValue, V.b, maxFieldLen]
  · exact ⟨_, rfl⟩
  · decide

theorem wf_eB : WFvM sX (sX.md 1) eB := by
  apply wfv_intro 1
  · rw [md1]; simp [entryMD, WFsM, WFfM, ShapeOK, ValOK, isRep, C01.ValidTag, maxTagValue, DecValid, CleanV, kindOf, V.b, maxFieldLen]
  · rw [md1]; simp [entryMD, OKFields, OKField, ValidScalar, C01.ValidTag, maxTagValue, V.b, maxFieldLen]
  · exact ⟨_, rfl⟩
  · decide

theorem setA : EntrySet eA := by simp [EntrySet, eA]
theorem setB : EntrySet eB := by simp [EntrySet, eB]

theorem wf_inner1 : WFvM sX (sX.md 3) inner1 := by
  apply wfv_intro 3
  · rw [md3]
    simp only [WFsM, WFfM, WFvsM, and_true]
    refine ⟨?_, Or.inr ⟨trivial, ?_, ?_⟩, ?_, wf_eA⟩
    · simp [ShapeOK, ValOK, isRep, C01.ValidTag, maxTagValue, DecValid, CleanV, kindOf, V.b, maxFieldLen]
    · intro e he; simp only [List.mem_cons, List.mem_nil_iff, or_false] at he; subst he; exact .inl setA
    · simp [KeysDistinct]
    · simp [C01.ValidTag, maxTagValue]
  · simp [OKFields, OKField, OKMsgV, OKMsgList, sX, Schema.md, entryMD, eA, ValidScalar, C01.ValidTag, maxTagValue, maxFieldLen, V.b]
  · exact ⟨_, rfl⟩
  · decide

theorem wf_inner2 : WFvM sX (sX.md 3) inner2 := by
  apply wfv_intro 3
  · rw [md3]
    simp only [WFsM, WFfM, WFvsM, and_true]
    exact ⟨trivial, Or.inr ⟨trivial, by simp, by simp [KeysDistinct]⟩, by simp [C01.ValidTag, maxTagValue]⟩
  · simp [OKFields, OKField, OKMsgList, sX, Schema.md, C01.ValidTag, maxTagValue]
  · exact ⟨_, rfl⟩
  · decide

theorem wf_e7 : WFvM sX (sX.md 2) e7 := by
  apply wfv_intro 2
  · rw [md2]
    simp only [entryMD, WFsM, WFfM, and_true]
    refine ⟨?_, ?_, ?_, ?_, wf_inner1⟩ <;>
      simp [ShapeOK, ValOK, isRep, C01.ValidTag, maxTagValue, DecValid, CleanV, kindOf]
  · simp [OKFields, OKField, OKMsgV, OKMsgList, sX, Schema.md, entryMD, inner1, eA, ValidScalar, C01.ValidTag, maxTagValue, maxFieldLen, V.b]
  · exact ⟨_, rfl⟩
  · decide

theorem wf_e8 : WFvM sX (sX.md 2) e8 := by
  apply wfv_intro 2
  · rw [md2]
    simp only [entryMD, WFsM, WFfM, and_true]
    refine ⟨?_, ?_, ?_, ?_, wf_inner2⟩ <;>
      simp [ShapeOK, ValOK, isRep, C01.ValidTag, maxTagValue, DecValid, CleanV, kindOf]
  · simp [OKFields, OKField, OKMsgV, OKMsgList, sX, Schema.md, entryMD, inner2, ValidScalar, C01.ValidTag, maxTagValue]
  · exact ⟨_, rfl⟩
  · decide

theorem set7 : EntrySet e7 := by simp [EntrySet, e7]
theorem set8 : EntrySet e8 := by simp [EntrySet, e8]

/-- "a" ≠ "b" and 7 ≠ 8, in either order -/
theorem keysAB : keyEq (canonKey (sX.md 1) eA) (canonKey (sX.md 1) eB) = false ∧
    keyEq (canonKey (sX.md 1) eB) (canonKey (sX.md 1) eA) = false := by decide
theorem keys78 : keyEq (canonKey (sX.md 2) e7) (canonKey (sX.md 2) e8) = false ∧
    keyEq (canonKey (sX.md 2) e8) (canonKey (sX.md 2) e7) = false := by decide

theorem wf_top (a b c d : V) (ha : WFvM sX (sX.md 1) a) (hb : WFvM sX (sX.md 1) b)
    (sa : EntryOK (sX.md 1) a) (sb : EntryOK (sX.md 1) b)
    (kab : keyEq (canonKey (sX.md 1) a) (canonKey (sX.md 1) b) = false)
    (hc : WFvM sX (sX.md 2) c) (hd : WFvM sX (sX.md 2) d) (sc : EntryOK (sX.md 2) c) (sd : EntryOK (sX.md 2) d)
    (kcd : keyEq (canonKey (sX.md 2) c) (canonKey (sX.md 2) d) = false) :
    WFsM sX (sX.md 0) [.many [a, b], .many [c, d], .one (.num 5)] := by
  rw [md0]
  simp only [WFsM, WFfM, WFvsM, and_true]
  refine ⟨⟨Or.inr ⟨trivial, ?_, ?_⟩, ?_, ha, hb⟩, ⟨Or.inr ⟨trivial, ?_, ?_⟩, ?_, hc, hd⟩, ?_⟩
  · intro e he; simp only [List.mem_cons, List.mem_nil_iff, or_false] at he; rcases he with rfl | rfl <;> assumption
  · simp [KeysDistinct, kab]
  · simp [C01.ValidTag, maxTagValue]
  · intro e he; simp only [List.mem_cons, List.mem_nil_iff, or_false] at he; rcases he with rfl | rfl <;> assumption
  · simp [KeysDistinct, kcd]
  · simp [C01.ValidTag, maxTagValue]
  · simp [ShapeOK, ValOK, isRep, C01.ValidTag, maxTagValue, DecValid, CleanV, kindOf]

theorem wf_fsX : WFsM sX (sX.md 0) fsX :=
  wf_top eB eA e8 e7 wf_eB wf_eA (.inl setB) (.inl setA) keysAB.2 wf_e8 wf_e7 (.inl set8) (.inl set7) keys78.2
theorem wf_gsX : WFsM sX (sX.md 0) gsX :=
  wf_top eA eB e7 e8 wf_eA wf_eB (.inl setA) (.inl setB) keysAB.1 wf_e7 wf_e8 (.inl set7) (.inl set8) keys78.1

theorem ok_fsX : OKFields sX (sX.md 0) fsX := by
  simp [OKFields, OKField, OKMsgV, OKMsgList, sX, Schema.md, entryMD, fsX, e7, e8, inner1, inner2, eA, eB, ValidScalar,
    C01.ValidTag, maxTagValue, maxFieldLen, V.b]
theorem ok_gsX : OKFields sX (sX.md 0) gsX := by
  simp [OKFields, OKField, OKMsgV, OKMsgList, sX, Schema.md, entryMD, gsX, e7, e8, inner1, inner2, eA, eB, ValidScalar,
    C01.ValidTag, maxTagValue, maxFieldLen, V.b]

theorem ops_fsX : ∃ ops, opsFields sX (sX.md 0) fsX = .ok ops := ⟨_, rfl⟩
theorem ops_gsX : ∃ ops, opsFields sX (sX.md 0) gsX = .ok ops := ⟨_, rfl⟩

/-- the two values are the same message with its maps iterated in different orders -/
theorem permX : MapsPermuted (sX.md 0) fsX gsX := by
  refine ⟨rfl, ?_⟩
  intro j fd hj
  rw [md0] at hj
  match j, hj with
  | 0, hj =>
    simp only [List.getElem?_cons_zero, Option.some.injEq] at hj; subst hj
    exact Or.inr ⟨rfl, [eB, eA], [eA, eB], rfl, rfl, List.Perm.swap _ _ _⟩
  | 1, hj =>
    simp only [List.getElem?_cons_succ, List.getElem?_cons_zero, Option.some.injEq] at hj; subst hj
    exact Or.inr ⟨rfl, [e8, e7], [e7, e8], rfl, rfl, List.Perm.swap _ _ _⟩
  | 2, _ => exact Or.inl rfl
  | n + 3, hj => simp at hj

/-- **non-vacuity of `roundtrip_maps`**: a `map<string,int32>` with two entries (one value negative), a
    `map<int32,Inner>` with two entries whose values are messages (one of which contains a map itself, the
    other empty), a scalar, and an unknown field — in fast mode -/
theorem roundtrip_maps_example : ∃ ops, opsFields sX (sX.md 0) fsX = .ok ops ∧
    unmarshal sX true (sX.md 0) (Gen.wiresOf ops ++ Csproto.wiresOf [.varint 9 300])
      = .ok (canonFs sX (sX.md 0) fsX, Csproto.wiresOf [.varint 9 300]) := by
  obtain ⟨ops, ho⟩ := ops_fsX
  refine ⟨ops, ho, roundtrip_maps sX schemaX_ok true 0 fsX [.varint 9 300] ops wf_fsX (exclX 0 _) ok_fsX ?_ ho⟩
  intro r hr
  simp only [List.mem_cons, List.mem_nil_iff, or_false] at hr
  subst hr
  simp [Rec.OK, Rec.tag, findField, sX, Schema.md, maxTagValue, two64]

/-- the values decoded are the ones written: nothing was normalised away in this example -/
theorem canon_fsX : canonFs sX (sX.md 0) fsX = fsX := by rfl
theorem canon_gsX : canonFs sX (sX.md 0) gsX = gsX := by rfl

/-! ### non-vacuity: a nil pointer in the message-valued map -/

/-- 7 ↦ nil -/
def e7nil : V := .msg [.one (.num 7), .unset] []
/-- `b = { 7: nil, 8: {} }` -/
def fsN : List F := [.many [eB, eA], .many [e7nil, e8], .one (.num 5)]
/-- the same message without the nil-valued entry -/
def fsN' : List F := [.many [eB, eA], .many [e8], .one (.num 5)]

theorem wf_e7nil : WFvM sX (sX.md 2) e7nil := by
  apply wfv_intro 2
  · rw [md2]
    simp [entryMD, WFsM, WFfM, ShapeOK, ValOK, isRep, C01.ValidTag, maxTagValue, DecValid, CleanV, kindOf]
  · simp [OKFields, OKField, sX, Schema.md, entryMD, ValidScalar, C01.ValidTag, maxTagValue]
  · exact ⟨_, rfl⟩
  · decide

theorem nil7 : nilEntry (sX.md 2) e7nil = true := by decide

theorem wf_fsN : WFsM sX (sX.md 0) fsN :=
  wf_top eB eA e7nil e8 wf_eB wf_eA (.inl setB) (.inl setA) keysAB.2 wf_e7nil wf_e8 (.inr nil7) (.inl set8) (by decide)

theorem ok_fsN : OKFields sX (sX.md 0) fsN := by
  simp [OKFields, OKField, OKMsgV, OKMsgList, sX, Schema.md, entryMD, fsN, e7nil, e8, inner2, eA, eB, ValidScalar,
    C01.ValidTag, maxTagValue, maxFieldLen, V.b]

theorem ops_fsN : ∃ ops, opsFields sX (sX.md 0) fsN = .ok ops := ⟨_, rfl⟩

/-- **the entry `7 ↦ nil` costs nothing and is not written**: same `Size()`, same encoder calls, same `Marshal()`
    outcome as the message without it … -/
theorem nil_entry_example_marshal :
    sizeFields sX (sX.md 0) fsN = sizeFields sX (sX.md 0) fsN' ∧
    opsFields sX (sX.md 0) fsN = opsFields sX (sX.md 0) fsN' ∧
    marshal sX (sX.md 0) fsN [] = marshal sX (sX.md 0) fsN' [] := by
  have h1 : sizeFields sX (sX.md 0) fsN = sizeFields sX (sX.md 0) fsN' := rfl
  have h2 : opsFields sX (sX.md 0) fsN = opsFields sX (sX.md 0) fsN' := rfl
  refine ⟨h1, h2, ?_⟩
  unfold marshal marshalSized
  rw [h1, h2]

/-- … and **after the round trip the map is `{ 8: {} }`**: key 7 is gone (non-vacuity of `roundtrip_maps` and of
    `roundtrip_drops_nil_valued_entries` on a value with a nil-valued entry) -/
theorem nil_entry_example_roundtrip : ∃ ops, opsFields sX (sX.md 0) fsN = .ok ops ∧
    unmarshal sX false (sX.md 0) (Gen.wiresOf ops) = .ok (fsN', []) := by
  obtain ⟨ops, ho⟩ := ops_fsN
  refine ⟨ops, ho, ?_⟩
  have h := roundtrip_maps sX schemaX_ok false 0 fsN [] ops wf_fsN (exclX 0 _) ok_fsN (by simp) ho
  simp only [Csproto.wiresOf, List.map_nil, List.flatten_nil, List.append_nil] at h
  rw [h]
  rfl

/-- **non-vacuity of `roundtrip_order_independent`**: the two iteration orders give two different byte
    strings, both decode, and the results have the same lookup function on every map field -/
theorem order_independent_example : ∃ opsF opsG d1 d2,
    opsFields sX (sX.md 0) fsX = .ok opsF ∧ opsFields sX (sX.md 0) gsX = .ok opsG ∧
    Gen.wiresOf opsF ≠ Gen.wiresOf opsG ∧
    unmarshal sX false (sX.md 0) (Gen.wiresOf opsF) = .ok (d1, []) ∧
    unmarshal sX false (sX.md 0) (Gen.wiresOf opsG) = .ok (d2, []) ∧
    MapsPermuted (sX.md 0) d1 d2 ∧
    ∀ (j : Nat) (fd : FD) (es1 es2 : List V), (sX.md 0)[j]? = some fd → fd.card = .map →
      d1[j]? = some (.many es1) → d2[j]? = some (.many es2) → ∀ k, mapGet es1 k = mapGet es2 k := by
  obtain ⟨opsF, hoF⟩ := ops_fsX
  obtain ⟨opsG, hoG⟩ := ops_gsX
  obtain ⟨d1, d2, h1, h2, h3, h4⟩ := roundtrip_order_independent sX schemaX_ok false 0 fsX gsX opsF opsG permX
    wf_fsX (exclX 0 _) ok_fsX hoF wf_gsX (exclX 0 _) ok_gsX hoG
  refine ⟨opsF, opsG, d1, d2, hoF, hoG, ?_, h1, h2, h3, h4⟩
  intro heq
  have hF := roundtrip_maps sX schemaX_ok false 0 fsX [] opsF wf_fsX (exclX 0 _) ok_fsX (by simp) hoF
  have hG := roundtrip_maps sX schemaX_ok false 0 gsX [] opsG wf_gsX (exclX 0 _) ok_gsX (by simp) hoG
  simp only [Csproto.wiresOf, List.map_nil, List.flatten_nil, List.append_nil] at hF hG
  rw [heq, hG, canon_fsX, canon_gsX] at hF
  simp [fsX, gsX, eA, eB] at hF

/-! ### order independence at any depth -/

/-- **order independence, any depth** (`SameFs`: equal up to the order of map entries anywhere in the value
    tree — top level, nested and repeated messages, message values of maps) -/
theorem roundtrip_order_independent_deep (S : Schema) (hS : SchemaOKM S) (fast : Bool) (i : Nat) (fs gs : List F)
    (opsF opsG : List EncOp) (hsame : SameFs S (S.md i) fs gs)
    (hwfF : WFsM S (S.md i) fs) (hexF : Excl (S.md i) fs) (hokF : OKFields S (S.md i) fs)
    (hoF : opsFields S (S.md i) fs = .ok opsF)
    (hwfG : WFsM S (S.md i) gs) (hexG : Excl (S.md i) gs) (hokG : OKFields S (S.md i) gs)
    (hoG : opsFields S (S.md i) gs = .ok opsG) :
    ∃ d1 d2, unmarshal S fast (S.md i) (Gen.wiresOf opsF) = .ok (d1, []) ∧
      unmarshal S fast (S.md i) (Gen.wiresOf opsG) = .ok (d2, []) ∧ SameFs S (S.md i) d1 d2 :=
  roundtrip_same S hS fast i fs gs opsF opsG hsame hwfF hexF hokF hoF hwfG hexG hokG hoG

/-- the two example values are related (both maps swapped) … -/
theorem sameX : SameFs sX (sX.md 0) fsX gsX := by
  rw [md0]
  exact .cons (.map rfl rfl (.swap _ eB eA [])) (.cons (.map rfl rfl (.swap _ e8 e7 [])) (.refl _ _))

/-- … and so is a reordering two levels down: inside the message value of an entry of the outer map -/
example (u v : V) : SameFs sX (sX.md 0)
    [.many [], .many [.msg [.one (.num 7), .one (.msg [.unset, .many [u, v]] [])] []], .one (.num 0)]
    [.many [], .many [.msg [.one (.num 7), .one (.msg [.unset, .many [v, u]] [])] []], .one (.num 0)] := by
  rw [md0]
  refine .cons (.refl _ _) (.cons (.map (i := 2) rfl rfl (.cons (.msg [] ?_) (.nil _))) (.refl _ _))
  rw [md2]
  refine .cons (.refl _ _) (.cons (.one (i := 3) rfl (.msg [] ?_)) (.refl _ _))
  rw [md3]
  exact .cons (.refl _ _) (.cons (.map (i := 1) rfl rfl (.swap _ u v [])) (.refl _ _))

theorem order_independent_deep_example : ∃ opsF opsG d1 d2,
    opsFields sX (sX.md 0) fsX = .ok opsF ∧ opsFields sX (sX.md 0) gsX = .ok opsG ∧
    unmarshal sX true (sX.md 0) (Gen.wiresOf opsF) = .ok (d1, []) ∧
    unmarshal sX true (sX.md 0) (Gen.wiresOf opsG) = .ok (d2, []) ∧ SameFs sX (sX.md 0) d1 d2 := by
  obtain ⟨opsF, hoF⟩ := ops_fsX
  obtain ⟨opsG, hoG⟩ := ops_gsX
  obtain ⟨d1, d2, h1, h2, h3⟩ := roundtrip_order_independent_deep sX schemaX_ok true 0 fsX gsX opsF opsG sameX
    wf_fsX (exclX 0 _) ok_fsX hoF wf_gsX (exclX 0 _) ok_gsX hoG
  exact ⟨opsF, opsG, d1, d2, hoF, hoG, h1, h2, h3⟩

end Csproto.C05Map
