import Csproto.Proofs.Enc
import Csproto.Proofs.Dec
/-
  C01 — Wire primitives round-trip exactly and sizes are exact.

  Property theorems only (helper lemmas live in `Csproto/Proofs`).  Quantification: every kind,
  every value of the kind's machine domain, every field number 1 … 2^29-1, both decoder modes
  (the decoder state `d` is arbitrary, so in particular `d.fast` is), every prefix and suffix
  around the field.
-/
namespace Csproto.C01
open Csproto

/-- A field as the user of the hand-written codec sees it: Go method family + value. -/
inductive FieldVal where
  | bool (b : Bool)
  | int32 (i : Int) | int64 (i : Int) | uint32 (n : Nat) | uint64 (n : Nat)
  | sint32 (i : Int) | sint64 (i : Int)
  | fixed32 (n : Nat) | fixed64 (n : Nat) | float32 (bits : Nat) | float64 (bits : Nat)
  | str (b : Bytes) | bytes (b : Bytes)
  | pBool (vs : List Bool)
  | pInt32 (vs : List Int) | pInt64 (vs : List Int) | pUint32 (vs : List Nat) | pUint64 (vs : List Nat)
  | pSint32 (vs : List Int) | pSint64 (vs : List Int)
  | pFixed32 (vs : List Nat) | pFixed64 (vs : List Nat) | pFloat32 (vs : List Nat) | pFloat64 (vs : List Nat)

/-- the kind's domain (machine ranges; float values are their IEEE bit patterns) -/
def FieldVal.Valid : FieldVal → Prop
  | .bool _ => True
  | .int32 i | .sint32 i => InI32 i
  | .int64 i | .sint64 i => InI64 i
  | .uint32 n | .fixed32 n | .float32 n => n < two32
  | .uint64 n | .fixed64 n | .float64 n => n < two64
  | .str b | .bytes b => b.length ≤ maxFieldLen
  | .pBool vs => vs ≠ [] ∧ vs.length ≤ maxFieldLen
  | .pInt32 vs | .pSint32 vs => vs ≠ [] ∧ (∀ v ∈ vs, InI32 v) ∧ vs.length * 10 < two64
  | .pInt64 vs | .pSint64 vs => vs ≠ [] ∧ (∀ v ∈ vs, InI64 v) ∧ vs.length * 10 < two64
  | .pUint32 vs | .pFixed32 vs | .pFloat32 vs => vs ≠ [] ∧ (∀ v ∈ vs, v < two32) ∧ vs.length * 10 < two64
  | .pUint64 vs | .pFixed64 vs | .pFloat64 vs => vs ≠ [] ∧ (∀ v ∈ vs, v < two64) ∧ vs.length * 10 < two64

/-- the encoder call, with the conversion the Go method applies to its argument -/
def FieldVal.encOp (tag : Nat) : FieldVal → EncOp
  | .bool b => .bool tag b
  | .int32 i | .int64 i => .varint tag (toU64 i)
  | .uint32 n | .uint64 n => .varint tag n
  | .sint32 i => .zigzag32 tag i
  | .sint64 i => .zigzag64 tag i
  | .fixed32 n | .float32 n => .fixed32 tag n
  | .fixed64 n | .float64 n => .fixed64 tag n
  | .str b | .bytes b => .bytes tag b
  | .pBool vs => .packedBool tag vs
  | .pInt32 vs | .pInt64 vs => .packedVarint tag (vs.map toU64)
  | .pUint32 vs | .pUint64 vs => .packedVarint tag vs
  | .pSint32 vs => .packedZigzag32 tag vs
  | .pSint64 vs => .packedZigzag64 tag vs
  | .pFixed32 vs | .pFloat32 vs => .packedFixed32 tag vs
  | .pFixed64 vs | .pFloat64 vs => .packedFixed64 tag vs

def FieldVal.wt : FieldVal → Nat
  | .bool _ | .int32 _ | .int64 _ | .uint32 _ | .uint64 _ | .sint32 _ | .sint64 _ => wtVarint
  | .fixed32 _ | .float32 _ => wtFixed32
  | .fixed64 _ | .float64 _ => wtFixed64
  | _ => wtLen

/-- the matching decoder method -/
def FieldVal.decOp : FieldVal → DecOp
  | .bool _ => .bool | .int32 _ => .int32 | .int64 _ => .int64 | .uint32 _ => .uint32
  | .uint64 _ => .uint64 | .sint32 _ => .sint32 | .sint64 _ => .sint64 | .fixed32 _ => .fixed32
  | .fixed64 _ => .fixed64 | .float32 _ => .float32 | .float64 _ => .float64 | .str _ => .string
  | .bytes _ => .bytes | .pBool _ => .packedBool | .pInt32 _ => .packedInt32 | .pInt64 _ => .packedInt64
  | .pUint32 _ => .packedUint32 | .pUint64 _ => .packedUint64 | .pSint32 _ => .packedSint32
  | .pSint64 _ => .packedSint64 | .pFixed32 _ => .packedFixed32 | .pFixed64 _ => .packedFixed64
  | .pFloat32 _ => .packedFloat32 | .pFloat64 _ => .packedFloat64

/-- the value the decoder must hand back -/
def FieldVal.item : FieldVal → Item
  | .bool b => .bool b
  | .int32 i | .int64 i | .sint32 i | .sint64 i => .int i
  | .uint32 n | .uint64 n | .fixed32 n | .fixed64 n | .float32 n | .float64 n => .nat n
  | .str b | .bytes b => .bytes b
  | .pBool vs => .bools vs
  | .pInt32 vs | .pInt64 vs | .pSint32 vs | .pSint64 vs => .ints vs
  | .pUint32 vs | .pUint64 vs | .pFixed32 vs | .pFixed64 vs | .pFloat32 vs | .pFloat64 vs => .nats vs

/-- size predicted **only** from the exported size helpers, the way callers and the generated code
    pre-size a buffer -/
def FieldVal.predicted (tag : Nat) : FieldVal → Nat
  | .bool _ => sizeOfTagKey tag + 1
  | .int32 i | .int64 i => sizeOfTagKey tag + sizeOfVarint (toU64 i)
  | .uint32 n | .uint64 n => sizeOfTagKey tag + sizeOfVarint n
  | .sint32 i | .sint64 i => sizeOfTagKey tag + sizeOfZigZag i
  | .fixed32 _ | .float32 _ => sizeOfTagKey tag + 4
  | .fixed64 _ | .float64 _ => sizeOfTagKey tag + 8
  | .str b | .bytes b => sizeOfTagKey tag + sizeOfVarint b.length + b.length
  | .pBool vs => sizeOfTagKey tag + sizeOfVarint vs.length + vs.length
  | .pInt32 vs | .pInt64 vs =>
      let n := sumSizes sizeOfVarint (vs.map toU64); sizeOfTagKey tag + sizeOfVarint n + n
  | .pUint32 vs | .pUint64 vs =>
      let n := sumSizes sizeOfVarint vs; sizeOfTagKey tag + sizeOfVarint n + n
  | .pSint32 vs | .pSint64 vs =>
      let n := sumSizes sizeOfZigZag vs; sizeOfTagKey tag + sizeOfVarint n + n
  | .pFixed32 vs | .pFloat32 vs => sizeOfTagKey tag + sizeOfVarint (vs.length * 4) + vs.length * 4
  | .pFixed64 vs | .pFloat64 vs => sizeOfTagKey tag + sizeOfVarint (vs.length * 8) + vs.length * 8

def ValidTag (tag : Nat) : Prop := 1 ≤ tag ∧ tag ≤ maxTagValue

/-! ## 1. the size helpers are exact -/

/-- `SizeOfVarint` = bytes written by `EncodeVarint`, for every value -/
theorem sizeOfVarint_exact (v : Nat) : sizeOfVarint v = (encVarint v).length :=
  sizeOfVarint_eq_length v

/-- `SizeOfTagKey` = bytes written by `EncodeTag`, for every field number and wire type -/
theorem sizeOfTagKey_exact (tag wt : Nat) (ht : ValidTag tag) (hw : wt < 8) :
    sizeOfTagKey tag = (encTag tag wt).length :=
  sizeOfTagKey_eq_length ht.2 hw

/-- `SizeOfZigZag` = bytes written by `EncodeZigZag32/64` (the generated code sizes 32-bit zig-zag
    values through the 64-bit helper after sign extension) -/
theorem sizeOfZigZag_exact (i : Int) :
    sizeOfZigZag i = (encZigZag64 i).length ∧ sizeOfZigZag i = (encZigZag32 i).length := by
  unfold sizeOfZigZag encZigZag64 encZigZag32
  exact ⟨sizeOfVarint_eq_length _, sizeOfVarint_eq_length _⟩

theorem sumSizes_flatten {α} (f : α → Nat) (enc : α → Bytes) (h : ∀ v, f v = (enc v).length) (vs : List α) :
    sumSizes f vs = ((vs.map enc).flatten).length := by
  unfold sumSizes
  induction vs with
  | nil => simp
  | cons v vs ih => simp [h v, ih]

theorem flatten_const_length {α} (enc : α → Bytes) (k : Nat) (h : ∀ v, (enc v).length = k) (vs : List α) :
    ((vs.map enc).flatten).length = vs.length * k := by
  induction vs with
  | nil => simp
  | cons v vs ih => simp [h v, ih, Nat.add_mul]; omega

/-- **Predicted size = bytes written**, for every kind, value and field number. -/
theorem predicted_exact (fv : FieldVal) (tag : Nat) (ht : ValidTag tag) (hv : fv.Valid) :
    fv.predicted tag = (fv.encOp tag).wire.length := by
  have hk : ∀ wt, wt < 8 → sizeOfTagKey tag = (encTag tag wt).length := fun wt hw => sizeOfTagKey_exact tag wt ht hw
  have k0 := (hk wtVarint (by decide)).symm
  have k1 := (hk wtFixed64 (by decide)).symm
  have k2 := (hk wtLen (by decide)).symm
  have k5 := (hk wtFixed32 (by decide)).symm
  cases fv <;>
    simp only [FieldVal.predicted, FieldVal.encOp, EncOp.wire, List.length_append, sizeOfVarint_eq_length,
      encFixed32, encFixed64, leBytes_length, List.length_singleton, sizeOfZigZag, encZigZag32, encZigZag64,
      k0, k1, k2, k5, List.length_cons, List.length_nil] <;> try omega
  case pBool vs =>
    have : vs.isEmpty = false := by cases vs <;> simp_all [FieldVal.Valid]
    simp [this]
    try omega
  case pInt32 vs =>
    have : vs.isEmpty = false := by cases vs <;> simp_all [FieldVal.Valid]
    simp [this, sumSizes_flatten sizeOfVarint encVarint sizeOfVarint_eq_length]
    try omega
  case pInt64 vs =>
    have : vs.isEmpty = false := by cases vs <;> simp_all [FieldVal.Valid]
    simp [this, sumSizes_flatten sizeOfVarint encVarint sizeOfVarint_eq_length]
    try omega
  case pUint32 vs =>
    have : vs.isEmpty = false := by cases vs <;> simp_all [FieldVal.Valid]
    simp [this, sumSizes_flatten sizeOfVarint encVarint sizeOfVarint_eq_length]
    try omega
  case pUint64 vs =>
    have : vs.isEmpty = false := by cases vs <;> simp_all [FieldVal.Valid]
    simp [this, sumSizes_flatten sizeOfVarint encVarint sizeOfVarint_eq_length]
    try omega
  case pSint32 vs =>
    have : vs.isEmpty = false := by cases vs <;> simp_all [FieldVal.Valid]
    have h := sumSizes_flatten sizeOfZigZag encZigZag32 (fun i => (sizeOfZigZag_exact i).2) vs
    simp [this, h, encZigZag32]
    try omega
  case pSint64 vs =>
    have : vs.isEmpty = false := by cases vs <;> simp_all [FieldVal.Valid]
    have h := sumSizes_flatten sizeOfZigZag encZigZag64 (fun i => (sizeOfZigZag_exact i).1) vs
    simp [this, h, encZigZag64]
    try omega
  case pFixed32 vs =>
    have : vs.isEmpty = false := by cases vs <;> simp_all [FieldVal.Valid]
    simp [this, flatten_const_length encFixed32 4 (fun v => by simp [encFixed32])]
    try omega
  case pFloat32 vs =>
    have : vs.isEmpty = false := by cases vs <;> simp_all [FieldVal.Valid]
    simp [this, flatten_const_length encFixed32 4 (fun v => by simp [encFixed32])]
    try omega
  case pFixed64 vs =>
    have : vs.isEmpty = false := by cases vs <;> simp_all [FieldVal.Valid]
    simp [this, flatten_const_length encFixed64 8 (fun v => by simp [encFixed64])]
    try omega
  case pFloat64 vs =>
    have : vs.isEmpty = false := by cases vs <;> simp_all [FieldVal.Valid]
    simp [this, flatten_const_length encFixed64 8 (fun v => by simp [encFixed64])]
    try omega


/-! ## 2. a buffer sized from the helpers is filled exactly -/

theorem encOp_plain (fv : FieldVal) (tag : Nat) : (fv.encOp tag).plain = true := by
  cases fv <;> rfl

/-- **Exact fill.** Encoding into a buffer of exactly the predicted size does not panic, does not
    truncate, leaves the cursor at the end of the buffer, and the buffer holds exactly the field's
    wire bytes (never overrun, never slack). -/
theorem exact_fill (fv : FieldVal) (tag : Nat) (ht : ValidTag tag) (hv : fv.Valid) :
    ∃ e, (Enc.new (fv.predicted tag)).step (fv.encOp tag) = .ok e ∧ e.off = e.cap ∧
      e.cap = fv.predicted tag ∧ e.buf = (fv.encOp tag).wire := by
  have hp := predicted_exact fv tag ht hv
  obtain ⟨e, hs, ha⟩ := (Enc.new (fv.predicted tag)).step_room (fv.encOp tag) (encOp_plain fv tag)
    (by unfold Enc.Room; rw [Enc.new_cap, hp]; simp [Enc.new])
  have hcap : e.cap = fv.predicted tag := by rw [ha.cap, Enc.new_cap]
  have hoff : e.off = e.cap := by rw [ha.off, hcap, hp]; simp [Enc.new]
  refine ⟨e, hs, hoff, hcap, ?_⟩
  rw [← Enc.written_full hoff, ha.written, Enc.new_written]; simp

/-! ## 3. reading back returns exactly the value and consumes exactly the bytes -/

/-- the payload after the key -/
def FieldVal.payload (fv : FieldVal) (tag : Nat) : Bytes := ((fv.encOp tag).wire).drop (encTag tag fv.wt).length

theorem wire_split (fv : FieldVal) (tag : Nat) (hv : fv.Valid) :
    (fv.encOp tag).wire = encTag tag fv.wt ++ fv.payload tag := by
  unfold FieldVal.payload
  cases fv
  case pBool vs =>
    have hne : vs ≠ [] := by unfold FieldVal.Valid at hv; exact hv.1
    simp [FieldVal.encOp, EncOp.wire, FieldVal.wt, hne]
  case pInt32 vs =>
    have hne : vs ≠ [] := by unfold FieldVal.Valid at hv; exact hv.1
    simp [FieldVal.encOp, EncOp.wire, FieldVal.wt, hne]
  case pInt64 vs =>
    have hne : vs ≠ [] := by unfold FieldVal.Valid at hv; exact hv.1
    simp [FieldVal.encOp, EncOp.wire, FieldVal.wt, hne]
  case pUint32 vs =>
    have hne : vs ≠ [] := by unfold FieldVal.Valid at hv; exact hv.1
    simp [FieldVal.encOp, EncOp.wire, FieldVal.wt, hne]
  case pUint64 vs =>
    have hne : vs ≠ [] := by unfold FieldVal.Valid at hv; exact hv.1
    simp [FieldVal.encOp, EncOp.wire, FieldVal.wt, hne]
  case pSint32 vs =>
    have hne : vs ≠ [] := by unfold FieldVal.Valid at hv; exact hv.1
    simp [FieldVal.encOp, EncOp.wire, FieldVal.wt, hne]
  case pSint64 vs =>
    have hne : vs ≠ [] := by unfold FieldVal.Valid at hv; exact hv.1
    simp [FieldVal.encOp, EncOp.wire, FieldVal.wt, hne]
  case pFixed32 vs =>
    have hne : vs ≠ [] := by unfold FieldVal.Valid at hv; exact hv.1
    simp [FieldVal.encOp, EncOp.wire, FieldVal.wt, hne]
  case pFixed64 vs =>
    have hne : vs ≠ [] := by unfold FieldVal.Valid at hv; exact hv.1
    simp [FieldVal.encOp, EncOp.wire, FieldVal.wt, hne]
  case pFloat32 vs =>
    have hne : vs ≠ [] := by unfold FieldVal.Valid at hv; exact hv.1
    simp [FieldVal.encOp, EncOp.wire, FieldVal.wt, hne]
  case pFloat64 vs =>
    have hne : vs ≠ [] := by unfold FieldVal.Valid at hv; exact hv.1
    simp [FieldVal.encOp, EncOp.wire, FieldVal.wt, hne]
  all_goals simp [FieldVal.encOp, EncOp.wire, FieldVal.wt]

theorem wt_lt (fv : FieldVal) : fv.wt < 8 := by cases fv <;> simp [FieldVal.wt, wtVarint, wtFixed32, wtFixed64, wtLen]

theorem step_of_scalar {d : Dec} {op : DecOp} {α} (elem : Bytes → Res (α × Nat)) (mk : α → Item)
    (hop : ∀ d : Dec, d.step op = withAlloc (d.scalar elem mk) 0)
    {pre x post : Bytes} (h : d.At pre (x ++ post)) (hx : x ≠ []) (v : α)
    (helem : elem (x ++ post) = .ok (v, x.length)) :
    ∃ a, d.step op = ({ d with off := d.off + x.length }, .ok (mk v), a) := by
  refine ⟨0, ?_⟩
  rw [hop, Dec.scalar_at h hx elem mk v helem]; rfl

theorem flatten_le {α} (enc : α → Bytes) (vs : List α) (k : Nat) (hk : ∀ v ∈ vs, (enc v).length ≤ k) :
    ((vs.map enc).flatten).length ≤ vs.length * k := by
  induction vs with
  | nil => simp
  | cons v vs ih =>
    have := hk v (by simp)
    have := ih (fun w hw => hk w (by simp [hw]))
    simp only [List.map_cons, List.flatten_cons, List.length_append, List.length_cons, Nat.add_mul]; omega

/-- all packed readers at once -/
theorem packed_value_step {α} {d : Dec} {pre post : Bytes} (elem : Bytes → Res (α × Nat)) (enc : α → Bytes)
    (mk : List α → Item) (vs : List α) (prealloc : Option Nat)
    (henc : ∀ v ∈ vs, ∀ rest, elem (enc v ++ rest) = .ok (v, (enc v).length))
    (hpos : ∀ v ∈ vs, 0 < (enc v).length) (hk : ∀ v ∈ vs, (enc v).length ≤ 10)
    (hlen : vs.length * 10 < two64) (payload : Bytes)
    (hpayload : payload = encVarint ((vs.map enc).flatten).length ++ (vs.map enc).flatten)
    (h : d.At pre (payload ++ post)) :
    ∃ a, d.packed elem mk prealloc = ({ d with off := d.off + payload.length }, .ok (mk vs), a) := by
  subst hpayload
  have := flatten_le enc vs 10 hk
  exact Dec.packed_at elem enc mk vs prealloc henc hpos (by omega) (by simpa using h)

theorem map_singleton_flatten {α β} (f : α → β) (vs : List α) : (vs.map (fun b => [f b])).flatten = vs.map f := by
  induction vs with
  | nil => rfl
  | cons v vs ih => simp [ih]

/-- the value step, positioned right after the key -/
theorem value_step (fv : FieldVal) (tag : Nat) (hv : fv.Valid) (d : Dec) (pre post : Bytes)
    (h : d.At pre (fv.payload tag ++ post)) :
    ∃ a, d.step fv.decOp = ({ d with off := d.off + (fv.payload tag).length }, .ok fv.item, a) := by
  have hsplit := wire_split fv tag hv
  have hpay : ∀ x, (fv.encOp tag).wire = encTag tag fv.wt ++ x → fv.payload tag = x := by
    intro x hx; unfold FieldVal.payload; rw [hx]; simp
  cases fv with
  | bool b =>
    have e : FieldVal.payload (.bool b) tag = [boolByte b] := hpay _ rfl
    rw [e] at h ⊢
    exact step_of_scalar elBool .bool (fun _ => rfl) h (by simp) b (elBool_enc b post)
  | int32 i =>
    have e : FieldVal.payload (.int32 i) tag = encVarint (toU64 i) := hpay _ rfl
    rw [e] at h ⊢
    exact step_of_scalar elInt32 .int (fun _ => rfl) h (encVarint_ne_nil _) i (elInt32_enc i hv post)
  | int64 i =>
    have e : FieldVal.payload (.int64 i) tag = encVarint (toU64 i) := hpay _ rfl
    rw [e] at h ⊢
    exact step_of_scalar elInt64 .int (fun _ => rfl) h (encVarint_ne_nil _) i (elInt64_enc i hv post)
  | uint32 n =>
    have e : FieldVal.payload (.uint32 n) tag = encVarint n := hpay _ rfl
    rw [e] at h ⊢
    exact step_of_scalar elUint32 .nat (fun _ => rfl) h (encVarint_ne_nil _) n (elUint32_enc n hv post)
  | uint64 n =>
    have e : FieldVal.payload (.uint64 n) tag = encVarint n := hpay _ rfl
    rw [e] at h ⊢
    exact step_of_scalar elVarint .nat (fun _ => rfl) h (encVarint_ne_nil _) n (elVarint_enc n hv post)
  | sint32 i =>
    have e : FieldVal.payload (.sint32 i) tag = encZigZag32 i := hpay _ rfl
    rw [e] at h ⊢
    exact step_of_scalar elSint32 .int (fun _ => rfl) h (by unfold encZigZag32; exact encVarint_ne_nil _) i (elSint32_enc i hv post)
  | sint64 i =>
    have e : FieldVal.payload (.sint64 i) tag = encZigZag64 i := hpay _ rfl
    rw [e] at h ⊢
    exact step_of_scalar elSint64 .int (fun _ => rfl) h (by unfold encZigZag64; exact encVarint_ne_nil _) i (elSint64_enc i hv post)
  | fixed32 n =>
    have e : FieldVal.payload (.fixed32 n) tag = encFixed32 n := hpay _ rfl
    rw [e] at h ⊢
    exact step_of_scalar elFixed32 .nat (fun _ => rfl) h (by simp [encFixed32, leBytes]) n (elFixed32_enc n hv post)
  | float32 n =>
    have e : FieldVal.payload (.float32 n) tag = encFixed32 n := hpay _ rfl
    rw [e] at h ⊢
    exact step_of_scalar elFloat32 .nat (fun _ => rfl) h (by simp [encFixed32, leBytes]) n (elFixed32_enc n hv post)
  | fixed64 n =>
    have e : FieldVal.payload (.fixed64 n) tag = encFixed64 n := hpay _ rfl
    rw [e] at h ⊢
    exact step_of_scalar elFixed64 .nat (fun _ => rfl) h (by simp [encFixed64, leBytes]) n (elFixed64_enc n hv post)
  | float64 n =>
    have e : FieldVal.payload (.float64 n) tag = encFixed64 n := hpay _ rfl
    rw [e] at h ⊢
    exact step_of_scalar elFloat64 .nat (fun _ => rfl) h (by simp [encFixed64, leBytes]) n (elFixed64_enc n hv post)
  | bytes b =>
    have e : FieldVal.payload (.bytes b) tag = encVarint b.length ++ b := hpay _ (by simp [FieldVal.encOp, EncOp.wire, FieldVal.wt])
    rw [e] at h ⊢
    exact ⟨0, by simp only [Dec.step, FieldVal.decOp]; rw [Dec.bytes_at h hv]; rfl⟩
  | str b =>
    have e : FieldVal.payload (.str b) tag = encVarint b.length ++ b := hpay _ (by simp [FieldVal.encOp, EncOp.wire, FieldVal.wt])
    rw [e] at h ⊢
    have hne : encVarint b.length ++ b ++ post ≠ [] := by simp [encVarint_ne_nil]
    refine ⟨if d.fast then 0 else b.length, ?_⟩
    simp only [Dec.step, FieldVal.decOp, h.not_eof hne, if_false]
    rw [Dec.bytes_at h hv]; rfl
  | pBool vs =>
    have hne0 : vs ≠ [] := by unfold FieldVal.Valid at hv; exact hv.1
    have hlen : vs.length ≤ maxFieldLen := by unfold FieldVal.Valid at hv; exact hv.2
    exact packed_value_step elBool (fun b => [boolByte b]) .bools vs none
      (fun v _ rest => elBool_enc v rest) (fun _ _ => by simp) (fun _ _ => by simp)
      (by unfold maxFieldLen at hlen; unfold two64; omega) _
      (hpay _ (by simp [FieldVal.encOp, EncOp.wire, FieldVal.wt, hne0, map_singleton_flatten])) h
  | pInt32 vs =>
    obtain ⟨hne0, hall, hlen⟩ : vs ≠ [] ∧ (∀ v ∈ vs, InI32 v) ∧ vs.length * 10 < two64 := by
      unfold FieldVal.Valid at hv; exact hv
    exact packed_value_step elInt32 (encVarint ∘ toU64) .ints vs none
      (fun v hv rest => elInt32_enc v (hall v hv) rest) (fun _ _ => encVarint_length_pos _)
      (fun v _ => encVarint_length_le_10 (toU64_lt v)) hlen _
      (hpay _ (by simp [FieldVal.encOp, EncOp.wire, FieldVal.wt, hne0, sumSizes_flatten sizeOfVarint encVarint sizeOfVarint_eq_length])) h
  | pInt64 vs =>
    obtain ⟨hne0, hall, hlen⟩ : vs ≠ [] ∧ (∀ v ∈ vs, InI64 v) ∧ vs.length * 10 < two64 := by
      unfold FieldVal.Valid at hv; exact hv
    exact packed_value_step elInt64 (encVarint ∘ toU64) .ints vs none
      (fun v hv rest => elInt64_enc v (hall v hv) rest) (fun _ _ => encVarint_length_pos _)
      (fun v _ => encVarint_length_le_10 (toU64_lt v)) hlen _
      (hpay _ (by simp [FieldVal.encOp, EncOp.wire, FieldVal.wt, hne0, sumSizes_flatten sizeOfVarint encVarint sizeOfVarint_eq_length])) h
  | pUint32 vs =>
    obtain ⟨hne0, hall, hlen⟩ : vs ≠ [] ∧ (∀ v ∈ vs, v < two32) ∧ vs.length * 10 < two64 := by
      unfold FieldVal.Valid at hv; exact hv
    have h64 : ∀ v ∈ vs, v < two64 := fun v hv => by have := hall v hv; unfold two32 at this; unfold two64; omega
    exact packed_value_step elUint32 encVarint .nats vs none
      (fun v hv rest => elUint32_enc v (hall v hv) rest) (fun _ _ => encVarint_length_pos _)
      (fun v hv => encVarint_length_le_10 (h64 v hv)) hlen _
      (hpay _ (by simp [FieldVal.encOp, EncOp.wire, FieldVal.wt, hne0, sumSizes_flatten sizeOfVarint encVarint sizeOfVarint_eq_length])) h
  | pUint64 vs =>
    obtain ⟨hne0, hall, hlen⟩ : vs ≠ [] ∧ (∀ v ∈ vs, v < two64) ∧ vs.length * 10 < two64 := by
      unfold FieldVal.Valid at hv; exact hv
    exact packed_value_step elVarint encVarint .nats vs none
      (fun v hv rest => elVarint_enc v (hall v hv) rest) (fun _ _ => encVarint_length_pos _)
      (fun v hv => encVarint_length_le_10 (hall v hv)) hlen _
      (hpay _ (by simp [FieldVal.encOp, EncOp.wire, FieldVal.wt, hne0, sumSizes_flatten sizeOfVarint encVarint sizeOfVarint_eq_length])) h
  | pSint32 vs =>
    obtain ⟨hne0, hall, hlen⟩ : vs ≠ [] ∧ (∀ v ∈ vs, InI32 v) ∧ vs.length * 10 < two64 := by
      unfold FieldVal.Valid at hv; exact hv
    exact packed_value_step elSint32 encZigZag32 .ints vs none
      (fun v hv rest => elSint32_enc v (hall v hv) rest) (fun _ _ => by unfold encZigZag32; exact encVarint_length_pos _)
      (fun v hv => by unfold encZigZag32; exact encVarint_length_le_10 (zigzag_lt_two64 (hall v hv).toI64)) hlen _
      (hpay _ (by simp [FieldVal.encOp, EncOp.wire, FieldVal.wt, hne0, sumSizes_flatten sizeOfZigZag encZigZag32 (fun i => (sizeOfZigZag_exact i).2)])) h
  | pSint64 vs =>
    obtain ⟨hne0, hall, hlen⟩ : vs ≠ [] ∧ (∀ v ∈ vs, InI64 v) ∧ vs.length * 10 < two64 := by
      unfold FieldVal.Valid at hv; exact hv
    exact packed_value_step elSint64 encZigZag64 .ints vs none
      (fun v hv rest => elSint64_enc v (hall v hv) rest) (fun _ _ => by unfold encZigZag64; exact encVarint_length_pos _)
      (fun v hv => by unfold encZigZag64; exact encVarint_length_le_10 (zigzag_lt_two64 (hall v hv))) hlen _
      (hpay _ (by simp [FieldVal.encOp, EncOp.wire, FieldVal.wt, hne0, sumSizes_flatten sizeOfZigZag encZigZag64 (fun i => (sizeOfZigZag_exact i).1)])) h
  | pFixed32 vs =>
    obtain ⟨hne0, hall, hlen⟩ : vs ≠ [] ∧ (∀ v ∈ vs, v < two32) ∧ vs.length * 10 < two64 := by
      unfold FieldVal.Valid at hv; exact hv
    exact packed_value_step elFixed32 encFixed32 .nats vs none
      (fun v hv rest => elFixed32_enc v (hall v hv) rest) (fun _ _ => by simp [encFixed32]) (fun _ _ => by simp [encFixed32]) hlen _
      (hpay _ (by simp [FieldVal.encOp, EncOp.wire, FieldVal.wt, hne0, flatten_const_length encFixed32 4 (fun v => by simp [encFixed32])])) h
  | pFloat32 vs =>
    obtain ⟨hne0, hall, hlen⟩ : vs ≠ [] ∧ (∀ v ∈ vs, v < two32) ∧ vs.length * 10 < two64 := by
      unfold FieldVal.Valid at hv; exact hv
    exact packed_value_step elFloat32 encFixed32 .nats vs (some 4)
      (fun v hv rest => elFixed32_enc v (hall v hv) rest) (fun _ _ => by simp [encFixed32]) (fun _ _ => by simp [encFixed32]) hlen _
      (hpay _ (by simp [FieldVal.encOp, EncOp.wire, FieldVal.wt, hne0, flatten_const_length encFixed32 4 (fun v => by simp [encFixed32])])) h
  | pFixed64 vs =>
    obtain ⟨hne0, hall, hlen⟩ : vs ≠ [] ∧ (∀ v ∈ vs, v < two64) ∧ vs.length * 10 < two64 := by
      unfold FieldVal.Valid at hv; exact hv
    exact packed_value_step elFixed64 encFixed64 .nats vs none
      (fun v hv rest => elFixed64_enc v (hall v hv) rest) (fun _ _ => by simp [encFixed64]) (fun _ _ => by simp [encFixed64]) hlen _
      (hpay _ (by simp [FieldVal.encOp, EncOp.wire, FieldVal.wt, hne0, flatten_const_length encFixed64 8 (fun v => by simp [encFixed64])])) h
  | pFloat64 vs =>
    obtain ⟨hne0, hall, hlen⟩ : vs ≠ [] ∧ (∀ v ∈ vs, v < two64) ∧ vs.length * 10 < two64 := by
      unfold FieldVal.Valid at hv; exact hv
    exact packed_value_step elFloat64 encFixed64 .nats vs none
      (fun v hv rest => elFixed64_enc v (hall v hv) rest) (fun _ _ => by simp [encFixed64]) (fun _ _ => by simp [encFixed64]) hlen _
      (hpay _ (by simp [FieldVal.encOp, EncOp.wire, FieldVal.wt, hne0, flatten_const_length encFixed64 8 (fun v => by simp [encFixed64])])) h

/-- **Round trip.** Wherever the field sits in the input (`pre`, `post` arbitrary) and whatever
    the decoder mode, `DecodeTag` returns the field number and wire type written, the kind's
    `Decode…` method returns exactly the value written, and the cursor ends exactly at the end of
    the bytes written. -/
theorem roundtrip (fv : FieldVal) (tag : Nat) (ht : ValidTag tag) (hv : fv.Valid)
    (d : Dec) (pre post : Bytes) (h : d.At pre ((fv.encOp tag).wire ++ post)) :
    ∃ d1 d2 a, d.step .tag = (d1, .ok (.tag tag fv.wt), 0) ∧
      d1.step fv.decOp = (d2, .ok fv.item, a) ∧
      d2.off = pre.length + (fv.encOp tag).wire.length ∧ d2.p = d.p ∧ d2.fast = d.fast := by
  rw [wire_split fv tag hv, List.append_assoc] at h
  have h1 := Dec.tag_at h ht.1 ht.2 (wt_lt fv)
  have hAt := h.afterTag
  obtain ⟨a, h2⟩ := value_step fv tag hv _ _ _ hAt
  refine ⟨_, _, a, h1, h2, ?_, rfl, rfl⟩
  rw [wire_split fv tag hv]
  simp [h.off]; omega

/-! ## non-vacuity: the hypotheses are met by concrete, non-trivial instances -/

example : ValidTag 536870911 ∧ (FieldVal.int32 (-1)).Valid ∧ (FieldVal.float32 0x7fc00001).Valid ∧
    (FieldVal.pSint64 [-9223372036854775808, 9223372036854775807]).Valid ∧
    (FieldVal.str (List.replicate 300 0x61)).Valid := by
  refine ⟨by unfold ValidTag maxTagValue; omega, by unfold FieldVal.Valid InI32 two31; omega,
    by unfold FieldVal.Valid two32; omega, ⟨by simp, ?_, by unfold two64; simp⟩, ?_⟩
  · intro v hv; simp at hv; rcases hv with rfl | rfl <;> (unfold InI64 two63; omega)
  · show (List.replicate 300 (0x61 : UInt8)).length ≤ maxFieldLen
    rw [List.length_replicate]; unfold maxFieldLen; omega

/-- the -1 / field number 2^29-1 instance, computed by the model: 5-byte key + 10-byte varint -/
example : ((FieldVal.int32 (-1)).encOp 536870911).wire =
    [0xf8, 0xff, 0xff, 0xff, 0x0f, 0xff, 0xff, 0xff, 0xff, 0xff, 0xff, 0xff, 0xff, 0xff, 0x01] := by
  simp [FieldVal.encOp, EncOp.wire, encTag, keyOf, toU64, two64, wtVarint, encVarint]

end Csproto.C01
