import Csproto.Props.C14
/-
  C14, whole histories (root results): a refinement theorem.

  `Spec` is the simplest possible description of what a client may observe: every handle is either a
  nil result, a result *decoded from its own input by a brand-new object*, or closed.  There is no pool
  and no object identity in it.  `flat_history_refines` shows that the pooled state machine of
  `Model/Pool.lean` produces, for every history of Decode / accessor / Range / Close operations on root
  results, with every choice the pool may make (any pooled object, or a new one), exactly the outputs of
  `Spec` — provided handles are not used after their `Close` (an immediately repeated `Close` excepted),
  which is the contract of the API.
-/
namespace Csproto.C14
open Csproto

inductive SH where
  | nilRes
  | live (input : Bytes)
  | closed
deriving DecidableEq

structure Spec where
  root : LDec
  handles : List (Nat × SH)
  justClosed : Option Nat

def Spec.init (root : LDec) : Spec := { root := root, handles := [], justClosed := none }

def Spec.handle? (sp : Spec) (h : Nat) : Option SH := (sp.handles.find? (·.1 = h)).map (·.2)
def Spec.setHandle (sp : Spec) (h : Nat) (v : SH) : Spec :=
  { sp with handles := (h, v) :: sp.handles.filter (·.1 ≠ h) }

/-- what a brand-new result object holds after decoding `input` -/
def fresh (root : LDec) (input : Bytes) : Res (List FD) :=
  decodeInto root.flat (cleanFds root.flat.length) input

def tagsOf (root : LDec) (fds : List FD) : List (Nat × Bool) :=
  (root.flat.zip fds).map fun (t, fd) => (t, !fd.data.isEmpty)

/-- the specification: answers are computed from the handle's own input alone -/
def Spec.step (sp : Spec) : LOp → Spec × LOut
  | .decode h input _ =>
    if input.isEmpty then ({ sp.setHandle h .nilRes with justClosed := none }, .nil) else
    match fresh sp.root input with
    | .ok _ => ({ sp.setHandle h (.live input) with justClosed := none }, .ok)
    | .err => ({ sp with justClosed := none }, .err)
    | .panic => ({ sp with justClosed := none }, .panic)
  | .acc h path a =>
    ({ sp with justClosed := none },
     match sp.handle? h with
     | none => .badHandle
     | some r =>
       match path with
       | [tag] =>
         match r with
         | .nilRes => .ans .notDefined
         | .live input =>
           match fresh sp.root input with
           | .ok fds => .ans (accessTag sp.root fds tag.natAbs a)
           | _ => .ans .panic
         | .closed => .badHandle
       | _ => .ans .err)
  | .range h =>
    ({ sp with justClosed := none },
     match sp.handle? h with
     | none => .badHandle
     | some .nilRes => .tags []
     | some (.live input) =>
       match fresh sp.root input with
       | .ok fds => .tags (tagsOf sp.root fds)
       | _ => .panic
     | some .closed => .badHandle)
  | .close h =>
    match sp.handle? h with
    | none => ({ sp with justClosed := none }, .badHandle)
    | some .nilRes => ({ sp with justClosed := none }, .ok)
    | some (.live _) => ({ sp.setHandle h .closed with justClosed := some h }, .ok)
    | some .closed => (sp, .ok)
  | .nested _ _ _ _ => (sp, .badHandle)
  | .nesteds _ _ _ _ => (sp, .badHandle)

/-- what the environment guarantees about the pool's choice: a "new" object is new, a reused one
    comes out of the pool -/
def ChoiceOK (s : LState) : Choice → Prop
  | .new id => s.obj? id = none
  | .reuse id => id ∈ s.pool []

/-- the API contract for one operation of a root-result history -/
def OpOK (s : LState) (sp : Spec) : LOp → Prop
  | .decode _ input c => input.isEmpty = false → ChoiceOK s c
  | .acc h path _ => path.length ≤ 1 ∧ sp.handle? h ≠ some .closed
  | .range h => sp.handle? h ≠ some .closed
  | .close h => sp.handle? h = some .closed → sp.justClosed = some h
  | .nested _ _ _ _ => False
  | .nesteds _ _ _ _ => False

/-- the refinement relation -/
structure R (s : LState) (sp : Spec) : Prop where
  root : s.root = sp.root
  hs : ∀ h, match sp.handle? h with
      | none => s.handle? h = none
      | some .nilRes => s.handle? h = some none
      | some (.live input) => ∃ id o fds, s.handle? h = some (some id) ∧ s.obj? id = some o ∧
          fresh sp.root input = .ok fds ∧ FdsEq o.fds fds ∧ o.path = [] ∧ o.closers = [] ∧ o.closed = false ∧
          o.skipClose = false ∧ id ∉ s.pool []
      | some .closed => ∃ id, s.handle? h = some (some id)
  inj : ∀ h1 h2 i1 i2 id, sp.handle? h1 = some (.live i1) → sp.handle? h2 = some (.live i2) →
      s.handle? h1 = some (some id) → s.handle? h2 = some (some id) → h1 = h2
  pool : ∀ id ∈ s.pool [], ∃ o, s.obj? id = some o ∧ Cleared o ∧ o.fds.length = sp.root.flat.length ∧
      o.path = [] ∧ o.skipClose = false
  nodup : (s.pool []).Nodup
  jc : ∀ h, sp.justClosed = some h → ∃ id o, s.handle? h = some (some id) ∧ s.obj? id = some o ∧ o.closed = true

/-- `id` is not the object of any live handle -/
def NotLive (s : LState) (sp : Spec) (id : Nat) : Prop :=
  ∀ h input, sp.handle? h = some (.live input) → s.handle? h ≠ some (some id)

/-! ### table lemmas -/

theorem handle_setHandle (s : LState) (h h' : Nat) (v : Option Nat) :
    (s.setHandle h v).handle? h' = if h' = h then some v else s.handle? h' := by
  unfold LState.setHandle LState.handle?
  by_cases e : h' = h
  · subst e; simp
  · have hne : ¬ (h = h') := fun x => e x.symm
    simp only [e, if_false, List.find?_cons, hne, decide_false]
    rw [find_filter_ne h h' e]

theorem shandle_setHandle (sp : Spec) (h h' : Nat) (v : SH) :
    (sp.setHandle h v).handle? h' = if h' = h then some v else sp.handle? h' := by
  unfold Spec.setHandle Spec.handle?
  by_cases e : h' = h
  · subst e; simp
  · have hne : ¬ (h = h') := fun x => e x.symm
    simp only [e, if_false, List.find?_cons, hne, decide_false]
    rw [find_filter_ne h h' e]

theorem R.clearJC {s : LState} {sp : Spec} (r : R s sp) : R s { sp with justClosed := none } :=
  { root := r.root, hs := r.hs, inj := r.inj, pool := r.pool, nodup := r.nodup, jc := by intro h hh; cases hh }

theorem rootPooled_setObj (s : LState) (id : Nat) (o : LObj) : (s.setObj id o).rootPooled = s.rootPooled := rfl
theorem rootPooled_setPool (s : LState) (p ids) : (s.setPool p ids).rootPooled = s.rootPooled := rfl
theorem root_setObj (s : LState) (id : Nat) (o : LObj) : (s.setObj id o).root = s.root := rfl
theorem root_setPool (s : LState) (p ids) : (s.setPool p ids).root = s.root := rfl
theorem root_setHandle (s : LState) (h v) : (s.setHandle h v).root = s.root := rfl
theorem handle_setObj (s : LState) (id : Nat) (o : LObj) (h : Nat) : (s.setObj id o).handle? h = s.handle? h := rfl
theorem handle_setPool (s : LState) (p ids) (h : Nat) : (s.setPool p ids).handle? h = s.handle? h := rfl
theorem obj_setHandle (s : LState) (h v) (i : Nat) : (s.setHandle h v).obj? i = s.obj? i := rfl
theorem pool_setHandle (s : LState) (h v) (p) : (s.setHandle h v).pool p = s.pool p := rfl

def clearedOf (o : LObj) : LObj :=
  { o with closed := true, fds := o.fds.map fun fd => { fd with data := [] }, closers := [] }

theorem clearedOf_cleared (o : LObj) : Cleared (clearedOf o) := by
  constructor
  · intro fd hfd
    simp [clearedOf] at hfd
    obtain ⟨x, _, rfl⟩ := hfd; rfl
  · rfl

/-- the effect of `Close` on an open root result without nested results -/
theorem closeRes_flat (s : LState) (id : Nat) (o : LObj) (ho : s.obj? id = some o) (hc : o.closers = [])
    (hcl : o.closed = false) (hsk : o.skipClose = false) (hp : o.path = []) :
    (closeRes s id).root = s.root ∧ (∀ h, (closeRes s id).handle? h = s.handle? h) ∧
    (∀ i, (closeRes s id).obj? i = if i = id then some (clearedOf o) else s.obj? i) ∧
    (closeRes s id).pool [] = if s.rootPooled then s.pool [] ++ [id] else s.pool [] := by
  unfold closeRes
  simp only [ho, hcl, hsk, Bool.false_eq_true, or_self, if_false]
  unfold closeObj
  simp only [obj_setObj, if_true, hc, List.foldl_nil, hp]
  have hpn : ∀ t : LState, isPooledNode t [] = t.rootPooled := by intro t; simp [isPooledNode]
  rw [hpn]
  simp only [rootPooled_setObj]
  by_cases hr : s.rootPooled = true
  · simp only [hr, if_true]
    refine ⟨rfl, fun _ => rfl, ?_, ?_⟩
    · intro i
      rw [obj_setPool, obj_setObj, obj_setObj]
      by_cases e : i = id
      · simp [e, clearedOf, hp, hsk]
      · simp [e]
    · rw [pool_setPool]; simp [pool_setObj]
  · have hr' : s.rootPooled = false := by simpa using hr
    simp only [hr', Bool.false_eq_true, if_false]
    refine ⟨rfl, fun _ => rfl, ?_, rfl⟩
    intro i
    rw [obj_setObj, obj_setObj]
    by_cases e : i = id
    · simp [e, clearedOf, hp, hsk]
    · simp [e]

/-- replacing an object that is neither live nor pooled keeps the relation -/
theorem R.setObj {s : LState} {sp : Spec} (r : R s sp) (id : Nat) (x : LObj) (hnl : NotLive s sp id)
    (hnp : id ∉ s.pool []) : R (s.setObj id x) { sp with justClosed := none } where
  root := r.root
  hs := by
    intro h
    have := r.hs h
    show match sp.handle? h with | none => _ | some .nilRes => _ | some (.live input) => _ | some .closed => _
    cases hh : sp.handle? h with
    | none => simp only [hh] at this ⊢; exact this
    | some v =>
      cases v with
      | nilRes => simp only [hh] at this ⊢; exact this
      | closed => simp only [hh] at this ⊢; exact this
      | live input =>
        simp only [hh] at this ⊢
        obtain ⟨i, o, fds, h1, h2, h3⟩ := this
        have hne : i ≠ id := fun e => hnl h input hh (by rw [h1, e])
        exact ⟨i, o, fds, h1, by rw [obj_setObj]; simp [hne, h2], h3⟩
  inj := r.inj
  pool := by
    intro i hi
    obtain ⟨o, h1, h2⟩ := r.pool i hi
    have hne : i ≠ id := fun e => hnp (e ▸ hi)
    exact ⟨o, by rw [obj_setObj]; simp [hne, h1], h2⟩
  nodup := r.nodup
  jc := by intro h hh; cases hh

/-- state equivalence as far as the relation can see -/
theorem R.ext {s s' : LState} {sp : Spec} (r : R s sp) (hroot : s'.root = s.root)
    (hh : ∀ h, s'.handle? h = s.handle? h) (ho : ∀ i, s'.obj? i = s.obj? i) (hp : s'.pool [] = s.pool []) : R s' sp where
  root := hroot.trans r.root
  hs := by intro h; have := r.hs h; simp only [hh, ho, hp]; exact this
  inj := by intro h1 h2 i1 i2 id a b c d; rw [hh] at c d; exact r.inj h1 h2 i1 i2 id a b c d
  pool := by intro i hi; rw [hp] at hi; simp only [ho]; exact r.pool i hi
  nodup := by rw [hp]; exact r.nodup
  jc := by intro h e; simp only [hh, ho]; exact r.jc h e

/-- a cleared, unowned object may enter the pool -/
theorem R.poolAdd {s : LState} {sp : Spec} (r : R s sp) (id : Nat) (o : LObj) (ho : s.obj? id = some o)
    (hcl : Cleared o) (hlen : o.fds.length = sp.root.flat.length) (hp : o.path = []) (hsk : o.skipClose = false)
    (hnl : NotLive s sp id) (hnp : id ∉ s.pool []) : R (s.setPool [] (s.pool [] ++ [id])) sp where
  root := r.root
  hs := by
    intro h
    have := r.hs h
    cases hh : sp.handle? h with
    | none => simp only [hh] at this ⊢; exact this
    | some v =>
      cases v with
      | nilRes => simp only [hh] at this ⊢; exact this
      | closed => simp only [hh] at this ⊢; exact this
      | live input =>
        simp only [hh] at this ⊢
        obtain ⟨i, o', fds, h1, h2, h3, h4, h5, h6, h7, h8, h9⟩ := this
        refine ⟨i, o', fds, h1, h2, h3, h4, h5, h6, h7, h8, ?_⟩
        rw [pool_setPool]; simp only [if_true, List.mem_append, List.mem_singleton, not_or]
        exact ⟨h9, fun e => hnl h input hh (by rw [h1, e])⟩
  inj := r.inj
  pool := by
    intro i hi
    rw [pool_setPool] at hi; simp only [if_true, List.mem_append, List.mem_singleton] at hi
    rcases hi with hi | hi
    · exact r.pool i hi
    · subst hi; exact ⟨o, ho, hcl, hlen, hp, hsk⟩
  nodup := by
    rw [pool_setPool]; simp only [if_true]
    exact List.nodup_append.mpr ⟨r.nodup, by simp, by intro a ha b hb; simp at hb; subst hb; exact fun e => hnp (e ▸ ha)⟩
  jc := r.jc

theorem R.setJC {s : LState} {sp : Spec} (r : R s sp) (j : Option Nat)
    (hj : ∀ h, j = some h → ∃ id o, s.handle? h = some (some id) ∧ s.obj? id = some o ∧ o.closed = true) :
    R s { sp with justClosed := j } :=
  { root := r.root, hs := r.hs, inj := r.inj, pool := r.pool, nodup := r.nodup, jc := hj }

theorem R.poolErase {s : LState} {sp : Spec} (r : R s sp) (id : Nat) :
    R (s.setPool [] ((s.pool []).erase id)) sp where
  root := r.root
  hs := by
    intro h
    have := r.hs h
    cases hh : sp.handle? h with
    | none => simp only [hh] at this ⊢; exact this
    | some v =>
      cases v with
      | nilRes => simp only [hh] at this ⊢; exact this
      | closed => simp only [hh] at this ⊢; exact this
      | live input =>
        simp only [hh] at this ⊢
        obtain ⟨i, o', fds, h1, h2, h3, h4, h5, h6, h7, h8, h9⟩ := this
        refine ⟨i, o', fds, h1, h2, h3, h4, h5, h6, h7, h8, ?_⟩
        rw [pool_setPool]; simp only [if_true]
        exact fun hm => h9 (List.mem_of_mem_erase hm)
  inj := r.inj
  pool := by
    intro i hi
    rw [pool_setPool] at hi; simp only [if_true] at hi
    exact r.pool i (List.mem_of_mem_erase hi)
  nodup := by rw [pool_setPool]; simp only [if_true]; exact r.nodup.erase id
  jc := r.jc

/-- the handle now denotes the nil result -/
theorem R.setNil {s : LState} {sp : Spec} (r : R s sp) (h : Nat) :
    R (s.setHandle h none) { sp.setHandle h .nilRes with justClosed := none } where
  root := r.root
  hs := by
    intro h'
    show match (sp.setHandle h .nilRes).handle? h' with | none => _ | some .nilRes => _ | some (.live input) => _ | some .closed => _
    rw [shandle_setHandle]
    by_cases e : h' = h
    · simp only [e, if_true, handle_setHandle]
    · simp only [e, if_false, handle_setHandle, obj_setHandle, pool_setHandle]; exact r.hs h'
  inj := by
    intro h1 h2 i1 i2 id a b c d
    have a' : (sp.setHandle h .nilRes).handle? h1 = some (.live i1) := a
    have b' : (sp.setHandle h .nilRes).handle? h2 = some (.live i2) := b
    rw [shandle_setHandle] at a' b'
    rw [handle_setHandle] at c d
    by_cases e1 : h1 = h
    · simp [e1] at a'
    · by_cases e2 : h2 = h
      · simp [e2] at b'
      · simp only [e1, e2, if_false] at a' b' c d
        exact r.inj h1 h2 i1 i2 id a' b' c d
  pool := r.pool
  nodup := r.nodup
  jc := by intro h hh; cases hh

/-- the handle now denotes a result decoded from `input`, held by an object nobody else owns -/
theorem R.setLive {s : LState} {sp : Spec} (r : R s sp) (h id : Nat) (input : Bytes) (o : LObj) (fds : List FD)
    (ho : s.obj? id = some o) (hf : fresh sp.root input = .ok fds) (heq : FdsEq o.fds fds) (hp : o.path = [])
    (hc : o.closers = []) (hcl : o.closed = false) (hsk : o.skipClose = false) (hnp : id ∉ s.pool [])
    (hnl : NotLive s sp id) :
    R (s.setHandle h (some id)) { sp.setHandle h (.live input) with justClosed := none } where
  root := r.root
  hs := by
    intro h'
    show match (sp.setHandle h (.live input)).handle? h' with | none => _ | some .nilRes => _ | some (.live input) => _ | some .closed => _
    rw [shandle_setHandle]
    by_cases e : h' = h
    · simp only [e, if_true, handle_setHandle, obj_setHandle, pool_setHandle]
      exact ⟨id, o, fds, rfl, ho, hf, heq, hp, hc, hcl, hsk, hnp⟩
    · simp only [e, if_false, handle_setHandle, obj_setHandle, pool_setHandle]; exact r.hs h'
  inj := by
    intro h1 h2 i1 i2 id' a b c d
    have a' : (sp.setHandle h (.live input)).handle? h1 = some (.live i1) := a
    have b' : (sp.setHandle h (.live input)).handle? h2 = some (.live i2) := b
    rw [shandle_setHandle] at a' b'
    rw [handle_setHandle] at c d
    by_cases e1 : h1 = h
    · by_cases e2 : h2 = h
      · rw [e1, e2]
      · simp only [e1, e2, if_true, if_false] at a' b' c d
        have : id' = id := by injection c with c; injection c with c; exact c.symm
        subst this
        exact absurd d (hnl h2 i2 b')
    · by_cases e2 : h2 = h
      · simp only [e1, e2, if_true, if_false] at a' b' c d
        have : id' = id := by injection d with d; injection d with d; exact d.symm
        subst this
        exact absurd c (hnl h1 i1 a')
      · simp only [e1, e2, if_false] at a' b' c d
        exact r.inj h1 h2 i1 i2 id' a' b' c d
  pool := r.pool
  nodup := r.nodup
  jc := by intro h hh; cases hh

/-- closing an open, unowned root result without nested results -/
theorem R.closeFlat {s : LState} {sp : Spec} (r : R s sp) (id : Nat) (o : LObj) (ho : s.obj? id = some o)
    (hc : o.closers = []) (hcl : o.closed = false) (hsk : o.skipClose = false) (hp : o.path = [])
    (hlen : o.fds.length = sp.root.flat.length) (hnl : NotLive s sp id) (hnp : id ∉ s.pool []) :
    R (closeRes s id) { sp with justClosed := none } := by
  obtain ⟨f1, f2, f3, f4⟩ := closeRes_flat s id o ho hc hcl hsk hp
  have r3 := r.setObj id (clearedOf o) hnl hnp
  by_cases hr : s.rootPooled = true
  · have r4 := r3.poolAdd id (clearedOf o) (by rw [obj_setObj]; simp) (clearedOf_cleared o)
      (by simp [clearedOf, hlen]) (by simp [clearedOf, hp]) (by simp [clearedOf, hsk]) hnl hnp
    refine r4.ext f1 f2 ?_ ?_
    · intro i; rw [f3, obj_setPool, obj_setObj]
    · rw [f4, pool_setPool]; simp [hr, pool_setObj]
  · have hr' : s.rootPooled = false := by simpa using hr
    refine r3.ext f1 f2 ?_ ?_
    · intro i; rw [f3, obj_setObj]
    · rw [f4]; simp [hr', pool_setObj]

theorem fresh_len {root : LDec} {input : Bytes} {fds : List FD} (h : fresh root input = .ok fds) :
    fds.length = root.flat.length :=
  (C13.decodeInto_total root.flat (cleanFds root.flat.length) input (by simp [cleanFds])).2 fds h

theorem tagsOf_congr (root : LDec) {xs ys : List FD} (h : FdsEq xs ys) : tagsOf root xs = tagsOf root ys := by
  unfold tagsOf
  generalize root.flat = ts
  induction h generalizing ts with
  | nil => rfl
  | cons hab _ ih =>
    cases ts with
    | nil => rfl
    | cons t ts => simp only [List.zip_cons_cons, List.map_cons, hab.1, ih ts]

/-- the common part of `Decode` once an object has been chosen -/
theorem decode_chosen {s1 : LState} {sp : Spec} (r1 : R s1 sp) (h id : Nat) (o : LObj) (input : Bytes)
    (hcl : Cleared o) (hlen : o.fds.length = sp.root.flat.length) (hp : o.path = []) (hsk : o.skipClose = false)
    (hnl : NotLive s1 sp id) (hnp : id ∉ s1.pool []) (hne : input.isEmpty = false) (c : Choice) :
    let res : LState × DecodeOut :=
      match decodeInto sp.root.flat o.fds input with
      | .ok fds => (s1.setObj id { o with closed := false, fds := fds }, .res id)
      | .err => (closeRes (s1.setObj id { o with closed := false }) id, .err)
      | .panic => (s1, .panic)
    let fin : LState × LOut :=
      match res with
      | (s2, .res id) => (s2.setHandle h (some id), .ok)
      | (s2, .nil) => (s2.setHandle h none, .nil)
      | (s2, .err) => (s2, .err)
      | (s2, .panic) => (s2, .panic)
      | (s2, .notPooled) => (s2, .notPooled)
    fin.2 = (sp.step (.decode h input c)).2 ∧ R fin.1 (sp.step (.decode h input c)).1 := by
  have hrel := decode_into_clean sp.root.flat o.fds input hcl.1
  rw [hlen] at hrel
  simp only [Spec.step, hne, Bool.false_eq_true, if_false]
  have hfr : fresh sp.root input = decodeInto sp.root.flat (cleanFds sp.root.flat.length) input := rfl
  rw [hfr]
  cases hx : decodeInto sp.root.flat o.fds input with
  | ok xs =>
    cases hy : decodeInto sp.root.flat (cleanFds sp.root.flat.length) input with
    | ok ys =>
      rw [hx, hy] at hrel
      simp only []
      refine ⟨by trivial, ?_⟩
      have r2 := r1.setObj id { o with closed := false, fds := xs } hnl hnp
      exact r2.clearJC.setLive h id input { o with closed := false, fds := xs } ys (by rw [obj_setObj]; simp) hy hrel hp hcl.2 rfl hsk hnp hnl
    | err => rw [hx, hy] at hrel; exact hrel.elim
    | panic => rw [hx, hy] at hrel; exact hrel.elim
  | err =>
    cases hy : decodeInto sp.root.flat (cleanFds sp.root.flat.length) input with
    | ok ys => rw [hx, hy] at hrel; exact hrel.elim
    | err =>
      simp only []
      refine ⟨by trivial, ?_⟩
      have r2 := r1.setObj id { o with closed := false } hnl hnp
      exact (r2.closeFlat id { o with closed := false } (by rw [obj_setObj]; simp) hcl.2 rfl hsk hp hlen hnl hnp)
    | panic => rw [hx, hy] at hrel; exact hrel.elim
  | panic =>
    cases hy : decodeInto sp.root.flat (cleanFds sp.root.flat.length) input with
    | ok ys => rw [hx, hy] at hrel; exact hrel.elim
    | err => rw [hx, hy] at hrel; exact hrel.elim
    | panic => simp only []; exact ⟨by trivial, r1.clearJC⟩

theorem decAt_root (d : LDec) : decAt d [] = some d := by simp [decAt]

/-- **one step**: same output, and the relation is kept -/
theorem step_refines (s : LState) (sp : Spec) (r : R s sp) (op : LOp) (hok : OpOK s sp op) :
    (s.step op).2 = (sp.step op).2 ∧ R (s.step op).1 (sp.step op).1 := by
  cases op with
  | decode h input c =>
    simp only [LState.step, decodeWithPool]
    by_cases hemp : input.isEmpty = true
    · simp only [hemp, if_true, Spec.step]
      exact ⟨by trivial, r.setNil h⟩
    · have hne : input.isEmpty = false := by simpa using hemp
      have hc := hok hne
      simp only [hne, Bool.false_eq_true, if_false, decAt_root, r.root]
      cases c with
      | new id =>
        have hfresh : s.obj? id = none := hc
        have hnl : NotLive s sp id := by
          intro h' inp hh hs
          have := r.hs h'
          simp only [hh] at this
          obtain ⟨i, o, _, h1, h2, _⟩ := this
          rw [h1] at hs; injection hs with hs; injection hs with hs
          rw [hs, hfresh] at h2; cases h2
        have hnp : id ∉ s.pool [] := by
          intro hm
          obtain ⟨o, h1, _⟩ := r.pool id hm
          rw [hfresh] at h1; cases h1
        have := decode_chosen r h id
          { path := [], fds := cleanFds sp.root.flat.length, closers := [], skipClose := false, closed := false }
          input ⟨by simp [cleanFds], rfl⟩ (by simp [cleanFds]) rfl rfl hnl hnp hne (.new id)
        simp only [] at this ⊢
        exact this
      | reuse id =>
        have hin : id ∈ s.pool [] := hc
        obtain ⟨o, ho, hcl, hlen, hp, hsk⟩ := r.pool id hin
        have hcont : (s.pool []).contains id = true := by simpa using hin
        have hnl : NotLive (s.setPool [] ((s.pool []).erase id)) sp id := by
          intro h' inp hh hs
          have := r.hs h'
          simp only [hh] at this
          obtain ⟨i, o', _, h1, _, _, _, _, _, _, _, h9⟩ := this
          rw [handle_setPool, h1] at hs; injection hs with hs; injection hs with hs
          exact h9 (hs ▸ hin)
        have hnp : id ∉ (s.setPool [] ((s.pool []).erase id)).pool [] := by
          rw [pool_setPool]; simp only [if_true]
          intro hm
          exact ((r.nodup.mem_erase_iff).mp hm).1 rfl
        have := decode_chosen (r.poolErase id) h id o input hcl hlen hp hsk hnl hnp hne (.reuse id)
        simp only [hcont, if_true, ho, Option.map_some] at this ⊢
        exact this
  | acc h path a =>
    obtain ⟨hlen, hnc⟩ := hok
    simp only [LState.step, Spec.step]
    have hh := r.hs h
    cases hsp : sp.handle? h with
    | none =>
      simp only [hsp] at hh
      simp only [hh]
      exact ⟨by trivial, r.clearJC⟩
    | some v =>
      cases v with
      | closed => exact absurd hsp hnc
      | nilRes =>
        simp only [hsp] at hh
        simp only [hh]
        match path, hlen with
        | [], _ => simp [accPath]; exact r.clearJC
        | [t], _ => simp [accPath]; exact r.clearJC
      | live input =>
        simp only [hsp] at hh
        obtain ⟨id, o, fds, h1, h2, h3, h4, h5, _⟩ := hh
        simp only [h1]
        match path, hlen with
        | [], _ => simp [accPath]; exact r.clearJC
        | [t], _ =>
          simp only [List.map_cons, List.map_nil, accPath, h2, h5, decAt_root, r.root, List.isEmpty_nil, if_true, h3]
          exact ⟨by rw [accessTag_congr sp.root h4], r.clearJC⟩
  | range h =>
    simp only [LState.step, Spec.step]
    have hh := r.hs h
    cases hsp : sp.handle? h with
    | none => simp only [hsp] at hh; simp only [hh]; exact ⟨by trivial, r.clearJC⟩
    | some v =>
      cases v with
      | closed => exact absurd hsp hok
      | nilRes => simp only [hsp] at hh; simp only [hh]; exact ⟨by trivial, r.clearJC⟩
      | live input =>
        simp only [hsp] at hh
        obtain ⟨id, o, fds, h1, h2, h3, h4, h5, _⟩ := hh
        simp only [h1, h2, h5, decAt_root, r.root, h3]
        refine ⟨?_, r.clearJC⟩
        have := tagsOf_congr sp.root h4
        simp only [tagsOf] at this ⊢
        rw [this]
  | close h =>
    simp only [LState.step, Spec.step]
    have hh := r.hs h
    cases hsp : sp.handle? h with
    | none => simp only [hsp] at hh; simp only [hh]; exact ⟨by trivial, r.clearJC⟩
    | some v =>
      cases v with
      | nilRes => simp only [hsp] at hh; simp only [hh]; exact ⟨by trivial, r.clearJC⟩
      | closed =>
        obtain ⟨id, o, h1, h2, h3⟩ := r.jc h (hok hsp)
        simp only [h1]
        refine ⟨by trivial, ?_⟩
        have : closeRes s id = s := by simp [closeRes, h2, h3]
        rw [this]; exact r
      | live input =>
        simp only [hsp] at hh
        obtain ⟨id, o, fds, h1, h2, h3, h4, h5, h6, h7, h8, h9⟩ := hh
        simp only [h1]
        refine ⟨by trivial, ?_⟩
        -- first forget the handle on the specification side …
        have rC : R s (sp.setHandle h .closed) :=
          { root := r.root
            hs := by
              intro h'
              rw [shandle_setHandle]
              by_cases e : h' = h
              · simp only [e, if_true]; exact ⟨id, h1⟩
              · simp only [e, if_false]; exact r.hs h'
            inj := by
              intro a b i1 i2 id' ha hb hc hd
              rw [shandle_setHandle] at ha hb
              by_cases e1 : a = h
              · simp [e1] at ha
              · by_cases e2 : b = h
                · simp [e2] at hb
                · simp only [e1, e2, if_false] at ha hb
                  exact r.inj a b i1 i2 id' ha hb hc hd
            pool := r.pool
            nodup := r.nodup
            jc := by
              intro h' e
              exact r.jc h' e }
        have hnl : NotLive s (sp.setHandle h .closed) id := by
          intro h' inp hh' hs'
          rw [shandle_setHandle] at hh'
          by_cases e : h' = h
          · simp [e] at hh'
          · simp only [e, if_false] at hh'
            exact e (r.inj h' h inp input id hh' hsp hs' h1)
        have rF := rC.closeFlat id o h2 h6 h7 h8 h5 (by rw [h4.length]; exact fresh_len h3) hnl h9
        obtain ⟨f1, f2, f3, f4⟩ := closeRes_flat s id o h2 h6 h7 h8 h5
        exact rF.setJC (some h) (by
          intro h' e
          injection e with e
          subst e
          exact ⟨id, clearedOf o, by rw [f2, h1], by rw [f3]; simp, rfl⟩)
  | nested _ _ _ _ => exact hok.elim
  | nesteds _ _ _ _ => exact hok.elim

/-! ### whole histories -/

def outputs (s : LState) : List LOp → List LOut
  | [] => []
  | op :: ops => (s.step op).2 :: outputs (s.step op).1 ops

def Spec.outputs (sp : Spec) : List LOp → List LOut
  | [] => []
  | op :: ops => (sp.step op).2 :: Spec.outputs (sp.step op).1 ops

/-- the history keeps to the API contract at every step (and the pool's choices are choices it can make) -/
def HistOK (s : LState) (sp : Spec) : List LOp → Prop
  | [] => True
  | op :: ops => OpOK s sp op ∧ HistOK (s.step op).1 (sp.step op).1 ops

theorem R.init (root : LDec) (pooled : Bool) : R (LState.init root pooled) (Spec.init root) where
  root := rfl
  hs := by intro h; simp [Spec.init, Spec.handle?, LState.init, LState.handle?]
  inj := by intro h1 h2 i1 i2 id a; simp [Spec.init, Spec.handle?] at a
  pool := by intro id hi; simp [LState.init, LState.pool] at hi
  nodup := by simp [LState.init, LState.pool]
  jc := by intro h e; simp [Spec.init] at e

theorem history_refines_from (ops : List LOp) : ∀ (s : LState) (sp : Spec), R s sp → HistOK s sp ops →
    outputs s ops = Spec.outputs sp ops := by
  induction ops with
  | nil => intro s sp _ _; rfl
  | cons op ops ih =>
    intro s sp r hok
    obtain ⟨h1, h2⟩ := step_refines s sp r op hok.1
    simp only [outputs, Spec.outputs, h1, ih _ _ h2 hok.2]

/-- **C14 for root results, whole histories.**  For every decoder definition, pooled or not, every
    history of Decode / accessor / Range / Close operations on root results that keeps to the API
    contract, and every choice the pool makes at every Decode (a brand-new object or ANY object
    currently pooled), the observable outputs are those of the pool-free specification, in which every
    answer is computed from the handle's own input decoded into a brand-new object. -/
theorem flat_history_refines (root : LDec) (pooled : Bool) (ops : List LOp)
    (hok : HistOK (LState.init root pooled) (Spec.init root) ops) :
    outputs (LState.init root pooled) ops = Spec.outputs (Spec.init root) ops :=
  history_refines_from ops _ _ (R.init root pooled) hok

theorem scalarValue_ne_panic {α} (fd : FD) (wt : Nat) (conv : Bytes → Conv α) (mk : α → Item) : scalarValue fd wt conv mk ≠ .panic := by
  unfold scalarValue
  repeat' split
  all_goals simp
theorem sliceValue_ne_panic {α} (fd : FD) (wt : Nat) (conv : Bytes → Conv α) (mk : List α → Item) : sliceValue fd wt conv mk ≠ .panic := by
  unfold sliceValue
  repeat' split
  all_goals simp
theorem accessFD_ne_panic (fd : FD) (a : Acc) : accessFD fd a ≠ .panic := by
  cases a <;> simp only [accessFD] <;> first | exact scalarValue_ne_panic _ _ _ _ | exact sliceValue_ne_panic _ _ _ _ | skip
  · have := sliceValue_ne_panic fd wtLen (fun p => Conv.ok p (List.length p)) fun vs => Item.nats (List.map List.length vs)
    split
    · simp
    · assumption
  · repeat' split
    all_goals simp

theorem accessTag_ne_panic (dec : LDec) (fds : List FD) (tag : Nat) (a : Acc) (hl : fds.length = dec.flat.length) :
    accessTag dec fds tag a ≠ .panic := by
  unfold accessTag
  split
  · simp
  · split
    · simp
    · rename_i i hi
      have hlt := idxOf?_lt hi
      rw [List.getElem?_eq_getElem (by omega)]
      simp only []
      split
      · simp
      · exact accessFD_ne_panic _ _

/-- **no operation of such a history panics**: not the decoder pass, not an accessor, not Close -/
theorem step_no_panic (s : LState) (sp : Spec) (r : R s sp) (op : LOp) (hok : OpOK s sp op) :
    (s.step op).2 ≠ .panic ∧ (s.step op).2 ≠ .ans .panic := by
  rw [(step_refines s sp r op hok).1]
  cases op with
  | decode h input c =>
    simp only [Spec.step]
    split
    · simp
    · have := (C13.decodeInto_total sp.root.flat (cleanFds sp.root.flat.length) input (by simp [cleanFds])).1
      unfold fresh
      split <;> simp_all
  | acc h path a =>
    simp only [Spec.step]
    have hh := r.hs h
    cases hsp : sp.handle? h with
    | none => simp
    | some v =>
      cases v with
      | closed => exact absurd hsp hok.2
      | nilRes => simp only []; split <;> simp
      | live input =>
        simp only [hsp] at hh
        obtain ⟨id, o, fds, _, _, h3, _⟩ := hh
        simp only []
        split
        · simp only [h3]
          refine ⟨by simp, ?_⟩
          intro e
          injection e with e
          exact accessTag_ne_panic sp.root fds _ a (fresh_len h3) e
        · simp
  | range h =>
    simp only [Spec.step]
    have hh := r.hs h
    cases hsp : sp.handle? h with
    | none => simp
    | some v =>
      cases v with
      | closed => exact absurd hsp hok
      | nilRes => simp
      | live input =>
        simp only [hsp] at hh
        obtain ⟨id, o, fds, _, _, h3, _⟩ := hh
        simp [h3]
  | close h =>
    simp only [Spec.step]
    split <;> simp
  | nested _ _ _ _ => exact hok.elim
  | nesteds _ _ _ _ => exact hok.elim

theorem history_no_panic_from (ops : List LOp) : ∀ (s : LState) (sp : Spec), R s sp → HistOK s sp ops →
    ∀ out ∈ outputs s ops, out ≠ .panic ∧ out ≠ .ans .panic := by
  induction ops with
  | nil => intro s sp _ _ out ho; simp [outputs] at ho
  | cons op ops ih =>
    intro s sp r hok out ho
    simp only [outputs, List.mem_cons] at ho
    rcases ho with rfl | ho
    · exact step_no_panic s sp r op hok.1
    · exact ih _ _ (step_refines s sp r op hok.1).2 hok.2 out ho

/-- **no operation of a root-result history panics**, whatever the pool hands out -/
theorem flat_history_no_panic (root : LDec) (pooled : Bool) (ops : List LOp)
    (hok : HistOK (LState.init root pooled) (Spec.init root) ops) :
    ∀ out ∈ outputs (LState.init root pooled) ops, out ≠ .panic ∧ out ≠ .ans .panic :=
  history_no_panic_from ops _ _ (R.init root pooled) hok

/-! ### non-vacuity: a concrete history that meets the contract and recycles an object

  Decode A into a new object 10 (tag 2 = "A"), read it, Close, Close again (the tolerated repetition),
  Decode B — which has no tag 2 — into the recycled object 10, read tag 2 and tag 1, Range, Close. -/
def rootEx : LDec := .mk [1, 2] []
def inA : Bytes := [0x08, 0x05, 0x12, 0x01, 0x41]
def inB : Bytes := [0x08, 0x07]
def histEx : List LOp :=
  [.decode 1 inA (.new 10), .acc 1 [2] .string, .close 1, .close 1,
   .decode 2 inB (.reuse 10), .acc 2 [2] .string, .acc 2 [1] .uint64, .range 2, .close 2]

theorem histEx_ok : HistOK (LState.init rootEx true) (Spec.init rootEx) histEx := by
  simp only [histEx, HistOK, OpOK, and_true]
  refine ⟨?_, ?_, ?_, ?_, ?_, ?_, ?_, ?_, ?_⟩
  all_goals first | decide | (intro _; unfold ChoiceOK; decide) | trace_state

/-- and the pooled machine's observable outputs on it (the second result, held by the recycled object 10,
    answers "not found" for tag 2 although the object carried "A" there in its previous life) -/
theorem histEx_outputs : outputs (LState.init rootEx true) histEx =
    [.ok, .ans (.ok (.bytes [0x41])), .ok, .ok, .ok, .ans .notFound, .ans (.ok (.nat 7)), .tags [(1, true), (2, false)], .ok] := by
  decide

end Csproto.C14
