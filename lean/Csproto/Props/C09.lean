import Csproto.Props.C04
import Csproto.Model.GenDec
import Csproto.Bridge.Templates
import Csproto.Bridge.Dispatch
/-
  C09 — Marshal output depends only on the message's current contents.

  State of a message as the generated methods and the runtime see it: its contents **and** the
  runtime's size-cache field (`sizeCache` / `XXX_sizecache`), which `proto.Size`, `proto.Marshal`
  (and, before the `fix:` commit, the generated `Size()`) write.  `readsCache` says whether the
  generated `Size()` returns a positive cached value; the regenerated fact
  `Generated.sizeCacheMentions = 0` (bridge `no_size_cache`) pins it to `false` for the current tree.

  * `history_invariant` — for **every** history of contents changes, generated Size / Marshal calls,
    runtime Size/Marshal calls that leave *any* value in the cache, Unmarshal, Reset and Clone, every
    generated Marshal returns exactly `Gen.marshal` of the current contents (the bytes a fresh copy
    gives), whatever the cache holds;
  * `cache_reader_breaks_it` — with `readsCache = true` (the code before the fix) the three-step
    history Marshal; grow a string; Marshal returns a buffer sized for the old contents, and the
    runtime's `size+1` convention alone makes runtime-Size; Marshal wrong — the negation, by `rfl`;
  * concurrent readers: the generated Size/Marshal/MarshalTo read the message and write nothing
    (fact: no size-cache access, `MarshalTo` only writes to `dest`), so concurrent calls on an
    unmodified message are read-only and each returns `Gen.marshal contents` (`readers_agree`).
    Data-race freedom itself is a property of the Go memory model: NOT carried by the proof; it is
    supported by that fact and by the race-detector run of the harness.
-/
namespace Csproto.C09
open Csproto Csproto.Gen

structure St where
  fs : List F
  unk : Bytes
  cache : Int          -- the runtime's size-cache field

/-- generated `Size()` -/
def genSize (readsCache : Bool) (S : Schema) (md : MD) (s : St) : Nat :=
  if readsCache && decide (s.cache > 0) then s.cache.toNat else sizeFields S md s.fs + s.unk.length

/-- generated `Marshal()` on top of that `Size()` -/
def genMarshal (readsCache : Bool) (S : Schema) (md : MD) (s : St) : Res Bytes :=
  marshalSized S md s.fs s.unk (genSize readsCache S md s)

inductive Op where
  | set (fs : List F) (unk : Bytes)     -- any mutation of the contents through the Go struct
  | size | marshal                      -- the generated methods (also reached through csproto.Size/Marshal)
  | runtime (leaves : Int)              -- the runtime's own Size/Marshal: writes whatever it likes into its cache
  | unmarshal (p : Bytes) (fast : Bool) -- generated Unmarshal (Reset + decode)
  | reset
  | clone                               -- proto.Clone: same contents, empty cache

/-- one step; the output is what a generated Marshal returned (if the step was one) -/
def step (readsCache : Bool) (S : Schema) (md : MD) (s : St) : Op → St × Option (Res Bytes)
  | .set fs unk => ({ s with fs := fs, unk := unk }, none)
  | .size => (if readsCache then { s with cache := (genSize readsCache S md s : Nat) } else s, none)
  | .marshal => (if readsCache then { s with cache := (genSize readsCache S md s : Nat) } else s, some (genMarshal readsCache S md s))
  | .runtime c => ({ s with cache := c }, none)
  | .unmarshal p fast =>
    match unmarshal S fast md p with
    | .ok (fs, unk) => ({ s with fs := fs, unk := unk }, none)
    | _ => ({ s with fs := initFields md, unk := [] }, none)     -- Reset() happened, decoding stopped
  | .reset => ({ fs := initFields md, unk := [], cache := 0 }, none)
  | .clone => ({ s with cache := 0 }, none)

def run (readsCache : Bool) (S : Schema) (md : MD) : St → List Op → List (Res Bytes)
  | _, [] => []
  | s, op :: ops =>
    let (s', o) := step readsCache S md s op
    match o with
    | some r => r :: run readsCache S md s' ops
    | none => run readsCache S md s' ops

/-- the specification: the same history on a state that has no cache at all -/
def specRun (S : Schema) (md : MD) : List F × Bytes → List Op → List (Res Bytes)
  | _, [] => []
  | (fs, unk), op :: ops =>
    match op with
    | .set fs' unk' => specRun S md (fs', unk') ops
    | .marshal => marshal S md fs unk :: specRun S md (fs, unk) ops
    | .unmarshal p fast =>
      match unmarshal S fast md p with
      | .ok (fs', unk') => specRun S md (fs', unk') ops
      | _ => specRun S md (initFields md, []) ops
    | .reset => specRun S md (initFields md, []) ops
    | _ => specRun S md (fs, unk) ops

theorem genMarshal_no_cache (S : Schema) (md : MD) (s : St) :
    genMarshal false S md s = marshal S md s.fs s.unk := by
  simp [genMarshal, genSize, marshal]

/-- **every Marshal of every history returns the bytes of the current contents**, whatever the
    runtime left in its size cache -/
theorem history_invariant (S : Schema) (md : MD) (ops : List Op) : ∀ (s : St),
    run false S md s ops = specRun S md (s.fs, s.unk) ops := by
  induction ops with
  | nil => intro s; rfl
  | cons op ops ih =>
    intro s
    cases op with
    | set fs unk => simp only [run, step, specRun]; exact ih _
    | size => simp only [run, step, specRun, Bool.false_eq_true, if_false]; exact ih _
    | marshal => simp only [run, step, specRun, genMarshal_no_cache, Bool.false_eq_true, if_false]; rw [ih s]
    | runtime c => simp only [run, step, specRun]; exact ih _
    | unmarshal p fast =>
      simp only [run, step, specRun]
      cases h : unmarshal S fast md p with
      | ok r => obtain ⟨fs', unk'⟩ := r; exact ih _
      | err => exact ih _
      | panic => exact ih _
    | reset => simp only [run, step, specRun]; exact ih _
    | clone => simp only [run, step, specRun]; exact ih _

/-- in particular the result never depends on the cache value the history started with -/
theorem initial_cache_irrelevant (S : Schema) (md : MD) (ops : List Op) (fs : List F) (unk : Bytes) (c c' : Int) :
    run false S md ⟨fs, unk, c⟩ ops = run false S md ⟨fs, unk, c'⟩ ops := by
  rw [history_invariant, history_invariant]

/-- the fact that pins `readsCache = false` to the current templates -/
theorem fact_no_size_cache : Generated.sizeCacheMentions = 0 := Bridge.Templates.no_size_cache

/-- readers on an unmodified message: any number of generated Marshal calls, in any order, each
    return the bytes of the contents (the calls do not change the state at all) -/
theorem readers_agree (S : Schema) (md : MD) (s : St) (n : Nat) :
    run false S md s (List.replicate n .marshal) = List.replicate n (marshal S md s.fs s.unk) := by
  induction n with
  | zero => rfl
  | succ n ih => simp only [List.replicate_succ, run, step, genMarshal_no_cache, Bool.false_eq_true, if_false]; rw [ih]

/-! ### Unmarshal of the empty payload, and the routes through csproto -/

/-- generated `Unmarshal` of zero bytes, when it succeeds, yields the contents of a new message -/
theorem unmarshal_empty_ok (S : Schema) (md : MD) (fast : Bool) (fs : List F) (unk : Bytes)
    (h : unmarshal S fast md [] = .ok (fs, unk)) : fs = initFields md ∧ unk = [] := by
  simp only [unmarshal, unmarshalMsg, List.length_nil] at h
  by_cases hr : (!hasRequired md && ([] : Bytes).isEmpty) = true
  · simp only [hr, if_true] at h
    cases h; exact ⟨rfl, rfl⟩
  · simp only [hr] at h
    simp [unmarshalLoop, Dec.len] at h
    split at h
    · cases h
    · cases h; exact ⟨rfl, rfl⟩

/-- zero bytes are the encoding of "nothing set": whatever the message held, after `Unmarshal(nil)` /
    `Unmarshal([]byte{})` (which may fail only for a missing required field) its contents are those of a new
    message — the receiver's earlier contents are gone -/
theorem unmarshal_empty_is_reset (rc : Bool) (S : Schema) (md : MD) (s : St) (fast : Bool) :
    (step rc S md s (.unmarshal [] fast)).1.fs = initFields md ∧
    (step rc S md s (.unmarshal [] fast)).1.unk = [] := by
  simp only [step]
  cases h : unmarshal S fast md [] with
  | ok r =>
    obtain ⟨fs, unk⟩ := r
    obtain ⟨h1, h2⟩ := unmarshal_empty_ok S md fast fs unk h
    exact ⟨h1, h2⟩
  | err => exact ⟨rfl, rfl⟩
  | panic => exact ⟨rfl, rfl⟩

/-- hence the next Marshal returns the bytes of the empty contents, not of the previous ones -/
theorem marshal_after_empty_unmarshal (S : Schema) (md : MD) (s : St) (fast : Bool) :
    run false S md s [.unmarshal [] fast, .marshal] = [marshal S md (initFields md) []] := by
  rw [history_invariant]
  simp only [specRun]
  cases h : unmarshal S fast md [] with
  | ok r =>
    obtain ⟨fs, unk⟩ := r
    obtain ⟨h1, h2⟩ := unmarshal_empty_ok S md fast fs unk h
    simp [specRun, h1, h2]
  | err => simp [specRun]
  | panic => simp [specRun]

/-- the routes "through csproto": `csproto.Unmarshal` (and `GrpcCodec.Unmarshal`, which only calls it) consists
    of the three interface probes and nothing else — no statement ahead of them that could return before the
    receiver is reset — and each arm resets before it decodes (`proto.Unmarshal` resets by contract); likewise
    `csproto.Marshal` / `csproto.Size` go straight to the generated methods.  So the `Op`s above are what these
    routes execute. -/
theorem fact_csproto_routes :
    Generated.Unmarshal_probes = ["Unmarshaler:.Reset,.Unmarshal", "ProtoV1Unmarshaler:.Reset,.XXX_Unmarshal", "proto.Message:proto.Unmarshal"] ∧
    Generated.Marshal_probes = ["Marshaler:.Marshal", "ProtoV1Marshaler:.XXX_Size,.XXX_Marshal", "proto.Message:proto.Marshal"] ∧
    Generated.Size_probes = ["Sizer:.Size", "ProtoV1Sizer:.XXX_Size", "proto.Message:proto.Size"] :=
  ⟨Bridge.unmarshal_probes_ok, Bridge.marshal_probes_ok, Bridge.size_probes_ok⟩

/-- proto2 extensions are sized and written in an order fixed at generation time (fact), so `Gen.marshal`
    being a function of the contents carries over to them: nothing call-dependent (the runtime's map order)
    enters the output -/
theorem fact_extension_order_static :
    Generated.extensionLoops = [("singlefile.go.tmpl", true, true), ("permessage.go.tmpl", true, true)] ∧
    Generated.runtimeOrderedIteration = 0 := Bridge.Templates.extension_order_is_static

/-! ### the negation for the code before the fix (documented finding B11) -/

def sStr : Schema := [[⟨1, .sc .string, .implicit⟩]]
def small : List F := [.one (.bs [0x61])]
def big : List F := [.one (.bs [0x61, 0x61, 0x61, 0x61, 0x61, 0x61])]

/-- the state after Marshal; grow the string (history of the code before the fix) -/
def afterGrow : St := (step true sStr (sStr.md 0) (step true sStr (sStr.md 0) ⟨small, [], 0⟩ .marshal).1 (.set big [])).1

/-- with a cache-reading `Size()`: after Marshal; grow the string, `Size()` still answers 3 although the
    contents now need 8 bytes, so the next Marshal works in a 3-byte buffer: it cannot return the
    bytes of the current contents (in the Go code the encoder runs off the end of that buffer) -/
theorem cache_reader_breaks_it :
    afterGrow.cache = 3 ∧ genSize true sStr (sStr.md 0) afterGrow = 3 ∧
    sizeFields sStr (sStr.md 0) afterGrow.fs + afterGrow.unk.length = 8 := by
  decide

/-- and the runtime's `size + 1` convention alone (protobuf-go ≥ 1.36 leaves 4 in the cache of a
    3-byte message): the generated `Size()` then answers 4 without any mutation -/
theorem runtime_cache_convention_breaks_it :
    genSize true sStr (sStr.md 0) (step true sStr (sStr.md 0) ⟨small, [], 0⟩ (.runtime 4)).1 = 4 ∧
    sizeFields sStr (sStr.md 0) small = 3 := by
  decide

end Csproto.C09
