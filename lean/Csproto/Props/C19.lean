import Csproto.Proofs.Enc
import Csproto.Proofs.Dec
/-
  C19 — Nested-message bridging in the hand-written codec is exact.

  The nested message is abstract: on the write side `how` says which of the three paths
  `EncodeNested` takes (0 = the message marshals itself into the supplied buffer (`MarshalerTo`),
  1 = it marshals itself to a fresh slice (`Marshaler`), 2 = only an underlying runtime knows it),
  `body` is what `csproto.Marshal(m)` returns (`none` = error) and `sz` what `csproto.Size(m)`
  returns.  On the read side the nested unmarshaler is an arbitrary function that may fail.
-/
namespace Csproto.C19
open Csproto

/-- the field `EncodeNested` must write: key, length, exactly the marshaled bytes -/
def nestedWire (tag : Nat) (b : Bytes) : Bytes := encTag tag wtLen ++ encVarint b.length ++ b

/-- **Write side, all three paths.** With enough room, `EncodeNested` appends exactly
    key ++ varint(len b) ++ b, where `b` is what `csproto.Marshal(m)` returns, and advances the
    cursor by precisely that amount.  On the `MarshalerTo` path this needs the message's own
    contract `Size(m) = len(Marshal(m))` (C04 for generated code); the other two paths need nothing. -/
theorem encodeNested_exact (e : Enc) (tag sz how : Nat) (b : Bytes)
    (hsz : how = 0 → sz = b.length) (hroom : e.Room (nestedWire tag b).length) :
    ∃ e', e.step (.nested tag sz how (some b)) = .ok e' ∧ Enc.Appended e e' (nestedWire tag b) := by
  unfold nestedWire at *
  simp only [List.length_append, Enc.Room] at hroom
  obtain ⟨e1, h1, a1⟩ := e.store_room (encTag tag wtLen) (by unfold Enc.Room; omega)
  by_cases hh : how = 0
  · have hs := hsz hh
    subst hs
    obtain ⟨e2, h2, a2⟩ := e1.store_room (encVarint b.length) (by unfold Enc.Room; rw [a1.off, a1.cap]; omega)
    obtain ⟨e3, h3, a3⟩ := e2.store_room b (by unfold Enc.Room; rw [a2.off, a2.cap, a1.off, a1.cap]; omega)
    have hbind : (e.store (encTag tag wtLen) >>= fun e => e.store (encVarint b.length)) = .ok e2 := by
      rw [h1, Res.bind_ok, h2]
    refine ⟨{ e3 with off := e2.off + b.length }, ?_, ?_⟩
    · simp only [Enc.step, hh, if_true]
      show (match (e.store (encTag tag wtLen) >>= fun e => e.store (encVarint b.length)) with
        | .ok e1 => (match (some b : Option Bytes) with
            | none => EncOut.err e1
            | some b => match e1.store b with
              | .ok e2 => EncOut.ok { e2 with off := e1.off + b.length }
              | _ => EncOut.panic)
        | _ => EncOut.panic) = _
      rw [hbind]; simp only [h3]
    · have hall := (a1.trans a2).trans a3
      have hoff : e2.off + b.length = e3.off := by rw [a3.off]
      refine ⟨hall.cap, by rw [hall.off] at *; simp [hoff, hall.off], ?_⟩
      have : ({ e3 with off := e2.off + b.length } : Enc) = e3 := by rw [hoff]
      rw [this]; exact hall.written
  · obtain ⟨e2, h2, a2⟩ := e1.store_room (encVarint b.length) (by unfold Enc.Room; rw [a1.off, a1.cap]; omega)
    obtain ⟨e3, h3, a3⟩ := e2.copy_room b (by unfold Enc.Room; rw [a2.off, a2.cap, a1.off, a1.cap]; omega)
    refine ⟨e3, ?_, (a1.trans a2).trans a3⟩
    simp only [Enc.step, hh, if_false]
    apply ofRes_ok
    show (e.store (encTag tag wtLen) >>= fun e => e.store (encVarint b.length) >>= fun e => e.copy b) = _
    rw [h1, Res.bind_ok, h2, Res.bind_ok, h3]

/-- **an error from the nested message propagates** (never a panic, never silently dropped),
    given room for the header on the `MarshalerTo` path -/
theorem encodeNested_error (e : Enc) (tag sz how : Nat)
    (hroom : how = 0 → e.Room (encTag tag wtLen ++ encVarint sz).length) :
    ∃ e', e.step (.nested tag sz how none) = .err e' := by
  by_cases hh : how = 0
  · have hr := hroom hh
    simp only [List.length_append, Enc.Room] at hr
    obtain ⟨e1, h1, a1⟩ := e.store_room (encTag tag wtLen) (by unfold Enc.Room; omega)
    obtain ⟨e2, h2, a2⟩ := e1.store_room (encVarint sz) (by unfold Enc.Room; rw [a1.off, a1.cap]; omega)
    refine ⟨e2, ?_⟩
    have hbind : (e.store (encTag tag wtLen) >>= fun e => e.store (encVarint sz)) = .ok e2 := by
      rw [h1, Res.bind_ok, h2]
    simp only [Enc.step, hh, if_true]
    show (match (e.store (encTag tag wtLen) >>= fun e => e.store (encVarint sz)) with
      | .ok e1 => (match (none : Option Bytes) with
          | none => EncOut.err e1
          | some b => match e1.store b with
            | .ok e2 => EncOut.ok { e2 with off := e1.off + sz }
            | _ => EncOut.panic)
      | _ => EncOut.panic) = _
    rw [hbind]
  · exact ⟨e, by simp [Enc.step, hh]⟩

/-- **Read side, success**: `DecodeNested` hands exactly the declared `L` bytes to the nested
    unmarshaler and consumes exactly `varint(L) ++ L bytes`. -/
theorem decodeNested_exact (d : Dec) (pre body post : Bytes) (hl : body.length ≤ maxFieldLen)
    (h : d.At pre (encVarint body.length ++ body ++ post)) :
    d.step (.nested true) = ({ d with off := d.off + (encVarint body.length ++ body).length }, .ok (.bytes body), 0) := by
  have hdrop : (d.p.drop (pre.length + (encVarint body.length).length)).take body.length = body := by
    rw [h.p]
    have : pre ++ (encVarint body.length ++ body ++ post) = (pre ++ encVarint body.length) ++ (body ++ post) := by simp
    rw [this]
    have hlen : pre.length + (encVarint body.length).length = (pre ++ encVarint body.length).length := by simp
    rw [hlen, List.drop_left]; simp
  simp only [Dec.step, Dec.lenPrefix_at h hl, hdrop, if_true]
  simp [h.off]; omega

/-- **Read side, nested error**: the error propagates and the cursor does not move. -/
theorem decodeNested_error (d : Dec) (pre body post : Bytes) (hl : body.length ≤ maxFieldLen)
    (h : d.At pre (encVarint body.length ++ body ++ post)) :
    d.step (.nested false) = (d, .errNested body, 0) := by
  have hdrop : (d.p.drop (pre.length + (encVarint body.length).length)).take body.length = body := by
    rw [h.p]
    have : pre ++ (encVarint body.length ++ body ++ post) = (pre ++ encVarint body.length) ++ (body ++ post) := by simp
    rw [this]
    have hlen : pre.length + (encVarint body.length).length = (pre ++ encVarint body.length).length := by simp
    rw [hlen, List.drop_left]; simp
  simp [Dec.step, Dec.lenPrefix_at h hl, hdrop]

/-- **A declared length beyond the buffer is rejected without invoking the nested decoder**: the
    outcome is a plain `.err` (an invoked-and-failed decoder would be `.errNested`), whatever the
    nested unmarshaler would have done. -/
theorem decodeNested_beyond_buffer (d : Dec) (hi : d.off ≤ d.len) (l n : Nat) (succeeds : Bool)
    (hdec : decodeVarint (d.p.drop d.off) = .ok (l, n)) (hbig : l > d.len - (d.off + n)) :
    d.step (.nested succeeds) = (d, .err, 0) := by
  have : d.lenPrefix = .err := by
    unfold Dec.lenPrefix
    by_cases h : d.off ≥ d.len
    · simp [h]
    · have hs : sliceFrom d.p d.off = .ok (d.p.drop d.off) := by unfold sliceFrom; simp [show d.off ≤ d.p.length from hi]
      simp only [h, if_false, hs, hdec]
      by_cases h1 : n = 0
      · simp [h1]
      · by_cases h2 : l > maxFieldLen
        · simp [h1, h2]
        · have h3 : d.off + n + l > d.len := by omega
          simp [h1, h2, h3]
  simp [Dec.step, this]

/-- **Round trip through the codec**: what `EncodeNested` wrote, `DecodeTag` + `DecodeNested`
    deliver back — the tag, and exactly the bytes `csproto.Marshal(m)` produced. -/
theorem nested_roundtrip (tag : Nat) (b : Bytes) (h1 : 1 ≤ tag) (ht : tag ≤ maxTagValue) (hl : b.length ≤ maxFieldLen)
    (d : Dec) (pre post : Bytes) (h : d.At pre (nestedWire tag b ++ post)) :
    ∃ d1 d2, d.step .tag = (d1, .ok (.tag tag wtLen), 0) ∧ d1.step (.nested true) = (d2, .ok (.bytes b), 0) ∧
      d2.off = pre.length + (nestedWire tag b).length := by
  unfold nestedWire at *
  have h' : d.At pre (encTag tag wtLen ++ ((encVarint b.length ++ b) ++ post)) := by
    have := h; simp only [List.append_assoc] at this ⊢; exact this
  have ht1 := Dec.tag_at h' h1 ht (by decide)
  have hAt := h'.afterTag
  have hAt' : Dec.At (d.afterTag (encTag tag wtLen).length) (pre ++ encTag tag wtLen) (encVarint b.length ++ b ++ post) := hAt
  have hn := decodeNested_exact _ _ b post hl hAt'
  refine ⟨_, _, ht1, hn, ?_⟩
  simp [h.off]; omega

/-! ## non-vacuity -/
example : ∃ e', (Enc.new 6).step (.nested 1 99 1 (some [8, 1, 16, 2])) = .ok e' ∧
    e'.written = [0x0a, 4, 8, 1, 16, 2] ∧ e'.off = 6 := by
  have hw : nestedWire 1 [8, 1, 16, 2] = [0x0a, 4, 8, 1, 16, 2] := by
    simp [nestedWire, encTag, keyOf, wtLen, two64, encVarint_small]
  obtain ⟨e', h, a⟩ := encodeNested_exact (Enc.new 6) 1 99 1 [8, 1, 16, 2] (by simp)
    (by rw [hw]; simp [Enc.Room, Enc.new, Enc.cap])
  exact ⟨e', h, by rw [a.written, hw]; simp [Enc.new, Enc.written], by rw [a.off, hw]; simp [Enc.new]⟩

end Csproto.C19
