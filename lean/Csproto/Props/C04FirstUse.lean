import Csproto.Props.C11
import Csproto.Bridge.Shim
/-
  C04, proto2 extensions — Size() and MarshalTo() agree during the (concurrent) first use of a type.

  The generated `Size()` and `MarshalTo()` of a message type with known extensions ask, per extension,
  `csproto.HasExtension(m, E_x)` (then `GetExtension`), and these dispatch on `csproto.MsgType(m)`: for the
  classification `MessageTypeUnknown` `HasExtension` answers `false` — the extension is skipped.  `Size()` and
  `MarshalTo()` are separate calls, so they agree only if every `MsgType` call made on the way returns the
  same classification.  That is a statement about the first-use type cache under concurrency
  (`Model/Shim.lean`: `cacheStep`, one atomic action of one goroutine; `C11.cache_stable`).

  * `agree_when_answers_constant` — equal answers ⇒ the extension part of `Size()` equals the bytes written;
  * `first_use_agree`             — every answer that any goroutine obtains under ANY schedule of first calls is
                                    `deduce c` (C11), so the two parts agree whenever the calls happen;
  * `placeholder_answer_breaks_it`— non-vacuity: one `unknown` answer during `Size()` (what a cache protocol
                                    that publishes a placeholder before the classification would hand to the
                                    goroutines that lose the race) makes `Size()` smaller than what is written;
  * `fact_type_cache_protocol`    — the regenerated fact: `MsgType` is nil check, `Load`, `deduceMsgType`, `Store`
                                    (nothing is stored before the classification is known).
-/
namespace Csproto.C04Ext
open Csproto

/-- per known extension of the type: `none` — not set; `some n` — set, its key + value take `n` bytes -/
abbrev Exts := List (Option Nat)

/-- `csproto.HasExtension` under the classification `MsgType` answered -/
def hasExt (ans : MT) (x : Option Nat) : Bool := ans != .unknown && x.isSome

/-- the extension part of `Size()` (resp. the bytes `MarshalTo` writes for extensions), given the answer of
    the `MsgType` call made for each extension in turn -/
def extBytes : List MT → Exts → Nat
  | a :: as, x :: xs => (if hasExt a x then x.getD 0 else 0) + extBytes as xs
  | _, _ => 0

theorem agree_when_answers_constant (v : MT) (sizeAns marshalAns : List MT) (xs : Exts)
    (hl : sizeAns.length = marshalAns.length)
    (hs : ∀ a ∈ sizeAns, a = v) (hm : ∀ a ∈ marshalAns, a = v) :
    extBytes sizeAns xs = extBytes marshalAns xs := by
  induction xs generalizing sizeAns marshalAns with
  | nil => cases sizeAns <;> cases marshalAns <;> simp [extBytes]
  | cons x xs ih =>
    cases sizeAns with
    | nil => cases marshalAns with
      | nil => simp [extBytes]
      | cons b bs => simp at hl
    | cons a as =>
      cases marshalAns with
      | nil => simp at hl
      | cons b bs =>
        have ha : a = v := hs a (by simp)
        have hb : b = v := hm b (by simp)
        have := ih as bs (by simpa using hl) (fun y hy => hs y (by simp [hy])) (fun y hy => hm y (by simp [hy]))
        simp [extBytes, ha, hb, this]

/-- an answer obtained by some goroutine's completed `MsgType` call in some run of first calls -/
def Obtained (c : Caps) (a : MT) : Prop :=
  ∃ (g : Nat) (sched : List Nat) (i : Nat), (cacheRun c (CacheState.init g) sched).pcs[i]? = some (.done a)

/-- **during the first use of a type, under every schedule, `Size()` and `MarshalTo()` see the same
    extensions**: all answers are the one classification `deduce c` -/
theorem first_use_agree (c : Caps) (sizeAns marshalAns : List MT) (xs : Exts)
    (hl : sizeAns.length = marshalAns.length)
    (hs : ∀ a ∈ sizeAns, Obtained c a) (hm : ∀ a ∈ marshalAns, Obtained c a) :
    extBytes sizeAns xs = extBytes marshalAns xs := by
  apply agree_when_answers_constant (deduce c) sizeAns marshalAns xs hl
  · intro a ha
    obtain ⟨g, sched, i, h⟩ := hs a ha
    exact C11.returned_value_correct c g sched i a h
  · intro a ha
    obtain ⟨g, sched, i, h⟩ := hm a ha
    exact C11.returned_value_correct c g sched i a h

/-- non-vacuity: a single `unknown` answer while sizing (the placeholder a "claim the entry first" protocol
    would return to a goroutine that lost the race) and the real one while marshaling: `Size()` is 27 bytes
    short of what `MarshalTo` writes into the `Size()`-byte buffer -/
theorem placeholder_answer_breaks_it :
    extBytes [.unknown] [some 27] = 0 ∧ extBytes [.google] [some 27] = 27 := by decide

/-- the regenerated fact the cache model stands on -/
theorem fact_type_cache_protocol :
    Generated.msgTypeProtocol = ["nilcheck", ".Load", "deduceMsgType", ".Store"] := Bridge.msgTypeProtocol_ok

end Csproto.C04Ext
