import Csproto.Bridge.Aliasing
import Csproto.Bridge.Templates
import Csproto.Model.GenDec
/-
  C10 — Safe-mode decoding never aliases the caller's buffer.

  Model: a decoded message is a collection of variable-length *components* (string, bytes,
  repeated-bytes elements, map keys/values, oneof members, extension values, unknown-field bytes, and
  the same inside nested messages; for lazyproto: every accessor's view of the field data).  Each is
  either `own b` — freshly allocated memory holding `b` — or `view start len` — a window onto a buffer.
  Overwriting, truncating or recycling the caller's buffer is `clobber`: it replaces the buffer seen by
  the views by an arbitrary other one.

  Which kind a storage site produces is a table (`siteStores`) whose entries are *regenerated facts*:
  `DecodeString` converts with `string(b)` unless the mode is fast (decoder.go); every `DecodeBytes`
  result a snippet stores is copied when `dec.Mode() == DecoderModeSafe` (templates); skipped fields
  are `append`ed to the message's own slice; lazyproto decodes a `slices.Clone` of the input in safe
  mode, so its views are windows onto memory the caller never had.

  * `safe_mode_owns_everything` — in safe mode every site produces `own`;
  * `clobber_invariant`         — hence a message decoded in safe mode reads the same after any clobber;
  * `fast_mode_aliases`         — in fast mode the string/bytes sites do alias (the documented opt-in),
                                  and a clobber is observable — the theorem is not vacuous.
-/
namespace Csproto.C10
open Csproto

inductive Comp where
  | own (b : Bytes)
  | view (start len : Nat)
deriving Repr, DecidableEq

/-- what the program reads from a component given the current state of the caller's buffer -/
def Comp.read (buf : Bytes) : Comp → Bytes
  | .own b => b
  | .view s l => (buf.drop s).take l

/-- storage sites of the generated `Unmarshal` and of lazyproto -/
inductive Site where
  | stringField | mapKeyString          -- `DecodeString`
  | bytesField | repeatedBytes | mapValueBytes | oneofBytes | extensionBytes   -- `DecodeBytes` + snippet
  | unknownFields                       -- `append(m.unknownFields, skipped...)`
  | lazyFieldData                       -- lazyproto accessors (views onto the decode buffer)
deriving Repr, DecidableEq

/-- does the site copy in the given mode — read off the regenerated facts -/
def siteCopies (fast : Bool) : Site → Bool
  | .stringField | .mapKeyString =>
      if fast then !Generated.decodeStringUnsafeOnlyFast else Generated.decodeStringSafeCopies
  | .bytesField => !fast && Generated.decodeBytesSites.any (fun s => s.1 == "UnmarshalBytes" && s.2 == "copied")
  | .repeatedBytes => !fast && Generated.decodeBytesSites.any (fun s => s.1 == "UnmarshalBytes" && s.2 == "copied")
  | .mapValueBytes => !fast && Generated.decodeBytesSites.any (fun s => s.1 == "UnmarshalMapEntry" && s.2 == "copied")
  | .oneofBytes => !fast && Generated.decodeBytesSites.any (fun s => s.1 == "UnmarshalOneOf" && s.2 == "copied")
  | .extensionBytes => !fast && Generated.decodeBytesSites.any (fun s => s.1 == "UnmarshalExtension" && s.2 == "copied")
  | .unknownFields => Generated.unknownHandling.all (fun t => t.2.2.2)
  | .lazyFieldData => !fast && Generated.lazyDecoderClonesInSafeMode && Generated.lazyDecodeFuncClones

/-- the component a site stores for the window `[start, start+len)` of input `input` -/
def store (fast : Bool) (input : Bytes) (site : Site) (start len : Nat) : Comp :=
  if siteCopies fast site then .own ((input.drop start).take len) else .view start len

/-- **in safe mode every storage site owns its bytes** -/
theorem safe_mode_owns_everything (site : Site) : siteCopies false site = true := by
  cases site <;> decide

/-- a decoded message: its components, each produced by some site from some window of the input -/
def decoded (fast : Bool) (input : Bytes) (parts : List (Site × Nat × Nat)) : List Comp :=
  parts.map fun p => store fast input p.1 p.2.1 p.2.2

/-- **what a safe-mode message reads does not depend on the caller's buffer any more**: after any
    overwrite / truncation / reuse (`buf'` arbitrary) every component reads as at decode time -/
theorem clobber_invariant (input buf' : Bytes) (parts : List (Site × Nat × Nat)) :
    (decoded false input parts).map (Comp.read buf') = (decoded false input parts).map (Comp.read input) := by
  simp only [decoded, List.map_map]
  apply List.map_congr_left
  intro p _
  simp [Function.comp, store, safe_mode_owns_everything, Comp.read]

/-- and it reads exactly the decoded windows -/
theorem safe_reads_decoded (input buf' : Bytes) (parts : List (Site × Nat × Nat)) :
    (decoded false input parts).map (Comp.read buf') = parts.map fun p => (input.drop p.2.1).take p.2.2 := by
  simp only [decoded, List.map_map]
  apply List.map_congr_left
  intro p _
  simp [Function.comp, store, safe_mode_owns_everything, Comp.read]

/-- the opt-in: in fast mode a string field is a window onto the caller's buffer, and overwriting the
    buffer changes what the message reads (so the invariance above is not vacuous) -/
theorem fast_mode_aliases :
    store true [0x0a, 0x02, 0x68, 0x69] .stringField 2 2 = .view 2 2 ∧
    (store true [0x0a, 0x02, 0x68, 0x69] .stringField 2 2).read [0xff, 0xff, 0xff, 0xff] = [0xff, 0xff] ∧
    (store false [0x0a, 0x02, 0x68, 0x69] .stringField 2 2).read [0xff, 0xff, 0xff, 0xff] = [0x68, 0x69] := by
  decide

/-! ### where the decoder's mode comes from: other components ran before

The table above is indexed by the decoder's mode.  The generated `Unmarshal` does
`dec := csproto.NewDecoder(p)` and calls `dec.SetMode(csproto.DecoderModeFast)` only when the code was
generated with `enableunsafedecode=true` (fact `decoderSetup`).  Whether that is the whole story depends on
`NewDecoder`: if it hands out a *recycled* object, the mode is whatever the previous user — lazyproto, which
always switches its internal decoders to fast mode, or any hand-written fast-mode decoder — left in it.
`leftBehind` is everything earlier activity in the process left for reuse (one Boolean per decoder: was it in
fast mode), `fresh` is the regenerated fact that `NewDecoder` returns a newly constructed `Decoder` whose
literal does not mention `mode`. -/

/-- the mode (`true` = fast) of the decoder `NewDecoder` returns, and what is left for later calls -/
def newDecoderMode (fresh : Bool) (leftBehind : List Bool) : Bool × List Bool :=
  if fresh then (false, leftBehind) else
  match leftBehind with
  | [] => (false, [])
  | m :: rest => (m, rest)

/-- the mode the generated `Unmarshal` decodes in -/
def unmarshalMode (fresh unsafeOption : Bool) (leftBehind : List Bool) : Bool :=
  unsafeOption || (newDecoderMode fresh leftBehind).1

/-- **whatever ran before, the mode is the user's option** (with the `NewDecoder` of the current tree) -/
theorem mode_is_the_option (unsafeOption : Bool) (leftBehind : List Bool) :
    unmarshalMode Generated.newDecoderIsFreshLiteral unsafeOption leftBehind = unsafeOption := by
  have h : Generated.newDecoderIsFreshLiteral = true := Bridge.Aliasing.newDecoder_is_fresh_and_safe.1
  simp [unmarshalMode, newDecoderMode, h]

/-- **the clobber invariant for every cross-component history**: a message decoded without the unsafe option
    reads the same after any overwrite of the input, whatever other decoders left behind -/
theorem clobber_invariant_after_any_activity (leftBehind : List Bool) (input buf' : Bytes) (parts : List (Site × Nat × Nat)) :
    (decoded (unmarshalMode Generated.newDecoderIsFreshLiteral false leftBehind) input parts).map (Comp.read buf') =
    (decoded (unmarshalMode Generated.newDecoderIsFreshLiteral false leftBehind) input parts).map (Comp.read input) := by
  rw [mode_is_the_option]; exact clobber_invariant input buf' parts

/-- non-vacuity: with a `NewDecoder` that recycles objects without resetting their mode, one fast-mode decoder
    left behind (a finished lazyproto decode) makes the next safe-option `Unmarshal` alias its input -/
theorem recycling_decoders_would_alias :
    unmarshalMode false false [true] = true ∧
    (store (unmarshalMode false false [true]) [0x0a, 0x02, 0x68, 0x69] .stringField 2 2).read [0xff, 0xff, 0xff, 0xff] = [0xff, 0xff] := by
  decide

/-- the regenerated facts behind the table -/
theorem facts :
    (∀ s ∈ Generated.decodeBytesSites, s.2 = "copied" ∨ s.2 = "subdecoder") ∧
    (Generated.decodeStringUnsafeOnlyFast = true ∧ Generated.decodeStringSafeCopies = true) ∧
    (Generated.lazyDecoderClonesInSafeMode = true ∧ Generated.lazyDecodeFuncClones = true) :=
  ⟨Bridge.Templates.bytes_never_aliased_in_safe_mode, Bridge.Aliasing.decodeString_copies_in_safe_mode,
   Bridge.Aliasing.lazy_inputs_are_cloned⟩

/-- … and behind the mode: `NewDecoder` constructs, only `SetMode` writes the mode, the templates call
    `SetMode` only under the unsafe option -/
theorem facts_decoder_mode :
    (Generated.newDecoderIsFreshLiteral = true ∧ Generated.newDecoderLiteralFields.contains "mode" = false ∧
      Generated.decoderModeWriters = ["SetMode"]) ∧
    Generated.decoderSetup = [("singlefile.go.tmpl", true, true), ("permessage.go.tmpl", true, true)] :=
  ⟨Bridge.Aliasing.newDecoder_is_fresh_and_safe, Bridge.Aliasing.generated_decoder_setup⟩

end Csproto.C10
