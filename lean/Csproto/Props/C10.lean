import Csproto.Bridge.Aliasing
import Csproto.Bridge.Templates
import Csproto.Model.GenDec
/-
  C10 — Safe-mode decoding never aliases the caller's buffer.

  Model: a decoded message is a collection of variable-length *components* (string, bytes,
  repeated-bytes elements, map keys/values, oneof members, extension values, unknown-field bytes, and
  the same inside nested messages; for lazyproto: every accessor's view of the field data).  Each is
  either `own b` — freshly allocated memory holding `b` — or `view start len` — a window onto a buffer.
  Overwriting, truncating or recycling the caller's buffer is `clobber`: it replaces the buffer seen by
  the views by an arbitrary other one.

  Which kind a storage site produces is a table (`siteStores`) whose entries are *regenerated facts*:
  `DecodeString` converts with `string(b)` unless the mode is fast (decoder.go); every `DecodeBytes`
  result a snippet stores is copied when `dec.Mode() == DecoderModeSafe` (templates); skipped fields
  are `append`ed to the message's own slice; lazyproto decodes a `slices.Clone` of the input in safe
  mode, so its views are windows onto memory the caller never had.

  * `safe_mode_owns_everything` — in safe mode every site produces `own`;
  * `clobber_invariant`         — hence a message decoded in safe mode reads the same after any clobber;
  * `fast_mode_aliases`         — in fast mode the string/bytes sites do alias (the documented opt-in),
                                  and a clobber is observable — the theorem is not vacuous.
-/
namespace Csproto.C10
open Csproto

inductive Comp where
  | own (b : Bytes)
  | view (start len : Nat)
deriving Repr, DecidableEq

/-- what the program reads from a component given the current state of the caller's buffer -/
def Comp.read (buf : Bytes) : Comp → Bytes
  | .own b => b
  | .view s l => (buf.drop s).take l

/-- storage sites of the generated `Unmarshal` and of lazyproto -/
inductive Site where
  | stringField | mapKeyString          -- `DecodeString`
  | bytesField | repeatedBytes | mapValueBytes | oneofBytes | extensionBytes   -- `DecodeBytes` + snippet
  | unknownFields                       -- `append(m.unknownFields, skipped...)`
  | lazyFieldData                       -- lazyproto accessors (views onto the decode buffer)
deriving Repr, DecidableEq

/-- does the site copy in the given mode — read off the regenerated facts -/
def siteCopies (fast : Bool) : Site → Bool
  | .stringField | .mapKeyString =>
      if fast then !Generated.decodeStringUnsafeOnlyFast else Generated.decodeStringSafeCopies
  | .bytesField => !fast && Generated.decodeBytesSites.any (fun s => s.1 == "UnmarshalBytes" && s.2 == "copied")
  | .repeatedBytes => !fast && Generated.decodeBytesSites.any (fun s => s.1 == "UnmarshalBytes" && s.2 == "copied")
  | .mapValueBytes => !fast && Generated.decodeBytesSites.any (fun s => s.1 == "UnmarshalMapEntry" && s.2 == "copied")
  | .oneofBytes => !fast && Generated.decodeBytesSites.any (fun s => s.1 == "UnmarshalOneOf" && s.2 == "copied")
  | .extensionBytes => !fast && Generated.decodeBytesSites.any (fun s => s.1 == "UnmarshalExtension" && s.2 == "copied")
  | .unknownFields => Generated.unknownHandling.all (fun t => t.2.2.2)
  | .lazyFieldData => !fast && Generated.lazyDecoderClonesInSafeMode && Generated.lazyDecodeFuncClones

/-- the component a site stores for the window `[start, start+len)` of input `input` -/
def store (fast : Bool) (input : Bytes) (site : Site) (start len : Nat) : Comp :=
  if siteCopies fast site then .own ((input.drop start).take len) else .view start len

/-- **in safe mode every storage site owns its bytes** -/
theorem safe_mode_owns_everything (site : Site) : siteCopies false site = true := by
  cases site <;> decide

/-- a decoded message: its components, each produced by some site from some window of the input -/
def decoded (fast : Bool) (input : Bytes) (parts : List (Site × Nat × Nat)) : List Comp :=
  parts.map fun p => store fast input p.1 p.2.1 p.2.2

/-- **what a safe-mode message reads does not depend on the caller's buffer any more**: after any
    overwrite / truncation / reuse (`buf'` arbitrary) every component reads as at decode time -/
theorem clobber_invariant (input buf' : Bytes) (parts : List (Site × Nat × Nat)) :
    (decoded false input parts).map (Comp.read buf') = (decoded false input parts).map (Comp.read input) := by
  simp only [decoded, List.map_map]
  apply List.map_congr_left
  intro p _
  simp [Function.comp, store, safe_mode_owns_everything, Comp.read]

/-- and it reads exactly the decoded windows -/
theorem safe_reads_decoded (input buf' : Bytes) (parts : List (Site × Nat × Nat)) :
    (decoded false input parts).map (Comp.read buf') = parts.map fun p => (input.drop p.2.1).take p.2.2 := by
  simp only [decoded, List.map_map]
  apply List.map_congr_left
  intro p _
  simp [Function.comp, store, safe_mode_owns_everything, Comp.read]

/-- the opt-in: in fast mode a string field is a window onto the caller's buffer, and overwriting the
    buffer changes what the message reads (so the invariance above is not vacuous) -/
theorem fast_mode_aliases :
    store true [0x0a, 0x02, 0x68, 0x69] .stringField 2 2 = .view 2 2 ∧
    (store true [0x0a, 0x02, 0x68, 0x69] .stringField 2 2).read [0xff, 0xff, 0xff, 0xff] = [0xff, 0xff] ∧
    (store false [0x0a, 0x02, 0x68, 0x69] .stringField 2 2).read [0xff, 0xff, 0xff, 0xff] = [0x68, 0x69] := by
  decide

/-- the regenerated facts behind the table -/
theorem facts :
    (∀ s ∈ Generated.decodeBytesSites, s.2 = "copied" ∨ s.2 = "subdecoder") ∧
    (Generated.decodeStringUnsafeOnlyFast = true ∧ Generated.decodeStringSafeCopies = true) ∧
    (Generated.lazyDecoderClonesInSafeMode = true ∧ Generated.lazyDecodeFuncClones = true) :=
  ⟨Bridge.Templates.bytes_never_aliased_in_safe_mode, Bridge.Aliasing.decodeString_copies_in_safe_mode,
   Bridge.Aliasing.lazy_inputs_are_cloned⟩

end Csproto.C10
