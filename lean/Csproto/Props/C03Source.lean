import Csproto.Bridge.SkipFuncs
/-
  C03 for the SOURCE: totality and bounds-safety of the Decoder methods TRANSLATED from `/repo`'s current decoder.go.

  `*_safe`: for every buffer a Go slice can hold, every cursor inside it, every mode and every remembered key span
  inside the buffer, each of `DecodeTag`, `DecodeUInt64`, `DecodeInt64`, `DecodeUInt32`, `DecodeInt32`, `DecodeSInt32`,
  `DecodeSInt64`, `DecodeFixed32`, `DecodeFixed64`, `DecodeBytes` and `Skip` (any expected tag / wire type) RETURNS — it does not
  panic (no index or slice bounds out of range in any statement, callee included) and does not run out of fuel (its loops
  terminate) — leaves the buffer field alone, and when it reports an error the cursor has not moved (`*_safe`; the
  cursor after a successful call is the model's, which `C03.step_safe` keeps inside the buffer).  A consequence of the refinement theorems (`Bridge/DecoderFuncs`, `Bridge/SkipFuncs`) and of `C03.step_safe`
  -style facts about the model; no function of the model occurs in the statement.
-/
set_option linter.unusedSimpArgs false
set_option linter.unusedVariables false
set_option linter.unusedSectionVars false
namespace Csproto.C03.Source
open Csproto Csproto.Generated.WireFuncs Csproto.Bridge Csproto.Bridge.WireFuncs Csproto.Bridge.DecoderFuncs Csproto.Bridge.SkipFuncs

/-- what "total" means for one call that returns `(value, error)`: it returns (no panic, no divergence), the buffer field is
    untouched, and a call that reports an error has not moved the cursor -/
def Safe {σ ρ : Type} (out : Go.Out σ (ρ × Go.Err)) (getp : σ → Bytes) (geto : σ → BitVec 64) (p : Bytes) (off : BitVec 64) : Prop :=
  ∃ r e s, out = .ret (r, e) s ∧ getp s = p ∧ (e ≠ .nil → geto s = off)

macro "safe_from " h:term : tactic =>
  `(tactic| (obtain ⟨r, e, s, hr, hp, _, _, _, hm⟩ := $h
             refine ⟨r, e, s, hr, hp, ?_⟩
             intro hne
             split at hm <;> first | exact (hne hm.1).elim | exact hm.2 | exact hm.elim))

variable (fuel : Nat) (hf : 11 ≤ fuel) (p : Bytes) (off mode ks ke : BitVec 64)
include hf

theorem DecodeUInt64_safe (hp : p.length < 2 ^ 63) (hoff : off.toNat ≤ p.length) :
    Safe (Decoder_DecodeUInt64 fuel p off mode ks ke) (·.d_p) (·.d_offset) p off := by
  safe_from (DecodeUInt64_refines fuel hf p off mode ks ke false hp hoff)
theorem DecodeInt64_safe (hp : p.length < 2 ^ 63) (hoff : off.toNat ≤ p.length) :
    Safe (Decoder_DecodeInt64 fuel p off mode ks ke) (·.d_p) (·.d_offset) p off := by
  safe_from (DecodeInt64_refines fuel hf p off mode ks ke false hp hoff)
theorem DecodeUInt32_safe (hp : p.length < 2 ^ 63) (hoff : off.toNat ≤ p.length) :
    Safe (Decoder_DecodeUInt32 fuel p off mode ks ke) (·.d_p) (·.d_offset) p off := by
  safe_from (DecodeUInt32_refines fuel hf p off mode ks ke false hp hoff)
theorem DecodeInt32_safe (hp : p.length < 2 ^ 63) (hoff : off.toNat ≤ p.length) :
    Safe (Decoder_DecodeInt32 fuel p off mode ks ke) (·.d_p) (·.d_offset) p off := by
  safe_from (DecodeInt32_refines fuel hf p off mode ks ke false hp hoff)
theorem DecodeSInt32_safe (hp : p.length < 2 ^ 63) (hoff : off.toNat ≤ p.length) :
    Safe (Decoder_DecodeSInt32 fuel p off mode ks ke) (·.d_p) (·.d_offset) p off := by
  safe_from (DecodeSInt32_refines fuel hf p off mode ks ke false hp hoff)
theorem DecodeSInt64_safe (hp : p.length < 2 ^ 63) (hoff : off.toNat ≤ p.length) :
    Safe (Decoder_DecodeSInt64 fuel p off mode ks ke) (·.d_p) (·.d_offset) p off := by
  safe_from (DecodeSInt64_refines fuel hf p off mode ks ke false hp hoff)
theorem DecodeFixed32_safe (hp : p.length < 2 ^ 63) (hoff : off.toNat ≤ p.length) :
    Safe (Decoder_DecodeFixed32 fuel p off mode ks ke) (·.d_p) (·.d_offset) p off := by
  safe_from (DecodeFixed32_refines fuel p off mode ks ke false hp hoff)
theorem DecodeFixed64_safe (hp : p.length < 2 ^ 63) (hoff : off.toNat ≤ p.length) :
    Safe (Decoder_DecodeFixed64 fuel p off mode ks ke) (·.d_p) (·.d_offset) p off := by
  safe_from (DecodeFixed64_refines fuel p off mode ks ke false hp hoff)
theorem DecodeBytes_safe (hp : p.length < 2 ^ 62) (hoff : off.toNat ≤ p.length) :
    Safe (Decoder_DecodeBytes fuel p off mode ks ke) (·.d_p) (·.d_offset) p off := by
  safe_from (DecodeBytes_refines fuel hf p off mode ks ke false hp hoff)
theorem Skip_safe (tag wt : BitVec 64) (hp : p.length < 2 ^ 62) (hoff : off.toNat ≤ p.length)
    (hks : ks.toNat ≤ p.length) (hke : ke.toNat ≤ p.length) :
    Safe (Decoder_Skip fuel p off mode ks ke tag wt) (·.d_p) (·.d_offset) p off := by
  safe_from (Skip_refines fuel hf p off mode ks ke tag wt hp hoff hks hke)

/-- `DecodeTag` (three results): returns, buffer untouched, an error leaves cursor AND remembered key span alone -/
theorem DecodeTag_safe (hp : p.length < 2 ^ 63) (hoff : off.toNat ≤ p.length) :
    ∃ t w e s, Decoder_DecodeTag fuel p off mode ks ke = .ret (t, w, e) s ∧ s.d_p = p ∧
      (e ≠ .nil → s.d_offset = off ∧ s.d_keyStart = ks ∧ s.d_keyEnd = ke) := by
  obtain ⟨t, w, e, s, hr, hp', _, hm⟩ := DecodeTag_refines fuel hf p off mode ks ke false hp hoff
  refine ⟨t, w, e, s, hr, hp', ?_⟩
  intro hne
  split at hm
  · exact (hne hm.1).elim
  · exact hm.2
  · exact hm.elim

end Csproto.C03.Source
