import Csproto.Props.C04
import Csproto.Props.C05
import Csproto.Proofs.GenNestedRoundtrip
/-
  proto2 extensions inside the model of the generated code (C04, C05, C06).

  What the templates do (`SizeOfExtension`, `MarshalExtension`, `UnmarshalExtension`,
  `UnmarshalRepeatedExtension` of `fieldsnippets.tmpl`; called by both file templates after the declared
  fields and the members of the real oneofs, `range getExtensions .`, for proto2 files only):

    if csproto.HasExtension(m, E_x) { extVal, _ := csproto.GetExtension(m, E_x); <the arm of the field's kind> }

  * a SINGULAR extension is an explicit-presence field whose pointer lives in the runtime's extension store instead
    of the Go struct: presence is `HasExtension`, the value is written whatever it is (zero, false, empty), a
    second occurrence on the wire replaces the first (`SetExtension`), the wire type must be the kind's own.
    That is arm for arm `Card.explicit`.
  * a REPEATED extension (finding B32, fixed by e89f5e1: the snippets had treated it as a singular one) holds a
    slice: one record per element on the way out, every occurrence — one value per record or, for the numeric
    kinds, packed — appended on the way in.  That is arm for arm `Card.list`.

  So the generated code of a message type `md` that knows the extensions `xs` IS the generated code of the
  message type `withExts md xs`, run on the declared fields followed by what the extension store holds
  (`extFields`).  The line protocol renders it exactly like that (`harness/gencheck/model.go`: `knownExtensions` in
  the order of the generator's `getExtensions`; card token `x` = `Card.explicit`, `l` = `Card.list`), and the
  correspondence check compares this model with the generated code on every corpus message that carries
  extensions (all kinds, singular and repeated, message-typed ones, three runtimes).

  The extension store itself is the runtime's; `Props/C12.lean` proves csproto's accessors coherent against an
  abstract map.  Here the store is that abstract map, with field states as values (`XStore`).

  Every theorem of C04–C08 quantifies over all message types, hence over `withExts md xs` too; the corollaries
  below spell out what that means for extensions.
-/
namespace Csproto.Ext
open Csproto Csproto.Gen

/-- the field descriptor the generated code's extension arms amount to -/
def extFD (num : Nat) (ty : Ty) (repeated : Bool) : FD :=
  { num := num, ty := ty, card := if repeated then .list else .explicit }

/-- a message type together with the extensions its generated code knows (visited last) -/
def withExts (md : MD) (xs : List FD) : MD := md ++ xs

/-- the runtime's extension store, abstractly: field number ↦ state -/
abbrev XStore := List (Nat × F)

def xget (s : XStore) (k : Nat) : F := ((s.find? (fun p => p.1 == k)).map (·.2)).getD .unset
def xset (s : XStore) (k : Nat) (f : F) : XStore := (k, f) :: s.filter (fun p => p.1 != k)
def xclear (s : XStore) (k : Nat) : XStore := s.filter (fun p => p.1 != k)

/-- `HasExtension` / `GetExtension` for every known extension, in the generator's order -/
def extFields (xs : List FD) (s : XStore) : List F := xs.map fun fd => xget s fd.num

theorem xget_set (s : XStore) (k : Nat) (f : F) : xget (xset s k f) k = f := by
  simp [xget, xset]

theorem xget_clear (s : XStore) (k : Nat) : xget (xclear s k) k = .unset := by
  have h : (xclear s k).find? (fun p => p.1 == k) = none := by
    simp only [xclear, List.find?_eq_none, List.mem_filter]
    intro p hp; simpa using hp.2
  simp [xget, h]

theorem xget_empty (k : Nat) : xget [] k = .unset := by simp [xget]

/-! ## C04 with extensions -/

/-- `Size()` = bytes written, for a message type with known extensions, whatever the store holds -/
theorem size_exact (S : Schema) (md : MD) (xs : List FD) (fs : List F) (s : XStore) (unk : Bytes) (ops : List EncOp)
    (hok : OKFields S (withExts md xs) (fs ++ extFields xs s))
    (ho : opsFields S (withExts md xs) (fs ++ extFields xs s) = .ok ops) :
    sizeFields S (withExts md xs) (fs ++ extFields xs s) + unk.length = (Gen.wiresOf (ops ++ [EncOp.raw unk])).length :=
  C04.size_exact S _ _ unk ops hok ho

/-- `MarshalTo` into a buffer of `Size()` bytes: no panic, exact fill — with extensions -/
theorem marshalTo_fills (S : Schema) (md : MD) (xs : List FD) (fs : List F) (s : XStore) (unk : Bytes) (ops : List EncOp)
    (hok : OKFields S (withExts md xs) (fs ++ extFields xs s))
    (ho : opsFields S (withExts md xs) (fs ++ extFields xs s) = .ok ops) :
    ∃ e, (Enc.new (sizeFields S (withExts md xs) (fs ++ extFields xs s) + unk.length)).run (ops ++ [EncOp.raw unk]) = .ok e ∧
      e.off = e.cap ∧ e.buf = Gen.wiresOf ops ++ unk := by
  obtain ⟨e, h1, h2, _, h4⟩ := C04.marshalTo_fills S _ _ unk ops hok ho
  exact ⟨e, h1, h2, h4⟩

/-! ## C05 / C12 with extensions: what is emitted -/

/-- an extension that was never set, or was cleared, contributes nothing to `Size()` and nothing to the bytes -/
theorem cleared_extension_emits_nothing (S : Schema) (num : Nat) (ty : Ty) (rep : Bool) (s : XStore) :
    opsField S (extFD num ty rep) (xget (xclear s num) num) = .ok [] ∧
    sizeField S (extFD num ty rep) (xget (xclear s num) num) = 0 := by
  rw [xget_clear]
  apply C05.unset_emits_nothing
  unfold extFD; cases rep <;> simp

theorem never_set_extension_emits_nothing (S : Schema) (num : Nat) (ty : Ty) (rep : Bool) :
    opsField S (extFD num ty rep) (xget [] num) = .ok [] ∧ sizeField S (extFD num ty rep) (xget [] num) = 0 := by
  rw [xget_empty]
  apply C05.unset_emits_nothing
  unfold extFD; cases rep <;> simp

/-- a singular scalar extension that is set is written whatever its value: zero, false and the empty string
    included (no default is suppressed, nothing is dropped) -/
theorem set_extension_always_emitted (S : Schema) (num : Nat) (k : SK) (v : V) (s : XStore) :
    opsField S (extFD num (.sc k) false) (xget (xset s num (.one v)) num) = .ok [scalarOp k num v] := by
  rw [xget_set]
  exact C05.explicit_always_emitted S num k v .explicit (Or.inl rfl)

/-- a repeated scalar extension is written one record per element, in order (B32) -/
theorem repeated_extension_one_record_per_element (S : Schema) (num : Nat) (k : SK) (vs : List V) (s : XStore) :
    opsField S (extFD num (.sc k) true) (xget (xset s num (.many vs)) num) = .ok (vs.map (scalarOp k num)) := by
  rw [xget_set]; simp [extFD, opsField]

/-- … and sized accordingly -/
theorem repeated_extension_size (S : Schema) (num : Nat) (k : SK) (vs : List V) :
    sizeField S (extFD num (.sc k) true) (.many vs) = sumSizes (scalarSize k num) vs := by
  simp [extFD, sizeField]

/-- the empty list is "not set": nothing is written -/
theorem empty_repeated_extension_emits_nothing (S : Schema) (num : Nat) (ty : Ty) :
    opsField S (extFD num ty true) (.many []) = .ok [] ∧ sizeField S (extFD num ty true) (.many []) = 0 :=
  C05.empty_list_emits_nothing S _

/-- `SetExtension(m, E_x, []T{})`: the store HOLDS an empty list (Gogo / golang v1 then answer `HasExtension` = true,
    google v2 answers false).  Whatever the descriptor's arm — one record per element (`Card.list`, what the templates
    do whatever the declaration says) or one packed record (`Card.packed`, what a `[packed=true]` declaration asks
    for) — nothing is written and nothing is counted: a list without elements is not on the wire, so `Size()` must not
    reserve a key and a length for it either.  (The harness sets every repeated extension a value does not carry to an
    empty non-nil list through the runtime's own `SetExtension`, on the message and on the messages nested in it;
    corpus schema `extpacked` declares one `[packed=true]` extension per packable kind.) -/
theorem set_to_empty_list_emits_nothing (S : Schema) (fd : FD) (s : XStore) :
    opsField S fd (xget (xset s fd.num (.many [])) fd.num) = .ok [] ∧
    sizeField S fd (xget (xset s fd.num (.many [])) fd.num) = 0 := by
  rw [xget_set]
  exact C05.empty_list_emits_nothing S fd

/-- … hence a message whose extension was set to the empty list marshals like one whose extension was cleared -/
theorem set_to_empty_list_like_cleared (S : Schema) (num : Nat) (ty : Ty) (s : XStore) :
    opsField S (extFD num ty true) (xget (xset s num (.many [])) num) = opsField S (extFD num ty true) (xget (xclear s num) num) ∧
    sizeField S (extFD num ty true) (xget (xset s num (.many [])) num) = sizeField S (extFD num ty true) (xget (xclear s num) num) := by
  have h1 := set_to_empty_list_emits_nothing S (extFD num ty true) s
  have h2 := cleared_extension_emits_nothing S num ty true s
  have hn : (extFD num ty true).num = num := rfl
  rw [hn] at h1
  exact ⟨h1.1.trans h2.1.symm, h1.2.trans h2.2.symm⟩

/-! ## C06 with extensions: round trip -/

/-- extension descriptors never break the schema conditions of the round-trip theorems -/
theorem extFD_card (num : Nat) (ty : Ty) (rep : Bool) :
    (extFD num ty rep).card ≠ .map ∧ (extFD num ty rep).card ≠ .always := by
  unfold extFD; cases rep <;> simp

/-- **round trip of a message with extensions** (any nesting depth, message-typed and repeated extensions
    included, unknown fields retained, either decoder mode): instance of `roundtrip_nested` at a message type
    of the form `withExts md xs` -/
theorem roundtrip (S : Schema) (hS : SchemaOK S) (fast : Bool) (i : Nat) (md : MD) (xs : List FD) (hmd : S.md i = withExts md xs)
    (fs : List F) (s : XStore) (urs : List Rec) (ops : List EncOp)
    (hwf : WFs S (withExts md xs) (fs ++ extFields xs s)) (hex : Excl (withExts md xs) (fs ++ extFields xs s))
    (hok : OKFields S (withExts md xs) (fs ++ extFields xs s))
    (hu : ∀ r ∈ urs, r.OK ∧ findField (withExts md xs) r.tag 0 = none)
    (ho : opsFields S (withExts md xs) (fs ++ extFields xs s) = .ok ops) :
    unmarshal S fast (withExts md xs) (Gen.wiresOf ops ++ Csproto.wiresOf urs)
      = .ok (canonFs S (withExts md xs) (fs ++ extFields xs s), Csproto.wiresOf urs) := by
  have := roundtrip_nested S hS fast i (fs ++ extFields xs s) urs ops (hmd ▸ hwf) (hmd ▸ hex) (hmd ▸ hok)
    (by intro r hr; rw [hmd]; exact hu r hr) (hmd ▸ ho)
  rw [hmd] at this; exact this

/-! ## non-vacuity: a concrete message type with a singular and a repeated extension -/

/-- `message Base { optional int32 id = 1; extensions 100 to 199; }`,
    `extend Base { optional bool flag = 100; repeated sint32 deltas = 101; }` -/
def exMD : MD := [⟨1, .sc .int32, .explicit⟩]
def exXs : List FD := [extFD 100 (.sc .bool) false, extFD 101 (.sc .sint32) true]
def exStore : XStore := xset (xset [] 100 (.one (.num 0))) 101 (.many [.num 1, .num 4294967295])

def exBytes (fs : List F) : Option Bytes :=
  match opsFields [exMD ++ exXs] (withExts exMD exXs) fs with
  | .ok ops => some (Gen.wiresOf ops)
  | _ => none

/-- id = 7, flag = false (set!), deltas = [1, -1]: `08 07 | a0 06 00 | a8 06 02 | a8 06 01`, and `Size()` = 11 -/
example : exBytes ([.one (.num 7)] ++ extFields exXs exStore)
      = some [0x08, 0x07, 0xa0, 0x06, 0x00, 0xa8, 0x06, 0x02, 0xa8, 0x06, 0x01] ∧
    sizeFields [exMD ++ exXs] (withExts exMD exXs) ([.one (.num 7)] ++ extFields exXs exStore) = 11 := by
  constructor
  · decide +kernel
  · rfl

/-- after `ClearExtension(flag)` the flag is gone from the bytes, the rest is untouched -/
example : exBytes ([.one (.num 7)] ++ extFields exXs (xclear exStore 100))
      = some [0x08, 0x07, 0xa8, 0x06, 0x02, 0xa8, 0x06, 0x01] := by decide +kernel

end Csproto.Ext
