import Csproto.Props.C03Source
import Csproto.Bridge.PackedFuncs
import Csproto.Bridge.SeekFuncs
/-
  C03 for the SOURCE, continued: `DecodeBool`, `Seek` and nine packed readers of the translated decoder.go RETURN for every
  buffer, in-range cursor and declared length — no statement panics, the loops terminate (fuel `len + 2`) — and leave the
  buffer field alone (`*_total`).  For the packed readers the cursor is deliberately not claimed to be restored on error:
  the Go code leaves it where the malformed element starts, and so does the model (`DecodePacked*_refines`).
-/
set_option linter.unusedSimpArgs false
set_option linter.unusedVariables false
set_option linter.unusedSectionVars false
namespace Csproto.C03.Source
open Csproto Csproto.Generated.WireFuncs Csproto.Bridge Csproto.Bridge.WireFuncs Csproto.Bridge.DecoderFuncs Csproto.Bridge.SkipFuncs
open Csproto.Bridge.PackedFuncs Csproto.Bridge.SeekFuncs

def Total {σ ρ : Type} (out : Go.Out σ (ρ × Go.Err)) (getp : σ → Bytes) (p : Bytes) : Prop :=
  ∃ r e s, out = .ret (r, e) s ∧ getp s = p

macro "total_from " h:term : tactic =>
  `(tactic| (obtain ⟨r, e, s, hr, hp, _⟩ := $h; exact ⟨r, e, s, hr, hp⟩))

variable (fuel : Nat) (hf : 11 ≤ fuel) (p : Bytes) (off mode ks ke : BitVec 64)
include hf

theorem DecodeBool_total (hp : p.length < 2 ^ 63) (hoff : off.toNat ≤ p.length) :
    Total (Decoder_DecodeBool fuel p off mode ks ke) (·.d_p) p := by
  total_from (DecodeBool_refines fuel hf p off mode ks ke false hp hoff)
theorem Seek_total (offset whence : BitVec 64) (hp : p.length < 2 ^ 63) (hoff : off.toNat ≤ p.length) :
    Total (Decoder_Seek fuel p off mode ks ke offset whence) (·.d_p) p := by
  total_from (Seek_refines fuel p off mode ks ke offset whence false hp hoff)
theorem DecodePackedUint64_total (hp : p.length < 2 ^ 62) (hfl : p.length + 2 ≤ fuel) (hoff : off.toNat ≤ p.length) :
    Total (Decoder_DecodePackedUint64 fuel p off mode ks ke) (·.d_p) p := by
  total_from (DecodePackedUint64_refines fuel hf p off mode ks ke false hp hfl hoff)
theorem DecodePackedInt64_total (hp : p.length < 2 ^ 62) (hfl : p.length + 2 ≤ fuel) (hoff : off.toNat ≤ p.length) :
    Total (Decoder_DecodePackedInt64 fuel p off mode ks ke) (·.d_p) p := by
  total_from (DecodePackedInt64_refines fuel hf p off mode ks ke false hp hfl hoff)
theorem DecodePackedUint32_total (hp : p.length < 2 ^ 62) (hfl : p.length + 2 ≤ fuel) (hoff : off.toNat ≤ p.length) :
    Total (Decoder_DecodePackedUint32 fuel p off mode ks ke) (·.d_p) p := by
  total_from (DecodePackedUint32_refines fuel hf p off mode ks ke false hp hfl hoff)
theorem DecodePackedInt32_total (hp : p.length < 2 ^ 62) (hfl : p.length + 2 ≤ fuel) (hoff : off.toNat ≤ p.length) :
    Total (Decoder_DecodePackedInt32 fuel p off mode ks ke) (·.d_p) p := by
  total_from (DecodePackedInt32_refines fuel hf p off mode ks ke false hp hfl hoff)
theorem DecodePackedSint64_total (hp : p.length < 2 ^ 62) (hfl : p.length + 2 ≤ fuel) (hoff : off.toNat ≤ p.length) :
    Total (Decoder_DecodePackedSint64 fuel p off mode ks ke) (·.d_p) p := by
  total_from (DecodePackedSint64_refines fuel hf p off mode ks ke false hp hfl hoff)
theorem DecodePackedSint32_total (hp : p.length < 2 ^ 62) (hfl : p.length + 2 ≤ fuel) (hoff : off.toNat ≤ p.length) :
    Total (Decoder_DecodePackedSint32 fuel p off mode ks ke) (·.d_p) p := by
  total_from (DecodePackedSint32_refines fuel hf p off mode ks ke false hp hfl hoff)
theorem DecodePackedFixed64_total (hp : p.length < 2 ^ 62) (hfl : p.length + 2 ≤ fuel) (hoff : off.toNat ≤ p.length) :
    Total (Decoder_DecodePackedFixed64 fuel p off mode ks ke) (·.d_p) p := by
  total_from (DecodePackedFixed64_refines fuel hf p off mode ks ke false hp hfl hoff)
theorem DecodePackedFixed32_total (hp : p.length < 2 ^ 62) (hfl : p.length + 2 ≤ fuel) (hoff : off.toNat ≤ p.length) :
    Total (Decoder_DecodePackedFixed32 fuel p off mode ks ke) (·.d_p) p := by
  total_from (DecodePackedFixed32_refines fuel hf p off mode ks ke false hp hfl hoff)
theorem DecodePackedBool_total (hp : p.length < 2 ^ 62) (hfl : p.length + 2 ≤ fuel) (hoff : off.toNat ≤ p.length) :
    Total (Decoder_DecodePackedBool fuel p off mode ks ke) (·.d_p) p := by
  total_from (DecodePackedBool_refines fuel hf p off mode ks ke false hp hfl hoff)

end Csproto.C03.Source
