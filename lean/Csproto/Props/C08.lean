import Csproto.Proofs.GenDec
import Csproto.Bridge.Templates
/-
  C08 — Generated Unmarshal is total on arbitrary bytes; no silent disagreement.

  * `unmarshal_total`   — for **every** schema, message type, byte string and decoder mode the generated
                          `Unmarshal` returns a message or an error: it never panics.  (It is built from
                          decoder calls only; C03 shows none of them can panic at an in-range cursor,
                          and every call leaves the cursor in range.)  Termination: the model is a total
                          function whose fuel the loop cannot exhaust (each iteration consumes a byte;
                          the model-vs-code correspondence would expose an exhausted fuel as a spurious
                          error).
  * `calls_are_bounded` — every decoder call the loop makes requests at most `2·len + 1` cells
                          (C03); the *total* over the loop is not proved here (see DESIGN: partial),
                          the harness samples `runtime.MemStats` around `Unmarshal`.
  * agreement with the reference whenever both accept: `Props/C06.lean` for well-formed encodings; for
    malformed-but-accepted inputs the clause is decided by the oracle run on the implementation
    (dynamicpb as the reference) — PARTIAL, see DESIGN §5 C08.
-/
namespace Csproto.C08
open Csproto Csproto.Gen

theorem unmarshal_total (S : Schema) (fast : Bool) (md : MD) (p : Bytes) :
    (∃ fs unk, unmarshal S fast md p = .ok (fs, unk)) ∨ unmarshal S fast md p = .err := by
  have := unmarshal_no_panic S fast md p
  cases h : unmarshal S fast md p with
  | ok r => exact Or.inl ⟨r.1, r.2, rfl⟩
  | err => exact Or.inr rfl
  | panic => exact absurd h this

/-- nested messages and map entries included: the parts of the loop, at any fuel and cursor -/
theorem parts_total (S : Schema) (fast : Bool) (fuel : Nat) (md : MD) (d : Dec) (fs : List F) (unk : Bytes)
    (hi : d.off ≤ d.len) : unmarshalLoop S fast fuel md d fs unk ≠ .panic :=
  (no_panic_aux S fast fuel).2.1 md d fs unk hi

theorem calls_are_bounded (d : Dec) (hi : d.off ≤ d.len) (op : DecOp) :
    (d.step op).2.2 ≤ 2 * d.len + 1 ∧ (d.step op).1.off ≤ (d.step op).1.len :=
  ⟨(C03.step_safe d hi op).alloc, (C03.step_safe d hi op).inv⟩

/-- non-vacuity: truncated, length-inflated and junk inputs on a nested schema end in an error -/
example : unmarshal [[⟨1, .msg 1, .list⟩, ⟨2, .sc .string, .implicit⟩], [⟨1, .sc .fixed32, .packed⟩]]
    false [⟨1, .msg 1, .list⟩, ⟨2, .sc .string, .implicit⟩] [0x0a, 0x05, 0x0a, 0xff, 0xff, 0xff, 0x0f] = .err := by rfl
example : unmarshal [[⟨2, .sc .string, .implicit⟩]] true [⟨2, .sc .string, .implicit⟩] [0x12, 0x80] = .err := by rfl

end Csproto.C08
