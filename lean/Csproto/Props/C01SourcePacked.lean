import Csproto.Props.C01Source
import Csproto.Bridge.PackedFuncs
import Csproto.Bridge.PackedEncFuncs
import Csproto.Props.C01
/-
  C01 for the SOURCE, packed repeated fields: `source_roundtrip_packed_uint64` — stated about the translated
  `(*Encoder).EncodePackedUInt64`, `(*Decoder).DecodeTag` and `(*Decoder).DecodePackedUint64` only (both loops of the
  writer, the reader's loop): whatever list the writer is given and wherever in whatever buffer it writes, if it returns
  then the reader returns the same field number, wire type 2 and the same list, and stops where the writer stopped.
  `source_roundtrip_packed_int32`: the same for `EncodePackedInt32` / `DecodePackedInt32`, negative elements (ten bytes each) included.
-/
set_option linter.unusedSimpArgs false
set_option linter.unusedVariables false
namespace Csproto.C01.Source
open Csproto Csproto.Generated.WireFuncs Csproto.Bridge Csproto.Bridge.WireFuncs Csproto.Bridge.DecoderFuncs Csproto.Bridge.EncoderFuncs
open Csproto.Bridge.PackedFuncs Csproto.Bridge.PackedEncFuncs

theorem map_toNat_inj : ∀ (a b : List (BitVec 64)), a.map (·.toNat) = b.map (·.toNat) → a = b
  | [], [], _ => rfl
  | [], _ :: _, h => by simp at h
  | _ :: _, [], h => by simp at h
  | x :: a, y :: b, h => by
    simp only [List.map_cons, List.cons.injEq] at h
    rw [BitVec.eq_of_toNat_eq h.1, map_toNat_inj a b h.2]

/-- **C01 for the source, packed repeated uint64 fields**: the bytes the source's `EncodePackedUInt64(tag, vs)` writes for a
    non-empty list are read back by the source's `DecodeTag` + `DecodePackedUint64` as the same field number, wire type 2 and
    the same list, consuming exactly what was written — any list length, any element values, any buffer and cursor. -/
theorem source_roundtrip_packed_uint64 (fuel : Nat) (hf : 11 ≤ fuel) (p : Bytes) (off tag mode ks ke : BitVec 64) (vs : List (BitVec 64))
    (hp : p.length < 2 ^ 62) (hfl : p.length + 2 ≤ fuel) (hoff : off.toNat ≤ p.length) (hvs : vs ≠ []) (hvl : vs.length < 2 ^ 59)
    (ht1 : 1 ≤ tag.toNat) (ht : tag.toNat ≤ 536870911)
    (se : Encoder_EncodePackedUInt64.St) (hret : Encoder_EncodePackedUInt64 fuel p off tag vs = .ret () se) :
    ∃ sd, Decoder_DecodeTag fuel se.e_p off mode ks ke = .ret (tag, 2#64, .nil) sd ∧
      ∃ sd2, Decoder_DecodePackedUint64 fuel sd.d_p sd.d_offset sd.d_mode sd.d_keyStart sd.d_keyEnd = .ret (vs, .nil) sd2 ∧
        sd2.d_offset = se.e_offset := by
  have htm : tag.toNat ≤ maxTagValue := ht
  have hp63 : p.length < 2 ^ 63 := by omega
  have hne : (vs.map (·.toNat)).isEmpty = false := by
    cases vs with
    | nil => exact absurd rfl hvs
    | cons _ _ => rfl
  obtain ⟨hfit, hbuf, hend⟩ := enc_returns (W := Encoder_EncodePackedUInt64 fuel p off tag vs) p off.toNat (.packedVarint tag.toNat (vs.map (·.toNat)))
    (·.e_p) (·.e_offset) (by simp [Enc.step, hne]) (EncodePackedUInt64_refines fuel (by omega) p off tag vs hp hoff hvl) se hret
  simp only [EncOp.wire, hne, Bool.false_eq_true, if_false] at hfit hbuf hend
  rw [sumSizes_flatten sizeOfVarint encVarint sizeOfVarint_eq_length] at hfit hbuf hend
  generalize hF : ((vs.map (·.toNat)).map encVarint).flatten = F at *
  simp only [List.length_append] at hfit hend
  simp only [List.append_assoc] at hbuf
  have hlenw : (writeAt p off.toNat (encTag tag.toNat wtLen ++ (encVarint F.length ++ F))).length = p.length :=
    writeAt_length (by simp only [List.length_append]; omega)
  -- DecodeTag
  have hat0 := decOf_at p off ks ke false (encTag tag.toNat wtLen ++ (encVarint F.length ++ F)) (by simp only [List.length_append]; omega)
  have hat : (decOf (writeAt p off.toNat (encTag tag.toNat wtLen ++ (encVarint F.length ++ F))) off ks ke false).At (p.take off.toNat)
      (encTag tag.toNat wtLen ++ (encVarint F.length ++ (F ++ p.drop (off.toNat + (encTag tag.toNat wtLen ++ (encVarint F.length ++ F)).length)))) := by
    simpa only [List.append_assoc] using hat0
  have htag := Dec.tag_at hat ht1 htm (by decide : wtLen < 8)
  obtain ⟨t, w, e, sd, hdt, hdp, hdm, hmatch⟩ := DecodeTag_refines fuel hf se.e_p off mode ks ke false
    (by rw [hbuf, hlenw]; exact hp63) (by rw [hbuf, hlenw]; exact hoff)
  simp only [hbuf] at hmatch hdt hdp
  rw [htag] at hmatch
  simp only [Dec.afterTag_off, Dec.afterTag_ks, Dec.afterTag_ke] at hmatch
  obtain ⟨he, htn, hwn, hso, hsks, hske⟩ := hmatch
  subst he
  have htq : tag = t := (bv_eq_of_toNat htn).symm
  have hwq : (2#64 : BitVec 64) = w := (bv_eq_of_toNat (by rw [hwn]; rfl)).symm
  subst htq; subst hwq
  refine ⟨sd, by rw [hbuf]; exact hdt, ?_⟩
  -- DecodePackedUint64
  have hat2 := hat.afterTag
  have hd2 : decOf sd.d_p sd.d_offset sd.d_keyStart sd.d_keyEnd false =
      (decOf (writeAt p off.toNat (encTag tag.toNat wtLen ++ (encVarint F.length ++ F))) off ks ke false).afterTag (encTag tag.toNat wtLen).length := by
    simp only [decOf, Dec.afterTag, hdp, hso, hsks, hske]
  have hmem : ∀ v ∈ vs.map (·.toNat), v < two64 := by
    intro v hv; simp only [List.mem_map] at hv; obtain ⟨x, _, rfl⟩ := hv; rw [two64_eq]; exact x.isLt
  obtain ⟨a, hpk⟩ := Dec.packed_at (d := decOf sd.d_p sd.d_offset sd.d_keyStart sd.d_keyEnd false) (pre := p.take off.toNat ++ encTag tag.toNat wtLen)
    (post := p.drop (off.toNat + (encTag tag.toNat wtLen ++ (encVarint F.length ++ F)).length)) elVarint encVarint .nats (vs.map (·.toNat)) none
    (fun v hv rest => elVarint_enc v (hmem v hv) rest) (fun v _ => encVarint_length_pos v)
    (by rw [hF]; unfold two64; omega) (by rw [hd2, hF]; simpa [List.append_assoc] using hat2)
  obtain ⟨R, e2, sd2, hdu, _, _, _, _, hm2⟩ := DecodePackedUint64_refines fuel hf sd.d_p sd.d_offset sd.d_mode sd.d_keyStart sd.d_keyEnd false
    (by rw [hdp, hlenw]; exact hp) (by rw [hdp, hlenw]; exact hfl) (by rw [hdp, hlenw, hso]; simp [decOf]; omega)
  simp only [Dec.step, hpk] at hm2
  obtain ⟨he2, hR, ho2⟩ := hm2
  subst he2
  have hRq : vs = R := (map_toNat_inj R vs hR).symm
  subst hRq
  refine ⟨sd2, hdu, bv_eq_of_toNat ?_⟩
  rw [ho2, hend, hF]
  simp [decOf, hso]
  omega

theorem map_toInt_inj32 : ∀ (a b : List (BitVec 32)), a.map (·.toInt) = b.map (·.toInt) → a = b
  | [], [], _ => rfl
  | [], _ :: _, h => by simp at h
  | _ :: _, [], h => by simp at h
  | x :: a, y :: b, h => by
    simp only [List.map_cons, List.cons.injEq] at h
    rw [BitVec.eq_of_toInt_eq h.1, map_toInt_inj32 a b h.2]

theorem toNat_eq_toU64 (w : BitVec 64) : w.toNat = toU64 w.toInt := by
  have := w.isLt
  unfold toU64 two64
  rw [BitVec.toInt_eq_toNat_cond]
  split <;> omega

theorem signExt_toU64 (v : BitVec 32) : (BitVec.signExtend 64 v).toNat = toU64 v.toInt := by
  rw [toNat_eq_toU64, BitVec.toInt_signExtend_of_le (by omega)]

/-- **C01 for the source, packed repeated int32 fields (negative elements included)**: what the source's
    `EncodePackedInt32(tag, vs)` writes — every negative element sign-extended to ten bytes, and counted as ten bytes in the
    length prefix — is read back by the source's `DecodeTag` + `DecodePackedInt32` as the same list. -/
theorem source_roundtrip_packed_int32 (fuel : Nat) (hf : 11 ≤ fuel) (p : Bytes) (off tag mode ks ke : BitVec 64) (vs : List (BitVec 32))
    (hp : p.length < 2 ^ 62) (hfl : p.length + 2 ≤ fuel) (hoff : off.toNat ≤ p.length) (hvs : vs ≠ []) (hvl : vs.length < 2 ^ 59)
    (ht1 : 1 ≤ tag.toNat) (ht : tag.toNat ≤ 536870911)
    (se : Encoder_EncodePackedInt32.St) (hret : Encoder_EncodePackedInt32 fuel p off tag vs = .ret () se) :
    ∃ sd, Decoder_DecodeTag fuel se.e_p off mode ks ke = .ret (tag, 2#64, .nil) sd ∧
      ∃ sd2, Decoder_DecodePackedInt32 fuel sd.d_p sd.d_offset sd.d_mode sd.d_keyStart sd.d_keyEnd = .ret (vs, .nil) sd2 ∧
        sd2.d_offset = se.e_offset := by
  have htm : tag.toNat ≤ maxTagValue := ht
  have hp63 : p.length < 2 ^ 63 := by omega
  have hne : (vs.map (fun v => (BitVec.signExtend 64 v).toNat)).isEmpty = false := by
    cases vs with
    | nil => exact absurd rfl hvs
    | cons _ _ => rfl
  obtain ⟨hfit, hbuf, hend⟩ := enc_returns (W := Encoder_EncodePackedInt32 fuel p off tag vs) p off.toNat
    (.packedVarint tag.toNat (vs.map (fun v => (BitVec.signExtend 64 v).toNat)))
    (·.e_p) (·.e_offset) (by simp [Enc.step, hne]) (EncodePackedInt32_refines fuel (by omega) p off tag vs hp hoff hvl) se hret
  simp only [EncOp.wire, hne, Bool.false_eq_true, if_false] at hfit hbuf hend
  rw [sumSizes_flatten sizeOfVarint encVarint sizeOfVarint_eq_length] at hfit hbuf hend
  have hmapeq : (vs.map (fun v => (BitVec.signExtend 64 v).toNat)).map encVarint = (vs.map (·.toInt)).map (fun i => encVarint (toU64 i)) := by
    simp only [List.map_map]; apply List.map_congr_left; intro v _; simp [signExt_toU64]
  rw [hmapeq] at hfit hbuf hend
  generalize hF : ((vs.map (·.toInt)).map (fun i => encVarint (toU64 i))).flatten = F at *
  simp only [List.length_append] at hfit hend
  simp only [List.append_assoc] at hbuf
  have hlenw : (writeAt p off.toNat (encTag tag.toNat wtLen ++ (encVarint F.length ++ F))).length = p.length :=
    writeAt_length (by simp only [List.length_append]; omega)
  have hat0 := decOf_at p off ks ke false (encTag tag.toNat wtLen ++ (encVarint F.length ++ F)) (by simp only [List.length_append]; omega)
  have hat : (decOf (writeAt p off.toNat (encTag tag.toNat wtLen ++ (encVarint F.length ++ F))) off ks ke false).At (p.take off.toNat)
      (encTag tag.toNat wtLen ++ (encVarint F.length ++ (F ++ p.drop (off.toNat + (encTag tag.toNat wtLen ++ (encVarint F.length ++ F)).length)))) := by
    simpa only [List.append_assoc] using hat0
  have htag := Dec.tag_at hat ht1 htm (by decide : wtLen < 8)
  obtain ⟨t, w, e, sd, hdt, hdp, hdm, hmatch⟩ := DecodeTag_refines fuel hf se.e_p off mode ks ke false
    (by rw [hbuf, hlenw]; exact hp63) (by rw [hbuf, hlenw]; exact hoff)
  simp only [hbuf] at hmatch hdt hdp
  rw [htag] at hmatch
  simp only [Dec.afterTag_off, Dec.afterTag_ks, Dec.afterTag_ke] at hmatch
  obtain ⟨he, htn, hwn, hso, hsks, hske⟩ := hmatch
  subst he
  have htq : tag = t := (bv_eq_of_toNat htn).symm
  have hwq : (2#64 : BitVec 64) = w := (bv_eq_of_toNat (by rw [hwn]; rfl)).symm
  subst htq; subst hwq
  refine ⟨sd, by rw [hbuf]; exact hdt, ?_⟩
  have hat2 := hat.afterTag
  have hd2 : decOf sd.d_p sd.d_offset sd.d_keyStart sd.d_keyEnd false =
      (decOf (writeAt p off.toNat (encTag tag.toNat wtLen ++ (encVarint F.length ++ F))) off ks ke false).afterTag (encTag tag.toNat wtLen).length := by
    simp only [decOf, Dec.afterTag, hdp, hso, hsks, hske]
  have hmem : ∀ i ∈ vs.map (·.toInt), InI32 i := by
    intro i hi; simp only [List.mem_map] at hi; obtain ⟨x, _, rfl⟩ := hi; exact inI32_toInt x
  obtain ⟨a, hpk⟩ := Dec.packed_at (d := decOf sd.d_p sd.d_offset sd.d_keyStart sd.d_keyEnd false) (pre := p.take off.toNat ++ encTag tag.toNat wtLen)
    (post := p.drop (off.toNat + (encTag tag.toNat wtLen ++ (encVarint F.length ++ F)).length)) elInt32 (fun i => encVarint (toU64 i)) .ints (vs.map (·.toInt)) none
    (fun i hi rest => elInt32_enc i (hmem i hi) rest) (fun i _ => encVarint_length_pos _)
    (by rw [hF]; unfold two64; omega) (by rw [hd2, hF]; simpa [List.append_assoc] using hat2)
  obtain ⟨R, e2, sd2, hdu, _, _, _, _, hm2⟩ := DecodePackedInt32_refines fuel hf sd.d_p sd.d_offset sd.d_mode sd.d_keyStart sd.d_keyEnd false
    (by rw [hdp, hlenw]; exact hp) (by rw [hdp, hlenw]; exact hfl) (by rw [hdp, hlenw, hso]; simp [decOf]; omega)
  simp only [Dec.step, hpk] at hm2
  obtain ⟨he2, hR, ho2⟩ := hm2
  subst he2
  have hRq : vs = R := (map_toInt_inj32 R vs hR).symm
  subst hRq
  refine ⟨sd2, hdu, bv_eq_of_toNat ?_⟩
  rw [ho2, hend, hF]
  simp [decOf, hso]
  omega

/-- **C01 for the source, bytes / string fields**: if the source's `EncodeBytes(tag, v)` returns and its cursor is still inside
    the buffer (the payload is copied with `copy`, which truncates silently when the buffer is short — then the cursor ends
    beyond the buffer), the source's `DecodeTag` + `DecodeBytes` return the same field number, wire type 2 and exactly `v`
    (up to the 2^31-1 bytes the decoder accepts), and stop where the writer stopped. -/
theorem source_roundtrip_bytes (fuel : Nat) (hf : 11 ≤ fuel) (p : Bytes) (off tag mode ks ke : BitVec 64) (v : Bytes)
    (hp : p.length < 2 ^ 62) (hoff : off.toNat ≤ p.length) (hv : v.length ≤ 2147483647)
    (ht1 : 1 ≤ tag.toNat) (ht : tag.toNat ≤ 536870911)
    (se : Encoder_EncodeBytes.St) (hret : Encoder_EncodeBytes fuel p off tag v = .ret () se) (hroom : se.e_offset.toNat ≤ p.length) :
    ∃ sd, Decoder_DecodeTag fuel se.e_p off mode ks ke = .ret (tag, 2#64, .nil) sd ∧
      ∃ sd2, Decoder_DecodeBytes fuel sd.d_p sd.d_offset sd.d_mode sd.d_keyStart sd.d_keyEnd = .ret (v, .nil) sd2 ∧
        sd2.d_offset = se.e_offset := by
  have htm : tag.toNat ≤ maxTagValue := ht
  have hp63 : p.length < 2 ^ 63 := by omega
  have hvm : v.length ≤ maxFieldLen := hv
  generalize hT : encTag tag.toNat wtLen = T
  generalize hL : encVarint v.length = L
  -- what the returning encoder call left
  have href := EncodeBytes_refines fuel (by omega) p off tag v hp (by omega) hoff
  simp only [Enc.step, hT, hL, Bind.bind, Res.bind] at href
  have hfit : off.toNat + T.length + L.length + v.length ≤ p.length ∧ se.e_p = writeAt p off.toNat (T ++ (L ++ v)) ∧
      se.e_offset.toNat = off.toNat + T.length + L.length + v.length := by
    by_cases h1 : off.toNat + T.length ≤ p.length
    · rw [store_ok p off.toNat T h1] at href
      simp only at href
      have hlen1 : (writeAt p off.toNat T).length = p.length := writeAt_length h1
      by_cases h2 : off.toNat + T.length + L.length ≤ p.length
      · rw [store_ok (writeAt p off.toNat T) (off.toNat + T.length) L (by rw [hlen1]; exact h2)] at href
        have hlen2 : (writeAt (writeAt p off.toNat T) (off.toNat + T.length) L).length = p.length := by
          rw [writeAt_length (by rw [hlen1]; exact h2), hlen1]
        simp only [Enc.copy, Enc.copyAdv, Enc.cap, hlen2, h2, if_true, EncOut.ofRes] at href
        obtain ⟨s, hs, e1, e2⟩ := href
        rw [hret] at hs; cases hs
        have h3 : off.toNat + T.length + L.length + v.length ≤ p.length := by rw [e2] at hroom; exact hroom
        refine ⟨h3, ?_, e2⟩
        rw [e1, List.take_of_length_le (by omega), writeAt_writeAt p off.toNat T L h2]
        have : off.toNat + T.length + L.length = off.toNat + (T ++ L).length := by simp only [List.length_append]; omega
        rw [this, writeAt_writeAt p off.toNat (T ++ L) v (by simp only [List.length_append]; omega), List.append_assoc]
      · rw [store_panic (writeAt p off.toNat T) (off.toNat + T.length) L (by rw [hlen1]; exact h2)] at href
        simp only [EncOut.ofRes] at href
        rw [hret] at href; cases href
    · rw [store_panic p off.toNat T h1] at href
      simp only [EncOut.ofRes] at href
      rw [hret] at href; cases href
  obtain ⟨h3, hbuf, hend⟩ := hfit
  have hlenw : (writeAt p off.toNat (T ++ (L ++ v))).length = p.length := writeAt_length (by simp only [List.length_append]; omega)
  -- DecodeTag
  have hat0 := decOf_at p off ks ke false (T ++ (L ++ v)) (by simp only [List.length_append]; omega)
  have hat : (decOf (writeAt p off.toNat (T ++ (L ++ v))) off ks ke false).At (p.take off.toNat)
      (encTag tag.toNat wtLen ++ (L ++ (v ++ p.drop (off.toNat + (T ++ (L ++ v)).length)))) := by
    rw [hT]; simpa only [List.append_assoc] using hat0
  have htag := Dec.tag_at hat ht1 htm (by decide : wtLen < 8)
  rw [hT] at htag
  obtain ⟨t, w, e, sd, hdt, hdp, hdm, hmatch⟩ := DecodeTag_refines fuel hf se.e_p off mode ks ke false
    (by rw [hbuf, hlenw]; exact hp63) (by rw [hbuf, hlenw]; exact hoff)
  simp only [hbuf] at hmatch hdt hdp
  rw [htag] at hmatch
  simp only [Dec.afterTag_off, Dec.afterTag_ks, Dec.afterTag_ke] at hmatch
  obtain ⟨he, htn, hwn, hso, hsks, hske⟩ := hmatch
  subst he
  have htq : tag = t := (bv_eq_of_toNat htn).symm
  have hwq : (2#64 : BitVec 64) = w := (bv_eq_of_toNat (by rw [hwn]; rfl)).symm
  subst htq; subst hwq
  refine ⟨sd, by rw [hbuf]; exact hdt, ?_⟩
  -- DecodeBytes
  have hat2 := hat.afterTag
  rw [hT] at hat2
  have hd2 : decOf sd.d_p sd.d_offset sd.d_keyStart sd.d_keyEnd false =
      (decOf (writeAt p off.toNat (T ++ (L ++ v))) off ks ke false).afterTag T.length := by
    simp only [decOf, Dec.afterTag, hdp, hso, hsks, hske]
  have hb := Dec.bytes_at (d := decOf sd.d_p sd.d_offset sd.d_keyStart sd.d_keyEnd false) (pre := p.take off.toNat ++ T) (body := v)
    (post := p.drop (off.toNat + (T ++ (L ++ v)).length)) (by rw [hd2, hL]; simpa [List.append_assoc] using hat2) hvm
  obtain ⟨x, e2, sd2, hdu, _, _, _, _, hm2⟩ := DecodeBytes_refines fuel hf sd.d_p sd.d_offset sd.d_mode sd.d_keyStart sd.d_keyEnd false
    (by rw [hdp, hlenw]; exact hp) (by rw [hdp, hlenw, hso]; simp [decOf]; omega)
  simp only [Dec.step, withAlloc, hb] at hm2
  obtain ⟨he2, hx, ho2⟩ := hm2
  subst he2; subst hx
  refine ⟨sd2, hdu, bv_eq_of_toNat ?_⟩
  rw [ho2, hend, hL]
  simp [decOf, hso]
  omega

theorem map_toInt_inj64 : ∀ (a b : List (BitVec 64)), a.map (·.toInt) = b.map (·.toInt) → a = b
  | [], [], _ => rfl
  | [], _ :: _, h => by simp at h
  | _ :: _, [], h => by simp at h
  | x :: a, y :: b, h => by
    simp only [List.map_cons, List.cons.injEq] at h
    rw [BitVec.eq_of_toInt_eq h.1, map_toInt_inj64 a b h.2]

/-- **C01 for the source, packed repeated sint64 fields (zig-zag)**: the bytes the source's `EncodePackedSInt64(tag, vs)` writes for a
    non-empty list are read back by the source's `DecodeTag` + `DecodePackedSint64` as the same field number, wire type 2 and
    the same list of int64 values (negative ones included), consuming exactly what was written. -/
theorem source_roundtrip_packed_sint64 (fuel : Nat) (hf : 11 ≤ fuel) (p : Bytes) (off tag mode ks ke : BitVec 64) (vs : List (BitVec 64))
    (hp : p.length < 2 ^ 62) (hfl : p.length + 2 ≤ fuel) (hoff : off.toNat ≤ p.length) (hvs : vs ≠ []) (hvl : vs.length < 2 ^ 59)
    (ht1 : 1 ≤ tag.toNat) (ht : tag.toNat ≤ 536870911)
    (se : Encoder_EncodePackedSInt64.St) (hret : Encoder_EncodePackedSInt64 fuel p off tag vs = .ret () se) :
    ∃ sd, Decoder_DecodeTag fuel se.e_p off mode ks ke = .ret (tag, 2#64, .nil) sd ∧
      ∃ sd2, Decoder_DecodePackedSint64 fuel sd.d_p sd.d_offset sd.d_mode sd.d_keyStart sd.d_keyEnd = .ret (vs, .nil) sd2 ∧
        sd2.d_offset = se.e_offset := by
  have htm : tag.toNat ≤ maxTagValue := ht
  have hp63 : p.length < 2 ^ 63 := by omega
  have hne : (vs.map (·.toInt)).isEmpty = false := by
    cases vs with
    | nil => exact absurd rfl hvs
    | cons _ _ => rfl
  obtain ⟨hfit, hbuf, hend⟩ := enc_returns (W := Encoder_EncodePackedSInt64 fuel p off tag vs) p off.toNat (.packedZigzag64 tag.toNat (vs.map (·.toInt)))
    (·.e_p) (·.e_offset) (by simp [Enc.step, hne]) (EncodePackedSInt64_refines fuel (by omega) p off tag vs hp hoff hvl) se hret
  simp only [EncOp.wire, hne, Bool.false_eq_true, if_false] at hfit hbuf hend
  rw [sumSizes_flatten sizeOfZigZag encZigZag64 (fun i => (sizeOfZigZag_exact i).1)] at hfit hbuf hend
  generalize hF : ((vs.map (·.toInt)).map encZigZag64).flatten = F at *
  simp only [List.length_append] at hfit hend
  simp only [List.append_assoc] at hbuf
  have hlenw : (writeAt p off.toNat (encTag tag.toNat wtLen ++ (encVarint F.length ++ F))).length = p.length :=
    writeAt_length (by simp only [List.length_append]; omega)
  -- DecodeTag
  have hat0 := decOf_at p off ks ke false (encTag tag.toNat wtLen ++ (encVarint F.length ++ F)) (by simp only [List.length_append]; omega)
  have hat : (decOf (writeAt p off.toNat (encTag tag.toNat wtLen ++ (encVarint F.length ++ F))) off ks ke false).At (p.take off.toNat)
      (encTag tag.toNat wtLen ++ (encVarint F.length ++ (F ++ p.drop (off.toNat + (encTag tag.toNat wtLen ++ (encVarint F.length ++ F)).length)))) := by
    simpa only [List.append_assoc] using hat0
  have htag := Dec.tag_at hat ht1 htm (by decide : wtLen < 8)
  obtain ⟨t, w, e, sd, hdt, hdp, hdm, hmatch⟩ := DecodeTag_refines fuel hf se.e_p off mode ks ke false
    (by rw [hbuf, hlenw]; exact hp63) (by rw [hbuf, hlenw]; exact hoff)
  simp only [hbuf] at hmatch hdt hdp
  rw [htag] at hmatch
  simp only [Dec.afterTag_off, Dec.afterTag_ks, Dec.afterTag_ke] at hmatch
  obtain ⟨he, htn, hwn, hso, hsks, hske⟩ := hmatch
  subst he
  have htq : tag = t := (bv_eq_of_toNat htn).symm
  have hwq : (2#64 : BitVec 64) = w := (bv_eq_of_toNat (by rw [hwn]; rfl)).symm
  subst htq; subst hwq
  refine ⟨sd, by rw [hbuf]; exact hdt, ?_⟩
  -- DecodePackedSint64
  have hat2 := hat.afterTag
  have hd2 : decOf sd.d_p sd.d_offset sd.d_keyStart sd.d_keyEnd false =
      (decOf (writeAt p off.toNat (encTag tag.toNat wtLen ++ (encVarint F.length ++ F))) off ks ke false).afterTag (encTag tag.toNat wtLen).length := by
    simp only [decOf, Dec.afterTag, hdp, hso, hsks, hske]
  have hmem : ∀ i ∈ vs.map (·.toInt), InI64 i := by
    intro i hi; simp only [List.mem_map] at hi; obtain ⟨x, _, rfl⟩ := hi; exact inI64_toInt x
  obtain ⟨a, hpk⟩ := Dec.packed_at (d := decOf sd.d_p sd.d_offset sd.d_keyStart sd.d_keyEnd false) (pre := p.take off.toNat ++ encTag tag.toNat wtLen)
    (post := p.drop (off.toNat + (encTag tag.toNat wtLen ++ (encVarint F.length ++ F)).length)) elSint64 encZigZag64 .ints (vs.map (·.toInt)) none
    (fun i hi rest => elSint64_enc i (hmem i hi) rest) (fun i _ => by unfold encZigZag64; exact encVarint_length_pos _)
    (by rw [hF]; unfold two64; omega) (by rw [hd2, hF]; simpa [List.append_assoc] using hat2)
  obtain ⟨R, e2, sd2, hdu, _, _, _, _, hm2⟩ := DecodePackedSint64_refines fuel hf sd.d_p sd.d_offset sd.d_mode sd.d_keyStart sd.d_keyEnd false
    (by rw [hdp, hlenw]; exact hp) (by rw [hdp, hlenw]; exact hfl) (by rw [hdp, hlenw, hso]; simp [decOf]; omega)
  simp only [Dec.step, hpk] at hm2
  obtain ⟨he2, hR, ho2⟩ := hm2
  subst he2
  have hRq : vs = R := (map_toInt_inj64 R vs hR).symm
  subst hRq
  refine ⟨sd2, hdu, bv_eq_of_toNat ?_⟩
  rw [ho2, hend, hF]
  simp [decOf, hso]
  omega


/-- **C01 for the source, packed repeated int64 fields (negative elements included)**: what the source's
    `EncodePackedInt64(tag, vs)` writes — negative elements as ten bytes — is read back by the source's `DecodeTag` + `DecodePackedInt64` as the same list. -/
theorem source_roundtrip_packed_int64 (fuel : Nat) (hf : 11 ≤ fuel) (p : Bytes) (off tag mode ks ke : BitVec 64) (vs : List (BitVec 64))
    (hp : p.length < 2 ^ 62) (hfl : p.length + 2 ≤ fuel) (hoff : off.toNat ≤ p.length) (hvs : vs ≠ []) (hvl : vs.length < 2 ^ 59)
    (ht1 : 1 ≤ tag.toNat) (ht : tag.toNat ≤ 536870911)
    (se : Encoder_EncodePackedInt64.St) (hret : Encoder_EncodePackedInt64 fuel p off tag vs = .ret () se) :
    ∃ sd, Decoder_DecodeTag fuel se.e_p off mode ks ke = .ret (tag, 2#64, .nil) sd ∧
      ∃ sd2, Decoder_DecodePackedInt64 fuel sd.d_p sd.d_offset sd.d_mode sd.d_keyStart sd.d_keyEnd = .ret (vs, .nil) sd2 ∧
        sd2.d_offset = se.e_offset := by
  have htm : tag.toNat ≤ maxTagValue := ht
  have hp63 : p.length < 2 ^ 63 := by omega
  have hne : (vs.map (·.toNat)).isEmpty = false := by
    cases vs with
    | nil => exact absurd rfl hvs
    | cons _ _ => rfl
  obtain ⟨hfit, hbuf, hend⟩ := enc_returns (W := Encoder_EncodePackedInt64 fuel p off tag vs) p off.toNat
    (.packedVarint tag.toNat (vs.map (·.toNat)))
    (·.e_p) (·.e_offset) (by simp [Enc.step, hne]) (EncodePackedInt64_refines fuel (by omega) p off tag vs hp hoff hvl) se hret
  simp only [EncOp.wire, hne, Bool.false_eq_true, if_false] at hfit hbuf hend
  rw [sumSizes_flatten sizeOfVarint encVarint sizeOfVarint_eq_length] at hfit hbuf hend
  have hmapeq : (vs.map (·.toNat)).map encVarint = (vs.map (·.toInt)).map (fun i => encVarint (toU64 i)) := by
    simp only [List.map_map]; apply List.map_congr_left; intro v _; simp [toNat_eq_toU64]
  rw [hmapeq] at hfit hbuf hend
  generalize hF : ((vs.map (·.toInt)).map (fun i => encVarint (toU64 i))).flatten = F at *
  simp only [List.length_append] at hfit hend
  simp only [List.append_assoc] at hbuf
  have hlenw : (writeAt p off.toNat (encTag tag.toNat wtLen ++ (encVarint F.length ++ F))).length = p.length :=
    writeAt_length (by simp only [List.length_append]; omega)
  have hat0 := decOf_at p off ks ke false (encTag tag.toNat wtLen ++ (encVarint F.length ++ F)) (by simp only [List.length_append]; omega)
  have hat : (decOf (writeAt p off.toNat (encTag tag.toNat wtLen ++ (encVarint F.length ++ F))) off ks ke false).At (p.take off.toNat)
      (encTag tag.toNat wtLen ++ (encVarint F.length ++ (F ++ p.drop (off.toNat + (encTag tag.toNat wtLen ++ (encVarint F.length ++ F)).length)))) := by
    simpa only [List.append_assoc] using hat0
  have htag := Dec.tag_at hat ht1 htm (by decide : wtLen < 8)
  obtain ⟨t, w, e, sd, hdt, hdp, hdm, hmatch⟩ := DecodeTag_refines fuel hf se.e_p off mode ks ke false
    (by rw [hbuf, hlenw]; exact hp63) (by rw [hbuf, hlenw]; exact hoff)
  simp only [hbuf] at hmatch hdt hdp
  rw [htag] at hmatch
  simp only [Dec.afterTag_off, Dec.afterTag_ks, Dec.afterTag_ke] at hmatch
  obtain ⟨he, htn, hwn, hso, hsks, hske⟩ := hmatch
  subst he
  have htq : tag = t := (bv_eq_of_toNat htn).symm
  have hwq : (2#64 : BitVec 64) = w := (bv_eq_of_toNat (by rw [hwn]; rfl)).symm
  subst htq; subst hwq
  refine ⟨sd, by rw [hbuf]; exact hdt, ?_⟩
  have hat2 := hat.afterTag
  have hd2 : decOf sd.d_p sd.d_offset sd.d_keyStart sd.d_keyEnd false =
      (decOf (writeAt p off.toNat (encTag tag.toNat wtLen ++ (encVarint F.length ++ F))) off ks ke false).afterTag (encTag tag.toNat wtLen).length := by
    simp only [decOf, Dec.afterTag, hdp, hso, hsks, hske]
  have hmem : ∀ i ∈ vs.map (·.toInt), InI64 i := by
    intro i hi; simp only [List.mem_map] at hi; obtain ⟨x, _, rfl⟩ := hi; exact inI64_toInt x
  obtain ⟨a, hpk⟩ := Dec.packed_at (d := decOf sd.d_p sd.d_offset sd.d_keyStart sd.d_keyEnd false) (pre := p.take off.toNat ++ encTag tag.toNat wtLen)
    (post := p.drop (off.toNat + (encTag tag.toNat wtLen ++ (encVarint F.length ++ F)).length)) elInt64 (fun i => encVarint (toU64 i)) .ints (vs.map (·.toInt)) none
    (fun i hi rest => elInt64_enc i (hmem i hi) rest) (fun i _ => encVarint_length_pos _)
    (by rw [hF]; unfold two64; omega) (by rw [hd2, hF]; simpa [List.append_assoc] using hat2)
  obtain ⟨R, e2, sd2, hdu, _, _, _, _, hm2⟩ := DecodePackedInt64_refines fuel hf sd.d_p sd.d_offset sd.d_mode sd.d_keyStart sd.d_keyEnd false
    (by rw [hdp, hlenw]; exact hp) (by rw [hdp, hlenw]; exact hfl) (by rw [hdp, hlenw, hso]; simp [decOf]; omega)
  simp only [Dec.step, hpk] at hm2
  obtain ⟨he2, hR, ho2⟩ := hm2
  subst he2
  have hRq : vs = R := (map_toInt_inj64 R vs hR).symm
  subst hRq
  refine ⟨sd2, hdu, bv_eq_of_toNat ?_⟩
  rw [ho2, hend, hF]
  simp [decOf, hso]
  omega


theorem map_toNat_inj32 : ∀ (a b : List (BitVec 32)), a.map (·.toNat) = b.map (·.toNat) → a = b
  | [], [], _ => rfl
  | [], _ :: _, h => by simp at h
  | _ :: _, [], h => by simp at h
  | x :: a, y :: b, h => by
    simp only [List.map_cons, List.cons.injEq] at h
    rw [BitVec.eq_of_toNat_eq h.1, map_toNat_inj32 a b h.2]

/-- **C01 for the source, packed repeated uint32 fields**: the bytes the source's `EncodePackedUInt32(tag, vs)` writes for a
    non-empty list are read back by the source's `DecodeTag` + `DecodePackedUint32` as the same field number, wire type 2 and
    the same list, consuming exactly what was written — any list length, any element values, any buffer and cursor. -/
theorem source_roundtrip_packed_uint32 (fuel : Nat) (hf : 11 ≤ fuel) (p : Bytes) (off tag mode ks ke : BitVec 64) (vs : List (BitVec 32))
    (hp : p.length < 2 ^ 62) (hfl : p.length + 2 ≤ fuel) (hoff : off.toNat ≤ p.length) (hvs : vs ≠ []) (hvl : vs.length < 2 ^ 59)
    (ht1 : 1 ≤ tag.toNat) (ht : tag.toNat ≤ 536870911)
    (se : Encoder_EncodePackedUInt32.St) (hret : Encoder_EncodePackedUInt32 fuel p off tag vs = .ret () se) :
    ∃ sd, Decoder_DecodeTag fuel se.e_p off mode ks ke = .ret (tag, 2#64, .nil) sd ∧
      ∃ sd2, Decoder_DecodePackedUint32 fuel sd.d_p sd.d_offset sd.d_mode sd.d_keyStart sd.d_keyEnd = .ret (vs, .nil) sd2 ∧
        sd2.d_offset = se.e_offset := by
  have htm : tag.toNat ≤ maxTagValue := ht
  have hp63 : p.length < 2 ^ 63 := by omega
  have hne : (vs.map (fun v => (BitVec.setWidth 64 v).toNat)).isEmpty = false := by
    cases vs with
    | nil => exact absurd rfl hvs
    | cons _ _ => rfl
  obtain ⟨hfit, hbuf, hend⟩ := enc_returns (W := Encoder_EncodePackedUInt32 fuel p off tag vs) p off.toNat (.packedVarint tag.toNat (vs.map (fun v => (BitVec.setWidth 64 v).toNat)))
    (·.e_p) (·.e_offset) (by simp [Enc.step, hne, hvs]) (EncodePackedUInt32_refines fuel (by omega) p off tag vs hp hoff hvl) se hret
  simp only [EncOp.wire, hne, Bool.false_eq_true, if_false] at hfit hbuf hend
  rw [sumSizes_flatten sizeOfVarint encVarint sizeOfVarint_eq_length] at hfit hbuf hend
  have hmapeq : vs.map (fun v => (BitVec.setWidth 64 v).toNat) = vs.map (·.toNat) := by
    apply List.map_congr_left; intro v _; simp [BitVec.toNat_setWidth]; have := v.isLt; omega
  rw [hmapeq] at hfit hbuf hend
  generalize hF : ((vs.map (·.toNat)).map encVarint).flatten = F at *
  simp only [List.length_append] at hfit hend
  simp only [List.append_assoc] at hbuf
  have hlenw : (writeAt p off.toNat (encTag tag.toNat wtLen ++ (encVarint F.length ++ F))).length = p.length :=
    writeAt_length (by simp only [List.length_append]; omega)
  -- DecodeTag
  have hat0 := decOf_at p off ks ke false (encTag tag.toNat wtLen ++ (encVarint F.length ++ F)) (by simp only [List.length_append]; omega)
  have hat : (decOf (writeAt p off.toNat (encTag tag.toNat wtLen ++ (encVarint F.length ++ F))) off ks ke false).At (p.take off.toNat)
      (encTag tag.toNat wtLen ++ (encVarint F.length ++ (F ++ p.drop (off.toNat + (encTag tag.toNat wtLen ++ (encVarint F.length ++ F)).length)))) := by
    simpa only [List.append_assoc] using hat0
  have htag := Dec.tag_at hat ht1 htm (by decide : wtLen < 8)
  obtain ⟨t, w, e, sd, hdt, hdp, hdm, hmatch⟩ := DecodeTag_refines fuel hf se.e_p off mode ks ke false
    (by rw [hbuf, hlenw]; exact hp63) (by rw [hbuf, hlenw]; exact hoff)
  simp only [hbuf] at hmatch hdt hdp
  rw [htag] at hmatch
  simp only [Dec.afterTag_off, Dec.afterTag_ks, Dec.afterTag_ke] at hmatch
  obtain ⟨he, htn, hwn, hso, hsks, hske⟩ := hmatch
  subst he
  have htq : tag = t := (bv_eq_of_toNat htn).symm
  have hwq : (2#64 : BitVec 64) = w := (bv_eq_of_toNat (by rw [hwn]; rfl)).symm
  subst htq; subst hwq
  refine ⟨sd, by rw [hbuf]; exact hdt, ?_⟩
  -- DecodePackedUint32
  have hat2 := hat.afterTag
  have hd2 : decOf sd.d_p sd.d_offset sd.d_keyStart sd.d_keyEnd false =
      (decOf (writeAt p off.toNat (encTag tag.toNat wtLen ++ (encVarint F.length ++ F))) off ks ke false).afterTag (encTag tag.toNat wtLen).length := by
    simp only [decOf, Dec.afterTag, hdp, hso, hsks, hske]
  have hmem : ∀ v ∈ vs.map (·.toNat), v < two32 := by
    intro v hv; simp only [List.mem_map] at hv; obtain ⟨x, _, rfl⟩ := hv; unfold two32; exact x.isLt
  obtain ⟨a, hpk⟩ := Dec.packed_at (d := decOf sd.d_p sd.d_offset sd.d_keyStart sd.d_keyEnd false) (pre := p.take off.toNat ++ encTag tag.toNat wtLen)
    (post := p.drop (off.toNat + (encTag tag.toNat wtLen ++ (encVarint F.length ++ F)).length)) elUint32 encVarint .nats (vs.map (·.toNat)) none
    (fun v hv rest => elUint32_enc v (hmem v hv) rest) (fun v _ => encVarint_length_pos v)
    (by rw [hF]; unfold two64; omega) (by rw [hd2, hF]; simpa [List.append_assoc] using hat2)
  obtain ⟨R, e2, sd2, hdu, _, _, _, _, hm2⟩ := DecodePackedUint32_refines fuel hf sd.d_p sd.d_offset sd.d_mode sd.d_keyStart sd.d_keyEnd false
    (by rw [hdp, hlenw]; exact hp) (by rw [hdp, hlenw]; exact hfl) (by rw [hdp, hlenw, hso]; simp [decOf]; omega)
  simp only [Dec.step, hpk] at hm2
  obtain ⟨he2, hR, ho2⟩ := hm2
  subst he2
  have hRq : vs = R := (map_toNat_inj32 R vs hR).symm
  subst hRq
  refine ⟨sd2, hdu, bv_eq_of_toNat ?_⟩
  rw [ho2, hend, hF]
  simp [decOf, hso]
  omega


/-- **C01 for the source, packed repeated sint32 fields (zig-zag)**: the bytes the source's `EncodePackedSInt32(tag, vs)` writes for a
    non-empty list are read back by the source's `DecodeTag` + `DecodePackedSint32` as the same field number, wire type 2 and
    the same list of int32 values (negative ones included), consuming exactly what was written. -/
theorem source_roundtrip_packed_sint32 (fuel : Nat) (hf : 11 ≤ fuel) (p : Bytes) (off tag mode ks ke : BitVec 64) (vs : List (BitVec 32))
    (hp : p.length < 2 ^ 62) (hfl : p.length + 2 ≤ fuel) (hoff : off.toNat ≤ p.length) (hvs : vs ≠ []) (hvl : vs.length < 2 ^ 59)
    (ht1 : 1 ≤ tag.toNat) (ht : tag.toNat ≤ 536870911)
    (se : Encoder_EncodePackedSInt32.St) (hret : Encoder_EncodePackedSInt32 fuel p off tag vs = .ret () se) :
    ∃ sd, Decoder_DecodeTag fuel se.e_p off mode ks ke = .ret (tag, 2#64, .nil) sd ∧
      ∃ sd2, Decoder_DecodePackedSint32 fuel sd.d_p sd.d_offset sd.d_mode sd.d_keyStart sd.d_keyEnd = .ret (vs, .nil) sd2 ∧
        sd2.d_offset = se.e_offset := by
  have htm : tag.toNat ≤ maxTagValue := ht
  have hp63 : p.length < 2 ^ 63 := by omega
  have hne : (vs.map (·.toInt)).isEmpty = false := by
    cases vs with
    | nil => exact absurd rfl hvs
    | cons _ _ => rfl
  obtain ⟨hfit, hbuf, hend⟩ := enc_returns (W := Encoder_EncodePackedSInt32 fuel p off tag vs) p off.toNat (.packedZigzag32 tag.toNat (vs.map (·.toInt)))
    (·.e_p) (·.e_offset) (by simp [Enc.step, hne]) (EncodePackedSInt32_refines fuel (by omega) p off tag vs hp hoff hvl) se hret
  simp only [EncOp.wire, hne, Bool.false_eq_true, if_false] at hfit hbuf hend
  rw [sumSizes_flatten sizeOfZigZag encZigZag32 (fun i => (sizeOfZigZag_exact i).2)] at hfit hbuf hend
  generalize hF : ((vs.map (·.toInt)).map encZigZag32).flatten = F at *
  simp only [List.length_append] at hfit hend
  simp only [List.append_assoc] at hbuf
  have hlenw : (writeAt p off.toNat (encTag tag.toNat wtLen ++ (encVarint F.length ++ F))).length = p.length :=
    writeAt_length (by simp only [List.length_append]; omega)
  -- DecodeTag
  have hat0 := decOf_at p off ks ke false (encTag tag.toNat wtLen ++ (encVarint F.length ++ F)) (by simp only [List.length_append]; omega)
  have hat : (decOf (writeAt p off.toNat (encTag tag.toNat wtLen ++ (encVarint F.length ++ F))) off ks ke false).At (p.take off.toNat)
      (encTag tag.toNat wtLen ++ (encVarint F.length ++ (F ++ p.drop (off.toNat + (encTag tag.toNat wtLen ++ (encVarint F.length ++ F)).length)))) := by
    simpa only [List.append_assoc] using hat0
  have htag := Dec.tag_at hat ht1 htm (by decide : wtLen < 8)
  obtain ⟨t, w, e, sd, hdt, hdp, hdm, hmatch⟩ := DecodeTag_refines fuel hf se.e_p off mode ks ke false
    (by rw [hbuf, hlenw]; exact hp63) (by rw [hbuf, hlenw]; exact hoff)
  simp only [hbuf] at hmatch hdt hdp
  rw [htag] at hmatch
  simp only [Dec.afterTag_off, Dec.afterTag_ks, Dec.afterTag_ke] at hmatch
  obtain ⟨he, htn, hwn, hso, hsks, hske⟩ := hmatch
  subst he
  have htq : tag = t := (bv_eq_of_toNat htn).symm
  have hwq : (2#64 : BitVec 64) = w := (bv_eq_of_toNat (by rw [hwn]; rfl)).symm
  subst htq; subst hwq
  refine ⟨sd, by rw [hbuf]; exact hdt, ?_⟩
  -- DecodePackedSint32
  have hat2 := hat.afterTag
  have hd2 : decOf sd.d_p sd.d_offset sd.d_keyStart sd.d_keyEnd false =
      (decOf (writeAt p off.toNat (encTag tag.toNat wtLen ++ (encVarint F.length ++ F))) off ks ke false).afterTag (encTag tag.toNat wtLen).length := by
    simp only [decOf, Dec.afterTag, hdp, hso, hsks, hske]
  have hmem : ∀ i ∈ vs.map (·.toInt), InI32 i := by
    intro i hi; simp only [List.mem_map] at hi; obtain ⟨x, _, rfl⟩ := hi; exact inI32_toInt x
  obtain ⟨a, hpk⟩ := Dec.packed_at (d := decOf sd.d_p sd.d_offset sd.d_keyStart sd.d_keyEnd false) (pre := p.take off.toNat ++ encTag tag.toNat wtLen)
    (post := p.drop (off.toNat + (encTag tag.toNat wtLen ++ (encVarint F.length ++ F)).length)) elSint32 encZigZag32 .ints (vs.map (·.toInt)) none
    (fun i hi rest => elSint32_enc i (hmem i hi) rest) (fun i _ => by unfold encZigZag32; exact encVarint_length_pos _)
    (by rw [hF]; unfold two64; omega) (by rw [hd2, hF]; simpa [List.append_assoc] using hat2)
  obtain ⟨R, e2, sd2, hdu, _, _, _, _, hm2⟩ := DecodePackedSint32_refines fuel hf sd.d_p sd.d_offset sd.d_mode sd.d_keyStart sd.d_keyEnd false
    (by rw [hdp, hlenw]; exact hp) (by rw [hdp, hlenw]; exact hfl) (by rw [hdp, hlenw, hso]; simp [decOf]; omega)
  simp only [Dec.step, hpk] at hm2
  obtain ⟨he2, hR, ho2⟩ := hm2
  subst he2
  have hRq : vs = R := (map_toInt_inj32 R vs hR).symm
  subst hRq
  refine ⟨sd2, hdu, bv_eq_of_toNat ?_⟩
  rw [ho2, hend, hF]
  simp [decOf, hso]
  omega


/-- **C01 for the source, int64 fields (negative values: ten bytes)**: bytes written by the source's `EncodeInt64` are read back by the source's
    `DecodeTag` + `DecodeInt64` as the same field number, wire type 0 and value, consuming exactly what was written. -/
theorem source_roundtrip_int64 (fuel : Nat) (hf : 11 ≤ fuel) (p : Bytes) (off tag mode ks ke : BitVec 64) (v : BitVec 64)
    (hp : p.length < 2 ^ 63) (hoff : off.toNat ≤ p.length) (ht1 : 1 ≤ tag.toNat) (ht : tag.toNat ≤ 536870911)
    (se : Encoder_EncodeInt64.St) (hret : Encoder_EncodeInt64 fuel p off tag v = .ret () se) :
    ∃ sd, Decoder_DecodeTag fuel se.e_p off mode ks ke = .ret (tag, 0#64, .nil) sd ∧
      sd.d_p = se.e_p ∧ sd.d_mode = mode ∧ sd.d_keyStart = off ∧
      ∃ sd2, Decoder_DecodeInt64 fuel sd.d_p sd.d_offset sd.d_mode sd.d_keyStart sd.d_keyEnd = .ret (v, .nil) sd2 ∧
        sd2.d_offset = se.e_offset := by
  have htm : tag.toNat ≤ maxTagValue := ht
  have hv64 : InI64 v.toInt := inI64_toInt v
  have hvu : v.toNat = toU64 v.toInt := toNat_eq_toU64 v
  -- the encoder call returned: the buffer is the model's
  obtain ⟨hfit, hbuf, hend⟩ := enc_returns (W := Encoder_EncodeInt64 fuel p off tag v) p off.toNat (.varint tag.toNat v.toNat)
    (·.e_p) (·.e_offset) rfl (EncodeInt64_refines fuel (by omega) p off tag v hp hoff) se hret
  simp only [EncOp.wire, List.length_append] at hfit hbuf hend
  rw [hvu] at hfit hbuf hend
  have hlenw : (writeAt p off.toNat (encTag tag.toNat wtVarint ++ encVarint (toU64 v.toInt))).length = p.length :=
    writeAt_length (by simp only [List.length_append]; omega)
  -- DecodeTag
  have hat := decOf_at p off ks ke false (encTag tag.toNat wtVarint ++ encVarint (toU64 v.toInt)) (by simp only [List.length_append]; omega)
  rw [List.append_assoc] at hat
  have htag := Dec.tag_at hat ht1 htm (by decide : wtVarint < 8)
  obtain ⟨t, w, e, sd, hdt, hdp, hdm, hmatch⟩ := DecodeTag_refines fuel hf se.e_p off mode ks ke false
    (by rw [hbuf, hlenw]; exact hp) (by rw [hbuf, hlenw]; exact hoff)
  rw [hbuf] at hmatch hdt hdp
  rw [htag] at hmatch
  simp only [Dec.afterTag_off, Dec.afterTag_ks, Dec.afterTag_ke] at hmatch
  obtain ⟨he, htn, hwn, hso, hsks, hske⟩ := hmatch
  subst he
  have htq : tag = t := (bv_eq_of_toNat htn).symm
  have hwq : w = 0#64 := bv_eq_of_toNat (by rw [hwn]; rfl)
  subst htq; subst hwq
  have hks : sd.d_keyStart = off := bv_eq_of_toNat (by rw [hsks]; simp [decOf])
  refine ⟨sd, by rw [hbuf]; exact hdt, by rw [hbuf]; exact hdp, hdm, hks, ?_⟩
  -- DecodeInt64
  have hat2 := hat.afterTag
  have hd2 : decOf sd.d_p sd.d_offset sd.d_keyStart sd.d_keyEnd false =
      (decOf (writeAt p off.toNat (encTag tag.toNat wtVarint ++ encVarint (toU64 v.toInt))) off ks ke false).afterTag (encTag tag.toNat wtVarint).length := by
    simp only [decOf, Dec.afterTag, hdp, hso, hsks, hske]
  have hsc := Dec.scalar_at (d := decOf sd.d_p sd.d_offset sd.d_keyStart sd.d_keyEnd false) (by rw [hd2]; exact hat2)
    (encVarint_ne_nil _) elInt64 .int v.toInt (elInt64_enc v.toInt hv64 _)
  obtain ⟨x, e2, sd2, hdu, _, _, _, _, hm2⟩ := DecodeInt64_refines fuel hf sd.d_p sd.d_offset sd.d_mode sd.d_keyStart sd.d_keyEnd false
    (by rw [hdp, hlenw]; exact hp) (by rw [hdp, hlenw, hso]; simp [decOf]; omega)
  simp only [Dec.step, withAlloc, hsc] at hm2
  obtain ⟨he2, hx, ho2⟩ := hm2
  subst he2
  have hxq : v = x := (BitVec.eq_of_toInt_eq hx).symm
  subst hxq
  refine ⟨sd2, hdu, bv_eq_of_toNat ?_⟩
  rw [ho2, hend]
  simp [decOf, hso]
  omega


/-- **C01 for the source, int32 fields (negative values: sign-extended, ten bytes)**: bytes written by the source's `EncodeInt32` are read back by the source's
    `DecodeTag` + `DecodeInt32` as the same field number, wire type 0 and value, consuming exactly what was written. -/
theorem source_roundtrip_int32 (fuel : Nat) (hf : 11 ≤ fuel) (p : Bytes) (off tag mode ks ke : BitVec 64) (v : BitVec 32)
    (hp : p.length < 2 ^ 63) (hoff : off.toNat ≤ p.length) (ht1 : 1 ≤ tag.toNat) (ht : tag.toNat ≤ 536870911)
    (se : Encoder_EncodeInt32.St) (hret : Encoder_EncodeInt32 fuel p off tag v = .ret () se) :
    ∃ sd, Decoder_DecodeTag fuel se.e_p off mode ks ke = .ret (tag, 0#64, .nil) sd ∧
      sd.d_p = se.e_p ∧ sd.d_mode = mode ∧ sd.d_keyStart = off ∧
      ∃ sd2, Decoder_DecodeInt32 fuel sd.d_p sd.d_offset sd.d_mode sd.d_keyStart sd.d_keyEnd = .ret (v, .nil) sd2 ∧
        sd2.d_offset = se.e_offset := by
  have htm : tag.toNat ≤ maxTagValue := ht
  have hv64 : InI32 v.toInt := inI32_toInt v
  have hvu : (BitVec.signExtend 64 v).toNat = toU64 v.toInt := signExt_toU64 v
  -- the encoder call returned: the buffer is the model's
  obtain ⟨hfit, hbuf, hend⟩ := enc_returns (W := Encoder_EncodeInt32 fuel p off tag v) p off.toNat (.varint tag.toNat (BitVec.signExtend 64 v).toNat)
    (·.e_p) (·.e_offset) rfl (EncodeInt32_refines fuel (by omega) p off tag v hp hoff) se hret
  simp only [EncOp.wire, List.length_append] at hfit hbuf hend
  rw [hvu] at hfit hbuf hend
  have hlenw : (writeAt p off.toNat (encTag tag.toNat wtVarint ++ encVarint (toU64 v.toInt))).length = p.length :=
    writeAt_length (by simp only [List.length_append]; omega)
  -- DecodeTag
  have hat := decOf_at p off ks ke false (encTag tag.toNat wtVarint ++ encVarint (toU64 v.toInt)) (by simp only [List.length_append]; omega)
  rw [List.append_assoc] at hat
  have htag := Dec.tag_at hat ht1 htm (by decide : wtVarint < 8)
  obtain ⟨t, w, e, sd, hdt, hdp, hdm, hmatch⟩ := DecodeTag_refines fuel hf se.e_p off mode ks ke false
    (by rw [hbuf, hlenw]; exact hp) (by rw [hbuf, hlenw]; exact hoff)
  rw [hbuf] at hmatch hdt hdp
  rw [htag] at hmatch
  simp only [Dec.afterTag_off, Dec.afterTag_ks, Dec.afterTag_ke] at hmatch
  obtain ⟨he, htn, hwn, hso, hsks, hske⟩ := hmatch
  subst he
  have htq : tag = t := (bv_eq_of_toNat htn).symm
  have hwq : w = 0#64 := bv_eq_of_toNat (by rw [hwn]; rfl)
  subst htq; subst hwq
  have hks : sd.d_keyStart = off := bv_eq_of_toNat (by rw [hsks]; simp [decOf])
  refine ⟨sd, by rw [hbuf]; exact hdt, by rw [hbuf]; exact hdp, hdm, hks, ?_⟩
  -- DecodeInt32
  have hat2 := hat.afterTag
  have hd2 : decOf sd.d_p sd.d_offset sd.d_keyStart sd.d_keyEnd false =
      (decOf (writeAt p off.toNat (encTag tag.toNat wtVarint ++ encVarint (toU64 v.toInt))) off ks ke false).afterTag (encTag tag.toNat wtVarint).length := by
    simp only [decOf, Dec.afterTag, hdp, hso, hsks, hske]
  have hsc := Dec.scalar_at (d := decOf sd.d_p sd.d_offset sd.d_keyStart sd.d_keyEnd false) (by rw [hd2]; exact hat2)
    (encVarint_ne_nil _) elInt32 .int v.toInt (elInt32_enc v.toInt hv64 _)
  obtain ⟨x, e2, sd2, hdu, _, _, _, _, hm2⟩ := DecodeInt32_refines fuel hf sd.d_p sd.d_offset sd.d_mode sd.d_keyStart sd.d_keyEnd false
    (by rw [hdp, hlenw]; exact hp) (by rw [hdp, hlenw, hso]; simp [decOf]; omega)
  simp only [Dec.step, withAlloc, hsc] at hm2
  obtain ⟨he2, hx, ho2⟩ := hm2
  subst he2
  have hxq : v = x := (BitVec.eq_of_toInt_eq hx).symm
  subst hxq
  refine ⟨sd2, hdu, bv_eq_of_toNat ?_⟩
  rw [ho2, hend]
  simp [decOf, hso]
  omega


end Csproto.C01.Source
