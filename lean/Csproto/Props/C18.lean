import Csproto.Model.Shim
import Csproto.Bridge.Shim
/-
  C18 — JSON adapters round-trip and honour their options on every runtime.

  The three runtimes' JSON codecs are abstract (trusted; the harness compares the adapters with them on
  every case).  What is modelled and proved is csproto's part of json.go:

  * the option record and its five constructors (`apply`): each constructor sets exactly its own field
    and options compose in call order, last one wins (`setter_*`, bridge `jsonSetters_ok`);
  * the translation of the record into each runtime's option struct (`toMarshal`, `toUnmarshal`):
    every documented option reaches every runtime that has it, nothing else is set
    (`wiring_*`, bridge `jsonWiring_ok` — the table is regenerated from the composite literals of json.go);
  * the dispatch: a `json.Marshaler` first, then google v2, then the v1 `Message` interface, then gogo
    (bridge `jsonProbes_ok`); `gogo_takes_v1_arm`: the v1 and gogo `Message` interfaces have the same
    method set, so a gogo message is served by the golang jsonpb arm (the gogo arm is unreachable) —
    whether that is observable is decided by the oracle against gogo's own codec;
  * nil handling (`nil_marshals_to_nothing`, `nil_unmarshal_is_error`).
-/
namespace Csproto.C18
open Csproto

structure JOpts where
  indent : String := ""
  useEnumNumbers : Bool := false
  emitZeroValues : Bool := false
  allowUnknownFields : Bool := false
  allowPartial : Bool := false
deriving DecidableEq, Repr

inductive Setter where
  | indent (s : String) | enumNumbers (b : Bool) | zeroValues (b : Bool) | allowUnknown (b : Bool) | allowPartial (b : Bool)

def Setter.apply (o : JOpts) : Setter → JOpts
  | .indent s => { o with indent := s }
  | .enumNumbers b => { o with useEnumNumbers := b }
  | .zeroValues b => { o with emitZeroValues := b }
  | .allowUnknown b => { o with allowUnknownFields := b }
  | .allowPartial b => { o with allowPartial := b }

/-- `for _, o := range opts { o(&m.opts) }` on the zero value -/
def build (ss : List Setter) : JOpts := ss.foldl Setter.apply {}

/-- what each runtime's marshal options receive: (indent, enums as numbers, zero values) -/
def toMarshal (o : JOpts) : String × Bool × Bool := (o.indent, o.useEnumNumbers, o.emitZeroValues)
/-- protojson.UnmarshalOptions: (AllowPartial, DiscardUnknown); the jsonpb unmarshalers: AllowUnknownFields -/
def toUnmarshalV2 (o : JOpts) : Bool × Bool := (o.allowPartial, o.allowUnknownFields)
def toUnmarshalV1 (o : JOpts) : Bool := o.allowUnknownFields

/-! ### each option has exactly its documented effect on what the runtime is asked to do -/

theorem defaults : toMarshal (build []) = ("", false, false) ∧ toUnmarshalV2 (build []) = (false, false) ∧
    toUnmarshalV1 (build []) = false := by decide

theorem setter_indent (o : JOpts) (s : String) :
    toMarshal ((Setter.indent s).apply o) = (s, o.useEnumNumbers, o.emitZeroValues) ∧
    toUnmarshalV2 ((Setter.indent s).apply o) = toUnmarshalV2 o ∧ toUnmarshalV1 ((Setter.indent s).apply o) = toUnmarshalV1 o :=
  ⟨rfl, rfl, rfl⟩
theorem setter_enumNumbers (o : JOpts) (b : Bool) :
    toMarshal ((Setter.enumNumbers b).apply o) = (o.indent, b, o.emitZeroValues) ∧
    toUnmarshalV2 ((Setter.enumNumbers b).apply o) = toUnmarshalV2 o ∧ toUnmarshalV1 ((Setter.enumNumbers b).apply o) = toUnmarshalV1 o :=
  ⟨rfl, rfl, rfl⟩
theorem setter_zeroValues (o : JOpts) (b : Bool) :
    toMarshal ((Setter.zeroValues b).apply o) = (o.indent, o.useEnumNumbers, b) ∧
    toUnmarshalV2 ((Setter.zeroValues b).apply o) = toUnmarshalV2 o ∧ toUnmarshalV1 ((Setter.zeroValues b).apply o) = toUnmarshalV1 o :=
  ⟨rfl, rfl, rfl⟩
theorem setter_allowUnknown (o : JOpts) (b : Bool) :
    toMarshal ((Setter.allowUnknown b).apply o) = toMarshal o ∧
    toUnmarshalV2 ((Setter.allowUnknown b).apply o) = (o.allowPartial, b) ∧ toUnmarshalV1 ((Setter.allowUnknown b).apply o) = b :=
  ⟨rfl, rfl, rfl⟩
theorem setter_allowPartial (o : JOpts) (b : Bool) :
    toMarshal ((Setter.allowPartial b).apply o) = toMarshal o ∧
    toUnmarshalV2 ((Setter.allowPartial b).apply o) = (b, o.allowUnknownFields) ∧ toUnmarshalV1 ((Setter.allowPartial b).apply o) = toUnmarshalV1 o :=
  ⟨rfl, rfl, rfl⟩

/-- options compose in call order: appending a setter applies it to what the others built -/
theorem build_snoc (ss : List Setter) (s : Setter) : build (ss ++ [s]) = s.apply (build ss) := by
  simp [build, List.foldl_append]

/-! ### dispatch -/

/-- capability vector of the wrapped value, as the four probes see it -/
structure JCaps where
  isNil : Bool           -- nil interface or nil pointer
  jsonMarshaler : Bool   -- implements json.Marshaler / json.Unmarshaler itself
  isV2 : Bool
  isV1Iface : Bool       -- Reset/String/ProtoMessage (golang v1 and gogo messages alike)
deriving DecidableEq, Repr

inductive Arm where
  | nothing | error | own | v2 | v1 | gogo | unsupported
deriving DecidableEq, Repr

def marshalArm (c : JCaps) : Arm :=
  if c.isNil then .nothing
  else if c.jsonMarshaler then .own
  else if c.isV2 then .v2
  else if c.isV1Iface then .v1
  else if c.isV1Iface then .gogo      -- same method set: never reached
  else .unsupported

def unmarshalArm (c : JCaps) : Arm :=
  if c.isNil then .error
  else if c.jsonMarshaler then .own
  else if c.isV2 then .v2
  else if c.isV1Iface then .v1
  else if c.isV1Iface then .gogo
  else .unsupported

theorem nil_marshals_to_nothing (c : JCaps) (h : c.isNil = true) : marshalArm c = .nothing := by simp [marshalArm, h]
theorem nil_unmarshal_is_error (c : JCaps) (h : c.isNil = true) : unmarshalArm c = .error := by simp [unmarshalArm, h]
theorem own_codec_first (c : JCaps) (h : c.isNil = false) (hj : c.jsonMarshaler = true) :
    marshalArm c = .own ∧ unmarshalArm c = .own := by simp [marshalArm, unmarshalArm, h, hj]
theorem v2_before_v1 (c : JCaps) (h : c.isNil = false) (hj : c.jsonMarshaler = false) (h2 : c.isV2 = true) :
    marshalArm c = .v2 ∧ unmarshalArm c = .v2 := by simp [marshalArm, unmarshalArm, h, hj, h2]
/-- D3: the gogo arm cannot be reached — a gogo message satisfies the v1 interface probed before it -/
theorem gogo_takes_v1_arm (c : JCaps) : marshalArm c ≠ .gogo ∧ unmarshalArm c ≠ .gogo := by
  constructor <;> (simp only [marshalArm, unmarshalArm]; split <;> try split <;> try split <;> try split) <;> simp_all
theorem every_value_has_an_arm (c : JCaps) (h : c.isNil = false) :
    marshalArm c ∈ [Arm.own, .v2, .v1, .unsupported] ∧ unmarshalArm c ∈ [Arm.own, .v2, .v1, .unsupported] := by
  cases hj : c.jsonMarshaler <;> cases h2 : c.isV2 <;> cases h1 : c.isV1Iface <;> simp [marshalArm, unmarshalArm, h, hj, h2, h1]

/-! ### bridge to json.go -/

theorem wiring_fact : Generated.jsonWiring = Bridge.expectedWiring := Bridge.jsonWiring_ok
theorem setters_fact : Generated.jsonSetters.map (·.2) = ["indent", "useEnumNumbers", "emitZeroValues", "allowUnknownFields", "allowPartial"] := by
  rw [Bridge.jsonSetters_ok]; rfl
theorem probes_fact : Generated.jsonMarshalProbes.length = 4 ∧ Generated.jsonUnmarshalProbes.length = 4 := by
  rw [Bridge.jsonProbes_ok.1, Bridge.jsonProbes_ok.2]; exact ⟨rfl, rfl⟩

/-- the wiring table says exactly what `toMarshal` / `toUnmarshal*` say: every marshal option struct
    gets the three marshal options, the v2 unmarshal options get both flags, the jsonpb ones one -/
theorem wiring_complete :
    (∀ rt ∈ ["google.golang.org/protobuf/encoding/protojson.MarshalOptions", "github.com/golang/protobuf/jsonpb.Marshaler",
              "github.com/gogo/protobuf/jsonpb.Marshaler"],
      (Generated.jsonWiring.filter (fun w => w.1 == rt)).map (·.2.2) = ["indent", "useEnumNumbers", "emitZeroValues"]) ∧
    (Generated.jsonWiring.filter (fun w => w.1 == "google.golang.org/protobuf/encoding/protojson.UnmarshalOptions")).map (·.2.2)
      = ["allowPartial", "allowUnknownFields"] ∧
    (∀ rt ∈ ["github.com/golang/protobuf/jsonpb.Unmarshaler", "github.com/gogo/protobuf/jsonpb.Unmarshaler"],
      (Generated.jsonWiring.filter (fun w => w.1 == rt)).map (·.2.2) = ["allowUnknownFields"]) := by
  decide

/-- non-vacuity -/
example : toMarshal (build [.indent "  ", .enumNumbers true, .indent "\t"]) = ("\t", true, false) := by decide

end Csproto.C18
