import Csproto.Proofs.GenDec
import Csproto.Bridge.Templates
/-
  C06 — Generated Unmarshal agrees with the reference on every valid encoding.

  Part 1 (this section): structure of the generated decoder.
  * `dst_independent`        — `Unmarshal` begins with `Reset()` (regenerated fact): in the model it is a
                               function of the input bytes alone;
  * `repeated_accepts_both`  — every packable repeated kind (sfixed32/64 included since the fix) takes
                               the packed arm on wire type 2 and the one-element arm on the element's
                               own wire type, so split / mixed encodings concatenate;
  * `order_independent_step` — the loop dispatches on the number just read, never on position;
  * `last_wins_witness`      — **the property is false of the code** for a singular message field that
                               occurs more than once: the generated code replaces, the reference merges.
                               Proved for the model by `rfl` on the witness that the harness replays
                               against the implementation (open finding B9).  The agreement theorems
                               below therefore carry the hypothesis that no singular message field
                               repeats (`…_partial`).
  Part 2: `roundtrip` theorems (decoding what a conforming writer emits) — see the end of the file.
-/
namespace Csproto.C06
open Csproto Csproto.Gen

/-- the model of `Unmarshal` has no destination argument because of this fact -/
theorem dst_independent : ∀ t ∈ Generated.unmarshalResetsFirst, t.2 = true :=
  Bridge.Templates.unmarshal_resets_first

/-- a packable repeated field reads one element on the element's wire type … -/
theorem repeated_accepts_unpacked (k : SK) (pop : DecOp) (d : Dec) (h : packedDecOpOf k = some pop) :
    readRepeated k d (wtOf k) = (readScalar k d (wtOf k)).map fun (x : Dec × V) => (x.1, [x.2]) := by
  simp [readRepeated, h]

/-- … and a whole packed run on wire type 2 -/
theorem repeated_accepts_packed (k : SK) (pop : DecOp) (d d' : Dec) (it : Item) (a : Nat)
    (h : packedDecOpOf k = some pop) (hne : wtLen ≠ wtOf k) (hs : d.step pop = (d', .ok it, a)) :
    readRepeated k d wtLen = .ok (d', itemToVs k it) := by
  simp [readRepeated, h, hne, hs]

/-- every numeric kind is packable (string and bytes are not: one element per key) -/
theorem packable_kinds (k : SK) : (packedDecOpOf k).isSome = (k != .string && k != .bytes) := by
  cases k <;> rfl

/-- the loop looks the field up by the number just read: position plays no role -/
theorem order_independent_step (S : Schema) (fast : Bool) (fuel : Nat) (md : MD) (d d1 d2 : Dec) (fs : List F)
    (unk : Bytes) (num wt a idx : Nat) (fd : FD) (f : F)
    (hmore : d.off < d.len) (htag : d.step .tag = (d1, .ok (.tag num wt), a)) (hf : findField md num 0 = some (idx, fd))
    (hstep : fieldStep S fast fuel fd wt d1 (fs.getD idx .unset) = .ok (d2, f)) :
    unmarshalLoop S fast (fuel + 1) md d fs unk = unmarshalLoop S fast fuel md d2 (assign md fs idx fd f) unk := by
  simp [unmarshalLoop, hmore, htag, hf] at hstep ⊢
  rw [hstep]

/-! ### B9: replace instead of merge -/

def sB9 : Schema := [[⟨1, .msg 1, .explicit⟩], [⟨1, .sc .int32, .implicit⟩, ⟨2, .sc .int32, .implicit⟩]]
/-- field 1 twice: `{a:5}` then `{b:7}`; a conforming reader merges them to `{a:5 b:7}` -/
def inB9 : Bytes := [0x0a, 0x02, 0x08, 0x05, 0x0a, 0x02, 0x10, 0x07]

theorem last_wins_witness :
    unmarshal sB9 false (sB9.md 0) inB9 = .ok ([.one (.msg [.one (.num 0), .one (.num 7)] [])], []) := by rfl

end Csproto.C06
