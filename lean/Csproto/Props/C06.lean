import Csproto.Proofs.GenDec
import Csproto.Proofs.Gen
import Csproto.Proofs.GenRecords
import Csproto.Proofs.GenRoundtrip
import Csproto.Proofs.GenNestedRoundtrip
import Csproto.Bridge.Templates
/-
  C06 — Generated Unmarshal agrees with the reference on every valid encoding.

  Part 1 (this section): structure of the generated decoder.
  * `dst_independent`        — `Unmarshal` begins with `Reset()` (regenerated fact): in the model it is a
                               function of the input bytes alone;
  * `repeated_accepts_both`  — every packable repeated kind (sfixed32/64 included since the fix) takes
                               the packed arm on wire type 2 and the one-element arm on the element's
                               own wire type, so split / mixed encodings concatenate;
  * `order_independent_step` — the loop dispatches on the number just read, never on position;
  * `last_wins_witness`      — **the property is false of the code** for a singular message field that
                               occurs more than once: the generated code replaces, the reference merges.
                               Proved for the model by `rfl` on the witness that the harness replays
                               against the implementation (open finding B9).  The agreement theorems
                               below therefore carry the hypothesis that no singular message field
                               repeats (`…_partial`).
  Part 2: `roundtrip` theorems (decoding what a conforming writer emits) — see the end of the file.
-/
namespace Csproto.C06
open Csproto Csproto.Gen

/-- the model of `Unmarshal` has no destination argument because of this fact -/
theorem dst_independent : ∀ t ∈ Generated.unmarshalResetsFirst, t.2 = true :=
  Bridge.Templates.unmarshal_resets_first

/-- a packable repeated field reads one element on the element's wire type … -/
theorem repeated_accepts_unpacked (k : SK) (pop : DecOp) (d : Dec) (h : packedDecOpOf k = some pop) :
    readRepeated k d (wtOf k) = (readScalar k d (wtOf k)).map fun (x : Dec × V) => (x.1, [x.2]) := by
  simp [readRepeated, h]

/-- … and a whole packed run on wire type 2 -/
theorem repeated_accepts_packed (k : SK) (pop : DecOp) (d d' : Dec) (it : Item) (a : Nat)
    (h : packedDecOpOf k = some pop) (hne : wtLen ≠ wtOf k) (hs : d.step pop = (d', .ok it, a)) :
    readRepeated k d wtLen = .ok (d', itemToVs k it) := by
  simp [readRepeated, h, hne, hs]

/-- every numeric kind is packable (string and bytes are not: one element per key) -/
theorem packable_kinds (k : SK) : (packedDecOpOf k).isSome = (k != .string && k != .bytes) := by
  cases k <;> rfl

/-- the loop looks the field up by the number just read: position plays no role -/
theorem order_independent_step (S : Schema) (fast : Bool) (fuel : Nat) (md : MD) (d d1 d2 : Dec) (fs : List F)
    (unk : Bytes) (num wt a idx : Nat) (fd : FD) (f : F)
    (hmore : d.off < d.len) (htag : d.step .tag = (d1, .ok (.tag num wt), a)) (hf : findField md num 0 = some (idx, fd))
    (hstep : fieldStep S fast fuel fd wt d1 (fs.getD idx .unset) = .ok (d2, f)) :
    unmarshalLoop S fast (fuel + 1) md d fs unk = unmarshalLoop S fast fuel md d2 (assign md fs idx fd f) unk := by
  simp [unmarshalLoop, hmore, htag, hf] at hstep ⊢
  rw [hstep]

/-! ### B9: replace instead of merge -/

def sB9 : Schema := [[⟨1, .msg 1, .explicit⟩], [⟨1, .sc .int32, .implicit⟩, ⟨2, .sc .int32, .implicit⟩]]
/-- field 1 twice: `{a:5}` then `{b:7}`; a conforming reader merges them to `{a:5 b:7}` -/
def inB9 : Bytes := [0x0a, 0x02, 0x08, 0x05, 0x0a, 0x02, 0x10, 0x07]

theorem last_wins_witness :
    unmarshal sB9 false (sB9.md 0) inB9 = .ok ([.one (.msg [.one (.num 0), .one (.num 7)] [])], []) := by rfl

/-! ### Part 2: agreement with the reference rule on every valid encoding of scalar fields

`WRec` is one record as a conforming writer emits it for a message of type `md`: an element of a scalar
field (any kind, any presence discipline), a packed run of a repeated scalar field, or a field the type
does not define.  `WRec.apply` is the reference rule for one record — a singular field keeps its LAST
occurrence, a repeated field APPENDS (a packed run appends all its elements), an undefined field is
RETAINED as its raw bytes.  The theorem quantifies over every sequence of such records: any order,
packed / unpacked / split repeated fields, singular fields occurring more than once, unknown fields
anywhere, either decoder mode.  (Message-typed fields and maps are outside `WRec`: there the statement
is decided by correspondence and oracle, and is false for repeated singular messages — B9.) -/

/-- **generated `Unmarshal` = the fold of the reference rule**, then the required-field check -/
theorem unmarshal_is_reference_fold (S : Schema) (fast : Bool) (md : MD) (rs : List WRec) (hok : ∀ r ∈ rs, r.OK md) :
    unmarshal S fast md (wiresW rs) =
      (if requiredMissing md (rs.foldl (WRec.apply md) (initFields md, [])).1 then .err
       else .ok (rs.foldl (WRec.apply md) (initFields md, []))) :=
  unmarshal_records S fast md rs hok

/-- the same at any point of the loop: from any decoder position, field state and retained bytes -/
theorem loop_is_reference_fold (S : Schema) (fast : Bool) (md : MD) (rs : List WRec) (hok : ∀ r ∈ rs, r.OK md)
    (fuel : Nat) (d : Dec) (pre : Bytes) (fs : List F) (unk : Bytes) (hf : rs.length + 1 ≤ fuel)
    (hAt : d.At pre (wiresW rs)) (hm : d.fast = fast) :
    unmarshalLoop S fast fuel md d fs unk = .ok (rs.foldl (WRec.apply md) (fs, unk)) :=
  loop_records S fast md rs hok fuel d pre fs unk hf hAt hm

/-- the result does not depend on the decoder mode -/
theorem mode_independent (S : Schema) (md : MD) (rs : List WRec) (hok : ∀ r ∈ rs, r.OK md) :
    unmarshal S true md (wiresW rs) = unmarshal S false md (wiresW rs) := by
  rw [unmarshal_records S true md rs hok, unmarshal_records S false md rs hok]

/-- **round trip**: for a message type of scalar fields, `Unmarshal(Marshal(m) ++ unknown)` is `m` with
    identical presence (values normalised to their field width) and the unknown fields byte for byte -/
theorem roundtrip (S : Schema) (fast : Bool) (md : MD) (fs : List F) (urs : List Rec) (ops : List EncOp)
    (hflat : FlatMD md) (hnd : NoDupNums md) (hlen : fs.length = md.length)
    (hv : ∀ p ∈ md.zip fs, ShapeOK p.1 p.2 ∧ ValOK p.1 p.2)
    (hu : ∀ r ∈ urs, r.OK ∧ findField md r.tag 0 = none)
    (ho : opsFields S md fs = .ok ops) :
    unmarshal S fast md (Gen.wiresOf ops ++ Csproto.wiresOf urs) = .ok (canonFields md fs, Csproto.wiresOf urs) :=
  roundtrip_flat S fast md fs urs ops hflat hnd hlen hv hu ho

/-- non-vacuity: a concrete three-field type (implicit int32, optional string, packed sint64), fields out
    of order, the packed field split in a run and a single element, an unknown field in between -/
def mdEx : MD := [⟨1, .sc .int32, .implicit⟩, ⟨2, .sc .string, .explicit⟩, ⟨3, .sc .sint64, .packed⟩]
def rsEx : List WRec :=
  [.packed 2 ⟨3, .sc .sint64, .packed⟩ .sint64 [.num 1, .num 2],
   .scalar 1 ⟨2, .sc .string, .explicit⟩ .string (.bs [0x68, 0x69]),
   .unknown (.varint 9 300),
   .scalar 2 ⟨3, .sc .sint64, .packed⟩ .sint64 (.num 5),
   .scalar 0 ⟨1, .sc .int32, .implicit⟩ .int32 (.num 7),
   .scalar 0 ⟨1, .sc .int32, .implicit⟩ .int32 (.num 8)]
example : ∀ r ∈ rsEx, r.OK mdEx := by
  intro r hr
  simp only [rsEx, List.mem_cons, List.mem_nil_iff, or_false] at hr
  rcases hr with rfl | rfl | rfl | rfl | rfl | rfl <;>
    simp [WRec.OK, mdEx, findField, C01.ValidTag, maxTagValue, DecValid, isRep, two64, maxFieldLen, Rec.OK, Rec.tag, V.n, V.b]


/-! ### Part 3: message-typed fields — nested, repeated, recursive types, any depth

`NRec` extends `WRec` with two more record forms: a message-typed field whose payload is itself a list of
records of the field's message type, and one occurrence of a map field (Part 4).  `decodeMsgN` is the generated code's rule on such a tree (reset,
fold the records, check required fields at every level).  It agrees with the reference rule except where
a singular message field occurs more than once in one message (the code replaces, the reference merges:
finding B9, `last_wins_witness`); a conforming writer's output never does that, which is what
`roundtrip_nested` covers. -/

/-- **generated `Unmarshal` on any well-formed record tree** is the structural decode of that tree -/
theorem unmarshal_is_record_tree_decode (S : Schema) (fast : Bool) (md : MD) (rs : List NRec) (hok : OKs S md rs) :
    unmarshal S fast md (wiresN rs) = decodeMsgN S md rs :=
  unmarshal_nested S fast md rs hok

/-- **round trip with nested messages**: for message types built from scalar fields and message-typed
    fields (singular, repeated, recursive, members of real oneofs with at most one member set; no maps), `Unmarshal(Marshal(m) ++ unknown)` is
    `m` with identical presence at every level, and the unknown fields byte for byte -/
theorem roundtrip_nested (S : Schema) (hS : SchemaOK S) (fast : Bool) (i : Nat) (fs : List F) (urs : List Rec)
    (ops : List EncOp) (hwf : WFs S (S.md i) fs) (hex : Excl (S.md i) fs) (hok : OKFields S (S.md i) fs)
    (hu : ∀ r ∈ urs, r.OK ∧ findField (S.md i) r.tag 0 = none)
    (ho : opsFields S (S.md i) fs = .ok ops) :
    unmarshal S fast (S.md i) (Gen.wiresOf ops ++ Csproto.wiresOf urs)
      = .ok (canonFs S (S.md i) fs, Csproto.wiresOf urs) :=
  Gen.roundtrip_nested S hS fast i fs urs ops hwf hex hok hu ho

/-! non-vacuity of Part 3 -/
def sN : Schema := [[⟨1, .sc .int32, .implicit⟩, ⟨2, .msg 0, .explicit⟩, ⟨3, .msg 1, .list⟩, ⟨4, .sc .int32, .oneof 0⟩, ⟨5, .msg 1, .oneof 0⟩],
  [⟨1, .sc .string, .explicit⟩]]
def innerN : List F := [.one (.num 0), .unset, .many [], .one (.num 3), .unset]
def elemsN : List V := [.msg [.one (.bs [0x68])] [], .msg [.unset] []]
def fsN : List F := [.one (.num 7), .one (.msg innerN []), .many elemsN, .unset, .one (.msg [.one (.bs [0x69])] [])]

theorem schemaN_ok : SchemaOK sN := by
  intro i
  match i with
  | 0 => simp [sN, Schema.md, NoDupNums]
  | 1 => simp [sN, Schema.md, NoDupNums]
  | n + 2 => simp [sN, Schema.md, NoDupNums]


theorem opsN : ∃ ops, opsFields sN (sN.md 0) fsN = .ok ops := ⟨_, rfl⟩

theorem okN : OKFields sN (sN.md 0) fsN := by
  simp [OKFields, OKField, OKMsgV, OKMsgList, sN, Schema.md, fsN, innerN, elemsN, ValidScalar, C01.ValidTag, maxTagValue, maxFieldLen, V.n, V.b, two64]

theorem wf_inner : WFs sN (sN.md 0) innerN := by
  simp [WFs, WFf, WFvs, sN, Schema.md, innerN, ShapeOK, ValOK, isRep, C01.ValidTag, maxTagValue, DecValid, CleanV, kindOf, V.n, two64]

theorem wf_elem0 : WFs sN (sN.md 1) [.one (.bs [0x68])] := by
  simp [WFs, WFf, sN, Schema.md, ShapeOK, ValOK, isRep, C01.ValidTag, maxTagValue, DecValid, CleanV, kindOf, V.b, maxFieldLen]

theorem wf_elem1 : WFs sN (sN.md 1) [.unset] := by
  simp [WFs, WFf, sN, Schema.md]

theorem len_ok (i : Nat) (fs : List F) (hwf : WFs sN (sN.md i) fs) (hok : OKFields sN (sN.md i) fs)
    (ho : ∃ ops, opsFields sN (sN.md i) fs = .ok ops) (hs : sizeFields sN (sN.md i) fs ≤ maxFieldLen) :
    (wiresN (recsFields sN 0 (sN.md i) fs)).length ≤ maxFieldLen := by
  obtain ⟨ops, ho⟩ := ho
  rw [recs_len_eq_size sN _ fs ops hok (wfs_clean sN _ fs hwf) ho]; exact hs

/-- only fields 4 and 5 of message 0 are members of a oneof; message 1 has none -/
theorem excl0 (fs : List F) (h : fs[3]? = some F.unset ∨ fs[4]? = some F.unset) : Excl (sN.md 0) fs := by
  intro i j fdi fdj g hi hj hgi hgj hne
  have e0 : sN.md 0 = [⟨1, .sc .int32, .implicit⟩, ⟨2, .msg 0, .explicit⟩, ⟨3, .msg 1, .list⟩, ⟨4, .sc .int32, .oneof 0⟩, ⟨5, .msg 1, .oneof 0⟩] := rfl
  rw [e0] at hi hj
  have hi' : i = 3 ∨ i = 4 := by
    rcases i with _|_|_|_|_|i <;> simp at hi <;> (try subst hi) <;> simp at hgi ⊢
  have hj' : j = 3 ∨ j = 4 := by
    rcases j with _|_|_|_|_|j <;> simp at hj <;> (try subst hj) <;> simp at hgj ⊢
  rcases hi' with rfl | rfl <;> rcases hj' with rfl | rfl
  · exact absurd rfl hne
  · exact h
  · exact h.symm
  · exact absurd rfl hne

theorem excl1 (fs : List F) : Excl (sN.md 1) fs := by
  intro i j fdi fdj g hi hj hgi hgj hne
  have e1 : sN.md 1 = [⟨1, .sc .string, .explicit⟩] := rfl
  rw [e1] at hi
  rcases i with _|i <;> simp at hi
  subst hi; simp at hgi

theorem wf_top : WFs sN (sN.md 0) fsN := by
  have h0 := len_ok 0 innerN wf_inner (by simp [OKFields, OKField, OKMsgList, sN, Schema.md, innerN, ValidScalar, C01.ValidTag, maxTagValue]) ⟨_, rfl⟩ (by decide)
  have h1 := len_ok 1 [.one (.bs [0x68])] wf_elem0 (by simp [OKFields, OKField, sN, Schema.md, ValidScalar, C01.ValidTag, maxTagValue, V.b, maxFieldLen]) ⟨_, rfl⟩ (by decide)
  have h2 := len_ok 1 [.unset] wf_elem1 (by simp [sN, Schema.md, OKFields, OKField]) ⟨_, rfl⟩ (by decide)
  have h3 := len_ok 1 [.one (.bs [0x69])] (by simp [WFs, WFf, sN, Schema.md, ShapeOK, ValOK, isRep, C01.ValidTag, maxTagValue, DecValid, CleanV, kindOf, V.b, maxFieldLen])
    (by simp [OKFields, OKField, sN, Schema.md, ValidScalar, C01.ValidTag, maxTagValue, V.b, maxFieldLen]) ⟨_, rfl⟩ (by decide)
  have w3 : WFs sN (sN.md 1) [.one (.bs [0x69])] := by
    simp [WFs, WFf, sN, Schema.md, ShapeOK, ValOK, isRep, C01.ValidTag, maxTagValue, DecValid, CleanV, kindOf, V.b, maxFieldLen]
  have e0 : sN.md 0 = [⟨1, .sc .int32, .implicit⟩, ⟨2, .msg 0, .explicit⟩, ⟨3, .msg 1, .list⟩, ⟨4, .sc .int32, .oneof 0⟩, ⟨5, .msg 1, .oneof 0⟩] := rfl
  have e1 : sN.md 1 = [⟨1, .sc .string, .explicit⟩] := rfl
  unfold fsN elemsN
  rw [e0]
  simp only [WFs, WFf, WFvs, WFv, and_true, true_and]
  refine ⟨?_, ⟨rfl, ?_, wf_inner, h0, excl0 _ (Or.inr rfl)⟩, ⟨?_, ⟨wf_elem0, h1, excl1 _⟩, wf_elem1, h2, excl1 _⟩, rfl, ?_, w3, h3, excl1 _⟩
  · simp [ShapeOK, ValOK, isRep, C01.ValidTag, maxTagValue, DecValid, CleanV, kindOf, V.n, two64]
  · simp [C01.ValidTag, maxTagValue]
  · simp [C01.ValidTag, maxTagValue]
  · simp [C01.ValidTag, maxTagValue]

/-- non-vacuity of `roundtrip_nested`: a recursive type (field 2 of message 0 is message 0), a repeated
    message field with one empty element, a real oneof whose message-typed member is set at the top level
    and whose scalar member is set one level down, and one unknown field after the body -/
theorem roundtrip_nested_example : ∃ ops, unmarshal sN true (sN.md 0) (Gen.wiresOf ops ++ Csproto.wiresOf [.varint 9 300])
    = .ok (canonFs sN (sN.md 0) fsN, Csproto.wiresOf [.varint 9 300]) := by
  obtain ⟨ops, ho⟩ := opsN
  refine ⟨ops, roundtrip_nested sN schemaN_ok true 0 fsN [.varint 9 300] ops wf_top (excl0 _ (Or.inl rfl)) okN ?_ ho⟩
  intro r hr
  simp only [List.mem_cons, List.mem_nil_iff, or_false] at hr
  subst hr
  simp [Rec.OK, Rec.tag, findField, sN, Schema.md, C01.ValidTag, maxTagValue, two64]


/-! ### Part 4: map entries — key and value in either order, omitted, repeated; foreign fields skipped

`NRec.map` is one occurrence of a map field: its payload is any sequence of well-formed records of the
entry type (the key, the value — scalar or message —, fields the entry type does not define), in any
order and any number of times.  `unmarshal_is_record_tree_decode` covers such records: the generated
sub-decoder computes `foldE` (last key / last value win, anything else is skipped), fills in a missing
message value with an empty message, and inserts the entry into the map, replacing an entry with the
same key (`NRec.applyN`).  The lemmas below spell out the consequences the property lists. -/

/-- key and value of a map entry may come in either order -/
theorem map_entry_order_irrelevant (S : Schema) (emd : MD) (ik iv : Nat) (fdk fdv : FD) (kk kv : SK) (vk vv : V)
    (efs : List F) (h : ik ≠ iv) :
    foldE S emd [.flat (.scalar ik fdk kk vk), .flat (.scalar iv fdv kv vv)] efs
      = foldE S emd [.flat (.scalar iv fdv kv vv), .flat (.scalar ik fdk kk vk)] efs := by
  simp only [foldE, NRec.applyE, flatE]
  rw [List.set_comm _ _ h]

/-- a key or value that occurs twice in one entry: the last occurrence wins -/
theorem map_entry_last_wins (S : Schema) (emd : MD) (i : Nat) (fd : FD) (k : SK) (v1 v2 : V) (efs : List F) :
    foldE S emd [.flat (.scalar i fd k v1), .flat (.scalar i fd k v2)] efs
      = foldE S emd [.flat (.scalar i fd k v2)] efs := by
  simp only [foldE, NRec.applyE, flatE, List.set_set]

/-- an entry that omits the key (or the value) keeps the reset value of that field -/
theorem map_entry_omitted_is_default (S : Schema) (emd : MD) (iv : Nat) (fdv : FD) (kv : SK) (vv : V) :
    foldE S emd [.flat (.scalar iv fdv kv vv)] (initFields emd) = .ok ((initFields emd).set iv (.one (decodedV kv vv))) := by
  simp only [foldE, NRec.applyE, flatE]

/-- fields the entry type does not define are skipped -/
theorem map_entry_unknown_skipped (S : Schema) (emd : MD) (r : Rec) (rest : List NRec) (efs : List F) :
    foldE S emd (.flat (.unknown r) :: rest) efs = foldE S emd rest efs := by
  simp only [foldE, NRec.applyE, flatE]

def sM : Schema := [[⟨1, .msg 1, .map⟩], [⟨1, .sc .int32, .always⟩, ⟨2, .sc .string, .always⟩]]
def fdM : FD := ⟨1, .msg 1, .map⟩
def fkM : FD := ⟨1, .sc .int32, .always⟩
def fvM : FD := ⟨2, .sc .string, .always⟩
/-- entry 1: value "a" BEFORE key 5; entry 2: key 5 again, value omitted -/
def rsM : List NRec :=
  [.map 0 fdM 1 [.flat (.scalar 1 fvM .string (.bs [0x61])), .flat (.scalar 0 fkM .int32 (.num 5))],
   .map 0 fdM 1 [.flat (.scalar 0 fkM .int32 (.num 5))]]

theorem rsM_ok : OKs sM (sM.md 0) rsM := by
  have hs : (scalarOp .string 2 (.bs [0x61])).wire.length = 3 := by
    rw [← scalar_exact .string 2 (.bs [0x61]) (by simp [C01.ValidTag, maxTagValue]) (by simp [ValidScalar, V.b, maxFieldLen])]; decide
  have hk : (scalarOp .int32 1 (.num 5)).wire.length = 2 := by
    rw [← scalar_exact .int32 1 (.num 5) (by simp [C01.ValidTag, maxTagValue]) (by simp [ValidScalar])]; decide
  simp [OKs, NRec.OK, OKsE, NRec.OKE, flatOKE, rsM, sM, Schema.md, fdM, fkM, fvM, findField, C01.ValidTag, maxTagValue,
    DecValid, isRep, wiresN, NRec.wire, WRec.wire, maxFieldLen, V.n, V.b, two64, hs, hk]

theorem map_entries_example : unmarshal sM false (sM.md 0) (wiresN rsM) = .ok ([.many [.msg [.one (.num 5), .one (.bs [])] []]], []) := by
  rw [unmarshal_nested sM false (sM.md 0) rsM rsM_ok]
  rfl

end Csproto.C06
