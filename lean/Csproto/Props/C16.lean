import Csproto.Bridge.Templates
/-
  C16 — The generator is total, deterministic and emits compiling code.

  What a Lean model can carry of this property (see DESIGN §5 C16 for what it cannot — "valid Go that
  compiles" is decided by the Go compiler on the corpus, determinism by re-running the plug-in):

  * **routing is total** — every kind of the protobuf language is routed by `SizeOfField`,
    `MarshalField`, `UnmarshalField` to exactly one snippet, and every kind has an arm in the oneof and
    number snippets (regenerated from the template text; `Bridge/Templates.lean`).  A kind missing from
    one of the dispatchers would make the plug-in "succeed" while silently generating no code for such
    fields.
  * **output names** — the name plan of `run.go` (regenerated): one file `<prefix>.pb.fm.go`, or with
    `filepermessage=true` one file `<prefix>_<lower(short message name)>.pb.fm.go` per message.
    `single_file_one_name`, `per_message_names_distinct_iff`: the names are pairwise distinct **iff** the
    lower-cased *short* names of the file's messages are; `collision_witness` exhibits the two schemas
    for which they are not (`Outer.Inner` next to `Inner`; `Foo` next to `FOO`) — the open finding B15.
-/
namespace Csproto.C16
open Csproto

abbrev Name := List Char

def lower (n : Name) : Name := n.map Char.toLower

def suffix : Name := ".pb.fm.go".toList

/-- the name plan of `run.go` -/
def outputNames (pfx : Name) (perMessage : Bool) (shortNames : List Name) : List Name :=
  if perMessage then shortNames.map fun n => pfx ++ ('_' :: (lower n ++ suffix))
  else [pfx ++ suffix]

theorem single_file_one_name (pfx : Name) (ns : List Name) : (outputNames pfx false ns).length = 1 := rfl

theorem per_message_one_file_per_message (pfx : Name) (ns : List Name) :
    (outputNames pfx true ns).length = ns.length := by simp [outputNames]

theorem name_inj (pfx a b : Name) : pfx ++ ('_' :: (a ++ suffix)) = pfx ++ ('_' :: (b ++ suffix)) ↔ a = b := by
  constructor
  · intro h
    have h1 := List.append_cancel_left h
    simp only [List.cons.injEq, true_and] at h1
    exact List.append_cancel_right h1
  · intro h; rw [h]

/-- **the per-message files are pairwise distinct iff the lower-cased short message names are** -/
theorem per_message_names_distinct_iff (pfx : Name) (ns : List Name) :
    (outputNames pfx true ns).Nodup ↔ (ns.map lower).Nodup := by
  simp only [outputNames, if_true]
  induction ns with
  | nil => simp
  | cons n ns ih =>
    simp only [List.map_cons, List.nodup_cons, ih]
    constructor
    · intro ⟨h1, h2⟩
      refine ⟨?_, h2⟩
      intro hm
      apply h1
      obtain ⟨m, hm1, hm2⟩ := List.mem_map.mp hm
      exact List.mem_map.mpr ⟨m, hm1, by rw [hm2]⟩
    · intro ⟨h1, h2⟩
      refine ⟨?_, h2⟩
      intro hm
      apply h1
      obtain ⟨m, hm1, hm2⟩ := List.mem_map.mp hm
      exact List.mem_map.mpr ⟨m, hm1, (name_inj pfx _ _).mp hm2⟩

/-- B15: two valid schemas for which two output files get the same name -/
theorem collision_witness :
    ¬ (outputNames "f".toList true ["Inner".toList, "Inner".toList]).Nodup ∧   -- Outer.Inner and Inner
    ¬ (outputNames "f".toList true ["Foo".toList, "FOO".toList]).Nodup := by
  constructor <;> decide

/-- the suffixes are the ones run.go uses (regenerated) -/
theorem name_plan_fact :
    Generated.nameSuffixes = [".pb.fm.go", "_{{.Message.Desc.Name | string | lower}}.pb.fm.go"] := by decide

/-- the plug-in keeps no state between the files of a request: no function of its package writes to a
    package-level variable (regenerated from the go/ast of `cmd/protoc-gen-fastmarshal`). What is generated for a
    .proto file is then a function of the request's descriptors, the options and that file alone; the exploration
    compares every file of the multi-file requests with the one-file request for it. -/
theorem generator_keeps_no_state_fact : Generated.generatorGlobalsWritten = [] := by decide

/-- the value options of the generator (flag.Value implementations; `Set` runs once per `name=value` token, so a
    repeatable option receives its values one call at a time, in the order of the parameter string): `apiversion` keeps a
    string (the last value), `specialname` keeps a Go map used as a set (regenerated from the go/ast of
    `cmd/protoc-gen-fastmarshal`). -/
theorem value_option_stores_fact :
    Generated.generatorValueOptionStores =
      [("apiversion", "protoAPIVersion", "string"), ("specialname", "specialNames", "map[string]struct{}")] := by decide

/-- … and a set filled one insertion at a time answers membership queries by the values it was given, however often
    and in whichever order they came: the model of `specialNames.Set` / `IsSpecial` (insert into the map / look the key
    up). The exploration passes two, three and six names in ascending, descending and mixed order and with repetitions
    (`genpipe.RepeatedShapes`) and requires the generated code to be the same. -/
def insertAll (store : String → Bool) : List String → String → Bool
  | [] => store
  | v :: vs => insertAll (fun n => n == v || store n) vs

theorem insertAll_mem (vs : List String) (store : String → Bool) (n : String) :
    insertAll store vs n = (vs.contains n || store n) := by
  induction vs generalizing store with
  | nil => simp [insertAll]
  | cons v vs ih =>
    simp only [insertAll, ih, List.contains_cons]
    cases h1 : vs.contains n <;> cases h2 : (n == v) <;> simp

theorem special_names_order_free (a b : List String) (h : ∀ n, n ∈ a ↔ n ∈ b) (n : String) :
    insertAll (fun _ => false) a n = insertAll (fun _ => false) b n := by
  rw [insertAll_mem, insertAll_mem, Bool.or_false, Bool.or_false, Bool.eq_iff_iff]
  simp [h n]

/-- routing (see `Bridge/Templates.lean`) -/
theorem routing_total :
    (∀ k ∈ Bridge.Templates.allKinds, Generated.sizeDispatchKinds.count k = 1) ∧
    (∀ k ∈ Bridge.Templates.allKinds, Generated.marshalDispatchKinds.count k = 1) ∧
    (∀ k ∈ Bridge.Templates.allKinds, Generated.unmarshalDispatchKinds.count k = 1) :=
  ⟨Bridge.Templates.size_dispatch_total, Bridge.Templates.marshal_dispatch_total, Bridge.Templates.unmarshal_dispatch_total⟩

/-- non-vacuity: distinct short names give distinct files -/
example : (outputNames "x".toList true ["A".toList, "Bc".toList, "b".toList]).Nodup := by decide

end Csproto.C16
