import Csproto.Bridge.EncoderFuncs
import Csproto.Bridge.DecoderFuncs
import Csproto.Proofs.Dec
/-
  C01 for the SOURCE: round trips stated about the functions TRANSLATED from `/repo`'s current encoder.go / decoder.go
  (`Generated/WireFuncs.lean`), with no function of the hand-written model in the statement.

  `source_roundtrip_uint64`: take any destination buffer, any cursor inside it, any field number 1 … 2^29-1 and any 64-bit
  value.  If `(*Encoder).EncodeUInt64(tag, v)` returns (it panics exactly when the buffer is too short:
  `EncoderFuncs.EncodeUInt64_refines`), then on the resulting buffer a Decoder — in either mode, whatever key span it
  remembered — positioned at the same cursor reads with `DecodeTag()` exactly `(tag, WireTypeVarint, nil)` and then with
  `DecodeUInt64()` exactly `(v, nil)`, and its cursor ends where the encoder's cursor ended: the bytes written are the bytes
  consumed.  Likewise `source_roundtrip_sint64` for `EncodeSInt64` / `DecodeSInt64` on every int64.

  The proofs go through the refinement theorems of `Bridge/EncoderFuncs`, `Bridge/DecoderFuncs` and the model's own round
  trip (`Dec.tag_at`, `Dec.scalar_at`): the hand-written model is only the intermediary.
-/
set_option linter.unusedSimpArgs false
set_option linter.unusedVariables false
namespace Csproto.C01.Source
open Csproto Csproto.Generated.WireFuncs Csproto.Bridge Csproto.Bridge.WireFuncs Csproto.Bridge.DecoderFuncs Csproto.Bridge.EncoderFuncs

/-- what a returning encoder call of `bs = key ++ payload` leaves: the model step succeeded -/
theorem enc_returns {σ : Type} {W : Go.Out σ Unit} (p : Bytes) (off : Nat) (op : EncOp) (getp : σ → Bytes) (geto : σ → BitVec 64)
    (hwire : ({ buf := p, off := off } : Enc).step op = EncOut.ofRes (({ buf := p, off := off } : Enc).store op.wire))
    (href : match ({ buf := p, off := off } : Enc).step op with
      | .ok e' => ∃ s, W = .ret () s ∧ getp s = e'.buf ∧ (geto s).toNat = e'.off
      | .panic => W = .panic
      | .err _ => False)
    (se : σ) (hret : W = .ret () se) :
    off + op.wire.length ≤ p.length ∧ getp se = writeAt p off op.wire ∧ (geto se).toNat = off + op.wire.length := by
  rw [hwire] at href
  by_cases hfit : off + op.wire.length ≤ p.length
  · rw [store_ok p off _ hfit] at href
    simp only [EncOut.ofRes] at href
    obtain ⟨s, hs, h1, h2⟩ := href
    rw [hret] at hs
    cases hs
    exact ⟨hfit, h1, h2⟩
  · rw [store_panic p off _ hfit] at href
    simp only [EncOut.ofRes] at href
    rw [hret] at href
    cases href

theorem decOf_at (p : Bytes) (off ks ke : BitVec 64) (fast : Bool) (bs : Bytes) (hfit : off.toNat + bs.length ≤ p.length) :
    (decOf (writeAt p off.toNat bs) off ks ke fast).At (p.take off.toNat) (bs ++ p.drop (off.toNat + bs.length)) := by
  constructor
  · simp [decOf, writeAt, List.append_assoc]
  · simp [decOf]; omega

theorem bv_eq_of_toNat {a b : BitVec 64} (h : a.toNat = b.toNat) : a = b := BitVec.eq_of_toNat_eq h

/-- **C01 for the source, uint64 fields**: bytes written by the source's `EncodeUInt64` are read back by the source's
    `DecodeTag` + `DecodeUInt64` as the same field number, wire type 0 and value, consuming exactly what was written. -/
theorem source_roundtrip_uint64 (fuel : Nat) (hf : 11 ≤ fuel) (p : Bytes) (off tag v mode ks ke : BitVec 64)
    (hp : p.length < 2 ^ 63) (hoff : off.toNat ≤ p.length) (ht1 : 1 ≤ tag.toNat) (ht : tag.toNat ≤ 536870911)
    (se : Encoder_EncodeUInt64.St) (hret : Encoder_EncodeUInt64 fuel p off tag v = .ret () se) :
    ∃ sd, Decoder_DecodeTag fuel se.e_p off mode ks ke = .ret (tag, 0#64, .nil) sd ∧
      sd.d_p = se.e_p ∧ sd.d_mode = mode ∧ sd.d_keyStart = off ∧
      ∃ sd2, Decoder_DecodeUInt64 fuel sd.d_p sd.d_offset sd.d_mode sd.d_keyStart sd.d_keyEnd = .ret (v, .nil) sd2 ∧
        sd2.d_offset = se.e_offset := by
  have htm : tag.toNat ≤ maxTagValue := ht
  have hv64 : v.toNat < two64 := by rw [two64_eq]; exact v.isLt
  -- the encoder call returned: the buffer is the model's
  obtain ⟨hfit, hbuf, hend⟩ := enc_returns (W := Encoder_EncodeUInt64 fuel p off tag v) p off.toNat (.varint tag.toNat v.toNat)
    (·.e_p) (·.e_offset) rfl (EncodeUInt64_refines fuel (by omega) p off tag v hp hoff) se hret
  simp only [EncOp.wire, List.length_append] at hfit hbuf hend
  have hlenw : (writeAt p off.toNat (encTag tag.toNat wtVarint ++ encVarint v.toNat)).length = p.length :=
    writeAt_length (by simp only [List.length_append]; omega)
  -- DecodeTag
  have hat := decOf_at p off ks ke false (encTag tag.toNat wtVarint ++ encVarint v.toNat) (by simp only [List.length_append]; omega)
  rw [List.append_assoc] at hat
  have htag := Dec.tag_at hat ht1 htm (by decide : wtVarint < 8)
  obtain ⟨t, w, e, sd, hdt, hdp, hdm, hmatch⟩ := DecodeTag_refines fuel hf se.e_p off mode ks ke false
    (by rw [hbuf, hlenw]; exact hp) (by rw [hbuf, hlenw]; exact hoff)
  rw [hbuf] at hmatch hdt hdp
  rw [htag] at hmatch
  simp only [Dec.afterTag_off, Dec.afterTag_ks, Dec.afterTag_ke] at hmatch
  obtain ⟨he, htn, hwn, hso, hsks, hske⟩ := hmatch
  subst he
  have htq : tag = t := (bv_eq_of_toNat htn).symm
  have hwq : w = 0#64 := bv_eq_of_toNat (by rw [hwn]; rfl)
  subst htq; subst hwq
  have hks : sd.d_keyStart = off := bv_eq_of_toNat (by rw [hsks]; simp [decOf])
  refine ⟨sd, by rw [hbuf]; exact hdt, by rw [hbuf]; exact hdp, hdm, hks, ?_⟩
  -- DecodeUInt64
  have hat2 := hat.afterTag
  have hd2 : decOf sd.d_p sd.d_offset sd.d_keyStart sd.d_keyEnd false =
      (decOf (writeAt p off.toNat (encTag tag.toNat wtVarint ++ encVarint v.toNat)) off ks ke false).afterTag (encTag tag.toNat wtVarint).length := by
    simp only [decOf, Dec.afterTag, hdp, hso, hsks, hske]
  have hsc := Dec.scalar_at (d := decOf sd.d_p sd.d_offset sd.d_keyStart sd.d_keyEnd false) (by rw [hd2]; exact hat2)
    (encVarint_ne_nil v.toNat) elVarint .nat v.toNat (elVarint_enc v.toNat hv64 _)
  obtain ⟨x, e2, sd2, hdu, _, _, _, _, hm2⟩ := DecodeUInt64_refines fuel hf sd.d_p sd.d_offset sd.d_mode sd.d_keyStart sd.d_keyEnd false
    (by rw [hdp, hlenw]; exact hp) (by rw [hdp, hlenw, hso]; simp [decOf]; omega)
  simp only [Dec.step, withAlloc, hsc] at hm2
  obtain ⟨he2, hx, ho2⟩ := hm2
  subst he2
  have hxq : v = x := (bv_eq_of_toNat hx).symm
  subst hxq
  refine ⟨sd2, hdu, bv_eq_of_toNat ?_⟩
  rw [ho2, hend]
  simp [decOf, hso]
  omega

/-- **C01 for the source, sint64 fields (zig-zag)**: bytes written by the source's `EncodeSInt64` are read back by the source's
    `DecodeTag` + `DecodeSInt64` as the same field number, wire type 0 and the same int64 (negative values included), consuming exactly what was written. -/
theorem source_roundtrip_sint64 (fuel : Nat) (hf : 11 ≤ fuel) (p : Bytes) (off tag v mode ks ke : BitVec 64)
    (hp : p.length < 2 ^ 63) (hoff : off.toNat ≤ p.length) (ht1 : 1 ≤ tag.toNat) (ht : tag.toNat ≤ 536870911)
    (se : Encoder_EncodeSInt64.St) (hret : Encoder_EncodeSInt64 fuel p off tag v = .ret () se) :
    ∃ sd, Decoder_DecodeTag fuel se.e_p off mode ks ke = .ret (tag, 0#64, .nil) sd ∧
      sd.d_p = se.e_p ∧ sd.d_mode = mode ∧ sd.d_keyStart = off ∧
      ∃ sd2, Decoder_DecodeSInt64 fuel sd.d_p sd.d_offset sd.d_mode sd.d_keyStart sd.d_keyEnd = .ret (v, .nil) sd2 ∧
        sd2.d_offset = se.e_offset := by
  have htm : tag.toNat ≤ maxTagValue := ht
  have hv64 : InI64 v.toInt := inI64_toInt v
  -- the encoder call returned: the buffer is the model's
  obtain ⟨hfit, hbuf, hend⟩ := enc_returns (W := Encoder_EncodeSInt64 fuel p off tag v) p off.toNat (.zigzag64 tag.toNat v.toInt)
    (·.e_p) (·.e_offset) rfl (EncodeSInt64_refines fuel (by omega) p off tag v hp hoff) se hret
  simp only [EncOp.wire, List.length_append] at hfit hbuf hend
  have hlenw : (writeAt p off.toNat (encTag tag.toNat wtVarint ++ encZigZag64 v.toInt)).length = p.length :=
    writeAt_length (by simp only [List.length_append]; omega)
  -- DecodeTag
  have hat := decOf_at p off ks ke false (encTag tag.toNat wtVarint ++ encZigZag64 v.toInt) (by simp only [List.length_append]; omega)
  rw [List.append_assoc] at hat
  have htag := Dec.tag_at hat ht1 htm (by decide : wtVarint < 8)
  obtain ⟨t, w, e, sd, hdt, hdp, hdm, hmatch⟩ := DecodeTag_refines fuel hf se.e_p off mode ks ke false
    (by rw [hbuf, hlenw]; exact hp) (by rw [hbuf, hlenw]; exact hoff)
  rw [hbuf] at hmatch hdt hdp
  rw [htag] at hmatch
  simp only [Dec.afterTag_off, Dec.afterTag_ks, Dec.afterTag_ke] at hmatch
  obtain ⟨he, htn, hwn, hso, hsks, hske⟩ := hmatch
  subst he
  have htq : tag = t := (bv_eq_of_toNat htn).symm
  have hwq : w = 0#64 := bv_eq_of_toNat (by rw [hwn]; rfl)
  subst htq; subst hwq
  have hks : sd.d_keyStart = off := bv_eq_of_toNat (by rw [hsks]; simp [decOf])
  refine ⟨sd, by rw [hbuf]; exact hdt, by rw [hbuf]; exact hdp, hdm, hks, ?_⟩
  -- DecodeSInt64
  have hat2 := hat.afterTag
  have hd2 : decOf sd.d_p sd.d_offset sd.d_keyStart sd.d_keyEnd false =
      (decOf (writeAt p off.toNat (encTag tag.toNat wtVarint ++ encZigZag64 v.toInt)) off ks ke false).afterTag (encTag tag.toNat wtVarint).length := by
    simp only [decOf, Dec.afterTag, hdp, hso, hsks, hske]
  have hsc := Dec.scalar_at (d := decOf sd.d_p sd.d_offset sd.d_keyStart sd.d_keyEnd false) (by rw [hd2]; exact hat2)
    (by unfold encZigZag64; exact encVarint_ne_nil _) elSint64 .int v.toInt (elSint64_enc v.toInt hv64 _)
  obtain ⟨x, e2, sd2, hdu, _, _, _, _, hm2⟩ := DecodeSInt64_refines fuel hf sd.d_p sd.d_offset sd.d_mode sd.d_keyStart sd.d_keyEnd false
    (by rw [hdp, hlenw]; exact hp) (by rw [hdp, hlenw, hso]; simp [decOf]; omega)
  simp only [Dec.step, withAlloc, hsc] at hm2
  obtain ⟨he2, hx, ho2⟩ := hm2
  subst he2
  have hxq : v = x := (BitVec.eq_of_toInt_eq hx).symm
  subst hxq
  refine ⟨sd2, hdu, bv_eq_of_toNat ?_⟩
  rw [ho2, hend]
  simp [decOf, hso]
  omega

/-- **C01 for the source, sint32 fields (zig-zag)**: bytes written by the source's `EncodeSInt32` are read back by the source's
    `DecodeTag` + `DecodeSInt32` as the same field number, wire type 0 and value, consuming exactly what was written. -/
theorem source_roundtrip_sint32 (fuel : Nat) (hf : 11 ≤ fuel) (p : Bytes) (off tag mode ks ke : BitVec 64) (v : BitVec 32)
    (hp : p.length < 2 ^ 63) (hoff : off.toNat ≤ p.length) (ht1 : 1 ≤ tag.toNat) (ht : tag.toNat ≤ 536870911)
    (se : Encoder_EncodeSInt32.St) (hret : Encoder_EncodeSInt32 fuel p off tag v = .ret () se) :
    ∃ sd, Decoder_DecodeTag fuel se.e_p off mode ks ke = .ret (tag, 0#64, .nil) sd ∧
      sd.d_p = se.e_p ∧ sd.d_mode = mode ∧ sd.d_keyStart = off ∧
      ∃ sd2, Decoder_DecodeSInt32 fuel sd.d_p sd.d_offset sd.d_mode sd.d_keyStart sd.d_keyEnd = .ret (v, .nil) sd2 ∧
        sd2.d_offset = se.e_offset := by
  have htm : tag.toNat ≤ maxTagValue := ht
  have hv64 : InI32 v.toInt := inI32_toInt v
  -- the encoder call returned: the buffer is the model's
  obtain ⟨hfit, hbuf, hend⟩ := enc_returns (W := Encoder_EncodeSInt32 fuel p off tag v) p off.toNat (.zigzag32 tag.toNat v.toInt)
    (·.e_p) (·.e_offset) rfl (EncodeSInt32_refines fuel (by omega) p off tag v hp hoff) se hret
  simp only [EncOp.wire, List.length_append] at hfit hbuf hend
  have hlenw : (writeAt p off.toNat (encTag tag.toNat wtVarint ++ encZigZag32 v.toInt)).length = p.length :=
    writeAt_length (by simp only [List.length_append]; omega)
  -- DecodeTag
  have hat := decOf_at p off ks ke false (encTag tag.toNat wtVarint ++ encZigZag32 v.toInt) (by simp only [List.length_append]; omega)
  rw [List.append_assoc] at hat
  have htag := Dec.tag_at hat ht1 htm (by decide : wtVarint < 8)
  obtain ⟨t, w, e, sd, hdt, hdp, hdm, hmatch⟩ := DecodeTag_refines fuel hf se.e_p off mode ks ke false
    (by rw [hbuf, hlenw]; exact hp) (by rw [hbuf, hlenw]; exact hoff)
  rw [hbuf] at hmatch hdt hdp
  rw [htag] at hmatch
  simp only [Dec.afterTag_off, Dec.afterTag_ks, Dec.afterTag_ke] at hmatch
  obtain ⟨he, htn, hwn, hso, hsks, hske⟩ := hmatch
  subst he
  have htq : tag = t := (bv_eq_of_toNat htn).symm
  have hwq : w = 0#64 := bv_eq_of_toNat (by rw [hwn]; rfl)
  subst htq; subst hwq
  have hks : sd.d_keyStart = off := bv_eq_of_toNat (by rw [hsks]; simp [decOf])
  refine ⟨sd, by rw [hbuf]; exact hdt, by rw [hbuf]; exact hdp, hdm, hks, ?_⟩
  -- DecodeSInt32
  have hat2 := hat.afterTag
  have hd2 : decOf sd.d_p sd.d_offset sd.d_keyStart sd.d_keyEnd false =
      (decOf (writeAt p off.toNat (encTag tag.toNat wtVarint ++ encZigZag32 v.toInt)) off ks ke false).afterTag (encTag tag.toNat wtVarint).length := by
    simp only [decOf, Dec.afterTag, hdp, hso, hsks, hske]
  have hsc := Dec.scalar_at (d := decOf sd.d_p sd.d_offset sd.d_keyStart sd.d_keyEnd false) (by rw [hd2]; exact hat2)
    (by unfold encZigZag32; exact encVarint_ne_nil _) elSint32 .int v.toInt (elSint32_enc v.toInt hv64 _)
  obtain ⟨x, e2, sd2, hdu, _, _, _, _, hm2⟩ := DecodeSInt32_refines fuel hf sd.d_p sd.d_offset sd.d_mode sd.d_keyStart sd.d_keyEnd false
    (by rw [hdp, hlenw]; exact hp) (by rw [hdp, hlenw, hso]; simp [decOf]; omega)
  simp only [Dec.step, withAlloc, hsc] at hm2
  obtain ⟨he2, hx, ho2⟩ := hm2
  subst he2
  have hxq : v = x := (BitVec.eq_of_toInt_eq hx).symm
  subst hxq
  refine ⟨sd2, hdu, bv_eq_of_toNat ?_⟩
  rw [ho2, hend]
  simp [decOf, hso]
  omega


/-- **C01 for the source, uint32 fields**: bytes written by the source's `EncodeUInt32` are read back by the source's
    `DecodeTag` + `DecodeUInt32` as the same field number, wire type 0 and value, consuming exactly what was written. -/
theorem source_roundtrip_uint32 (fuel : Nat) (hf : 11 ≤ fuel) (p : Bytes) (off tag mode ks ke : BitVec 64) (v : BitVec 32)
    (hp : p.length < 2 ^ 63) (hoff : off.toNat ≤ p.length) (ht1 : 1 ≤ tag.toNat) (ht : tag.toNat ≤ 536870911)
    (se : Encoder_EncodeUInt32.St) (hret : Encoder_EncodeUInt32 fuel p off tag v = .ret () se) :
    ∃ sd, Decoder_DecodeTag fuel se.e_p off mode ks ke = .ret (tag, 0#64, .nil) sd ∧
      sd.d_p = se.e_p ∧ sd.d_mode = mode ∧ sd.d_keyStart = off ∧
      ∃ sd2, Decoder_DecodeUInt32 fuel sd.d_p sd.d_offset sd.d_mode sd.d_keyStart sd.d_keyEnd = .ret (v, .nil) sd2 ∧
        sd2.d_offset = se.e_offset := by
  have htm : tag.toNat ≤ maxTagValue := ht
  have hsw : (BitVec.setWidth 64 v).toNat = v.toNat := by simp [BitVec.toNat_setWidth]; have := v.isLt; omega
  have hv64 : (BitVec.setWidth 64 v).toNat < two32 := by rw [hsw]; unfold two32; exact v.isLt
  -- the encoder call returned: the buffer is the model's
  obtain ⟨hfit, hbuf, hend⟩ := enc_returns (W := Encoder_EncodeUInt32 fuel p off tag v) p off.toNat (.varint tag.toNat (BitVec.setWidth 64 v).toNat)
    (·.e_p) (·.e_offset) rfl (EncodeUInt32_refines fuel (by omega) p off tag v hp hoff) se hret
  simp only [EncOp.wire, List.length_append] at hfit hbuf hend
  have hlenw : (writeAt p off.toNat (encTag tag.toNat wtVarint ++ encVarint (BitVec.setWidth 64 v).toNat)).length = p.length :=
    writeAt_length (by simp only [List.length_append]; omega)
  -- DecodeTag
  have hat := decOf_at p off ks ke false (encTag tag.toNat wtVarint ++ encVarint (BitVec.setWidth 64 v).toNat) (by simp only [List.length_append]; omega)
  rw [List.append_assoc] at hat
  have htag := Dec.tag_at hat ht1 htm (by decide : wtVarint < 8)
  obtain ⟨t, w, e, sd, hdt, hdp, hdm, hmatch⟩ := DecodeTag_refines fuel hf se.e_p off mode ks ke false
    (by rw [hbuf, hlenw]; exact hp) (by rw [hbuf, hlenw]; exact hoff)
  rw [hbuf] at hmatch hdt hdp
  rw [htag] at hmatch
  simp only [Dec.afterTag_off, Dec.afterTag_ks, Dec.afterTag_ke] at hmatch
  obtain ⟨he, htn, hwn, hso, hsks, hske⟩ := hmatch
  subst he
  have htq : tag = t := (bv_eq_of_toNat htn).symm
  have hwq : w = 0#64 := bv_eq_of_toNat (by rw [hwn]; rfl)
  subst htq; subst hwq
  have hks : sd.d_keyStart = off := bv_eq_of_toNat (by rw [hsks]; simp [decOf])
  refine ⟨sd, by rw [hbuf]; exact hdt, by rw [hbuf]; exact hdp, hdm, hks, ?_⟩
  -- DecodeUInt32
  have hat2 := hat.afterTag
  have hd2 : decOf sd.d_p sd.d_offset sd.d_keyStart sd.d_keyEnd false =
      (decOf (writeAt p off.toNat (encTag tag.toNat wtVarint ++ encVarint (BitVec.setWidth 64 v).toNat)) off ks ke false).afterTag (encTag tag.toNat wtVarint).length := by
    simp only [decOf, Dec.afterTag, hdp, hso, hsks, hske]
  have hsc := Dec.scalar_at (d := decOf sd.d_p sd.d_offset sd.d_keyStart sd.d_keyEnd false) (by rw [hd2]; exact hat2)
    (encVarint_ne_nil _) elUint32 .nat (BitVec.setWidth 64 v).toNat (elUint32_enc _ hv64 _)
  obtain ⟨x, e2, sd2, hdu, _, _, _, _, hm2⟩ := DecodeUInt32_refines fuel hf sd.d_p sd.d_offset sd.d_mode sd.d_keyStart sd.d_keyEnd false
    (by rw [hdp, hlenw]; exact hp) (by rw [hdp, hlenw, hso]; simp [decOf]; omega)
  simp only [Dec.step, withAlloc, hsc] at hm2
  obtain ⟨he2, hx, ho2⟩ := hm2
  subst he2
  have hxq : v = x := (BitVec.eq_of_toNat_eq (by rw [hx, hsw])).symm
  subst hxq
  refine ⟨sd2, hdu, bv_eq_of_toNat ?_⟩
  rw [ho2, hend]
  simp [decOf, hso]
  omega


/-- fixed32 field written by the translated `(*Encoder).EncodeFixed32` is read back by the translated
    `DecodeTag` + `DecodeFixed32` (no model function in the statement). -/
theorem source_roundtrip_fixed32 (fuel : Nat) (hf : 11 ≤ fuel) (p : Bytes) (off tag mode ks ke : BitVec 64) (v : BitVec 32)
    (hp : p.length < 2 ^ 63) (hoff : off.toNat ≤ p.length) (ht1 : 1 ≤ tag.toNat) (ht : tag.toNat ≤ 536870911)
    (se : Encoder_EncodeFixed32.St) (hret : Encoder_EncodeFixed32 fuel p off tag v = .ret () se) :
    ∃ sd, Decoder_DecodeTag fuel se.e_p off mode ks ke = .ret (tag, 5#64, .nil) sd ∧
      sd.d_p = se.e_p ∧ sd.d_mode = mode ∧ sd.d_keyStart = off ∧
      ∃ sd2, Decoder_DecodeFixed32 fuel sd.d_p sd.d_offset sd.d_mode sd.d_keyStart sd.d_keyEnd = .ret (v, .nil) sd2 ∧
        sd2.d_offset = se.e_offset := by
  have htm : tag.toNat ≤ maxTagValue := ht
  have hv32 : v.toNat < two32 := by unfold two32; exact v.isLt
  obtain ⟨hfit, hbuf, hend⟩ := enc_returns (W := Encoder_EncodeFixed32 fuel p off tag v) p off.toNat (.fixed32 tag.toNat v.toNat)
    (·.e_p) (·.e_offset) rfl (EncodeFixed32_refines fuel (by omega) p off tag v hp hoff) se hret
  simp only [EncOp.wire, List.length_append] at hfit hbuf hend
  have hl4 : (encFixed32 v.toNat).length = 4 := by simp [encFixed32]
  have hlenw : (writeAt p off.toNat (encTag tag.toNat wtFixed32 ++ encFixed32 v.toNat)).length = p.length :=
    writeAt_length (by simp only [List.length_append]; omega)
  have hat := decOf_at p off ks ke false (encTag tag.toNat wtFixed32 ++ encFixed32 v.toNat) (by simp only [List.length_append]; omega)
  rw [List.append_assoc] at hat
  have htag := Dec.tag_at hat ht1 htm (by decide : wtFixed32 < 8)
  obtain ⟨t, w, e, sd, hdt, hdp, hdm, hmatch⟩ := DecodeTag_refines fuel hf se.e_p off mode ks ke false
    (by rw [hbuf, hlenw]; exact hp) (by rw [hbuf, hlenw]; exact hoff)
  rw [hbuf] at hmatch hdt hdp
  rw [htag] at hmatch
  simp only [Dec.afterTag_off, Dec.afterTag_ks, Dec.afterTag_ke] at hmatch
  obtain ⟨he, htn, hwn, hso, hsks, hske⟩ := hmatch
  subst he
  have htq : tag = t := (bv_eq_of_toNat htn).symm
  have hwq : w = 5#64 := bv_eq_of_toNat (by rw [hwn]; rfl)
  subst htq; subst hwq
  have hks : sd.d_keyStart = off := bv_eq_of_toNat (by rw [hsks]; simp [decOf])
  refine ⟨sd, by rw [hbuf]; exact hdt, by rw [hbuf]; exact hdp, hdm, hks, ?_⟩
  have hat2 := hat.afterTag
  have hd2 : decOf sd.d_p sd.d_offset sd.d_keyStart sd.d_keyEnd false =
      (decOf (writeAt p off.toNat (encTag tag.toNat wtFixed32 ++ encFixed32 v.toNat)) off ks ke false).afterTag (encTag tag.toNat wtFixed32).length := by
    simp only [decOf, Dec.afterTag, hdp, hso, hsks, hske]
  have hel : ∀ rest, elFixed32 (encFixed32 v.toNat ++ rest) = .ok (v.toNat, (encFixed32 v.toNat).length) := by
    intro rest; simp [elFixed32, nz, decodeFixed32_enc _ hv32, hl4]
  have hne : encFixed32 v.toNat ≠ [] := by intro h; rw [h] at hl4; simp at hl4
  have hsc := Dec.scalar_at (d := decOf sd.d_p sd.d_offset sd.d_keyStart sd.d_keyEnd false) (by rw [hd2]; exact hat2)
    hne elFixed32 .nat v.toNat (hel _)
  obtain ⟨x, e2, sd2, hdu, _, _, _, _, hm2⟩ := DecodeFixed32_refines fuel sd.d_p sd.d_offset sd.d_mode sd.d_keyStart sd.d_keyEnd false
    (by rw [hdp, hlenw]; exact hp) (by rw [hdp, hlenw, hso]; simp [decOf]; omega)
  simp only [Dec.step, withAlloc, hsc] at hm2
  obtain ⟨he2, hx, ho2⟩ := hm2
  subst he2
  have hxq : v = x := (BitVec.eq_of_toNat_eq hx).symm
  subst hxq
  refine ⟨sd2, hdu, bv_eq_of_toNat ?_⟩
  rw [ho2, hend]
  simp [decOf, hso]
  omega

end Csproto.C01.Source
